-- GENERATED from sim/elvis-core/src/{protocols/arp/subnetting.rs, ip_table.rs, protocols/ipv4/ipv4_address.rs}
-- by tools/extract_subnet.py on every check; do not edit.
namespace Elvis.Gen.Subnet

/-- a computation that may hit a dev-profile panic -/
abbrev Chk := Except String
abbrev U32 := BitVec 32
/-- `Ipv4Address([u8; 4])` through `to_u32` (certified: From<u32>/to_u32 are to_be_bytes/from_be_bytes, Ord derived) -/
abbrev Ipv4Address := BitVec 32

def U32.add (site : String) (a b : U32) : Chk U32 :=
  if a.toNat + b.toNat < 2 ^ 32 then pure (a + b) else throw site
def U32.sub (site : String) (a b : U32) : Chk U32 :=
  if b.toNat ≤ a.toNat then pure (a - b) else throw site
def U32.shl (site : String) (a b : U32) : Chk U32 :=
  if b.toNat < 32 then pure (a <<< b.toNat) else throw site
def U32.shr (site : String) (a b : U32) : Chk U32 :=
  if b.toNat < 32 then pure (a >>> b.toNat) else throw site
/-- `u32::to_be_bytes` followed by `Ipv4Address::new` is `Ipv4Address::from(u32)` -/
def U32.to_be_bytes (a : U32) : Chk U32 := pure a
def Ipv4Address.new (bytes : U32) : Chk Ipv4Address := pure bytes
def Ipv4Address.from_u32 (n : U32) : Chk Ipv4Address := pure n
def Ordering.reverse (o : Ordering) : Chk Ordering := pure o.swap

class ToU32 (α : Type) where to_u32 : α → Chk U32
instance : ToU32 (BitVec 32) := ⟨pure⟩
class Cmp (α : Type) where cmp : α → α → Chk Ordering
/-- `Ord for u32` / derived `Ord for Ipv4Address` -/
instance : Cmp (BitVec 32) := ⟨fun x y => pure (if x < y then .lt else if x = y then .eq else .gt)⟩


structure Ipv4Mask where
  f_0 : U32
deriving DecidableEq, Repr

structure Ipv4Net where
  f_network_id : Ipv4Address
  f_mask : Ipv4Mask
deriving DecidableEq, Repr

structure Obm where
  f_0 : Ipv4Net
deriving DecidableEq, Repr

def clamp (num : U32) (min : U32) (max : U32) : Chk U32 :=
  (((pure min) >>= fun t8_ => ((pure max) >>= fun t9_ => pure (decide (t8_ ≤ t9_)))) >>= fun t7_ => if t7_ then (((pure num) >>= fun t2_ => ((pure min) >>= fun t3_ => pure (decide (t2_ < t3_)))) >>= fun t1_ => if t1_ then (pure min) else (((pure num) >>= fun t5_ => ((pure max) >>= fun t6_ => pure (decide (t5_ > t6_)))) >>= fun t4_ => if t4_ then (pure max) else (pure num))) else throw "panic:assert:clamp")

def Ipv4Mask.from_bitcount (size : U32) : Chk Ipv4Mask :=
  (((pure size) >>= fun t18_ => ((pure (0 : U32)) >>= fun t19_ => ((pure (32 : U32)) >>= fun t20_ => clamp t18_ t19_ t20_))) >>= fun size => (((pure size) >>= fun t2_ => ((pure (0 : U32)) >>= fun t3_ => pure (t2_ == t3_))) >>= fun t1_ => if t1_ then ((pure (0 : U32)) >>= fun t4_ => pure <| Ipv4Mask.mk t4_) else (((pure size) >>= fun t6_ => ((pure (32 : U32)) >>= fun t7_ => pure (t6_ == t7_))) >>= fun t5_ => if t5_ then ((pure (4294967295 : U32)) >>= fun t8_ => pure <| Ipv4Mask.mk t8_) else (((((pure (1 : U32)) >>= fun t14_ => ((pure size) >>= fun t15_ => U32.shl "panic:shl-overflow:from_bitcount" t14_ t15_)) >>= fun t12_ => ((pure (1 : U32)) >>= fun t13_ => U32.sub "panic:sub-overflow:from_bitcount" t12_ t13_)) >>= fun t10_ => (((pure (32 : U32)) >>= fun t16_ => ((pure size) >>= fun t17_ => U32.sub "panic:sub-overflow:from_bitcount" t16_ t17_)) >>= fun t11_ => U32.shl "panic:shl-overflow:from_bitcount" t10_ t11_)) >>= fun t9_ => pure <| Ipv4Mask.mk t9_))))

def Ipv4Mask.to_u32 (self : Ipv4Mask) : Chk U32 :=
  ((pure self) >>= fun t1_ => pure t1_.f_0)

instance : ToU32 Ipv4Mask := ⟨Ipv4Mask.to_u32⟩
/-- derived `Ord for Ipv4Mask(u32)` -/
instance : Cmp Ipv4Mask := ⟨fun x y => Cmp.cmp x.f_0 y.f_0⟩

def Ipv4Net.new (ip : Ipv4Address) (mask : Ipv4Mask) : Chk Ipv4Net :=
  (((((pure ip) >>= fun t5_ => ToU32.to_u32 t5_) >>= fun t3_ => (((pure mask) >>= fun t6_ => ToU32.to_u32 t6_) >>= fun t4_ => pure (t3_ &&& t4_))) >>= fun t2_ => Ipv4Address.from_u32 t2_) >>= fun t1_ => ((pure mask) >>= fun t7_ => pure ({ f_network_id := t1_, f_mask := t7_ } : Ipv4Net)))

def Ipv4Net.new_1 (ip : Ipv4Address) : Chk Ipv4Net :=
  ((pure ip) >>= fun t1_ => (((pure (32 : U32)) >>= fun t3_ => Ipv4Mask.from_bitcount t3_) >>= fun t2_ => pure ({ f_network_id := t1_, f_mask := t2_ } : Ipv4Net)))

def Ipv4Net.id (self : Ipv4Net) : Chk Ipv4Address :=
  ((pure self) >>= fun t1_ => pure t1_.f_network_id)

def Ipv4Net.mask (self : Ipv4Net) : Chk Ipv4Mask :=
  ((pure self) >>= fun t1_ => pure t1_.f_mask)

def Ipv4Net.broadcast (self : Ipv4Net) : Chk Ipv4Address :=
  (((pure self) >>= fun t9_ => Ipv4Net.id t9_) >>= fun ip_id => ((((pure ip_id) >>= fun t5_ => ToU32.to_u32 t5_) >>= fun t3_ => (((((pure self) >>= fun t8_ => pure t8_.f_mask) >>= fun t7_ => ToU32.to_u32 t7_) >>= fun t6_ => pure (~~~ t6_)) >>= fun t4_ => U32.add "panic:add-overflow:broadcast" t3_ t4_)) >>= fun new_ip_u32 => (((pure new_ip_u32) >>= fun t2_ => U32.to_be_bytes t2_) >>= fun t1_ => Ipv4Address.new t1_)))

def Ipv4Net.contains (self : Ipv4Net) (address : Ipv4Address) : Chk Bool :=
  ((((pure self) >>= fun t4_ => Ipv4Net.id t4_) >>= fun t3_ => ToU32.to_u32 t3_) >>= fun t1_ => ((((pure address) >>= fun t7_ => ToU32.to_u32 t7_) >>= fun t5_ => ((((pure self) >>= fun t9_ => Ipv4Net.mask t9_) >>= fun t8_ => ToU32.to_u32 t8_) >>= fun t6_ => pure (t5_ &&& t6_))) >>= fun t2_ => pure (t1_ == t2_)))

def Ipv4Net.overlaps (self : Ipv4Net) (other : Ipv4Net) : Chk Bool :=
  ((((pure self) >>= fun t5_ => Ipv4Net.id t5_) >>= fun t3_ => (((pure other) >>= fun t6_ => Ipv4Net.broadcast t6_) >>= fun t4_ => pure (decide (t3_ ≤ t4_)))) >>= fun t1_ => if t1_ then (((pure self) >>= fun t9_ => Ipv4Net.broadcast t9_) >>= fun t7_ => (((pure other) >>= fun t10_ => Ipv4Net.id t10_) >>= fun t8_ => pure (decide (t7_ ≥ t8_)))) else pure false)

def Obm.cmp (self : Obm) (other : Obm) : Chk Ordering :=
  (((((pure self) >>= fun t11_ => pure t11_.f_0) >>= fun t10_ => Ipv4Net.mask t10_) >>= fun t9_ => ((((pure other) >>= fun t14_ => pure t14_.f_0) >>= fun t13_ => Ipv4Net.mask t13_) >>= fun t12_ => Cmp.cmp t9_ t12_)) >>= fun t1_ => match t1_ with | Ordering.eq => ((((pure self) >>= fun t4_ => pure t4_.f_0) >>= fun t3_ => Ipv4Net.id t3_) >>= fun t2_ => ((((pure other) >>= fun t7_ => pure t7_.f_0) >>= fun t6_ => Ipv4Net.id t6_) >>= fun t5_ => Cmp.cmp t2_ t5_)) | other_ord => ((pure other_ord) >>= fun t8_ => Ordering.reverse t8_))

end Elvis.Gen.Subnet
