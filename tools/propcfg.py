"""Per-property configuration of ./check (one table; MANIFEST.json is generated from it)."""

COMMON_TRUST = "Lean 4.33.0 kernel (axioms per theorem audited on every run: must be within propext, Classical.choice, Quot.sound); tools/extract.py; the correspondence harness (sampling); rustc/std/tokio as compiled."

PROPS = {
    "C07": {
        "bin": "hcore", "sub": "c07",
        "lean_modules": ["ElvisVerif.Props.C07"],
        "required_theorems": [
            "Elvis.Msg.c07_len", "Elvis.Msg.c07_new", "Elvis.Msg.c07_header", "Elvis.Msg.c07_concat",
            "Elvis.Msg.c07_slice", "Elvis.Msg.c07_cut", "Elvis.Msg.c07_remove_front", "Elvis.Msg.c07_eq_iff",
            "Elvis.Msg.c07_ranges", "Elvis.Msg.c07_step", "Elvis.Msg.c07_history", "Elvis.Msg.c07_independent",
        ],
        "quick": {"cases": 2000, "extra": {"ops": 30}},
        "thorough": {"cases": 200000, "extra": {"ops": 30}},
        "design_ref": "DESIGN.md section 8, C07",
        "technique": "Lean 4 refinement proof (Message ops = byte-vector ops, induction over op sequences) + differential correspondence run of model vs. real Message",
        "text": "Proof: every Message operation (new/header/concatenate/slice by all six range forms/cut/remove_front/clone, ==, len, to_vec) is proved in Lean to refine the same operation on plain byte lists, including exactly when it panics, and the refinement is lifted by induction to every operation sequence over a pool (c07_history) and to independence of pool members (c07_independent). The hand-written model is tied to the code by running the real Message and the compiled model on the same generated op sequences and diffing the full pool contents after every op; a native oracle compares the real Message with Vec<u8> shadows.",
        "level_note": COMMON_TRUST + " Arc<Vec<u8>> sharing is invisible in the value model; absence of in-place mutation is checked on the code side by dumping every pool member after every op and by the extractor refusing unsafe/get_mut/make_mut/interior mutability in message/.",
        "assumptions": ["model is hand-written; agreement with message.rs is established by sampling (op sequences), not by proof",
                        "usize overflow (lengths near 2^64) not modelled"],
    },
}
