import ElvisVerif.Lemmas.C01Run
/-!
# C01 — stream safety: delivered is a prefix of submitted, in both directions, exactly once

Property (properties.jsonl, C01): "the bytes handed to the receiving application are at every
moment a prefix of the bytes the sending application submitted, in both directions at once,
whatever the network does to segments in transit …".

System: `Model/TcpSys.lean` — two endpoints, the monotone history of every segment ever emitted,
`deliver x i` hands history element `i` to endpoint `x` any number of times in any order (loss,
duplication, reordering, arbitrary delay), ghost logs `submitted` / `delivered` per side.

What is quantified over (`C01.RunOk iss {} ops`, defined in `Lemmas/C01Run.lean`): every op list
from the empty system in which
* each side is opened actively (`open`) or passively (`listen`) with its ISN `iss x` while still
  unused — active/passive, passive/active and simultaneous open, at any point of the run, any
  ISN pair, any MTU;
* `write` (any size, any state; `send` ignores it outside SYN-SENT / SYN-RECEIVED / ESTABLISHED),
  `read`, `tick`, `emit`, `drop` are unrestricted;
* `deliver x i` is restricted to history elements *addressed to `x`* (source port = the peer's,
  destination port = `x`'s): the real `Tcp::demux` routes by the port pair, the model's `deliver`
  does not look at ports, so this is an explicit hypothesis (see notes/C01p.md);
* no `close`, `abort`, raw `inject`.

Hypothesis H31 (`C01.Lt31`): fewer than 2^31 bytes submitted per direction over the whole run
(the design's bound 2^31 − 2^17 is stronger; `c01_safety_h31` is the statement with that bound).

Proof: the invariant `C01.Inv` (`Lemmas/C01Sys.lean`) — send facts S1-S3, segment validity of
queues / heap / history, receive facts R1-R2 — is preserved by every step (`C01.step_inv`); no
fact about acknowledgment numbers is needed.
-/
namespace Elvis.Tcp
open Elvis.Tcp.C01

/-- **the C01 safety predicate**: what B's application received is a prefix of what A's submitted,
    and vice versa -/
def C01Safe (s : Sys) : Prop :=
  s.b.delivered <+: s.a.submitted ∧ s.a.delivered <+: s.b.submitted

/-- the design's H31: fewer than `2^31 - 2^17` bytes submitted in each direction -/
def H31 (s : Sys) : Prop :=
  s.a.submitted.length < 2147483648 - 131072 ∧ s.b.submitted.length < 2147483648 - 131072

theorem H31.lt31 {s : Sys} (h : H31 s) : Lt31 s := ⟨by have := h.1; omega, by have := h.2; omega⟩

/-- the invariant implies the safety predicate -/
theorem c01_safe_of_inv {iss : SideId → Seq} {s : Sys} (h : Inv iss s) : C01Safe s :=
  ⟨(h.side .B).pre, (h.side .A).pre⟩

/-- **C01 safety.**  For every ISN pair and every op list of the closed system (see the file
    header: opens/listens of unused sides, writes, reads, ticks, emissions, deliveries of any
    history element to its addressee in any order and multiplicity, drops): if the run does not
    panic and fewer than 2^31 bytes were submitted per direction, delivered is a prefix of
    submitted in both directions.  As `ops` is arbitrary, this covers every moment of every run
    (`c01_safety_every_step` spells that out). -/
theorem c01_safety (iss : SideId → Seq) (ops : List Op) (hok : RunOk iss {} ops)
    (s' : Sys) (rs : List Res) (hrun : Sys.run {} ops = .ok (s', rs)) (h31 : Lt31 s') : C01Safe s' :=
  c01_safe_of_inv (run_inv (Inv.init iss) hok hrun h31)

/-- the same under the design's hypothesis H31 (`2^31 - 2^17` bytes per direction) -/
theorem c01_safety_h31 (iss : SideId → Seq) (ops : List Op) (hok : RunOk iss {} ops)
    (s' : Sys) (rs : List Res) (hrun : Sys.run {} ops = .ok (s', rs)) (h31 : H31 s') : C01Safe s' :=
  c01_safety iss ops hok s' rs hrun h31.lt31

/-- H31 as a condition on the *inputs*: fewer than 2^31 bytes are written on each side over the
    whole run (`writeBytes x ops` = total size of the `write x` ops) -/
theorem c01_safety_writes (iss : SideId → Seq) (ops : List Op) (hok : RunOk iss {} ops)
    (s' : Sys) (rs : List Res) (hrun : Sys.run {} ops = .ok (s', rs))
    (ha : writeBytes .A ops < 2147483648) (hb : writeBytes .B ops < 2147483648) : C01Safe s' :=
  c01_safety iss ops hok s' rs hrun (Lt31.of_writes hrun ha hb)

/-- "at every moment": the safety predicate holds after every prefix of the run; H31 is only
    required of the final logs (the logs grow monotonically) -/
theorem c01_safety_every_step (iss : SideId → Seq) (ops : List Op) (hok : RunOk iss {} ops)
    (s' : Sys) (rs : List Res) (hrun : Sys.run {} ops = .ok (s', rs)) (h31 : Lt31 s')
    (k : Nat) (sk : Sys) (rk : List Res) (hk : Sys.run {} (ops.take k) = .ok (sk, rk)) : C01Safe sk := by
  have hsplit : Sys.run {} (ops.take k ++ ops.drop k) = .ok (s', rs) := by
    rw [List.take_append_drop]; exact hrun
  obtain ⟨s1, r1, r2, e1, e2⟩ := run_append hsplit
  rw [hk] at e1
  cases e1
  exact c01_safety iss (ops.take k) (hok.take k) sk rk hk (Lt31.of_run e2 h31)

/-- the run hypothesis is never vacuous: with MTUs that leave room for the headers the closed
    system does not panic (`c01_closed_system_no_panic`), so safety holds for the state every such
    run ends in -/
theorem c01_safety_total (iss : SideId → Seq) (ops : List Op) (hok : RunOk iss {} ops)
    (hv : ∀ op ∈ ops, op.Valid) :
    ∃ s' rs, Sys.run {} ops = .ok (s', rs) ∧ (Lt31 s' → C01Safe s') := by
  obtain ⟨⟨s', rs⟩, e⟩ := c01_closed_system_no_panic ops hv
  exact ⟨s', rs, e, fun h31 => c01_safety iss ops hok s' rs e h31⟩

/-- The statement without H31.  NOT provable, and false of the code in this network model: the
    history is monotone (no segment-lifetime bound), so after 2^32 bytes in one direction a
    duplicate of the segment that carried `submitted[p, p+len)` is again acceptable at
    `RCV.NXT = ISS + 1 + p + 2^32` (same 32-bit sequence number), passes the heap gate, and its
    bytes are appended to the stream in place of `submitted[p + 2^32, …)`.  Real TCP excludes this
    by the maximum segment lifetime (RFC 9293 3.4.2/3.4.3), which the model's network does not
    have.  A witness needs 2^32 submitted bytes, far outside what `decide` can evaluate, so the
    statement is kept as a definition only.  (Between 2^31 and 2^32 − 2^16 bytes the statement is
    presumably still true, but its proof needs the acknowledgment/window facts the safety
    invariant deliberately avoids: only they exclude a valid segment 2^31 *ahead* of `RCV.NXT`.) -/
def C01SafetyFull : Prop :=
  ∀ (iss : SideId → Seq) (ops : List Op), RunOk iss {} ops →
    ∀ (s' : Sys) (rs : List Res), Sys.run {} ops = .ok (s', rs) → C01Safe s'

/-! ## exactly once -/

/-- **exactly once, in order**: for each side `x`
    * the `i`-th byte handed to `x`'s application is the `i`-th byte the peer submitted (so every
      submitted position is delivered at most once, none is skipped, none is invented), and
    * when `x` has a synchronised TCB, the sequence space it has consumed, `RCV.NXT - IRS - 1`,
      is exactly the number of stream bytes it has taken (delivered + buffered), and those bytes
      are `submitted[0, RCV.NXT - IRS - 1)` of the peer: one sequence number, one byte, once. -/
def C01ExactlyOnce (s : Sys) : Prop :=
  ∀ x : SideId,
    (∀ i, i < (s.side x).delivered.length → (s.side x).delivered[i]? = (s.side x.peer).submitted[i]?) ∧
    (∀ t, (s.side x).tcb = some t → t.state ≠ .SynSent →
      (t.rcv.nxt - t.rcv.irs - 1).toNat = (s.side x).delivered.length + t.incoming.text.length ∧
      (s.side x).delivered ++ t.incoming.text =
        (s.side x.peer).submitted.take ((t.rcv.nxt - t.rcv.irs - 1).toNat))

theorem consumed_toNat (iss : Seq) (n : Nat) (hn : n < 4294967296) :
    (iss + 1 + BitVec.ofNat 32 n - iss - 1).toNat = n := by
  have : iss + 1 + BitVec.ofNat 32 n - iss - 1 = BitVec.ofNat 32 n := by
    generalize BitVec.ofNat 32 n = d
    bv_omega
  rw [this, BitVec.toNat_ofNat]
  omega

theorem c01_exactly_once_of_inv {iss : SideId → Seq} {s : Sys} (h : Inv iss s) (h31 : Lt31 s) :
    C01ExactlyOnce s := by
  intro x
  have hsd := h.side x
  refine ⟨fun i hi => ?_, fun t ht hns => ?_⟩
  · obtain ⟨rest, hrest⟩ := hsd.pre
    rw [← hrest, List.getElem?_append_left hi]
  · have ti := hsd.tcb t ht
    obtain ⟨hnxt, hpre⟩ := ti.rcv1 hns
    have hirs := ti.irs hns
    have hlen := hpre.length_le
    rw [List.length_append] at hlen
    have hb := h31.side x.peer
    have hc : (t.rcv.nxt - t.rcv.irs - 1).toNat = (s.side x).delivered.length + t.incoming.text.length := by
      rw [hnxt, hirs]
      exact consumed_toNat _ _ (by omega)
    refine ⟨hc, ?_⟩
    rw [hc, ← List.length_append]
    exact List.prefix_iff_eq_take.1 hpre

/-- **C01 exactly-once.**  Same quantification and hypotheses as `c01_safety`. -/
theorem c01_exactly_once (iss : SideId → Seq) (ops : List Op) (hok : RunOk iss {} ops)
    (s' : Sys) (rs : List Res) (hrun : Sys.run {} ops = .ok (s', rs)) (h31 : Lt31 s') : C01ExactlyOnce s' :=
  c01_exactly_once_of_inv (run_inv (Inv.init iss) hok hrun h31) h31

/-! ## non-vacuity: concrete runs that satisfy the hypotheses -/

/-- evaluate a run: all ops are C01 ops, it does not panic, and the final state satisfies `p` -/
def c01CheckRun (iss : SideId → Seq) (ops : List Op) (p : Sys → Bool) : Bool :=
  runOkB iss {} ops && match Sys.run {} ops with
    | .ok (s, _) => p s
    | .error _ => false

theorem c01CheckRun_sound {iss : SideId → Seq} {ops : List Op} {p : Sys → Bool}
    (h : c01CheckRun iss ops p = true) :
    RunOk iss {} ops ∧ ∃ s' rs, Sys.run {} ops = .ok (s', rs) ∧ p s' = true := by
  unfold c01CheckRun at h
  rw [Bool.and_eq_true] at h
  refine ⟨runOkB_sound h.1, ?_⟩
  have h2 := h.2
  split at h2
  · rename_i s rs e
    exact ⟨s, rs, e, h2⟩
  · cases h2

def lt31B (s : Sys) : Bool := s.a.submitted.length < 2147483648 && s.b.submitted.length < 2147483648

/-- active / passive open: the F-C01-1 schedule (data sent from SYN-RECEIVED overtakes the
    SYN-ACK, one retransmission): hypotheses of `c01_safety` hold and 3 bytes arrive -/
example : c01CheckRun (fun | .A => 1000 | .B => 5000)
    [.open .A 1000 1500, .listen .B 5000 1500, .emit .A, .deliver .B 0, .write .B [1, 2, 3], .emit .B,
     .deliver .A 2, .deliver .A 1, .tick .B 150, .emit .B, .deliver .A 4, .read .A]
    (fun s => lt31B s && s.a.delivered == [1, 2, 3] && s.b.submitted == [1, 2, 3]) = true := by decide

/-- passive / active open with the roles exchanged and a listen after the peer's open -/
example : c01CheckRun (fun | .A => 0 | .B => 2147483647)
    [.open .B 2147483647 100, .listen .A 0 200, .write .B [7], .emit .B, .deliver .A 0, .emit .A,
     .deliver .B 1, .emit .B, .deliver .A 2, .deliver .A 3, .deliver .A 3, .read .A]
    (fun s => lt31B s && s.a.delivered == [7]) = true := by decide

/-- simultaneous open, ISN of B = 2^32 - 1 (sequence numbers wrap at the first data byte), an
    early write, data in both directions, one duplicate delivery -/
example : c01CheckRun (fun | .A => 7 | .B => 4294967295)
    [.open .A 7 1500, .open .B 4294967295 100, .write .A [9, 8], .emit .A, .emit .B, .deliver .B 0,
     .deliver .A 1, .emit .A, .emit .B, .deliver .A 4, .deliver .B 2, .deliver .B 3, .write .B [5], .emit .B,
     .deliver .A 7, .deliver .A 7, .read .A, .read .B]
    (fun s => lt31B s && s.a.delivered == [5] && s.b.delivered == [9, 8]) = true := by decide

/-- the addressing hypothesis is not idle: the model's `deliver` hands a segment to ANY side, so
    with equal ISNs a side accepts its own data as the peer's — the run below (B is handed A's own
    SYN, then A its own data segment after a regular handshake) breaks the prefix property; it is
    excluded by `RunOk` (`deliver .A 3` is not addressed to A) and cannot happen in the real stack,
    where `Tcp::demux` looks the session up by the port pair. -/
example :
    (match Sys.run {} [.open .A 100 1500, .listen .B 100 1500, .emit .A, .deliver .B 0, .emit .B, .deliver .A 1,
        .emit .A, .write .A [1, 2], .emit .A, .deliver .A 3, .read .A] with
      | .ok (s, _) => s.a.delivered == [1, 2] && s.b.submitted == []
      | .error _ => false) = true ∧
    runOkB (fun _ => 100) {} [.open .A 100 1500, .listen .B 100 1500, .emit .A, .deliver .B 0, .emit .B, .deliver .A 1,
        .emit .A, .write .A [1, 2], .emit .A, .deliver .A 3, .read .A] = false := by decide

end Elvis.Tcp
