import ElvisVerif.Lemmas.TcpRelLoss
/-!
# The schedule of `C03ReleaseStatement` itself, from quiet states

`C03ReleaseStatement` (`Props/C03Release.lean`) asks for: `close A`, `close B`, `fairRound k` (both retransmission timers
expire, `k` exchange phases), `tick A (2·MSL + RTO + 1)`, `tick B (2·MSL + RTO + 1)`.  `release_statement_quiet`: from a
quiet pair (`QuietX`, `Lemmas/TcpRelChain.lean`) `k = 2` works: the ticks of the fair round only flag the two FINs again
(`Tcb.advanceTime_closedT`), then the FINs and the ACKs cross as in `release_simultaneous`.
-/
namespace Elvis.Tcp
open Tcb Elvis.ModCmp Elvis.Tcp.Fin

/-- the schedule of `C03ReleaseStatement` -/
def statementRound (k : Nat) (s : Sys) : Except String Sys := do
  let s1 ← Prod.fst <$> s.step (.close .A)
  let s2 ← Prod.fst <$> s1.step (.close .B)
  let s3 ← fairRound k s2
  let s4 ← Prod.fst <$> s3.step (.tick .A (TIME_WAIT + RTO + 1))
  Prod.fst <$> s4.step (.tick .B (TIME_WAIT + RTO + 1))

theorem release_statement_quiet (s : Sys) (ta tb : Tcb) (ha : (s.side .A).tcb = some ta) (hb : (s.side .B).tcb = some tb)
    (qa : QuietX .A ta tb) (qb : QuietX .B tb ta)
    (ma : ta.timeouts.retransmission ≤ RTO) (mb : tb.timeouts.retransmission ≤ RTO)
    (wa : ta.timeouts.timeWait = none) (wb : tb.timeouts.timeWait = none) :
    ∃ s', statementRound 2 s = .ok s' ∧ (s'.side .A).tcb = none ∧ (s'.side .B).tcb = none := by
  obtain ⟨cA, _⟩ := chain1 .A ta tb qa
  obtain ⟨cB, _⟩ := chain1 .B tb ta qb
  -- the two closes
  have st1 : s.step (.close .A) = .ok (s.setSide .A { s.side .A with tcb := some (closedT ta) }, .closed .Ok) := by
    simp only [Sys.step, Op.side, ha, cA]
  have h1b : ((s.setSide .A { s.side .A with tcb := some (closedT ta) }).side .B).tcb = some tb := hb
  have st2 : (s.setSide .A { s.side .A with tcb := some (closedT ta) }).step (.close .B) =
      .ok ((s.setSide .A { s.side .A with tcb := some (closedT ta) }).setSide .B
        { s.side .B with tcb := some (closedT tb) }, .closed .Ok) := by
    simp only [Sys.step, Op.side, h1b, cB]
    rfl
  generalize hs0 : (s.setSide .A { s.side .A with tcb := some (closedT ta) }).setSide .B
    { s.side .B with tcb := some (closedT tb) } = s0 at st2
  have h0a : (s0.side .A).tcb = some (closedT ta) := by rw [← hs0]; rfl
  have h0b : (s0.side .B).tcb = some (closedT tb) := by rw [← hs0]; rfl
  -- both retransmission timers expire: the FINs are flagged again
  obtain ⟨tA, _, fa, eA', lpA, rpA⟩ := advanceTime_closedT ta (RTO + 1) (by omega) wa
  obtain ⟨tB, _, fb, eB', lpB, rpB⟩ := advanceTime_closedT tb (RTO + 1) (by omega) wb
  have st3 : s0.step (.tick .A (RTO + 1)) = .ok (s0.setSide .A { s0.side .A with tcb := some (closedT tA) }, .tick .Ignore) := by
    simp only [Sys.step, Op.side, h0a, eA']
  generalize hs1 : s0.setSide .A { s0.side .A with tcb := some (closedT tA) } = s1 at st3
  have h1b' : (s1.side .B).tcb = some (closedT tb) := by rw [← hs1]; exact h0b
  have st4 : s1.step (.tick .B (RTO + 1)) = .ok (s1.setSide .B { s1.side .B with tcb := some (closedT tB) }, .tick .Ignore) := by
    simp only [Sys.step, Op.side, h1b', eB']
  generalize hs2 : s1.setSide .B { s1.side .B with tcb := some (closedT tB) } = s2 at st4
  have h2a : (s2.side .A).tcb = some (closedT tA) := by rw [← hs2, ← hs1]; rfl
  have h2b : (s2.side .B).tcb = some (closedT tB) := by rw [← hs2]; rfl
  have qA : QuietX .A tA tB :=
    ⟨by rw [fa.st]; exact qa.st, by rw [fa.inc]; exact qa.heap, by rw [fa.inc]; exact qa.buf, by rw [fa.otext]; exact qa.text,
      by rw [fa.rtx, qa.rtx]; rfl, by rw [fa.one]; exact qa.one, by rw [fa.snd]; exact qa.una,
      by rw [fb.rcv, fa.snd]; exact qa.sync, by rw [fa.rcv]; exact qa.wnd, by rw [fa.mtu]; exact qa.mtu,
      lpA.trans qa.lp, rpA.trans qa.rp⟩
  have qB : QuietX .B tB tA :=
    ⟨by rw [fb.st]; exact qb.st, by rw [fb.inc]; exact qb.heap, by rw [fb.inc]; exact qb.buf, by rw [fb.otext]; exact qb.text,
      by rw [fb.rtx, qb.rtx]; rfl, by rw [fb.one]; exact qb.one, by rw [fb.snd]; exact qb.una,
      by rw [fa.rcv, fb.snd]; exact qb.sync, by rw [fb.rcv]; exact qb.wnd, by rw [fb.mtu]; exact qb.mtu,
      lpB.trans qb.lp, rpB.trans qb.rp⟩
  obtain ⟨_, ta1, eA1, fA⟩ := chain1 .A tA tB qA
  obtain ⟨_, tb1, eB1, fB⟩ := chain1 .B tB tA qB
  -- the FINs cross
  have hFa : IsFin (finSeg tB) tA.rcv.nxt tA.snd.nxt := by rw [qB.sync, ← qA.sync]; exact isFin_finSeg tB
  have hFb : IsFin (finSeg tA) tB.rcv.nxt tB.snd.nxt := by rw [qA.sync, ← qB.sync]; exact isFin_finSeg tA
  obtain ⟨aA2, rA2, ta3, eA3, c1, c2, c3, c4, c5, c6, kAck, kAp1, kAp2⟩ := chain2 .A tA tB ta1 qA fA (finSeg tB) hFa
  obtain ⟨aB2, rB2, tb3, eB3, d1, d2, d3, d4, d5, d6, kBck, kBp1, kBp2⟩ := chain2 .B tB tA tb1 qB fB (finSeg tA) hFb
  obtain ⟨s3, ph1, r23, h3a, h3b, h3sa, h3sb, h3da, h3db, h3len⟩ :=
    phase_eval s2 (closedT tA) (closedT tB) ta1 tb1 (closingT ta1) (closingT tb1) [finSeg tA] [finSeg tB]
      h2a h2b eA1 eB1 aB2 aA2
      (fun g hg => by
        simp only [List.mem_singleton] at hg; subst hg
        exact ⟨qA.lp, qA.rp⟩)
      (fun g hg => by
        simp only [List.mem_singleton] at hg; subst hg
        exact ⟨qB.lp, qB.rp⟩)
  rw [rA2] at h3a h3da
  rw [rB2] at h3b h3db
  -- the ACKs cross
  have hAa : IsAck ⟨tb1.finAckHdr, []⟩ (tA.rcv.nxt + 1) (tA.snd.nxt + 1) := by rw [qB.sync, ← qA.sync]; exact kBck
  have hAb : IsAck ⟨ta1.finAckHdr, []⟩ (tB.rcv.nxt + 1) (tB.snd.nxt + 1) := by rw [qA.sync, ← qB.sync]; exact kAck
  obtain ⟨ta4, aA4, rA4, sA4, wA4⟩ := chain3 .A tA tB ta1 ta3 qA fA ⟨c1, c2, c3, c4, c5, c6⟩ _ hAa
  obtain ⟨tb4, aB4, rB4, sB4, wB4⟩ := chain3 .B tB tA tb1 tb3 qB fB ⟨d1, d2, d3, d4, d5, d6⟩ _ hAb
  obtain ⟨s4, ph2, r34, h4a, h4b, h4sa, h4sb, h4da, h4db, h4len⟩ :=
    phase_eval s3 (closingT ta1) (closingT tb1) ta3 tb3 ta4 tb4 [⟨ta1.finAckHdr, []⟩] [⟨tb1.finAckHdr, []⟩]
      h3a h3b eA3 eB3 aB4 aA4
      (fun g hg => by
        simp only [List.mem_singleton] at hg; subst hg
        exact ⟨kAp1.trans qA.lp, kAp2.trans qA.rp⟩)
      (fun g hg => by
        simp only [List.mem_singleton] at hg; subst hg
        exact ⟨kBp1.trans qB.lp, kBp2.trans qB.rp⟩)
  rw [rA4] at h4a h4da
  rw [rB4] at h4b h4db
  -- 2·MSL + RTO pass
  obtain ⟨ta5, tkA⟩ := (advanceTime_timeWait ta4 (TIME_WAIT + RTO + 1) TIME_WAIT wA4).1 (by omega)
  obtain ⟨tb5, tkB⟩ := (advanceTime_timeWait tb4 (TIME_WAIT + RTO + 1) TIME_WAIT wB4).1 (by omega)
  have st5 : s4.step (.tick .A (TIME_WAIT + RTO + 1)) =
      .ok (s4.setSide .A { s4.side .A with tcb := none, listen := none }, .tick .CloseConnection) := by
    simp only [Sys.step, Op.side, h4a, tkA]
  have h5b : ((s4.setSide .A { s4.side .A with tcb := none, listen := none }).side .B).tcb = some tb4 := h4b
  have st6 : (s4.setSide .A { s4.side .A with tcb := none, listen := none }).step (.tick .B (TIME_WAIT + RTO + 1)) =
      .ok ((s4.setSide .A { s4.side .A with tcb := none, listen := none }).setSide .B
        { s4.side .B with tcb := none, listen := none }, .tick .CloseConnection) := by
    simp only [Sys.step, Op.side, h5b, tkB]
    rfl
  refine ⟨(s4.setSide .A { s4.side .A with tcb := none, listen := none }).setSide .B
    { s4.side .B with tcb := none, listen := none }, ?_, rfl, rfl⟩
  have hfr : fairRound 2 s0 = .ok s4 := by
    unfold fairRound
    rw [st3]
    dsimp only
    rw [st4]
    simp only [phases, ph1, ph2]
  unfold statementRound
  simp only [st1, st2, hfr, st5, st6, Functor.map, Except.map, bind, Except.bind, pure, Except.pure]

end Elvis.Tcp
