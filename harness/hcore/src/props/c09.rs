//! C09: correspondence + oracle runs (sub-commands `c09` / `c09-*`).
use hcommon::*;

pub fn run(args: &Args) {
    eprintln!("hcore: {} not implemented yet", args.prop);
    std::process::exit(2);
}
