#!/bin/bash
# usage: tools/try_seed.sh <property> <patch.diff>  -- apply a seeded change to /repo, run the quick check, restore
P=$1; PATCH=$2
cd /repo && git apply --check "$PATCH" || { echo "patch does not apply"; exit 2; }
git apply "$PATCH"
cp /verif/evidence/$P.json /tmp/evidence_$P.json.keep 2>/dev/null
cd /verif && timeout 3000 ./check $P 2>/dev/null | grep -E "^(OK|VIOLATION|KNOWN)" | cut -c1-220
cp /tmp/evidence_$P.json.keep /verif/evidence/$P.json 2>/dev/null
cd /repo && git checkout -- . && git clean -fdq sim >/dev/null 2>&1
git -C /repo status --short | head -3
