import ElvisVerif.Lemmas.TcpFullHsDrain
/-!
# Invariants of the handshake states

`HsInv s`, over plain steps (on top of `Good`, `FInv`):
* `q` — while a TCB is in SYN-SENT / SYN-RECEIVED a SYN-bearing segment (its SYN / SYN-ACK) is on its retransmission
  queue (there is no completeness invariant in `SndInv`: `cover` counts the SYN whether or not it is queued);
* `r` — in SYN-RECEIVED `RCV.NXT = IRS + 1` and nothing is buffered;
* `ha`, `hist` — every parked segment / history element that carries text has the ACK bit.
-/
namespace Elvis.Tcp.Full
open Elvis.ModCmp Elvis.Tcp.Tcb

structure HsTcb (t : Tcb) : Prop where
  q : (t.state = .SynSent ∨ t.state = .SynReceived) →
    ∃ g ∈ t.outgoing.retransmit.map (·.segment), g.hdr.ctl.syn = true
  qa : t.state = .SynReceived →
    ∃ g ∈ t.outgoing.retransmit.map (·.segment), g.hdr.ctl.syn = true ∧ g.hdr.ctl.ack = true
  r : t.state = .SynReceived → t.rcv.nxt = t.rcv.irs + 1 ∧ t.incoming.text = []
  ha : ∀ σ ∈ t.incoming.segments, σ.text ≠ [] → σ.hdr.ctl.ack = true

structure HsInv (s : Sys) : Prop where
  tcb : ∀ x t, (s.side x).tcb = some t → HsTcb t
  hist : ∀ σ ∈ s.history, σ.text ≠ [] → σ.hdr.ctl.ack = true

/-! ## TCB level -/

theorem send_rtx (t : Tcb) (m : List UInt8) : (t.send m).outgoing.retransmit = t.outgoing.retransmit := by
  unfold send; split <;> rfl

theorem send_inctext (t : Tcb) (m : List UInt8) : (t.send m).incoming = t.incoming := by
  unfold send; split <;> rfl

theorem receive_rtx (t : Tcb) : t.receive.1.outgoing.retransmit = t.outgoing.retransmit := by
  unfold receive; split <;> rfl

theorem receive_text_nil (t : Tcb) (h : t.incoming.text = []) : t.receive.1.incoming.text = [] := by
  unfold receive; split
  all_goals first | rfl | exact h

theorem advanceTime_rtxseg (t : Tcb) (dt : Nat) (t' : Tcb) (r : AdvanceTimeResult) (e : t.advanceTime dt = .ok (t', r)) :
    t'.outgoing.retransmit.map (·.segment) = t.outgoing.retransmit.map (·.segment) := by
  unfold advanceTime at e
  cases h1 : t.advanceRetransmission dt with
  | error err => rw [h1] at e; simp at e
  | ok t1 =>
    rw [h1] at e
    dsimp only at e
    have k1 : t1.outgoing.retransmit.map (·.segment) = t.outgoing.retransmit.map (·.segment) := by
      unfold advanceRetransmission at h1
      split at h1
      · cases h1
        show (t.outgoing.retransmit.map _).map _ = _
        rw [List.map_map]; rfl
      · cases h1; rfl
    split at e
    · split at e
      · cases e; exact k1
      · cases e; exact k1
    · cases e; exact k1

theorem segmentize_sup (m fuel : Nat) (s : Tcb) (q : Nat) (u : Tcb) (e : segmentize m fuel s q = .ok u) : Sup s u := by
  induction fuel generalizing s q with
  | zero => cases e; exact Sup.refl _
  | succ n ih =>
    rw [segmentize_succ] at e
    split at e
    · cases e; exact Sup.refl _
    · split at e
      · cases e
      · have := ih _ _ e
        intro tr htr
        exact this tr (by show tr ∈ s.outgoing.retransmit ++ _; exact List.mem_append_left _ htr)

/-- `segments()` keeps every queued segment (flags aside) -/
theorem segments_rtxseg (t t' : Tcb) (out : List Segment) (e : t.segments = .ok (t', out)) (hst : C01.Ok3 t.state) :
    ∀ g ∈ t.outgoing.retransmit.map (·.segment), g ∈ t'.outgoing.retransmit.map (·.segment) := by
  have key : ∃ v b, segmentizeIfOpen (clearOneshot t) = .ok v ∧ t' = markSent v b := by
    have e' := e
    rw [segments_eq] at e'
    cases hv : segmentizeIfOpen (clearOneshot t) with
    | error err => rw [hv] at e'; cases e'
    | ok v =>
      rw [hv] at e'
      dsimp only at e'
      have hfp : t.finPending = false := C01.Ok3.finPending hst
      rw [hfp] at e'
      unfold finIfPending at e'
      simp only [Bool.false_eq_true, if_false] at e'
      cases e'
      exact ⟨v, _, rfl, rfl⟩
  obtain ⟨v, b, hv, rfl⟩ := key
  have hw : Sup (clearOneshot t) v := by
    unfold segmentizeIfOpen at hv
    split at hv
    all_goals first
      | (split at hv
         · cases hv
         · exact segmentize_sup _ _ _ _ _ hv)
      | (cases hv; exact Sup.refl _)
  intro g hg
  obtain ⟨tr, htr, rfl⟩ := List.mem_map.1 hg
  have hv' : tr ∈ v.outgoing.retransmit := hw tr htr
  have : (markSent v b).outgoing.retransmit = v.outgoing.retransmit.map (fun x => { x with needsTransmit := false }) := by
    unfold markSent; split <;> rfl
  rw [this, List.map_map]
  exact List.mem_map.2 ⟨tr, hv', rfl⟩

/-- SYN-SENT → SYN-RECEIVED (simultaneous open): `RCV.NXT = IRS + 1`, nothing else on the receive side changes -/
theorem proc_ss_sr (t : Tcb) (g : Segment) (t' : Tcb) (r : ProcessSegmentResult)
    (e : t.processSegment g = .ok (t', r)) (hst : t.state = .SynSent) (hfin : g.hdr.ctl.fin = false)
    (hst' : t'.state = .SynReceived) : t'.rcv.nxt = t'.rcv.irs + 1 ∧ t'.incoming = t.incoming ∧
      ∃ g ∈ t'.outgoing.retransmit.map (·.segment), g.hdr.ctl.syn = true ∧ g.hdr.ctl.ack = true := by
  have h1 : seqCheck t g.hdr (BitVec.ofNat 32 g.text.length) = .ok (t, none) := by
    unfold seqCheck; rw [hst]
  unfold processSegment at e
  dsimp only at e
  rw [h1] at e
  simp only [andThen_none] at e
  cases h2 : ackBlock t g.hdr with
  | error x => rw [h2] at e; simp [B.andThen] at e
  | ok p2 =>
    obtain ⟨t2, r2⟩ := p2
    rw [h2] at e
    have f2 := C01.ackBlock_fr (by rw [hst]; trivial) h2
    have st2 : t2.state = .SynSent := f2.synSent.2 hst
    cases r2 with
    | some r2 =>
      simp only [andThen_some, Except.ok.injEq, Prod.mk.injEq] at e
      rw [← e.1, st2] at hst'; cases hst'
    | none =>
      simp only [andThen_none] at e
      cases h3 : rstBlock t2 g.hdr with
      | error x => rw [h3] at e; simp [B.andThen] at e
      | ok p3 =>
        obtain ⟨t3, r3⟩ := p3
        rw [h3] at e
        have e3 : t3 = t2 := C01.rstBlock_eq h3
        subst e3
        cases r3 with
        | some r3 =>
          simp only [andThen_some, Except.ok.injEq, Prod.mk.injEq] at e
          rw [← e.1, st2] at hst'; cases hst'
        | none =>
          simp only [andThen_none] at e
          cases h4 : synBlock t3 g.hdr with
          | error x => rw [h4] at e; simp [B.andThen] at e
          | ok p4 =>
            obtain ⟨t4, r4⟩ := p4
            rw [h4] at e
            -- block 4 in SYN-SENT
            have key : (t4.state = .SynReceived ∧ t4.rcv.nxt = t4.rcv.irs + 1 ∧ t4.incoming = t3.incoming ∧ r4 ≠ none ∧
                  ∃ g ∈ t4.outgoing.retransmit.map (·.segment), g.hdr.ctl.syn = true ∧ g.hdr.ctl.ack = true) ∨
                (t4.state ≠ .SynReceived ∧ t4.state ≠ .SynSent) ∨ (t4.state = .SynSent ∧ r4 ≠ none) := by
              unfold synBlock at h4
              split at h4
              · first
                  | (cases h4; exact Or.inr (Or.inr ⟨st2, by simp⟩))
                  | (rw [if_pos st2] at h4; cases h4; exact Or.inr (Or.inr ⟨st2, by simp⟩))
              · rw [st2] at h4
                dsimp only at h4
                split at h4
                · rw [enqueueThen_eq] at h4
                  cases h4
                  right; left
                  rw [(enqueueBuilt_frame _ _).2.2.2.2.1]
                  exact ⟨by simp, by simp⟩
                · rw [enqueueThen_eq] at h4
                  cases h4
                  left
                  refine ⟨by rw [(enqueueBuilt_frame _ _).2.2.2.2.1], by rw [(enqueueBuilt_frame _ _).2.1],
                    by rw [(enqueueBuilt_frame _ _).2.2.2.1], by simp, ?_⟩
                  unfold enqueueBuilt
                  rw [if_pos (by simp [Hdr.built, Hdr.withSyn, Hdr.withAck, Hdr.withWnd, headerBuilder])]
                  refine ⟨_, List.mem_map.2 ⟨_, List.mem_append_right _ (List.mem_singleton.2 rfl), rfl⟩, ?_, ?_⟩ <;>
                    simp [Transmit.new, Hdr.built, Hdr.withSyn, Hdr.withAck, Hdr.withWnd, headerBuilder, Hdr.builder]
            rcases key with ⟨_, k2, k3, k4, k5⟩ | ⟨n1, n2⟩ | ⟨k1, k4⟩
            · cases r4 with
              | none => exact absurd rfl k4
              | some r4 =>
                simp only [andThen_some, Except.ok.injEq, Prod.mk.injEq] at e
                rw [← e.1]
                exact ⟨k2, k3.trans f2.inc, k5⟩
            · exfalso
              cases r4 with
              | some r4 =>
                simp only [andThen_some, Except.ok.injEq, Prod.mk.injEq] at e
                rw [← e.1] at hst'; exact n1 hst'
              | none =>
                simp only [andThen_none] at e
                cases h5 : textBlock t4 g.hdr g.text (BitVec.ofNat 32 g.text.length) with
                | error x => rw [h5] at e; simp [B.andThen] at e
                | ok p5 =>
                  obtain ⟨t5, r5⟩ := p5
                  rw [h5] at e
                  have st5 : t5.state = t4.state := (textBlock_edges _ _ _ _ _ _ h5).1.state
                  cases r5 with
                  | some r5 =>
                    simp only [andThen_some, Except.ok.injEq, Prod.mk.injEq] at e
                    rw [← e.1, st5] at hst'; exact n1 hst'
                  | none =>
                    simp only [andThen_none] at e
                    cases h6 : finBlock t5 g.hdr (BitVec.ofNat 32 g.text.length) with
                    | error x => rw [h6] at e; simp at e
                    | ok p6 =>
                      obtain ⟨t6, r6⟩ := p6
                      rw [h6] at e
                      have e6 : t6 = t5 := C01.finBlock_eq hfin h6
                      subst e6
                      cases r6 <;> (simp only [Except.ok.injEq, Prod.mk.injEq] at e; rw [← e.1, st5] at hst'; exact n1 hst')
            · exfalso
              cases r4 with
              | none => exact absurd rfl k4
              | some r4 =>
                simp only [andThen_some, Except.ok.injEq, Prod.mk.injEq] at e
                rw [← e.1, k1] at hst'; cases hst'

/-- the same for `segment_arrives` on an idle heap -/
theorem segmentArrives_ss_sr (t : Tcb) (g : Segment) (t' : Tcb) (e : t.segmentArrives g = .ok (t', .Ok))
    (hst : t.state = .SynSent) (hheap : t.incoming.segments = []) (hfin : g.hdr.ctl.fin = false)
    (hst' : t'.state = .SynReceived) : t'.rcv.nxt = t'.rcv.irs + 1 ∧ t'.incoming.text = t.incoming.text ∧
      ∃ g ∈ t'.outgoing.retransmit.map (·.segment), g.hdr.ctl.syn = true ∧ g.hdr.ctl.ack = true := by
  rcases arrive_unfold t g t' e with ⟨hns, _, _⟩ | ⟨_, e1⟩
  · exact absurd hst hns
  · rw [hheap, C01.push_nil] at e1
    have e1' : drain (0 + 1 + 1) { t with incoming.segments := [g] } = .ok (t', .Ok) := e1
    rcases drain_unfold (0 + 1) _ t' e1' with ⟨_, hpk⟩ | ⟨top, rest, s1, r1, hpeek, hpop, _, hp, hd, e2⟩
    · exfalso
      rcases hpk with hpk | ⟨top, _, hns, _⟩
      · simp [LHeap.peek] at hpk
      · exact hns hst
    · have htop : top = g := by
        have : LHeap.peek [g] = some top := hpeek
        rw [C01.peek_single] at this
        cases this; rfl
      subst htop
      have hrest : rest = [] := by
        have : LHeap.pop segLe [top] = (some top, rest) := hpop
        rw [C01.pop_single] at this
        cases this; rfl
      subst hrest
      have hs1 : s1.incoming.segments = [] := processSegment_heap _ _ _ _ hp
      have ht' : t' = s1 := by
        rcases drain_unfold 0 s1 t' e2 with ⟨h, _⟩ | ⟨top2, _, _, _, hpeek2, _⟩
        · exact h
        · rw [hs1] at hpeek2; simp [LHeap.peek] at hpeek2
      rw [ht'] at hst' ⊢
      obtain ⟨k1, k2, k3⟩ := proc_ss_sr { t with incoming.segments := [] } top s1 r1 hp hst hfin hst'
      exact ⟨k1, by rw [k2], k3⟩

/-- LISTEN creates a TCB only for a SYN -/
theorem listen_syn (σ : Segment) (issl : Seq) (mtu : U16) (tcb : Tcb)
    (h1 : segmentArrivesListen σ issl mtu = .ok (some (.Tcb tcb))) : σ.hdr.ctl.syn = true := by
  cases hr : σ.hdr.ctl.rst with
  | true =>
    unfold segmentArrivesListen at h1
    simp [hr] at h1
  | false =>
    cases ha : σ.hdr.ctl.ack with
    | true =>
      unfold segmentArrivesListen at h1
      simp [hr, ha, Hdr.build_zero] at h1
    | false =>
      cases hs : σ.hdr.ctl.syn with
      | false =>
        unfold segmentArrivesListen at h1
        simp [hr, ha, hs] at h1
      | true => rfl

/-! ## system level -/

variable {iss : SideId → Seq} {mt : SideId → U16}

theorem hs_local (s : Sys) (h : HsInv s) (x : SideId) (t t' : Tcb) (sd' : Side) (new : List Segment)
    (ht : (s.side x).tcb = some t) (hsd : sd'.tcb = some t') (hst : t'.state = t.state)
    (hq : ∀ g ∈ t.outgoing.retransmit.map (·.segment), g ∈ t'.outgoing.retransmit.map (·.segment))
    (hrcv : t'.rcv = t.rcv) (htext : t'.incoming.text = t.incoming.text ∨ t'.incoming.text = [])
    (hheap : t'.incoming.segments = t.incoming.segments)
    (hnew : ∀ σ ∈ new, σ.text ≠ [] → σ.hdr.ctl.ack = true) : HsInv ((s.setSide x sd').record new) := by
  refine ⟨fun y u hu => ?_, fun σ hσ => ?_⟩
  · rw [side_record, side_setSide_if] at hu
    split at hu
    · rename_i hyx
      subst hyx
      rw [hsd] at hu; cases hu
      have f := h.tcb y t ht
      refine ⟨fun hs => ?_, fun hs => ?_, fun hs => ?_, by rw [hheap]; exact f.ha⟩
      · obtain ⟨g, hg, hsyn⟩ := f.q (by rw [← hst]; exact hs)
        exact ⟨g, hq g hg, hsyn⟩
      · obtain ⟨g, hg, hsyn⟩ := f.qa (by rw [← hst]; exact hs)
        exact ⟨g, hq g hg, hsyn⟩
      · obtain ⟨r1, r2⟩ := f.r (by rw [← hst]; exact hs)
        refine ⟨by rw [hrcv]; exact r1, ?_⟩
        rcases htext with e | e
        · rw [e]; exact r2
        · exact e
    · exact h.tcb y u hu
  · rw [mem_history_record, history_setSide] at hσ
    rcases hσ with hn | ho
    · exact hnew σ hn
    · exact h.hist σ ho

theorem hs_local0 (s : Sys) (h : HsInv s) (x : SideId) (t t' : Tcb) (sd' : Side)
    (ht : (s.side x).tcb = some t) (hsd : sd'.tcb = some t') (hst : t'.state = t.state)
    (hq : ∀ g ∈ t.outgoing.retransmit.map (·.segment), g ∈ t'.outgoing.retransmit.map (·.segment))
    (hrcv : t'.rcv = t.rcv) (htext : t'.incoming.text = t.incoming.text ∨ t'.incoming.text = [])
    (hheap : t'.incoming.segments = t.incoming.segments) : HsInv (s.setSide x sd') := by
  have := hs_local s h x t t' sd' [] ht hsd hst hq hrcv htext hheap (fun σ hσ => by cases hσ)
  rw [record_nil] at this
  exact this

theorem hsinv_step (s : Sys) (hg : Good iss s) (hf : FInv iss mt s) (h : HsInv s) (op : Op) (hp : Op.Plain s op)
    (s' : Sys) (r : Res) (e : s.step op = .ok (s', r)) (hg' : Good iss s') : HsInv s' := by
  cases op with
  | «open» x i mtu => exact hp.elim
  | listen x i mtu => exact hp.elim
  | inject x seg => exact hp.elim
  | abort x => exact hp.elim
  | drop x => exact hp.elim
  | close x => exact hp.elim
  | write x bytes =>
    simp only [Sys.step, Op.side] at e
    split at e
    · simp only [Except.ok.injEq, Prod.mk.injEq] at e
      rw [← e.1]; exact h
    · rename_i tcb htcb
      simp only [Except.ok.injEq, Prod.mk.injEq] at e
      rw [← e.1]
      obtain ⟨fr, _, _⟩ := send_local tcb bytes
      exact hs_local0 s h x tcb (tcb.send bytes) _ htcb rfl (send_keep tcb bytes).state
        (fun g hg' => by rw [send_rtx]; exact hg') fr.rcv (Or.inl (by rw [send_inctext])) fr.heap
  | read x =>
    simp only [Sys.step, Op.side] at e
    split at e
    · simp only [Except.ok.injEq, Prod.mk.injEq] at e
      rw [← e.1]; exact h
    · rename_i tcb htcb
      simp only [Except.ok.injEq, Prod.mk.injEq] at e
      rw [← e.1]
      obtain ⟨fr, _, _⟩ := receive_local tcb
      have htx : tcb.receive.1.incoming.text = tcb.incoming.text ∨ tcb.receive.1.incoming.text = [] := by
        unfold receive; split
        all_goals first | exact Or.inr rfl | exact Or.inl rfl
      exact hs_local0 s h x tcb tcb.receive.1 _ htcb rfl (receive_keep tcb).state
        (fun g hg' => by rw [receive_rtx]; exact hg') fr.rcv htx fr.heap
  | tick x ms =>
    simp only [Sys.step, Op.side] at e
    split at e
    · simp only [Except.ok.injEq, Prod.mk.injEq] at e
      rw [← e.1]; exact h
    · rename_i tcb htcb
      split at e
      · simp at e
      · rename_i tcb' h1
        simp only [Except.ok.injEq, Prod.mk.injEq] at e
        rw [← e.1]
        obtain ⟨fr, _, _⟩ := advanceTime_local tcb ms tcb' h1
        obtain ⟨t2, r2, e2, same, hst⟩ := advanceTime_spec tcb ms
        rw [h1] at e2
        cases e2
        exact hs_local0 s h x tcb tcb' _ htcb rfl hst
          (fun g hg' => by rw [advanceTime_rtxseg tcb ms tcb' _ h1]; exact hg') fr.rcv
          (Or.inl (by rw [same.incoming])) fr.heap
      · rename_i tcb' h1
        exfalso
        simp only [Except.ok.injEq, Prod.mk.injEq] at e
        have ha := hg'.conv.nr.alive x
        rw [← e.1, side_setSide_same] at ha
        simp at ha
  | emit x =>
    simp only [Sys.step, Op.side] at e
    split at e
    · simp only [Except.ok.injEq, Prod.mk.injEq] at e
      rw [← e.1]; exact h
    · rename_i tcb htcb
      split at e
      · simp at e
      · rename_i tcb' segs h1
        simp only [Except.ok.injEq, Prod.mk.injEq] at e
        have hs'x : (s'.side x).tcb = some tcb' := by rw [← e.1, side_record, side_setSide_same]
        obtain ⟨rx1, rx2⟩ := segments_rx tcb tcb' segs h1
        obtain ⟨l, hnew⟩ := segments_l tcb tcb' segs h1 (hg.conv.full.fresh x tcb htcb).fresh
        have hst3 : C01.Ok3 tcb.state := (hg.tinv x tcb htcb).st
        rw [← e.1]
        refine hs_local s h x tcb tcb' _ segs htcb rfl (segments_keep tcb tcb' segs h1).state
          (segments_rtxseg tcb tcb' segs h1 hst3) rx1 (Or.inl (by rw [rx2])) (by rw [rx2]) (fun σ hσ hne => ?_)
        rcases hnew σ hσ with ho | ⟨tr, htr, hts⟩
        · exact ((hg.ext.tcb x tcb htcb).one σ.hdr ho).2.1
        · rw [← hts] at hne ⊢
          rcases (hg'.ext.tcb x tcb' hs'x).rtxa tr htr with ha | hsyn
          · exact ha
          · obtain ⟨v, _⟩ := (hg'.tinv x tcb' hs'x).rtx tr.segment (List.mem_map.2 ⟨tr, htr, rfl⟩)
            exact absurd (v.syn hsyn).2 hne
  | deliver x i =>
    simp only [Sys.step, Op.side] at e
    split at e
    · simp only [Except.ok.injEq, Prod.mk.injEq] at e
      rw [← e.1]; exact h
    · rename_i σ hn
      obtain ⟨hsrc, hdst⟩ := hp σ hn
      have hmem : σ ∈ s.history := nth_mem s i σ hn
      have hval : C01.Valid (iss x.peer) (s.side x.peer).submitted σ := hg.conv.c01.hist σ hmem x.peer hsrc
      obtain ⟨tp, htp⟩ : ∃ tp, (s.side x.peer).tcb = some tp := by
        cases hq : (s.side x.peer).tcb with
        | some tp => exact ⟨tp, rfl⟩
        | none => exact absurd hsrc ((hf.none x.peer hq).1 σ hmem)
      unfold Sys.arrive at e
      dsimp only at e
      split at e
      · rename_i tcb htcb
        split at e
        · simp at e
        · rename_i tcb' h1
          simp only [Except.ok.injEq, Prod.mk.injEq] at e
          have hs'x : (s'.side x).tcb = some tcb' := by rw [← e.1, side_setSide_same]
          have h3' := (hg'.tinv x tcb' hs'x).st
          have hrk := arrive_rank hg x tcb tcb' σ htcb hmem hsrc h1 h3'
          have ti := hg.tinv x tcb htcb
          have hN := hg.sent_lt x tcb htcb
          have hissx := hg.iss_eq x tcb htcb
          have he := early_of_conv hg.conv x tcb htcb
          have h31 : (s.side x.peer).submitted.length < 2147483648 := by have := hg.room.side x.peer; omega
          have hAz := hg.conv.full.ack x
          unfold AckLink at hAz
          rw [htcb, htp] at hAz
          have r3 := ((hg.conv.full.inv.link x).rcv tcb tp htcb htp).1
          have htop : top (iss x) tp ≤ tcb.sent := by rw [← hissx]; exact top_le r3
          have f := h.tcb x tcb htcb
          have soσ : SegOk (iss x) tcb.sent σ := ⟨hg.conv.nr.hist σ hmem, fun hab => by
            have := hAz.hist tcb tp rfl rfl σ hmem hsrc hab
            rw [hissx] at this
            exact ⟨this.1, by omega⟩, h.hist σ hmem⟩
          have soh : ∀ g ∈ tcb.incoming.segments, SegOk (iss x) tcb.sent g := fun g hgm =>
            ⟨(hg.conv.nr.tcb x tcb htcb).heap g hgm, fun hab => by
              have := hAz.heap tcb tp rfl rfl g hgm hab
              rw [hissx] at this
              exact ⟨this.1, by omega⟩, f.ha g hgm⟩
          have hsub := segmentArrives_heap_sub tcb σ tcb' .Ok h1
          have ftcb' : HsTcb tcb' := by
            refine ⟨fun hs => ?_, fun hs => ?_, fun hs => ?_, fun τ hτ => ?_⟩
            · have hsup := segmentArrives_sup hN tcb σ tcb' h1 ti h31 hval he rfl soσ soh hs
              have hst0 : tcb.state = .SynSent ∨ tcb.state = .SynReceived := by
                rcases ti.st.cases with h0 | h0 | h0
                · exact Or.inl h0
                · exact Or.inr h0
                · exfalso
                  rw [h0] at hrk
                  rcases hs with h' | h' <;> (rw [h'] at hrk; revert hrk; decide)
              obtain ⟨g, hgm, hsyn⟩ := f.q hst0
              obtain ⟨tr, htr, rfl⟩ := List.mem_map.1 hgm
              exact ⟨tr.segment, List.mem_map.2 ⟨tr, hsup tr htr, rfl⟩, hsyn⟩
            · rcases ti.st.cases with h0 | h0 | h0
              · have hidle := ((hg.ext.wf.side x).1 tcb htcb).2.1
                exact (segmentArrives_ss_sr tcb σ tcb' h1 h0 (hidle h0) hval.fin hs).2.2
              · have hsup := segmentArrives_sup hN tcb σ tcb' h1 ti h31 hval he rfl soσ soh (Or.inr hs)
                obtain ⟨g, hgm, hsyn⟩ := f.qa h0
                obtain ⟨tr, htr, rfl⟩ := List.mem_map.1 hgm
                exact ⟨tr.segment, List.mem_map.2 ⟨tr, hsup tr htr, rfl⟩, hsyn⟩
              · exfalso
                rw [h0, hs] at hrk
                revert hrk; decide
            · rcases ti.st.cases with h0 | h0 | h0
              · have hidle := ((hg.ext.wf.side x).1 tcb htcb).2.1
                obtain ⟨k1, k2, _⟩ := segmentArrives_ss_sr tcb σ tcb' h1 h0 (hidle h0) hval.fin hs
                exact ⟨k1, by rw [k2]; exact (ti.rcv0 h0).2⟩
              · obtain ⟨k1, k2⟩ := segmentArrives_srkeep hN tcb σ tcb' h1 ti h31 hval he rfl soσ soh h0 hs
                obtain ⟨r1, r2⟩ := f.r h0
                exact ⟨by rw [k1]; exact r1, by rw [k2]; exact r2⟩
              · exfalso
                rw [h0, hs] at hrk
                revert hrk; decide
            · rcases List.mem_cons.1 (hsub τ hτ) with rfl | e1
              · exact h.hist _ hmem
              · exact f.ha τ e1
          rw [← e.1]
          refine ⟨fun y u hu => ?_, by rw [history_setSide]; exact h.hist⟩
          rw [side_setSide_if] at hu
          split at hu
          · cases hu; exact ftcb'
          · exact h.tcb y u hu
        · rename_i h1
          exfalso
          simp only [Except.ok.injEq, Prod.mk.injEq] at e
          have ha := hg'.conv.nr.alive x
          rw [← e.1, side_setSide_same] at ha
          simp at ha
      · rename_i htcb
        split at e
        · rename_i issl mtu hlis
          split at e
          · simp at e
          · simp only [Except.ok.injEq, Prod.mk.injEq] at e
            rw [← e.1]; exact h
          · rename_i tcb h1
            simp only [Except.ok.injEq, Prod.mk.injEq] at e
            rw [← e.1]
            have hc := listen_created σ issl mtu tcb h1
            refine ⟨fun y u hu => ?_, by rw [history_setSide]; exact h.hist⟩
            rw [side_setSide_if] at hu
            split at hu
            · cases hu
              rw [hc]
              refine ⟨fun _ => ⟨⟨lsnSynAck σ issl, []⟩, by simp [listenT, Transmit.new], rfl⟩,
                fun _ => ⟨⟨lsnSynAck σ issl, []⟩, by simp [listenT, Transmit.new], rfl, rfl⟩, fun _ => ⟨rfl, rfl⟩,
                fun τ hτ hne => ?_⟩
              have hτ' : τ = parkedSyn σ := by simpa [listenT] using hτ
              rw [hτ'] at hne
              exfalso
              -- the SYN that created the TCB has no text
              have hsyn : σ.hdr.ctl.syn = true := listen_syn σ issl mtu tcb h1
              exact hne (hval.syn hsyn).2
            · exact h.tcb y u hu
          · rename_i hd h1
            exfalso
            simp only [Except.ok.injEq, Prod.mk.injEq] at e
            have hr : hd.ctl.rst = true := by
              unfold segmentArrivesListen at h1
              dsimp only at h1
              split at h1
              · cases h1
              · split at h1
                · rw [Hdr.build_zero] at h1
                  simp only [Option.map_some, Except.ok.injEq, Option.some.injEq, ListenResult.Response.injEq] at h1
                  rw [← h1]; rfl
                · split at h1
                  · rw [Tcb.enqueue_eq] at h1
                    simp at h1
                  · cases h1
            have := hg'.conv.nr.hist ⟨hd, []⟩ (by rw [← e.1, mem_history_record]; exact Or.inl (by simp))
            rw [hr] at this; cases this
        · rename_i hlis
          exfalso
          rcases hg.conv.nr.alive x with ha | ha
          · rw [htcb] at ha; cases ha
          · rw [hlis] at ha; cases ha

theorem hsinv_run {s s' : Sys} (hc : Conv iss s) (hx : Ext s) (hf : FInv iss mt s) (h : HsInv s) (r : PlainRun s s')
    (hb : RoomH s') : HsInv s' := by
  induction r with
  | refl => exact h
  | step r1 hp e ih =>
    have hb1 := RoomH.of_run (.step (.refl _) hp e) hb
    have g1 := ext_run hc hx r1 hb1
    have g2 := ext_run hc hx (.step r1 hp e) hb
    exact hsinv_step _ ⟨g1.1, g1.2, hb1⟩ (finv_run hc hx hf r1 hb1) (ih hb1) _ hp _ _ e ⟨g2.1, g2.2, hb⟩

theorem hstcb_open (lp rp : U16) (i : Seq) (m : U16) : HsTcb (openT lp rp i m) :=
  ⟨fun _ => ⟨⟨synHdr lp rp i, []⟩, by simp [openT, Transmit.new], rfl⟩, fun h => (by cases h), fun h => (by cases h),
    fun τ hτ => (by simp [openT] at hτ)⟩

theorem hsinv_init (ia ib : Seq) (ma mb : U16) (simultaneous : Bool) (sys : Sys) (rs : List Res)
    (e : Sys.run {} [.open .A ia ma, if simultaneous then .open .B ib mb else .listen .B ib mb] = .ok (sys, rs)) :
    HsInv sys := by
  simp only [Sys.run, Sys.step, Op.side, open_eq] at e
  cases simultaneous with
  | false =>
    simp only [Bool.false_eq_true, if_false, Except.ok.injEq, Prod.mk.injEq] at e
    rw [← e.1]
    refine ⟨fun y u hu => ?_, fun σ hσ => by cases hσ⟩
    cases y with
    | A => cases hu; exact hstcb_open _ _ _ _
    | B => cases hu
  | true =>
    simp only [if_true, open_eq, Except.ok.injEq, Prod.mk.injEq] at e
    rw [← e.1]
    refine ⟨fun y u hu => ?_, fun σ hσ => by cases hσ⟩
    cases y with
    | A => cases hu; exact hstcb_open _ _ _ _
    | B => cases hu; exact hstcb_open _ _ _ _

end Elvis.Tcp.Full
