//! Shared pieces of the correspondence harness: one seeded PRNG, hex, panic capture,
//! op/impl stream writer, statistics and oracle-failure records.
use std::cell::RefCell;
use std::collections::{BTreeMap, HashSet};
use std::fmt::Write as _;
use std::hash::{Hash, Hasher};
use std::io::Write;
use std::panic::{catch_unwind, AssertUnwindSafe};
use std::path::{Path, PathBuf};

/// splitmix64-seeded xorshift; every random choice of a run derives from one state.
#[derive(Clone)]
pub struct Rng(pub u64);
impl Rng {
    pub fn new(seed: u64) -> Self {
        let mut z = seed.wrapping_add(0x9E3779B97F4A7C15);
        z = (z ^ (z >> 30)).wrapping_mul(0xBF58476D1CE4E5B9);
        z = (z ^ (z >> 27)).wrapping_mul(0x94D049BB133111EB);
        z ^= z >> 31;
        Rng(if z == 0 { 0x1234_5678_9abc_def1 } else { z })
    }
    pub fn next(&mut self) -> u64 {
        self.0 ^= self.0 << 13;
        self.0 ^= self.0 >> 7;
        self.0 ^= self.0 << 17;
        self.0.wrapping_mul(0x2545F4914F6CDD1D)
    }
    pub fn below(&mut self, n: u64) -> u64 {
        if n == 0 {
            0
        } else {
            self.next() % n
        }
    }
    /// inclusive range
    pub fn range(&mut self, lo: u64, hi: u64) -> u64 {
        lo + self.below(hi - lo + 1)
    }
    pub fn chance(&mut self, num: u64, den: u64) -> bool {
        self.below(den) < num
    }
    pub fn pick<'a, T>(&mut self, xs: &'a [T]) -> &'a T {
        &xs[self.below(xs.len() as u64) as usize]
    }
    pub fn bytes(&mut self, n: usize) -> Vec<u8> {
        (0..n).map(|_| self.next() as u8).collect()
    }
    pub fn fork(&mut self) -> Rng {
        Rng::new(self.next())
    }
}

pub fn hex(b: &[u8]) -> String {
    if b.is_empty() {
        return "-".into();
    }
    let mut s = String::with_capacity(b.len() * 2);
    for x in b {
        write!(s, "{:02x}", x).unwrap();
    }
    s
}

pub fn unhex(s: &str) -> Vec<u8> {
    if s == "-" {
        return vec![];
    }
    (0..s.len() / 2)
        .map(|i| u8::from_str_radix(&s[2 * i..2 * i + 2], 16).unwrap())
        .collect()
}

#[derive(Clone, Debug)]
pub struct PanicInfo {
    pub file: String,
    pub line: u32,
    pub msg: String,
}

thread_local! {
    static LAST_PANIC: RefCell<Option<PanicInfo>> = RefCell::new(None);
}

/// Install a quiet panic hook that records location and message per thread.
pub fn install_panic_hook() {
    std::panic::set_hook(Box::new(|info| {
        let (file, line) = info
            .location()
            .map(|l| (l.file().to_string(), l.line()))
            .unwrap_or(("?".into(), 0));
        let msg = if let Some(s) = info.payload().downcast_ref::<&str>() {
            s.to_string()
        } else if let Some(s) = info.payload().downcast_ref::<String>() {
            s.clone()
        } else {
            "?".into()
        };
        LAST_PANIC.with(|p| *p.borrow_mut() = Some(PanicInfo { file, line, msg }));
    }));
}

/// Run `f`, turning a panic into an `Err` that names the panic site.
pub fn catch<T>(f: impl FnOnce() -> T) -> Result<T, PanicInfo> {
    LAST_PANIC.with(|p| *p.borrow_mut() = None);
    match catch_unwind(AssertUnwindSafe(f)) {
        Ok(v) => Ok(v),
        Err(_) => Err(LAST_PANIC.with(|p| p.borrow_mut().take()).unwrap_or(PanicInfo {
            file: "?".into(),
            line: 0,
            msg: "?".into(),
        })),
    }
}

/// Text of the source line a panic came from (identity of a panic finding is the line text,
/// not its number).
pub fn source_line_text(file: &str, line: u32) -> String {
    let repo = std::env::var("ELVIS_REPO").unwrap_or_else(|_| "/repo".into());
    let candidates = [
        PathBuf::from(file),
        PathBuf::from(&repo).join("sim").join(file),
        PathBuf::from(&repo).join("sim/elvis-core").join(file),
        PathBuf::from(&repo).join("sim/elvis").join(file),
    ];
    for c in candidates.iter() {
        if let Ok(s) = std::fs::read_to_string(c) {
            if let Some(l) = s.lines().nth(line.saturating_sub(1) as usize) {
                return l.trim().to_string();
            }
        }
    }
    String::new()
}

pub fn json_str(s: &str) -> String {
    let mut o = String::from("\"");
    for c in s.chars() {
        match c {
            '"' => o.push_str("\\\""),
            '\\' => o.push_str("\\\\"),
            '\n' => o.push_str("\\n"),
            '\r' => o.push_str("\\r"),
            '\t' => o.push_str("\\t"),
            c if (c as u32) < 0x20 => {
                write!(o, "\\u{:04x}", c as u32).unwrap();
            }
            c => o.push(c),
        }
    }
    o.push('"');
    o
}

pub struct Args {
    pub prop: String,
    pub seed: u64,
    pub cases: u64,
    pub out: PathBuf,
    pub replay: Option<PathBuf>,
    pub extra: BTreeMap<String, String>,
}

pub fn parse_args() -> Args {
    let a: Vec<String> = std::env::args().collect();
    if a.len() < 2 {
        eprintln!("usage: <bin> <property> [--seed S] [--cases N] [--out DIR] [--replay FILE] [--key value]...");
        std::process::exit(2);
    }
    let mut args = Args {
        prop: a[1].clone(),
        seed: 1,
        cases: 100,
        out: PathBuf::from("."),
        replay: None,
        extra: BTreeMap::new(),
    };
    let mut i = 2;
    while i + 1 < a.len() + 1 && i < a.len() {
        let k = a[i].trim_start_matches("--").to_string();
        let v = a.get(i + 1).cloned().unwrap_or_default();
        match k.as_str() {
            "seed" => args.seed = v.parse().unwrap_or(1),
            "cases" => args.cases = v.parse().unwrap_or(100),
            "out" => args.out = PathBuf::from(v),
            "replay" => args.replay = Some(PathBuf::from(v)),
            _ => {
                args.extra.insert(k, v);
            }
        }
        i += 2;
    }
    args
}

/// One oracle failure = a concrete failing input for the property, on the implementation.
pub struct OracleFailure {
    pub case_id: u64,
    pub what: String,
    /// identity used to match known findings
    pub ident: String,
    /// op lines (driver format) that reproduce it, already truncated to the failing op
    pub ops: Vec<String>,
}

/// A disagreement-independent observation about a panic in the implementation
pub struct Out {
    dir: PathBuf,
    ops: std::io::BufWriter<std::fs::File>,
    imp: std::io::BufWriter<std::fs::File>,
    pub evaluations: u64,
    pub ops_total: u64,
    distinct: HashSet<u64>,
    pub hist: BTreeMap<String, u64>,
    pub samples: Vec<String>,
    pub failures: Vec<OracleFailure>,
    pub notes: Vec<String>,
    cur_case: Vec<String>,
    cur_id: u64,
    cur_nontrivial: bool,
    pub max_samples: usize,
    pub max_failures: usize,
}

impl Out {
    pub fn new(dir: &Path) -> Self {
        std::fs::create_dir_all(dir).unwrap();
        let ops = std::io::BufWriter::new(std::fs::File::create(dir.join("cases.ops")).unwrap());
        let imp = std::io::BufWriter::new(std::fs::File::create(dir.join("impl.out")).unwrap());
        Out {
            dir: dir.to_path_buf(),
            ops,
            imp,
            evaluations: 0,
            ops_total: 0,
            distinct: HashSet::new(),
            hist: BTreeMap::new(),
            samples: vec![],
            failures: vec![],
            notes: vec![],
            cur_case: vec![],
            cur_id: 0,
            cur_nontrivial: false,
            max_samples: 3,
            max_failures: 20,
        }
    }
    /// an `Out` that records failures, counts and the current case's op lines but writes no
    /// stream files (for exhaustive enumerations of which only a sample is printed)
    pub fn null() -> Self {
        let sink = || std::io::BufWriter::new(std::fs::OpenOptions::new().write(true).open("/dev/null").unwrap());
        Out {
            dir: PathBuf::from("/dev/null"),
            ops: sink(),
            imp: sink(),
            evaluations: 0,
            ops_total: 0,
            distinct: HashSet::new(),
            hist: BTreeMap::new(),
            samples: vec![],
            failures: vec![],
            notes: vec![],
            cur_case: vec![],
            cur_id: 0,
            cur_nontrivial: false,
            max_samples: 0,
            max_failures: 20,
        }
    }
    pub fn begin_case(&mut self, id: u64) {
        self.cur_case.clear();
        self.cur_id = id;
        self.cur_nontrivial = false;
        self.line(&format!("case {}", id), &format!("case {}", id));
    }
    /// one op line for the model and the implementation's canonical answer to it
    pub fn line(&mut self, op: &str, result: &str) {
        writeln!(self.ops, "{}", op).unwrap();
        writeln!(self.imp, "{}", result).unwrap();
        self.cur_case.push(op.to_string());
        self.ops_total += 1;
    }
    pub fn count(&mut self, key: &str) {
        *self.hist.entry(key.to_string()).or_insert(0) += 1;
    }
    pub fn count_n(&mut self, key: &str, n: u64) {
        *self.hist.entry(key.to_string()).or_insert(0) += n;
    }
    pub fn mark_nontrivial(&mut self) {
        self.cur_nontrivial = true;
    }
    pub fn current_ops(&self) -> Vec<String> {
        self.cur_case.clone()
    }
    pub fn fail(&mut self, what: &str, ident: &str) {
        if self.failures.len() < self.max_failures {
            self.failures.push(OracleFailure {
                case_id: self.cur_id,
                what: what.to_string(),
                ident: ident.to_string(),
                ops: self.cur_case.clone(),
            });
        }
        self.count("oracle_failures");
    }
    pub fn end_case(&mut self) {
        self.evaluations += 1;
        if self.cur_nontrivial {
            let mut h = std::collections::hash_map::DefaultHasher::new();
            // the case header line carries the id; hash the ops only
            for l in self.cur_case.iter().skip(1) {
                l.hash(&mut h);
            }
            self.distinct.insert(h.finish());
        }
        if self.samples.len() < self.max_samples && self.cur_nontrivial {
            let mut s = self.cur_case.join(" ; ");
            if s.len() > 600 {
                s.truncate(600);
                s.push_str(" …");
            }
            self.samples.push(s);
        }
    }
    pub fn finish(mut self, rule: &str) {
        self.ops.flush().unwrap();
        self.imp.flush().unwrap();
        let mut j = String::new();
        j.push_str("{\n");
        write!(j, "  \"evaluations\": {},\n", self.evaluations).unwrap();
        write!(j, "  \"ops_total\": {},\n", self.ops_total).unwrap();
        write!(j, "  \"distinct_nontrivial\": {},\n", self.distinct.len()).unwrap();
        write!(j, "  \"rule\": {},\n", json_str(rule)).unwrap();
        j.push_str("  \"samples\": [");
        j.push_str(&self.samples.iter().map(|s| json_str(s)).collect::<Vec<_>>().join(", "));
        j.push_str("],\n  \"notes\": [");
        j.push_str(&self.notes.iter().map(|s| json_str(s)).collect::<Vec<_>>().join(", "));
        j.push_str("],\n  \"hist\": {");
        j.push_str(
            &self
                .hist
                .iter()
                .map(|(k, v)| format!("{}: {}", json_str(k), v))
                .collect::<Vec<_>>()
                .join(", "),
        );
        j.push_str("},\n  \"failures\": [\n");
        let fs: Vec<String> = self
            .failures
            .iter()
            .map(|f| {
                format!(
                    "    {{\"case\": {}, \"what\": {}, \"ident\": {}, \"ops\": [{}]}}",
                    f.case_id,
                    json_str(&f.what),
                    json_str(&f.ident),
                    f.ops.iter().map(|s| json_str(s)).collect::<Vec<_>>().join(", ")
                )
            })
            .collect();
        j.push_str(&fs.join(",\n"));
        j.push_str("\n  ]\n}\n");
        std::fs::write(self.dir.join("stats.json"), j).unwrap();
    }
}

/// Read a replay/ops file: plain op lines (driver format).
pub fn read_ops(path: &Path) -> Vec<String> {
    std::fs::read_to_string(path)
        .unwrap_or_default()
        .lines()
        .map(|l| l.trim().to_string())
        .filter(|l| !l.is_empty() && !l.starts_with('#'))
        .collect()
}
