import ElvisVerif.Lemmas.NdlNorm
/-!
# NDL: helper lemmas for the rejection theorems of `Props/C19.lean`
-/
namespace Elvis.Ndl
open Elvis.Gen.Ndl

theorem insertAll_has : ∀ (ps acc : Params) (k : Text), k ∈ ps.map (·.1) → acc.has k = true →
    insertAll ps acc = none
  | [], _, _, h, _ => by simp at h
  | (k', v) :: ps, acc, k, h, ha => by
    unfold insertAll
    split
    · rfl
    · rename_i hk'
      simp only [List.map_cons, List.mem_cons] at h
      rcases h with rfl | h
      · exact absurd ha hk'
      · exact insertAll_has ps _ k h (by simp [Params.has, List.any_append] at ha ⊢; exact .inl ha)

theorem insertAll_dup : ∀ (ps acc : Params), ¬ (ps.map (·.1)).Nodup → insertAll ps acc = none
  | [], _, h => by simp at h
  | (k, v) :: ps, acc, h => by
    unfold insertAll
    split
    · rfl
    · simp only [List.map_cons, List.nodup_cons] at h
      by_cases hk : k ∈ ps.map (·.1)
      · exact insertAll_has ps _ k hk (by simp [Params.has, List.any_append])
      · exact insertAll_dup ps _ (fun hn => h ⟨hk, hn⟩)

theorem getTypeWith_none (table : List (Text × Text)) : ∀ (ts : List Text) (i : Text) (line : Nat),
    (∀ t ∈ ts, keyword t i = none) → getTypeWith "keyword" table ts i line = .error (.err .dectype line)
  | [], _, _, _ => rfl
  | t :: ts, i, line, h => by
    unfold getTypeWith matchTag
    simp only [if_true, h t List.mem_cons_self]
    exact getTypeWith_none table ts i line (fun t' ht' => h t' (List.mem_cons_of_mem _ ht'))

theorem any_false_not_mem (seen : List (Text × Network)) (id : Text)
    (h : seen.any (fun x => x.1 == id) = false) : id ∉ seen.map (·.1) := by
  intro hm
  obtain ⟨x, hx, rfl⟩ := List.mem_map.1 hm
  have := List.any_eq_false.1 h x hx
  simp at this

theorem networksLoop_dup : ∀ (nets : List (Text × Network)) (rest : Text) (line fuel : Nat)
    (seen : List (Text × Network)), (∀ e ∈ nets, NetworkOk e.1 e.2) → (seen.map (·.1)).Nodup →
    ¬ ((seen ++ nets).map (·.1)).Nodup → After 1 rest →
    line + (nets.map (·.2.lines)).sum ≤ i32Max → (netsText nets ++ rest).length < fuel →
    networksLoop 1 fuel (netsText nets ++ rest) line seen = .error (.err .dupId 0)
  | [], _, _, _, seen, _, hs, hd, _, _, _ => by simp at hd; exact absurd hs hd
  | e :: nets, rest, line, fuel, seen, hok, hs, hd, haft, hb, hf => by
    rw [netsText_cons] at hf ⊢
    cases fuel with
    | zero => omega
    | succ fuel =>
      have he := hok e List.mem_cons_self
      have hok' : ∀ x ∈ nets, NetworkOk x.1 x.2 := fun x hx => hok x (List.mem_cons_of_mem _ hx)
      simp only [List.map_cons, List.sum_cons] at hb
      rw [networksLoop_step e.1 e.2 he _ (netsText_after nets rest haft hok') line fuel seen (by omega)]
      split
      · rfl
      · rename_i hany
        have hany' : seen.any (fun x => x.1 == e.1) = false := by
          cases h : seen.any (fun x => x.1 == e.1) with
          | false => rfl
          | true => exact absurd h hany
        have hlen : (netsText nets ++ rest).length < fuel := by
          have := tabLine_length 1 .network e.2.options (renderLeaves .tabs 2 e.2.ip ++ (netsText nets ++ rest))
          rw [← renderNetwork_append] at this
          have h2 := renderLeaves_length 2 e.2.ip (netsText nets ++ rest)
          omega
        exact networksLoop_dup nets rest _ fuel (seen ++ [e]) hok'
          (by
            rw [List.map_append, List.nodup_append]
            refine ⟨hs, by simp, ?_⟩
            intro a ha b hb
            simp at hb
            subst hb
            intro hab; subst hab
            exact any_false_not_mem seen e.1 hany' ha)
          (by simpa using hd) haft (by omega) hlen

theorem mergeNets_dup : ∀ (ns acc : List (Text × Network)) (id : Text), id ∈ acc.map (·.1) →
    id ∈ ns.map (·.1) → mergeNets acc ns = .error (.err .dupId 0)
  | [], _, _, _, h => by simp at h
  | (id', n) :: ns, acc, id, ha, hn => by
    unfold mergeNets
    split
    · rfl
    · rename_i hany
      simp only [List.map_cons, List.mem_cons] at hn
      rcases hn with rfl | hn
      · exfalso
        apply hany
        obtain ⟨x, hx, hxe⟩ := List.mem_map.1 ha
        exact List.any_eq_true.2 ⟨x, hx, by simp [hxe]⟩
      · exact mergeNets_dup ns _ id (by simp [ha]) hn

end Elvis.Ndl
