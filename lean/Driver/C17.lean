import Driver.C01
/-! Line-protocol handlers for C17 (sub-commands `c17` / `c17-*`): the two-endpoint TCP system
of `Driver/C01.lean` (same ops, same answers). -/
namespace Driver.C17

def dispatch (sub : String) (i o : IO.FS.Stream) : Option (IO Unit) :=
  if sub.startsWith "c17" then some (Driver.loop i o Driver.C01.step {}) else none

end Driver.C17
