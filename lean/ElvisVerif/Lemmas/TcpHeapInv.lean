import ElvisVerif.Lemmas.LHeapOrd
import ElvisVerif.Lemmas.C01Proc
import ElvisVerif.Lemmas.SeqArith
import ElvisVerif.Lemmas.TcbPath
/-!
# The reorder heap is a heap: its root has the least sequence number

`Segment::cmp` compares sequence numbers circularly; it is a total preorder only on a window of 2^31
numbers.  `leK base` compares the offsets from `base` (a total preorder) and agrees with `segLe` on segments
whose offsets are below 2^31 (`InWin`).  `HeapOk base t`: every parked segment is in the window and the heap array
satisfies the binary-heap invariant for `leK base`; `Ahead base t`: at rest in ESTABLISHED every parked segment is
ahead of `RCV.NXT` (the processing loop of `segment_arrives` stops only when the root is ahead, and the root is the
least).  `drain_heapOk`, `segmentArrives_heapOk`: preserved by `segment_arrives` for every valid in-window segment.
-/
namespace Elvis.Tcp
open Elvis.ModCmp Elvis.Tcp.Tcb

/-- compare by offset from `base`: "a ≤ b" in the heap's sense = `a` has the larger sequence number -/
def leK (base : Seq) (a b : Segment) : Bool := decide (off base b.hdr.seq ≤ off base a.hdr.seq)

theorem leK_tp (base : Seq) : Heap.TotalPreorder (leK base) := by
  refine ⟨fun a b => ?_, fun a b c h1 h2 => ?_⟩
  · unfold leK
    rcases Nat.le_total (off base b.hdr.seq) (off base a.hdr.seq) with h | h
    · left; simpa using h
    · right; simpa using h
  · unfold leK at *
    simp only [decide_eq_true_eq] at *
    omega

def InWin (base : Seq) (g : Segment) : Prop := off base g.hdr.seq < 2147483648

theorem segLe_eq_leK (base : Seq) (a b : Segment) (ha : InWin base a) (hb : InWin base b) :
    segLe a b = leK base a b := by
  unfold segLe leK
  have hlt := modLt_iff_off base a.hdr.seq b.hdr.seq ha hb
  by_cases h : off base a.hdr.seq < off base b.hdr.seq
  · have h1 : modLt a.hdr.seq b.hdr.seq = true := hlt.2 h
    have hne : (a.hdr.seq == b.hdr.seq) = false := by
      cases hq : (a.hdr.seq == b.hdr.seq) with
      | false => rfl
      | true =>
        have : a.hdr.seq = b.hdr.seq := by simpa using hq
        rw [this] at h; omega
    rw [h1, hne]
    simp only [Bool.not_true, Bool.or_false]
    symm
    simp only [decide_eq_false_iff_not]
    omega
  · have h1 : modLt a.hdr.seq b.hdr.seq = false := by
      cases hq : modLt a.hdr.seq b.hdr.seq with
      | false => rfl
      | true => exact absurd (hlt.1 hq) h
    rw [h1]
    simp only [Bool.not_false, Bool.or_true]
    symm
    simp only [decide_eq_true_eq]
    omega

theorem agree_of_win (base : Seq) (l : List Segment) (h : ∀ g ∈ l, InWin base g) :
    LHeap.Agree segLe (leK base) l :=
  fun a ha b hb => segLe_eq_leK base a b (h a ha) (h b hb)

structure HeapOk (base : Seq) (t : Tcb) : Prop where
  win : ∀ g ∈ t.incoming.segments, InWin base g
  heap : Heap.IsHeap (leK base) t.incoming.segments.toArray

/-- at rest in ESTABLISHED every parked segment is ahead of `RCV.NXT` -/
def Ahead (base : Seq) (t : Tcb) : Prop :=
  t.state = .Established → ∀ g ∈ t.incoming.segments, off base t.rcv.nxt < off base g.hdr.seq

section
variable {port : U16} {issX issY : Seq} {subX subY delX : List UInt8}

/-- `RCV.NXT − ISS_peer` in linear form, from the stream invariant -/
theorem tinv_rcv_off {t : Tcb} (h : C01.TInv port issX issY subX subY delX t) (hns : t.state ≠ .SynSent)
    (h31 : subY.length + 1 < 2147483648) :
    off issY t.rcv.nxt = 1 + (delX.length + t.incoming.text.length) ∧
      delX.length + t.incoming.text.length ≤ subY.length := by
  obtain ⟨hn, hp⟩ := h.rcv1 hns
  have hle := hp.length_le
  rw [List.length_append] at hle
  refine ⟨?_, hle⟩
  have one1 : (1 : Seq) = BitVec.ofNat 32 1 := rfl
  rw [hn, one1, C01.add_ofNat_assoc]
  have := off_add issY issY (1 + (delX.length + t.incoming.text.length)) (by rw [off_self]; omega)
  rw [off_self] at this
  omega

/-- the processing loop keeps the heap a heap and ends with every parked segment ahead of `RCV.NXT` -/
theorem drain_heapOk (fuel : Nat) {t t' : Tcb} {r : SegmentArrivesResult}
    (h : C01.TInv port issX issY subX subY delX t) (h31 : subY.length + 1 < 2147483648)
    (hk : HeapOk issY t) (hf : t.incoming.segments.length < fuel)
    (e : drain fuel t = .ok (t', r)) : HeapOk issY t' ∧ (r = .Ok → Ahead issY t') := by
  induction fuel generalizing t with
  | zero => omega
  | succ n ih =>
    unfold drain at e
    split at e
    · rename_i hpeek
      have hnil : t.incoming.segments = [] := by
        cases hl : t.incoming.segments with
        | nil => rfl
        | cons a u => rw [hl] at hpeek; simp [LHeap.peek] at hpeek
      cases e
      refine ⟨hk, fun _ _ g hg => ?_⟩
      rw [hnil] at hg; cases hg
    · rename_i top hpeek
      split at e
      · rename_i hgate
        have key : t.state = .Established → ∀ g ∈ t.incoming.segments, off issY t.rcv.nxt < off issY g.hdr.seq := by
          intro hst g hg
          have hns : t.state ≠ .SynSent := by rw [hst]; simp
          simp only [Bool.and_eq_true, bne_iff_ne, ne_eq, decide_eq_true_eq] at hgate
          have hmax := LHeap.peek_max (leK_tp issY) _ top hpeek hk.heap g hg
          unfold leK at hmax
          simp only [decide_eq_true_eq] at hmax
          have htop : top ∈ t.incoming.segments := by
            cases hl : t.incoming.segments with
            | nil => rw [hl] at hpeek; simp [LHeap.peek] at hpeek
            | cons a u =>
              rw [hl] at hpeek
              simp only [LHeap.peek, List.head?_cons, Option.some.injEq] at hpeek
              rw [← hpeek]; exact List.mem_cons_self
          have hr := (tinv_rcv_off h hns h31)
          have hgt := (modGt_iff_off issY top.hdr.seq t.rcv.nxt (hk.win top htop) (by omega)).1 hgate.2
          omega
        cases e
        exact ⟨hk, fun _ => key⟩
      · rename_i hgate
        obtain ⟨rest, hpop⟩ := LHeap.pop_of_peek (le := segLe) hpeek
        rw [hpop] at e
        dsimp only at e
        have hmem := LHeap.mem_of_mem_pop hpop
        have hlen := LHeap.pop_length hpop
        have hrest := LHeap.pop_isHeap (leK_tp issY) _ top rest hpop (agree_of_win issY _ hk.win) hk.heap
        have h0 : C01.TInv port issX issY subX subY delX { t with incoming.segments := rest } :=
          ⟨h.lp, h.st, h.iss, h.out, h.rtx, h.one, fun g hg => h.heap g (hmem.2 g hg), h.rcv0, h.rcv1, h.irs⟩
        have hg : ({ t with incoming.segments := rest } : Tcb).state ≠ .SynSent →
            modGt top.hdr.seq ({ t with incoming.segments := rest } : Tcb).rcv.nxt = false := by
          intro hne
          cases hm : modGt top.hdr.seq t.rcv.nxt with
          | false => rfl
          | true =>
            exfalso; apply hgate
            have hne' : t.state ≠ .SynSent := hne
            simp [hne', hm]
        cases hp : processSegment { t with incoming.segments := rest } top with
        | error x => rw [hp] at e; cases e
        | ok p =>
          obtain ⟨s1, r1⟩ := p
          rw [hp] at e
          dsimp only at e
          have i1 := C01.processSegment_inv h0 (h.heap top hmem.1) (by omega) hg hp
          have hs1 : s1.incoming.segments = rest := processSegment_heap _ _ _ _ hp
          have k1 : HeapOk issY s1 :=
            ⟨by rw [hs1]; exact fun g hg => hk.win g (hmem.2 g hg), by rw [hs1]; exact hrest.1⟩
          split at e
          · cases e
            exact ⟨k1, fun h0 => by cases h0⟩
          · exact ih i1 k1 (by rw [hs1]; omega) e

/-- **`segment_arrives` keeps the reorder heap a heap**, and leaves every parked segment ahead of `RCV.NXT` -/
theorem segmentArrives_heapOk {t t' : Tcb} {g : Segment} {r : SegmentArrivesResult}
    (h : C01.TInv port issX issY subX subY delX t) (hv : C01.Valid issY subY g) (h31 : subY.length + 1 < 2147483648)
    (hw : InWin issY g) (hk : HeapOk issY t) (ha : Ahead issY t)
    (e : t.segmentArrives g = .ok (t', r)) : HeapOk issY t' ∧ (r = .Ok → Ahead issY t') := by
  unfold segmentArrives at e
  dsimp only at e
  split at e
  · cases e
  · rw [enqueue_eq] at e
    cases e
    have hf := enqueueBuilt_frame t t.ackHdr.built
    refine ⟨⟨by rw [hf.2.2.2.1]; exact hk.win, by rw [hf.2.2.2.1]; exact hk.heap⟩, fun _ hst g hg => ?_⟩
    rw [hf.2.2.2.1] at hg
    rw [hf.2.1]
    exact ha (by rw [← hf.2.2.2.2.1]; exact hst) g hg
  · refine drain_heapOk (port := port) (issX := issX) (subX := subX) (delX := delX) _ ?_ h31 ?_ ?_ e
    · refine ⟨h.lp, h.st, h.iss, h.out, h.rtx, h.one, fun x hx => ?_, h.rcv0, h.rcv1, h.irs⟩
      rcases LHeap.mem_push.1 hx with rfl | hx
      · exact hv
      · exact h.heap x hx
    · have hwin : ∀ x ∈ t.incoming.segments ++ [g], InWin issY x := by
        intro x hx
        rcases List.mem_append.1 hx with hx | hx
        · exact hk.win x hx
        · simp only [List.mem_singleton] at hx; rw [hx]; exact hw
      refine ⟨fun x hx => ?_, LHeap.push_isHeap (leK_tp issY) _ g (agree_of_win issY _ hwin) hk.heap⟩
      rcases LHeap.mem_push.1 hx with rfl | hx
      · exact hw
      · exact hk.win x hx
    · show (LHeap.push segLe t.incoming.segments g).length < _
      rw [LHeap.push_length]
      omega

end
end Elvis.Tcp
