import ElvisVerif.Model.TcpSys
import ElvisVerif.Spec.Rfc9293
/-!
# C03 — TCP connections open, synchronise and close as RFC 9293 prescribes

(stage 1: the concrete witnesses of the close defects on the model of the UNREPAIRED code)
-/
namespace Elvis.Tcp
namespace C03
open Elvis.Rfc9293

/-! ## helpers for concrete runs -/

def tcbOf (x : SideId) (r : Except String (Sys × List Res)) : Option Tcb :=
  match r with
  | .ok (s, _) => (s.side x).tcb
  | .error _ => none

def stateOf (x : SideId) (r : Except String (Sys × List Res)) : Option State := (tcbOf x r).map (·.state)

/-- the segments returned by the last op when it was an `emit` -/
def lastEmit (r : Except String (Sys × List Res)) : Option (List Segment) :=
  match r with
  | .ok (_, rs) => match rs.getLast? with
    | some (.emitted _ segs) => some segs
    | _ => none
  | .error _ => none

/-- three-way handshake: A opens (ISS 1000), B listens (ISS 5000); history 0 = SYN, 1 = SYN-ACK,
    2 = ACK; both ESTABLISHED -/
def handshake : List Op :=
  [.open .A 1000 1500, .listen .B 5000 1500, .emit .A, .deliver .B 0, .emit .B, .deliver .A 1,
   .emit .A, .deliver .B 2]

/-- simultaneous close after the handshake: history 3 = A's FIN, 4 = B's FIN, 5 = A's ACK of
    B's FIN, 6 = B's ACK of A's FIN; both sides end in TIME-WAIT with nothing in flight -/
def simultaneousClose : List Op :=
  handshake ++ [.close .A, .emit .A, .close .B, .emit .B, .deliver .B 3, .deliver .A 4,
    .emit .A, .emit .B, .deliver .B 5, .deliver .A 6]

example : stateOf .A (Sys.run {} simultaneousClose) = some .TimeWait ∧
    stateOf .B (Sys.run {} simultaneousClose) = some .TimeWait := by decide

/-! ## F-C03-1: TIME-WAIT answers any ACK-bearing segment; the exchange never stops -/

/-- one duplicate of B's last ACK (history 6) reaches A in TIME-WAIT: A answers with
    `ACK(SEG.SEQ+1) = 5003`, an acknowledgment of something B never sent -/
def stormStart : List Op := simultaneousClose ++ [.deliver .A 6, .emit .A]

/-- one further round trip: B (TIME-WAIT) answers A's ACK, A answers B's -/
def stormRound (i : Nat) : List Op := [.deliver .B i, .emit .B, .deliver .A (i + 1), .emit .A]

/-- **F-C03-1.**  Both sides are in TIME-WAIT and the network is empty.  One duplicate ACK
    starts an exchange that reproduces itself: after every round trip both TCBs are exactly what
    they were a round trip earlier (2·MSL timers restarted, an ACK of unsent data in flight), so
    under fair delivery the exchange never stops and neither side is ever released. -/
theorem c03_timewait_ack_storm_counterexample :
    (lastEmit (Sys.run {} stormStart)).map (·.map fun s => (s.hdr.ctl.toNat, s.hdr.ack.toNat)) = some [(16, 5003)] ∧
    tcbOf .A (Sys.run {} (stormStart ++ stormRound 7)) = tcbOf .A (Sys.run {} stormStart) ∧
    tcbOf .A (Sys.run {} (stormStart ++ stormRound 7 ++ stormRound 9)) = tcbOf .A (Sys.run {} stormStart) ∧
    tcbOf .B (Sys.run {} (stormStart ++ stormRound 7 ++ stormRound 9)) = tcbOf .B (Sys.run {} (stormStart ++ stormRound 7)) ∧
    lastEmit (Sys.run {} (stormStart ++ stormRound 7 ++ stormRound 9)) = lastEmit (Sys.run {} stormStart) ∧
    (tcbOf .A (Sys.run {} (stormStart ++ stormRound 7 ++ stormRound 9))).map (·.timeouts.timeWait) = some (some TIME_WAIT) := by
  decide

/-! ## F-C03-2: `close()` numbers the FIN before text that is still unsegmentized -/

/-- A writes three bytes and closes before `segments()` ran: the FIN takes `SND.NXT = 1001`,
    the three bytes stay in `outgoing.text` of a FIN-WAIT-1 endpoint (which never segmentizes),
    the peer sees the end of the stream having received none of them -/
def strandOps : List Op := handshake ++ [.write .A [1, 2, 3], .close .A, .emit .A]

/-- **F-C03-2.** -/
theorem c03_close_strands_text_counterexample :
    -- what A sends: the FIN (seq 1001), no text
    (lastEmit (Sys.run {} strandOps)).map (·.map fun s => (s.hdr.ctl.toNat, s.hdr.seq.toNat, s.text)) = some [(17, 1001, [])] ∧
    -- the text is still queued, in a state whose `segments()` never sends it
    (tcbOf .A (Sys.run {} strandOps)).map (fun t => (t.state, t.outgoing.text)) = some (.FinWait1, [1, 2, 3]) ∧
    -- the peer shows FIN received (CLOSE-WAIT) and holds none of the three bytes
    (tcbOf .B (Sys.run {} (strandOps ++ [.deliver .B 3]))).map (fun t => (t.state, t.incoming.text)) = some (.CloseWait, []) ∧
    -- and the connection closes "cleanly": B closes, A acknowledges, B is released by the final ACK
    stateOf .B (Sys.run {} (strandOps ++ [.deliver .B 3, .close .B, .emit .B, .deliver .A 4, .deliver .A 5,
      .emit .A, .deliver .B 6])) = none := by
  decide

end C03
end Elvis.Tcp
