import ElvisVerif.Lemmas.TcbWindow
/-!
# What can sit on the retransmission queue

`RtxLe s s'`: every entry of `s'`'s retransmission queue is text-free, carries at most
`65535 − BASE_HEADER_OCTETS − 30` … precisely at most `MAX_SEGMENT_TEXT = 65485` bytes (one MSS), or
was already queued in `s`.  Every operation satisfies it, hence every segment `segments()` hands to
the network has a payload an IPv4 datagram can carry (`RtxBound`) — which closes the loop for the
two-endpoint system: what one side emits is a valid input for the other (`c01_closed_system_no_panic`).
-/
namespace Elvis.Tcp
namespace Tcb

/-- the largest text `segments()` can cut: `65535 − SPACE_FOR_HEADERS` -/
def MAX_SEGMENT_TEXT : Nat := 65535 - SPACE_FOR_HEADERS

def RtxLe (s s' : Tcb) : Prop :=
  ∀ t ∈ s'.outgoing.retransmit,
    t.segment.text.length ≤ MAX_SEGMENT_TEXT ∨ ∃ t0 ∈ s.outgoing.retransmit, t0.segment = t.segment

/-- every queued segment fits an IPv4 datagram -/
def RtxBound (s : Tcb) : Prop := ∀ t ∈ s.outgoing.retransmit, t.segment.text.length ≤ MAX_PAYLOAD

theorem RtxLe.refl (s : Tcb) : RtxLe s s := fun t ht => Or.inr ⟨t, ht, rfl⟩

theorem RtxLe.trans {a b c : Tcb} (h1 : RtxLe a b) (h2 : RtxLe b c) : RtxLe a c := by
  intro t ht
  rcases h2 t ht with h | ⟨t1, ht1, e1⟩
  · exact Or.inl h
  · rcases h1 t1 ht1 with h | ⟨t0, ht0, e0⟩
    · left; rw [← e1]; exact h
    · exact Or.inr ⟨t0, ht0, e0.trans e1⟩

theorem RtxBound.step {s s' : Tcb} (h : RtxBound s) (p : RtxLe s s') : RtxBound s' := by
  intro t ht
  rcases p t ht with h1 | ⟨t0, ht0, e0⟩
  · have : MAX_SEGMENT_TEXT ≤ MAX_PAYLOAD := by decide
    omega
  · rw [← e0]; exact h t0 ht0

/-- the queue of `s'` is a sub-list-by-membership of the queue of `s` -/
theorem rtxLe_of_subset {s s' : Tcb} (h : ∀ t ∈ s'.outgoing.retransmit, t ∈ s.outgoing.retransmit) :
    RtxLe s s' := fun t ht => Or.inr ⟨t, h t ht, rfl⟩

theorem rtxLe_of_eq {s s' : Tcb} (h : s'.outgoing.retransmit = s.outgoing.retransmit) : RtxLe s s' :=
  rtxLe_of_subset (fun t ht => by rw [h] at ht; exact ht)

theorem rtxLe_enqueueBuilt (s : Tcb) (hd : Hdr) : RtxLe s (s.enqueueBuilt hd) := by
  unfold enqueueBuilt
  split
  · intro t ht
    simp only [List.mem_append, List.mem_singleton] at ht
    rcases ht with ht | rfl
    · exact Or.inr ⟨t, ht, rfl⟩
    · left; simp [Transmit.new]
  · exact rtxLe_of_eq rfl

theorem rtxLe_removeAcked (s : Tcb) (una : Seq) : RtxLe s (s.removeAckedFromRetransmission una) :=
  rtxLe_of_subset (fun t ht => (List.mem_filter.1 ht).1)

theorem rtxLe_flags (s : Tcb) (b : Bool) (tmo : Timeouts) :
    RtxLe s { s with outgoing.retransmit := s.outgoing.retransmit.map fun x => { x with needsTransmit := b },
                     timeouts := tmo } := by
  intro t ht
  obtain ⟨t0, ht0, rfl⟩ := List.mem_map.1 ht
  exact Or.inr ⟨t0, ht0, rfl⟩

theorem ackEstablished_rtx (s : Tcb) (seg : Hdr) :
    ∃ s' r, s.ackEstablishedProcessing seg = .ok (s', r) ∧ RtxLe s s' := by
  unfold ackEstablishedProcessing
  split
  · exact ⟨_, _, rfl, RtxLe.refl _⟩
  · split
    · rw [enqueue_eq]
      exact ⟨_, _, rfl, rtxLe_enqueueBuilt _ _⟩
    · dsimp only
      have base : RtxLe s (({ s with snd.una := seg.ack } : Tcb).removeAckedFromRetransmission seg.ack) :=
        (rtxLe_of_eq (s := s) (s' := { s with snd.una := seg.ack }) rfl).trans (rtxLe_removeAcked _ _)
      split
      · exact ⟨_, _, rfl, base.trans (rtxLe_of_eq rfl)⟩
      · exact ⟨_, _, rfl, base⟩

theorem afterAck_rtx (t : Tcb) (seg : Hdr) (k : Tcb → ProcessSegmentResult → B) (P : B → Prop)
    (h : ∀ s1 r1, RtxLe t s1 → P (k s1 r1)) : P (afterAckEstablished (t.ackEstablishedProcessing seg) k) := by
  obtain ⟨s1, r1, h1, hs1⟩ := ackEstablished_rtx t seg
  unfold afterAckEstablished
  rw [h1]
  exact h s1 r1 hs1

theorem seqCheck_rtx (s : Tcb) (seg : Hdr) (tl : Seq) (h : tl.toNat ≤ MAX_PAYLOAD) :
    ∃ s' r, seqCheck s seg tl = .ok (s', r) ∧ RtxLe s s' := by
  unfold seqCheck
  obtain ⟨b, hb⟩ := isSeqOk_ok s tl seg.seq seg.ctl.syn seg.ctl.fin h
  split
  · exact ⟨_, _, rfl, RtxLe.refl _⟩
  · rw [hb]
    cases b with
    | true => exact ⟨_, _, rfl, RtxLe.refl _⟩
    | false =>
      simp only [enqueueThen_eq]
      exact ⟨_, _, rfl, rtxLe_enqueueBuilt _ _⟩

theorem ackBlock_rtx (s : Tcb) (seg : Hdr) : ∃ s' r, ackBlock s seg = .ok (s', r) ∧ RtxLe s s' := by
  unfold ackBlock
  split
  · exact ⟨_, _, rfl, RtxLe.refl _⟩
  · split
    · -- SYN-SENT
      split
      · split
        · exact ⟨_, _, rfl, RtxLe.refl _⟩
        · simp only [enqueueThen_eq]
          exact ⟨_, _, rfl, rtxLe_enqueueBuilt _ _⟩
      · split
        · split
          · exact ⟨_, _, rfl, (rtxLe_of_eq (s := s) (s' := { s with snd.una := seg.ack }) rfl).trans
              (rtxLe_removeAcked _ _)⟩
          · exact ⟨_, _, rfl, RtxLe.refl _⟩
        · simp only [enqueueThen_eq]
          exact ⟨_, _, rfl, rtxLe_enqueueBuilt _ _⟩
    · -- SYN-RECEIVED
      split
      · dsimp only
        refine afterAck_rtx _ seg _ (fun x => ∃ s' r, x = .ok (s', r) ∧ RtxLe s s') ?_
        intro s1 r1 hs1
        have hp : RtxLe s s1 := (rtxLe_of_eq rfl).trans hs1
        split <;> exact ⟨_, _, rfl, hp⟩
      · simp only [enqueueThen_eq]
        exact ⟨_, _, rfl, rtxLe_enqueueBuilt _ _⟩
    iterate 3
      · refine afterAck_rtx _ seg _ (fun x => ∃ s' r, x = .ok (s', r) ∧ RtxLe s s') ?_
        intro s1 r1 hs1
        split <;> exact ⟨_, _, rfl, hs1⟩
    iterate 2
      · refine afterAck_rtx _ seg _ (fun x => ∃ s' r, x = .ok (s', r) ∧ RtxLe s s') ?_
        intro s1 r1 hs1
        dsimp only
        split <;> split <;> exact ⟨_, _, rfl, hs1.trans (rtxLe_of_eq rfl)⟩
    · refine afterAck_rtx _ seg _ (fun x => ∃ s' r, x = .ok (s', r) ∧ RtxLe s s') ?_
      intro s1 r1 hs1
      split
      · exact ⟨_, _, rfl, hs1⟩
      · split <;> exact ⟨_, _, rfl, hs1⟩
    · exact ⟨_, _, rfl, RtxLe.refl _⟩

theorem synBlock_rtx (s : Tcb) (seg : Hdr) : ∃ s' r, synBlock s seg = .ok (s', r) ∧ RtxLe s s' := by
  unfold synBlock
  split
  · split <;> exact ⟨_, _, rfl, RtxLe.refl _⟩
  · split
    · dsimp only
      split
      · simp only [enqueueThen_eq]
        exact ⟨_, _, rfl, (rtxLe_of_eq (s := s) rfl).trans (rtxLe_enqueueBuilt _ _)⟩
      · simp only [enqueueThen_eq]
        exact ⟨_, _, rfl, (rtxLe_of_eq (s := s) rfl).trans (rtxLe_enqueueBuilt _ _)⟩
    · simp only [enqueueThen_eq]
      exact ⟨_, _, rfl, rtxLe_enqueueBuilt _ _⟩

theorem textBlock_rtx (s : Tcb) (seg : Hdr) (text : List UInt8) (tl : Seq) (s' : Tcb)
    (r : Option ProcessSegmentResult) (e : textBlock s seg text tl = .ok (s', r)) : RtxLe s s' := by
  unfold textBlock at e
  split at e
  · cases e; exact RtxLe.refl _
  · split at e
    all_goals first
      | (cases e; exact RtxLe.refl _)
      | (dsimp only at e
         repeat' (split at e)
         all_goals first
           | (simp at e; done)
           | (rw [enqueueThen_eq] at e
              cases e
              exact (rtxLe_of_eq (s := s) rfl).trans (rtxLe_enqueueBuilt _ _)))

theorem finBlock_rtx (s : Tcb) (seg : Hdr) (tl : Seq) :
    ∃ s' r, finBlock s seg tl = .ok (s', r) ∧ RtxLe s s' := by
  unfold finBlock
  split
  · exact ⟨_, _, rfl, RtxLe.refl _⟩
  · dsimp only
    have key : ∃ s1, (if s.state ≠ .SynSent then
          if (decide (s.rcv.nxt = seg.seq + tl) || decide (s.rcv.nxt = seg.seq + tl + 1)) = true then
            ({ s with rcv.nxt := seg.seq + tl + 1 } : Tcb).enqueue
              ({ s with rcv.nxt := seg.seq + tl + 1 } : Tcb).ackHdr
          else Except.ok s
        else Except.ok s) = .ok s1 ∧ RtxLe s s1 := by
      split
      · split
        · rw [enqueue_eq]
          exact ⟨_, rfl, (rtxLe_of_eq (s := s) rfl).trans (rtxLe_enqueueBuilt _ _)⟩
        · exact ⟨_, rfl, RtxLe.refl _⟩
      · exact ⟨_, rfl, RtxLe.refl _⟩
    obtain ⟨s1, h1, hp1⟩ := key
    rw [h1]
    dsimp only
    split
    all_goals first
      | exact ⟨_, _, rfl, hp1⟩
      | exact ⟨_, _, rfl, hp1.trans (rtxLe_of_eq rfl)⟩
      | (split <;> exact ⟨_, _, rfl, hp1.trans (rtxLe_of_eq rfl)⟩)

theorem processSegment_rtx (s : Tcb) (segment : Segment) (hp : segment.text.length ≤ MAX_PAYLOAD)
    (s' : Tcb) (r : ProcessSegmentResult) (e : s.processSegment segment = .ok (s', r)) : RtxLe s s' := by
  unfold processSegment at e
  dsimp only at e
  have htl : (BitVec.ofNat 32 segment.text.length).toNat ≤ MAX_PAYLOAD := by
    simp only [BitVec.toNat_ofNat]; unfold MAX_PAYLOAD at hp ⊢; omega
  obtain ⟨s1, r1, e1, p1⟩ := seqCheck_rtx s segment.hdr _ htl
  rw [e1] at e
  cases r1 with
  | some r1 => simp only [andThen_some] at e; cases e; exact p1
  | none =>
    simp only [andThen_none] at e
    obtain ⟨s2, r2, e2, p2⟩ := ackBlock_rtx s1 segment.hdr
    rw [e2] at e
    cases r2 with
    | some r2 => simp only [andThen_some] at e; cases e; exact p1.trans p2
    | none =>
      simp only [andThen_none] at e
      obtain ⟨r3, e3⟩ := rstBlock_spec s2 segment.hdr
      rw [e3] at e
      cases r3 with
      | some r3 => simp only [andThen_some] at e; cases e; exact p1.trans p2
      | none =>
        simp only [andThen_none] at e
        obtain ⟨s4, r4, e4, p4⟩ := synBlock_rtx s2 segment.hdr
        rw [e4] at e
        cases r4 with
        | some r4 => simp only [andThen_some] at e; cases e; exact (p1.trans p2).trans p4
        | none =>
          simp only [andThen_none] at e
          cases h5 : textBlock s4 segment.hdr segment.text (BitVec.ofNat 32 segment.text.length) with
          | error err => rw [h5] at e; simp [B.andThen] at e
          | ok p =>
            obtain ⟨s5, r5⟩ := p
            have p5 := textBlock_rtx _ _ _ _ _ _ h5
            rw [h5] at e
            cases r5 with
            | some r5 => simp only [andThen_some] at e; cases e; exact ((p1.trans p2).trans p4).trans p5
            | none =>
              simp only [andThen_none] at e
              obtain ⟨s6, r6, e6, p6⟩ := finBlock_rtx s5 segment.hdr (BitVec.ofNat 32 segment.text.length)
              rw [e6] at e
              cases r6 <;> (cases e; exact (((p1.trans p2).trans p4).trans p5).trans p6)

theorem drain_rtx (fuel : Nat) (s : Tcb) (h : Wf s)
    (s' : Tcb) (r : SegmentArrivesResult) (e : drain fuel s = .ok (s', r)) : RtxLe s s' := by
  induction fuel generalizing s with
  | zero => unfold drain at e; cases e; exact RtxLe.refl _
  | succ n ih =>
    unfold drain at e
    split at e
    · cases e; exact RtxLe.refl _
    · rename_i top hpeek
      split at e
      · cases e; exact RtxLe.refl _
      · obtain ⟨rest, hpop⟩ := LHeap.pop_of_peek (le := segLe) hpeek
        rw [hpop] at e
        dsimp only at e
        have hmem := LHeap.mem_of_mem_pop hpop
        have wf0 : Wf { s with incoming.segments := rest } :=
          ⟨h.mtu_ge, h.rcv_wnd, h.in_text, fun seg hs => h.heap_text seg (hmem.2 seg hs)⟩
        obtain ⟨s1, r1, e1, rx1⟩ := processSegment_spec _ top wf0 (h.heap_text top hmem.1)
        have p1 : RtxLe s s1 :=
          (rtxLe_of_eq (s := s) (s' := { s with incoming.segments := rest }) rfl).trans
            (processSegment_rtx _ top (h.heap_text top hmem.1) _ _ e1)
        rw [e1] at e
        dsimp only at e
        split at e
        · cases e; exact p1
        · exact p1.trans (ih s1 (wf0.of_rx rx1) e)

theorem segmentArrives_rtx (s : Tcb) (segment : Segment) (h : Wf s)
    (hp : segment.text.length ≤ MAX_PAYLOAD) (s' : Tcb) (r : SegmentArrivesResult)
    (e : s.segmentArrives segment = .ok (s', r)) : RtxLe s s' := by
  unfold segmentArrives at e
  dsimp only at e
  split at e
  · simp at e
  · rw [enqueue_eq] at e
    cases e
    exact rtxLe_enqueueBuilt _ _
  · have wf0 : Wf { s with incoming.segments := LHeap.push segLe s.incoming.segments segment } :=
      ⟨h.mtu_ge, h.rcv_wnd, h.in_text, fun seg hs => by
        rcases LHeap.mem_push.1 hs with rfl | hs
        · exact hp
        · exact h.heap_text seg hs⟩
    exact (rtxLe_of_eq (s := s)
      (s' := { s with incoming.segments := LHeap.push segLe s.incoming.segments segment }) rfl).trans
      (drain_rtx _ _ wf0 _ _ e)

theorem segmentize_rtx (maxSeg : Nat) (hm : maxSeg ≤ MAX_SEGMENT_TEXT) (fuel : Nat) (s : Tcb) (q : Nat)
    (s' : Tcb) (e : segmentize maxSeg fuel s q = .ok s') : RtxLe s s' := by
  induction fuel generalizing s q with
  | zero => unfold segmentize at e; cases e; exact RtxLe.refl _
  | succ n ih =>
    unfold segmentize at e
    dsimp only at e
    split at e
    · cases e; exact RtxLe.refl _
    · generalize hbytes : min (min maxSeg (s.snd.wnd.toNat - q)) s.outgoing.text.length = bytes at e
      cases hb : s.ackHdr.build (List.take bytes s.outgoing.text).length with
      | none => rw [hb] at e; simp at e
      | some header =>
        rw [hb] at e
        dsimp only at e
        refine RtxLe.trans ?_ (ih _ _ e)
        intro t ht
        simp only [List.mem_append, List.mem_singleton] at ht
        rcases ht with ht | rfl
        · exact Or.inr ⟨t, ht, rfl⟩
        · left
          simp only [Transmit.new, List.length_take]
          omega

theorem queueFin_rtx (s s' : Tcb) (e : s.queueFin = .ok s') : RtxLe s s' := by
  unfold queueFin at e
  split at e
  · rw [enqueue_eq] at e
    dsimp only at e
    cases e
    exact (rtxLe_enqueueBuilt _ _).trans (rtxLe_of_eq rfl)
  · cases e; exact RtxLe.refl _

/-- `segments()`: the queue stays bounded and every emitted segment fits an IPv4 datagram -/
theorem segments_rtx (s : Tcb) (hb : RtxBound s) (s' : Tcb) (out : List Segment)
    (e : s.segments = .ok (s', out)) :
    RtxBound s' ∧ ∀ seg ∈ out, seg.text.length ≤ MAX_PAYLOAD := by
  unfold segments at e
  dsimp only at e
  cases h1 : segmentizeIfOpen { s with outgoing.oneshot := [] } with
  | error err => rw [h1] at e; simp at e
  | ok s1 =>
    rw [h1] at e
    dsimp only at e
    have p1 : RtxLe s s1 := by
      refine (rtxLe_of_eq (s := s) (s' := { s with outgoing.oneshot := [] }) rfl).trans ?_
      unfold segmentizeIfOpen at h1
      have hmtu := s.mtu.isLt
      split at h1
      all_goals first
        | (split at h1
           · simp at h1
           · exact segmentize_rtx _ (by unfold MAX_SEGMENT_TEXT; dsimp only; omega) _ _ _ _ h1)
        | (cases h1; exact RtxLe.refl _)
    cases h2 : finIfPending s.finPending s1 with
    | error err => rw [h2] at e; simp at e
    | ok s2 =>
    rw [h2] at e
    dsimp only at e
    have p2 : RtxLe s1 s2 := by
      unfold finIfPending at h2
      split at h2
      · exact queueFin_rtx _ _ h2
      · cases h2; exact RtxLe.refl _
    have b1 : RtxBound s2 := (hb.step p1).step p2
    simp only [Except.ok.injEq, Prod.mk.injEq] at e
    obtain ⟨hs', hout⟩ := e
    constructor
    · rw [← hs']
      split
      all_goals
        intro t ht
        obtain ⟨t0, ht0, rfl⟩ := List.mem_map.1 ht
        exact b1 t0 ht0
    · intro seg hseg
      rw [← hout] at hseg
      rcases List.mem_append.1 hseg with h | h
      · obtain ⟨hd, _, rfl⟩ := List.mem_map.1 h
        exact Nat.zero_le _
      · obtain ⟨t, ht, rfl⟩ := List.mem_map.1 h
        exact b1 t (List.mem_filter.1 ht).1

theorem advanceTime_rtx (s : Tcb) (dt : Nat) (s' : Tcb) (r : AdvanceTimeResult)
    (e : s.advanceTime dt = .ok (s', r)) : RtxLe s s' := by
  unfold advanceTime at e
  cases h1 : s.advanceRetransmission dt with
  | error err => rw [h1] at e; simp at e
  | ok s1 =>
    rw [h1] at e
    dsimp only at e
    have p1 : RtxLe s s1 := by
      unfold advanceRetransmission at h1
      split at h1
      · cases h1; exact rtxLe_flags s true _
      · cases h1; exact rtxLe_of_eq rfl
    split at e
    · split at e
      · cases e; exact p1
      · cases e; exact p1.trans (rtxLe_of_eq rfl)
    · cases e; exact p1

theorem send_rtx (s : Tcb) (m : List UInt8) : RtxLe s (s.send m) := by
  unfold send; split <;> exact rtxLe_of_eq rfl

theorem receive_rtx (s : Tcb) : RtxLe s s.receive.1 := by
  unfold receive; split <;> exact rtxLe_of_eq rfl

theorem close_rtx (s : Tcb) (s' : Tcb) (r : CloseResult) (e : s.close = .ok (s', r)) : RtxLe s s' := by
  unfold close at e
  split at e
  all_goals first
    | (cases e; exact RtxLe.refl _)
    | (split at e
       · simp at e
       · rename_i t h1
         cases e
         have h2 := queueFin_rtx _ _ h1
         exact RtxLe.trans (rtxLe_of_eq rfl) h2)

theorem abort_rtx (s : Tcb) (s' : Tcb) (e : s.abort = .ok s') : RtxLe s s' := by
  unfold abort at e
  split at e
  all_goals first
    | (cases e; exact RtxLe.refl _)
    | (dsimp only at e
       rw [enqueue_eq] at e
       cases e
       refine RtxLe.trans (b := { s with outgoing := {} }) (fun t ht => ?_) (rtxLe_enqueueBuilt _ _)
       simp at ht)

theorem open_rtxBound (lp rp : U16) (iss : Seq) (mtu : U16) (s : Tcb) (e : Tcb.open lp rp iss mtu = .ok s) :
    RtxBound s := by
  unfold Tcb.open at e
  dsimp only at e
  rw [enqueue_eq] at e
  cases e
  exact RtxBound.step (fun t ht => by simp at ht) (rtxLe_enqueueBuilt _ _)

theorem listen_rtxBound (segment : Segment) (iss : Seq) (mtu : U16) (tcb : Tcb)
    (e : segmentArrivesListen segment iss mtu = .ok (some (.Tcb tcb))) : RtxBound tcb := by
  unfold segmentArrivesListen at e
  dsimp only at e
  split at e
  · simp at e
  · split at e
    · cases hb : (Hdr.builder segment.hdr.dstPort segment.hdr.srcPort segment.hdr.ack).withRst.build 0 <;>
        simp [hb] at e
    · split at e
      · rw [enqueue_eq] at e
        dsimp only at e
        simp only [Except.ok.injEq, Option.some.injEq, ListenResult.Tcb.injEq] at e
        subst e
        refine RtxBound.step (s := Tcb.enqueueBuilt _ _) ?_ (rtxLe_of_eq rfl)
        exact RtxBound.step (fun t ht => by simp at ht) (rtxLe_enqueueBuilt _ _)
      · simp at e

end Tcb
end Elvis.Tcp
