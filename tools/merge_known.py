#!/usr/bin/env python3
"""known/*.json fragments -> known_findings.json (run by hand when a fragment changes; the file
is committed and only read at check time)."""
import json, glob, os
ROOT = os.path.join(os.path.dirname(os.path.abspath(__file__)), "..")
findings = []
seen = set()
for p in sorted(glob.glob(os.path.join(ROOT, "known", "*.json"))):
    for f in json.load(open(p)).get("findings", []):
        if f["id"] in seen:
            raise SystemExit(f"duplicate finding id {f['id']} in {p}")
        seen.add(f["id"])
        for k in ("id", "property", "status", "line"):
            assert k in f, (p, k)
        assert f["status"] in ("known", "fixed")
        if f["status"] == "known":
            assert f["line"].startswith(f"KNOWN-FINDING: property={f['property']} "), f["line"]
            assert "match" in f
        else:
            assert f["line"].startswith(f"fixed: property={f['property']} "), f["line"]
        findings.append(f)
out = {"comment": "Generated from known/*.json by tools/merge_known.py; committed; read-only at run time. status=known entries print KNOWN-FINDING and suppress exactly the matching identity; status=fixed entries record a repaired defect and suppress nothing.",
       "findings": findings}
json.dump(out, open(os.path.join(ROOT, "known_findings.json"), "w"), indent=1)
print(len(findings), "findings")
