import ElvisVerif.Lemmas.IpGen
/-! Helper lemmas for C15: `next` and the `fetch_net` scan. -/
namespace Elvis.IpGen

/-! ### `next` and `fetch_net` -/

theorem aligned_gap {p a b : Nat} (ha : a % p = 0) (hb : b % p = 0) (hab : a < b) : a + p ≤ b := by
  have h1 := Nat.div_add_mod a p
  have h2 := Nat.div_add_mod b p
  rw [ha] at h1; rw [hb] at h2
  have hlt : a / p < b / p := by
    apply Nat.lt_of_not_le; intro hle
    have := Nat.mul_le_mul_left p hle; omega
  have := Nat.mul_le_mul_left p hlt
  rw [Nat.mul_succ] at this; omega

/-- `next ip mask`: the least aligned network id `≥ ip`, or `None` when that would be `≥ 2^32`;
    never panics -/
theorem next_spec (ip k : Nat) (hk : k ≤ 32) (hip : ip < 2 ^ 32) :
    (∃ n, next ip (2 ^ 32 - 2 ^ k) = .ok (some n) ∧ n.WF k ∧ ip ≤ n.id ∧ n.id < ip + 2 ^ k) ∨
    (next ip (2 ^ 32 - 2 ^ k) = .ok none ∧ ∀ id, id % 2 ^ k = 0 → ip ≤ id → 2 ^ 32 ≤ id) := by
  obtain ⟨hwf, hid⟩ := Net.new_WF ip k hk hip
  have hp := pow_pos' k
  have hq1 : ip / 2 ^ k * 2 ^ k ≤ ip := Nat.div_mul_le_self ip (2 ^ k)
  have hq2 : ip < ip / 2 ^ k * 2 ^ k + 2 ^ k := by
    have := Nat.div_add_mod ip (2 ^ k)
    have := Nat.mod_lt ip hp
    rw [Nat.mul_comm]; omega
  have hqa : (ip / 2 ^ k * 2 ^ k) % 2 ^ k = 0 := Nat.mul_mod_left _ _
  generalize hqd : ip / 2 ^ k * 2 ^ k = q at *
  simp only [next]
  by_cases heq : q = ip
  · left
    refine ⟨Net.new ip (2 ^ 32 - 2 ^ k), ?_, hwf, by omega, by omega⟩
    rw [if_pos (by rw [hid, heq]; exact beq_self_eq_true ip)]
  · have hne : ¬ (((Net.new ip (2 ^ 32 - 2 ^ k)).id == ip) = true) := by
      rw [hid]; simpa using heq
    obtain ⟨hb, hble⟩ := Net.broadcast_WF hwf
    rw [if_neg hne, hb]
    dsimp only
    rw [hid] at hble ⊢
    rw [add_one]
    by_cases hlt : q + (2 ^ k - 1) < U32MAX
    · left
      rw [if_pos hlt]
      have hip' : q + (2 ^ k - 1) + 1 < 2 ^ 32 := by unfold U32MAX at hlt; omega
      obtain ⟨hwf', hid'⟩ := Net.new_WF (q + (2 ^ k - 1) + 1) k hk hip'
      have he : q + (2 ^ k - 1) + 1 = q + 2 ^ k := by omega
      have hal : (q + 2 ^ k) % 2 ^ k = 0 := by rw [Nat.add_mod_right]; exact hqa
      have hidq : (q + 2 ^ k) / 2 ^ k * 2 ^ k = q + 2 ^ k := by
        have := Nat.div_add_mod (q + 2 ^ k) (2 ^ k); rw [hal] at this; rw [Nat.mul_comm]; omega
      rw [he] at hwf' hid' ⊢
      refine ⟨_, rfl, hwf', ?_, ?_⟩ <;> rw [hid', hidq] <;> omega
    · right
      rw [if_neg hlt]
      refine ⟨rfl, ?_⟩
      intro id hal hge
      have := aligned_gap hqa hal (by omega : q < id)
      unfold U32MAX at hlt hble; omega

/-- loop invariant of `fetch_net`: either the scan found the first free range that contains an
    aligned block (and blocked exactly that block), or no scanned range contains one -/
theorem fetchLoop_spec (g : Gen) (k : Nat) (hk : k ≤ 32) :
    ∀ (L : List Range), (∀ av ∈ L, av.1 ≤ U32MAX ∧ av.2 ≤ U32MAX) →
    ∃ res, fetchLoop g (2 ^ 32 - 2 ^ k) L = .ok res ∧
      (match res.2 with
       | some n => n.WF k ∧ n.mask = 2 ^ 32 - 2 ^ k ∧ (∃ av ∈ L, av.1 ≤ n.id ∧ n.id + (2 ^ k - 1) ≤ av.2) ∧
                   blockRange g (n.id, n.id + (2 ^ k - 1)) = .ok res.1
       | none => res.1 = g ∧ ∀ av ∈ L, ∀ id, id % 2 ^ k = 0 → av.1 ≤ id → ¬ (id + (2 ^ k - 1) ≤ av.2)) := by
  intro L
  induction L with
  | nil => intro _; exact ⟨(g, none), rfl, rfl, by simp⟩
  | cons av rest ih =>
    intro hL
    have hav : av.1 < 2 ^ 32 := by have := (hL av List.mem_cons_self).1; unfold U32MAX at this; omega
    obtain ⟨res, hres, hspec⟩ := ih (fun a ha => hL a (List.mem_cons_of_mem _ ha))
    -- what happens when this range is skipped
    have skip : (∀ id, id % 2 ^ k = 0 → av.1 ≤ id → ¬ (id + (2 ^ k - 1) ≤ av.2)) →
        ∃ res, fetchLoop g (2 ^ 32 - 2 ^ k) rest = .ok res ∧
          (match res.2 with
           | some n => n.WF k ∧ n.mask = 2 ^ 32 - 2 ^ k ∧ (∃ a ∈ av :: rest, a.1 ≤ n.id ∧ n.id + (2 ^ k - 1) ≤ a.2) ∧
                       blockRange g (n.id, n.id + (2 ^ k - 1)) = .ok res.1
           | none => res.1 = g ∧ ∀ a ∈ av :: rest, ∀ id, id % 2 ^ k = 0 → a.1 ≤ id → ¬ (id + (2 ^ k - 1) ≤ a.2)) := by
      intro hno
      refine ⟨res, hres, ?_⟩
      cases hr : res.2 with
      | none =>
        rw [hr] at hspec
        refine ⟨hspec.1, ?_⟩
        intro a ha
        rcases List.mem_cons.1 ha with rfl | ha
        · exact hno
        · exact hspec.2 a ha
      | some n =>
        rw [hr] at hspec
        obtain ⟨h1, h2, ⟨a, ha, h3⟩, h4⟩ := hspec
        exact ⟨h1, h2, ⟨a, List.mem_cons_of_mem _ ha, h3⟩, h4⟩
    unfold fetchLoop
    rcases next_spec av.1 k hk hav with ⟨n, hn, hwf, hge, hlt⟩ | ⟨hn, hnone⟩
    · rw [hn]
      simp only [Net.toRange_WF hwf]
      by_cases hc : contains av (n.id, n.id + (2 ^ k - 1)) = true
      · rw [if_pos hc]
        have hbnd := (Net.broadcast_WF hwf).2
        obtain ⟨g', hg', _⟩ := blockRange_ok g (n.id, n.id + (2 ^ k - 1))
          ⟨by have := pow_pos' k; show n.id ≤ U32MAX; omega, hbnd⟩
        rw [hg']
        refine ⟨(g', some n), rfl, hwf, hwf.2.1, ⟨av, List.mem_cons_self, ?_⟩, hg'⟩
        simpa [contains] using hc
      · rw [if_neg hc]
        apply skip
        intro id hal hle hfit
        apply hc
        have : n.id ≤ id := by
          apply Nat.le_of_not_lt; intro hlt'
          have := aligned_gap hal hwf.2.2.1 hlt'
          omega
        simp [contains]; omega
    · rw [hn]
      apply skip
      intro id hal hle hfit
      have h1 := hnone id hal hle
      have h2 := (hL av List.mem_cons_self).2
      unfold U32MAX at h2; omega

end Elvis.IpGen
