import ElvisVerif.Lemmas.TcpAckStep
import ElvisVerif.Lemmas.C01Run
import ElvisVerif.Props.C03
/-!
# The closed system nobody closes: all invariants together, and no RST, ever

`Op.Plain`: `write`, `read`, `tick`, `emit`, delivery of any history element to the side it is
addressed to — the ops of C01's fair phase and of its schedules, without `close`/`abort`/`drop`.

`Conv iss s` bundles, for such runs from `open A` + (`listen B` | `open B`):
* `C01.Inv` (stream facts: `Lemmas/C01Sys.lean`),
* `Full` (`Inv` of `Lemmas/TcpSysInv.lean`, SYN-SENT freshness, acknowledgment invariant),
* `NoRst`: no RST in the history, on any queue or in any reorder heap; the 2·MSL timer is not armed;
  neither side has lost its TCB / LISTEN binding.

`conv_step`: one plain step keeps `Conv` (H31 as `RoomH`: fewer than 2^31 − 2 bytes submitted per
direction).
-/
namespace Elvis.Tcp
open Tcb Elvis.Rfc9293

/-! ## the ops -/

def Op.Plain (sys : Sys) : Op → Prop
  | .deliver x i => ∀ σ, sys.nth i = some σ → σ.hdr.srcPort = x.peer.port ∧ σ.hdr.dstPort = x.port
  | .write .. => True
  | .read _ => True
  | .tick .. => True
  | .emit _ => True
  | _ => False

theorem Op.Plain.clean {sys : Sys} {op : Op} (h : Op.Plain sys op) : Op.Clean sys op := by
  cases op <;> first | exact h | exact h.elim

theorem Op.Plain.opOk {iss : SideId → Seq} {sys : Sys} {op : Op} (h : Op.Plain sys op) : C01.OpOk iss sys op := by
  cases op <;> first | exact h | exact h.elim | trivial

/-! ## H31 -/

/-- fewer than 2^31 − 2 bytes submitted in each direction (room for SYN and FIN) -/
def RoomH (s : Sys) : Prop := s.a.submitted.length + 2 < 2147483648 ∧ s.b.submitted.length + 2 < 2147483648

theorem RoomH.side {s : Sys} (h : RoomH s) (x : SideId) : (s.side x).submitted.length + 2 < 2147483648 := by
  cases x
  · exact h.1
  · exact h.2

theorem RoomH.lt31 {s : Sys} (h : RoomH s) : C01.Lt31 s := ⟨by have := h.1; omega, by have := h.2; omega⟩

theorem sent_of_tinv {port : U16} {ix iy : Seq} {sx sy dx : List UInt8} {t : Tcb}
    (h : C01.TInv port ix iy sx sy dx t) (hb : sx.length + 2 < 2147483648) :
    t.sent + t.outgoing.text.length = sx.length + 1 := by
  obtain ⟨pre, hsub, hnxt⟩ := h.out
  have hl : pre.length + t.outgoing.text.length = sx.length := by rw [hsub, List.length_append]
  unfold sent
  rw [h.iss, hnxt]
  have e : ix + 1 + BitVec.ofNat 32 pre.length = ix + BitVec.ofNat 32 (pre.length + 1) := by
    rw [BitVec.ofNat_add]; bv_omega
  rw [e, off_add ix ix (pre.length + 1) (by rw [off_self]; omega), off_self]
  omega

theorem room_of_inv {iss : SideId → Seq} {s : Sys} (h : C01.Inv iss s) (hb : RoomH s) : RoomOk s := by
  intro x t ht
  have := sent_of_tinv ((h.side x).tcb t ht) (hb.side x)
  unfold Room
  have := hb.side x
  omega

/-! ## no RST -/

structure NoRstTcb (t : Tcb) : Prop where
  one : ∀ h ∈ t.outgoing.oneshot, h.ctl.rst = false
  rtx : ∀ tr ∈ t.outgoing.retransmit, tr.segment.hdr.ctl.rst = false
  heap : ∀ σ ∈ t.incoming.segments, σ.hdr.ctl.rst = false
  tw : TwInv t

structure NoRst (s : Sys) : Prop where
  hist : ∀ σ ∈ s.history, σ.hdr.ctl.rst = false
  tcb : ∀ x t, (s.side x).tcb = some t → NoRstTcb t
  alive : ∀ x, (s.side x).tcb.isSome = true ∨ (s.side x).listen.isSome = true

theorem NoRstTcb.of_qstep {P : Hdr → Prop} {A : Seq → Prop} {t t' : Tcb} (h : NoRstTcb t) (q : QStep P A t t')
    (hp : ∀ x, P x → x.ctl.rst = false) (hh : ∀ σ ∈ t'.incoming.segments, σ.hdr.ctl.rst = false) (htw : TwInv t') :
    NoRstTcb t' := by
  refine ⟨fun x hx => ?_, fun tr hx => ?_, hh, htw⟩
  · rcases q.one x hx with e | e
    · exact h.one x e
    · exact hp x e
  · rcases q.rtx tr hx with ⟨t0, e, es⟩ | e
    · rw [← es]; exact h.rtx t0 e
    · exact hp _ e

theorem NoRstTcb.of_lstep {t t' : Tcb} (h : NoRstTcb t) (l : LStep t t') (htw : TwInv t') : NoRstTcb t' :=
  h.of_qstep l.q (fun _ hx => hx.1) (by rw [l.heap]; exact h.heap) htw

/-- with the TCB in one of the three states of a connection nobody closes, a segment without RST
    does not delete it -/
theorem nodel_of_ok3 {s s' : Tcb} {segment : Segment} {r : ProcessSegmentResult}
    (e : s.processSegment segment = .ok (s', r)) (hst : C01.Ok3 s'.state) (hr : segment.hdr.ctl.rst = false) :
    r.shouldDeleteTcb = false := by
  obtain ⟨_, _, _, hd, _⟩ := processSegment_edges s segment s' r e
  cases hdel : r.shouldDeleteTcb with
  | false => rfl
  | true =>
    have := hd hdel
    unfold evOf at this
    rw [hr] at this
    rcases hst.cases with h | h | h <;> rw [h] at this <;> simp [rfcCause] at this

section
variable {port : U16} {issX issY : Seq} {subX subY delX : List UInt8}

theorem drain_ok (fuel : Nat) {t t' : Tcb} {r : SegmentArrivesResult}
    (h : C01.TInv port issX issY subX subY delX t) (h31 : subY.length < 2147483648)
    (hr : ∀ σ ∈ t.incoming.segments, σ.hdr.ctl.rst = false)
    (e : drain fuel t = .ok (t', r)) : r = .Ok := by
  induction fuel generalizing t with
  | zero => unfold drain at e; cases e; rfl
  | succ n ih =>
    unfold drain at e
    split at e
    · cases e; rfl
    · rename_i top hpeek
      split at e
      · cases e; rfl
      · rename_i hgate
        obtain ⟨rest, hpop⟩ := LHeap.pop_of_peek (le := segLe) hpeek
        rw [hpop] at e
        dsimp only at e
        have hmem := LHeap.mem_of_mem_pop hpop
        have h0 : C01.TInv port issX issY subX subY delX { t with incoming.segments := rest } :=
          ⟨h.lp, h.st, h.iss, h.out, h.rtx, h.one, fun g hg => h.heap g (hmem.2 g hg), h.rcv0, h.rcv1, h.irs⟩
        have hg : ({ t with incoming.segments := rest } : Tcb).state ≠ .SynSent →
            ModCmp.modGt top.hdr.seq ({ t with incoming.segments := rest } : Tcb).rcv.nxt = false := by
          intro hne
          cases hm : ModCmp.modGt top.hdr.seq t.rcv.nxt with
          | false => rfl
          | true =>
            exfalso; apply hgate
            have hne' : t.state ≠ .SynSent := hne
            simp [hne', hm]
        cases hp : processSegment { t with incoming.segments := rest } top with
        | error x => rw [hp] at e; cases e
        | ok p =>
          obtain ⟨s1, r1⟩ := p
          rw [hp] at e
          dsimp only at e
          have i1 := C01.processSegment_inv h0 (h.heap top hmem.1) h31 hg hp
          have hnd := nodel_of_ok3 hp i1.st (hr top hmem.1)
          rw [hnd] at e
          simp only [Bool.false_eq_true, if_false] at e
          have heap1 : s1.incoming.segments = rest := processSegment_heap _ _ _ _ hp
          exact ih i1 (fun σ hσ => by rw [heap1] at hσ; exact hr σ (hmem.2 σ hσ)) e

/-- a segment without RST arriving at a TCB of a connection nobody closes never deletes it -/
theorem segmentArrives_ok {t t' : Tcb} {g : Segment} {r : SegmentArrivesResult}
    (h : C01.TInv port issX issY subX subY delX t) (hv : C01.Valid issY subY g) (h31 : subY.length < 2147483648)
    (hg : g.hdr.ctl.rst = false) (hr : ∀ σ ∈ t.incoming.segments, σ.hdr.ctl.rst = false)
    (e : t.segmentArrives g = .ok (t', r)) : r = .Ok := by
  unfold segmentArrives at e
  dsimp only at e
  split at e
  · cases e
  · rw [enqueue_eq] at e
    cases e; rfl
  · refine drain_ok (port := port) (issX := issX) (issY := issY) (subX := subX) (delX := delX) _ ?_ h31 ?_ e
    · refine ⟨h.lp, h.st, h.iss, h.out, h.rtx, h.one, fun x hx => ?_, h.rcv0, h.rcv1, h.irs⟩
      rcases LHeap.mem_push.1 hx with rfl | hx
      · exact hv
      · exact h.heap x hx
    · intro σ hσ
      rcases LHeap.mem_push.1 hσ with rfl | hx
      · exact hg
      · exact hr σ hx

end

/-! ## the bundle -/

structure Conv (iss : SideId → Seq) (s : Sys) : Prop where
  c01 : C01.Inv iss s
  full : Full s
  nr : NoRst s

/-- a local call on side `x` that keeps the TCB -/
theorem noRst_update (s : Sys) (h : NoRst s) (x : SideId) (t t' : Tcb) (sd' : Side) (new : List Segment)
    (ht : (s.side x).tcb = some t) (hsd : sd'.tcb = some t') (l : LStep t t') (htw : TwInv t')
    (hnew : ∀ σ ∈ new, σ.hdr ∈ t.outgoing.oneshot ∨ ∃ tr ∈ t'.outgoing.retransmit, tr.segment = σ) :
    NoRst ((s.setSide x sd').record new) := by
  have n' := (h.tcb x t ht).of_lstep l htw
  refine ⟨fun σ hσ => ?_, fun y u hu => ?_, fun y => ?_⟩
  · rw [mem_history_record, history_setSide] at hσ
    rcases hσ with hn | ho
    · rcases hnew σ hn with e | ⟨tr, e, es⟩
      · exact (h.tcb x t ht).one _ e
      · rw [← es]; exact n'.rtx tr e
    · exact h.hist σ ho
  · rw [Elvis.Tcp.side_record, side_setSide_if] at hu
    split at hu
    · rw [hsd] at hu; cases hu; exact n'
    · exact h.tcb y u hu
  · rw [Elvis.Tcp.side_record, side_setSide_if]
    split
    · left; rw [hsd]; rfl
    · exact h.alive y

theorem noRst_update0 (s : Sys) (h : NoRst s) (x : SideId) (t t' : Tcb) (sd' : Side)
    (ht : (s.side x).tcb = some t) (hsd : sd'.tcb = some t') (l : LStep t t') (htw : TwInv t') :
    NoRst (s.setSide x sd') := by
  have := noRst_update s h x t t' sd' [] ht hsd l htw (fun σ hσ => by cases hσ)
  rw [record_nil] at this
  exact this

theorem conv_step {iss : SideId → Seq} (s : Sys) (h : Conv iss s) (hb : RoomH s) (op : Op) (hp : Op.Plain s op)
    (s' : Sys) (r : Res) (e : s.step op = .ok (s', r)) : Conv iss s' := by
  have hroom := room_of_inv h.c01 hb
  have c01' := C01.step_inv h.c01 (hp.opOk (iss := iss)) hb.lt31 e
  have full' := full_step s h.full hroom op (Or.inl hp.clean) s' r e
  refine ⟨c01', full', ?_⟩
  have n := h.nr
  cases op with
  | «open» x i mtu => exact hp.elim
  | listen x i mtu => exact hp.elim
  | inject x seg => exact hp.elim
  | abort x => exact hp.elim
  | drop x => exact hp.elim
  | close x => exact hp.elim
  | write x bytes =>
    simp only [Sys.step, Op.side] at e
    split at e
    · simp only [Except.ok.injEq, Prod.mk.injEq] at e
      rw [← e.1]; exact n
    · rename_i tcb htcb
      simp only [Except.ok.injEq, Prod.mk.injEq] at e
      rw [← e.1]
      exact noRst_update0 s n x tcb (tcb.send bytes) _ htcb rfl (send_l tcb bytes)
        ((send_keep tcb bytes).twInv (n.tcb x tcb htcb).tw)
  | read x =>
    simp only [Sys.step, Op.side] at e
    split at e
    · simp only [Except.ok.injEq, Prod.mk.injEq] at e
      rw [← e.1]; exact n
    · rename_i tcb htcb
      simp only [Except.ok.injEq, Prod.mk.injEq] at e
      rw [← e.1]
      exact noRst_update0 s n x tcb tcb.receive.1 _ htcb rfl (receive_l tcb)
        ((receive_keep tcb).twInv (n.tcb x tcb htcb).tw)
  | tick x ms =>
    simp only [Sys.step, Op.side] at e
    split at e
    · simp only [Except.ok.injEq, Prod.mk.injEq] at e
      rw [← e.1]; exact n
    · rename_i tcb htcb
      split at e
      · simp at e
      · rename_i tcb' h1
        simp only [Except.ok.injEq, Prod.mk.injEq] at e
        rw [← e.1]
        exact noRst_update0 s n x tcb tcb' _ htcb rfl (advanceTime_l tcb ms tcb' h1)
          ((advanceTime_edges tcb ms tcb' _ h1).2.1 (n.tcb x tcb htcb).tw)
      · rename_i tcb' h1
        -- the 2·MSL timer is not armed
        exfalso
        have hc := (advanceTime_edges tcb ms tcb' _ h1).2.2 rfl (n.tcb x tcb htcb).tw
        rcases ((h.c01.side x).tcb tcb htcb).st.cases with hs | hs | hs <;> rw [hs] at hc <;>
          simp [rfcCause] at hc
  | emit x =>
    simp only [Sys.step, Op.side] at e
    split at e
    · simp only [Except.ok.injEq, Prod.mk.injEq] at e
      rw [← e.1]; exact n
    · rename_i tcb htcb
      split at e
      · simp at e
      · rename_i tcb' segs h1
        simp only [Except.ok.injEq, Prod.mk.injEq] at e
        rw [← e.1]
        obtain ⟨l, hnew⟩ := segments_l tcb tcb' segs h1 (h.full.fresh x tcb htcb).fresh
        exact noRst_update s n x tcb tcb' _ segs htcb rfl l
          ((segments_keep tcb tcb' segs h1).twInv (n.tcb x tcb htcb).tw) hnew
  | deliver x i =>
    simp only [Sys.step, Op.side] at e
    split at e
    · simp only [Except.ok.injEq, Prod.mk.injEq] at e
      rw [← e.1]; exact n
    · rename_i σ hn
      obtain ⟨hsrc, hdst⟩ := hp σ hn
      have hmem : σ ∈ s.history := nth_mem s i σ hn
      have hσr := n.hist σ hmem
      have hval : C01.Valid (iss x.peer) (s.side x.peer).submitted σ := h.c01.hist σ hmem x.peer hsrc
      unfold Sys.arrive at e
      dsimp only at e
      split at e
      · rename_i tcb htcb
        have nt := n.tcb x tcb htcb
        split at e
        · simp at e
        · rename_i tcb' h1
          simp only [Except.ok.injEq, Prod.mk.injEq] at e
          rw [← e.1]
          have hsub := segmentArrives_heap_sub tcb σ tcb' .Ok h1
          have hheap : ∀ τ ∈ tcb'.incoming.segments, τ.hdr.ctl.rst = false := by
            intro τ hτ
            rcases List.mem_cons.1 (hsub τ hτ) with rfl | e1
            · exact hσr
            · exact nt.heap τ e1
          have htw := (segmentArrives_path tcb σ tcb' .Ok h1).2 nt.tw rfl
          -- the new headers are no RSTs: the peer has a TCB or listens
          have nt' : NoRstTcb tcb' := by
            rcases n.alive x.peer with ha | ha
            · obtain ⟨t, ht⟩ := Option.isSome_iff_exists.1 ha
              have a := (arrive_both s h.full.inv h.full.fresh h.full.ack hroom x tcb tcb' σ htcb hmem hsrc h1 t ht).1
              exact nt.of_qstep a.q (fun y hy => by
                cases hr : y.ctl.rst with
                | false => rfl
                | true => exact (hy.2 hr).elim) hheap htw
            · cases ht : (s.side x.peer).tcb with
              | some t =>
                have a := (arrive_both s h.full.inv h.full.fresh h.full.ack hroom x tcb tcb' σ htcb hmem hsrc h1 t ht).1
                exact nt.of_qstep a.q (fun y hy => by
                  cases hr : y.ctl.rst with
                  | false => rfl
                  | true => exact (hy.2 hr).elim) hheap htw
              | none =>
                have a := (arrive_listening s h.full.inv h.full.fresh h.full.ack hroom x tcb tcb' σ htcb hmem hsrc h1 ht ha).1
                exact nt.of_qstep a.q (fun y hy => by
                  cases hr : y.ctl.rst with
                  | false => rfl
                  | true => exact (hy.2 hr).elim) hheap htw
          refine ⟨by rw [history_setSide]; exact n.hist, fun y u hu => ?_, fun y => ?_⟩
          · rw [side_setSide_if] at hu
            split at hu
            · cases hu; exact nt'
            · exact n.tcb y u hu
          · rw [side_setSide_if]
            split
            · left; rfl
            · exact n.alive y
        · rename_i h1
          exfalso
          have := segmentArrives_ok ((h.c01.side x).tcb tcb htcb) hval (hb.lt31.side x.peer) hσr nt.heap h1
          cases this
      · rename_i htcb
        split at e
        · rename_i issl mtu hlis
          have hlis' : (s.side x).listen.isSome = true := by rw [hlis]; rfl
          -- the peer is in SYN-SENT and has sent nothing with an ACK bit
          have hnoack : σ.hdr.ctl.ack = false := by
            have hA := h.full.ack x.peer
            unfold AckLink at hA
            rw [SideId.peer_peer, htcb, hlis'] at hA
            rcases n.alive x.peer with ha | ha
            · obtain ⟨t, ht⟩ := Option.isSome_iff_exists.1 ha
              rw [ht] at hA
              exact (hA.fresh t rfl rfl rfl).1 σ hmem
            · -- only B listens
              exfalso
              have hxB : x = .B := by
                cases x with
                | A =>
                  have : s.a.listen = some (issl, mtu) := hlis
                  rw [h.full.inv.noListenA] at this; cases this
                | B => rfl
              subst hxB
              have : s.a.listen.isSome = true := ha
              rw [h.full.inv.noListenA] at this; cases this
          split at e
          · simp at e
          · simp only [Except.ok.injEq, Prod.mk.injEq] at e
            rw [← e.1]; exact n
          · rename_i tcb h1
            simp only [Except.ok.injEq, Prod.mk.injEq] at e
            rw [← e.1]
            obtain ⟨_, cone, crtx, cheap⟩ := listen_create_ack σ issl mtu tcb h1
            have htw := (C03.c03_transitions_start.2 σ issl mtu tcb h1).2
            refine ⟨by rw [history_setSide]; exact n.hist, fun y u hu => ?_, fun y => ?_⟩
            · rw [side_setSide_if] at hu
              split at hu
              · cases hu
                exact ⟨fun y hy => (by rw [cone] at hy; cases hy), fun tr hy => (crtx tr hy).2,
                  fun τ hτ => (by rw [(cheap τ hτ).2]; exact hσr), htw⟩
              · exact n.tcb y u hu
            · rw [side_setSide_if]
              split
              · left; rfl
              · exact n.alive y
          · rename_i hd h1
            -- LISTEN answers only a segment with the ACK bit
            exfalso
            unfold segmentArrivesListen at h1
            dsimp only at h1
            rw [hσr, hnoack] at h1
            simp only [Bool.false_eq_true, if_false] at h1
            split at h1
            · rw [Tcb.enqueue_eq] at h1
              simp at h1
            · simp at h1
        · rename_i hlis
          exfalso
          rcases n.alive x with ha | ha
          · rw [htcb] at ha; cases ha
          · rw [hlis] at ha; cases ha

/-! ## runs -/

/-- a run of plain ops -/
inductive PlainRun : Sys → Sys → Prop
  | refl (s : Sys) : PlainRun s s
  | step {s s1 s2 : Sys} {op : Op} {r : Res} : PlainRun s s1 → Op.Plain s1 op →
      s1.step op = .ok (s2, r) → PlainRun s s2

theorem PlainRun.sub {s s' : Sys} (r : PlainRun s s') (y : SideId) :
    (s.side y).submitted <+: (s'.side y).submitted := by
  induction r with
  | refl => exact List.prefix_refl _
  | step _ _ e ih => exact ih.trans (C01.step_sub e y)

theorem RoomH.of_run {s s' : Sys} (r : PlainRun s s') (h : RoomH s') : RoomH s :=
  ⟨Nat.lt_of_le_of_lt (Nat.add_le_add_right (r.sub .A).length_le 2) h.1,
   Nat.lt_of_le_of_lt (Nat.add_le_add_right (r.sub .B).length_le 2) h.2⟩

/-- **all invariants hold after every run of plain ops** (H31 on the final logs) -/
theorem conv_run {iss : SideId → Seq} {s s' : Sys} (h : Conv iss s) (r : PlainRun s s') (hb : RoomH s') :
    Conv iss s' := by
  induction r with
  | refl => exact h
  | step _ hp e ih =>
    have hb1 := RoomH.of_run (.step (.refl _) hp e) hb
    exact conv_step _ (ih hb1) hb1 _ hp _ _ e

/-! ## the two ways the closed system starts -/

/-- the ISNs of the two sides as a function -/
def issOf (ia ib : Seq) : SideId → Seq
  | .A => ia
  | .B => ib

theorem noRstTcb_open (lp rp : U16) (iss : Seq) (mtu : U16) (t : Tcb) (e : Tcb.open lp rp iss mtu = .ok t) :
    NoRstTcb t := by
  obtain ⟨_, h2, h3, h4, _⟩ := open_ack lp rp iss mtu t e
  exact ⟨fun y hy => (by rw [h2] at hy; cases hy), fun tr hy => (h3 tr hy).2, fun τ hτ => (by rw [h4] at hτ; cases hτ),
    (C03.c03_transitions_start.1 lp rp iss mtu t e).2⟩

/-- `open A`, then `listen B` or `open B`: every invariant holds -/
theorem conv_init (ia ib : Seq) (ma mb : U16) (simultaneous : Bool) (sys : Sys) (rs : List Res)
    (e : Sys.run {} [.open .A ia ma, if simultaneous then .open .B ib mb else .listen .B ib mb] = .ok (sys, rs)) :
    Conv (issOf ia ib) sys := by
  have hlen : C01.Lt31 sys :=
    C01.Lt31.of_writes e (by cases simultaneous <;> simp [C01.writeBytes])
      (by cases simultaneous <;> simp [C01.writeBytes])
  refine ⟨?_, ?_, ?_⟩
  · refine C01.run_inv (C01.Inv.init _) ?_ e hlen
    refine ⟨⟨rfl, rfl, rfl, rfl, rfl⟩, fun s1 r1 e1 => ⟨?_, fun _ _ _ => trivial⟩⟩
    have hb : C01.Pristine (s1.side .B) := by
      simp only [Sys.step, Op.side] at e1
      split at e1
      · cases e1
      · cases e1; exact ⟨rfl, rfl, rfl, rfl⟩
    cases simultaneous
    · exact ⟨rfl, hb⟩
    · exact ⟨rfl, hb⟩
  · cases simultaneous with
    | true => exact full_init_simultaneous ia ib ma mb sys rs e
    | false => exact full_init_active_passive ia ib ma mb sys rs e
  · simp only [Sys.run, Sys.step, Op.side] at e
    cases h1 : Tcb.open SideId.A.port SideId.A.peer.port ia ma with
    | error err => rw [h1] at e; simp at e
    | ok ta =>
      rw [h1] at e
      dsimp only at e
      cases simultaneous with
      | false =>
        simp only [Bool.false_eq_true, if_false, Except.ok.injEq, Prod.mk.injEq] at e
        rw [← e.1]
        refine ⟨fun σ hσ => (by cases hσ), fun x t ht => ?_, fun x => ?_⟩
        · cases x with
          | A => cases ht; exact noRstTcb_open _ _ _ _ _ h1
          | B => cases ht
        · cases x with
          | A => left; rfl
          | B => right; rfl
      | true =>
        simp only [if_true] at e
        cases h2 : Tcb.open SideId.B.port SideId.B.peer.port ib mb with
        | error err => rw [h2] at e; simp at e
        | ok tb =>
          rw [h2] at e
          simp only [Except.ok.injEq, Prod.mk.injEq] at e
          rw [← e.1]
          refine ⟨fun σ hσ => (by cases hσ), fun x t ht => ?_, fun x => ?_⟩
          · cases x with
            | A => cases ht; exact noRstTcb_open _ _ _ _ _ h1
            | B => cases ht; exact noRstTcb_open _ _ _ _ _ h2
          · cases x <;> (left; rfl)

end Elvis.Tcp
