import ElvisVerif.Model.RecvPath
import Driver.Common
/-!
Line-protocol handler for the composed receive path of C14 (sub-command `c14-path`).

One op line per frame that the harness injected into a tap of a real machine; the line carries the
frame AND the state of that machine as observed right before the injection, so every line is
self-contained:

  frame il=<0|1> ck=<0|1> tgt=<name> mtu=<n> smac=<n> protos=<name,..> ip=<addr/proto/up;..|->
        udp=<addr:port/app;..|-> lis=<addr:port/up;..|-> sess=<la:lp:ra:rp;..|-> bytes=<hex>

Answer = the outcome class of `Elvis.Recv.receive` on that frame:

  ret=<ok|Protocol|Header|MissingSession|MissingContext|MissingProtocol|Other|panic:..>
  calls=<ipv4+udp|..|->          the `demux` functions entered, in order
  app=<name/payload-hex/la:lp/ra:rp|->   the application called by `UdpSession::receive`
  reply=<tcp-header-hex/src/dst|-|~>     the reset sent for a segment without session (`~`: not
                                 compared, the observation window contained other arrivals)
  new=<la:lp:ra:rp|->            the session `Tcp::demux` created
-/
namespace Driver.C14Path
open Elvis.Recv Elvis.Demux

def kv (ws : List String) (key : String) : Option String :=
  ws.findSome? fun w => if w.startsWith (key ++ "=") then some ((w.drop (key.length + 1)).toString) else none

def pidOf (s : String) : Pid :=
  if s == "ipv4" then pidIpv4 else if s == "udp" then pidUdp else if s == "tcp" then pidTcp
  else if s == "arp" then 3 else if s == "pci" then 4 else if s == "sock" then 5
  else if s == "drv" then 6 else if s == "unknown" then 7
  else if s.startsWith "rec" then 10 + ((s.drop 3).toString.toNat?.getD 0) else 8

def nameOf (p : Pid) : String :=
  if p = pidIpv4 then "ipv4" else if p = pidUdp then "udp" else if p = pidTcp then "tcp"
  else if p = 3 then "arp" else if p = 4 then "pci" else if p = 5 then "sock"
  else if p = 6 then "drv" else if p = 7 then "unknown"
  else if p ≥ 10 then s!"rec{p - 10}" else "other"

def items (s : String) : List String := if s == "-" then [] else (s.splitOn ";").filter (· ≠ "")

/-- `addr:port` -/
def parseEp (s : String) : Option Endpoint :=
  match s.splitOn ":" with
  | [a, p] => do pure ⟨← a.toNat?, ← p.toNat?⟩
  | _ => none

def parseIpBind (s : String) : Option ((Addr × Nat) × Pid) :=
  match s.splitOn "/" with
  | [a, p, u] => do pure ((← a.toNat?, ← p.toNat?), pidOf u)
  | _ => none

def parseEpBind (s : String) : Option (Endpoint × Pid) :=
  match s.splitOn "/" with
  | [e, u] => do pure (← parseEp e, pidOf u)
  | _ => none

def parseSess (s : String) : Option (Endpoints × Session) :=
  match s.splitOn ":" with
  | [la, lp, ra, rp] => do
    pure (⟨⟨← la.toNat?, ← lp.toNat?⟩, ⟨← ra.toNat?, ← rp.toNat?⟩⟩, ⟨6, default, []⟩)
  | _ => none

def fmtEps (e : Endpoints) : String := s!"{e.loc.addr}:{e.loc.port}:{e.rem.addr}:{e.rem.port}"

def fmtErr : Err → String
  | .protocol => "Protocol"
  | .header => "Header"
  | .missingSession => "MissingSession"
  | .missingContext => "MissingContext"
  | .missingProtocol _ => "MissingProtocol"
  | .other => "Other"

/-- TCP header of a reply with the checksum field blanked (the harness build may or may not
    compute checksums; the field is property C18's business) -/
def blankChecksum (b : List UInt8) : List UInt8 := b.take 16 ++ [0, 0] ++ b.drop 18

def answer (il : Bool) (r : Result) : String :=
  let ret := match r.ret with
    | .ok _ => "ok"
    | .error e => fmtErr e
  let calls := if r.calls.isEmpty then "-" else "+".intercalate (r.calls.map nameOf)
  let app := r.effects.findSome? fun
    | .appDemux d => some s!"{nameOf d.app}/{Driver.toHex d.payload}/{d.loc.addr}:{d.loc.port}/{d.rem.addr}:{d.rem.port}"
    | _ => none
  let reply := r.effects.findSome? fun
    | .reply _ src dst tcp => some s!"{Driver.toHex (blankChecksum tcp)}/{src}/{dst}"
    | .loopReply src dst tcp => some s!"{Driver.toHex (blankChecksum tcp)}/{src}/{dst}"
    | _ => none
  let new := r.effects.findSome? fun
    | .spawnSession ep => some (fmtEps ep)
    | _ => none
  s!"ret={ret} calls={calls} app={app.getD "-"} reply={if il then "~" else reply.getD "-"} new={new.getD "-"}"

def frameStep (ws : List String) : Option String := do
  let il := (← kv ws "il") == "1"
  let ck := (← kv ws "ck") == "1"
  let tgt := pidOf (← kv ws "tgt")
  let mtu ← (← kv ws "mtu").toNat?
  let smac ← (← kv ws "smac").toNat?
  let protos := ((← kv ws "protos").splitOn ",").map pidOf
  let ip ← (items (← kv ws "ip")).mapM parseIpBind
  let udp ← (items (← kv ws "udp")).mapM parseEpBind
  let lis ← (items (← kv ws "lis")).mapM parseEpBind
  let sess ← (items (← kv ws "sess")).mapM parseSess
  let bytes ← Driver.parseHex (← kv ws "bytes")
  let m : Elvis.Recv.Machine := { dm := { protocols := protos, udp := udp, ip := ip }, tcpListen := lis, tcpSessions := sess }
  let env : Env := { ck := ck, iss := 0, loopInnerOk := true }
  pure (match receive env m ⟨0, smac, mtu⟩ ⟨tgt, bytes⟩ with
    | .ok r => answer il r
    | .error e => s!"ret={e} calls=- app=- reply=- new=-")

def pathStep (_ : Unit) (ws : List String) : Unit × String :=
  match ws with
  | ["case", id] => ((), s!"case {id}")
  | "frame" :: rest => ((), (frameStep rest).getD "bad-op")
  -- the scenario lines of the full-stack run (kept in the stream for `--replay`): nothing to say
  | w :: _ => if ["cfg", "open", "w", "u", "raw", "seg", "fin"].contains w then ((), "-") else ((), "bad-op")
  | _ => ((), "bad-op")

def dispatch (sub : String) (i o : IO.FS.Stream) : Option (IO Unit) :=
  if sub == "c14-path" then some (Driver.loop i o pathStep ()) else none

end Driver.C14Path
