import Driver.Common
/-! Line-protocol handlers for C16 (sub-commands `c16` / `c16-*`). -/
namespace Driver.C16

def dispatch (_sub : String) (_i _o : IO.FS.Stream) : Option (IO Unit) := none

end Driver.C16
