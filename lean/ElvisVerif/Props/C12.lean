import ElvisVerif.Lemmas.ModCmpGen
import ElvisVerif.Lemmas.ShiftInv
/-!
# C12 — TCP behaviour is independent of absolute sequence numbers (mod 2^32)

## Part 1 — the primitives

The circular comparison primitives.  Every theorem is about the kernels EXTRACTED from
`tcp/tcb/modular_cmp.rs` (`Generated/ModCmpKernels.lean`, regenerated on every check), so an
edit of that file re-checks — and, if it changes behaviour, breaks — these proofs.

* agreement with the mathematical circular order for every pair `(a, a + d)`, `d < 2^31`
  (`c12_mod_lt_iff … c12_mod_geq_strict`);
* mutual consistency for ALL pairs (`c12_mod_leq_iff`, `c12_mod_lt_leq`, `c12_mod_geq_iff`,
  `c12_mod_gt_flip`, `c12_mod_geq_flip`, `c12_mod_lt_iff_not_geq`, `c12_mod_lt_trans`);
* `mod_bounded` = membership in the cyclic interval, in offset form (`c12_mod_bounded_iff`,
  `_half`, `_lt_lt`), exact for every interval shorter than `2^32 − 2`;
* invariance of each primitive under a common shift (`c12_mod_*_shift`);
* `impl Ord for Segment` (the reorder heap): on sequence numbers inside one half circle it is
  the reversed numeric order of the offsets, hence a strict weak order
  (`c12_segment_order`, `c12_segment_strict_weak_order`).

## Part 2 — step and run invariance (at the end of this file)

`Tcb.shift ka kb` (`Model/TcbShift.lean`) moves a connection to other ISNs: `ka` is added to
everything in the local sequence space, `kb` to everything in the remote one, modulo 2^32.
`c12_block_shift`: each of the six blocks of `process_segment` commutes with it;
`c12_process_segment_shift`, `c12_step_shift_partial`: so does every TCB operation
(`open`, LISTEN, CLOSED, `segment_arrives` with its reorder heap and processing loop,
`advance_time`, `send`, `receive`, `close`, `abort`, `segments`), for ALL `ka kb` — wrap-around
anywhere in the handshake or the transfer included; `c12_run_shift_partial`: so does every
admissible run of the two-endpoint system, by induction.  The one exclusion is an explicit
hypothesis with a witness theorem: the RFC-mandated `SEQ = 0` reset outside a connection
(`c12_closed_rst_seq_zero`).

F-C12-2 (repaired in the repository, commit `fix: SND.WL2 is initialised with ISS …`): `SND.WL2`
was copied from the ACK field of a SYN that carries no ACK bit (an absolute 0) and survived
`close()` / a FIN in SYN-RECEIVED; the step and run theorems excluded those two paths.  The
exclusion is gone; the former `c12_wl2_counterexample` is kept as `c12_wl2_regression`.

F-C12-1 (repaired in the repository, commit `fix: mod_leq/mod_geq …`): `mod_leq a b` was coded as
`mod_lt a (b+1)` and therefore false at distance exactly `2^31 − 1` although `mod_lt` is true
there (mirror image for `mod_geq`).  The former `c12_mod_leq_counterexample` is kept as
`c12_mod_leq_regression`.
-/
namespace Elvis.Tcp
open Elvis.ModCmp
open Elvis.Gen.ModCmp (mod_lt mod_leq mod_gt mod_geq mod_bounded)

/-! ## offset forms of the extracted kernels -/

/-! ## T1: the primitives agree with the circular order for all pairs less than 2^31 apart -/

theorem c12_mod_lt_iff (a d : BitVec 32) (hd : d.toNat < 2147483648) :
    mod_lt a (a + d) = true ↔ 0 < d.toNat := by
  rw [gen_mod_lt_iff, sub_add_cancel_left]; omega

theorem c12_mod_lt_asymm (a d : BitVec 32) (hd : d.toNat < 2147483648) :
    mod_lt (a + d) a = false := by
  rw [Bool.eq_false_iff]; intro h
  rw [gen_mod_lt_iff, sub_add_left_neg, BitVec.toNat_neg] at h
  omega

theorem c12_mod_gt_flip (a b : BitVec 32) : mod_gt a b = mod_lt b a := rfl

theorem c12_mod_leq (a d : BitVec 32) (hd : d.toNat < 2147483648) : mod_leq a (a + d) = true := by
  rw [gen_mod_leq_iff, sub_add_cancel_left]; exact hd

theorem c12_mod_leq_strict (a d : BitVec 32) (hd : d.toNat < 2147483648) :
    mod_leq (a + d) a = true ↔ d = 0#32 := by
  rw [gen_mod_leq_iff, sub_add_left_neg, BitVec.toNat_neg]
  constructor
  · intro h
    apply BitVec.eq_of_toNat_eq
    simp only [BitVec.toNat_ofNat]
    omega
  · intro h; subst h; decide

theorem c12_mod_geq (a d : BitVec 32) (hd : d.toNat < 2147483648) : mod_geq (a + d) a = true := by
  rw [gen_mod_geq_iff, sub_add_cancel_left]; exact hd

theorem c12_mod_geq_strict (a d : BitVec 32) (hd : d.toNat < 2147483648) :
    mod_geq a (a + d) = true ↔ d = 0#32 := by
  rw [gen_mod_geq_iff, sub_add_left_neg, BitVec.toNat_neg]
  constructor
  · intro h
    apply BitVec.eq_of_toNat_eq
    simp only [BitVec.toNat_ofNat]
    omega
  · intro h; subst h; decide

/-! ## T1: mutual consistency, for ALL pairs -/

theorem c12_mod_leq_iff (a b : BitVec 32) : mod_leq a b = true ↔ mod_lt a b = true ∨ a = b := by
  rw [gen_mod_leq_iff, gen_mod_lt_iff, ← sub_toNat_eq_zero]; omega

theorem c12_mod_lt_leq (a b : BitVec 32) (h : mod_lt a b = true) : mod_leq a b = true :=
  (c12_mod_leq_iff a b).2 (Or.inl h)

theorem c12_mod_geq_iff (a b : BitVec 32) : mod_geq a b = true ↔ mod_gt a b = true ∨ a = b := by
  rw [gen_mod_geq_iff, gen_mod_gt_iff, eq_comm, ← sub_toNat_eq_zero]; omega

theorem c12_mod_geq_flip (a b : BitVec 32) : mod_geq a b = mod_leq b a := by
  rw [Bool.eq_iff_iff, gen_mod_geq_iff, gen_mod_leq_iff]

/-- strict and non-strict are complementary whenever the pair is not exactly 2^31 apart -/
theorem c12_mod_lt_iff_not_geq (a b : BitVec 32) (h : (b - a).toNat ≠ 2147483648) :
    mod_lt a b = true ↔ mod_geq a b = false := by
  rw [Bool.eq_false_iff, Ne, gen_mod_geq_iff, gen_mod_lt_iff]
  have e : a - b = -(b - a) := by bv_omega
  rw [e, BitVec.toNat_neg]
  have := (b - a).isLt
  omega

/-- exactly 2^31 apart neither number precedes the other (there is no order to agree with) -/
theorem c12_mod_lt_antipodal (a : BitVec 32) :
    mod_lt a (a + 2147483648#32) = false ∧ mod_lt (a + 2147483648#32) a = false := by
  constructor <;> (rw [Bool.eq_false_iff]; intro h; rw [gen_mod_lt_iff] at h)
  · rw [sub_add_cancel_left] at h; simp at h
  · rw [sub_add_left_neg] at h; simp at h

/-- transitivity inside half the circle -/
theorem c12_mod_lt_trans (a b c : BitVec 32) (h1 : mod_lt a b = true) (h2 : mod_lt b c = true)
    (h3 : (c - a).toNat < 2147483648) : mod_lt a c = true := by
  rw [gen_mod_lt_iff] at *
  have e : c - a = (c - b) + (b - a) := by bv_omega
  rw [e, BitVec.toNat_add] at h3 ⊢
  generalize (c - b).toNat = x at *
  generalize (b - a).toNat = y at *
  omega


/-! ## T1: `mod_bounded` is membership in the cyclic interval -/

theorem c12_mod_bounded_offsets (a : BitVec 32) (c1 : Elvis.Gen.ModCmp.Cmp) (b : BitVec 32)
    (c2 : Elvis.Gen.ModCmp.Cmp) (c : BitVec 32) :
    mod_bounded a c1 b c2 c = true ↔
      0 < (b - (a - c1.offset)).toNat ∧ (b - (a - c1.offset)).toNat < ((c + c2.offset) - (a - c1.offset)).toNat := by
  have h := cyc_iff (a - c1.offset) b (c + c2.offset)
  unfold cyc at h
  unfold mod_bounded
  exact h

def lo : Elvis.Gen.ModCmp.Cmp → Nat | .Lt => 1 | .Leq => 0
def hi : Elvis.Gen.ModCmp.Cmp → Nat | .Lt => 0 | .Leq => 1

theorem c12_mod_bounded_iff (a : BitVec 32) (c1 : Elvis.Gen.ModCmp.Cmp) (b : BitVec 32)
    (c2 : Elvis.Gen.ModCmp.Cmp) (c : BitVec 32) (hy : (c - a).toNat < 4294967294) :
    mod_bounded a c1 b c2 c = true ↔
      lo c1 ≤ (b - a).toNat ∧ (b - a).toNat < (c - a).toNat + hi c2 := by
  rw [c12_mod_bounded_offsets, bnd_lo, bnd_hi]
  generalize (b - a) = x
  generalize (c - a) = y at hy ⊢
  have hx := x.isLt
  have e2 : ((1 : BitVec 32) + 1) = 2#32 := by decide
  have h1 : (1 : BitVec 32).toNat = 1 := rfl
  have h2 : (2#32 : BitVec 32).toNat = 2 := rfl
  have y1 : (y + (1 : BitVec 32)).toNat = y.toNat + 1 := by rw [toNat_add_small y 1 (by rw [h1]; omega), h1]
  have y2 : (y + 2#32).toNat = y.toNat + 2 := by rw [toNat_add_small y 2#32 (by rw [h2]; omega), h2]
  have z0 : ((0 : BitVec 32) + 0) = 0 := by decide
  have z1 : ((1 : BitVec 32) + 0) = 1 := by decide
  have z2 : ((0 : BitVec 32) + 1) = 1 := by decide
  have xz : ∀ v : BitVec 32, v + (0 : BitVec 32) = v := fun v => by simp
  cases c1 <;> cases c2 <;>
    simp only [Elvis.Gen.ModCmp.Cmp.offset, lo, hi, e2, z0, z1, z2, xz]
  · omega
  · rw [y1]; omega
  · rw [toNat_add_one, y1]; split <;> omega
  · rw [toNat_add_one, y2]; split <;> omega

/-- the 2^31 form the property quantifies over -/
theorem c12_mod_bounded_half (a : BitVec 32) (c1 : Elvis.Gen.ModCmp.Cmp) (d : BitVec 32)
    (c2 : Elvis.Gen.ModCmp.Cmp) (e : BitVec 32) (he : e.toNat < 2147483648) :
    mod_bounded a c1 (a + d) c2 (a + e) = true ↔ lo c1 ≤ d.toNat ∧ d.toNat < e.toNat + hi c2 := by
  have h := c12_mod_bounded_iff a c1 (a + d) c2 (a + e)
  rw [sub_add_cancel_left, sub_add_cancel_left] at h
  exact h (by omega)

/-- bounded-between is consistent with the two-place comparisons -/
theorem c12_mod_bounded_lt_lt (a b c : BitVec 32) (hy : (c - a).toNat < 2147483648) :
    mod_bounded a .Lt b .Lt c = true ↔ mod_lt a b = true ∧ mod_lt b c = true := by
  rw [c12_mod_bounded_iff a .Lt b .Lt c (by omega), gen_mod_lt_iff, gen_mod_lt_iff,
    sub_sub_sub_cancel a b c]
  simp only [lo, hi]
  generalize (b - a) = x
  generalize (c - a) = y at hy ⊢
  rw [BitVec.toNat_sub]
  have := x.isLt
  omega

/-- the interval reading fails when the interval is the whole circle but one point -/
theorem c12_mod_bounded_full_circle :
    mod_bounded 5#32 .Leq 7#32 .Lt 4#32 = false := by decide

/-! ## T1: shift invariance of every primitive -/

theorem c12_mod_lt_shift (a b k : BitVec 32) : mod_lt (a + k) (b + k) = mod_lt a b := by
  rw [← modLt_eq_generated, ← modLt_eq_generated, modLt_shift]
theorem c12_mod_leq_shift (a b k : BitVec 32) : mod_leq (a + k) (b + k) = mod_leq a b := by
  rw [← modLeq_eq_generated, ← modLeq_eq_generated, modLeq_shift]
theorem c12_mod_gt_shift (a b k : BitVec 32) : mod_gt (a + k) (b + k) = mod_gt a b := by
  rw [← modGt_eq_generated, ← modGt_eq_generated, modGt_shift]
theorem c12_mod_geq_shift (a b k : BitVec 32) : mod_geq (a + k) (b + k) = mod_geq a b := by
  rw [← modGeq_eq_generated, ← modGeq_eq_generated, modGeq_shift]
theorem c12_mod_bounded_shift (a : BitVec 32) (c1 : Cmp) (b : BitVec 32) (c2 : Cmp) (c k : BitVec 32) :
    mod_bounded (a + k) c1.toGen (b + k) c2.toGen (c + k) = mod_bounded a c1.toGen b c2.toGen c := by
  rw [← modBounded_eq_generated, ← modBounded_eq_generated, modBounded_shift]

/-- F-C12-1 (repaired): the former counterexample -/
theorem c12_mod_leq_regression :
    mod_lt 0#32 (0#32 + 2147483647#32) = true ∧ mod_leq 0#32 (0#32 + 2147483647#32) = true ∧
    mod_gt (0#32 + 2147483647#32) 0#32 = true ∧ mod_geq (0#32 + 2147483647#32) 0#32 = true := by decide

/-! ## T1: the order of the reorder heap (`impl Ord for Segment`, `tcb/segment.rs`) -/

/-- `Ord::cmp` for `Segment`, over the extracted `mod_lt` -/
def segCmp (a b : Segment) : Ordering :=
  if a.hdr.seq == b.hdr.seq then .eq
  else if mod_lt a.hdr.seq b.hdr.seq then .gt
  else .lt

/-- the `<=` the heap model uses is the one `PartialOrd` derives from `cmp` -/
theorem c12_segment_le_is_cmp (a b : Segment) : segLe a b = (segCmp a b != .gt) := by
  unfold segLe segCmp
  rw [modLt_eq_generated]
  cases (a.hdr.seq == b.hdr.seq) <;> cases mod_lt a.hdr.seq b.hdr.seq <;> rfl

/-- `x` lies in the half circle that starts at `base` -/
def InHalf (base x : Seq) : Prop := (x - base).toNat < 2147483648

/-- on sequence numbers inside one half circle `cmp` IS the (reversed) numeric order of the
    offsets: a total preorder, in particular a strict weak order -/
theorem c12_segment_order (base : Seq) (a b : Segment)
    (ha : InHalf base a.hdr.seq) (hb : InHalf base b.hdr.seq) :
    segCmp a b = compare (b.hdr.seq - base).toNat (a.hdr.seq - base).toNat := by
  unfold segCmp InHalf at *
  have hlt := gen_mod_lt_iff a.hdr.seq b.hdr.seq
  rw [sub_sub_sub_cancel' base a.hdr.seq b.hdr.seq] at hlt
  have heq : (a.hdr.seq == b.hdr.seq) = true ↔ (a.hdr.seq - base).toNat = (b.hdr.seq - base).toNat := by
    rw [beq_iff_eq, ← sub_right_inj' a.hdr.seq b.hdr.seq base]
    exact ⟨fun h => by rw [h], fun h => BitVec.eq_of_toNat_eq h⟩
  generalize (a.hdr.seq - base) = x at *
  generalize (b.hdr.seq - base) = y at *
  rw [BitVec.toNat_sub] at hlt
  rcases Nat.lt_trichotomy x.toNat y.toNat with h | h | h
  · have h1 : (a.hdr.seq == b.hdr.seq) = false := by
      rw [← Bool.not_eq_true, heq]; omega
    have h2 : mod_lt a.hdr.seq b.hdr.seq = true := hlt.2 (by omega)
    rw [h1, h2]
    exact (Nat.compare_eq_gt.2 h).symm
  · rw [heq.2 h]
    exact (Nat.compare_eq_eq.2 h.symm).symm
  · have h1 : (a.hdr.seq == b.hdr.seq) = false := by
      rw [← Bool.not_eq_true, heq]; omega
    have h2 : mod_lt a.hdr.seq b.hdr.seq = false := by
      rw [← Bool.not_eq_true, hlt]; omega
    rw [h1, h2]
    exact (Nat.compare_eq_lt.2 h).symm

/-- the strict-weak-order laws, spelled out -/
theorem c12_segment_strict_weak_order (base : Seq) (a b c : Segment)
    (ha : InHalf base a.hdr.seq) (hb : InHalf base b.hdr.seq) (hc : InHalf base c.hdr.seq) :
    segCmp a a = .eq ∧
    (segCmp a b = .lt ↔ segCmp b a = .gt) ∧
    (segCmp a b = .eq ↔ a.hdr.seq = b.hdr.seq) ∧
    (segCmp a b = .lt → segCmp b c = .lt → segCmp a c = .lt) ∧
    (segCmp a b = .eq → segCmp b c = .eq → segCmp a c = .eq) ∧
    (segCmp a b = .lt → segCmp a c = .lt ∨ segCmp c b = .lt) := by
  rw [c12_segment_order base a a ha ha, c12_segment_order base a b ha hb, c12_segment_order base b a hb ha,
    c12_segment_order base b c hb hc, c12_segment_order base a c ha hc, c12_segment_order base c b hc hb]
  have e : a.hdr.seq = b.hdr.seq ↔ (b.hdr.seq - base).toNat = (a.hdr.seq - base).toNat := by
    rw [← sub_right_inj' a.hdr.seq b.hdr.seq base]
    exact ⟨fun h => by rw [h], fun h => BitVec.eq_of_toNat_eq h.symm⟩
  rw [e]
  simp only [Nat.compare_eq_lt, Nat.compare_eq_gt, Nat.compare_eq_eq]
  refine ⟨trivial, trivial, trivial, ?_, ?_, ?_⟩ <;> omega

def segAt (q : Seq) : Segment := ⟨Hdr.builder 0 0 q, []⟩

/-- the half-circle hypothesis cannot be weakened to "pairwise less than 2^31 apart": three
    sequence numbers spread around the circle are pairwise close and ordered in a cycle.
    (The TCB only parks segments that overlap its 64 KiB receive window.) -/
theorem c12_segment_order_needs_half_circle :
    segCmp (segAt 0#32) (segAt 1500000000#32) = .gt ∧
    segCmp (segAt 1500000000#32) (segAt 3000000000#32) = .gt ∧
    segCmp (segAt 3000000000#32) (segAt 0#32) = .gt := by decide



/-! # Part 2 — every TCB operation commutes with the shift map -/

/-- T2, per block of `process_segment` (code order).  Block 3 compares results up to
    `ConnectionReset ≃ BlindReset` (in SYN-SENT the code tells them apart by `SEG.SEQ = RCV.NXT`
    with `RCV.NXT` still unset; `segment_arrives` deletes the TCB in both cases); block 4 needs
    "our SYN is acknowledged iff the segment carries an ACK" in SYN-SENT (true of every TCB made
    by `open`, `ackBlock_fresh`); block 5 is not reached in SYN-SENT; block 6 commutes
    unconditionally. -/
theorem c12_block_shift (ka kb : Seq) (s : Tcb) (seg : Hdr) (text : List UInt8) (tl : Seq) :
    Tcb.seqCheck (s.shift ka kb) (seg.shift kb ka) tl = M.shift ka kb (Tcb.seqCheck s seg tl) ∧
    Tcb.ackBlock (s.shift ka kb) (seg.shift kb ka) = M.shift ka kb (Tcb.ackBlock s seg) ∧
    normB (Tcb.rstBlock (s.shift ka kb) (seg.shift kb ka)) = normB (M.shift ka kb (Tcb.rstBlock s seg)) ∧
    ((s.state = .SynSent → seg.ctl.syn = true → modGt s.snd.una s.snd.iss = seg.ctl.ack) →
      Tcb.synBlock (s.shift ka kb) (seg.shift kb ka) = M.shift ka kb (Tcb.synBlock s seg)) ∧
    (s.state ≠ .SynSent →
      Tcb.textBlock (s.shift ka kb) (seg.shift kb ka) text tl = M.shift ka kb (Tcb.textBlock s seg text tl)) ∧
    Tcb.finBlock (s.shift ka kb) (seg.shift kb ka) tl = M.shift ka kb (Tcb.finBlock s seg tl) :=
  ⟨shift_seqCheck ka kb s seg tl, shift_ackBlock ka kb s seg, shift_rstBlock_norm ka kb s seg,
   shift_synBlock ka kb s seg, shift_textBlock ka kb s seg text tl, shift_finBlock ka kb s seg tl⟩

/-- T2: `process_segment` as a whole, on a TCB that is fresh while in SYN-SENT, for EVERY
    segment -/
theorem c12_process_segment_shift (ka kb : Seq) (s : Tcb) (seg : Segment) (hF : SynSentFresh s) :
    normM (Tcb.processSegment (s.shift ka kb) (seg.shift kb ka)) =
      normM (M.shift ka kb (Tcb.processSegment s seg)) :=
  shift_processSegment ka kb s seg hF

/-- T2 `c12_step_shift`: every operation of the TCB API commutes with the shift map, for all
    `ka kb`.  `_partial` because of the RFC exclusion for CLOSED (`rst ∨ ack`, see
    `c12_closed_rst_seq_zero`); the other hypotheses are invariants of every TCB made by `open`
    (`ArrPre`: `SynSentFresh`, empty reorder heap in SYN-SENT; zero send window in SYN-SENT).
    `close` and `segment_arrives` carry no exclusion any more (F-C12-2 repaired). -/
theorem c12_step_shift_partial (ka kb : Seq) :
    (∀ lp rp iss mtu, Tcb.open lp rp (iss + ka) mtu = shiftE ka kb (Tcb.open lp rp iss mtu)) ∧
    (∀ seg iss mtu, segmentArrivesListen (Segment.shift kb ka seg) (iss + ka) mtu =
        shiftL ka kb (segmentArrivesListen seg iss mtu)) ∧
    (∀ (seg : Hdr) tl, seg.ctl.rst = true ∨ seg.ctl.ack = true →
        segmentArrivesClosed (seg.shift kb ka) tl = (segmentArrivesClosed seg tl).map (Hdr.shift ka kb)) ∧
    (∀ (s : Tcb) seg, ArrPre s →
        (s.shift ka kb).segmentArrives (seg.shift kb ka) = M.shift ka kb (s.segmentArrives seg)) ∧
    (∀ (s : Tcb) dt, (s.shift ka kb).advanceTime dt = M.shift ka kb (s.advanceTime dt)) ∧
    (∀ (s : Tcb) m, (s.shift ka kb).send m = (s.send m).shift ka kb) ∧
    (∀ (s : Tcb), (s.shift ka kb).receive = ((s.receive).1.shift ka kb, (s.receive).2)) ∧
    (∀ (s : Tcb), (s.shift ka kb).close = M.shift ka kb s.close) ∧
    (∀ (s : Tcb), (s.shift ka kb).abort = shiftE ka kb s.abort) ∧
    (∀ (s : Tcb), (s.state = .SynSent → s.snd.wnd = 0) →
        (s.shift ka kb).segments = M.shiftOut ka kb s.segments) :=
  ⟨shift_open ka kb, fun seg iss mtu => shift_listen ka kb seg iss mtu, fun seg tl h => shift_closed ka kb seg tl h,
   fun s seg h => shift_segmentArrives ka kb s seg h, shift_advanceTime ka kb, shift_send ka kb,
   shift_receive ka kb, shift_close ka kb, shift_abort ka kb,
   fun s h => shift_segments ka kb s h⟩

/-- the hypotheses of `c12_step_shift_partial` are satisfiable in non-trivial states: a
    SYN-RECEIVED TCB of a simultaneous open (the state F-C12-2 used to exclude for FIN/`close`)
    with a parked out-of-order segment, and a fresh SYN-SENT TCB -/
example :
    let t : Tcb := { localPort := 1, remotePort := 2, mtu := 1500, initiation := .Open, state := .SynReceived,
                     snd := { una := 4294967000#32, nxt := 4294967001#32, wnd := 65535, wl1 := 70,
                              wl2 := 4294967000#32, iss := 4294967000#32 },
                     rcv := { irs := 70, nxt := 71 },
                     incoming := { segments := [segAt 2147483700#32] } }
    ArrPre t ∧ ArrPre (match Tcb.open 1 2 4294967295#32 1500#16 with | .ok u => u | .error _ => t) :=
  ⟨⟨(fun h => by cases h), (fun h => by cases h)⟩, ⟨(fun _ => ⟨rfl, rfl, rfl⟩), (fun _ => rfl)⟩⟩

/-- outside a connection, a segment without ACK is answered with `<SEQ=0><ACK=SEG.SEQ+SEG.LEN><CTL=RST,ACK>`
    (RFC 9293 3.10.7.1): the ACK moves with the peer's space, the SEQ is 0 for every ISN pair -/
theorem c12_closed_rst_seq_zero (ka kb : Seq) (seg : Hdr) (tl : Seq)
    (hr : seg.ctl.rst = false) (ha : seg.ctl.ack = false) :
    segmentArrivesClosed (seg.shift kb ka) tl = (segmentArrivesClosed seg tl).map (Hdr.shift 0 kb) ∧
    (segmentArrivesClosed (seg.shift kb ka) tl).map (·.seq) = some 0 :=
  closed_rst_seq_zero ka kb seg tl hr ha

/-! ## F-C12-2 (repaired): `SND.WL2` after a SYN without ACK -/

/-- active open with ISS `iss`; the peer's SYN (no ACK) arrives: simultaneous open, SYN-RECEIVED;
    `close()`; the peer's SYN-ACK arrives advertising a window of 1234 -/
def wl2Ops (iss : Nat) : List Op :=
  [ .open .A (BitVec.ofNat 32 iss) 1500#16,
    .inject .A (forge .A 2 5000 0 65535 []),
    .close .A,
    .inject .A (forge .A 18 5000 (iss + 1) 1234 []) ]

def sndWnd (r : Except String (Sys × List Res)) : Option Nat :=
  match r with
  | .ok (s, _) => s.a.tcb.map fun t => t.snd.wnd.toNat
  | .error _ => none

/-- F-C12-2, the former counterexample (replayed on the real code by the `c12-run` probes).
    `SND.WL2` used to be copied from the ACK field of the peer's SYN, which carries no ACK bit —
    the constant 0; after `close()` in SYN-RECEIVED the window-update test
    `SND.WL1 = SEG.SEQ ∧ SND.WL2 =< SEG.ACK` compared the peer's real ACK number with that 0: with
    ISS 100 the retransmitted SYN-ACK updated `SND.WND` to 1234, with ISS 2^31+100 (the same ops
    shifted by 2^31) it did not.  With `SND.WL2 = ISS` after a SYN without ACK both runs take the
    update. -/
theorem c12_wl2_regression :
    sndWnd (Sys.run {} (wl2Ops 100)) = some 1234 ∧
    sndWnd (Sys.run {} (wl2Ops (2147483648 + 100))) = some 1234 ∧
    wl2Ops (2147483648 + 100) = (wl2Ops 100).map (Op.shift 2147483648#32 0#32) :=
  ⟨by decide, by decide, by rfl⟩

/-! ## whole runs -/

/-- T2 `c12_run_shift`: a run of the two-endpoint system (any interleaving of opens, writes,
    reads, timer ticks, `segments()`, deliveries of ANY earlier segment any number of times —
    loss, duplication, reordering —, forged segments, closes, aborts) from ISNs `(a, b)` and the
    same run from `(a + ka, b + kb)` pass through shifted states and produce shifted results,
    op by op: the same flags, lengths, payloads, windows, the same data delivered, the same
    state changes, SEQ/ACK fields moved by exactly `ka` / `kb` — for all `ka kb`, i.e. for all
    ISN pairs, wrap-around included.

    `_partial` because of `RunExcl`, which demands of the ORIGINAL run only the genuine exclusions
    (the former third one, F-C12-2 — no `close()` / FIN in SYN-RECEIVED — is gone with the repair
    of the code; `c12_wl2_regression` is a run through exactly that path):
    * the RFC-mandated `SEQ = 0` reset: a segment that meets neither a TCB nor a LISTEN binding
      carries RST or ACK;
    * plumbing: a delivered / forged segment is addressed to the side it is handed to
      (`srcPort` = the peer's port, `dstPort` = the side's port; `Tcp::demux` guarantees it).
    Everything else the step theorem needs (fresh SYN-SENT TCBs, empty reorder heap in SYN-SENT,
    emitted segments carry the emitter's port) is proved to be an invariant of runs from the
    initial system (`SysInv`, `sysInv_step`, `runAdm_of_excl`). -/
theorem c12_run_shift_partial (ka kb : Seq) (ops : List Op) (h : RunExcl {} ops) :
    Sys.run {} (ops.map (Op.shift ka kb)) = shiftRun ka kb ops (Sys.run {} ops) := by
  have := Sys.shift_run ka kb {} ops (runAdm_of_excl {} ops sysInv_init h)
  rw [Sys.shift_init] at this
  exact this

/-- handshake, 20 bytes from A to B, acknowledgment; A's sequence space wraps inside the data
    segment (ISS = 2^32 − 6), B's crosses 2^31 -/
def demoOps : List Op :=
  [ .open .A 4294967290#32 1500#16, .listen .B 2147483647#32 1500#16,
    .emit .A, .deliver .B 0, .emit .B, .deliver .A 1, .emit .A, .deliver .B 2,
    .write .A [1, 2, 3, 4, 5, 6, 7, 8, 9, 10, 11, 12, 13, 14, 15, 16, 17, 18, 19, 20],
    .emit .A, .deliver .B 3, .read .B, .emit .B, .deliver .A 4 ]

example : RunExcl {} demoOps := runExcl_of_B {} demoOps (by decide)

/-- the run theorem also covers the path F-C12-2 used to exclude: `close()` in SYN-RECEIVED after a
    simultaneous open, then a window update -/
example : RunExcl {} (wl2Ops 100) := runExcl_of_B {} (wl2Ops 100) (by decide)


/-- … and the run is not trivial: the 20 bytes arrive, both sides end ESTABLISHED -/
example : (match Sys.run {} demoOps with
    | .ok (s, _) => (s.b.delivered.length, s.a.tcb.map (·.state), s.b.tcb.map (·.state))
    | .error _ => (0, none, none)) = (20, some .Established, some .Established) := by decide

/-- the invariant behind it: along every run from the initial system whose ops meet the
    exclusions, every TCB is fresh while in SYN-SENT, has an empty reorder heap there, and emits
    only headers that carry its side's port -/
theorem c12_run_invariant (s s' : Sys) (op : Op) (r : Res) (hi : SysInv s) (he : Excl s op)
    (h : s.step op = .ok (s', r)) : SysInv s' :=
  sysInv_step s s' op r hi (adm_of_excl s op hi he) h

/-- one step of the system (the induction step of the run theorem), under the invariant -/
theorem c12_sys_step_shift_partial (ka kb : Seq) (s : Sys) (op : Op) (hi : SysInv s) (he : Excl s op) :
    (s.shift ka kb).step (op.shift ka kb) = shiftSR op.side ka kb (s.step op) :=
  Sys.shift_step ka kb s op (adm_of_excl s op hi he)

end Elvis.Tcp
