import Driver.Common
/-! Line-protocol handlers for C15 (sub-commands `c15` / `c15-*`). -/
namespace Driver.C15

def dispatch (_sub : String) (_i _o : IO.FS.Stream) : Option (IO Unit) := none

end Driver.C15
