//! C10: correspondence + oracle runs (sub-commands `c10` / `c10-*`).
use hcommon::*;

pub fn run(args: &Args) {
    eprintln!("hcore: {} not implemented yet", args.prop);
    std::process::exit(2);
}
