import ElvisVerif.Model.Router
/-! Helper lemmas for C16: list sums under `eraseIdx`, specification of the extracted TTL kernel,
    of `routerDemux`, `deliverCore`, `resolveCore`, `sendCore`, and the measures used by the
    bounded-life / no-multiplication arguments. -/
namespace Elvis.Router

/-! ### lists -/

theorem sum_map_eraseIdx {α : Type} (f : α → Nat) :
    ∀ (l : List α) (i : Nat) (x : α), l[i]? = some x → (l.map f).sum = f x + ((l.eraseIdx i).map f).sum
  | [], i, x, h => by simp at h
  | a :: l, 0, x, h => by
    simp at h; subst h; simp
  | a :: l, i + 1, x, h => by
    simp at h
    have ih := sum_map_eraseIdx f l i x h
    simp only [List.eraseIdx_cons_succ, List.map_cons, List.sum_cons, ih]
    omega

theorem sum_map_eraseIdx_le {α : Type} (f : α → Nat) (l : List α) (i : Nat) :
    ((l.eraseIdx i).map f).sum ≤ (l.map f).sum := by
  cases h : l[i]? with
  | none =>
    have : l.length ≤ i := by
      rcases Nat.lt_or_ge i l.length with h1 | h1
      · rw [List.getElem?_eq_getElem h1] at h; cases h
      · exact h1
    rw [List.eraseIdx_of_length_le this]; exact Nat.le_refl _
  | some x => rw [sum_map_eraseIdx f l i x h]; omega

theorem length_eraseIdx_le {α : Type} (l : List α) (i : Nat) : (l.eraseIdx i).length ≤ l.length := by
  rw [List.length_eraseIdx]; split <;> omega

/-! ### the extracted TTL kernel -/

set_option linter.unusedSimpArgs false in
/-- whatever statement sequence the extractor recognised: a forwarded TTL is the received one
    minus one and is at least 1 -/
theorem ttlKernel_some {t v : Nat} (h : Elvis.Gen.routerTtlKernel t = .ok (some v)) : v + 1 = t ∧ 1 ≤ v := by
  unfold Elvis.Gen.routerTtlKernel at h
  simp only [] at h
  repeat' split at h
  all_goals first
    | (cases h; done)
    | (simp only [Except.ok.injEq, Option.some.injEq, beq_iff_eq, decide_eq_true_eq, Bool.not_eq_true,
        decide_eq_false_iff_not] at *; omega)

set_option linter.unusedSimpArgs false in
/-- an arriving TTL of at least 2 is forwarded as TTL - 1 -/
theorem ttlKernel_ge2 {t : Nat} (h : 2 ≤ t) : Elvis.Gen.routerTtlKernel t = .ok (some (t - 1)) := by
  unfold Elvis.Gen.routerTtlKernel
  have a : ¬ t < 1 := by omega
  have b : ¬ t - 1 = 0 := by omega
  have c : ¬ t ≤ 1 := by omega
  simp [a, b, c]

/-! ### routerDemux -/

theorem routerDemux_some {n : Nat} {nd : Node} {pkt : Pkt} {p : Pending}
    (h : routerDemux n nd pkt = .ok (some p)) :
    ∃ v, p.pkt = pkt.withTtl v ∧ v + 1 = pkt.hdr.ttl ∧ 1 ≤ v ∧ p.viaRouter = true ∧ p.node = n ∧
      ∃ e, lookup nd.table pkt.hdr.dst = some e ∧ p.slot = e.slot ∧
        nd.localIps[e.slot]? = some p.loc ∧ p.nextHop = arpTarget nd p.loc (e.gw.getD pkt.hdr.dst) := by
  unfold routerDemux at h
  split at h
  · cases h
  · cases h
  · rename_i ttl hk
    split at h
    · cases h
    · split at h
      · cases h
      · split at h
        · cases h
        · rename_i e he
          split at h
          · cases h
          · rename_i loc hl
            simp only [Except.ok.injEq, Option.some.injEq] at h
            subst h
            obtain ⟨h1, h2⟩ := ttlKernel_some hk
            exact ⟨ttl, rfl, h1, h2, rfl, rfl, e, he, rfl, hl, rfl⟩

/-! ### specification of the step cores -/

/-- every way a tap delivery can end -/
inductive DeliverSpec (topo : Topo) (fl : List Frame) (i : Nat) : List Frame → List Pending → List Ev → Prop
  | noFrame : fl[i]? = none → DeliverSpec topo fl i fl [] []
  | gone (f : Frame) : fl[i]? = some f → DeliverSpec topo fl i (fl.eraseIdx i) [] []
  | app (f : Frame) (n : Nat) (nd : Node) (σ : Slot) (port : Nat) (data : List UInt8) :
      fl[i]? = some f → tapOwner topo f.net f.dmac = some (n, nd, σ) →
      ipv4Demux n nd f.pkt = .ok (.app port data) →
      DeliverSpec topo fl i (fl.eraseIdx i) [] [.app n f.pkt port data]
  | hopDrop (f : Frame) (n : Nat) : fl[i]? = some f → DeliverSpec topo fl i (fl.eraseIdx i) [] [.hop n f.pkt]
  | hopFwd (f : Frame) (n : Nat) (nd : Node) (σ : Slot) (p : Pending) :
      fl[i]? = some f → tapOwner topo f.net f.dmac = some (n, nd, σ) →
      ipv4Demux n nd f.pkt = .ok (.routed (some p)) → routerDemux n nd f.pkt = .ok (some p) →
      DeliverSpec topo fl i (fl.eraseIdx i) [p] [.hop n f.pkt]

theorem ipv4DemuxParsed_routed {n : Nat} {nd : Node} {pkt : Pkt} {r : Option Pending}
    (h : ipv4DemuxParsed n nd pkt = .ok (.routed r)) : routerDemux n nd pkt = .ok r := by
  unfold ipv4DemuxParsed at h
  split at h
  · cases h
  · split at h
    · split at h
      · simp only [Except.ok.injEq] at h
        unfold udpDemux at h
        split at h
        · simp only [] at h
          split at h <;> cases h
        · cases h
      · split at h
        · cases h
        · rename_i r' hr
          simp only [Except.ok.injEq, Demuxed.routed.injEq] at h
          subst h; exact hr
    · cases h

theorem ipv4Demux_parsed {n : Nat} {nd : Node} {pkt : Pkt} {d : Demuxed} (hd : d ≠ .dropped)
    (h : ipv4Demux n nd pkt = .ok d) : headerRejected pkt.hdr = false ∧ ipv4DemuxParsed n nd pkt = .ok d := by
  unfold ipv4Demux at h
  split at h
  · simp only [Except.ok.injEq] at h; exact absurd h.symm hd
  · rename_i hr
    exact ⟨by simpa using hr, h⟩

theorem ipv4Demux_routed {n : Nat} {nd : Node} {pkt : Pkt} {r : Option Pending}
    (h : ipv4Demux n nd pkt = .ok (.routed r)) : routerDemux n nd pkt = .ok r :=
  ipv4DemuxParsed_routed (ipv4Demux_parsed (by intro h; cases h) h).2

theorem deliverCore_spec {topo : Topo} {fl : List Frame} {i : Nat} {fl' : List Frame} {ps : List Pending}
    {evs : List Ev} (h : deliverCore topo fl i = .ok (fl', ps, evs)) : DeliverSpec topo fl i fl' ps evs := by
  unfold deliverCore at h
  split at h
  · rename_i hn
    simp only [Except.ok.injEq, Prod.mk.injEq] at h
    obtain ⟨rfl, rfl, rfl⟩ := h
    exact .noFrame hn
  · rename_i f hf
    simp only [] at h
    split at h
    · simp only [Except.ok.injEq, Prod.mk.injEq] at h
      obtain ⟨rfl, rfl, rfl⟩ := h
      exact .gone f hf
    · rename_i n nd σ ho
      split at h
      · cases h
      · simp only [Except.ok.injEq, Prod.mk.injEq] at h
        obtain ⟨rfl, rfl, rfl⟩ := h
        exact .gone f hf
      · rename_i port data hd
        simp only [Except.ok.injEq, Prod.mk.injEq] at h
        obtain ⟨rfl, rfl, rfl⟩ := h
        exact .app f n nd σ port data hf ho hd
      · simp only [Except.ok.injEq, Prod.mk.injEq] at h
        obtain ⟨rfl, rfl, rfl⟩ := h
        exact .hopDrop f n hf
      · rename_i p hd
        simp only [Except.ok.injEq, Prod.mk.injEq] at h
        obtain ⟨rfl, rfl, rfl⟩ := h
        exact .hopFwd f n nd σ p hf ho hd (ipv4Demux_routed hd)

theorem emit_some {topo : Topo} {p : Pending} {mac : Mac} {f : Frame} (h : emit topo p mac = .ok (some f)) :
    f.pkt = p.pkt ∧ f.dmac = mac ∧
      ∃ nd, topo.nodes[p.node]? = some nd ∧ nd.slots[p.slot]? = some (f.net, f.smac) ∧
        frameLen p.pkt ≤ topo.mtu f.net := by
  unfold emit at h
  split at h
  · cases h
  · rename_i nd hn
    split at h
    · cases h
    · rename_i net smac hs
      split at h
      · split at h <;> cases h
      · rename_i hm
        simp only [Except.ok.injEq, Option.some.injEq] at h
        subst h
        exact ⟨rfl, rfl, nd, hn, hs, by simp only; omega⟩

/-- a resolved forward leaves as nothing or as exactly one frame carrying the pending datagram -/
theorem resolveCore_spec {topo : Topo} {p : Pending} {mac : Mac} {fs : List Frame} {evs : List Ev}
    (h : resolveCore topo p mac = .ok (fs, evs)) :
    (fs = [] ∧ evs = []) ∨ ∃ f, fs = [f] ∧ evs = [.wire f] ∧ emit topo p mac = .ok (some f) := by
  unfold resolveCore at h
  split at h
  · cases h
  · simp only [Except.ok.injEq, Prod.mk.injEq] at h
    exact .inl ⟨h.1.symm, h.2.symm⟩
  · rename_i f hf
    simp only [Except.ok.injEq, Prod.mk.injEq] at h
    exact .inr ⟨f, h.1.symm, h.2.symm, hf⟩

theorem sendCore_spec (topo : Topo) (h : Nat) (pkt : Pkt) :
    sendCore topo h pkt = [] ∨ ∃ p nd, sendCore topo h pkt = [p] ∧ topo.nodes[h]? = some nd ∧
      hostSend h nd pkt = some p ∧ p.pkt = pkt ∧ p.node = h ∧ p.viaRouter = false := by
  unfold sendCore
  split
  · exact .inl rfl
  · rename_i nd hn
    split
    · exact .inl rfl
    · rename_i p hp
      refine .inr ⟨p, nd, rfl, hn, hp, ?_⟩
      unfold hostSend at hp
      split at hp
      · cases hp
      · simp only [Option.some.injEq] at hp
        subst hp; exact ⟨rfl, rfl, rfl⟩

/-! ### measures -/

/-- remaining life of a datagram with this TTL: the number of `ArpRouter::demux` calls it can
    still cause (a TTL of 0 still reaches one router, which drops it) -/
def lifeOf (ttl : Nat) : Nat := max ttl 1

def lifeF (k : Nat) (f : Frame) : Nat := if f.pkt.tok = k then lifeOf f.pkt.hdr.ttl else 0
def lifeP (k : Nat) (p : Pending) : Nat := if p.pkt.tok = k then lifeOf p.pkt.hdr.ttl else 0

/-- remaining life of token `k` in a state -/
def life (k : Nat) (s : State) : Nat := (s.flight.map (lifeF k)).sum + (s.pend.map (lifeP k)).sum

def Ev.isHopOf (k : Nat) : Ev → Bool
  | .hop _ pkt => pkt.tok == k
  | _ => false

/-- number of `ArpRouter::demux` calls on token `k` so far -/
def hops (k : Nat) (log : List Ev) : Nat := (log.filter (Ev.isHopOf k)).length

/-- life a choice adds to token `k` (only application sends and crafted frames add any) -/
def inputLife (k : Nat) : Choice → Nat
  | .send _ pkt => if pkt.tok = k then lifeOf pkt.hdr.ttl else 0
  | .inject f => if f.pkt.tok = k then lifeOf f.pkt.hdr.ttl else 0
  | _ => 0

def budget (k : Nat) (sched : List Choice) : Nat := (sched.map (inputLife k)).sum

/-- weight of the whole state for the silence argument: every enabled non-input step removes at
    least one unit -/
def weightF (f : Frame) : Nat := 2 * lifeOf f.pkt.hdr.ttl
def weightP (p : Pending) : Nat := 2 * lifeOf p.pkt.hdr.ttl + 1
def weight (s : State) : Nat := (s.flight.map weightF).sum + (s.pend.map weightP).sum

def inputWeight : Choice → Nat
  | .send _ pkt => 2 * lifeOf pkt.hdr.ttl + 1
  | .inject f => 2 * lifeOf f.pkt.hdr.ttl
  | _ => 0

def Choice.enabled (s : State) : Choice → Bool
  | .deliver i => i < s.flight.length
  | .resolved j _ => j < s.pend.length
  | .unresolved j => j < s.pend.length
  | _ => true

theorem hops_append (k : Nat) (a b : List Ev) : hops k (a ++ b) = hops k a + hops k b := by
  simp [hops, List.filter_append]

theorem lifeOf_withTtl_succ (pkt : Pkt) (v : Nat) (h1 : v + 1 = pkt.hdr.ttl) (h2 : 1 ≤ v) :
    lifeOf (pkt.withTtl v).hdr.ttl + 1 = lifeOf pkt.hdr.ttl := by
  simp only [Pkt.withTtl, lifeOf]; omega

/-- the central accounting step: hops already made + life left never exceeds what was there
    before plus what the choice put in -/
theorem step_hops_life (topo : Topo) (k : Nat) (s s' : State) (c : Choice) (h : step topo s c = .ok s') :
    hops k s'.log + life k s' ≤ hops k s.log + life k s + inputLife k c := by
  cases c with
  | deliver i =>
    simp only [step] at h
    split at h
    · cases h
    · rename_i fl ps evs hc
      simp only [Except.ok.injEq] at h
      subst h
      simp only [life, hops_append, inputLife, List.map_append, List.sum_append]
      have sp := deliverCore_spec hc
      cases sp with
      | noFrame _ => simp [hops]
      | gone f hf =>
        have := sum_map_eraseIdx (lifeF k) s.flight i f hf
        simp [hops]; omega
      | app f n nd σ port data hf _ _ =>
        have := sum_map_eraseIdx (lifeF k) s.flight i f hf
        simp [hops, Ev.isHopOf]; omega
      | hopDrop f n hf =>
        have := sum_map_eraseIdx (lifeF k) s.flight i f hf
        by_cases hk : f.pkt.tok = k
        · have : lifeF k f ≥ 1 := by simp [lifeF, hk, lifeOf]; omega
          simp [hops, Ev.isHopOf, hk]; omega
        · simp [hops, Ev.isHopOf, hk]; omega
      | hopFwd f n nd σ p hf _ _ hr =>
        have := sum_map_eraseIdx (lifeF k) s.flight i f hf
        obtain ⟨v, hp, h1, h2, _⟩ := routerDemux_some hr
        by_cases hk : f.pkt.tok = k
        · have e1 : lifeF k f = lifeOf f.pkt.hdr.ttl := by simp [lifeF, hk]
          have e2 : lifeP k p = lifeOf (f.pkt.withTtl v).hdr.ttl := by simp [lifeP, hp, Pkt.withTtl, hk]
          have := lifeOf_withTtl_succ f.pkt v h1 h2
          simp [hops, Ev.isHopOf, hk]; omega
        · have e2 : lifeP k p = 0 := by simp [lifeP, hp, Pkt.withTtl, hk]
          simp [hops, Ev.isHopOf, hk]; omega
  | resolved j mac =>
    simp only [step] at h
    split at h
    · simp only [Except.ok.injEq] at h; subst h; omega
    · rename_i p hp
      split at h
      · cases h
      · rename_i fs evs hc
        simp only [Except.ok.injEq] at h
        subst h
        have := sum_map_eraseIdx (lifeP k) s.pend j p hp
        simp only [life, hops_append, inputLife, List.map_append, List.sum_append]
        rcases resolveCore_spec hc with ⟨rfl, rfl⟩ | ⟨f, rfl, rfl, he⟩
        · simp [hops]; omega
        · have hf := (emit_some he).1
          have : lifeF k f = lifeP k p := by simp [lifeF, lifeP, hf]
          simp [hops, Ev.isHopOf]; omega
  | unresolved j =>
    simp only [step, Except.ok.injEq] at h
    subst h
    have := sum_map_eraseIdx_le (lifeP k) s.pend j
    simp only [life, inputLife]; omega
  | send hh pkt =>
    simp only [step, Except.ok.injEq] at h
    subst h
    simp only [life, inputLife, List.map_append, List.sum_append]
    rcases sendCore_spec topo hh pkt with e | ⟨p, nd, e, _, _, hp, _⟩
    · rw [e]; simp
    · rw [e]; simp [lifeP, hp]; omega
  | inject f =>
    simp only [step, Except.ok.injEq] at h
    subst h
    simp [life, inputLife, hops, Ev.isHopOf, lifeF, List.map_append, List.sum_append]
    omega

theorem run_hops_life (topo : Topo) (k : Nat) :
    ∀ (sched : List Choice) (s s' : State), run topo s sched = .ok s' →
      hops k s'.log + life k s' ≤ hops k s.log + life k s + budget k sched
  | [], s, s', h => by simp [run] at h; subst h; simp [budget]
  | c :: cs, s, s', h => by
    simp only [run] at h
    split at h
    · cases h
    · rename_i s1 h1
      have a := step_hops_life topo k s s1 c h1
      have b := run_hops_life topo k cs s1 s' h
      simp only [budget, List.map_cons, List.sum_cons] at *
      omega

/-! ### silence: every enabled non-input step consumes weight -/

theorem getElem?_of_lt {α : Type} (l : List α) (i : Nat) (h : i < l.length) : ∃ x, l[i]? = some x :=
  ⟨l[i], List.getElem?_eq_getElem h⟩

theorem lifeOf_pos (t : Nat) : 1 ≤ lifeOf t := by simp [lifeOf]; omega

theorem step_weight (topo : Topo) (s s' : State) (c : Choice) (h : step topo s c = .ok s') :
    weight s' + (c.enabled s && !c.isInput).toNat ≤ weight s + inputWeight c := by
  cases c with
  | deliver i =>
    simp only [step] at h
    split at h
    · cases h
    · rename_i fl ps evs hc
      simp only [Except.ok.injEq] at h
      subst h
      simp only [weight, inputWeight, Choice.enabled, Choice.isInput, List.map_append, List.sum_append]
      have sp := deliverCore_spec hc
      cases sp with
      | noFrame hn =>
        have : ¬ i < s.flight.length := by
          intro hl; rw [List.getElem?_eq_getElem hl] at hn; cases hn
        simp [this]
      | gone f hf =>
        have := sum_map_eraseIdx weightF s.flight i f hf
        have := lifeOf_pos f.pkt.hdr.ttl
        have hb := Bool.toNat_le (decide (i < s.flight.length) && !false)
        simp only [weightF] at *
        simp at *; omega
      | app f n nd σ port data hf _ _ =>
        have := sum_map_eraseIdx weightF s.flight i f hf
        have := lifeOf_pos f.pkt.hdr.ttl
        have hb := Bool.toNat_le (decide (i < s.flight.length) && !false)
        simp only [weightF] at *
        simp at *; omega
      | hopDrop f n hf =>
        have := sum_map_eraseIdx weightF s.flight i f hf
        have := lifeOf_pos f.pkt.hdr.ttl
        have hb := Bool.toNat_le (decide (i < s.flight.length) && !false)
        simp only [weightF] at *
        simp at *; omega
      | hopFwd f n nd σ p hf _ _ hr =>
        have := sum_map_eraseIdx weightF s.flight i f hf
        obtain ⟨v, hp, h1, h2, _⟩ := routerDemux_some hr
        have := lifeOf_withTtl_succ f.pkt v h1 h2
        have e2 : weightP p = 2 * lifeOf (f.pkt.withTtl v).hdr.ttl + 1 := by simp [weightP, hp]
        have hb := Bool.toNat_le (decide (i < s.flight.length) && !false)
        simp only [weightF] at *
        simp [e2] at *; omega
  | resolved j mac =>
    simp only [step] at h
    split at h
    · rename_i hn
      simp only [Except.ok.injEq] at h; subst h
      have : ¬ j < s.pend.length := by
        intro hl; rw [List.getElem?_eq_getElem hl] at hn; cases hn
      simp [Choice.enabled, this, inputWeight]
    · rename_i p hp
      split at h
      · cases h
      · rename_i fs evs hc
        simp only [Except.ok.injEq] at h
        subst h
        have := sum_map_eraseIdx weightP s.pend j p hp
        simp only [weight, inputWeight, Choice.enabled, Choice.isInput, List.map_append, List.sum_append]
        rcases resolveCore_spec hc with ⟨rfl, rfl⟩ | ⟨f, rfl, rfl, he⟩
        · have hb := Bool.toNat_le (decide (j < s.pend.length) && !false)
          simp only [weightP] at *
          simp at *; omega
        · have hf := (emit_some he).1
          have : weightF f + 1 = weightP p := by simp [weightF, weightP, hf]
          have hb := Bool.toNat_le (decide (j < s.pend.length) && !false)
          simp at *; omega
  | unresolved j =>
    simp only [step, Except.ok.injEq] at h
    subst h
    simp only [weight, inputWeight, Choice.enabled, Choice.isInput]
    by_cases hl : j < s.pend.length
    · obtain ⟨p, hp⟩ := getElem?_of_lt s.pend j hl
      have := sum_map_eraseIdx weightP s.pend j p hp
      simp only [weightP] at *
      simp [hl]; omega
    · have := sum_map_eraseIdx_le weightP s.pend j
      simp [hl]; omega
  | send hh pkt =>
    simp only [step, Except.ok.injEq] at h
    subst h
    simp only [weight, inputWeight, Choice.enabled, Choice.isInput, List.map_append, List.sum_append]
    rcases sendCore_spec topo hh pkt with e | ⟨p, nd, e, _, _, hp, _⟩
    · rw [e]; simp
    · rw [e]; simp [weightP, hp]; omega
  | inject f =>
    simp only [step, Except.ok.injEq] at h
    subst h
    simp [weight, inputWeight, Choice.enabled, Choice.isInput, weightF, List.map_append, List.sum_append]
    omega

/-- number of steps of a run at which an enabled, non-input choice was taken -/
def activeSteps (topo : Topo) : State → List Choice → Nat
  | _, [] => 0
  | s, c :: cs =>
    (c.enabled s && !c.isInput).toNat +
      match step topo s c with
      | .ok s' => activeSteps topo s' cs
      | .error _ => 0

def inputBudget (sched : List Choice) : Nat := (sched.map inputWeight).sum

theorem run_weight (topo : Topo) :
    ∀ (sched : List Choice) (s s' : State), run topo s sched = .ok s' →
      activeSteps topo s sched + weight s' ≤ weight s + inputBudget sched
  | [], s, s', h => by simp [run] at h; subst h; simp [activeSteps, inputBudget]
  | c :: cs, s, s', h => by
    simp only [run] at h
    split at h
    · cases h
    · rename_i s1 h1
      have a := step_weight topo s s1 c h1
      have b := run_weight topo cs s1 s' h
      simp only [activeSteps, h1, inputBudget, List.map_cons, List.sum_cons] at *
      omega

theorem weight_zero_iff (s : State) : weight s = 0 ↔ s.flight = [] ∧ s.pend = [] := by
  constructor
  · intro h
    rcases s with ⟨fl, pd, lg⟩
    simp only [weight] at h
    constructor
    · cases fl with
      | nil => rfl
      | cons f _ =>
        have := lifeOf_pos f.pkt.hdr.ttl
        simp [weightF] at h; omega
    · cases pd with
      | nil => rfl
      | cons p _ => simp [weightP] at h
  · rintro ⟨h1, h2⟩
    simp [weight, h1, h2]

/-! ### no multiplication: frames on the wire per (token, TTL) -/

def Ev.isWireOf (k v : Nat) : Ev → Bool
  | .wire f => f.pkt.tok == k && f.pkt.hdr.ttl == v
  | _ => false

/-- frames of token `k` with TTL `v` handed to a network so far -/
def wires (k v : Nat) (log : List Ev) : Nat := (log.filter (Ev.isWireOf k v)).length

def potF (k v : Nat) (f : Frame) : Nat := if f.pkt.tok = k ∧ v < f.pkt.hdr.ttl then 1 else 0
def potP (k v : Nat) (p : Pending) : Nat := if p.pkt.tok = k ∧ v ≤ p.pkt.hdr.ttl then 1 else 0
/-- entities that can still put a (k, v) frame on a network -/
def pot (k v : Nat) (s : State) : Nat := (s.flight.map (potF k v)).sum + (s.pend.map (potP k v)).sum

/-- number of datagrams of token `k` a choice introduces -/
def inputCount (k : Nat) : Choice → Nat
  | .send _ pkt => if pkt.tok = k then 1 else 0
  | .inject f => if f.pkt.tok = k then 1 else 0
  | _ => 0

def inputs (k : Nat) (sched : List Choice) : Nat := (sched.map (inputCount k)).sum

theorem wires_append (k v : Nat) (a b : List Ev) : wires k v (a ++ b) = wires k v a + wires k v b := by
  simp [wires, List.filter_append]

theorem wires_single (k v : Nat) (f : Frame) :
    wires k v [Ev.wire f] = if f.pkt.tok = k ∧ f.pkt.hdr.ttl = v then 1 else 0 := by
  by_cases h1 : f.pkt.tok = k <;> by_cases h2 : f.pkt.hdr.ttl = v <;>
    simp [wires, Ev.isWireOf, h1, h2]

theorem wires_potF (k v : Nat) (f : Frame) :
    wires k v [Ev.wire f] + potF k v f = if f.pkt.tok = k ∧ v ≤ f.pkt.hdr.ttl then 1 else 0 := by
  rw [wires_single]; simp only [potF]
  split <;> split <;> split <;> omega

theorem step_wires_pot (topo : Topo) (k v : Nat) (s s' : State) (c : Choice) (h : step topo s c = .ok s') :
    wires k v s'.log + pot k v s' ≤ wires k v s.log + pot k v s + inputCount k c := by
  cases c with
  | deliver i =>
    simp only [step] at h
    split at h
    · cases h
    · rename_i fl ps evs hc
      simp only [Except.ok.injEq] at h
      subst h
      simp only [pot, wires_append, inputCount, List.map_append, List.sum_append]
      have sp := deliverCore_spec hc
      cases sp with
      | noFrame _ => simp [wires]
      | gone f hf =>
        have := sum_map_eraseIdx (potF k v) s.flight i f hf
        simp [wires]; omega
      | app f n nd σ port data hf _ _ =>
        have := sum_map_eraseIdx (potF k v) s.flight i f hf
        simp [wires, Ev.isWireOf]; omega
      | hopDrop f n hf =>
        have := sum_map_eraseIdx (potF k v) s.flight i f hf
        simp [wires, Ev.isWireOf]; omega
      | hopFwd f n nd σ p hf _ _ hr =>
        have := sum_map_eraseIdx (potF k v) s.flight i f hf
        obtain ⟨u, hp, h1, h2, _⟩ := routerDemux_some hr
        have : potP k v p ≤ potF k v f := by
          simp only [potP, potF, hp, Pkt.withTtl]
          split <;> split <;> omega
        simp [wires, Ev.isWireOf]; omega
  | resolved j mac =>
    simp only [step] at h
    split at h
    · simp only [Except.ok.injEq] at h; subst h; omega
    · rename_i p hp
      split at h
      · cases h
      · rename_i fs evs hc
        simp only [Except.ok.injEq] at h
        subst h
        have := sum_map_eraseIdx (potP k v) s.pend j p hp
        simp only [pot, wires_append, inputCount, List.map_append, List.sum_append]
        rcases resolveCore_spec hc with ⟨rfl, rfl⟩ | ⟨f, rfl, rfl, he⟩
        · simp [wires]; omega
        · have hf := (emit_some he).1
          have : wires k v [Ev.wire f] + potF k v f = potP k v p := by
            rw [wires_potF]; simp only [potP, hf]
          simp; omega
  | unresolved j =>
    simp only [step, Except.ok.injEq] at h
    subst h
    have := sum_map_eraseIdx_le (potP k v) s.pend j
    simp only [pot, inputCount]; omega
  | send hh pkt =>
    simp only [step, Except.ok.injEq] at h
    subst h
    simp only [pot, inputCount, List.map_append, List.sum_append]
    rcases sendCore_spec topo hh pkt with e | ⟨p, nd, e, _, _, hp, _⟩
    · rw [e]; simp
    · rw [e]; simp only [potP, hp, List.map_cons, List.map_nil, List.sum_cons, List.sum_nil]
      split <;> split <;> omega
  | inject f =>
    simp only [step, Except.ok.injEq] at h
    subst h
    have := wires_potF k v f
    simp only [pot, inputCount, wires_append, List.map_append, List.sum_append,
      List.map_cons, List.map_nil, List.sum_cons, List.sum_nil]
    split at this <;> split <;> omega

theorem run_wires_pot (topo : Topo) (k v : Nat) :
    ∀ (sched : List Choice) (s s' : State), run topo s sched = .ok s' →
      wires k v s'.log + pot k v s' ≤ wires k v s.log + pot k v s + inputs k sched
  | [], s, s', h => by simp [run] at h; subst h; simp [inputs]
  | c :: cs, s, s', h => by
    simp only [run] at h
    split at h
    · cases h
    · rename_i s1 h1
      have a := step_wires_pot topo k v s s1 c h1
      have b := run_wires_pot topo k v cs s1 s' h
      simp only [inputs, List.map_cons, List.sum_cons] at *
      omega

/-! ### what every entity and event of a run carries -/

def Ev.pkt : Ev → Pkt
  | .hop _ p => p
  | .wire f => f.pkt
  | .app _ p _ _ => p

/-- every datagram in flight, waiting, or logged satisfies `P` -/
structure Carries (P : Pkt → Prop) (s : State) : Prop where
  flight : ∀ f ∈ s.flight, P f.pkt
  pend : ∀ p ∈ s.pend, P p.pkt
  log : ∀ e ∈ s.log, P e.pkt

def Choice.InputOk (P : Pkt → Prop) : Choice → Prop
  | .send _ pkt => P pkt
  | .inject f => P f.pkt
  | _ => True

theorem step_carries {topo : Topo} {P : Pkt → Prop} (hP : ∀ pkt v, P pkt → P (pkt.withTtl v))
    {s s' : State} {c : Choice} (h : step topo s c = .ok s') (inv : Carries P s) (hc : c.InputOk P) :
    Carries P s' := by
  cases c with
  | deliver i =>
    simp only [step] at h
    split at h
    · cases h
    · rename_i fl ps evs hcore
      simp only [Except.ok.injEq] at h
      subst h
      have sp := deliverCore_spec hcore
      have hfl : ∀ f ∈ s.flight.eraseIdx i, P f.pkt := fun f hf => inv.flight f (List.mem_of_mem_eraseIdx hf)
      cases sp with
      | noFrame _ => exact ⟨inv.flight, by simpa using inv.pend, by simpa using inv.log⟩
      | gone f hf => exact ⟨hfl, by simpa using inv.pend, by simpa using inv.log⟩
      | app f n nd σ port data hf _ _ =>
        have hPf := inv.flight f (List.mem_of_getElem? hf)
        refine ⟨hfl, by simpa using inv.pend, ?_⟩
        intro e he
        simp only [List.mem_append, List.mem_singleton] at he
        rcases he with he | rfl
        · exact inv.log e he
        · exact hPf
      | hopDrop f n hf =>
        have hPf := inv.flight f (List.mem_of_getElem? hf)
        refine ⟨hfl, by simpa using inv.pend, ?_⟩
        intro e he
        simp only [List.mem_append, List.mem_singleton] at he
        rcases he with he | rfl
        · exact inv.log e he
        · exact hPf
      | hopFwd f n nd σ p hf _ _ hr =>
        have hPf := inv.flight f (List.mem_of_getElem? hf)
        obtain ⟨v, hp, _⟩ := routerDemux_some hr
        refine ⟨hfl, ?_, ?_⟩
        · intro q hq
          simp only [List.mem_append, List.mem_singleton] at hq
          rcases hq with hq | rfl
          · exact inv.pend q hq
          · rw [hp]; exact hP _ _ hPf
        · intro e he
          simp only [List.mem_append, List.mem_singleton] at he
          rcases he with he | rfl
          · exact inv.log e he
          · exact hPf
  | resolved j mac =>
    simp only [step] at h
    split at h
    · simp only [Except.ok.injEq] at h; subst h; exact inv
    · rename_i p hp
      split at h
      · cases h
      · rename_i fs evs hcore
        simp only [Except.ok.injEq] at h
        subst h
        have hPp := inv.pend p (List.mem_of_getElem? hp)
        have hpd : ∀ q ∈ s.pend.eraseIdx j, P q.pkt := fun q hq => inv.pend q (List.mem_of_mem_eraseIdx hq)
        rcases resolveCore_spec hcore with ⟨rfl, rfl⟩ | ⟨f, rfl, rfl, he⟩
        · exact ⟨by simpa using inv.flight, hpd, by simpa using inv.log⟩
        · have hf := (emit_some he).1
          refine ⟨?_, hpd, ?_⟩
          · intro g hg
            simp only [List.mem_append, List.mem_singleton] at hg
            rcases hg with hg | rfl
            · exact inv.flight g hg
            · rw [hf]; exact hPp
          · intro e hev
            simp only [List.mem_append, List.mem_singleton] at hev
            rcases hev with hev | rfl
            · exact inv.log e hev
            · simp only [Ev.pkt]; rw [hf]; exact hPp
  | unresolved j =>
    simp only [step, Except.ok.injEq] at h
    subst h
    exact ⟨inv.flight, fun q hq => inv.pend q (List.mem_of_mem_eraseIdx hq), inv.log⟩
  | send hh pkt =>
    simp only [step, Except.ok.injEq] at h
    subst h
    refine ⟨inv.flight, ?_, inv.log⟩
    intro q hq
    simp only [List.mem_append] at hq
    rcases hq with hq | hq
    · exact inv.pend q hq
    · rcases sendCore_spec topo hh pkt with e | ⟨p, nd, e, _, _, hpk, _⟩
      · rw [e] at hq; cases hq
      · rw [e] at hq; simp only [List.mem_singleton] at hq; subst hq; rw [hpk]; exact hc
  | inject f =>
    simp only [step, Except.ok.injEq] at h
    subst h
    refine ⟨?_, inv.pend, ?_⟩
    · intro g hg
      simp only [List.mem_append, List.mem_singleton] at hg
      rcases hg with hg | rfl
      · exact inv.flight g hg
      · exact hc
    · intro e he
      simp only [List.mem_append, List.mem_singleton] at he
      rcases he with he | rfl
      · exact inv.log e he
      · exact hc

theorem run_carries {topo : Topo} {P : Pkt → Prop} (hP : ∀ pkt v, P pkt → P (pkt.withTtl v)) :
    ∀ (sched : List Choice) (s s' : State), run topo s sched = .ok s' → Carries P s →
      (∀ c ∈ sched, c.InputOk P) → Carries P s'
  | [], s, s', h, inv, _ => by simp [run] at h; subst h; exact inv
  | c :: cs, s, s', h, inv, hin => by
    simp only [run] at h
    split at h
    · cases h
    · rename_i s1 h1
      exact run_carries hP cs s1 s' h (step_carries hP h1 inv (hin c (by simp)))
        (fun c' hc' => hin c' (by simp [hc']))

theorem carries_empty (P : Pkt → Prop) : Carries P State.empty :=
  ⟨fun _ hf => by simp [State.empty] at hf, fun _ hf => by simp [State.empty] at hf,
   fun _ hf => by simp [State.empty] at hf⟩

/-! ### application deliveries -/

theorem tapOwnerFrom_spec : ∀ (nodes : List Node) (i : Nat) (net : NetId) (mac : Mac) (n : Nat) (nd : Node) (σ : Slot),
    tapOwnerFrom i nodes net mac = some (n, nd, σ) →
      i ≤ n ∧ nodes[n - i]? = some nd ∧ slotOf nd net mac = some σ
  | [], i, net, mac, n, nd, σ, h => by simp [tapOwnerFrom] at h
  | x :: rest, i, net, mac, n, nd, σ, h => by
    simp only [tapOwnerFrom] at h
    split at h
    · rename_i σ' hs
      simp only [Option.some.injEq, Prod.mk.injEq] at h
      obtain ⟨rfl, rfl, rfl⟩ := h
      simp [hs]
    · have ih := tapOwnerFrom_spec rest (i + 1) net mac n nd σ h
      obtain ⟨h1, h2, h3⟩ := ih
      refine ⟨by omega, ?_, h3⟩
      have : n - i = (n - (i + 1)) + 1 := by omega
      rw [this]; simpa using h2

theorem tapOwner_spec {topo : Topo} {net : NetId} {mac : Mac} {n : Nat} {nd : Node} {σ : Slot}
    (h : tapOwner topo net mac = some (n, nd, σ)) : topo.nodes[n]? = some nd ∧ slotOf nd net mac = some σ := by
  have := tapOwnerFrom_spec topo.nodes 0 net mac n nd σ h
  simpa using this.2

/-- what a logged application delivery certifies -/
def AppFact (topo : Topo) : Ev → Prop
  | .app n pkt port data => ∃ nd, topo.nodes[n]? = some nd ∧ ipv4Demux n nd pkt = .ok (.app port data)
  | _ => True

theorem step_appFact {topo : Topo} {s s' : State} {c : Choice} (h : step topo s c = .ok s')
    (inv : ∀ e ∈ s.log, AppFact topo e) : ∀ e ∈ s'.log, AppFact topo e := by
  cases c with
  | deliver i =>
    simp only [step] at h
    split at h
    · cases h
    · rename_i fl ps evs hcore
      simp only [Except.ok.injEq] at h
      subst h
      intro e he
      simp only [List.mem_append] at he
      rcases he with he | he
      · exact inv e he
      · have sp := deliverCore_spec hcore
        cases sp with
        | noFrame _ => cases he
        | gone f hf => cases he
        | app f n nd σ port data hf ho hd =>
          simp only [List.mem_singleton] at he; subst he
          exact ⟨nd, (tapOwner_spec ho).1, hd⟩
        | hopDrop f n hf => simp only [List.mem_singleton] at he; subst he; trivial
        | hopFwd f n nd σ p hf _ _ hr => simp only [List.mem_singleton] at he; subst he; trivial
  | resolved j mac =>
    simp only [step] at h
    split at h
    · simp only [Except.ok.injEq] at h; subst h; exact inv
    · split at h
      · cases h
      · rename_i fs evs hcore
        simp only [Except.ok.injEq] at h
        subst h
        intro e he
        simp only [List.mem_append] at he
        rcases he with he | he
        · exact inv e he
        · rcases resolveCore_spec hcore with ⟨rfl, rfl⟩ | ⟨f, rfl, rfl, _⟩
          · cases he
          · simp only [List.mem_singleton] at he; subst he; trivial
  | unresolved j => simp only [step, Except.ok.injEq] at h; subst h; exact inv
  | send hh pkt => simp only [step, Except.ok.injEq] at h; subst h; exact inv
  | inject f =>
    simp only [step, Except.ok.injEq] at h
    subst h
    intro e he
    simp only [List.mem_append, List.mem_singleton] at he
    rcases he with he | rfl
    · exact inv e he
    · trivial

theorem run_appFact {topo : Topo} :
    ∀ (sched : List Choice) (s s' : State), run topo s sched = .ok s' →
      (∀ e ∈ s.log, AppFact topo e) → ∀ e ∈ s'.log, AppFact topo e
  | [], s, s', h, inv => by simp [run] at h; subst h; exact inv
  | c :: cs, s, s', h, inv => by
    simp only [run] at h
    split at h
    · cases h
    · rename_i s1 h1
      exact run_appFact cs s1 s' h (step_appFact h1 inv)

/-- an application only ever sees a whole datagram whose destination address has a UDP listen
    binding on that machine (exact or wildcard) and whose port is bound; the data are the bytes
    after the UDP header -/
theorem ipv4Demux_app {n : Nat} {nd : Node} {pkt : Pkt} {port : Nat} {data : List UInt8}
    (h : ipv4Demux n nd pkt = .ok (.app port data)) :
    findBind nd.binds pkt.hdr.dst (protoClass pkt.hdr.proto) = some .udp ∧ isWhole pkt.hdr = true ∧
      data = pkt.payload.drop 8 ∧
      (nd.udpPorts.contains (pkt.hdr.dst, port) || nd.udpPorts.contains (0, port)) = true := by
  replace h := (ipv4Demux_parsed (by intro h; cases h) h).2
  unfold ipv4DemuxParsed at h
  split at h
  · cases h
  · rename_i up hb
    split at h
    · rename_i hw
      split at h
      · simp only [Except.ok.injEq] at h
        unfold udpDemux at h
        split at h
        · rename_i a b c d e f g hh data' hpay
          simp only [] at h
          split at h
          · rename_i hport
            simp only [Demuxed.app.injEq] at h
            obtain ⟨rfl, rfl⟩ := h
            exact ⟨hb, hw, by simp [hpay], hport⟩
          · cases h
        · cases h
      · split at h
        · cases h
        · simp only [Except.ok.injEq] at h; cases h
    · cases h

end Elvis.Router
