import ElvisVerif.Lemmas.TcpRelChain
/-!
# Forward evaluation of the closing handshake (one side closes first)

Explicit results (`emitT`, `aepT`) and the arrivals of the sequential close:
`arrive_fin_est` (ESTABLISHED → CLOSE-WAIT), `arrive_ack_fw1` (FIN-WAIT-1 → FIN-WAIT-2), `close_fwd_cw`
(CLOSE-WAIT → LAST-ACK), `arrive_fin_fw2` (FIN-WAIT-2 → TIME-WAIT), `arrive_ack_lastack` (LAST-ACK: the caller is told
to delete the TCB).
-/
namespace Elvis.Tcp
open Elvis.ModCmp
namespace Tcb
open Elvis.Tcp.Fin

/-- the TCB after `segments()` when nothing is left to segmentize -/
def emitT (t : Tcb) : Tcb :=
  ({ t with outgoing := { text := t.outgoing.text, retransmit := t.outgoing.retransmit.map (fun x => { x with needsTransmit := false }), oneshot := [] }, timeouts := { timeWait := t.timeouts.timeWait, retransmission := if (emitOut t).isEmpty then t.timeouts.retransmission else RTO } } : Tcb)

theorem segments_notext_eq (t : Tcb) (ht : t.outgoing.text = []) (hm : ¬ t.mtu.toNat < SPACE_FOR_HEADERS) :
    t.segments = .ok (emitT t, emitOut t) := by
  have hs1 : segmentizeIfOpen ({ t with outgoing.oneshot := [] } : Tcb) = .ok ({ t with outgoing.oneshot := [] } : Tcb) := by
    unfold segmentizeIfOpen
    split
    all_goals first
      | rfl
      | (rw [if_neg hm]; exact segmentize_nil _ _ _ _ ht)
  have hp : t.finPending = false := by
    rw [finPending_eq, ht]; simp
  unfold segments
  dsimp only
  rw [hs1]
  dsimp only
  rw [hp]
  unfold finIfPending
  rw [if_neg Bool.false_ne_true]
  dsimp only
  unfold emitT emitOut
  split <;> rfl

/-- the TCB after `ack_established_processing` took a new acknowledgment -/
def aepT (t : Tcb) (seg : Hdr) : Tcb :=
  ({ t with snd := { iss := t.snd.iss, una := seg.ack, nxt := t.snd.nxt, wnd := if (modLt t.snd.wl1 seg.seq || (t.snd.wl1 == seg.seq && modLeq t.snd.wl2 seg.ack)) then seg.wnd else t.snd.wnd, wl1 := if (modLt t.snd.wl1 seg.seq || (t.snd.wl1 == seg.seq && modLeq t.snd.wl2 seg.ack)) then seg.seq else t.snd.wl1, wl2 := if (modLt t.snd.wl1 seg.seq || (t.snd.wl1 == seg.seq && modLeq t.snd.wl2 seg.ack)) then seg.ack else t.snd.wl2 }, outgoing := { text := t.outgoing.text, oneshot := t.outgoing.oneshot, retransmit := t.outgoing.retransmit.filter fun tr => modLt seg.ack (tr.segment.hdr.seq + BitVec.ofNat 32 tr.segment.segLen) } } : Tcb)

theorem aep_new (t : Tcb) (seg : Hdr) (h1 : modLeq seg.ack t.snd.una = false)
    (h2 : modBounded t.snd.una .Lt seg.ack .Leq t.snd.nxt = true) :
    t.ackEstablishedProcessing seg = .ok (aepT t seg, .Success) := by
  unfold ackEstablishedProcessing
  rw [h1, h2]
  simp only [Bool.false_eq_true, if_false, Bool.not_true]
  unfold removeAckedFromRetransmission aepT
  split <;> simp only <;> rfl

/-- `segment_arrives` with an empty reorder heap, for a segment whose processing tells the caller to
    delete the TCB -/
theorem arrive_single_close (t : Tcb) (g : Segment) (hst : t.state ≠ .SynSent) (hheap : t.incoming.segments = [])
    (hok : t.isSeqOk (BitVec.ofNat 32 g.text.length) g.hdr.seq g.hdr.ctl.syn g.hdr.ctl.fin = .ok true)
    (hgate : modGt g.hdr.seq t.rcv.nxt = false) (t' : Tcb) (r : ProcessSegmentResult)
    (hp : t.processSegment g = .ok (t', r)) (hr : r.shouldDeleteTcb = true) :
    t.segmentArrives g = .ok (t', .Close) := by
  have hinc : ({ t with incoming.segments := [] } : Tcb) = t := by
    cases t with
    | mk lp rp mtu ini st snd rcv out inc tmo =>
      cases inc with
      | mk segs text =>
        simp only at hheap
        subst hheap
        rfl
  unfold segmentArrives
  dsimp only
  rw [if_neg hst, hok]
  dsimp only
  rw [hheap, C01.push_nil]
  have h2 : [g].length + 1 = 2 := rfl
  rw [h2]
  unfold drain
  dsimp only
  rw [C01.peek_single]
  dsimp only
  rw [hgate, C01.pop_single]
  simp only [Bool.and_false, Bool.false_eq_true, if_false]
  have e' : processSegment
      { t with incoming := { segments := [], text := ({ t with incoming.segments := [g] } : Tcb).incoming.text } } g =
      .ok (t', r) := by
    have : ({ t with incoming := { segments := [], text := ({ t with incoming.segments := [g] } : Tcb).incoming.text } } : Tcb)
        = ({ t with incoming.segments := [] } : Tcb) := rfl
    rw [this, hinc]; exact hp
  rw [e']
  dsimp only
  rw [hr]
  simp

theorem isSeqOk_fin_nxt (t : Tcb) (g : Segment) (hw : t.rcv.wnd = 65535#16) (hsyn : g.hdr.ctl.syn = false)
    (hfin : g.hdr.ctl.fin = true) (htext : g.text = []) (hseq : g.hdr.seq = t.rcv.nxt) :
    t.isSeqOk (BitVec.ofNat 32 g.text.length) g.hdr.seq g.hdr.ctl.syn g.hdr.ctl.fin = .ok true := by
  have hw0 : ¬ t.rcv.wnd = 0 := by rw [hw]; decide
  unfold isSeqOk
  rw [htext, hsyn, hfin, hseq]
  simp only [List.length_nil, BitVec.toNat_ofNat, Nat.zero_mod, Bool.toNat_false, Bool.toNat_true, Nat.add_zero,
    Nat.zero_add]
  rw [if_neg (by omega), if_neg (by omega), if_neg hw0, inWindow_nxt t hw]
  rfl

theorem isSeqOk_ack_nxt (t : Tcb) (g : Segment) (hw : t.rcv.wnd = 65535#16) (hsyn : g.hdr.ctl.syn = false)
    (hfin : g.hdr.ctl.fin = false) (htext : g.text = []) (hseq : g.hdr.seq = t.rcv.nxt) :
    t.isSeqOk (BitVec.ofNat 32 g.text.length) g.hdr.seq g.hdr.ctl.syn g.hdr.ctl.fin = .ok true := by
  have hw0 : ¬ t.rcv.wnd = 0 := by rw [hw]; decide
  unfold isSeqOk
  rw [htext, hsyn, hfin, hseq]
  simp only [List.length_nil, BitVec.toNat_ofNat, Nat.zero_mod, Bool.toNat_false, Nat.add_zero]
  rw [if_neg (by omega), if_pos trivial, if_neg hw0, inWindow_nxt t hw]

/-- the tail of `process_segment` after blocks 1 and 2 for a segment without RST, SYN and text -/
theorem process_tail (t t1 : Tcb) (g : Segment) (hns : t.state ≠ .SynSent) (hns1 : t1.state ≠ .SynSent)
    (hok : t.isSeqOk (BitVec.ofNat 32 g.text.length) g.hdr.seq g.hdr.ctl.syn g.hdr.ctl.fin = .ok true)
    (hrst : g.hdr.ctl.rst = false) (hsyn : g.hdr.ctl.syn = false) (htext : g.text = [])
    (hab : ackBlock t g.hdr = .ok (t1, none)) :
    t.processSegment g = match finBlock t1 g.hdr (BitVec.ofNat 32 g.text.length) with
      | .error e => .error e
      | .ok (s, some r) => .ok (s, r)
      | .ok (s, none) => .ok (s, .Success) := by
  have c1 : seqCheck t g.hdr (BitVec.ofNat 32 g.text.length) = .ok (t, none) := C01.seqCheck_pass hns hok
  have c3 : rstBlock t1 g.hdr = .ok (t1, none) := by
    unfold rstBlock
    rw [if_pos (by simp [hrst])]
  have c4 : synBlock t1 g.hdr = .ok (t1, none) := by
    unfold synBlock
    rw [if_pos (by simp [hsyn]), if_neg hns1]
  have c5 : textBlock t1 g.hdr g.text (BitVec.ofNat 32 g.text.length) = .ok (t1, none) := by
    unfold textBlock
    rw [if_pos (by rw [htext]; rfl)]
  unfold processSegment
  dsimp only
  rw [c1, andThen_none, hab, andThen_none, c3, andThen_none, c4, andThen_none, c5, andThen_none]
  cases hfb : finBlock t1 g.hdr (BitVec.ofNat 32 g.text.length) with
  | error e => rfl
  | ok p =>
    obtain ⟨s, r⟩ := p
    cases r <;> rfl

theorem finBlock_nofin (t : Tcb) (seg : Hdr) (tl : Seq) (h : seg.ctl.fin = false) : finBlock t seg tl = .ok (t, none) := by
  unfold finBlock
  rw [if_pos (by simp [h])]

/-- the peer's FIN at `RCV.NXT` in ESTABLISHED: CLOSE-WAIT -/
theorem arrive_fin_est (t : Tcb) (g : Segment) (hst : t.state = .Established) (hw : t.rcv.wnd = 65535#16)
    (hheap : t.incoming.segments = [])
    (hrst : g.hdr.ctl.rst = false) (hsyn : g.hdr.ctl.syn = false) (hfin : g.hdr.ctl.fin = true)
    (hack : g.hdr.ctl.ack = true) (htext : g.text = []) (hseq : g.hdr.seq = t.rcv.nxt)
    (hold : modLeq g.hdr.ack t.snd.una = true) :
    t.segmentArrives g = .ok (({ t with state := .CloseWait, rcv.nxt := t.rcv.nxt + 1, outgoing.oneshot := t.outgoing.oneshot ++ [t.finAckHdr] } : Tcb), .Ok) := by
  have hns : t.state ≠ .SynSent := by rw [hst]; simp
  have hok := isSeqOk_fin_nxt t g hw hsyn hfin htext hseq
  have c2 : ackBlock t g.hdr = .ok (t, none) := by
    unfold ackBlock
    rw [if_neg (by simp [hack]), hst]
    dsimp only
    unfold afterAckEstablished
    rw [aep_old t g.hdr hold]
    simp
  have hz : g.hdr.seq + BitVec.ofNat 32 g.text.length + 1 = t.rcv.nxt + 1 := by
    rw [htext, hseq]; simp
  have c6 : finBlock t g.hdr (BitVec.ofNat 32 g.text.length) =
      .ok (({ t with state := .CloseWait, rcv.nxt := t.rcv.nxt + 1, outgoing.oneshot := t.outgoing.oneshot ++ [t.finAckHdr] } : Tcb), none) := by
    rw [finBlock_fin_eq t g.hdr _ hfin hns (Or.inl (by rw [htext, hseq]; simp)), enqueueBuilt_ack, hz]
    unfold Elvis.Tcp.Fin.finState
    dsimp only
    rw [hst]
    rfl
  have hps := process_tail t t g hns hns hok hrst hsyn htext c2
  rw [c6] at hps
  exact arrive_single t g hns hheap hok (by rw [hseq]; exact C01.modGt_self _) _ _ hps rfl

/-- the ACK of our FIN at `RCV.NXT` in FIN-WAIT-1: FIN-WAIT-2 -/
theorem arrive_ack_fw1 (t : Tcb) (g : Segment) (hst : t.state = .FinWait1) (hw : t.rcv.wnd = 65535#16)
    (hheap : t.incoming.segments = []) (ht : t.outgoing.text = [])
    (hrst : g.hdr.ctl.rst = false) (hsyn : g.hdr.ctl.syn = false) (hfin : g.hdr.ctl.fin = false)
    (hack : g.hdr.ctl.ack = true) (htext : g.text = []) (hseq : g.hdr.seq = t.rcv.nxt)
    (hnew : modLeq g.hdr.ack t.snd.una = false)
    (hb : modBounded t.snd.una .Lt g.hdr.ack .Leq t.snd.nxt = true) (hall : g.hdr.ack = t.snd.nxt) :
    t.segmentArrives g = .ok (({ aepT t g.hdr with state := .FinWait2 } : Tcb), .Ok) := by
  have hns : t.state ≠ .SynSent := by rw [hst]; simp
  have hok := isSeqOk_ack_nxt t g hw hsyn hfin htext hseq
  have hfa : (aepT t g.hdr).isFinAcked = true := by
    unfold isFinAcked
    rw [finPending_eq]
    show (!(closing3 t.state && !t.outgoing.text.isEmpty) && (t.snd.nxt == g.hdr.ack)) = true
    rw [ht, hall]; simp
  have c2 : ackBlock t g.hdr = .ok (({ aepT t g.hdr with state := .FinWait2 } : Tcb), none) := by
    unfold ackBlock
    rw [if_neg (by simp [hack]), hst]
    dsimp only
    unfold afterAckEstablished
    rw [aep_new t g.hdr hnew hb]
    dsimp only
    rw [if_pos hfa]
    simp
  have hps := process_tail t _ g hns (by simp) hok hrst hsyn htext c2
  rw [finBlock_nofin _ _ _ hfin] at hps
  exact arrive_single t g hns hheap hok (by rw [hseq]; exact C01.modGt_self _) _ _ hps rfl

theorem close_fwd_cw (t : Tcb) (hst : t.state = .CloseWait) (ht : t.outgoing.text = []) :
    t.close = .ok (({ t with state := .LastAck, snd.nxt := t.snd.nxt + 1, outgoing.retransmit := t.outgoing.retransmit ++ [Transmit.new ⟨({ t with state := .LastAck } : Tcb).finHdr.built, []⟩] } : Tcb), .Ok) := by
  unfold close
  rw [hst]
  dsimp only
  rw [(Elvis.Tcp.Fin.queueFin_eq ({ t with state := .LastAck } : Tcb)).2 ht]

/-- the peer's FIN at `RCV.NXT` in FIN-WAIT-2: TIME-WAIT, the 2·MSL timer armed -/
theorem arrive_fin_fw2 (t : Tcb) (g : Segment) (hst : t.state = .FinWait2) (hw : t.rcv.wnd = 65535#16)
    (hheap : t.incoming.segments = [])
    (hrst : g.hdr.ctl.rst = false) (hsyn : g.hdr.ctl.syn = false) (hfin : g.hdr.ctl.fin = true)
    (hack : g.hdr.ctl.ack = true) (htext : g.text = []) (hseq : g.hdr.seq = t.rcv.nxt)
    (hold : modLeq g.hdr.ack t.snd.una = true) :
    t.segmentArrives g = .ok (({ t with state := .TimeWait, rcv.nxt := t.rcv.nxt + 1, outgoing.oneshot := t.outgoing.oneshot ++ [t.finAckHdr], timeouts := { timeWait := some TIME_WAIT, retransmission := RTO } } : Tcb), .Ok) := by
  have hns : t.state ≠ .SynSent := by rw [hst]; simp
  have hok := isSeqOk_fin_nxt t g hw hsyn hfin htext hseq
  have c2 : ackBlock t g.hdr = .ok (t, none) := by
    unfold ackBlock
    rw [if_neg (by simp [hack]), hst]
    dsimp only
    unfold afterAckEstablished
    rw [aep_old t g.hdr hold]
    simp
  have hz : g.hdr.seq + BitVec.ofNat 32 g.text.length + 1 = t.rcv.nxt + 1 := by
    rw [htext, hseq]; simp
  have c6 : finBlock t g.hdr (BitVec.ofNat 32 g.text.length) =
      .ok (({ t with state := .TimeWait, rcv.nxt := t.rcv.nxt + 1, outgoing.oneshot := t.outgoing.oneshot ++ [t.finAckHdr], timeouts := { timeWait := some TIME_WAIT, retransmission := RTO } } : Tcb), none) := by
    rw [finBlock_fin_eq t g.hdr _ hfin hns (Or.inl (by rw [htext, hseq]; simp)), enqueueBuilt_ack, hz]
    unfold Elvis.Tcp.Fin.finState
    dsimp only
    rw [hst]
    rfl
  have hps := process_tail t t g hns hns hok hrst hsyn htext c2
  rw [c6] at hps
  exact arrive_single t g hns hheap hok (by rw [hseq]; exact C01.modGt_self _) _ _ hps rfl

/-- the ACK of our FIN at `RCV.NXT` in LAST-ACK: the caller deletes the TCB -/
theorem arrive_ack_lastack (t : Tcb) (g : Segment) (hst : t.state = .LastAck) (hw : t.rcv.wnd = 65535#16)
    (hheap : t.incoming.segments = []) (ht : t.outgoing.text = [])
    (hsyn : g.hdr.ctl.syn = false) (hfin : g.hdr.ctl.fin = false)
    (hack : g.hdr.ctl.ack = true) (htext : g.text = []) (hseq : g.hdr.seq = t.rcv.nxt)
    (hd : (t.snd.nxt - t.snd.una).toNat = 1) (hall : g.hdr.ack = t.snd.nxt) :
    ∃ t', t.segmentArrives g = .ok (t', .Close) := by
  have hns : t.state ≠ .SynSent := by rw [hst]; simp
  have hok := isSeqOk_ack_nxt t g hw hsyn hfin htext hseq
  obtain ⟨t', hp⟩ := processSegment_lastAck_release t g hst ht (by omega) (by omega) hok hack hall
  exact ⟨t', arrive_single_close t g hns hheap hok (by rw [hseq]; exact C01.modGt_self _) t' _ hp rfl⟩

/-- `receive()` with an empty buffer returns nothing and changes nothing -/
theorem receive_empty (t : Tcb) (h : t.incoming.text = []) : t.receive = (t, []) := by
  cases t with
  | mk lp rp mtu ini st snd rcv out inc tmo =>
    cases inc with
    | mk segs text =>
      simp only at h
      subst h
      unfold receive
      cases st <;> rfl

end Tcb
end Elvis.Tcp
