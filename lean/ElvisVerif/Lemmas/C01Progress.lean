import ElvisVerif.Lemmas.C01Proc
/-!
# C01 — single-step progress facts (towards convergence; see `Props/C01Safety.lean`)

`segmentArrives_accept`: a valid segment of the peer that covers the next expected byte, arriving
at an ESTABLISHED receiver with an empty reorder heap and room in its buffer, is accepted: RCV.NXT
advances by exactly the new bytes that fit, and these bytes — the right slice of the peer's
submitted bytes — are appended to the buffered text.
-/
namespace Elvis.Tcp.C01
open Elvis.ModCmp Elvis.Tcp.Tcb

/-! ## arithmetic -/

/-- a segment that is not ahead passes the heap gate -/
theorem gate_pass (base : Seq) (p q : Nat) (hpq : p ≤ q) (hq : q < 2147483648) :
    modGt (base + BitVec.ofNat 32 p) (base + BitVec.ofNat 32 q) = false := by
  unfold modGt
  cases hm : modLt (base + BitVec.ofNat 32 q) (base + BitVec.ofNat 32 p) with
  | false => rfl
  | true =>
    rw [modLt_iff, cancel] at hm
    simp only [BitVec.toNat_sub, BitVec.toNat_ofNat] at hm
    omega

theorem cancel_last (base Q D : Seq) : base + (Q + D + 1) - 1 - (base + Q) = D := by bv_omega
theorem cancel_end (base Q D : Seq) : base + (Q + D) - (base + Q) = D := by bv_omega

/-- offset of the last byte of `[p, p+len)` relative to `q` -/
theorem last_off (base : Seq) (p q len : Nat) (hcov : q < p + len) :
    base + BitVec.ofNat 32 p + BitVec.ofNat 32 len - 1 - (base + BitVec.ofNat 32 q) =
      BitVec.ofNat 32 (p + len - 1 - q) := by
  obtain ⟨d, hd⟩ : ∃ d, d = p + len - 1 - q := ⟨_, rfl⟩
  have e : p + len = q + d + 1 := by omega
  rw [← hd, BitVec.add_assoc, ← BitVec.ofNat_add, e, BitVec.ofNat_add, BitVec.ofNat_add]
  exact cancel_last _ _ _

/-- offset of the byte after `[p, p+len)` relative to `q` -/
theorem end_off (base : Seq) (p q len : Nat) (hcov : q ≤ p + len) :
    base + BitVec.ofNat 32 p + BitVec.ofNat 32 len - (base + BitVec.ofNat 32 q) =
      BitVec.ofNat 32 (p + len - q) := by
  obtain ⟨d, hd⟩ : ∃ d, d = p + len - q := ⟨_, rfl⟩
  have e : p + len = q + d := by omega
  rw [← hd, BitVec.add_assoc, ← BitVec.ofNat_add, e, BitVec.ofNat_add]
  exact cancel_end _ _ _

section
variable {t : Tcb} {base : Seq} {p q len : Nat}

/-- the acceptability test passes for a segment covering `RCV.NXT` -/
theorem isSeqOk_cover (seq : Seq) (hw : t.rcv.wnd = 65535#16) (hseq : seq = base + BitVec.ofNat 32 p)
    (hnxt : t.rcv.nxt = base + BitVec.ofNat 32 q) (hpq : p ≤ q) (hcov : q < p + len) (hlen : len ≤ 65535) :
    t.isSeqOk (BitVec.ofNat 32 len) seq false false = .ok true := by
  have hpos : 0 < len := by omega
  have htl : (BitVec.ofNat 32 len).toNat = len := ofNat_toNat_lt _ (by omega)
  have hw0 : ¬ t.rcv.wnd = 0 := by rw [hw]; decide
  unfold isSeqOk
  simp only [htl, Bool.toNat_false, Nat.add_zero]
  rw [if_neg (by omega), if_neg (by omega), if_neg hw0]
  have : t.isInRcvWindow (seq + BitVec.ofNat 32 len - 1) = true := by
    rw [isInRcvWindow_iff, hseq, hnxt, last_off _ _ _ _ hcov, hw]
    left
    rw [ofNat_toNat_lt _ (by omega)]
    have : (65535#16 : BitVec 16).toNat = 65535 := rfl
    omega
  rw [this, Bool.or_true]

/-- the text block's `assert!` holds for a segment covering `RCV.NXT` -/
theorem assert_cover (seq : Seq) (hw : t.rcv.wnd = 65535#16) (hseq : seq = base + BitVec.ofNat 32 p)
    (hnxt : t.rcv.nxt = base + BitVec.ofNat 32 q) (hpq : p ≤ q) (hcov : q < p + len) (hlen : len ≤ 65535) :
    (t.isInRcvWindow seq || t.isInRcvWindow (seq + BitVec.ofNat 32 len)) = true := by
  have h16 : (65535#16 : BitVec 16).toNat = 65535 := rfl
  rw [Bool.or_eq_true]
  by_cases hpq' : p = q
  · left
    rw [isInRcvWindow_iff, hseq, hnxt, hpq', hw, h16]
    left
    have : base + BitVec.ofNat 32 q - (base + BitVec.ofNat 32 q) = 0 := by bv_omega
    rw [this]
    decide
  · right
    rw [isInRcvWindow_iff, hseq, hnxt, end_off _ _ _ _ (by omega), hw, h16]
    left
    rw [ofNat_toNat_lt _ (by omega)]
    omega

end

/-! ## the blocks, forwards -/

/-- an ACK field that does not acknowledge unsent data lets block 2 fall through (ESTABLISHED) -/
theorem ackBlock_falls {t : Tcb} {seg : Hdr} (hst : t.state = .Established)
    (hack : seg.ctl.ack = true →
      (modLeq seg.ack t.snd.una || modBounded t.snd.una .Lt seg.ack .Leq t.snd.nxt) = true) :
    ∃ t2, ackBlock t seg = .ok (t2, none) ∧ Fr t t2 ∧ t2.state = .Established := by
  have key : ∃ t2, ackBlock t seg = .ok (t2, none) := by
    unfold ackBlock
    by_cases ha : seg.ctl.ack = true
    · rw [if_neg (by simp [ha]), hst]
      dsimp only
      unfold afterAckEstablished ackEstablishedProcessing
      have hk := hack ha
      rw [Bool.or_eq_true] at hk
      by_cases h1 : modLeq seg.ack t.snd.una = true
      · rw [if_pos h1]
        exact ⟨_, rfl⟩
      · have h2 : modBounded t.snd.una .Lt seg.ack .Leq t.snd.nxt = true := hk.resolve_left h1
        rw [if_neg h1, if_neg (by simp [h2])]
        exact ⟨_, rfl⟩
    · rw [if_pos (by simpa using ha)]
      exact ⟨_, rfl⟩
  obtain ⟨t2, e⟩ := key
  have f := ackBlock_fr (by rw [hst]; trivial) e
  refine ⟨t2, e, f, ?_⟩
  rcases f.st with h | ⟨h, _⟩
  · rw [h, hst]
  · rw [hst] at h; cases h

/-- the number of bytes the text block accepts from `text = submitted[p, p+len)` at `RCV.NXT = q` -/
def acceptLen (t : Tcb) (p q len : Nat) : Nat := min (len - (q - p)) (65535 - t.incoming.text.length)

/-- block 5, forwards: a text covering `RCV.NXT` is cut and appended -/
theorem textBlock_accept {t : Tcb} {seg : Hdr} {text : List UInt8} {base : Seq} {p q : Nat}
    (hst : t.state = .Established) (hw : t.rcv.wnd = 65535#16) (hin : t.incoming.text.length ≤ 65535)
    (hsyn : seg.ctl.syn = false) (hseq : seg.seq = base + BitVec.ofNat 32 p)
    (hnxt : t.rcv.nxt = base + BitVec.ofNat 32 q) (hpq : p ≤ q) (hq : q < 2147483648)
    (hcov : q < p + text.length) (hlen : text.length ≤ 65535) :
    ∃ t', textBlock t seg text (BitVec.ofNat 32 text.length) = .ok (t', none) ∧
      t'.rcv.nxt = t.rcv.nxt + BitVec.ofNat 32 (acceptLen t p q text.length) ∧
      t'.incoming.text = t.incoming.text ++ (text.drop (q - p)).take (acceptLen t p q text.length) ∧
      t'.incoming.segments = t.incoming.segments ∧ t'.state = t.state ∧ t'.rcv.wnd = t.rcv.wnd := by
  have h16 : (65535#16 : BitVec 16).toNat = 65535 := rfl
  have hne : text.isEmpty = false := by
    cases text with
    | nil => simp at hcov; omega
    | cons a l => rfl
  have htl : (BitVec.ofNat 32 text.length).toNat = text.length := ofNat_toNat_lt _ (by omega)
  have hassert := assert_cover (t := t) seg.seq hw hseq hnxt hpq hcov hlen
  unfold textBlock
  rw [if_neg (by simp [hne]), hst]
  dsimp only
  rw [if_neg (by simp [hassert]), hsyn, sub_zero_ofNat]
  generalize hA : (if t.rcv.nxt - seg.seq ≤ BitVec.ofNat 32 text.length then t.rcv.nxt - seg.seq
      else BitVec.ofNat 32 text.length) = a
  have ha : a.toNat = q - p := by
    rw [← hA, min_toNat, htl, hnxt, hseq, dist_toNat _ _ _ hpq (by omega)]
    omega
  rw [htl, ha, hw, h16]
  have hmod : t.incoming.text.length % 4294967296 = t.incoming.text.length := Nat.mod_eq_of_lt (by omega)
  rw [hmod, if_neg (by omega), if_neg (by omega)]
  have hk : min (text.length - (q - p)) (65535 - t.incoming.text.length) = acceptLen t p q text.length := rfl
  rw [hk]
  have hkle : acceptLen t p q text.length ≤ text.length - (q - p) := Nat.min_le_left _ _
  rw [if_neg (by omega), if_neg (by omega)]
  simp only [enqueueThen_eq]
  refine ⟨_, rfl, ?_, ?_, ?_, ?_, ?_⟩
  · rw [(enqueueBuilt_frame _ _).2.1]
  · rw [(enqueueBuilt_frame _ _).2.2.2.1]
  · rw [(enqueueBuilt_frame _ _).2.2.2.1]
  · rw [(enqueueBuilt_frame _ _).2.2.2.2.1]
  · rw [(enqueueBuilt_frame _ _).2.1]

/-- what is asked of the segment's flags and ACK field: plain data, ACK (if any) not ahead of
    what we sent -/
structure PlainData (t : Tcb) (g : Segment) : Prop where
  rst : g.hdr.ctl.rst = false
  syn : g.hdr.ctl.syn = false
  fin : g.hdr.ctl.fin = false
  ack : g.hdr.ctl.ack = true →
    (modLeq g.hdr.ack t.snd.una || modBounded t.snd.una .Lt g.hdr.ack .Leq t.snd.nxt) = true

/-- `process_segment`, forwards -/
theorem processSegment_accept {t : Tcb} {g : Segment} {base : Seq} {p q : Nat}
    (hst : t.state = .Established) (hw : t.rcv.wnd = 65535#16) (hin : t.incoming.text.length ≤ 65535)
    (hg : PlainData t g) (hseq : g.hdr.seq = base + BitVec.ofNat 32 p)
    (hnxt : t.rcv.nxt = base + BitVec.ofNat 32 q) (hpq : p ≤ q) (hq : q < 2147483648)
    (hcov : q < p + g.text.length) (hlen : g.text.length ≤ 65535) :
    ∃ t', t.processSegment g = .ok (t', .Success) ∧
      t'.rcv.nxt = t.rcv.nxt + BitVec.ofNat 32 (acceptLen t p q g.text.length) ∧
      t'.incoming.text = t.incoming.text ++ (g.text.drop (q - p)).take (acceptLen t p q g.text.length) ∧
      t'.incoming.segments = t.incoming.segments ∧ t'.state = .Established ∧ t'.rcv.wnd = t.rcv.wnd := by
  unfold processSegment
  dsimp only
  have e1 : seqCheck t g.hdr (BitVec.ofNat 32 g.text.length) = .ok (t, none) := by
    unfold seqCheck
    rw [hst]
    dsimp only
    rw [hg.syn, hg.fin, isSeqOk_cover g.hdr.seq hw hseq hnxt hpq hcov hlen]
  obtain ⟨t2, e2, f2, st2⟩ := ackBlock_falls hst hg.ack
  have e3 : rstBlock t2 g.hdr = .ok (t2, none) := by
    unfold rstBlock
    rw [if_pos (by simp [hg.rst])]
  have e4 : synBlock t2 g.hdr = .ok (t2, none) := by
    unfold synBlock
    rw [if_pos (by simp [hg.syn]), if_neg (by rw [st2]; simp)]
  have hin2 : t2.incoming.text.length ≤ 65535 := by rw [f2.inc]; exact hin
  obtain ⟨t5, e5, n5, x5, s5, st5, w5⟩ := textBlock_accept (t := t2) (seg := g.hdr) (text := g.text) st2
    (by rw [f2.rcv]; exact hw) hin2 hg.syn hseq (by rw [f2.rcv]; exact hnxt) hpq hq hcov hlen
  have e6 : finBlock t5 g.hdr (BitVec.ofNat 32 g.text.length) = .ok (t5, none) := by
    unfold finBlock
    rw [if_pos (by simp [hg.fin])]
  rw [e1, andThen_none, e2, andThen_none, e3, andThen_none, e4, andThen_none, e5, andThen_none, e6]
  have hk : acceptLen t2 p q g.text.length = acceptLen t p q g.text.length := by
    unfold acceptLen; rw [f2.inc]
  refine ⟨t5, rfl, ?_, ?_, ?_, ?_, ?_⟩
  · rw [n5, f2.rcv, hk]
  · rw [x5, f2.inc, hk]
  · rw [s5, f2.inc]
  · rw [st5, st2]
  · rw [w5, f2.rcv]

theorem push_nil (g : Segment) : LHeap.push segLe [] g = [g] := rfl
theorem peek_single (g : Segment) : LHeap.peek [g] = some g := rfl
theorem pop_single (g : Segment) : LHeap.pop segLe [g] = (some g, []) := rfl

/-- **receive progress**: at an ESTABLISHED receiver with an empty reorder heap, a plain data
    segment `submitted[p, p+len)` of the peer that covers the next expected offset `q`
    (`p ≤ q < p + len`) is accepted: `RCV.NXT` advances by `acceptLen` (> 0 when the buffer has
    room), and exactly those bytes of the segment are appended to the buffered text -/
theorem segmentArrives_accept {t : Tcb} {g : Segment} {base : Seq} {p q : Nat}
    (hst : t.state = .Established) (hw : t.rcv.wnd = 65535#16) (hin : t.incoming.text.length ≤ 65535)
    (hheap : t.incoming.segments = [])
    (hg : PlainData t g) (hseq : g.hdr.seq = base + BitVec.ofNat 32 p)
    (hnxt : t.rcv.nxt = base + BitVec.ofNat 32 q) (hpq : p ≤ q) (hq : q < 2147483648)
    (hcov : q < p + g.text.length) (hlen : g.text.length ≤ 65535) :
    ∃ t', t.segmentArrives g = .ok (t', .Ok) ∧
      t'.rcv.nxt = t.rcv.nxt + BitVec.ofNat 32 (acceptLen t p q g.text.length) ∧
      t'.incoming.text = t.incoming.text ++ (g.text.drop (q - p)).take (acceptLen t p q g.text.length) ∧
      t'.incoming.segments = [] ∧ t'.state = .Established := by
  unfold segmentArrives
  dsimp only
  rw [if_neg (by rw [hst]; simp), hg.syn, hg.fin, isSeqOk_cover g.hdr.seq hw hseq hnxt hpq hcov hlen]
  dsimp only
  rw [hheap, push_nil]
  have hgate : modGt g.hdr.seq t.rcv.nxt = false := by rw [hseq, hnxt]; exact gate_pass _ _ _ hpq hq
  obtain ⟨t', e, n, x, sg, st, w⟩ := processSegment_accept (t := { t with incoming.segments := [] }) (g := g)
    hst hw hin ⟨hg.rst, hg.syn, hg.fin, hg.ack⟩ hseq hnxt hpq hq hcov hlen
  have h2 : [g].length + 1 = 2 := rfl
  rw [h2]
  unfold drain
  dsimp only
  rw [peek_single]
  dsimp only
  rw [hgate, pop_single]
  simp only [Bool.and_false, Bool.false_eq_true, if_false]
  have e' : processSegment
      { t with incoming := { segments := [], text := ({ t with incoming.segments := [g] } : Tcb).incoming.text } } g =
      .ok (t', .Success) := e
  rw [e']
  dsimp only [ProcessSegmentResult.shouldDeleteTcb]
  simp only [Bool.false_eq_true, if_false]
  unfold drain
  rw [sg]
  exact ⟨t', rfl, n, x, sg, st⟩

/-! ## retransmission: after the timer fires, `segments()` re-emits the whole queue -/

theorem segmentize_keeps (maxSeg fuel : Nat) {t t' : Tcb} (qb : Nat) (e : segmentize maxSeg fuel t qb = .ok t') :
    ∃ more, t'.outgoing.retransmit = t.outgoing.retransmit ++ more ∧ ∀ tr ∈ more, tr.needsTransmit = true := by
  induction fuel generalizing t qb with
  | zero => unfold segmentize at e; cases e; exact ⟨[], by simp, fun _ h => by cases h⟩
  | succ n ih =>
    unfold segmentize at e
    dsimp only at e
    split at e
    · cases e; exact ⟨[], by simp, fun _ h => by cases h⟩
    · split at e
      · cases e
      · rename_i header _
        obtain ⟨more, h1, h2⟩ := ih _ e
        refine ⟨Transmit.new ⟨header, t.outgoing.text.take
          (min (min maxSeg (t.snd.wnd.toNat - qb)) t.outgoing.text.length)⟩ :: more, ?_, ?_⟩
        · rw [h1]; simp
        · intro tr htr
          rcases List.mem_cons.1 htr with rfl | htr
          · rfl
          · exact h2 tr htr

theorem segmentizeIfOpen_keeps {t t' : Tcb} (e : t.segmentizeIfOpen = .ok t') :
    ∃ more, t'.outgoing.retransmit = t.outgoing.retransmit ++ more ∧ ∀ tr ∈ more, tr.needsTransmit = true := by
  unfold segmentizeIfOpen at e
  split at e
  all_goals first
    | (split at e
       · cases e
       · exact segmentize_keeps _ _ _ e)
    | (cases e; exact ⟨[], by simp, fun _ h => by cases h⟩)

/-- forming the pending FIN (C03's `queue_fin`) only appends a flagged entry -/
theorem finIfPending_keeps {b : Bool} {t t' : Tcb} (e : finIfPending b t = .ok t') :
    ∃ more, t'.outgoing.retransmit = t.outgoing.retransmit ++ more ∧ ∀ tr ∈ more, tr.needsTransmit = true := by
  unfold finIfPending at e
  split at e
  · unfold queueFin at e
    split at e
    · rw [enqueue_eq] at e
      dsimp only at e
      cases e
      refine ⟨[Transmit.new ⟨t.finHdr.built, []⟩], ?_, fun tr htr => ?_⟩
      · show (t.enqueueBuilt t.finHdr.built).outgoing.retransmit = _
        unfold enqueueBuilt
        rw [if_pos (by show (t.finHdr.built.ctl.syn || t.finHdr.built.ctl.fin) = true; rfl)]
      · rw [List.mem_singleton.1 htr]; rfl
    · cases e; exact ⟨[], by simp, fun _ h => by cases h⟩
  · cases e; exact ⟨[], by simp, fun _ h => by cases h⟩

/-- **retransmission**: when the retransmission timer has expired (`dt` exceeds what is left of
    it), the next `segments()` returns every segment on the retransmission queue -/
theorem retransmit_all {t t1 t2 : Tcb} {dt : Nat} {r : AdvanceTimeResult} {out : List Segment}
    (hdt : dt > t.timeouts.retransmission) (e1 : t.advanceTime dt = .ok (t1, r))
    (e2 : t1.segments = .ok (t2, out)) :
    ∀ tr ∈ t.outgoing.retransmit, tr.segment ∈ out := by
  -- after the tick every entry is flagged
  have h1 : t1.outgoing.retransmit = t.outgoing.retransmit.map fun tr => { tr with needsTransmit := true } := by
    unfold advanceTime advanceRetransmission at e1
    rw [if_pos hdt] at e1
    dsimp only at e1
    split at e1
    · split at e1
      · cases e1; rfl
      · first
        | (cases e1; rfl)
        | (split at e1
           · cases e1
           · cases e1; rfl)
    · cases e1; rfl
  intro tr htr
  unfold segments at e2
  dsimp only at e2
  cases hs : segmentizeIfOpen { t1 with outgoing.oneshot := [] } with
  | error x => rw [hs] at e2; cases e2
  | ok s1 =>
    rw [hs] at e2
    dsimp only at e2
    cases hf : finIfPending t1.finPending s1 with
    | error x => rw [hf] at e2; cases e2
    | ok s2 =>
    rw [hf] at e2
    simp only [Except.ok.injEq, Prod.mk.injEq] at e2
    obtain ⟨more, hk, _⟩ := segmentizeIfOpen_keeps hs
    obtain ⟨more2, hk2, _⟩ := finIfPending_keeps hf
    rw [← e2.2, List.mem_append]
    right
    rw [List.mem_map]
    refine ⟨{ tr with needsTransmit := true }, ?_, rfl⟩
    rw [List.mem_filter]
    refine ⟨?_, rfl⟩
    rw [hk2, hk, List.mem_append, List.mem_append]
    left; left
    show _ ∈ t1.outgoing.retransmit
    rw [h1, List.mem_map]
    exact ⟨tr, htr, rfl⟩

/-! ## a new cumulative ACK advances SND.UNA and removes exactly the covered segments -/

theorem seqCheck_pass {t : Tcb} {seg : Hdr} {tl : Seq} (hns : t.state ≠ .SynSent)
    (h : t.isSeqOk tl seg.seq seg.ctl.syn seg.ctl.fin = .ok true) : seqCheck t seg tl = .ok (t, none) := by
  unfold seqCheck
  split
  · rename_i hs; exact absurd hs hns
  · rw [h]

theorem modGt_self (a : Seq) : modGt a a = false := by
  unfold modGt modLt
  simp

/-- `process_segment` on a pure ACK at `RCV.NXT` that acknowledges something new and nothing unsent -/
theorem processSegment_ack {t : Tcb} {g : Segment}
    (hst : t.state = .Established) (hw : t.rcv.wnd = 65535#16)
    (htext : g.text = []) (hrst : g.hdr.ctl.rst = false) (hsyn : g.hdr.ctl.syn = false)
    (hfin : g.hdr.ctl.fin = false) (hack : g.hdr.ctl.ack = true) (hseq : g.hdr.seq = t.rcv.nxt)
    (hnew : modLeq g.hdr.ack t.snd.una = false)
    (hok : modBounded t.snd.una .Lt g.hdr.ack .Leq t.snd.nxt = true) :
    ∃ t', t.processSegment g = .ok (t', .Success) ∧ t'.snd.una = g.hdr.ack ∧
      t'.outgoing.retransmit = t.outgoing.retransmit.filter
        (fun tr => modLt g.hdr.ack (tr.segment.hdr.seq + BitVec.ofNat 32 tr.segment.segLen)) ∧
      t'.snd.nxt = t.snd.nxt ∧ t'.snd.iss = t.snd.iss ∧ t'.rcv = t.rcv ∧ t'.incoming = t.incoming ∧
      t'.state = .Established ∧ t'.outgoing.text = t.outgoing.text ∧ t'.outgoing.oneshot = t.outgoing.oneshot := by
  have h16 : (65535#16 : BitVec 16).toNat = 65535 := rfl
  have hw0 : ¬ t.rcv.wnd = 0 := by rw [hw]; decide
  have hin : t.isInRcvWindow t.rcv.nxt = true := by
    rw [isInRcvWindow_iff, hw, h16]
    left
    have : t.rcv.nxt - t.rcv.nxt = 0 := by bv_omega
    rw [this]; decide
  have hseqok : t.isSeqOk (BitVec.ofNat 32 g.text.length) g.hdr.seq g.hdr.ctl.syn g.hdr.ctl.fin = .ok true := by
    unfold isSeqOk
    rw [htext, hsyn, hfin, hseq]
    simp only [List.length_nil, BitVec.toNat_ofNat, Nat.zero_mod, Bool.toNat_false, Nat.add_zero]
    rw [if_neg (by omega), if_pos trivial, if_neg hw0, hin]
  have e1 := seqCheck_pass (seg := g.hdr) (tl := BitVec.ofNat 32 g.text.length) (by rw [hst]; simp) hseqok
  -- the TCB after the ACK has been processed
  obtain ⟨t3, e3, p3⟩ : ∃ t3, ackBlock t g.hdr = .ok (t3, none) ∧
      (t3.snd.una = g.hdr.ack ∧
      t3.outgoing.retransmit = t.outgoing.retransmit.filter
        (fun tr => modLt g.hdr.ack (tr.segment.hdr.seq + BitVec.ofNat 32 tr.segment.segLen)) ∧
      t3.snd.nxt = t.snd.nxt ∧ t3.snd.iss = t.snd.iss ∧ t3.rcv = t.rcv ∧ t3.incoming = t.incoming ∧
      t3.state = .Established ∧ t3.outgoing.text = t.outgoing.text ∧ t3.outgoing.oneshot = t.outgoing.oneshot) := by
    unfold ackBlock
    rw [if_neg (by simp [hack])]
    split
    all_goals first
      | (rename_i hs; rw [hst] at hs; cases hs; done)
      | skip
    unfold afterAckEstablished ackEstablishedProcessing
    rw [if_neg (by rw [hnew]; simp), if_neg (by rw [hok]; simp)]
    dsimp only
    rw [if_pos rfl]
    refine ⟨_, rfl, ?_⟩
    unfold removeAckedFromRetransmission
    split <;> exact ⟨rfl, rfl, rfl, rfl, rfl, rfl, hst, rfl, rfl⟩
  obtain ⟨u3, r3, n3, i3, rc3, in3, st3, ot3, os3⟩ := p3
  have e4 : rstBlock t3 g.hdr = .ok (t3, none) := by
    unfold rstBlock
    rw [if_pos (by simp [hrst])]
  have e5 : synBlock t3 g.hdr = .ok (t3, none) := by
    unfold synBlock
    rw [if_pos (by simp [hsyn]), if_neg (by rw [st3]; simp)]
  have e6 : textBlock t3 g.hdr g.text (BitVec.ofNat 32 g.text.length) = .ok (t3, none) := by
    unfold textBlock
    rw [if_pos (by rw [htext]; rfl)]
  have e7 : finBlock t3 g.hdr (BitVec.ofNat 32 g.text.length) = .ok (t3, none) := by
    unfold finBlock
    rw [if_pos (by simp [hfin])]
  unfold processSegment
  dsimp only
  rw [e1, andThen_none, e3, andThen_none, e4, andThen_none, e5, andThen_none, e6, andThen_none, e7]
  exact ⟨t3, rfl, u3, r3, n3, i3, rc3, in3, st3, ot3, os3⟩

/-- **acknowledgment progress**: at an ESTABLISHED endpoint with an empty reorder heap, a pure ACK
    at `RCV.NXT` that acknowledges something new and nothing unsent (`SND.UNA < SEG.ACK ≤ SND.NXT`)
    sets `SND.UNA = SEG.ACK` and removes from the retransmission queue exactly the segments that end
    at or before `SEG.ACK`; the receive side, the unsent text and `SND.NXT` are untouched -/
theorem segmentArrives_ack {t : Tcb} {g : Segment}
    (hst : t.state = .Established) (hw : t.rcv.wnd = 65535#16) (hheap : t.incoming.segments = [])
    (htext : g.text = []) (hrst : g.hdr.ctl.rst = false) (hsyn : g.hdr.ctl.syn = false)
    (hfin : g.hdr.ctl.fin = false) (hack : g.hdr.ctl.ack = true) (hseq : g.hdr.seq = t.rcv.nxt)
    (hnew : modLeq g.hdr.ack t.snd.una = false)
    (hok : modBounded t.snd.una .Lt g.hdr.ack .Leq t.snd.nxt = true) :
    ∃ t', t.segmentArrives g = .ok (t', .Ok) ∧ t'.snd.una = g.hdr.ack ∧
      t'.outgoing.retransmit = t.outgoing.retransmit.filter
        (fun tr => modLt g.hdr.ack (tr.segment.hdr.seq + BitVec.ofNat 32 tr.segment.segLen)) ∧
      t'.snd.nxt = t.snd.nxt ∧ t'.snd.iss = t.snd.iss ∧ t'.rcv = t.rcv ∧ t'.incoming = t.incoming ∧
      t'.state = .Established ∧ t'.outgoing.text = t.outgoing.text ∧ t'.outgoing.oneshot = t.outgoing.oneshot := by
  have h16 : (65535#16 : BitVec 16).toNat = 65535 := rfl
  have hw0 : ¬ t.rcv.wnd = 0 := by rw [hw]; decide
  have hin : t.isInRcvWindow t.rcv.nxt = true := by
    rw [isInRcvWindow_iff, hw, h16]
    left
    have : t.rcv.nxt - t.rcv.nxt = 0 := by bv_omega
    rw [this]; decide
  have hseqok : t.isSeqOk (BitVec.ofNat 32 g.text.length) g.hdr.seq g.hdr.ctl.syn g.hdr.ctl.fin = .ok true := by
    unfold isSeqOk
    rw [htext, hsyn, hfin, hseq]
    simp only [List.length_nil, BitVec.toNat_ofNat, Nat.zero_mod, Bool.toNat_false, Nat.add_zero]
    rw [if_neg (by omega), if_pos trivial, if_neg hw0, hin]
  obtain ⟨t3, e3, u3, r3, n3, i3, rc3, in3, st3, ot3, os3⟩ :=
    processSegment_ack (t := { t with incoming.segments := [] }) (g := g) hst hw htext hrst hsyn hfin hack hseq hnew hok
  have hinc : ({ t with incoming.segments := [] } : Tcb).incoming = t.incoming := by
    show ({ segments := [], text := t.incoming.text } : Incoming) = t.incoming
    rw [← hheap]
  unfold segmentArrives
  dsimp only
  rw [if_neg (by rw [hst]; simp), hseqok]
  dsimp only
  rw [hheap, push_nil]
  have h2 : [g].length + 1 = 2 := rfl
  rw [h2]
  unfold drain
  dsimp only
  rw [peek_single]
  dsimp only
  rw [hseq, modGt_self, pop_single]
  simp only [Bool.and_false, Bool.false_eq_true, if_false]
  have hproc : processSegment
      { t with incoming := { segments := [], text := ({ t with incoming.segments := [g] } : Tcb).incoming.text } } g =
      .ok (t3, .Success) := e3
  rw [hproc]
  dsimp only [ProcessSegmentResult.shouldDeleteTcb]
  simp only [Bool.false_eq_true, if_false]
  unfold drain
  have hs3 : t3.incoming.segments = [] := by rw [in3]
  rw [hs3]
  exact ⟨t3, rfl, u3, r3, n3, i3, rc3, in3.trans hinc, st3, ot3, os3⟩

end Elvis.Tcp.C01
