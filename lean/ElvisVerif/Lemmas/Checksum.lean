import ElvisVerif.Model.Checksum
import ElvisVerif.Spec.Rfc1071
/-!
Helper lemmas for C18: algebra of the end-around-carry addition and the invariant `Tracks`
linking a `Checksum` accumulator to the plain sum of the words added so far.
-/
namespace Elvis.Ck
open Elvis.Rfc1071

theorem addU16_lt (a b : Nat) (ha : a < 65536) (hb : b < 65536) : addU16 a b < 65536 := by
  unfold addU16; simp only; split <;> omega

theorem addU16_comm (a b : Nat) : addU16 a b = addU16 b a := by
  unfold addU16; simp only [Nat.add_comm]

theorem addU16_assoc (a b c : Nat) (ha : a < 65536) (hb : b < 65536) (hc : c < 65536) :
    addU16 (addU16 a b) c = addU16 a (addU16 b c) := by
  unfold addU16; simp only; split <;> split <;> split <;> split <;> omega

theorem addU16_mod (a b : Nat) (_ha : a < 65536) (_hb : b < 65536) :
    addU16 a b % 65535 = (a + b) % 65535 := by
  unfold addU16; simp only; split <;> omega

theorem addU16_eq_zero (a b : Nat) (h : addU16 a b = 0) : a = 0 ∧ b = 0 := by
  unfold addU16 at h; simp only at h; split at h <;> omega

theorem addU16_zero (a : Nat) (ha : a < 65536) : addU16 a 0 = a := by
  unfold addU16; simp only; split <;> omega

/-- `acc` is the 16-bit accumulator after adding words whose plain sum is `s` -/
def Tracks (acc s : Nat) : Prop := acc < 65536 ∧ acc % 65535 = s % 65535 ∧ (acc = 0 ↔ s = 0)

theorem Tracks.zero : Tracks 0 0 := ⟨by omega, rfl, Iff.rfl⟩

theorem Tracks.of_lt {a : Nat} (ha : a < 65536) : Tracks a a := ⟨ha, rfl, Iff.rfl⟩

theorem Tracks.add {acc s v : Nat} (h : Tracks acc s) (hv : v < 65536) :
    Tracks (addU16 acc v) (s + v) := by
  obtain ⟨h1, h2, h3⟩ := h
  unfold addU16; simp only
  refine ⟨?_, ?_, ?_⟩
  · split <;> omega
  · split <;> omega
  · split <;> omega

/-- the accumulator is a function of the plain sum: the one's-complement sum of RFC 1071 -/
theorem Tracks.eq {acc s : Nat} (h : Tracks acc s) : acc = onesSumOfTotal s := by
  obtain ⟨h1, h2, h3⟩ := h
  unfold onesSumOfTotal
  split
  · omega
  · split <;> omega

theorem Tracks.congr {acc s t : Nat} (h : Tracks acc s) (e : s = t) : Tracks acc t := e ▸ h

theorem Tracks.lt {acc s : Nat} (h : Tracks acc s) : acc < 65536 := h.1

theorem Tracks.add16 {acc s v : Nat} (h : Tracks acc s) (hv : v < 65536) :
    Tracks (add16 true acc v) (s + v) := by
  simpa [Ck.add16] using h.add hv

theorem Tracks.addU8 {acc s a b : Nat} (h : Tracks acc s) (ha : a < 256) (hb : b < 256) :
    Tracks (addU8 true acc a b) (s + (a * 256 + b)) := by
  unfold Ck.addU8; exact h.add16 (by omega)

/-- a 32-bit value contributes its two 16-bit halves -/
theorem Tracks.addWord32 {acc s v : Nat} (h : Tracks acc s) :
    Tracks (addWord32 true acc v) (s + (v / 65536 % 65536 + v % 65536)) := by
  unfold Ck.addWord32 Ck.addU32
  have h1 := h.addU8 (a := v / 16777216 % 256) (b := v / 65536 % 256) (by omega) (by omega)
  have h2 := h1.addU8 (a := v / 256 % 256) (b := v % 256) (by omega) (by omega)
  refine h2.congr ?_
  omega

theorem fold_tracks {a s : Nat} (ws : List Nat) (h : Tracks a s) (hw : ∀ w ∈ ws, w < 65536) :
    Tracks (ws.foldl addU16 a) (s + ws.sum) := by
  induction ws generalizing a s with
  | nil => simpa using h
  | cons w ws ih =>
    have hw0 : w < 65536 := hw w (by simp)
    have := ih (h.add hw0) (fun x hx => hw x (by simp [hx]))
    simp only [List.foldl_cons, List.sum_cons]
    exact this.congr (by omega)

theorem wordsOf_lt (bs : List UInt8) : ∀ w ∈ wordsOf bs, w < 65536 := by
  induction bs using wordsOf.induct with
  | case1 a b rest ih =>
    intro w hw
    simp only [wordsOf, List.mem_cons] at hw
    rcases hw with rfl | hw
    · have := a.toNat_lt; have := b.toNat_lt; omega
    · exact ih w hw
  | case2 a =>
    intro w hw
    simp only [wordsOf, List.mem_cons, List.not_mem_nil, or_false] at hw
    subst hw; have := a.toNat_lt; omega
  | case3 => intro w hw; simp [wordsOf] at hw

/-- `accumulate_remainder` adds exactly the big-endian words of the byte string (odd byte
    padded with zero) -/
theorem accumulateRemainder_tracks {acc s : Nat} (bs : List UInt8) (h : Tracks acc s) :
    Tracks (accumulateRemainder true acc bs) (s + (wordsOf bs).sum) := by
  induction bs using wordsOf.induct generalizing acc s with
  | case1 a b rest ih =>
    have := ih (h.addU8 a.toNat_lt b.toNat_lt)
    simp only [accumulateRemainder, wordsOf, List.sum_cons]
    exact this.congr (by omega)
  | case2 a =>
    have := h.addU8 (b := 0) a.toNat_lt (by omega)
    simp only [accumulateRemainder, wordsOf, List.sum_cons, List.sum_nil]
    exact this.congr (by omega)
  | case3 => simpa [accumulateRemainder, wordsOf] using h

theorem accumulateRemainder_off (acc : Nat) (bs : List UInt8) :
    accumulateRemainder false acc bs = acc := by
  induction bs using wordsOf.induct generalizing acc with
  | case1 a b rest ih => simp [accumulateRemainder, Ck.addU8, Ck.add16, ih]
  | case2 a => simp [accumulateRemainder, Ck.addU8, Ck.add16]
  | case3 => simp [accumulateRemainder]

theorem wordsOf_append_even (xs ys : List UInt8) (h : xs.length % 2 = 0) :
    wordsOf (xs ++ ys) = wordsOf xs ++ wordsOf ys := by
  induction xs using wordsOf.induct with
  | case1 a b rest ih =>
    simp only [List.length_cons] at h
    simp [wordsOf, ih (by omega)]
  | case2 a => simp at h
  | case3 => simp [wordsOf]

/-- emitted checksum verifies: accumulator plus its `as_u16` is all ones -/
theorem addU16_asU16 (s : Nat) (hs : s < 65536) : addU16 s (asU16 true s) = 65535 := by
  unfold addU16 asU16; simp only [if_true]; split <;> split <;> omega

theorem asU16_lt (ck : Bool) (s : Nat) : asU16 ck s < 65536 := by
  unfold asU16; split
  · split <;> omega
  · omega

/-- a changed sum (mod 65535) changes the checksum -/
theorem asU16_detects (s t : Nat) (hs : s < 65536) (ht : t < 65536)
    (h : s % 65535 ≠ t % 65535) : asU16 true s ≠ asU16 true t := by
  unfold asU16; simp only [if_true]; split <;> split <;> omega

/-- what `matchesField` accepts, in terms of the plain sums: the field plus the accumulated sum
    is a non-zero multiple of 65535 -/
theorem matchesField_iff {acc s e : Nat} (h : Tracks acc s) (he : e < 65536) :
    matchesField true acc e = true ↔ ((s + e) % 65535 = 0 ∧ (s = 0 → e = 65535)) := by
  obtain ⟨h1, h2, h3⟩ := h
  unfold matchesField asU16
  simp only [if_true, Bool.or_eq_true, beq_iff_eq, Bool.and_eq_true, Bool.true_and]
  constructor
  · rintro (h | ⟨h, h'⟩)
    · split at h <;> omega
    · omega
  · intro ⟨hm, hz⟩
    by_cases ha : acc = 65535
    · subst ha
      have : e = 0 ∨ e = 65535 := by omega
      rcases this with rfl | rfl <;> simp
    · left
      simp only [ha, if_false]
      by_cases hs : s = 0
      · have := hz hs; omega
      · omega

end Elvis.Ck
