import ElvisVerif.Model.TcpSys
/-!
# The shift map of C12: moving a connection to other initial sequence numbers

`ka` is added to everything that lives in the LOCAL sequence space of an endpoint (SND.UNA,
SND.NXT, ISS, SND.WL2, the SEQ of what it emits or has queued for emission, the ACK of what it
receives), `kb` to everything that lives in the REMOTE space (RCV.NXT, IRS, SND.WL1, the SEQ of
what it receives or has parked, the ACK of what it emits).  All additions are `BitVec 32`
additions, i.e. modulo 2^32: the shifted connection may wrap where the original does not and
vice versa.

Two kinds of fields of the real TCB hold ABSOLUTE numbers at times, and the map says so explicitly
(these are the places where `tcb.rs` is not shift-invariant by construction, see notes/C12.md):

* a header's ACK field is meaningful only when the ACK bit is set; otherwise the builder leaves
  the constant 0 in it (`Hdr.shift` moves it only under the ACK bit);
* `RCV.NXT`, `IRS`, `SND.WL1`, `SND.WL2` are the constant 0 until the peer's SYN arrives, i.e. in
  SYN-SENT (`Tcb.shift` leaves them alone in that state).  Since the repair of F-C12-2 the SYN
  sets `SND.WL2` to its ACK field only under the ACK bit and to `ISS` otherwise, so from
  SYN-RECEIVED on `SND.WL2` lives in the local space in every state.

No imports outside the model: the definitions are executable (used by `decide` witnesses).
-/
namespace Elvis.Tcp

/-- a header travelling in a direction whose SEQ space moves by `kseq` and whose ACK space
    moves by `kack` -/
def Hdr.shift (kseq kack : Seq) (h : Hdr) : Hdr :=
  { h with seq := h.seq + kseq, ack := if h.ctl.ack then h.ack + kack else h.ack }

def Segment.shift (kseq kack : Seq) (s : Segment) : Segment :=
  { s with hdr := s.hdr.shift kseq kack }

def Transmit.shift (kseq kack : Seq) (t : Transmit) : Transmit :=
  { t with segment := t.segment.shift kseq kack }

/-- `SND.*` of an endpoint whose own space moves by `ka`, the peer's by `kb` -/
def Snd.shift (ka kb : Seq) (st : State) (x : Snd) : Snd :=
  { x with una := x.una + ka, nxt := x.nxt + ka, iss := x.iss + ka,
           wl1 := match st with
                  | .SynSent => x.wl1
                  | _ => x.wl1 + kb,
           wl2 := match st with
                  | .SynSent => x.wl2
                  | _ => x.wl2 + ka }

/-- `RCV.*`: unset (absolute 0) in SYN-SENT -/
def Rcv.shift (kb : Seq) (st : State) (x : Rcv) : Rcv :=
  match st with
  | .SynSent => x
  | _ => { x with irs := x.irs + kb, nxt := x.nxt + kb }

/-- the TCB of the same connection with the local ISN moved by `ka` and the peer's by `kb` -/
def Tcb.shift (ka kb : Seq) (s : Tcb) : Tcb :=
  { s with
    snd := s.snd.shift ka kb s.state,
    rcv := s.rcv.shift kb s.state,
    outgoing := { s.outgoing with retransmit := s.outgoing.retransmit.map (Transmit.shift ka kb),
                                  oneshot := s.outgoing.oneshot.map (Hdr.shift ka kb) },
    incoming := { s.incoming with segments := s.incoming.segments.map (Segment.shift kb ka) } }

/-- results: a new TCB and an output that carries no sequence numbers -/
def M.shift {α : Type} (ka kb : Seq) (x : M α) : M α :=
  match x with
  | .error e => .error e
  | .ok (s, a) => .ok (s.shift ka kb, a)

/-- `segments()`: the emitted segments move with the local space -/
def M.shiftOut (ka kb : Seq) (x : M (List Segment)) : M (List Segment) :=
  match x with
  | .error e => .error e
  | .ok (s, segs) => .ok (s.shift ka kb, segs.map (Segment.shift ka kb))

def shiftE (ka kb : Seq) (x : Except String Tcb) : Except String Tcb :=
  match x with
  | .error e => .error e
  | .ok s => .ok (s.shift ka kb)

/-- `ConnectionReset` and `BlindReset` are the same thing to every caller of `process_segment`
    (both delete the TCB, `should_delete_tcb`); in SYN-SENT the code tells them apart by comparing
    `SEG.SEQ` with the still unset `RCV.NXT = 0`, which is not meaningful -/
def psNorm : ProcessSegmentResult → ProcessSegmentResult
  | .BlindReset => .ConnectionReset
  | r => r

/-! ## the two-endpoint system -/

/-- shift of side `x`'s own space (`ka` for A, `kb` for B) -/
def SideId.own (x : SideId) (ka kb : Seq) : Seq :=
  match x with
  | .A => ka
  | .B => kb

/-- a segment in the history was emitted by the side whose port is its source port -/
def Segment.shiftHist (ka kb : Seq) (s : Segment) : Segment :=
  if s.hdr.srcPort = SideId.A.port then s.shift ka kb else s.shift kb ka

def Side.shift (x : SideId) (ka kb : Seq) (sd : Side) : Side :=
  { sd with tcb := sd.tcb.map (Tcb.shift (x.own ka kb) (x.peer.own ka kb)),
            listen := sd.listen.map fun p => (p.1 + x.own ka kb, p.2) }

def Sys.shift (ka kb : Seq) (s : Sys) : Sys :=
  { s with a := s.a.shift .A ka kb, b := s.b.shift .B ka kb,
           history := s.history.map (Segment.shiftHist ka kb) }

/-- the same op in the shifted world: ISNs move; a forged segment addressed to `x` moves like a
    segment of `x`'s peer -/
def Op.shift (ka kb : Seq) : Op → Op
  | .open x iss mtu => .open x (iss + x.own ka kb) mtu
  | .listen x iss mtu => .listen x (iss + x.own ka kb) mtu
  | .inject x seg => .inject x (seg.shift (x.peer.own ka kb) (x.own ka kb))
  | op => op

def Res.shift (x : SideId) (ka kb : Seq) : Res → Res
  | .emitted first segs => .emitted first (segs.map (Segment.shift (x.own ka kb) (x.peer.own ka kb)))
  | .response i h => .response i (h.shift (x.own ka kb) (x.peer.own ka kb))
  | r => r

end Elvis.Tcp
