import ElvisVerif.Model.Codec.Udp
import ElvisVerif.Lemmas.Ipv4
/-!
Helper lemmas for the UDP codec (C08, C14a, C18): inversion of an accepting `from_bytes_ipv4`,
and the accumulators of decoder and builder tracked against the plain sum of words.
-/
namespace Elvis.Codec.Udp
open Elvis.Ck Elvis.Codec Elvis.Rfc1071

/-- accumulator of `from_bytes_ipv4` in code order: ports, length twice, pseudo-header
    addresses and protocol, then the rest of the packet -/
def accDec (ck : Bool) (sp dp len src dst : Nat) (rest : List UInt8) : Nat :=
  accumulateRemainder ck (addU8 ck (addWord32 ck (addWord32 ck (add16 ck (add16 ck (add16 ck
    (add16 ck 0 sp) dp) len) len) src) dst) 0 17) rest

/-- accumulator of `build_udp_header` in code order: text first, then length twice, pseudo
    header, ports -/
def accBuild (ck : Bool) (src sp dst dp len : Nat) (text : List UInt8) : Nat :=
  add16 ck (add16 ck (addU8 ck (addWord32 ck (addWord32 ck (add16 ck (add16 ck
    (accumulateRemainder ck 0 text) len) len) src) dst) 0 17) sp) dp

/-- plain sum of all 16-bit words covered by the UDP checksum except the checksum field -/
def coveredSum (src sp dst dp len : Nat) (text : List UInt8) : Nat :=
  (src / 65536 % 65536 + src % 65536) + (dst / 65536 % 65536 + dst % 65536) + 17 + len
    + sp + dp + len + (wordsOf text).sum

theorem accDec_tracks {sp dp len : Nat} (src dst : Nat) (rest : List UInt8)
    (h1 : sp < 65536) (h2 : dp < 65536) (h3 : len < 65536) :
    Tracks (accDec true sp dp len src dst rest) (coveredSum src sp dst dp len rest) := by
  unfold accDec coveredSum
  have t := ((((Tracks.zero.add16 h1).add16 h2).add16 h3).add16 h3)
  have t := accumulateRemainder_tracks rest
    (((t.addWord32 (v := src)).addWord32 (v := dst)).addU8 (a := 0) (b := 17) (by omega) (by omega))
  exact t.congr (by omega)

theorem accBuild_tracks {sp dp len : Nat} (src dst : Nat) (text : List UInt8)
    (h1 : sp < 65536) (h2 : dp < 65536) (h3 : len < 65536) :
    Tracks (accBuild true src sp dst dp len text) (coveredSum src sp dst dp len text) := by
  unfold accBuild coveredSum
  have t := accumulateRemainder_tracks text Tracks.zero
  have t := ((t.add16 h3).add16 h3)
  have t := ((((t.addWord32 (v := src)).addWord32 (v := dst)).addU8 (a := 0) (b := 17)
    (by omega) (by omega)).add16 h1).add16 h2
  exact t.congr (by omega)

theorem acc_off (sp dp len src dst : Nat) (bs : List UInt8) :
    accDec false sp dp len src dst bs = 0 ∧ accBuild false src sp dst dp len bs = 0 := by
  simp [accDec, accBuild, Ck.add16, Ck.addU8, Ck.addWord32, Ck.addU32, accumulateRemainder_off]

/-- decoder and builder add the same words in different orders: same accumulator -/
theorem accDec_eq_accBuild (ck : Bool) {sp dp len : Nat} (src dst : Nat) (text : List UInt8)
    (h1 : sp < 65536) (h2 : dp < 65536) (h3 : len < 65536) :
    accDec ck sp dp len src dst text = accBuild ck src sp dst dp len text := by
  cases ck
  · rw [(acc_off ..).1, (acc_off ..).2]
  · rw [(accDec_tracks src dst text h1 h2 h3).eq, (accBuild_tracks src dst text h1 h2 h3).eq]

/-- `from_bytes_ipv4` returns a header only for at least 8 bytes whose length field equals
    `packet_len` and whose checksum field matches; the header is this function of the bytes -/
theorem fromBytes_ok_inv {ck : Bool} {bs : List UInt8} {plen src dst : Nat} {hd : Header}
    (h : fromBytes ck bs plen src dst = .ok hd) :
    ∃ b0 b1 b2 b3 b4 b5 b6 b7 rest,
      bs = b0 :: b1 :: b2 :: b3 :: b4 :: b5 :: b6 :: b7 :: rest ∧ plen = W b4 b5 ∧
      matchesField ck (accDec ck (W b0 b1) (W b2 b3) (W b4 b5) src dst rest) (W b6 b7) = true ∧
      hd = { source := W b0 b1, destination := W b2 b3, length := W b4 b5, checksum := W b6 b7 } := by
  rcases bs with _ | ⟨b0, _ | ⟨b1, _ | ⟨b2, _ | ⟨b3, _ | ⟨b4, _ | ⟨b5, _ | ⟨b6, _ | ⟨b7, rest⟩⟩⟩⟩⟩⟩⟩⟩
  all_goals (simp only [fromBytes, hts, nextU16] at h)
  all_goals (try (simp at h; done))
  all_goals (repeat' (split at h <;> try (simp at h; done)))
  refine ⟨b0, b1, b2, b3, b4, b5, b6, b7, rest, rfl, ?_⟩
  rename_i c1 c2
  simp only [Except.ok.injEq] at h
  simp only [W, accDec]
  refine ⟨by omega, by simpa using c2, h.symm⟩

/-- `from_bytes_ipv4` on at least 8 bytes, in closed form -/
theorem fromBytes_cons8 (ck : Bool) (b0 b1 b2 b3 b4 b5 b6 b7 : UInt8) (rest : List UInt8)
    (plen src dst : Nat) :
    fromBytes ck (b0 :: b1 :: b2 :: b3 :: b4 :: b5 :: b6 :: b7 :: rest) plen src dst =
      if plen ≠ W b4 b5 then .error (.err .lengthMismatch)
      else if ¬ matchesField ck (accDec ck (W b0 b1) (W b2 b3) (W b4 b5) src dst rest) (W b6 b7) then
        .error (.err (.checksum (asU16 ck (accDec ck (W b0 b1) (W b2 b3) (W b4 b5) src dst rest)) (W b6 b7)))
      else .ok { source := W b0 b1, destination := W b2 b3, length := W b4 b5, checksum := W b6 b7 } := by
  simp only [fromBytes, nextU16]
  rfl

end Elvis.Codec.Udp
