#!/usr/bin/env python3
"""Source -> Lean extraction (run on every check).

Reads /repo's *current* Rust sources and (re)writes lean/ElvisVerif/Generated/*.lean:
numeric constants, the one-expression arithmetic kernels, and structural certificates.
Fails closed: anything it cannot translate is an error (reported by ./check as a broken tie).
Files are rewritten only when their content changes, so Lean's build cache stays valid.
"""
import os, re, sys

REPO = os.environ.get("ELVIS_REPO") or os.path.normpath(os.path.join(os.path.dirname(os.path.abspath(__file__)), "..", "..", "repo"))
CORE = os.path.join(REPO, "sim", "elvis-core", "src")
ELVIS = os.path.join(REPO, "sim", "elvis", "src")
OUT = os.path.join(os.path.dirname(os.path.abspath(__file__)), "..", "lean", "ElvisVerif", "Generated")


class ExtractError(Exception):
    pass


def read(path):
    with open(path) as f:
        return f.read()


def strip_comments(src):
    src = re.sub(r"/\*.*?\*/", "", src, flags=re.S)
    return re.sub(r"//[^\n]*", "", src)


def write_if_changed(name, text):
    p = os.path.join(OUT, name)
    os.makedirs(OUT, exist_ok=True)
    if os.path.exists(p) and read(p) == text:
        return
    with open(p, "w") as f:
        f.write(text)


def check_message_immutability():
    """C07 structural certificate: message/ holds no unsafe code, no in-place mutation of shared
    chunk storage and no interior mutability."""
    bad = []
    files = [os.path.join(CORE, "message.rs")] + [os.path.join(CORE, "message", f) for f in sorted(os.listdir(os.path.join(CORE, "message")))]
    for p in files:
        src = strip_comments(read(p)).split("#[cfg(test)]")[0]
        for tok in ("unsafe", "get_mut(", "make_mut(", "RefCell", "Cell<", "Mutex", "RwLock", "Atomic", "as_mut_ptr", "get_mut_unchecked"):
            if tok in src:
                bad.append(f"{os.path.relpath(p, REPO)}: `{tok}`")
    if bad:
        raise ExtractError("message/ is no longer evidently immutable-by-construction: " + "; ".join(bad))


def fn_body(src, start):
    """text of the brace-balanced block that starts at the first '{' at or after `start`"""
    j = src.index("{", start)
    d = 0
    for k in range(j, len(src)):
        if src[k] == "{":
            d += 1
        elif src[k] == "}":
            d -= 1
            if d == 0:
                return src[j:k + 1]
    raise ExtractError("unbalanced braces")


SEND_LIKE = ["send(", "send_pci(", ".open(", "open_and_listen(", "open_for_sending(", "connect(", "spawn(", "send_message(", "send_to(", "resolve("]


def gen_sim_cert():
    """C13: per `Protocol::start` implementation: number of barrier waits and whether a
    frame-producing call precedes the wait; barrier sizing; shutdown channel capacity; outer
    timeout slack."""
    import glob
    rows = []
    files = sorted(glob.glob(os.path.join(CORE, "**", "*.rs"), recursive=True) + glob.glob(os.path.join(ELVIS, "**", "*.rs"), recursive=True))
    for p in files:
        src = strip_comments(read(p))
        if "impl Protocol for" not in src:
            continue
        for m in re.finditer(r"impl\s+Protocol\s+for\s+([A-Za-z0-9_<>:, ]+?)\s*\{", src):
            impl = fn_body(src, m.end() - 1)
            sm = re.search(r"async\s+fn\s+start\s*\(", impl)
            if not sm:
                raise ExtractError(f"{p}: impl Protocol for {m.group(1)} has no async fn start")
            sig_end = impl.index(")", sm.end())
            # skip to the body: first '{' after the return type
            body = fn_body(impl, impl.index("StartError", sig_end))
            waits = len(re.findall(r"\.wait\(\)\s*\.await", body))
            pre = re.split(r"\.wait\(\)\s*\.await", body)[0] if waits else body
            send_before = any(t in pre for t in SEND_LIKE)
            name = os.path.relpath(p, os.path.join(REPO, "sim")) + "::" + re.sub(r"\s+", "", m.group(1))
            rows.append((name, waits, send_before))
    if len(rows) < 10:
        raise ExtractError("found suspiciously few Protocol implementations: %d" % len(rows))
    inet = re.sub(r"\s+", " ", strip_comments(read(os.path.join(CORE, "internet.rs"))))
    mach = re.sub(r"\s+", " ", strip_comments(read(os.path.join(CORE, "machine.rs"))))
    shut = re.sub(r"\s+", " ", strip_comments(read(os.path.join(CORE, "shutdown.rs"))))
    sized = bool(re.search(r"let total_protocols: usize = machines \.iter\(\) \.map\(\|machine\| machine\.protocol_count\(\)\) \.sum\(\);", inet)) \
        and "Barrier::new(total_protocols)" in inet \
        and bool(re.search(r"for machine in machines \{.*?handles\.spawn\(machine\.start\(shutdown, initialized\)\);", inet))
    per_proto = bool(re.search(r"for protocol in self\.iter\(\) \{.*?\.start\(shutdown_clone, initialized_clone, self_clone\).*?handles\.spawn\(fut\);", mach)) \
        and bool(re.search(r"pub fn protocol_count\(&self\) -> usize \{ self\.protocols\.len\(\) \}", mach)) \
        and bool(re.search(r"pub fn iter\(&self\).*?\{ self\.protocols\.values\(\)", mach))
    mcap = re.search(r"broadcast::channel\((\d+)\)", shut)
    if not mcap:
        raise ExtractError("shutdown.rs: broadcast::channel(<literal>) not found")
    mslack = re.search(r"tokio::time::timeout\(duration \+ Duration::from_secs\((\d+)\), future\)", inet)
    if not mslack:
        raise ExtractError("internet.rs: outer timeout(duration + Duration::from_secs(<literal>)) not found")
    receiver_first = inet.find("shutdown.clone().receiver()") != -1 and inet.find("shutdown.clone().receiver()") < inet.find("handles.spawn(machine.start")
    cell = ("let _ = self.first.set(ExitStatus::Exited);" in shut and "let _ = self.first.set(status.clone());" in shut
            and inet.count("first_status.get().cloned().unwrap_or(result)") >= 2
            and inet.find("let first_status = shutdown.first_status();") != -1
            and inet.find("let first_status = shutdown.first_status();") < inet.find("handles.spawn(machine.start"))
    lines = ["-- GENERATED from /repo sources by tools/extract.py on every check; do not edit",
             "namespace Elvis.Gen",
             "structure StartCert where", "  name : String", "  waits : Nat", "  sendBeforeWait : Bool", "deriving Repr, DecidableEq", "",
             "/-- one row per `impl Protocol for T`: barrier waits in `start`, frame-producing call before the wait -/",
             "def startRoutines : List StartCert := ["]
    lines.append(",\n".join(f'  ⟨"{n}", {w}, {"true" if sb else "false"}⟩' for n, w, sb in rows))
    lines += ["]", "",
              f"def barrierSizedByProtocolCount : Bool := {'true' if sized else 'false'}",
              f"def machineSpawnsStartPerProtocol : Bool := {'true' if per_proto else 'false'}",
              f"def shutdownReceiverCreatedBeforeStart : Bool := {'true' if receiver_first else 'false'}",
              "/-- run_internet returns the set-once first-request status when one exists -/",
              f"def firstStatusCellUsed : Bool := {'true' if cell else 'false'}",
              f"def shutdownChannelCapacity : Nat := {mcap.group(1)}",
              f"def outerTimeoutSlackMs : Nat := {int(mslack.group(1)) * 1000}",
              "end Elvis.Gen", ""]
    write_if_changed("SimCert.lean", "\n".join(lines))


def gen_socket_cert():
    """C02: disciplines and capacities of the socket layer (socket.rs, socket_api.rs,
    socket_session.rs, tcp/tcp_session.rs, udp/udp_parsing.rs). Fails closed: every item must match
    one of the shapes named here."""
    P = os.path.join(CORE, "protocols")
    sock = strip_comments(read(os.path.join(P, "socket_api", "socket.rs")))
    api = strip_comments(read(os.path.join(P, "socket_api.rs")))
    sess = strip_comments(read(os.path.join(P, "socket_api", "socket_session.rs")))
    tcps = strip_comments(read(os.path.join(P, "tcp", "tcp_session.rs")))
    udpp = strip_comments(read(os.path.join(P, "udp", "udp_parsing.rs")))
    flat = lambda t: re.sub(r"\s+", " ", t)

    def body_of(src, pat, what):
        m = re.search(pat, src)
        if not m:
            raise ExtractError(f"C02: {what} not found")
        return flat(fn_body(src, m.end() - 1))

    # --- Socket::recv: what each dequeued message is compared with
    recv = body_of(sock, r"pub\s+async\s+fn\s+recv\s*\(\s*&mut\s+self\s*,\s*bytes\s*:\s*usize\s*\)[^{]*\{", "Socket::recv")
    wm = re.search(r"while buf\.len\(\) < bytes \{", recv)
    if not wm:
        raise ExtractError("C02: Socket::recv: `while buf.len() < bytes` loop not found")
    loop = recv[wm.start():]
    head = recv[:wm.start()]
    if not ("if message.len() <= bytes {" in head and "message.iter().take(bytes)" in head and "message.slice(bytes..)" in head):
        raise ExtractError("C02: Socket::recv: the stored-remainder part changed shape")
    old = "if message.len() <= bytes {" in loop and "take(bytes)" in loop and "slice(bytes..)" in loop
    new = ("let space = bytes - buf.len();" in loop and "if message.len() <= space {" in loop and "take(space)" in loop
           and "slice(space..)" in loop and "<= bytes" not in loop and "take(bytes)" not in loop)
    if old == new:
        raise ExtractError("C02: Socket::recv: cannot classify the comparison in the receive loop")
    if not ("if buf.is_empty() && self.is_blocking {" in loop and "message_receiver.try_recv()" in loop and "break;" in loop):
        raise ExtractError("C02: Socket::recv: blocking discipline of the loop changed shape")

    # --- write hand-off: spawned task per write or synchronous
    ssend = body_of(sock, r"pub\s+fn\s+send\s*\(\s*&self\s*,[^{]*\{", "Socket::send")
    if not re.search(r"session\s*\.send\(", ssend):
        raise ExtractError("C02: Socket::send no longer calls session.send")
    socket_send_spawns = "spawn(" in ssend
    imp = re.search(r"impl\s+Session\s+for\s+TcpSession\s*\{", tcps)
    if not imp:
        raise ExtractError("C02: impl Session for TcpSession not found")
    tsend = flat(fn_body(tcps, imp.end() - 1))
    if "Instruction::Outgoing(message)" not in tsend:
        raise ExtractError("C02: TcpSession::send no longer enqueues Instruction::Outgoing")
    tcp_send_spawns = "spawn(" in tsend
    trecv = body_of(tcps, r"pub\s+fn\s+receive\s*\(\s*&self\s*,\s*segment\s*:\s*Segment\s*\)\s*\{", "TcpSession::receive")
    if "Instruction::Incoming(segment)" not in trecv:
        raise ExtractError("C02: TcpSession::receive no longer enqueues Instruction::Incoming")
    tcp_recv_spawns = "spawn(" in trecv
    ftcps = flat(tcps)
    mcap = re.search(r"let \(send, mut recv\) = channel\((\d+)\);", ftcps)
    unb = "let (send, mut recv) = unbounded_channel();" in ftcps
    if bool(mcap) == unb:
        raise ExtractError("C02: TcpSession instruction queue: neither channel(<literal>) nor unbounded_channel()")
    if not unb and not (tcp_send_spawns and tcp_recv_spawns):
        raise ExtractError("C02: bounded instruction queue with a synchronous enqueue: shape not modelled")
    fifo = ("recv.try_recv()" in ftcps and "recv.recv()" in ftcps and "Instruction::Outgoing(message) => {" in ftcps and "tcb.send(message);" in ftcps)
    if not fifo:
        raise ExtractError("C02: TcpSession task no longer drains one FIFO instruction queue into tcb.send")

    # --- socket channel capacity, try_send, accept replay
    caps = re.findall(r"mpsc::channel\((u8::MAX\.into\(\)|\d+)\)", flat(api))
    if len(caps) != 2 or caps[0] != caps[1]:
        raise ExtractError("C02: socket_api.rs: expected two identical message channel capacities, got %r" % caps)
    cap = 255 if caps[0] == "u8::MAX.into()" else int(caps[0])
    if "mpsc::channel(backlog)" not in flat(api):
        raise ExtractError("C02: listen backlog channel not found")
    rcv = body_of(sess, r"pub\s+fn\s+receive\s*\(\s*&self\s*,\s*message\s*:\s*Message\s*\)[^{]*\{", "SocketSession::receive")
    if not ("sock.is_closed()" in rcv and "sock.try_send(message)" in rcv and "self.stored_messages.write().unwrap().push_back(message);" in rcv):
        raise ExtractError("C02: SocketSession::receive changed shape")
    rsm = body_of(sess, r"pub\s+fn\s+receive_stored_messages\s*\([^)]*\)[^{]*\{", "SocketSession::receive_stored_messages")
    if not ("while !queue.is_empty()" in rsm and "sock.try_send(queue.pop_front().unwrap())" in rsm and "return Err(DemuxError::MissingSession);" in rsm):
        raise ExtractError("C02: SocketSession::receive_stored_messages changed shape")
    gss = body_of(api, r"fn\s+get_socket_session\s*\(", "SocketAPI::get_socket_session")
    acc = body_of(sock, r"pub\s+async\s+fn\s+accept\s*\(", "Socket::accept")
    if "let session_map = self.socket_sessions.write().unwrap();" not in gss or "*session.upstream.write().unwrap() = Some(sender);" not in gss:
        raise ExtractError("C02: get_socket_session no longer activates the channel under the sessions write lock")
    in_gss = "receive_stored_messages()" in gss
    in_acc = "receive_stored_messages()" in acc
    if in_gss == in_acc:
        raise ExtractError("C02: cannot classify where accept() replays the stored messages")
    if in_gss and not (gss.index("*session.upstream.write().unwrap() = Some(sender);") < gss.index("receive_stored_messages()")):
        raise ExtractError("C02: replay precedes activation in get_socket_session: shape not modelled")
    if in_acc and not (acc.index("get_socket_session(") < acc.index("receive_stored_messages()")):
        raise ExtractError("C02: accept(): replay precedes get_socket_session")
    dm = body_of(api, r"fn\s+demux\s*\(", "SocketAPI::demux")
    # demux holds the sessions READ lock while SocketSession::receive runs (so a replay under the
    # WRITE lock excludes it)
    demux_under_read = "match self.socket_sessions.read().unwrap().entry(identifier) { Entry::Occupied(entry) => entry.get().receive(message)?," in dm
    lookup = ("let any_identifier = Endpoint::new(Ipv4Address::CURRENT_NETWORK, identifier.local.port);" in dm
              and "self.listen_bindings.get(&identifier.local)" in dm and "self.listen_bindings.get(&any_identifier)" in dm
              and dm.index("self.listen_bindings.get(&identifier.local)") < dm.index("self.listen_bindings.get(&any_identifier)")
              and "session.stored_messages.write().unwrap().push_back(message);" in dm
              and "sender.try_send(identifier.remote)" in dm
              and dm.index("sender.try_send(identifier.remote)") < dm.index("entry.insert(session);"))
    mh = re.search(r"const HEADER_OCTETS: u16 = (\d+);", udpp)
    if not mh:
        raise ExtractError("C02: udp_parsing.rs HEADER_OCTETS not found")
    b = lambda x: "true" if x else "false"
    lines = ["-- GENERATED from /repo sources by tools/extract.py on every check; do not edit",
             "namespace Elvis.Gen",
             "/-- Socket::recv compares a dequeued message with the space left (`bytes - buf.len()`), not with `bytes` -/",
             f"def recvComparesWithRemaining : Bool := {b(new)}",
             "/-- Socket::send hands the write to the session inside a spawned task -/",
             f"def socketSendSpawns : Bool := {b(socket_send_spawns)}",
             "/-- TcpSession::send enqueues the Outgoing instruction inside a spawned task -/",
             f"def tcpSessionSendSpawns : Bool := {b(tcp_send_spawns)}",
             "/-- TcpSession::receive enqueues the Incoming instruction inside a spawned task -/",
             f"def tcpSessionReceiveSpawns : Bool := {b(tcp_recv_spawns)}",
             "/-- capacity of the per-session instruction queue (`none` = unbounded_channel) -/",
             f"def instructionQueueCapacity : Option Nat := {'none' if unb else 'some ' + mcap.group(1)}",
             "/-- capacity of the mpsc channel between a SocketSession and its Socket -/",
             f"def socketChannelCapacity : Nat := {cap}",
             "/-- accept(): the stored messages are replayed inside get_socket_session, under the sessions write lock -/",
             f"def acceptReplayUnderLock : Bool := {b(in_gss)}",
             "/-- SocketAPI::demux runs SocketSession::receive while holding the sessions read lock -/",
             f"def demuxReceivesUnderReadLock : Bool := {b(demux_under_read)}",
             "/-- SocketAPI::demux: exact 4-tuple, else listen binding exact-then-wildcard, store + backlog try_send before insert -/",
             f"def demuxLookupShape : Bool := {b(lookup)}",
             f"def udpHeaderOctets : Nat := {mh.group(1)}",
             "end Elvis.Gen", ""]
    write_if_changed("SocketCert.lean", "\n".join(lines))


def main():
    check_message_immutability()
    gen_sim_cert()
    gen_socket_cert()
    consts = ["-- GENERATED from /repo sources by tools/extract.py on every check; do not edit", "namespace Elvis.Gen", "end Elvis.Gen", ""]
    write_if_changed("Consts.lean", "\n".join(consts))


if __name__ == "__main__":
    try:
        main()
    except ExtractError as e:
        print("EXTRACT-ERROR:", e)
        sys.exit(1)
