//! C04 — datagrams reach exactly the listener bound to their address and port.
//!
//! Scenario = 1..4 machines (real Pci/Ipv4/Udp, optional Arp) on 1..2 networks with
//! `Recorder<N>` applications that listen (exact / 0.0.0.0 / 255.255.255.255 / foreign address
//! bindings, some deliberately duplicated, some added while traffic flows), send datagrams
//! (payload 0..MTU-28 and one over) and inject raw frames (no binding, wrong address, malformed,
//! unknown protocol).  The frame hook delays frames at random so arrival orders vary.
//!
//! Op stream per case: `cfg …` lines (the whole scenario, re-executable), then in log order
//! `listen` / `arrive` / `inject` lines with what the real stack did, then `end` with the sorted
//! multiset of deliveries.  The Lean model (`Model/Demux.lean`) replays the same lines.
//! Oracle (independent of the code's lookup): own RFC-offset parse of every frame that reached a
//! tap + own binding table → which application MUST get it, who must NOT.
use crate::scaffold::*;
use elvis_core::network::VerifFramePlan;
use elvis_core::protocols::ipv4::{ipv4_parsing::{ControlFlags, Ipv4Header}, Ipv4Address};
use elvis_core::protocols::udp::{verif::build_udp_header, UdpHeader};
use hcommon::*;
use std::collections::BTreeMap;
use std::sync::{Arc, Mutex};
use std::time::Duration;

const ANY: u32 = 0;
const BCAST: u32 = 0xffff_ffff;
const RULE: &str = "scenario = machines x recorders x bindings x sends x injected frames; non-trivial if at least one datagram was delivered AND (two applications share a machine, or a wildcard/broadcast binding exists, or a frame reached a machine that had to drop it); distinct = hash of the cfg lines";

fn own_addr(machine: usize) -> u32 {
    u32::from_be_bytes([10, 0, (machine / 2) as u8, 1 + (machine % 2) as u8])
}
const FOREIGN: u32 = u32::from_be_bytes([10, 9, 9, 9]);

// ------------------------------------------------------------------------------------------
// raw frames
// ------------------------------------------------------------------------------------------

/// IPv4+UDP frame built with the code's own header builders (checksums consistent with the
/// build's checksum feature).
fn datagram(src: Ep, dst: Ep, payload: &[u8]) -> Vec<u8> {
    let udp = build_udp_header(Ipv4Address::from(src.addr), src.port, Ipv4Address::from(dst.addr), dst.port, payload.iter().cloned(), payload.len()).unwrap();
    let mut f = ip_header(src.addr, dst.addr, 17, payload.len() + 8, true);
    f.extend_from_slice(&udp);
    f.extend_from_slice(payload);
    f
}

/// 20-byte IPv4 header through the code's own serialiser
fn ip_header(src: u32, dst: u32, proto: u8, payload_len: usize, last_fragment: bool) -> Vec<u8> {
    Ipv4Header {
        ihl: 5,
        type_of_service: Default::default(),
        total_length: (payload_len + 20) as u16,
        identification: 0,
        fragment_offset: 0,
        flags: ControlFlags::new(true, last_fragment),
        time_to_live: 30,
        protocol: proto,
        checksum: 0,
        source: Ipv4Address::from(src),
        destination: Ipv4Address::from(dst),
    }
    .serialize()
    .unwrap()
}

/// The oracle's own view of a frame (RFC 791 / 768 offsets; no use of the code's decoders).
#[derive(Debug, PartialEq)]
enum Parsed {
    /// unfragmented IPv4/UDP datagram, lengths consistent
    Datagram { src: Ep, dst: Ep, payload: Vec<u8> },
    /// must be rejected by any conforming receiver of this stack (too short, not v4, options,
    /// not UDP, a fragment, UDP length mismatch)
    Reject(&'static str),
    /// inconsistent in a way the property does not speak about: only isolation is checked
    Unclear,
}

fn oracle_parse(b: &[u8]) -> Parsed {
    if b.len() < 20 {
        return Parsed::Reject("short-ip");
    }
    if b[0] >> 4 != 4 {
        return Parsed::Reject("version");
    }
    if b[0] & 0xf != 5 {
        return Parsed::Reject("ihl");
    }
    let frag = u16::from_be_bytes([b[6], b[7]]);
    if frag & 0x3fff != 0 {
        return Parsed::Reject("fragment");
    }
    if b[9] != 17 {
        return Parsed::Reject("not-udp");
    }
    // RFC 791: the datagram is the first `total length` octets of the frame; a frame that ends before
    // that was cut short in transit, whatever follows the datagram is link padding (fix F-C14-S3 made
    // `Ipv4::demux` honour this; before, a datagram with one padding octet was refused by UDP)
    let tl = u16::from_be_bytes([b[2], b[3]]) as usize;
    if tl < 20 {
        return Parsed::Reject("total-length");
    }
    if b.len() < tl {
        return Parsed::Reject("truncated");
    }
    let b = &b[..tl];
    if b.len() < 28 {
        return Parsed::Reject("short-udp");
    }
    let ulen = u16::from_be_bytes([b[24], b[25]]) as usize;
    if ulen != b.len() - 20 {
        return Parsed::Reject("udp-length");
    }
    let clean = b[1] & 3 == 0 && frag & 0x8000 == 0 && b[10] == 0 && b[11] == 0 && b[26] == 0 && b[27] == 0;
    if !clean {
        return Parsed::Unclear;
    }
    Parsed::Datagram {
        src: Ep::new(u32::from_be_bytes([b[12], b[13], b[14], b[15]]), u16::from_be_bytes([b[20], b[21]])),
        dst: Ep::new(u32::from_be_bytes([b[16], b[17], b[18], b[19]]), u16::from_be_bytes([b[22], b[23]])),
        payload: b[28..].to_vec(),
    }
}

/// header fields as the REAL decoders see them (input of the model, which keeps headers abstract)
fn decode_fields(bytes: &[u8]) -> (String, String) {
    match Ipv4Header::from_bytes(bytes.iter().cloned()) {
        Err(_) => ("bad".into(), "-".into()),
        Ok(h) => {
            let ip = format!(
                "{},{},{},{},{},{}",
                h.ihl,
                h.protocol,
                h.source.to_u32(),
                h.destination.to_u32(),
                h.flags.is_last_fragment() as u8,
                h.fragment_offset
            );
            // what `Ipv4::demux` hands up since fix F-C14-S3: the datagram ends at the total length; a
            // frame that is shorter is refused like a header that does not decode
            if bytes.len() < h.total_length as usize {
                return ("bad".into(), "-".into());
            }
            let off = (h.ihl as usize * 4).min(bytes.len());
            let rest = &bytes[off..(h.total_length as usize).max(off)];
            let udp = match UdpHeader::from_bytes_ipv4(rest.iter().cloned(), rest.len(), h.source, h.destination) {
                Ok(u) => format!("{},{}", u.source, u.destination),
                Err(_) => "bad".into(),
            };
            (ip, udp)
        }
    }
}

fn fnv(b: &[u8]) -> u32 {
    let mut h: u32 = 0x811c9dc5;
    for x in b {
        h ^= *x as u32;
        h = h.wrapping_mul(0x01000193);
    }
    h
}

// ------------------------------------------------------------------------------------------
// generator
// ------------------------------------------------------------------------------------------

fn gen_scenario(seed: u64) -> Scenario {
    let mut r = Rng::new(seed);
    let n_machines = *r.pick(&[1usize, 2, 2, 3, 3, 4]);
    let n_nets = if n_machines >= 2 && r.chance(1, 3) { 2 } else { 1 };
    let mt = r.chance(1, 10);
    let mtus: [Option<u16>; 6] = [None, Some(1500), Some(576), Some(100), Some(68), Some(29)];
    let nets: Vec<NetSpec> = (0..n_nets)
        .map(|_| NetSpec {
            mtu: *r.pick(&mtus),
            lat_us: if mt { (0, 0) } else { *r.pick(&[(0, 0), (0, 0), (1000, 0), (3000, 2000)]) },
            thr: (0, 0),
        })
        .collect();
    let arp_all = !mt && r.chance(1, 3);
    let mut machines: Vec<MachineSpec> = (0..n_machines)
        .map(|i| {
            let mut nets_of = vec![];
            if n_nets == 1 || i == 0 || r.chance(2, 3) {
                nets_of.push(0);
            }
            if n_nets == 2 && (nets_of.is_empty() || r.chance(1, 2)) {
                nets_of.push(1);
            }
            MachineSpec { nets: nets_of, arp: if arp_all { !r.chance(1, 8) } else { false }, udp: true, tcp: false, sockets: false, routes: vec![], apps: vec![] }
        })
        .collect();
    let sc0 = Scenario { nets: nets.clone(), machines: machines.clone(), mode: RtMode::Paused, duration_us: 0 };
    let macs = sc0.macs();
    let ports: [u16; 5] = [5000, 5001, 7, 65535, 0];
    let addr_pool = |r: &mut Rng, me: usize| -> u32 {
        match r.below(10) {
            0..=3 => own_addr(me),
            4 => own_addr(r.below(n_machines as u64) as usize),
            5..=6 => ANY,
            7..=8 => BCAST,
            _ => FOREIGN,
        }
    };
    // recorders and their bindings
    let mut all_bound: Vec<Ep> = vec![];
    for mi in 0..n_machines {
        let n_apps = *r.pick(&[0usize, 1, 1, 2, 2, 3]);
        let mut here: Vec<Ep> = vec![];
        for n in 0..n_apps {
            let mut script = vec![];
            let n_listen = *r.pick(&[0usize, 1, 1, 2, 3]);
            for _ in 0..n_listen {
                let ep = if !here.is_empty() && r.chance(1, 4) {
                    // a wildcard competing with an exact binding of the same port (or the reverse)
                    let b = *r.pick(&here);
                    Ep::new(if b.addr == ANY { own_addr(mi) } else { ANY }, b.port)
                } else if !all_bound.is_empty() && r.chance(1, 4) {
                    // provoke a rebind (same endpoint again, possibly on another machine where it is fine)
                    *r.pick(&all_bound)
                } else {
                    Ep::new(addr_pool(&mut r, mi), *r.pick(&ports))
                };
                all_bound.push(ep);
                here.push(ep);
                let at = if mt || r.chance(4, 5) { None } else { Some(r.below(8) * 1000) };
                script.push(Action { at, kind: ActionKind::Listen(ep) });
            }
            let echo = r.chance(1, 2);
            machines[mi].apps.push(AppSpec { n, script, echo });
        }
    }
    // routes (keyed by the sender's local address in this code base) and senders
    let mut next_port = 40000u16;
    for mi in 0..n_machines {
        let slots = machines[mi].nets.len() as u32;
        let slot = r.below(slots as u64) as u32;
        let net = machines[mi].nets[slot as usize];
        let peers: Vec<u64> = macs.iter().enumerate().flat_map(|(j, ms)| ms.iter().enumerate().filter(|(s, _)| machines[j].nets[*s] == net).map(|(_, m)| *m).collect::<Vec<_>>()).collect();
        let mac = match r.below(6) {
            0..=2 => None,
            3..=4 => Some(*r.pick(&peers)),
            _ => Some(77),
        };
        let mac = if machines[mi].arp && r.chance(2, 3) { None } else { mac };
        if r.chance(9, 10) {
            machines[mi].routes.push(Route { addr: 0, mask_len: 0, slot, mac });
        }
        if r.chance(1, 4) {
            let s2 = r.below(slots as u64) as u32;
            machines[mi].routes.push(Route { addr: own_addr(mi), mask_len: 32, slot: s2, mac: None });
        }
        let mtu = nets[net].mtu.unwrap_or(u16::MAX) as usize;
        let n_apps = machines[mi].apps.len();
        if n_apps == 0 {
            continue;
        }
        let n_opens = *r.pick(&[0usize, 1, 1, 2, 3]);
        for _ in 0..n_opens {
            let app = r.below(n_apps as u64) as usize;
            let local = Ep::new(if r.chance(5, 6) { own_addr(mi) } else { FOREIGN }, next_port);
            next_port += 1;
            let remote = if !all_bound.is_empty() && r.chance(3, 4) {
                let b = *r.pick(&all_bound);
                // a wildcard binding is reached through a concrete destination address
                if b.addr == ANY {
                    Ep::new(if r.chance(1, 2) { own_addr(r.below(n_machines as u64) as usize) } else { BCAST }, b.port)
                } else if r.chance(1, 8) {
                    Ep::new(b.addr, *r.pick(&ports))
                } else {
                    b
                }
            } else {
                let who = r.below(n_machines as u64) as usize;
                Ep::new(addr_pool(&mut r, who), *r.pick(&ports))
            };
            let remote = if remote.addr == ANY { Ep::new(own_addr(0), remote.port) } else { remote };
            let max = mtu.saturating_sub(28).min(2000);
            let n_p = *r.pick(&[1usize, 1, 2, 3]);
            let payloads: Vec<Vec<u8>> = (0..n_p)
                .map(|_| {
                    let l = match r.below(10) {
                        0 => 0,
                        1 => 1,
                        2 => max,
                        3 => max.saturating_sub(1),
                        4 => {
                            if mtu < 60000 {
                                max + 1
                            } else {
                                max
                            }
                        }
                        _ => r.below(max as u64 + 1) as usize,
                    };
                    r.bytes(l)
                })
                .collect();
            let at = if mt { Some(0) } else { Some(r.below(8) * 1000 + 500) };
            let listen = !mt && r.chance(1, 8);
            machines[mi].apps[app].script.push(Action { at, kind: ActionKind::Open { local, remote, listen, payloads } });
        }
    }
    // raw frames: no binding, wrong address, malformed, unknown protocol
    let n_inject = *r.pick(&[0usize, 1, 2, 3, 4]);
    for _ in 0..n_inject {
        let mi = r.below(n_machines as u64) as usize;
        if machines[mi].apps.is_empty() {
            continue;
        }
        let app = r.below(machines[mi].apps.len() as u64) as usize;
        let slot = r.below(machines[mi].nets.len() as u64) as u32;
        let src = Ep::new(FOREIGN, 1234);
        let dst = if !all_bound.is_empty() && r.chance(2, 3) {
            let b = *r.pick(&all_bound);
            match r.below(4) {
                0 => b,                                                      // exact hit (maybe on another machine)
                1 => Ep::new(b.addr, b.port.wrapping_add(1)),                // right address, wrong port
                2 => Ep::new(if b.addr == ANY { FOREIGN } else { b.addr ^ 0x100 }, b.port), // wrong address, right port
                _ => Ep::new(own_addr(mi), b.port),
            }
        } else {
            Ep::new(addr_pool(&mut r, mi), *r.pick(&ports))
        };
        let plen = *r.pick(&[0usize, 1, 5, 40]);
        let payload = r.bytes(plen);
        let mut bytes = datagram(src, dst, &payload);
        let mut target = Target::Ipv4;
        match r.below(12) {
            0 => bytes.truncate(r.below(20) as usize),  // short IP header
            1 => bytes[0] = 0x65,                       // version 6
            2 => bytes[0] = 0x46,                       // options
            3 => bytes.truncate(20 + r.below(8) as usize), // short UDP header
            4 => bytes.push(0),                         // one octet of link padding (delivered without it)
            8 => {
                // UDP length mismatch: the length field claims one octet more / less than the datagram holds
                let l = u16::from_be_bytes([bytes[24], bytes[25]]);
                let l2 = if l > 8 && r.chance(1, 2) { l - 1 } else { l + 1 };
                bytes[24..26].copy_from_slice(&l2.to_be_bytes());
            }
            5 => bytes[9] = *r.pick(&[6u8, 1, 99, 253]), // not UDP
            6 => {
                // a fragment: more-fragments set (flag bit 0 of ControlFlags = !is_last)
                let ip = ip_header(src.addr, dst.addr, 17, payload.len() + 8, false);
                bytes[..20].copy_from_slice(&ip);
            }
            7 => target = Target::Unknown,
            _ => {}
        }
        let at = if mt { Some(0) } else { Some(r.below(9) * 1000 + 250) };
        machines[mi].apps[app].script.push(Action { at, kind: ActionKind::Inject { slot, smac: 900 + mi as u64, dst: if r.chance(1, 2) { None } else { Some(macs[mi][slot as usize]) }, target, bytes } });
    }
    Scenario { nets, machines, mode: if mt { RtMode::MultiThread(*r.pick(&[2usize, 4])) } else { RtMode::Paused }, duration_us: if mt { 3_000_000 } else { 10_000_000 } }
}

// ------------------------------------------------------------------------------------------
// executor + oracle
// ------------------------------------------------------------------------------------------

fn listen_class(result: &str) -> String {
    match result {
        "ok" => "ok".into(),
        "err:Existing" | "err:Listen:Existing" => "err:existing".into(),
        "err:Ipv4:Exists" | "err:Listen:Ipv4:Exists" => "err:ipv4-exists".into(),
        o => o.to_string(),
    }
}

fn inject_class(result: &str) -> &'static str {
    match result {
        "ok" => "ok",
        "err:Protocol" => "no-protocol",
        "err:Demux:MissingSession" => "missing-session",
        "err:Demux:Header" => "header",
        _ => "other",
    }
}

fn execute(cfg_lines: &[String], seed: u64) -> CaseReport {
    let mut rep = CaseReport::default();
    for l in cfg_lines {
        rep.line(format!("cfg {}", l), "cfg");
    }
    let sc = match Scenario::from_lines(cfg_lines.iter().map(|s| s.as_str())) {
        Ok(s) => s,
        Err(e) => {
            rep.line("bad-scenario", e);
            return rep;
        }
    };
    let mt = sc.mode != RtMode::Paused;
    // deterministic reordering of frames: extra delay per frame from the seeded Rng
    let prng = Arc::new(Mutex::new(Rng::new(seed ^ 0x5eed)));
    let planner: Option<Planner> = if mt {
        None
    } else {
        Some(Arc::new(move |_w: &WireSend| {
            let mut g = prng.lock().unwrap();
            if g.chance(1, 3) {
                VerifFramePlan::Delay(Duration::from_micros(g.below(6) * 700))
            } else {
                VerifFramePlan::Deliver
            }
        }))
    };
    let res = run_scenario_with(&sc, planner, &|i, m, log| {
        if i == 0 {
            m.with(Quiesce { log: log.clone(), active: mt, stable_ms: 40 })
        } else {
            m
        }
    });
    analyse(&sc, &res, &mut rep);
    rep
}

fn analyse(sc: &Scenario, res: &RunResult, rep: &mut CaseReport) {
    let evs = &res.events;
    // (net, mac) -> (machine, slot)
    let mut tap_of: BTreeMap<(usize, u64), (usize, u32)> = BTreeMap::new();
    for (mi, ms) in res.macs.iter().enumerate() {
        for (s, mac) in ms.iter().enumerate() {
            tap_of.insert((sc.machines[mi].nets[s], *mac), (mi, s as u32));
        }
    }
    if res.macs != sc.macs() {
        rep.fail(format!("tap MACs {:?} differ from the allocation order {:?}", res.macs, sc.macs()), "mac-allocation");
    }
    // demux events grouped by cause
    let mut by_cause: BTreeMap<usize, Vec<&Event>> = BTreeMap::new();
    let mut uncaused = 0;
    for e in evs {
        if let Ev::Demux { cause, .. } = &e.ev {
            match cause {
                Some(c) => by_cause.entry(*c).or_default().push(e),
                None => uncaused += 1,
            }
        }
    }
    if uncaused > 0 {
        rep.fail(format!("{} demux calls on recorders outside any tap delivery", uncaused), "demux-without-arrival");
    }
    let inject_result: BTreeMap<usize, String> = evs.iter().filter_map(|e| if let Ev::InjectResult { cause, result } = &e.ev { Some((*cause, result.clone())) } else { None }).collect();
    // oracle state: bindings per machine, as the PROPERTY prescribes them
    let mut bound: Vec<BTreeMap<Ep, usize>> = vec![BTreeMap::new(); sc.machines.len()];
    let mut deliveries: Vec<String> = vec![];
    let mut delivered_any = false;
    let mut dropped_somewhere = false;
    let fmt_demux = |e: &Event| -> String {
        if let Ev::Demux { app, payload, local, remote, link, .. } = &e.ev {
            format!(
                "deliver app={} payload={} local={} remote={} slot={}",
                Target::Rec(*app).pid(),
                hex(payload),
                local.map(|x| x.to_string()).unwrap_or("-".into()),
                remote.map(|x| x.to_string()).unwrap_or("-".into()),
                link.map(|l| l.slot.to_string()).unwrap_or("-".into())
            )
        } else {
            String::new()
        }
    };
    for e in evs {
        match &e.ev {
            Ev::Listen { machine, app, ep, result } => {
                let cls = listen_class(result);
                rep.line(format!("listen {} {} {} {}", machine, Target::Rec(*app).pid(), ep.addr, ep.port), cls.clone());
                rep.count(format!("listen.{}", cls));
                // property: a second attempt to bind an endpoint already bound on the same machine is refused
                let already = bound[*machine].contains_key(ep);
                if already && cls == "ok" {
                    rep.fail(format!("machine {}: second bind of {} by app {} was accepted", machine, ep, app), "rebind-accepted");
                } else if !already && cls != "ok" {
                    rep.fail(format!("machine {}: first bind of {} by app {} was refused ({})", machine, ep, app, result), "first-bind-refused");
                }
                if !already {
                    bound[*machine].insert(*ep, *app);
                }
                if ep.addr == ANY {
                    rep.count("bind.wildcard");
                } else if ep.addr == BCAST {
                    rep.count("bind.broadcast");
                } else {
                    rep.count("bind.specific");
                }
            }
            Ev::Wire { to: Some(_), target: Target::Arp, .. } => rep.count("arrivals.arp"),
            _ => {}
        }
        let arrival: Option<(bool, usize, u32, Target, &Vec<u8>)> = match &e.ev {
            Ev::Wire { net, to: Some(mac), target, bytes, .. } if matches!(target, Target::Ipv4 | Target::Unknown) => match tap_of.get(&(*net, *mac)) {
                Some((mi, slot)) => Some((false, *mi, *slot, *target, bytes)),
                None => {
                    rep.fail(format!("frame delivered to MAC {} which is no tap of network {}", mac, net), "deliver-to-unknown-tap");
                    None
                }
            },
            Ev::Inject { machine, slot, target, bytes, .. } => Some((true, *machine, *slot, *target, bytes)),
            _ => None,
        };
        if let Some((is_inject, mi, slot, target, bytes)) = arrival {
            {
                let (ipf, udpf) = decode_fields(bytes);
                // the model keeps headers abstract and takes the payload from `bytes`: it is given the DATAGRAM,
                // i.e. the frame cut at the IPv4 total length when link padding follows it (what `Ipv4::demux`
                // works on since fix F-C14-S3; the cutting itself is modelled and proved in Model/RecvPath.lean)
                let dgram: &[u8] = match Ipv4Header::from_bytes(bytes.iter().cloned()) {
                    Ok(h) if target == Target::Ipv4 && (h.total_length as usize) < bytes.len() => &bytes[..h.total_length as usize],
                    _ => bytes,
                };
                let op = format!(
                    "{} {} slot={} tgt={} ip={} udp={} bytes={}",
                    if is_inject { "inject" } else { "arrive" },
                    mi,
                    slot,
                    target.pid(),
                    ipf,
                    udpf,
                    hex(dgram)
                );
                let ds: Vec<&Event> = by_cause.get(&e.id).cloned().unwrap_or_default();
                let mut line = if ds.is_empty() { "none".to_string() } else { ds.iter().map(|d| fmt_demux(d)).collect::<Vec<_>>().join(" | ") };
                if is_inject && ds.is_empty() {
                    line = format!("none:{}", inject_class(inject_result.get(&e.id).map(|s| s.as_str()).unwrap_or("?")));
                }
                rep.line(op, line);
                rep.count(if is_inject { "arrivals.injected" } else { "arrivals.wire" });
                // ---- property oracle ----
                let parsed = if target == Target::Ipv4 { oracle_parse(bytes) } else { Parsed::Reject("unknown-protocol") };
                let got: Vec<(usize, Vec<u8>, Option<Ep>, Option<Ep>)> = ds
                    .iter()
                    .filter_map(|d| if let Ev::Demux { app, payload, local, remote, .. } = &d.ev { Some((*app, payload.clone(), *local, *remote)) } else { None })
                    .collect();
                match &parsed {
                    Parsed::Datagram { src, dst, payload } => {
                        let exact = bound[mi].get(dst).copied();
                        let wild = bound[mi].get(&Ep::new(ANY, dst.port)).copied();
                        let must = exact.or(wild);
                        rep.count(match (exact, wild) {
                            (Some(_), Some(_)) => "case.exact-over-wildcard",
                            (Some(_), None) => "case.exact",
                            (None, Some(_)) => "case.wildcard",
                            (None, None) => "case.unbound",
                        });
                        match must {
                            Some(app) => {
                                delivered_any = true;
                                if got.len() != 1 || got[0].0 != app {
                                    let who: Vec<usize> = got.iter().map(|g| g.0).collect();
                                    let kind = if exact.is_some() && got.iter().any(|g| Some(g.0) == wild) { "wildcard-beat-exact" } else if got.is_empty() { "not-delivered" } else { "wrong-listener" };
                                    rep.fail(format!("machine {}: datagram {} -> {} must go to app {} (exact {:?}, wildcard {:?}) but went to {:?}", mi, src, dst, app, exact, wild, who), kind);
                                } else {
                                    if &got[0].1 != payload {
                                        rep.fail(format!("machine {}: datagram {} -> {} payload {} arrived as {}", mi, src, dst, hex(payload), hex(&got[0].1)), "payload-changed");
                                    }
                                    if got[0].3 != Some(*src) {
                                        rep.fail(format!("machine {}: datagram from {} reported remote endpoint {:?}", mi, src, got[0].3), "source-wrong");
                                    }
                                    if got[0].2 != Some(*dst) {
                                        rep.fail(format!("machine {}: datagram to {} reported local endpoint {:?}", mi, dst, got[0].2), "local-wrong");
                                    }
                                }
                            }
                            None => {
                                dropped_somewhere = true;
                                if !got.is_empty() {
                                    rep.fail(format!("machine {}: datagram {} -> {} has no binding here but was delivered to app {:?}", mi, src, dst, got.iter().map(|g| g.0).collect::<Vec<_>>()), "unbound-delivered");
                                }
                            }
                        }
                    }
                    Parsed::Reject(why) => {
                        rep.count(format!("case.reject.{}", why));
                        dropped_somewhere = true;
                        if !got.is_empty() {
                            rep.fail(format!("machine {}: frame that is no UDP datagram ({}) was delivered to app {:?}", mi, why, got.iter().map(|g| g.0).collect::<Vec<_>>()), format!("malformed-delivered {}", why));
                        }
                    }
                    Parsed::Unclear => {
                        rep.count("case.unclear");
                        // isolation only: whoever got it must own (dst, port) or (0.0.0.0, port)
                        if bytes.len() >= 28 {
                            let dst = Ep::new(u32::from_be_bytes([bytes[16], bytes[17], bytes[18], bytes[19]]), u16::from_be_bytes([bytes[22], bytes[23]]));
                            for g in &got {
                                let ok = bound[mi].get(&dst) == Some(&g.0) || bound[mi].get(&Ep::new(ANY, dst.port)) == Some(&g.0);
                                if !ok {
                                    rep.fail(format!("machine {}: frame to {} delivered to app {} which holds no such binding", mi, dst, g.0), "wrong-listener");
                                }
                            }
                        }
                    }
                }
                for d in &ds {
                    if let Ev::Demux { app, payload, local, remote, .. } = &d.ev {
                        deliveries.push(format!(
                            "m{}/a{}/{}/{}/{}/{:08x}",
                            mi,
                            Target::Rec(*app).pid(),
                            local.map(|x| x.to_string()).unwrap_or("-".into()),
                            remote.map(|x| x.to_string()).unwrap_or("-".into()),
                            payload.len(),
                            fnv(payload)
                        ));
                    }
                }
            }
        }
    }
    // end-to-end: every datagram an application submitted successfully is on the wire exactly
    // once, bytes unchanged, with the session's own (address, port) as source
    let mut submitted: BTreeMap<(Ep, Ep, Vec<u8>), i64> = BTreeMap::new();
    let mut opens: BTreeMap<(usize, usize, usize), (Ep, Ep, Vec<Vec<u8>>)> = BTreeMap::new();
    for (mi, m) in sc.machines.iter().enumerate() {
        for a in &m.apps {
            for (i, act) in a.script.iter().enumerate() {
                if let ActionKind::Open { local, remote, payloads, .. } = &act.kind {
                    opens.insert((mi, a.n, i), (*local, *remote, payloads.clone()));
                }
            }
        }
    }
    // the session handed to the application carries the datagram's endpoints: an answer sent
    // through it goes from (A, P) back to the true source
    let mut expect_session: BTreeMap<usize, (Ep, Ep)> = BTreeMap::new();
    for e in evs {
        if let Ev::Demux { cause: Some(c), .. } = &e.ev {
            let bytes = match &evs[*c].ev {
                Ev::Wire { bytes, .. } | Ev::Inject { bytes, .. } => Some(bytes),
                _ => None,
            };
            if let Some(Parsed::Datagram { src, dst, .. }) = bytes.map(|b| oracle_parse(b)) {
                expect_session.insert(e.id, (dst, src));
            }
        }
    }
    let mut echo_seen: BTreeMap<usize, Vec<(Ep, Ep)>> = BTreeMap::new();
    for e in evs {
        if let Ev::Wire { to: None, target: Target::Ipv4, bytes, .. } = &e.ev {
            if let Parsed::Datagram { src, dst, payload } = oracle_parse(bytes) {
                if payload.len() == 8 && payload.starts_with(ECHO_TAG) {
                    let id = u32::from_be_bytes([payload[4], payload[5], payload[6], payload[7]]) as usize;
                    echo_seen.entry(id).or_default().push((src, dst));
                }
            }
        }
    }
    for e in evs {
        match &e.ev {
            Ev::Echo { demux, result } => {
                rep.count(format!("echo.{}", result));
                if let Some((l, r)) = expect_session.get(demux) {
                    if result == "ok" {
                        let mut tag = ECHO_TAG.to_vec();
                        tag.extend_from_slice(&(*demux as u32).to_be_bytes());
                        *submitted.entry((*l, *r, tag)).or_insert(0) += 1;
                        let seen = echo_seen.get(demux).cloned().unwrap_or_default();
                        if seen != vec![(*l, *r)] {
                            rep.fail(format!("the session handed up with the datagram {} -> {} sends from/to {:?} (expected {} -> {})", r, l, seen, l, r), "session-endpoints-wrong");
                        }
                    }
                }
            }
            Ev::Open { result, .. } => rep.count(format!("open.{}", result)),
            Ev::Sent { machine, app, act, idx, result, len } => {
                rep.count(format!("sent.{}", result));
                rep.count(format!("payload_len.{}", match *len { 0 => "0", 1..=9 => "1-9", 10..=99 => "10-99", 100..=999 => "100-999", _ => "1000+" }));
                if let Some((l, r, ps)) = opens.get(&(*machine, *app, *act)) {
                    if result == "ok" {
                        *submitted.entry((*l, *r, ps[*idx].clone())).or_insert(0) += 1;
                    }
                    // MTU clause seen from the application: payload + 28 must fit the link
                    let slot_net = sc.machines[*machine].routes.iter().filter(|rt| rt.mask_len == 32 && rt.addr == l.addr).chain(sc.machines[*machine].routes.iter().filter(|rt| rt.mask_len == 0)).next().map(|rt| sc.machines[*machine].nets[rt.slot as usize]);
                    if let Some(n) = slot_net {
                        let mtu = sc.nets[n].mtu.unwrap_or(u16::MAX) as usize;
                        let fits = len + 28 <= mtu;
                        if fits != (result == "ok") {
                            rep.fail(format!("machine {}: send of {} bytes over MTU {} returned {}", machine, len, mtu, result), "send-result-vs-mtu");
                        }
                    }
                }
            }
            Ev::Wire { to: None, target: Target::Ipv4, bytes, .. } => match oracle_parse(bytes) {
                Parsed::Datagram { src, dst, payload } => *submitted.entry((src, dst, payload)).or_insert(0) -= 1,
                p => rep.fail(format!("the stack put a frame on the wire that is no clean datagram: {:?}", p), "emitted-malformed"),
            },
            _ => {}
        }
    }
    for ((s, d, p), n) in &submitted {
        if *n != 0 {
            rep.fail(format!("datagram {} -> {} ({} bytes) submitted-ok minus seen-on-wire = {}", s, d, p.len(), n), "submitted-vs-wire");
        }
    }
    deliveries.sort();
    rep.line("end", format!("end n={} {}", deliveries.len(), deliveries.join(" ")));
    let shared = sc.machines.iter().any(|m| m.apps.len() >= 2);
    let wild = bound.iter().any(|b| b.keys().any(|e| e.addr == ANY || e.addr == BCAST));
    rep.nontrivial = delivered_any && (shared || wild || dropped_somewhere);
    rep.count(format!("machines.{}", sc.machines.len()));
    rep.count(format!("nets.{}", sc.nets.len()));
    rep.count(if sc.machines.iter().any(|m| m.arp) { "arp.some" } else { "arp.none" });
    rep.count(match sc.mode { RtMode::Paused => "mode.paused", RtMode::MultiThread(_) => "mode.multi_thread" });
    rep.count(format!("status.{}", res.status));
}

/// All 2-application x {exact, wildcard, broadcast}^2 binding combinations on one machine, each
/// hit by datagrams to (A,P), (other address,P), (255.255.255.255,P) and (A,P+1): 36 scenarios.
const GRID: u64 = 36;
fn grid_scenario(i: u64) -> Scenario {
    let a = own_addr(0);
    let p = 5000u16;
    let kind = |k: u64| match k {
        0 => Ep::new(a, p),
        1 => Ep::new(ANY, p),
        _ => Ep::new(BCAST, p),
    };
    let (k0, k1, d) = (i % 3, (i / 3) % 3, (i / 9) % 4);
    let dst = match d {
        0 => Ep::new(a, p),
        1 => Ep::new(FOREIGN, p),
        2 => Ep::new(BCAST, p),
        _ => Ep::new(a, p + 1),
    };
    let receiver = MachineSpec {
        nets: vec![0],
        udp: true,
        apps: vec![
            AppSpec { n: 0, script: vec![Action { at: None, kind: ActionKind::Listen(kind(k0)) }], echo: true },
            AppSpec { n: 1, script: vec![Action { at: None, kind: ActionKind::Listen(kind(k1)) }], echo: true },
        ],
        ..Default::default()
    };
    let sender = MachineSpec {
        nets: vec![0],
        udp: true,
        routes: vec![Route { addr: 0, mask_len: 0, slot: 0, mac: None }],
        apps: vec![AppSpec {
            n: 0,
            script: vec![Action { at: Some(1000), kind: ActionKind::Open { local: Ep::new(own_addr(1), 40000), remote: dst, listen: false, payloads: vec![vec![], vec![i as u8; 7]] } }],
            echo: false,
        }],
        ..Default::default()
    };
    Scenario { nets: vec![NetSpec::default()], machines: vec![receiver, sender], mode: RtMode::Paused, duration_us: 1_000_000 }
}

fn cfg_lines_of(spec: &str) -> (Vec<String>, u64) {
    let mut it = spec.lines();
    let head = it.next().unwrap_or("");
    let w: Vec<&str> = head.split_whitespace().collect();
    match w.as_slice() {
        ["grid", i] => {
            let mut l = grid_scenario(i.parse().unwrap_or(0)).to_lines();
            l.push("planner seed=0".into());
            (l, 0)
        }
        ["gen", _id, seed] => {
            let seed: u64 = seed.parse().unwrap_or(1);
            let mut l = gen_scenario(seed).to_lines();
            l.push(format!("planner seed={}", seed));
            (l, seed)
        }
        _ => {
            let l: Vec<String> = it.filter(|l| l.starts_with("cfg ")).map(|l| l[4..].to_string()).collect();
            let seed = l.iter().find_map(|x| x.strip_prefix("planner seed=").and_then(|v| v.parse().ok())).unwrap_or(1);
            (l, seed)
        }
    }
}

pub fn run(args: &Args) {
    if is_worker(args) {
        worker_loop(|spec| {
            let (lines, seed) = cfg_lines_of(spec);
            execute(&lines, seed)
        });
        return;
    }
    let mut out = Out::new(&args.out);
    let specs: Vec<String> = if let Some(rp) = &args.replay {
        vec![format!("replay\n{}", read_ops(rp).join("\n"))]
    } else {
        let mut rng = Rng::new(args.seed);
        (0..GRID).map(|i| format!("grid {}", i)).chain((0..args.cases).map(|c| format!("gen {} {}", c, rng.next() >> 1))).collect()
    };
    let workers = args.extra.get("workers").and_then(|s| s.parse().ok()).unwrap_or_else(default_workers);
    let outcomes = run_cases(&args.prop, &specs, workers, 25, 120);
    for (c, o) in outcomes.iter().enumerate() {
        out.begin_case(c as u64);
        match o {
            CaseOutcome::Done(rep) => rep.emit(&mut out),
            CaseOutcome::Died { stderr, .. } => {
                let (lines, _) = cfg_lines_of(&specs[c]);
                for l in &lines {
                    out.line(&format!("cfg {}", l), "cfg");
                }
                let (line, ident) = died_ident(o);
                out.line("crash", &line);
                out.mark_nontrivial();
                out.fail(&format!("the simulation process died while running this scenario: {} :: {}", ident, stderr.lines().take(6).collect::<Vec<_>>().join(" / ")), &ident);
            }
        }
        out.end_case();
    }
    out.finish(RULE);
}
