import ElvisVerif.Base.ListHeap
/-!
# `BinaryHeap` operations commute with a map that preserves the order (C12)

If `le' (f a) (f b) = le a b` for all `a b`, then `push`, `pop`, `peek` on the mapped array
produce the mapped results — position by position, since std's algorithm looks at the elements
only through the comparison.  Used with `f` = "add `k` to the sequence number" and the circular
`Segment` order, which is invariant under a common shift.
-/
namespace Elvis.LHeap
variable {α β : Type}

theorem swap_map (f : α → β) (l : List α) (i j : Nat) : swap (l.map f) i j = (swap l i j).map f := by
  unfold swap
  by_cases h : i < l.length ∧ j < l.length
  · have h' : i < (l.map f).length ∧ j < (l.map f).length := by simpa using h
    rw [dif_pos h, dif_pos h']
    simp [List.map_set]
  · have h' : ¬ (i < (l.map f).length ∧ j < (l.map f).length) := by simpa using h
    rw [dif_neg h, dif_neg h']

theorem siftUpAux_map (f : α → β) (le : α → α → Bool) (le' : β → β → Bool)
    (hle : ∀ a b, le' (f a) (f b) = le a b) (start fuel : Nat) (l : List α) (pos : Nat) :
    siftUpAux le' start fuel (l.map f) pos = (siftUpAux le start fuel l pos).map f := by
  induction fuel generalizing l pos with
  | zero => rfl
  | succ n ih =>
    unfold siftUpAux
    by_cases hp : pos > start
    · simp only [hp, if_true, List.getElem?_map]
      cases h1 : l[pos]? with
      | none => simp
      | some e =>
        cases h2 : l[(pos - 1) / 2]? with
        | none => simp
        | some p =>
          simp only [Option.map_some, hle]
          by_cases hc : le e p = true
          · simp [hc]
          · simp only [hc, Bool.false_eq_true, if_false]
            rw [swap_map, ih]
    · simp [hp]

theorem siftUp_map (f : α → β) (le : α → α → Bool) (le' : β → β → Bool)
    (hle : ∀ a b, le' (f a) (f b) = le a b) (l : List α) (start pos : Nat) :
    siftUp le' (l.map f) start pos = (siftUp le l start pos).map f :=
  siftUpAux_map f le le' hle start pos l pos

theorem siftDownAux_map (f : α → β) (le : α → α → Bool) (le' : β → β → Bool)
    (hle : ∀ a b, le' (f a) (f b) = le a b) (fuel : Nat) (l : List α) (pos : Nat) :
    siftDownAux le' fuel (l.map f) pos = ((siftDownAux le fuel l pos).1.map f, (siftDownAux le fuel l pos).2) := by
  induction fuel generalizing l pos with
  | zero => rfl
  | succ n ih =>
    unfold siftDownAux
    simp only [List.length_map, List.getElem?_map]
    by_cases hc : 2 * pos + 1 ≤ l.length - 2
    · simp only [hc, if_true]
      cases h1 : l[2 * pos + 1]? with
      | none => simp
      | some c0 =>
        cases h2 : l[2 * pos + 1 + 1]? with
        | none => simp
        | some c1 =>
          simp only [Option.map_some, hle]
          rw [swap_map, ih]
    · simp only [hc, if_false]
      by_cases hd : 2 * pos + 1 = l.length - 1
      · simp [hd, swap_map]
      · simp [hd]

theorem push_map (f : α → β) (le : α → α → Bool) (le' : β → β → Bool)
    (hle : ∀ a b, le' (f a) (f b) = le a b) (l : List α) (x : α) :
    push le' (l.map f) (f x) = (push le l x).map f := by
  unfold push
  rw [List.length_map, ← siftUp_map f le le' hle]
  simp

theorem peek_map (f : α → β) (l : List α) : peek (l.map f) = (peek l).map f := by
  unfold peek; simp

theorem pop_map (f : α → β) (le : α → α → Bool) (le' : β → β → Bool)
    (hle : ∀ a b, le' (f a) (f b) = le a b) (l : List α) :
    pop le' (l.map f) = ((pop le l).1.map f, (pop le l).2.map f) := by
  unfold pop
  simp only [List.getLast?_map]
  cases h : l.getLast? with
  | none => simp
  | some last =>
    simp only [Option.map_some]
    rw [← List.map_dropLast]
    cases h2 : l.dropLast with
    | nil => simp
    | cons top rest =>
      simp only [List.map_cons, Option.map_some]
      unfold siftDownToBottom
      have := siftDownAux_map f le le' hle (last :: rest).length (last :: rest) 0
      simp only [List.map_cons, List.length_cons, List.length_map] at this ⊢
      rw [this]
      simp only
      rw [siftUp_map f le le' hle]

end Elvis.LHeap
