//! C05 — the simulated link delivers frames as configured, to the right taps.
//!
//! Scenario = 1..4 networks (MTU, constant/variable latency and throughput), 2..6 machines whose
//! Pci taps sit on them, `Recorder<0>` on every machine as the protocol named in the frames
//! (records `pci::DemuxInfo`, bytes, virtual time) and as the sender (`send_pci` at scheduled
//! instants, many at the same instant).  The frame hook sees every frame when it enters
//! `Network::send` and when it is handed to each tap.
//!
//! Op stream: `cfg …` (re-executable scenario), `tap` per attached tap (MAC allocation),
//! `sendpci` per `send_pci` call (result), `wire` per frame entering the network in the order it
//! queues for the medium (recipients + delivery instant), `end`.  `Model/Link.lean` replays them.
//! Oracle = the property, from the configuration only: right taps, exactly once, bytes and
//! sender unchanged, MTU refusal, distinct MACs, not earlier than the latency, not faster than
//! the throughput.
use crate::scaffold::*;
use hcommon::*;
use std::collections::{BTreeMap, BTreeSet};

const BROADCAST: u64 = 0xFFFF_FFFF_FFFF;
const RULE: &str = "scenario = networks x taps x timed send_pci calls; non-trivial if at least one unicast, one broadcast and one refused or unknown-destination frame occur, or two frames queue for a throughput-limited medium at the same instant; distinct = hash of the cfg lines";

fn fnv(b: &[u8]) -> u32 {
    let mut h: u32 = 0x811c9dc5;
    for x in b {
        h ^= *x as u32;
        h = h.wrapping_mul(0x01000193);
    }
    h
}

fn gen_scenario(seed: u64) -> Scenario {
    let mut r = Rng::new(seed);
    let n_nets = *r.pick(&[1usize, 1, 2, 2, 3, 4]);
    let nets: Vec<NetSpec> = (0..n_nets)
        .map(|_| NetSpec {
            mtu: *r.pick(&[None, Some(1500), Some(1500), Some(576), Some(100), Some(68), Some(1)]),
            lat_us: match r.below(8) {
                0..=2 => (0, 0),
                3 => (1000, 0),
                4 => (r.range(1, 40) * 1000, 0),
                5 => (r.range(1, 9) * 250, 0),
                6 => (r.range(0, 10) * 1000, r.range(1, 10) * 1000),
                _ => (0, 3500),
            },
            thr: match r.below(9) {
                0..=2 => (0, 0),
                3 => (1000, 0),
                4 => (34_000, 0),
                5 => (1_000_000, 0),
                6 => (12_500_000, 0),
                7 => (r.range(1, 2000) * 1000, 0),
                _ => (r.range(1, 500) * 1000, r.range(1, 500) * 1000),
            },
        })
        .collect();
    let n_machines = r.range(2, 6) as usize;
    let mut machines: Vec<MachineSpec> = (0..n_machines)
        .map(|_| {
            let mut ns: Vec<usize> = (0..n_nets).filter(|_| r.chance(3, 5)).collect();
            if ns.is_empty() {
                ns.push(r.below(n_nets as u64) as usize);
            }
            if r.chance(1, 6) {
                // two taps of one machine on the same network
                let extra = *r.pick(&ns);
                ns.push(extra);
            }
            MachineSpec { nets: ns, udp: false, ..Default::default() }
        })
        .collect();
    // every network gets at least two taps, at most eight
    for n in 0..n_nets {
        while machines.iter().map(|m| m.nets.iter().filter(|x| **x == n).count()).sum::<usize>() < 2 {
            let k = r.below(n_machines as u64) as usize;
            machines[k].nets.push(n);
        }
    }
    let sc0 = Scenario { nets: nets.clone(), machines: machines.clone(), mode: RtMode::Paused, duration_us: 0 };
    let macs = sc0.macs();
    let net_of: Vec<Vec<usize>> = machines.iter().map(|m| m.nets.clone()).collect();
    let taps_of = |n: usize| -> Vec<u64> { macs.iter().enumerate().flat_map(|(mi, ms)| ms.iter().enumerate().filter(|(s, _)| net_of[mi][*s] == n).map(|(_, m)| *m).collect::<Vec<_>>()).collect() };
    let instants: Vec<u64> = (0..3).map(|_| r.below(6) * 1000).collect();
    // some machines do not run the protocol the frames are addressed to (no recorder at all): a
    // frame reaching their tap is refused there (ReceiveError::Protocol) and must not disturb the
    // delivery to the other taps
    let lacking: Vec<bool> = (0..n_machines).map(|mi| mi > 0 && r.chance(1, 4)).collect();
    for mi in 0..n_machines {
        if lacking[mi] {
            continue;
        }
        let mut script = vec![];
        let n_send = *r.pick(&[0usize, 1, 2, 3, 4, 6]);
        for _ in 0..n_send {
            let slot = r.below(machines[mi].nets.len() as u64) as u32;
            let net = machines[mi].nets[slot as usize];
            let taps = taps_of(net);
            let dst = match r.below(10) {
                0..=4 => Some(*r.pick(&taps)),
                5 => Some(macs[mi][slot as usize]),
                6 => Some(r.range(50, 60)),
                7 => Some(BROADCAST),
                _ => None,
            };
            let mtu = nets[net].mtu.map(|m| m as usize).unwrap_or(65535);
            let len = match r.below(10) {
                0 => mtu,
                1 => mtu + 1,
                2 => mtu.saturating_sub(1),
                3 => 0,
                4 => 1,
                _ => r.below(mtu.min(1200) as u64 + 1) as usize,
            };
            // frames of the same size in bursts make throughput windows interesting
            let len = if mtu == 65535 && !r.chance(1, 20) { len.min(1500) } else { len };
            let bytes = r.bytes(len);
            let at = if r.chance(3, 4) { *r.pick(&instants) } else { r.below(20) * 500 };
            script.push(Action { at: Some(at), kind: ActionKind::SendPci { slot, dst, target: Target::Rec(0), bytes } });
        }
        machines[mi].apps.push(AppSpec { n: 0, script, echo: false });
    }
    Scenario { nets, machines, mode: RtMode::Paused, duration_us: 600_000_000 }
}

fn execute(cfg_lines: &[String]) -> CaseReport {
    let mut rep = CaseReport::default();
    for l in cfg_lines {
        rep.line(format!("cfg {}", l), "cfg");
    }
    let sc = match Scenario::from_lines(cfg_lines.iter().map(|s| s.as_str())) {
        Ok(s) => s,
        Err(e) => {
            rep.line("bad-scenario", e);
            return rep;
        }
    };
    let res = run_scenario(&sc, None);
    analyse(&sc, &res, &mut rep);
    rep
}

struct Accepted {
    net: usize,
    smac: u64,
    dst: Option<u64>,
    bytes: Vec<u8>,
    t_submit: u64,
    /// (tap mac, time, what the recorder saw)
    got: Vec<(u64, u64)>,
    t_wire: Option<u64>,
}

fn analyse(sc: &Scenario, res: &RunResult, rep: &mut CaseReport) {
    let evs = &res.events;
    let macs = &res.macs;
    // ---- taps and MAC allocation ----
    let mut tap_of: BTreeMap<(usize, u64), (usize, u32)> = BTreeMap::new();
    for (mi, m) in sc.machines.iter().enumerate() {
        for (s, n) in m.nets.iter().enumerate() {
            let mac = macs[mi][s];
            rep.line(format!("tap {} {} {}", n, mi, s), format!("mac {}", mac));
            if tap_of.insert((*n, mac), (mi, s as u32)).is_some() {
                rep.fail(format!("network {}: MAC {} was given to two taps", n, mac), "mac-not-distinct");
            }
            if mac == BROADCAST {
                rep.fail(format!("network {}: a tap got the broadcast address", n), "mac-is-broadcast");
            }
        }
    }
    for (n, taps) in res.taps.iter().enumerate() {
        let mine: Vec<u64> = tap_of.keys().filter(|k| k.0 == n).map(|k| k.1).collect();
        if *taps != mine {
            rep.fail(format!("network {}: registered taps {:?} differ from the taps handed to the machines {:?}", n, taps, mine), "tap-registry");
        }
    }
    // ---- walk the log ----
    let mut demux_by_cause: BTreeMap<usize, Vec<&Event>> = BTreeMap::new();
    for e in evs {
        if let Ev::Demux { cause: Some(c), .. } = &e.ev {
            demux_by_cause.entry(*c).or_default().push(e);
        } else if let Ev::Demux { cause: None, .. } = &e.ev {
            rep.fail("a recorder was called outside any tap delivery", "demux-without-arrival");
        }
    }
    let mut accepted: Vec<Accepted> = vec![];
    // pending[(net, smac, dst, bytes)] -> indices into accepted not yet seen on the wire
    let mut pending: BTreeMap<(usize, u64, Option<u64>, Vec<u8>), Vec<usize>> = BTreeMap::new();
    let mut wire_idx: BTreeMap<usize, usize> = BTreeMap::new(); // Wire-send event id -> accepted idx
    let mut current: BTreeMap<(usize, u64, Option<u64>, Vec<u8>), Vec<usize>> = BTreeMap::new(); // in flight
    let mut kinds: BTreeSet<&'static str> = BTreeSet::new();
    for e in evs {
        match &e.ev {
            Ev::PciSend { machine, slot, dst, len, result, act, .. } => {
                let net = sc.machines[*machine].nets[*slot as usize];
                let smac = macs[*machine][*slot as usize];
                let bytes = match &sc.machines[*machine].apps[0].script[*act].kind {
                    ActionKind::SendPci { bytes, .. } => bytes.clone(),
                    _ => vec![],
                };
                let mtu = sc.nets[net].mtu.map(|m| m as usize).unwrap_or(65535);
                let cls = match result.as_str() {
                    "ok" => "ok",
                    "err:Mtu" => "err:mtu",
                    o => o,
                };
                rep.line(format!("sendpci {} t={} smac={} dst={} len={} fnv={:08x}", net, e.t_us, smac, fmt_mac(*dst), len, fnv(&bytes)), cls);
                rep.count(format!("sendpci.{}", cls));
                rep.count(if *len == mtu { "len.mtu" } else if *len == mtu + 1 { "len.mtu+1" } else if *len + 1 == mtu { "len.mtu-1" } else { "len.other" });
                // property: longer than the MTU -> refused with an error; otherwise accepted
                if (*len > mtu) != (cls == "err:mtu") || (*len <= mtu) != (cls == "ok") {
                    rep.fail(format!("send_pci of {} bytes on a network with MTU {} returned {}", len, mtu, result), if *len > mtu { "oversize-accepted" } else { "fitting-refused" });
                }
                if cls == "ok" {
                    let idx = accepted.len();
                    accepted.push(Accepted { net, smac, dst: *dst, bytes: bytes.clone(), t_submit: e.t_us, got: vec![], t_wire: None });
                    pending.entry((net, smac, *dst, bytes)).or_default().push(idx);
                } else {
                    kinds.insert("refused");
                }
            }
            Ev::Wire { net, to: None, smac, dst, target, bytes, .. } => {
                let key = (*net, *smac, *dst, bytes.clone());
                match pending.get_mut(&key).and_then(|v| if v.is_empty() { None } else { Some(v.remove(0)) }) {
                    Some(idx) if *target == Target::Rec(0) => {
                        accepted[idx].t_wire = Some(e.t_us);
                        wire_idx.insert(e.id, idx);
                        current.entry(key).or_default().push(idx);
                    }
                    _ => rep.fail(format!("network {}: a frame of {} bytes from MAC {} is on the wire that no send_pci call accepted", net, bytes.len(), smac), "wire-without-send"),
                }
            }
            Ev::Wire { net, to: Some(mac), smac, dst, bytes, .. } => {
                let key = (*net, *smac, *dst, bytes.clone());
                // FIFO among identical frames in flight: attribute to the oldest not yet delivered to this tap
                let idx = current.get(&key).and_then(|v| v.iter().copied().find(|i| !accepted[*i].got.iter().any(|g| g.0 == *mac)));
                match idx {
                    Some(i) => {
                        accepted[i].got.push((*mac, e.t_us));
                        // what the recorder on that machine saw
                        let ds = demux_by_cause.get(&e.id).cloned().unwrap_or_default();
                        let exp_tap = tap_of.get(&(*net, *mac));
                        // a machine that does not run the addressed protocol sees nothing (the tap refuses the frame)
                        let lacks = exp_tap.map(|(mi, _)| sc.machines[*mi].apps.is_empty()).unwrap_or(false);
                        let ok = if lacks { ds.is_empty() } else { ds.len() == 1 && match (&ds[0].ev, exp_tap) {
                                (Ev::Demux { machine, payload, link: Some(l), .. }, Some((mi, slot))) => {
                                    machine == mi && payload == bytes && l.slot == *slot && l.src == *smac && l.dst == *dst && l.mtu as usize == sc.nets[*net].mtu.map(|m| m as usize).unwrap_or(65535)
                                }
                                _ => false,
                            } };
                        if !ok {
                            rep.fail(
                                format!("network {}: frame from MAC {} to {} handed to tap {}: the protocol named in the frame saw {:?}", net, smac, fmt_mac(*dst), mac, ds.iter().map(|d| format!("{:?}", d.ev)).collect::<Vec<_>>()),
                                "payload-or-linkinfo-changed",
                            );
                        }
                    }
                    None => rep.fail(format!("network {}: tap {} is handed a frame from MAC {} that is not in flight (again?)", net, mac, smac), "delivery-without-frame"),
                }
            }
            _ => {}
        }
    }
    // ---- wire lines in the order frames queued for the medium ----
    let mut wire_events: Vec<(&Event, usize)> = evs.iter().filter_map(|e| wire_idx.get(&e.id).map(|i| (e, *i))).collect();
    wire_events.sort_by_key(|(e, _)| e.id);
    let mut same_instant_queue = false;
    let mut last_wire_t: BTreeMap<usize, u64> = BTreeMap::new();
    for (e, i) in &wire_events {
        let a = &accepted[*i];
        let spec = &sc.nets[a.net];
        if spec.thr.0 > 0 && last_wire_t.get(&a.net) == Some(&e.t_us) {
            same_instant_queue = true;
        }
        last_wire_t.insert(a.net, e.t_us);
        let mut to: Vec<String> = a
            .got
            .iter()
            .map(|(mac, _)| {
                let (mi, slot) = tap_of.get(&(a.net, *mac)).copied().unwrap_or((99, 99));
                format!("{}/m{}s{}", mac, mi, slot)
            })
            .collect();
        to.sort();
        let times: BTreeSet<u64> = a.got.iter().map(|g| g.1).collect();
        let variable = spec.lat_us.1 > 0 || spec.thr.1 > 0;
        let obs = times.iter().next().copied();
        let t_part = if a.got.is_empty() {
            "deliver=-".to_string()
        } else if times.len() > 1 {
            format!("deliver=split:{:?}", times)
        } else if variable {
            "deliver=within".to_string()
        } else {
            format!("deliver={}", obs.unwrap())
        };
        rep.line(
            format!("wire {} t={} smac={} dst={} len={} fnv={:08x} obs={}", a.net, e.t_us, a.smac, fmt_mac(a.dst), a.bytes.len(), fnv(&a.bytes), obs.map(|t| t.to_string()).unwrap_or("-".into())),
            format!("to={} {}", if to.is_empty() { "-".to_string() } else { to.join(",") }, t_part),
        );
    }
    rep.line("end", format!("end pending={}", pending.values().map(|v| v.len()).sum::<usize>()));
    // ---- property oracle per accepted frame ----
    for a in &accepted {
        let taps: Vec<u64> = tap_of.keys().filter(|k| k.0 == a.net).map(|k| k.1).collect();
        let spec = &sc.nets[a.net];
        let got: Vec<u64> = a.got.iter().map(|g| g.0).collect();
        let mut sorted = got.clone();
        sorted.sort();
        let dup = sorted.windows(2).any(|w| w[0] == w[1]);
        if dup {
            rep.fail(format!("network {}: frame from {} to {} delivered more than once to a tap: {:?}", a.net, a.smac, fmt_mac(a.dst), got), "delivered-twice");
        }
        match a.dst {
            Some(d) if d != BROADCAST && taps.contains(&d) => {
                kinds.insert("unicast");
                rep.count("dest.unicast");
                if sorted != vec![d] {
                    rep.fail(format!("network {}: unicast frame from {} to {} reached taps {:?}", a.net, a.smac, d, got), if got.is_empty() { "unicast-lost" } else { "unicast-leaked" });
                }
            }
            Some(d) if d != BROADCAST => {
                kinds.insert("unknown");
                rep.count("dest.unknown");
                if !got.is_empty() {
                    rep.fail(format!("network {}: frame to unknown MAC {} reached taps {:?}", a.net, d, got), "unknown-delivered");
                }
            }
            _ => {
                kinds.insert("broadcast");
                rep.count("dest.broadcast");
                let others: Vec<u64> = taps.iter().copied().filter(|t| *t != a.smac).collect();
                if others.iter().any(|t| !got.contains(t)) || got.iter().any(|g| !taps.contains(g)) {
                    rep.fail(format!("network {}: broadcast from {} reached {:?}, every other tap is {:?}", a.net, a.smac, got, others), "broadcast-incomplete");
                }
            }
        }
        // not earlier than the configured latency
        for (mac, t) in &a.got {
            if *t < a.t_submit + spec.lat_us.0 {
                rep.fail(format!("network {}: frame submitted at {} us reached tap {} at {} us, latency is {} us", a.net, a.t_submit, mac, t, spec.lat_us.0), "earlier-than-latency");
            }
        }
        if a.t_wire.is_none() {
            rep.fail(format!("network {}: accepted frame from {} never entered the network", a.net, a.smac), "accepted-not-on-wire");
        }
    }
    // not faster than the configured throughput: bytes that complete in any window
    // <= thr * window + one frame (1 ms granularity of the API, plus the latency jitter)
    for (n, spec) in sc.nets.iter().enumerate() {
        if spec.thr.0 == 0 {
            continue;
        }
        let thr_max = (spec.thr.0 + spec.thr.1.saturating_sub(1)) as u128;
        // in the order the frames queued for the medium (= order of the hook's send events);
        // frames to unknown MACs are never handed to a tap: they still occupy the medium, which
        // only makes the bound easier for the others; they are left out
        let done: Vec<(u64, usize)> = wire_events
            .iter()
            .map(|(_, i)| &accepted[*i])
            .filter(|a| a.net == n && !a.got.is_empty())
            .map(|a| (a.got.iter().map(|g| g.1).min().unwrap(), a.bytes.len()))
            .collect();
        let slack = 1000 + spec.lat_us.1 as u128;
        let mut worst: Option<(u64, u64, u128)> = None;
        for i in 0..done.len() {
            let mut bytes: u128 = 0;
            for j in i + 1..done.len() {
                bytes += done[j].1 as u128;
                let window = done[j].0.saturating_sub(done[i].0) as u128;
                if bytes * 1_000_000 > thr_max * (window + slack) {
                    worst = Some((done[i].0, done[j].0, bytes));
                }
            }
        }
        rep.count("throughput.networks_checked");
        if let Some((a, b, bytes)) = worst {
            rep.fail(
                format!("network {}: {} bytes (not counting the frame in transmission at the start) completed between {} us and {} us on a {} B/s medium", n, bytes, a, b, thr_max),
                "faster-than-throughput",
            );
        }
    }
    rep.nontrivial = (kinds.contains("unicast") && kinds.contains("broadcast") && (kinds.contains("refused") || kinds.contains("unknown"))) || same_instant_queue;
    if same_instant_queue {
        rep.count("queue.same_instant");
    }
    rep.count(format!("nets.{}", sc.nets.len()));
    for (n, spec) in sc.nets.iter().enumerate() {
        let k = tap_of.keys().filter(|k| k.0 == n).count();
        rep.count(format!("taps_per_net.{}", k));
        rep.count(match spec.lat_us { (0, 0) => "lat.none", (_, 0) => "lat.constant", _ => "lat.variable" });
        rep.count(match spec.thr { (0, 0) => "thr.none", (_, 0) => "thr.constant", _ => "thr.variable" });
    }
    rep.count(format!("status.{}", res.status));
}

fn cfg_lines_of(spec: &str) -> Vec<String> {
    let mut it = spec.lines();
    let head = it.next().unwrap_or("");
    let w: Vec<&str> = head.split_whitespace().collect();
    match w.as_slice() {
        ["gen", _id, seed] => gen_scenario(seed.parse().unwrap_or(1)).to_lines(),
        _ => it.filter(|l| l.starts_with("cfg ")).map(|l| l[4..].to_string()).collect(),
    }
}

/// `c05-attach`: taps attached to one network from several threads at once (machines of a large
/// simulation may be built in parallel) must still get pairwise distinct hardware addresses, none
/// of them the broadcast address, and every one of them must be registered with the network.
/// Oracle-only (the allocator's sequential behaviour is covered by `c05_mac_distinct` and the
/// `link` run; what a model cannot exhibit here is the interleaving of real threads).
fn run_attach(args: &Args) {
    use elvis_core::protocols::Pci;
    use elvis_core::Network;
    let mut out = Out::new(&args.out);
    let mut rng = Rng::new(args.seed);
    for c in 0..args.cases {
        let threads = *rng.pick(&[2usize, 4, 8, 16]);
        let per = *rng.pick(&[10usize, 40, 120]);
        let slots = *rng.pick(&[1usize, 1, 2, 3]);
        out.begin_case(c);
        let net = Network::basic();
        let handles: Vec<_> = (0..threads)
            .map(|_| {
                let net = net.clone();
                std::thread::spawn(move || {
                    let mut macs = vec![];
                    for _ in 0..per {
                        let pci = Pci::new((0..slots).map(|_| net.clone()));
                        macs.extend(pci.mac_addresses());
                    }
                    macs
                })
            })
            .collect();
        let mut all: Vec<u64> = vec![];
        for h in handles {
            all.extend(h.join().unwrap_or_default());
        }
        let n = all.len();
        let mut sorted = all.clone();
        sorted.sort();
        sorted.dedup();
        let registered = net.verif_taps().len();
        out.line(&format!("attach threads={} per={} slots={}", threads, per, slots), &format!("taps={} distinct={} registered={}", n, sorted.len(), registered));
        out.count(&format!("attach.threads.{}", threads));
        out.mark_nontrivial();
        if sorted.len() != n {
            out.fail(&format!("{} taps attached to one network from {} threads got only {} distinct hardware addresses", n, threads, sorted.len()), "mac-duplicate concurrent-attach");
        } else if registered != n {
            out.fail(&format!("{} taps attached but the network knows {} of them", n, registered), "tap-lost concurrent-attach");
        }
        if sorted.iter().any(|m| *m == BROADCAST) {
            out.fail("a tap was given the broadcast address", "mac-broadcast");
        }
        out.end_case();
    }
    out.finish("taps attached to one network concurrently from 2..16 threads (10..120 Pci instances each, 1..3 slots); non-trivial always; distinct = hash of the op line");
}

pub fn run(args: &Args) {
    if args.prop == "c05-attach" {
        return run_attach(args);
    }
    if is_worker(args) {
        worker_loop(|spec| execute(&cfg_lines_of(spec)));
        return;
    }
    let mut out = Out::new(&args.out);
    let specs: Vec<String> = if let Some(rp) = &args.replay {
        vec![format!("replay\n{}", read_ops(rp).join("\n"))]
    } else {
        let mut rng = Rng::new(args.seed);
        (0..args.cases).map(|c| format!("gen {} {}", c, rng.next() >> 1)).collect()
    };
    let workers = args.extra.get("workers").and_then(|s| s.parse().ok()).unwrap_or_else(default_workers);
    let outcomes = run_cases(&args.prop, &specs, workers, 25, 120);
    for (c, o) in outcomes.iter().enumerate() {
        out.begin_case(c as u64);
        match o {
            CaseOutcome::Done(rep) => rep.emit(&mut out),
            CaseOutcome::Died { stderr, .. } => {
                for l in &cfg_lines_of(&specs[c]) {
                    out.line(&format!("cfg {}", l), "cfg");
                }
                let (line, ident) = died_ident(o);
                out.line("crash", &line);
                out.mark_nontrivial();
                out.fail(&format!("the simulation process died while running this scenario: {} :: {}", ident, stderr.lines().take(6).collect::<Vec<_>>().join(" / ")), &ident);
            }
        }
        out.end_case();
    }
    out.finish(RULE);
}
