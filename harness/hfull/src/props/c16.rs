//! C16: routers forward along the route; TTL bounds every packet's life — on the real
//! `ArpRouter` / `Ipv4` / `Arp` / `Pci` / `Network`.
//!
//! A case = a generated topology (lines / stars / rings of 1..5 routers joining 2..6 subnets,
//! 1..2 hosts per subnet, correct / missing / looping / black-hole static routes) given as op
//! lines (`topo`, `host`, `router`), followed by *units*:
//!   `send …`            one datagram, run to quiescence; the answer lists EVERY frame put on a
//!                       network in its time window (ARP and IPv4), every tap delivery of an IPv4
//!                       frame and every application delivery, canonically sorted
//!   `bsend …`* `flush`  several datagrams handed to their stacks within a few milliseconds (scheduler
//!                       sampling); the answer lists the IPv4 frames, tap deliveries and
//!                       application deliveries only (which ARP frames occur depends on the
//!                       interleaving; the model quantifies over it)
//! `kind=udp` datagrams go through `Udp::open_for_sending` + `Session::send` (TTL fixed by
//! `Ipv4HeaderBuilder::new`); `kind=raw` datagrams are built with the real `Ipv4Header::serialize`
//! (any TTL / protocol / flags), resolved with the real `Arp::resolve` and handed to `send_pci`.
//! Everything runs on a paused-clock runtime in worker child processes (a panic of the router ends
//! the process: the parent then re-runs the prefix of the case that survives).
use crate::scaffold::*;
use elvis::applications::ArpRouter;
use elvis_core::{
    machine::PciSlot,
    message::Message,
    protocols::{
        arp::{
            arp_parsing::{ArpPacket, Operation},
            subnetting::{Ipv4Mask, Ipv4Net, SubnetInfo},
        },
        ipv4::{ipv4_parsing::Ipv4Header, Ipv4, Ipv4Address},
        udp::verif::build_udp_header,
        AddressPair, Arp, Pci,
    },
    IpTable,
};
use hcommon::*;
use std::any::TypeId;
use std::collections::BTreeMap;
use std::sync::Arc;

const RULE: &str = "topologies: line / star / hub / ring of 1..5 ArpRouters joining 2..6 /24 subnets, 1..2 hosts per subnet (Udp+Ipv4+Arp(SubnetInfo)+Pci+Recorder); 2 of 5 cases use a WIDE address plan (subnets /16../23, every host and router interface at an address whose last octet is biased to 255 / 0 / 254 / 1, i.e. ordinary host addresses that look like /24 broadcast or network addresses) on shapes with SEVERAL routers on the sender's subnet that all have a usable route (hub, ring, 2..3 parallel routers between the same subnets, redundant star), half of their datagrams through Udp::open_for_sending; static routes correct or mutated (missing entry, wrong neighbour = loop, default route, black-hole gateway, /32 override, wrongly-direct); 2 of 5 cases add NESTED route sets to a router (2..6 entries of lengths 32/31/30/25..29/24/17..23/16/8/1/0 around a host address, host bits set, sibling prefixes, duplicates of one prefix, shuffled, each with its own next hop or slot) and aim datagrams at that address and its /31 and /30 siblings; 1 of 3 sequential cases has TIME STRUCTURE (the ARP frames sent by / the ARP requests for one host or router are lost by the network for some units = whole retry budgets, or a host claims its address late, with datagrams before, during and after); the delivery expectation of every datagram is computed by following the configured tables with a reference longest-prefix match, and every frame a router emits is checked against that reference (slot, next hop); units: sequential sends (udp path TTL 30, raw path TTL 0..255, protocols 17/6/1, fragments, wrong ports, unknown destinations) each run to quiescence and compared frame-for-frame (ARP + IPv4) with the model, and bursts of simultaneous sends compared on IPv4 frames / tap deliveries / application deliveries; paused-clock current_thread runtime; non-trivial = a datagram crossed >= 1 router (>= 2 IPv4 frames with its token); distinct = hash of the case's op lines";

const T0_US: u64 = 1_000;
/// length of a unit's time window.  The scripted sends of ONE host run one after the other, and a
/// resolution nobody answers takes the whole retry budget (10 x 200 ms), so a burst of up to six
/// datagrams of one host for unanswered addresses needs 12 s before the last ARP request is out;
/// the silence oracle wants the last `QUIET_US` of the window free of frames.
const WINDOW_US: u64 = 24_000_000;
const QUIET_US: u64 = 4_000_000;
/// frames per case after which the harness cuts a storm off
const FRAME_CAP: usize = 20_000;

// ------------------------------------------------------------------------------------------
// case description (= the op lines)
// ------------------------------------------------------------------------------------------

#[derive(Clone, Debug)]
struct HostD {
    net: usize,
    mac: u64,
    ip: u32,
    mask: u32,
    gw: u32,
    port: u16,
    /// the host claims its address (ARP answers, UDP binding) only at its `claim` unit
    late: bool,
}
#[derive(Clone, Debug)]
struct RouteD {
    addr: u32,
    len: u32,
    gw: Option<u32>,
    slot: u32,
}
#[derive(Clone, Debug)]
struct RouterD {
    /// (net, mac, ip) per slot
    slots: Vec<(usize, u64, u32)>,
    routes: Vec<RouteD>,
}
#[derive(Clone, Debug)]
enum NodeD {
    Host(HostD),
    Router(RouterD),
}
#[derive(Clone, Debug)]
struct SendD {
    tok: u32,
    h: usize,
    udp: bool,
    src: u32,
    dst: u32,
    ttl: u8,
    proto: u8,
    id: u16,
    tos: u8,
    flags: u8,
    off: u16,
    /// transport payload (for kind=udp: UDP header + data, as the real builder produces it)
    pay: Vec<u8>,
    /// generator's ground truth: this datagram must reach the application of `expect` exactly once
    expect: Option<usize>,
}
#[derive(Clone, Debug)]
enum Unit {
    One(SendD),
    Burst(Vec<SendD>),
    /// fault schedule from this unit on: the networks lose every ARP frame SENT by machine `.0`
    /// (`.1 == false`), or every ARP request FOR one of its addresses (`.1 == true`); `None` = no loss
    Mute(Option<(usize, bool)>),
    /// the late host `.0` claims its address now
    Claim(usize),
}
#[derive(Clone, Debug, Default)]
struct CaseD {
    mtus: Vec<u16>,
    lat: Vec<u64>,
    nodes: Vec<NodeD>,
    units: Vec<Unit>,
    /// no route mutation anywhere (delivery is then required by the oracle)
    clean: bool,
}

fn ip_s(a: u32) -> String {
    fmt_addr(a)
}

fn send_line(word: &str, s: &SendD) -> String {
    let exp = s.expect.map(|e| e.to_string()).unwrap_or("-".into());
    if s.udp {
        format!("{} tok={} h={} kind=udp src={} dst={} pay={} expect={}", word, s.tok, s.h, ip_s(s.src), ip_s(s.dst), hex(&s.pay), exp)
    } else {
        format!(
            "{} tok={} h={} kind=raw src={} dst={} ttl={} proto={} id={} tos={} flags={} off={} pay={} expect={}",
            word, s.tok, s.h, ip_s(s.src), ip_s(s.dst), s.ttl, s.proto, s.id, s.tos, s.flags, s.off, hex(&s.pay), exp
        )
    }
}

impl CaseD {
    fn to_lines(&self) -> Vec<String> {
        let mut l = vec![format!(
            "topo nets={} mtus={} lat={} clean={}",
            self.mtus.len(),
            self.mtus.iter().map(|m| m.to_string()).collect::<Vec<_>>().join(","),
            self.lat.iter().map(|m| m.to_string()).collect::<Vec<_>>().join(","),
            self.clean as u8
        )];
        for (i, n) in self.nodes.iter().enumerate() {
            match n {
                NodeD::Host(h) => l.push(format!("host {} net={} mac={} ip={} mask={} gw={} port={}{}", i, h.net, h.mac, ip_s(h.ip), h.mask, ip_s(h.gw), h.port, if h.late { " late=1" } else { "" })),
                NodeD::Router(r) => l.push(format!(
                    "router {} slots={} routes={}",
                    i,
                    r.slots.iter().map(|(n, m, a)| format!("{}:{}:{}", n, m, ip_s(*a))).collect::<Vec<_>>().join(","),
                    if r.routes.is_empty() {
                        "-".to_string()
                    } else {
                        r.routes.iter().map(|e| format!("{}/{}/{}/{}", ip_s(e.addr), e.len, e.gw.map(ip_s).unwrap_or("-".into()), e.slot)).collect::<Vec<_>>().join(";")
                    }
                )),
            }
        }
        for u in &self.units {
            match u {
                Unit::One(s) => l.push(send_line("send", s)),
                Unit::Burst(v) => {
                    for s in v {
                        l.push(send_line("bsend", s));
                    }
                    l.push("flush".into());
                }
                Unit::Mute(None) => l.push("mute - -".into()),
                Unit::Mute(Some((n, inbound))) => l.push(format!("mute {} {}", n, if *inbound { "in" } else { "out" })),
                Unit::Claim(n) => match self.nodes.get(*n) {
                    Some(NodeD::Host(h)) => l.push(format!("claim {} ip={} mask={} gw={} port={}", n, ip_s(h.ip), h.mask, ip_s(h.gw), h.port)),
                    _ => l.push(format!("claim {}", n)),
                },
            }
        }
        l
    }

    fn parse(lines: &[String]) -> Result<CaseD, String> {
        let mut c = CaseD::default();
        let mut burst: Vec<SendD> = vec![];
        for line in lines {
            let w: Vec<&str> = line.split_whitespace().collect();
            if w.is_empty() {
                continue;
            }
            let kv: BTreeMap<&str, &str> = w.iter().filter_map(|x| x.split_once('=')).collect();
            let bad = || format!("bad line `{}`", line);
            let num = |k: &str| -> Result<u64, String> { kv.get(k).and_then(|v| v.parse().ok()).ok_or_else(bad) };
            let addr = |k: &str| -> Result<u32, String> { kv.get(k).and_then(|v| parse_addr(v)).ok_or_else(bad) };
            match w[0] {
                "case" => {}
                "topo" => {
                    c.mtus = kv.get("mtus").ok_or_else(bad)?.split(',').map(|x| x.parse().unwrap_or(u16::MAX)).collect();
                    c.lat = kv.get("lat").ok_or_else(bad)?.split(',').map(|x| x.parse().unwrap_or(1000)).collect();
                    c.clean = kv.get("clean").map(|v| *v == "1").unwrap_or(false);
                }
                "host" => c.nodes.push(NodeD::Host(HostD {
                    net: num("net")? as usize,
                    mac: num("mac")?,
                    ip: addr("ip")?,
                    mask: num("mask")? as u32,
                    gw: addr("gw")?,
                    port: num("port")? as u16,
                    late: kv.get("late") == Some(&"1"),
                })),
                "router" => {
                    let mut r = RouterD { slots: vec![], routes: vec![] };
                    for s in kv.get("slots").ok_or_else(bad)?.split(',') {
                        let p: Vec<&str> = s.split(':').collect();
                        if p.len() != 3 {
                            return Err(bad());
                        }
                        r.slots.push((p[0].parse().map_err(|_| bad())?, p[1].parse().map_err(|_| bad())?, parse_addr(p[2]).ok_or_else(bad)?));
                    }
                    let rt = kv.get("routes").ok_or_else(bad)?;
                    if *rt != "-" {
                        for e in rt.split(';') {
                            let p: Vec<&str> = e.split('/').collect();
                            if p.len() != 4 {
                                return Err(bad());
                            }
                            r.routes.push(RouteD {
                                addr: parse_addr(p[0]).ok_or_else(bad)?,
                                len: p[1].parse().map_err(|_| bad())?,
                                gw: if p[2] == "-" { None } else { Some(parse_addr(p[2]).ok_or_else(bad)?) },
                                slot: p[3].parse().map_err(|_| bad())?,
                            });
                        }
                    }
                    c.nodes.push(NodeD::Router(r));
                }
                "send" | "bsend" => {
                    let udp = kv.get("kind") == Some(&"udp");
                    let s = SendD {
                        tok: num("tok")? as u32,
                        h: num("h")? as usize,
                        udp,
                        src: addr("src")?,
                        dst: addr("dst")?,
                        ttl: if udp { 0 } else { num("ttl")? as u8 },
                        proto: if udp { 17 } else { num("proto")? as u8 },
                        id: if udp { 0 } else { num("id")? as u16 },
                        tos: if udp { 0 } else { num("tos")? as u8 },
                        flags: if udp { 0 } else { num("flags")? as u8 },
                        off: if udp { 0 } else { num("off")? as u16 },
                        pay: unhex(kv.get("pay").ok_or_else(bad)?),
                        expect: kv.get("expect").and_then(|v| v.parse().ok()),
                    };
                    if w[0] == "send" {
                        c.units.push(Unit::One(s));
                    } else {
                        burst.push(s);
                    }
                }
                "flush" => c.units.push(Unit::Burst(std::mem::take(&mut burst))),
                "mute" => {
                    let who = w.get(1).copied().unwrap_or("-");
                    let dir = w.get(2).copied().unwrap_or("-");
                    c.units.push(Unit::Mute(if who == "-" { None } else { Some((who.parse().map_err(|_| bad())?, dir == "in")) }));
                }
                "claim" => c.units.push(Unit::Claim(w.get(1).and_then(|x| x.parse().ok()).ok_or_else(bad)?)),
                _ => return Err(bad()),
            }
        }
        if c.nodes.is_empty() || c.mtus.is_empty() {
            return Err("no topology".into());
        }
        Ok(c)
    }
}

// ------------------------------------------------------------------------------------------
// reference routing: what "along the routes configured" means, written from the property
// (longest-prefix match over the configured entries, the later of two entries for the same
// prefix replaces the earlier), independent of `IpTable` and of the Lean model
// ------------------------------------------------------------------------------------------

fn mask_of(len: u32) -> u32 {
    if len == 0 {
        0
    } else if len >= 32 {
        u32::MAX
    } else {
        !(u32::MAX >> len)
    }
}

/// the configured entry a datagram for `dst` must follow: the longest prefix that contains it
fn ref_lookup(routes: &[RouteD], dst: u32) -> Option<&RouteD> {
    let mut best: Option<&RouteD> = None;
    for e in routes {
        let m = mask_of(e.len);
        if (e.addr & m) == (dst & m) && best.map(|b| e.len >= b.len).unwrap_or(true) {
            best = Some(e);
        }
    }
    best
}

/// the machine (and its MAC there) that owns `ip` on network `net`; a late host owns its address
/// only once it has claimed it
fn owner_of(c: &CaseD, net: usize, ip: u32, unclaimed: &[usize]) -> Option<(usize, u64)> {
    for (i, n) in c.nodes.iter().enumerate() {
        match n {
            NodeD::Host(h) => {
                if h.net == net && h.ip == ip && !unclaimed.contains(&i) {
                    return Some((i, h.mac));
                }
            }
            NodeD::Router(r) => {
                for s in &r.slots {
                    if s.0 == net && s.2 == ip {
                        return Some((i, s.1));
                    }
                }
            }
        }
    }
    None
}

/// which faults are in force while a datagram travels
#[derive(Clone, Debug, Default)]
struct FaultCtx {
    mute: Option<(usize, bool)>,
    /// late hosts that have not claimed their address yet
    unclaimed: Vec<usize>,
}

/// Follow the configured routes from the sending host: `Some(host)` when they lead, within the
/// TTL, to the host that owns the destination address, every next hop on the way being an address
/// some machine owns on the outgoing network.  `None` = no claim (no route, nobody owns a next
/// hop there, a loop, TTL too small, or a fault in force that may touch the path).
fn expected_delivery(c: &CaseD, s: &SendD, f: &FaultCtx) -> Option<usize> {
    let NodeD::Host(src) = c.nodes.get(s.h)? else { return None };
    if let Some((v, _)) = f.mute {
        // the muted machine's ARP traffic is lost: no claim for datagrams it sends or receives and,
        // when it is a router, for anything that leaves the sender's subnet
        let crosses = (src.ip & mask_of(src.mask)) != (s.dst & mask_of(src.mask)) || src.mask == 32;
        match c.nodes.get(v)? {
            NodeD::Host(h) => {
                if v == s.h || h.ip == s.dst {
                    return None;
                }
            }
            NodeD::Router(_) => {
                if crosses {
                    return None;
                }
            }
        }
    }
    let m = mask_of(src.mask);
    let mut net = src.net;
    let mut nh = if (src.ip & m) == (s.dst & m) { s.dst } else { src.gw };
    let mut ttl = s.ttl as u32;
    let mut seen: Vec<usize> = vec![];
    loop {
        let (owner, _) = owner_of(c, net, nh, &f.unclaimed)?;
        match &c.nodes[owner] {
            NodeD::Host(h) => return if h.ip == s.dst && owner != s.h { Some(owner) } else { None },
            NodeD::Router(r) => {
                if ttl <= 1 || seen.contains(&owner) {
                    return None;
                }
                ttl -= 1;
                seen.push(owner);
                let e = ref_lookup(&r.routes, s.dst)?;
                let slot = r.slots.get(e.slot as usize)?;
                net = slot.0;
                nh = e.gw.unwrap_or(s.dst);
            }
        }
    }
}

/// the full claim of the delivery clause for one datagram: it is a whole UDP datagram for the
/// port the destination application is bound to, and the configured routes lead there in time
fn expect_of(c: &CaseD, s: &SendD, f: &FaultCtx) -> Option<usize> {
    if s.proto != 17 || s.flags & 1 != 0 || s.off != 0 || s.pay.len() < 8 {
        return None;
    }
    let d = expected_delivery(c, s, f)?;
    let dport = u16::from_be_bytes([s.pay[2], s.pay[3]]);
    match &c.nodes[d] {
        NodeD::Host(h) if h.port == dport => Some(d),
        _ => None,
    }
}

// ------------------------------------------------------------------------------------------
// generator
// ------------------------------------------------------------------------------------------

fn net_base(n: usize) -> u32 {
    (10u32 << 24) | ((n as u32) << 8)
}

struct Graph {
    /// routers: list of nets per router (slot order)
    routers: Vec<Vec<usize>>,
    nets: usize,
    /// address plan: network id and prefix length per net.  Narrow plan: 10.0.n.0/24, routers at
    /// .1+r, hosts at .10/.11.  WIDE plan: 10.(n+1).0.0 with a prefix length 16..23, every machine
    /// at an offset whose last octet is biased to 255 / 0 / 254 / 1 (ordinary host addresses there)
    base: Vec<u32>,
    plen: Vec<u32>,
    /// router addresses per (router, net) under the wide plan
    rip: BTreeMap<(usize, usize), u32>,
    /// host offsets handed out per net (wide plan)
    used: Vec<Vec<u32>>,
    wide: bool,
}

impl Graph {
    fn new(routers: Vec<Vec<usize>>, nets: usize) -> Graph {
        Graph { routers, nets, base: (0..nets).map(net_base).collect(), plen: vec![24; nets], rip: BTreeMap::new(), used: vec![vec![]; nets], wide: false }
    }
    /// switch to the wide plan and give every router interface its address
    fn widen(&mut self, rng: &mut Rng) {
        self.wide = true;
        for n in 0..self.nets {
            self.plen[n] = *rng.pick(&[16u32, 16, 17, 20, 22, 23, 23]);
            self.base[n] = (10u32 << 24) | ((n as u32 + 1) << 16);
        }
        for r in 0..self.routers.len() {
            for n in self.routers[r].clone() {
                let a = self.edge_addr(n, rng);
                self.rip.insert((r, n), a);
            }
        }
    }
    /// a fresh address of net `n` under the wide plan: any value of the host part except all-zeros
    /// (the network id) and all-ones (the directed broadcast), the LAST OCTET biased to 255, 0, 254, 1
    fn edge_addr(&mut self, n: usize, rng: &mut Rng) -> u32 {
        let bits = 32 - self.plen[n];
        let top = (1u32 << bits) - 1; // all-ones host part
        loop {
            let hi = rng.below(1u64 << (bits - 8)) as u32;
            let rl = rng.below(256) as u32;
            let lo = *rng.pick(&[255u32, 255, 255, 0, 0, 254, 1, rl]);
            let off = (hi << 8) | lo;
            if off != 0 && off != top && !self.used[n].contains(&off) {
                self.used[n].push(off);
                return self.base[n] | off;
            }
        }
    }
    fn router_ip(&self, r: usize, net: usize) -> u32 {
        if self.wide {
            // a router that does not exist / is not attached there: an address nobody owns
            self.rip.get(&(r, net)).copied().unwrap_or_else(|| self.nobody(net))
        } else {
            net_base(net) + 1 + r as u32
        }
    }
    /// an address inside net `n` that no machine owns
    fn nobody(&self, n: usize) -> u32 {
        if !self.wide || n >= self.nets {
            return net_base(n) + 200;
        }
        let off = [200u32, 201, 0x14d, 99, 100, 300].into_iter().find(|o| !self.used[n].contains(o)).unwrap_or(77);
        self.base[n] | off
    }
    /// another one (the "nobody there" destinations)
    fn nobody2(&self, n: usize) -> u32 {
        if !self.wide || n >= self.nets {
            return net_base(n) + 99;
        }
        let off = [0xffu32, 0x1fe, 99, 98, 97].into_iter().find(|o| !self.used[n].contains(o)).unwrap_or(78);
        self.base[n] | off
    }
    /// BFS over routers (adjacent = share a net): for router `r`, per destination net:
    /// None = unreachable, Some((None, slot, 0)) = attached, Some((Some(next router), slot, dist))
    fn routes(&self, r: usize) -> Vec<Option<(Option<usize>, usize, usize)>> {
        let mut out = vec![None; self.nets];
        // distance of every router from r, with first hop (router, via net)
        let n = self.routers.len();
        let mut dist = vec![usize::MAX; n];
        let mut first: Vec<Option<(usize, usize)>> = vec![None; n];
        dist[r] = 0;
        let mut q = std::collections::VecDeque::new();
        q.push_back(r);
        while let Some(x) = q.pop_front() {
            for y in 0..n {
                if dist[y] != usize::MAX {
                    continue;
                }
                if let Some(shared) = self.routers[x].iter().find(|a| self.routers[y].contains(a)) {
                    dist[y] = dist[x] + 1;
                    first[y] = if x == r { Some((y, *shared)) } else { first[x] };
                    q.push_back(y);
                }
            }
        }
        for d in 0..self.nets {
            if let Some(slot) = self.routers[r].iter().position(|a| *a == d) {
                out[d] = Some((None, slot, 0));
                continue;
            }
            let mut best: Option<(usize, usize)> = None; // (dist, router)
            for y in 0..n {
                if dist[y] != usize::MAX && self.routers[y].contains(&d) && best.map(|b| dist[y] < b.0).unwrap_or(true) {
                    best = Some((dist[y], y));
                }
            }
            if let Some((dd, y)) = best {
                let (nh, via) = first[y].unwrap();
                let slot = self.routers[r].iter().position(|a| *a == via).unwrap();
                out[d] = Some((Some(nh), slot, dd));
            }
        }
        out
    }
}

fn gen_case(rng: &mut Rng) -> CaseD {
    // ---- shape ----
    // WIDE address plan (2 of 5 cases): subnets /16../23 whose machines sit at addresses ending in
    // .255 / .0 / .254 / .1 (ordinary host addresses inside a network wider than /24), on shapes with
    // SEVERAL routers on the sender's subnet, all with a usable route to the destination
    let wide = rng.chance(2, 5);
    let shape = if wide { *rng.pick(&[2u64, 3, 4, 4, 5, 0, 1]) } else { rng.below(6) };
    let mut g = match shape {
        0 => {
            // line: router i joins net i and i+1
            let r = rng.range(1, 5) as usize;
            Graph::new((0..r).map(|i| vec![i, i + 1]).collect(), r + 1)
        }
        1 => {
            // star: one router joins all nets
            let s = rng.range(2, 6) as usize;
            Graph::new(vec![(0..s).collect()], s)
        }
        2 => {
            // hub: net 0 in the middle, router i joins net 0 and leaf net i+1
            let r = rng.range(if wide { 2 } else { 1 }, 5) as usize;
            Graph::new((0..r).map(|i| vec![0, i + 1]).collect(), r + 1)
        }
        3 => {
            // ring: router i joins net i and net (i+1) mod r
            let r = rng.range(2, 5) as usize;
            Graph::new((0..r).map(|i| vec![i, (i + 1) % r]).collect(), r)
        }
        4 => {
            // parallel: 2..3 routers ALL join net 0 and net 1 (redundant gateways: each of them has a
            // direct route to the other subnet); sometimes one more router leads on from net 1 to net 2
            let r = rng.range(2, 3) as usize;
            let mut routers: Vec<Vec<usize>> = (0..r).map(|_| vec![0, 1]).collect();
            let mut nets = 2;
            if rng.chance(1, 3) {
                routers.push(vec![1, 2]);
                nets = 3;
            }
            Graph::new(routers, nets)
        }
        _ => {
            // redundant star: 2..3 routers each join ALL of 2..3 nets
            let r = rng.range(2, 3) as usize;
            let s = rng.range(2, 3) as usize;
            Graph::new((0..r).map(|_| (0..s).collect()).collect(), s)
        }
    };
    if wide {
        g.widen(rng);
    }
    let nets = g.nets;
    let mut c = CaseD { mtus: vec![u16::MAX; nets], lat: vec![], nodes: vec![], units: vec![], clean: true };
    for _ in 0..nets {
        c.lat.push(*rng.pick(&[200u64, 1000, 1000, 3000]));
    }
    if rng.chance(1, 4) {
        for m in c.mtus.iter_mut() {
            *m = 1500;
        }
    }
    // ---- machines: hosts first (machine order decides MACs), then routers ----
    let mut next_mac = vec![0u64; nets];
    let mut hosts: Vec<usize> = vec![]; // node indices
    let mut budget = 9usize.saturating_sub(g.routers.len());
    for n in 0..nets {
        let k = if budget > nets - n { rng.range(1, 2) as usize } else { 1 };
        for j in 0..k {
            // default gateway: a router attached to this net
            let att: Vec<usize> = (0..g.routers.len()).filter(|r| g.routers[*r].contains(&n)).collect();
            let gw = if att.is_empty() { g.base[n] + 1 } else { g.router_ip(*rng.pick(&att), n) };
            let mask = if rng.chance(1, 10) { 32 } else { g.plen[n] };
            let mac = next_mac[n];
            next_mac[n] += 1;
            hosts.push(c.nodes.len());
            let ip = if g.wide { g.edge_addr(n, rng) } else { net_base(n) + 10 + j as u32 };
            c.nodes.push(NodeD::Host(HostD { net: n, mac, ip, mask, gw, port: 5000 + (c.nodes.len() as u16), late: false }));
            budget = budget.saturating_sub(1);
        }
    }
    let first_router = c.nodes.len();
    for (r, rn) in g.routers.iter().enumerate() {
        let mut slots = vec![];
        for n in rn {
            slots.push((*n, next_mac[*n], g.router_ip(r, *n)));
            next_mac[*n] += 1;
        }
        let mut routes = vec![];
        for (d, e) in g.routes(r).iter().enumerate() {
            if let Some((nh, slot, _)) = e {
                let via = rn[*slot];
                routes.push(RouteD { addr: g.base[d], len: g.plen[d], gw: nh.map(|y| g.router_ip(y, via)), slot: *slot as u32 });
            }
        }
        c.nodes.push(NodeD::Router(RouterD { slots, routes }));
    }
    // ---- route mutations ----
    let mutate = rng.chance(1, 2);
    let burst_case = rng.chance(1, 4);
    if mutate {
        c.clean = false;
        let nm = rng.range(1, 3);
        for _ in 0..nm {
            let r = rng.below(g.routers.len() as u64) as usize;
            let rn = g.routers[r].clone();
            let NodeD::Router(rd) = &mut c.nodes[first_router + r] else { unreachable!() };
            let kind = rng.below(if burst_case { 5 } else { 7 });
            match kind {
                0 => {
                    // missing entry
                    if !rd.routes.is_empty() {
                        let i = rng.below(rd.routes.len() as u64) as usize;
                        rd.routes.remove(i);
                    }
                }
                1 => {
                    // wrong neighbour (loops in lines and rings): send a remote net to another adjacent router
                    let remote: Vec<usize> = (0..rd.routes.len()).filter(|i| rd.routes[*i].gw.is_some()).collect();
                    if !remote.is_empty() {
                        let i = *rng.pick(&remote);
                        let slot = rng.below(rn.len() as u64) as usize;
                        let via = rn[slot];
                        let others: Vec<usize> = (0..g.routers.len()).filter(|y| *y != r && g.routers[*y].contains(&via)).collect();
                        if !others.is_empty() {
                            rd.routes[i].gw = Some(g.router_ip(*rng.pick(&others), via));
                            rd.routes[i].slot = slot as u32;
                        }
                    }
                }
                2 => {
                    // default route to a neighbour (unknown destinations wander)
                    let slot = rng.below(rn.len() as u64) as usize;
                    let via = rn[slot];
                    let others: Vec<usize> = (0..g.routers.len()).filter(|y| *y != r && g.routers[*y].contains(&via)).collect();
                    if !others.is_empty() {
                        rd.routes.push(RouteD { addr: 0, len: 0, gw: Some(g.router_ip(*rng.pick(&others), via)), slot: slot as u32 });
                    }
                }
                3 => {
                    // black-hole gateway: an address nobody owns on that net
                    if !rd.routes.is_empty() {
                        let i = rng.below(rd.routes.len() as u64) as usize;
                        let via = rn[rd.routes[i].slot as usize];
                        rd.routes[i].gw = Some(g.nobody(via));
                    }
                }
                4 => {
                    // /32 override of one host with a (possibly wrong) neighbour
                    let hidx = *rng.pick(&hosts);
                    let NodeD::Host(hd) = c.nodes[hidx].clone() else { unreachable!() };
                    let NodeD::Router(rd) = &mut c.nodes[first_router + r] else { unreachable!() };
                    let slot = rng.below(rn.len() as u64) as usize;
                    let via = rn[slot];
                    let others: Vec<usize> = (0..g.routers.len()).filter(|y| *y != r && g.routers[*y].contains(&via)).collect();
                    if !others.is_empty() {
                        rd.routes.push(RouteD { addr: hd.ip, len: 32, gw: Some(g.router_ip(*rng.pick(&others), via)), slot: slot as u32 });
                    }
                }
                5 => {
                    // wrongly direct: a remote net declared attached to some slot
                    let remote: Vec<usize> = (0..rd.routes.len()).filter(|i| rd.routes[*i].gw.is_some()).collect();
                    if !remote.is_empty() {
                        let i = *rng.pick(&remote);
                        rd.routes[i].gw = None;
                    }
                }
                _ => {
                    // wrong slot for an attached net
                    let local: Vec<usize> = (0..rd.routes.len()).filter(|i| rd.routes[*i].gw.is_none()).collect();
                    if !local.is_empty() && rn.len() > 1 {
                        let i = *rng.pick(&local);
                        rd.routes[i].slot = (rd.routes[i].slot + 1) % rn.len() as u32;
                    }
                }
            }
        }
    }
    // ---- nested / overlapping prefixes (longest-prefix match at every depth) ----
    // route sets in which several entries contain the same address: host routes /32, /31 and /30
    // pairs, /25../29 slices, the /24, and /23../0 supernets, each with its own next hop / slot (the
    // right one, another neighbour, directly attached on some slot, an address nobody owns), entries
    // written with host bits set, sibling prefixes that do NOT contain the address, duplicates of
    // one prefix (the later one is the route), in any order of registration
    let mut focus: Vec<usize> = vec![];
    if rng.chance(2, 5) {
        c.clean = false;
        for _ in 0..rng.range(1, 2) {
            let r = rng.below(g.routers.len() as u64) as usize;
            let rn = g.routers[r].clone();
            let hidx = *rng.pick(&hosts);
            let NodeD::Host(hd) = c.nodes[hidx].clone() else { unreachable!() };
            focus.push(hidx);
            let a = hd.ip;
            let NodeD::Router(rd) = &mut c.nodes[first_router + r] else { unreachable!() };
            let right: Option<RouteD> = ref_lookup(&rd.routes, a).cloned();
            let k = rng.range(2, 6);
            for _ in 0..k {
                let len: u32 = match rng.below(12) {
                    0 | 1 => 32,
                    2 | 3 => 31,
                    4 => 30,
                    5 => rng.range(25, 29) as u32,
                    6 => 24,
                    7 => rng.range(17, 23) as u32,
                    8 => *rng.pick(&[16u32, 8, 1]),
                    9 => 0,
                    _ => rng.range(0, 32) as u32,
                };
                let m = mask_of(len);
                let mut addr = a & m;
                match rng.below(8) {
                    // written with host bits set (the table must mask them off)
                    0 => addr |= (rng.next() as u32) & !m,
                    // the sibling prefix of the same length: does not contain `a`
                    1 | 2 if len >= 1 => addr ^= 1u32 << (32 - len),
                    _ => {}
                }
                let slot = rng.below(rn.len() as u64) as usize;
                let via = rn[slot];
                let others: Vec<usize> = (0..g.routers.len()).filter(|y| *y != r && g.routers[*y].contains(&via)).collect();
                let e = match rng.below(8) {
                    0 | 1 | 2 if right.is_some() => {
                        let rt = right.clone().unwrap();
                        RouteD { addr, len, gw: rt.gw, slot: rt.slot }
                    }
                    3 | 4 if !others.is_empty() => RouteD { addr, len, gw: Some(g.router_ip(*rng.pick(&others), via)), slot: slot as u32 },
                    5 => RouteD { addr, len, gw: Some(g.nobody(via)), slot: slot as u32 },
                    _ => RouteD { addr, len, gw: None, slot: slot as u32 },
                };
                rd.routes.push(e);
            }
            if rng.chance(1, 3) && !rd.routes.is_empty() {
                // the same prefix registered again with another next hop
                let mut e = rng.pick(&rd.routes).clone();
                let slot = rng.below(rn.len() as u64) as usize;
                e.slot = slot as u32;
                e.gw = if rng.chance(1, 2) { None } else { Some(g.router_ip(rng.below(g.routers.len() as u64) as usize, rn[slot])) };
                rd.routes.push(e);
            }
            if rng.chance(1, 2) {
                for i in (1..rd.routes.len()).rev() {
                    let j = rng.below(i as u64 + 1) as usize;
                    rd.routes.swap(i, j);
                }
            }
        }
    }
    // ---- time structure: a machine whose ARP traffic is lost for a while, or a host that claims
    // its address late; datagrams before, during and after ----
    let timed = !burst_case && rng.chance(1, 3);
    let timed_kind = rng.below(8); // 0..4 mute a host, 5 mute a router, 6..7 late host
    let victim_host = *rng.pick(&hosts);
    if timed && timed_kind >= 6 && hosts.len() >= 2 {
        if let NodeD::Host(h) = &mut c.nodes[victim_host] {
            h.late = true;
        }
    }
    let senders: Vec<usize> = hosts.iter().cloned().filter(|x| !matches!(&c.nodes[*x], NodeD::Host(h) if h.late)).collect();
    // ---- one datagram ----
    // `from` / `to`: fixed source / destination host; `good`: a whole UDP datagram for the bound
    // port with a TTL that suffices wherever the routes lead
    let mut tok_ctr = 0u32;
    let mut gen_send = |rng: &mut Rng, c: &CaseD, f: &FaultCtx, from: Option<usize>, to: Option<usize>, good: bool| -> SendD {
        tok_ctr += 1;
        let tok = tok_ctr;
        let hs = from.unwrap_or_else(|| *rng.pick(&senders));
        let NodeD::Host(src) = c.nodes[hs].clone() else { unreachable!() };
        // destination
        let dk = rng.below(20);
        let (dst, dhost): (u32, Option<usize>) = if let Some(d) = to {
            let NodeD::Host(dh) = &c.nodes[d] else { unreachable!() };
            (dh.ip, Some(d))
        } else if !focus.is_empty() && rng.chance(1, 2) {
            // towards the addresses the nested route sets are about (and their /31, /30 siblings)
            let d = *rng.pick(&focus);
            let NodeD::Host(dh) = &c.nodes[d] else { unreachable!() };
            match rng.below(6) {
                0 => (dh.ip ^ 1, hosts.iter().cloned().find(|x| matches!(&c.nodes[*x], NodeD::Host(h) if h.ip == dh.ip ^ 1))),
                1 => (dh.ip ^ 2, None),
                _ => (dh.ip, Some(d)),
            }
        } else if dk < 14 {
            // another host, other subnet preferred
            let other: Vec<usize> = hosts.iter().cloned().filter(|x| *x != hs).collect();
            let far: Vec<usize> = other.iter().cloned().filter(|x| matches!(&c.nodes[*x], NodeD::Host(h) if h.net != src.net)).collect();
            let pool = if !far.is_empty() && rng.chance(4, 5) { far } else { other };
            if pool.is_empty() {
                (g.nobody2(src.net), None)
            } else {
                let d = *rng.pick(&pool);
                let NodeD::Host(dh) = &c.nodes[d] else { unreachable!() };
                (dh.ip, Some(d))
            }
        } else if dk < 16 {
            (g.nobody2(rng.below(nets as u64) as usize), None) // nobody there
        } else if dk < 18 {
            (net_base(nets + 3) + 10, None) // unknown subnet
        } else if dk < 19 {
            // a router's own address
            let r = rng.below(g.routers.len() as u64) as usize;
            (g.router_ip(r, g.routers[r][0]), None)
        } else {
            (src.ip, Some(hs)) // itself
        };
        // the udp path is the one through `Ipv4::open_for_sending`
        let udp = if g.wide { rng.chance(1, 2) } else { rng.chance(1, 3) };
        let dport = match dhost {
            Some(d) => {
                let NodeD::Host(dh) = &c.nodes[d] else { unreachable!() };
                if !good && rng.chance(1, 12) { dh.port + 100 } else { dh.port }
            }
            None => 7,
        };
        let dlen = *rng.pick(&[2usize, 2, 3, 8, 20]);
        let mut data = vec![(tok >> 8) as u8, tok as u8];
        data.extend(rng.bytes(dlen - 2));
        let proto: u8 = if udp || good { 17 } else { *rng.pick(&[17u8, 17, 17, 17, 17, 17, 6, 1]) };
        let pay = if proto == 17 {
            let mut p = build_udp_header(Ipv4Address::from(src.ip), 4000 + tok as u16, Ipv4Address::from(dst), dport, data.iter().cloned(), data.len()).expect("udp header");
            p.extend_from_slice(&data);
            p
        } else {
            let mut p = rng.bytes(8);
            p.extend_from_slice(&data);
            p
        };
        // routers between the subnets on the unmutated graph (only to place TTLs around the need)
        let hops_needed: Option<usize> = dhost.and_then(|d| {
            let NodeD::Host(dh) = &c.nodes[d] else { unreachable!() };
            if dh.net == src.net {
                Some(0)
            } else {
                let gr = (0..g.routers.len()).find(|r| g.routers[*r].contains(&src.net) && g.router_ip(*r, src.net) == src.gw)?;
                g.routes(gr)[dh.net].map(|e| e.2 + 1)
            }
        });
        let ttl: u8 = if udp {
            30 // Ipv4HeaderBuilder's default: the stack chooses it on the udp path
        } else if good {
            *rng.pick(&[30u8, 64, 255, 12])
        } else {
            let k = hops_needed.unwrap_or(2) as u8;
            match rng.below(14) {
                0 => if rng.chance(1, 3) { 0 } else { 1 },
                1 => 1,
                2 => 2,
                3 => k.max(1),
                4 | 5 => k + 1,
                6 => k.saturating_sub(1).max(1),
                7 => 3,
                8 => 255,
                9 => 64,
                10 => rng.range(4, 12) as u8,
                11 => k + 2,
                _ => 30,
            }
        };
        let (flags, off) = if good { (0, 0) } else if !udp && rng.chance(1, 15) { (*rng.pick(&[1u8, 1, 3]), *rng.pick(&[0u16, 0, 5])) } else if !udp && rng.chance(1, 6) { (2, 0) } else { (0, 0) };
        let mut sd = SendD { tok, h: hs, udp, src: src.ip, dst, ttl, proto, id: if udp { 0 } else { 1000 + tok as u16 }, tos: if !udp && rng.chance(1, 8) { 0x10 } else { 0 }, flags, off, pay, expect: None };
        // ground truth of the delivery clause: follow the configured routes (reference longest-prefix match)
        sd.expect = expect_of(c, &sd, f);
        sd
    };
    let mut fctx = FaultCtx::default();
    fctx.unclaimed = hosts.iter().cloned().filter(|x| matches!(&c.nodes[*x], NodeD::Host(h) if h.late)).collect();
    if timed && hosts.len() >= 2 {
        // who sends towards the victim: a host of another subnet if there is one (then a router
        // has to resolve the victim), the victim's neighbour otherwise
        let d = victim_host;
        let NodeD::Host(dh) = c.nodes[d].clone() else { unreachable!() };
        let far: Vec<usize> = senders.iter().cloned().filter(|x| *x != d && matches!(&c.nodes[*x], NodeD::Host(h) if h.net != dh.net)).collect();
        let near: Vec<usize> = senders.iter().cloned().filter(|x| *x != d).collect();
        let pool = if !far.is_empty() && rng.chance(5, 6) { far } else { near };
        let late = dh.late;
        let victim: usize = if !late && timed_kind == 5 { first_router + rng.below(g.routers.len() as u64) as usize } else { d };
        let mut units: Vec<Unit> = vec![];
        // before: sometimes unrelated traffic, sometimes the victim is already known to its neighbours
        for _ in 0..rng.below(3) {
            let s = gen_send(rng, &c, &fctx, None, None, false);
            units.push(Unit::One(s));
        }
        if !late {
            fctx.mute = Some((victim, rng.chance(1, 4)));
            units.push(Unit::Mute(fctx.mute));
        }
        // during: the resolution of the victim runs out of its whole retry budget (once or twice)
        for _ in 0..rng.range(1, 2) {
            let from = *rng.pick(&pool);
            let s = gen_send(rng, &c, &fctx, Some(from), Some(d), true);
            units.push(Unit::One(s));
        }
        if rng.chance(1, 3) {
            let s = gen_send(rng, &c, &fctx, None, None, false);
            units.push(Unit::One(s));
        }
        // the victim answers from now on
        if late {
            fctx.unclaimed.retain(|x| *x != d);
            units.push(Unit::Claim(d));
        } else {
            fctx.mute = None;
            units.push(Unit::Mute(None));
        }
        // after: the routes are usable, the datagrams must arrive
        for _ in 0..rng.range(1, 3) {
            let from = if rng.chance(3, 4) { Some(*rng.pick(&pool)) } else { None };
            let s = gen_send(rng, &c, &fctx, from, Some(d), true);
            units.push(Unit::One(s));
        }
        if rng.chance(1, 2) {
            let s = gen_send(rng, &c, &fctx, None, None, false);
            units.push(Unit::One(s));
        }
        c.units = units;
        return c;
    }
    // ---- sends ----
    let nsend = rng.range(2, 6) as usize;
    let mut sends = vec![];
    for _ in 0..nsend {
        sends.push(gen_send(rng, &c, &fctx, None, None, false));
    }
    if burst_case {
        let split = rng.below(sends.len() as u64) as usize;
        let tail = sends.split_off(split);
        for s in sends {
            c.units.push(Unit::One(s));
        }
        if !tail.is_empty() {
            c.units.push(Unit::Burst(tail));
        }
    } else {
        for s in sends {
            c.units.push(Unit::One(s));
        }
    }
    c
}

// ------------------------------------------------------------------------------------------
// executor: the real stack
// ------------------------------------------------------------------------------------------

fn datagram_bytes(s: &SendD) -> Vec<u8> {
    let h = Ipv4Header {
        ihl: 5,
        type_of_service: s.tos.into(),
        total_length: (20 + s.pay.len()) as u16,
        identification: s.id,
        fragment_offset: s.off,
        flags: s.flags.into(),
        time_to_live: s.ttl,
        protocol: s.proto,
        checksum: 0,
        source: Ipv4Address::from(s.src),
        destination: Ipv4Address::from(s.dst),
    };
    let mut b = h.serialize().expect("header builds");
    b.extend_from_slice(&s.pay);
    b
}

fn send_action(at: u64, s: &SendD, host: &HostD) -> Action {
    if s.udp {
        // UDP header is rebuilt by the real UdpSession: hand it the data and the ports of `pay`
        let sport = u16::from_be_bytes([s.pay[0], s.pay[1]]);
        let dport = u16::from_be_bytes([s.pay[2], s.pay[3]]);
        Action {
            at: Some(at),
            kind: ActionKind::Open { local: Ep::new(s.src, sport), remote: Ep::new(s.dst, dport), listen: false, payloads: vec![s.pay[8..].to_vec()] },
        }
    } else {
        let bytes = datagram_bytes(s);
        let local = Ipv4Address::from(host.ip);
        let remote = Ipv4Address::from(s.dst);
        Action {
            at: Some(at),
            kind: ActionKind::Custom(Arc::new(move |ctx: Ctx| {
                let bytes = bytes.clone();
                Box::pin(async move {
                    let arp = ctx.machine.protocol::<Arp>().expect("host has Arp");
                    set_cause(None);
                    if let Ok(mac) = arp.resolve(AddressPair { local, remote }, 0, ctx.machine.clone()).await {
                        let _ = ctx.machine.protocol::<Pci>().unwrap().open(0).send_pci(Message::new(bytes), Some(mac), TypeId::of::<Ipv4>());
                    }
                })
            })),
        }
    }
}

/// does this op line belong to a unit (everything after the topology lines)?
fn is_unit_line(l: &str) -> bool {
    l.starts_with("send ") || l.starts_with("bsend ") || l == "flush" || l.starts_with("mute ") || l.starts_with("claim ")
}
/// does this op line end a unit?
fn ends_unit(l: &str) -> bool {
    l.starts_with("send ") || l == "flush" || l.starts_with("mute ") || l.starts_with("claim ")
}

/// time at which unit `u` starts
fn unit_start(u: usize) -> u64 {
    T0_US + u as u64 * WINDOW_US
}

fn build_scenario(c: &CaseD, upto: usize) -> Scenario {
    let nets: Vec<NetSpec> = (0..c.mtus.len()).map(|i| NetSpec { mtu: if c.mtus[i] == u16::MAX { None } else { Some(c.mtus[i]) }, lat_us: (c.lat[i], 0), thr: (0, 0) }).collect();
    let mut machines = vec![];
    for (i, n) in c.nodes.iter().enumerate() {
        match n {
            NodeD::Host(h) => {
                // a late host binds nothing (and its Arp knows no local address) before its claim
                let mut script = if h.late { vec![] } else { vec![Action { at: None, kind: ActionKind::Listen(Ep::new(h.ip, h.port)) }] };
                for (ui, u) in c.units.iter().enumerate().take(upto) {
                    match u {
                        Unit::Claim(n) if *n == i && h.late => {
                            // the address is claimed now: subnet information for Arp, then the
                            // application's listen (Udp::listen -> Ipv4::listen -> Arp::listen)
                            let (ip, mask, gw) = (h.ip, h.mask, h.gw);
                            script.push(Action {
                                at: Some(unit_start(ui)),
                                kind: ActionKind::Custom(Arc::new(move |ctx: Ctx| {
                                    Box::pin(async move {
                                        let arp = ctx.machine.protocol::<Arp>().expect("host has Arp");
                                        arp.set_subnet(Ipv4Address::from(ip), SubnetInfo { mask: Ipv4Mask::from_bitcount(mask), default_gateway: Ipv4Address::from(gw) });
                                    })
                                })),
                            });
                            script.push(Action { at: Some(unit_start(ui)), kind: ActionKind::Listen(Ep::new(h.ip, h.port)) });
                        }
                        Unit::One(s) if s.h == i => script.push(send_action(unit_start(ui), s, h)),
                        Unit::Burst(v) => {
                            for (j, s) in v.iter().enumerate() {
                                if s.h == i {
                                    // within a few hundred microseconds of each other
                                    script.push(send_action(unit_start(ui) + (j as u64 % 3) * 150, s, h));
                                }
                            }
                        }
                        _ => {}
                    }
                }
                machines.push(MachineSpec {
                    nets: vec![h.net],
                    arp: false, // added by `extra` with its SubnetInfo
                    udp: true,
                    routes: vec![Route { addr: h.ip, mask_len: 32, slot: 0, mac: None }],
                    apps: vec![AppSpec { n: 0, script, ..Default::default() }],
                    ..Default::default()
                });
            }
            NodeD::Router(r) => machines.push(MachineSpec {
                nets: r.slots.iter().map(|s| s.0).collect(),
                arp: false,
                routes: r.slots.iter().map(|s| Route { addr: s.2, mask_len: 32, slot: 0, mac: None }).collect(),
                ..Default::default()
            }),
        }
    }
    Scenario { nets, machines, mode: RtMode::Paused, duration_us: unit_start(upto.min(c.units.len())) + 500_000 }
}

fn item_ip(net: usize, smac: u64, dmac: Option<u64>, bytes: &[u8]) -> Option<(String, u32, u8, Ipv4Header)> {
    let h = Ipv4Header::from_bytes(bytes.iter().cloned()).ok()?;
    let pay = &bytes[20.min(bytes.len())..];
    let tok = if pay.len() >= 10 { u16::from_be_bytes([pay[8], pay[9]]) as u32 } else { 0 };
    let s = format!(
        "W:n{}:{}>{}:t{}:ttl{}:{}.{}.{}.{}.{}.{}.{}.{}:{}",
        net,
        smac,
        dmac.map(|m| m.to_string()).unwrap_or("*".into()),
        tok,
        h.time_to_live,
        h.type_of_service.as_u8(),
        h.total_length,
        h.identification,
        h.flags.as_u8(),
        h.fragment_offset,
        h.protocol,
        h.source.to_u32(),
        h.destination.to_u32(),
        hex(pay)
    );
    Some((s, tok, h.time_to_live, h))
}

fn item_arp(net: usize, smac: u64, dmac: Option<u64>, bytes: &[u8]) -> Option<String> {
    let p = ArpPacket::from_bytes(bytes.iter().cloned()).ok()?;
    Some(match p.oper {
        Operation::Request => format!("A:n{}:{}>*:q:{}:{}:{}", net, smac, p.sender_ip.to_u32(), p.sender_mac, p.target_ip.to_u32()),
        Operation::Reply => format!(
            "A:n{}:{}>{}:p:{}:{}:{}:{}",
            net,
            smac,
            dmac.map(|m| m.to_string()).unwrap_or("*".into()),
            p.sender_ip.to_u32(),
            p.sender_mac,
            p.target_ip.to_u32(),
            p.target_mac
        ),
    })
}

fn panic_site_name(file: &str, text: &str) -> String {
    let f = file.rsplit('/').next().unwrap_or("");
    let t = text.trim();
    if f == "arp_router.rs" && t.starts_with("ipv4_header.time_to_live -=") {
        "panic:sub:ArpRouter::demux:time_to_live".into()
    } else if f == "arp_router.rs" && t.contains(".expect(\"failed to send\")") {
        "panic:expect:ArpRouter::demux:send_pci".into()
    } else if f == "arp_router.rs" && t.contains("self.local_ips[slot as usize]") {
        "panic:index:ArpRouter::demux:local_ips".into()
    } else if f == "ipv4_parsing.rs" && t.contains("self.total_length - BASE_OCTETS") {
        "panic:sub:Ipv4Header::serialize:total_length".into()
    } else if f == "pci.rs" && t.contains("self.sessions.get(slot as usize).unwrap()") {
        "panic:unwrap:Pci::open".into()
    } else {
        format!("panic:other:{}:{}", f, t.replace(' ', "_"))
    }
}

/// Run the first `upto` units of the case on the real stack; one (op, answer) pair per op line.
fn run_case(c: &CaseD, upto: usize) -> CaseReport {
    let mut rep = CaseReport::default();
    let lines = c.to_lines();
    let sc = build_scenario(c, upto);
    // MAC bookkeeping of the description must agree with the real Pci
    let nodes = c.nodes.clone();
    let extra = move |idx: usize, m: elvis_core::Machine, _log: &Arc<Log>| -> elvis_core::Machine {
        match &nodes[idx] {
            NodeD::Host(h) if h.late => m.with(Arp::new()),
            NodeD::Host(h) => m.with(Arp::new().preconfig_subnet(
                Ipv4Address::from(h.ip),
                SubnetInfo { mask: Ipv4Mask::from_bitcount(h.mask), default_gateway: Ipv4Address::from(h.gw) },
            )),
            NodeD::Router(r) => {
                let mut table: IpTable<(Option<Ipv4Address>, PciSlot)> = IpTable::new();
                for e in &r.routes {
                    table.add(Ipv4Net::new(Ipv4Address::from(e.addr), Ipv4Mask::from_bitcount(e.len)), (e.gw.map(Ipv4Address::from), e.slot));
                }
                m.with(Arp::new()).with(ArpRouter::new(table, r.slots.iter().map(|s| Ipv4Address::from(s.2)).collect()))
            }
        }
    };
    // a frame storm (only a broken router produces one) is cut off so that the run ends
    let frames = Arc::new(std::sync::atomic::AtomicUsize::new(0));
    // the fault schedule: which machine's ARP traffic the networks lose during which unit
    let mut mute_at: Vec<Option<(usize, bool)>> = vec![];
    {
        let mut cur = None;
        for u in &c.units {
            if let Unit::Mute(m) = u {
                cur = *m;
            }
            mute_at.push(cur);
        }
    }
    // taps and addresses of every machine
    let taps_of: Vec<Vec<(usize, u64)>> = c.nodes.iter().map(|n| match n {
        NodeD::Host(h) => vec![(h.net, h.mac)],
        NodeD::Router(r) => r.slots.iter().map(|s| (s.0, s.1)).collect(),
    }).collect();
    let ips_of: Vec<Vec<u32>> = c.nodes.iter().map(|n| match n {
        NodeD::Host(h) => vec![h.ip],
        NodeD::Router(r) => r.slots.iter().map(|s| s.2).collect(),
    }).collect();
    let log_cell: Arc<std::sync::OnceLock<Arc<Log>>> = Arc::new(std::sync::OnceLock::new());
    let planner: Planner = {
        let frames = frames.clone();
        let log_cell = log_cell.clone();
        Arc::new(move |w: &WireSend| {
            if frames.fetch_add(1, std::sync::atomic::Ordering::Relaxed) >= FRAME_CAP {
                return elvis_core::network::VerifFramePlan::Drop;
            }
            if matches!(w.target, Target::Arp) && !mute_at.is_empty() {
                let t = log_cell.get().map(|l| l.now_us()).unwrap_or(0);
                let ui = (t.saturating_sub(T0_US) / WINDOW_US) as usize;
                if let Some((node, inbound)) = mute_at[ui.min(mute_at.len() - 1)] {
                    let hit = if inbound {
                        match ArpPacket::from_bytes(w.bytes.iter().cloned()) {
                            Ok(p) => p.oper == Operation::Request && ips_of.get(node).map_or(false, |v| v.contains(&p.target_ip.to_u32())),
                            Err(_) => false,
                        }
                    } else {
                        taps_of.get(node).map_or(false, |v| v.contains(&(w.net, w.smac)))
                    };
                    if hit {
                        return elvis_core::network::VerifFramePlan::Drop;
                    }
                }
            }
            elvis_core::network::VerifFramePlan::Deliver
        })
    };
    // as `run_scenario_with`, but the planner reads the scenario's virtual clock
    let res = {
        let built = build(&sc, Some(planner), &extra);
        let _ = log_cell.set(built.log.clone());
        let dur = std::time::Duration::from_micros(sc.duration_us);
        let log = built.log.clone();
        let machines = built.machines.clone();
        let status = block_on_mode(sc.mode, async move {
            log.start_clock();
            elvis_core::run_internet_with_timeout(&machines, dur).await
        });
        for n in &built.networks {
            n.verif_set_hook(None);
        }
        RunResult { status: fmt_status(&status), events: built.log.snapshot(), macs: built.macs, taps: vec![] }
    };
    if frames.load(std::sync::atomic::Ordering::Relaxed) > FRAME_CAP {
        rep.fail(format!("more than {} frames were put on the networks in one case: a frame storm (the harness dropped the rest)", FRAME_CAP), "frame-storm");
    }
    // topology lines
    let mut li = 0;
    let mac_ok = c.nodes.iter().enumerate().all(|(i, n)| match n {
        NodeD::Host(h) => res.macs[i] == vec![h.mac],
        NodeD::Router(r) => res.macs[i] == r.slots.iter().map(|s| s.1).collect::<Vec<_>>(),
    });
    while li < lines.len() && !is_unit_line(&lines[li]) {
        let w = lines[li].split_whitespace().next().unwrap_or("").to_string();
        rep.line(lines[li].clone(), if mac_ok { w } else { format!("{} mac-mismatch", w) });
        li += 1;
    }
    if !mac_ok {
        rep.fail("the MACs assumed by the case description differ from the real Pci sessions (harness bookkeeping)", "harness mac bookkeeping");
    }
    // which machine owns (net, mac)
    let mut tap_owner: BTreeMap<(usize, u64), usize> = BTreeMap::new();
    for (i, n) in c.nodes.iter().enumerate() {
        match n {
            NodeD::Host(h) => {
                tap_owner.insert((h.net, h.mac), i);
            }
            NodeD::Router(r) => {
                for s in &r.slots {
                    tap_owner.insert((s.0, s.1), i);
                }
            }
        }
    }
    let is_router = |i: usize| matches!(c.nodes[i], NodeD::Router(_));
    // coverage of the wide address plan / redundant gateways
    let wide_plan = c.nodes.iter().any(|n| matches!(n, NodeD::Host(h) if (16..24).contains(&h.mask)));
    if wide_plan {
        rep.count("topo.wide-subnets");
    }
    let routers_on = |net: usize| c.nodes.iter().filter(|n| matches!(n, NodeD::Router(r) if r.slots.iter().any(|s| s.0 == net))).count();
    let mut crossed = false;
    let unit_lines: Vec<String> = lines.iter().filter(|l| ends_unit(l)).cloned().collect();
    // late hosts that have not claimed their address yet; destinations a datagram failed to reach
    // while a fault was in force (for the coverage counters)
    let mut unclaimed: Vec<usize> = c.nodes.iter().enumerate().filter(|(_, n)| matches!(n, NodeD::Host(h) if h.late)).map(|(i, _)| i).collect();
    let mut fault_now = false;
    let mut starved: Vec<u32> = vec![];
    for (ui, u) in c.units.iter().enumerate() {
        if ui >= upto {
            break;
        }
        let (sends, burst): (Vec<&SendD>, bool) = match u {
            Unit::One(s) => (vec![s], false),
            Unit::Burst(v) => (v.iter().collect(), true),
            Unit::Mute(m) => {
                fault_now = m.is_some();
                rep.line(unit_lines.get(ui).cloned().unwrap_or_default(), "mute");
                rep.count(match m { None => "units.mute.off", Some((_, true)) => "units.mute.in", Some((v, false)) => if is_router(*v) { "units.mute.out.router" } else { "units.mute.out.host" } });
                continue;
            }
            Unit::Claim(n) => {
                unclaimed.retain(|x| x != n);
                rep.line(unit_lines.get(ui).cloned().unwrap_or_default(), "claim");
                rep.count("units.claim");
                continue;
            }
        };
        let (t_lo, t_hi) = (unit_start(ui), unit_start(ui + 1));
        let mut items: Vec<String> = vec![];
        // per token: wire frames (time order), router tap deliveries, app deliveries
        let mut wires: BTreeMap<u32, Vec<(u8, Ipv4Header, Vec<u8>, u64)>> = BTreeMap::new();
        // per token: (network, source MAC, destination MAC) of every frame, in time order
        let mut links: BTreeMap<u32, Vec<(usize, u64, Option<u64>)>> = BTreeMap::new();
        let mut rtaps: BTreeMap<u32, usize> = BTreeMap::new();
        let mut apps: BTreeMap<u32, Vec<(usize, Vec<u8>, Option<Ep>)>> = BTreeMap::new();
        let mut last_wire_t = 0u64;
        for e in res.events.iter().filter(|e| e.t_us >= t_lo && e.t_us < t_hi) {
            match &e.ev {
                Ev::Wire { net, to: None, smac, dst, target, bytes, plan } => {
                    last_wire_t = last_wire_t.max(e.t_us);
                    match target {
                        Target::Ipv4 => {
                            if let Some((s, tok, ttl, h)) = item_ip(*net, *smac, *dst, bytes) {
                                items.push(s);
                                wires.entry(tok).or_default().push((ttl, h, bytes[20..].to_vec(), *smac));
                                links.entry(tok).or_default().push((*net, *smac, *dst));
                            } else {
                                items.push(format!("W:n{}:unparsed:{}", net, hex(bytes)));
                            }
                        }
                        Target::Arp => {
                            if !burst {
                                items.push(item_arp(*net, *smac, *dst, bytes).unwrap_or_else(|| format!("A:n{}:unparsed", net)));
                            }
                            rep.count("frames.arp");
                            if plan == "drop" {
                                rep.count("frames.arp.lost");
                            }
                        }
                        t => items.push(format!("X:n{}:{}", net, t.name())),
                    }
                }
                Ev::Wire { net, to: Some(mac), target: Target::Ipv4, bytes, .. } => {
                    if let (Some(owner), Some((_, tok, ttl, _))) = (tap_owner.get(&(*net, *mac)), item_ip(*net, 0, None, bytes)) {
                        items.push(format!("D:{}:t{}:ttl{}", owner, tok, ttl));
                        if is_router(*owner) {
                            *rtaps.entry(tok).or_default() += 1;
                        }
                    }
                }
                Ev::Demux { machine, payload, local, .. } => {
                    let tok = if payload.len() >= 2 { u16::from_be_bytes([payload[0], payload[1]]) as u32 } else { 0 };
                    items.push(format!("P:{}:{}:t{}:{}", machine, local.map(|l| l.port).unwrap_or(0), tok, hex(payload)));
                    apps.entry(tok).or_default().push((*machine, payload.clone(), *local));
                }
                _ => {}
            }
        }
        items.sort();
        let answer = if items.is_empty() { "r -".to_string() } else { format!("r {}", items.join(" ")) };
        if burst {
            for s in &sends {
                rep.line(send_line("bsend", s), "q");
            }
            rep.line("flush", answer);
            rep.count("units.burst");
        } else {
            rep.line(send_line("send", sends[0]), answer);
            rep.count("units.send");
        }
        // ---------------- native oracle: the property itself ----------------
        for s in &sends {
            let what = |m: &str| format!("{} [token {} from machine {} to {}, {}]", m, s.tok, s.h, fmt_addr(s.dst), if s.udp { "udp path".to_string() } else { format!("raw ttl {}", s.ttl) });
            let w = wires.get(&s.tok).cloned().unwrap_or_default();
            // the stack chooses the initial TTL of a udp-path datagram: it is what the source emits
            let t0 = if s.udp { w.first().map(|x| x.0 as u32).unwrap_or(30) } else { s.ttl as u32 };
            let life = t0.max(1) as usize;
            rep.count(&format!("hops.{}", w.len().min(12)));
            if let NodeD::Host(sh) = &c.nodes[s.h] {
                // routers on the sender's subnet that have a route for the destination
                let with_route = c.nodes.iter().filter(|n| matches!(n, NodeD::Router(r) if r.slots.iter().any(|x| x.0 == sh.net) && ref_lookup(&r.routes, s.dst).is_some())).count();
                rep.count(&format!("send.routers-on-sender-subnet-with-route.{}", with_route.min(3)));
                let _ = routers_on(sh.net);
                if wide_plan {
                    let last = s.dst & 0xff;
                    let edge = match last { 255 => "255", 0 => "0", 254 => "254", 1 => "1", _ => "other" };
                    rep.count(&format!("send.wide.{}.dst-last-octet-{}", if s.udp { "udp-path" } else { "raw-path" }, edge));
                    if s.udp && last == 255 && with_route >= 2 && s.expect.is_some() {
                        rep.count("send.wide.udp-path.dst255.two-gateways.expected-once");
                    }
                }
            }
            if w.len() >= 2 {
                crossed = true;
            }
            // TTL decremented by exactly one per hop, never multiplied
            for (i, (ttl, h, pay, _)) in w.iter().enumerate() {
                if *ttl as i64 != t0 as i64 - i as i64 {
                    rep.fail(what(&format!("frame #{} of the datagram carries TTL {} (expected {} = initial TTL minus hops so far): TTLs on the wire {:?}", i, ttl, t0 as i64 - i as i64, w.iter().map(|x| x.0).collect::<Vec<_>>())), "ttl-not-decremented-by-one-per-hop");
                    break;
                }
                // payload and every header field but TTL / checksum unchanged
                if pay != &s.pay
                    || h.source.to_u32() != s.src
                    || h.destination.to_u32() != s.dst
                    || h.protocol != s.proto
                    || h.total_length as usize != 20 + s.pay.len()
                    || (!s.udp && (h.identification != s.id || h.type_of_service.as_u8() != s.tos || h.flags.as_u8() != s.flags || h.fragment_offset != s.off))
                {
                    rep.fail(what(&format!("frame #{} differs from the datagram that was sent in payload or in a header field other than TTL/checksum", i)), "datagram-changed-in-transit");
                    break;
                }
            }
            // along the routes configured: every frame a router puts on a network for this datagram
            // leaves through the slot, and towards the next hop, of the longest configured prefix
            // that contains the destination (reference longest-prefix match over the case's tables)
            for (net, smac, dmac) in links.get(&s.tok).cloned().unwrap_or_default() {
                let Some(&em) = tap_owner.get(&(net, smac)) else { continue };
                let NodeD::Router(r) = &c.nodes[em] else { continue };
                let show = |e: &RouteD| format!("{}/{} via {} slot {}", fmt_addr(e.addr), e.len, e.gw.map(fmt_addr).unwrap_or("-".into()), e.slot);
                match ref_lookup(&r.routes, s.dst) {
                    None => {
                        rep.fail(what(&format!("router {} forwarded the datagram (a frame on network {}) although none of its routes contains {}", em, net, fmt_addr(s.dst))), "forwarded-without-a-route");
                    }
                    Some(e) => {
                        let Some(&(enet, emac, _)) = r.slots.get(e.slot as usize) else { continue };
                        let nh = e.gw.unwrap_or(s.dst);
                        if (net, smac) != (enet, emac) {
                            rep.fail(what(&format!("router {} sent the datagram out on network {} (its MAC {}), but its longest matching route for {} is {} = network {}; table: {}", em, net, smac, fmt_addr(s.dst), show(e), enet, r.routes.iter().map(|x| show(x)).collect::<Vec<_>>().join("; "))), "forwarded-off-the-configured-route");
                            break;
                        }
                        if let Some((own, omac)) = owner_of(c, enet, nh, &unclaimed) {
                            if dmac != Some(omac) {
                                rep.fail(what(&format!("router {} addressed the frame on network {} to MAC {:?}, but the next hop {} of its longest matching route ({}) is machine {} with MAC {}", em, net, dmac, fmt_addr(nh), show(e), own, omac)), "forwarded-to-the-wrong-next-hop");
                                break;
                            }
                        }
                        rep.count("hops.checked_against_reference_lpm");
                    }
                }
            }
            // bounded life
            if w.len() > life {
                rep.fail(what(&format!("{} frames of one datagram on the networks, more than its initial TTL", w.len())), "more-frames-than-initial-ttl");
            }
            if rtaps.get(&s.tok).cloned().unwrap_or(0) > life {
                rep.fail(what(&format!("{} router hops, more than the initial TTL", rtaps[&s.tok])), "more-hops-than-initial-ttl");
            }
            // delivered to the destination host only, unchanged, at most once
            let a = apps.get(&s.tok).cloned().unwrap_or_default();
            for (m, data, _) in &a {
                let ok_host = matches!(&c.nodes[*m], NodeD::Host(h) if h.ip == s.dst);
                if !ok_host {
                    rep.fail(what(&format!("delivered to the application of machine {} which does not own the destination address", m)), "delivered-to-third-party");
                }
                if s.proto == 17 && data[..] != s.pay[8..] {
                    rep.fail(what("application received different data"), "payload-changed");
                }
            }
            if a.len() > 1 {
                rep.fail(what(&format!("delivered {} times", a.len())), "delivered-more-than-once");
            }
            if let Some(d) = s.expect {
                rep.count("expect.delivery");
                if a.len() != 1 || a[0].0 != d {
                    rep.fail(what(&format!("the configured routes (followed by longest-prefix match) lead to machine {} and the TTL suffices, but the datagram was not delivered there (deliveries: {:?})", d, a.iter().map(|x| x.0).collect::<Vec<_>>())), "not-delivered-on-correct-routes");
                }
            }
            if !a.is_empty() {
                rep.count("delivered");
            }
            // coverage of the time-structured families
            let dst_unclaimed = unclaimed.iter().any(|i| matches!(&c.nodes[*i], NodeD::Host(h) if h.ip == s.dst));
            if (fault_now || dst_unclaimed) && a.is_empty() && !starved.contains(&s.dst) {
                starved.push(s.dst);
                rep.count("timed.undelivered_while_arp_unanswered");
            }
            if !fault_now && !dst_unclaimed && s.expect.is_some() && starved.contains(&s.dst) {
                rep.count(if a.is_empty() { "timed.expected_after_recovery.missing" } else { "timed.expected_after_recovery.delivered" });
            }
        }
        // silence: nothing on any network in the tail of the window
        if last_wire_t >= t_hi - QUIET_US {
            rep.fail(format!("unit {} of the case: a frame was put on a network {} us after the send, the networks did not fall silent", ui, last_wire_t - t_lo), "no-silence");
        }
    }
    rep.nontrivial = crossed;
    rep
}

// ------------------------------------------------------------------------------------------
// worker / parent
// ------------------------------------------------------------------------------------------

/// spec: `gen <seed> <upto>` or `replay <upto>\n<op lines>`
fn case_of_spec(spec: &str) -> Result<(CaseD, usize), String> {
    let mut it = spec.lines();
    let head: Vec<&str> = it.next().unwrap_or("").split_whitespace().collect();
    match head.as_slice() {
        ["gen", seed, upto] => {
            let mut rng = Rng::new(seed.parse().map_err(|_| "bad seed")?);
            let c = gen_case(&mut rng);
            // through the text form, so that replays execute exactly what was generated
            let c = CaseD::parse(&c.to_lines())?;
            Ok((c, upto.parse().map_err(|_| "bad upto")?))
        }
        ["replay", upto] => {
            let lines: Vec<String> = it.map(|s| s.to_string()).collect();
            Ok((CaseD::parse(&lines)?, upto.parse().map_err(|_| "bad upto")?))
        }
        _ => Err(format!("bad spec `{}`", spec)),
    }
}

fn worker_case(spec: &str) -> CaseReport {
    match case_of_spec(spec) {
        Ok((c, upto)) => run_case(&c, upto),
        Err(e) => {
            let mut r = CaseReport::default();
            r.line(spec.lines().next().unwrap_or(""), format!("bad-op {}", e));
            r
        }
    }
}

/// number of op lines before the first unit, and op-line count per unit
fn layout(lines: &[String]) -> (usize, Vec<usize>) {
    let mut head = 0;
    while head < lines.len() && !is_unit_line(&lines[head]) {
        head += 1;
    }
    let mut units = vec![];
    let mut cur = 0;
    for l in &lines[head..] {
        cur += 1;
        if ends_unit(l) {
            units.push(cur);
            cur = 0;
        }
    }
    (head, units)
}

fn emit_case(out: &mut Out, sub: &str, spec_of: &dyn Fn(usize) -> String, lines: &[String], first: CaseOutcome) {
    match first {
        CaseOutcome::Done(rep) => rep.emit(out),
        died => {
            // the router (or anything else) panicked and took the process with it: find the
            // longest prefix of the case that survives, report the panic for the next unit
            let (line, ident) = died_ident(&died);
            let site = match &died {
                CaseOutcome::Died { panic_site: Some((file, ln, _)), .. } => panic_site_name(file, &source_line_text(file, *ln)),
                CaseOutcome::Died { hung: true, .. } => "hang".to_string(),
                _ => "died".to_string(),
            };
            let (head, units) = layout(lines);
            let mut survived: Option<(usize, CaseReport)> = None;
            let hung = matches!(&died, CaseOutcome::Died { hung: true, .. });
            for upto in (0..if hung { 0 } else { units.len() }).rev() {
                let o = run_cases(sub, &[spec_of(upto)], 1, 1, 120);
                if let Some(CaseOutcome::Done(rep)) = o.into_iter().next() {
                    survived = Some((upto, rep));
                    break;
                }
            }
            let (upto, rep) = survived.unwrap_or((0, CaseReport::default()));
            if rep.lines.is_empty() {
                for l in &lines[..head] {
                    out.line(l, l.split_whitespace().next().unwrap_or(""));
                }
            } else {
                rep.emit(out);
            }
            // the unit that killed the process, then the rest of the case
            let mut at = head + units[..upto].iter().sum::<usize>();
            for (ui, n) in units.iter().enumerate().skip(upto) {
                for k in 0..*n {
                    let l = &lines[at + k];
                    let last = k + 1 == *n;
                    let ans = if !last { "q".to_string() } else if ui == upto { site.clone() } else { "dead".to_string() };
                    out.line(l, &ans);
                }
                at += n;
            }
            out.count("cases.panicked");
            let killer = if upto < units.len() { lines.get(head + units[..=upto].iter().sum::<usize>() - 1).cloned().unwrap_or_default() } else { String::new() };
            out.fail(&format!("the simulation process ended while forwarding ({}); the unit that triggers it: `{}`", line, killer), &ident);
        }
    }
}

/// hand-written scenarios that always run: two subnets, one router
fn fixed_cases() -> Vec<Vec<String>> {
    let topo = |mtus: &str| -> Vec<String> {
        vec![
            format!("topo nets=2 mtus={} lat=1000,1000 clean=1", mtus),
            "host 0 net=0 mac=0 ip=10.0.0.10 mask=24 gw=10.0.0.1 port=5000".into(),
            "host 1 net=1 mac=0 ip=10.0.1.10 mask=24 gw=10.0.1.1 port=5001".into(),
            "router 2 slots=0:1:10.0.0.1,1:1:10.0.1.1 routes=10.0.0.0/24/-/0;10.0.1.0/24/-/1".into(),
        ]
    };
    let raw_to = |tok: u32, ttl: u8, dlen: usize, dst_s: &str, dport: u16, expect: &str| -> String {
        let mut data = vec![(tok >> 8) as u8, tok as u8];
        data.resize(dlen, 0x5a);
        let src = parse_addr("10.0.0.10").unwrap();
        let dst = parse_addr(dst_s).unwrap();
        let mut pay = build_udp_header(Ipv4Address::from(src), 4000, Ipv4Address::from(dst), dport, data.iter().cloned(), data.len()).unwrap();
        pay.extend_from_slice(&data);
        format!("send tok={} h=0 kind=raw src=10.0.0.10 dst={} ttl={} proto=17 id={} tos=0 flags=0 off=0 pay={} expect={}", tok, dst_s, ttl, 1000 + tok, hex(&pay), expect)
    };
    let raw = |tok: u32, ttl: u8, dlen: usize, expect: &str| -> String { raw_to(tok, ttl, dlen, "10.0.1.10", 5001, expect) };
    // F-C16-1: TTL 0, 1, 2 in turn; only the last one may (and must) arrive
    let mut a = topo("65535,65535");
    a.push(raw(1, 0, 4, "-"));
    a.push(raw(2, 1, 4, "-"));
    a.push(raw(3, 2, 4, "1"));
    // F-C16-2: a 100-byte datagram from the 1500-byte network towards the 60-byte network
    let mut b = topo("1500,60");
    b.push(raw(1, 9, 4, "1"));
    b.push(raw(2, 9, 72, "-"));
    // nested prefixes: a /32 host route inside a /31 with a lower network id that points elsewhere,
    // and a /31 and a /32 with the SAME network id registered one after the other (two routes)
    let n: Vec<String> = vec![
        "topo nets=3 mtus=65535,65535,65535 lat=1000,1000,1000 clean=0".into(),
        "host 0 net=0 mac=0 ip=10.0.0.10 mask=24 gw=10.0.0.1 port=5000".into(),
        "host 1 net=1 mac=0 ip=10.0.1.11 mask=24 gw=10.0.1.1 port=5001".into(),
        "host 2 net=2 mac=0 ip=10.0.2.10 mask=24 gw=10.0.2.1 port=5002".into(),
        "router 3 slots=0:1:10.0.0.1,1:1:10.0.1.1,2:1:10.0.2.1 routes=10.0.0.0/24/-/0;10.0.1.0/24/-/1;10.0.2.0/24/-/2;10.0.1.10/31/-/2;10.0.1.11/32/-/1;10.0.2.10/32/-/2;10.0.2.10/31/-/1;10.0.2.8/30/10.0.0.77/0".into(),
        raw_to(1, 9, 4, "10.0.1.11", 5001, "1"),
        raw_to(2, 9, 4, "10.0.2.10", 5002, "2"),
        raw_to(3, 9, 4, "10.0.2.11", 5002, "-"),
    ];
    // a destination whose ARP replies are lost for a whole retry budget, then heard again: the
    // first datagram dies at the router, the later ones must arrive
    let mut m = topo("65535,65535");
    m.push("mute 1 out".into());
    m.push(raw(1, 9, 4, "-"));
    m.push(raw(2, 9, 4, "-"));
    m.push("mute - -".into());
    m.push(raw(3, 9, 4, "1"));
    m.push(raw(4, 9, 4, "1"));
    // a destination host that claims its address only later
    let mut l = topo("65535,65535");
    l[2].push_str(" late=1");
    l.push(raw(1, 9, 4, "-"));
    l.push("claim 1 ip=10.0.1.10 mask=24 gw=10.0.1.1 port=5001".into());
    l.push(raw(2, 9, 4, "1"));
    vec![a, b, n, m, l]
}

pub fn run(args: &Args) {
    if is_worker(args) {
        worker_loop(worker_case);
        return;
    }
    let mut out = Out::new(&args.out);
    out.max_failures = 40;
    if let Some(rp) = &args.replay {
        // a replay file holds the op lines of one or more cases
        let mut cases: Vec<Vec<String>> = vec![];
        for l in read_ops(rp) {
            if l.starts_with("case ") || cases.is_empty() {
                cases.push(vec![]);
            }
            if !l.starts_with("case ") {
                cases.last_mut().unwrap().push(l);
            }
        }
        for (ci, lines) in cases.iter().enumerate() {
            if lines.is_empty() {
                continue;
            }
            out.begin_case(ci as u64);
            let body = lines.join("\n");
            let spec_of = |upto: usize| format!("replay {}\n{}", upto, body);
            let first = run_cases(&args.prop, &[spec_of(usize::MAX)], 1, 1, 120).into_iter().next().unwrap();
            emit_case(&mut out, &args.prop, &spec_of, lines, first);
            out.end_case();
        }
        out.finish(RULE);
        return;
    }
    // fixed scenarios first: the TTL-0 datagram of F-C16-1 (fixed), the MTU step of F-C16-2 (known)
    let mut ci = 0u64;
    for lines in fixed_cases() {
        out.begin_case(ci);
        let body = lines.join("\n");
        let spec_of = |upto: usize| format!("replay {}\n{}", upto, body);
        let first = run_cases(&args.prop, &[spec_of(usize::MAX)], 1, 1, 120).into_iter().next().unwrap();
        emit_case(&mut out, &args.prop, &spec_of, &lines, first);
        out.end_case();
        ci += 1;
    }
    let mut rng = Rng::new(args.seed);
    let seeds: Vec<u64> = (0..args.cases).map(|_| rng.next() >> 1).collect();
    let specs: Vec<String> = seeds.iter().map(|s| format!("gen {} {}", s, usize::MAX)).collect();
    let outcomes = run_cases(&args.prop, &specs, default_workers(), 20, 60);
    for (o, seed) in outcomes.into_iter().zip(seeds.iter()) {
        out.begin_case(ci);
        ci += 1;
        let lines = gen_case(&mut Rng::new(*seed)).to_lines();
        let spec_of = |upto: usize| format!("gen {} {}", seed, upto);
        emit_case(&mut out, &args.prop, &spec_of, &lines, o);
        out.end_case();
    }
    out.finish(RULE);
}
