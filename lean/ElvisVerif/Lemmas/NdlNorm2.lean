import ElvisVerif.Lemmas.NdlNorm
/-!
# NDL normalisation, exactly

What `core_parser`'s two `replace` calls do to a rendered description, with no hypothesis on the
contents of keys and values: every key and every value is itself normalised (`\r` dropped, every
run of four spaces → tab), nothing else changes — provided no key begins with a space once its
`\r`s are gone (the space would merge with the separator written before the key).

Lines are taken in their general written form (`RLine`): any spelling of the type tag without
blanks, any number of blank lines after the line, three layouts.
-/
namespace Elvis.Ndl

/-- how a line is written: the spelling of its type tag, the number of blank lines after it -/
structure Deco where
  tag : Text
  blank : Nat
deriving DecidableEq, Repr

/-- a written line -/
structure RLine where
  depth : Nat
  dt : DecType
  deco : Deco
  ps : Params
deriving DecidableEq, Repr

/-- `n` line ends -/
def eols : Layout → Nat → Text
  | _, 0 => []
  | lay, n + 1 => eol lay ++ eols lay n

def RLine.text (lay : Layout) (x : RLine) : Text :=
  indent lay x.depth ++ (('[' :: (x.deco.tag ++ (renderArgs x.ps ++ [']']))) ++ eols lay (x.deco.blank + 1))

def rlText (lay : Layout) (ls : List RLine) : Text := ls.flatMap (RLine.text lay)

theorem rlText_cons (lay : Layout) (x : RLine) (ls : List RLine) :
    rlText lay (x :: ls) = x.text lay ++ rlText lay ls := by simp [rlText]

theorem rlText_append (lay : Layout) (a b : List RLine) :
    rlText lay (a ++ b) = rlText lay a ++ rlText lay b := by simp [rlText]

/-! ### normalisation of arguments -/

def normParams (ps : Params) : Params := ps.map fun kv => (normalise kv.1, normalise kv.2)

def RLine.norm (x : RLine) : RLine := { x with ps := normParams x.ps }

/-- no key begins with a space once its `\r`s are dropped -/
def KeysStart (ps : Params) : Prop := ∀ kv ∈ ps, ∀ r, dropCR kv.1 ≠ ' ' :: r

theorem dropCR_cons_ne (c : Char) (t : Text) (h : c ≠ '\r') : dropCR (c :: t) = c :: dropCR t := by
  simp [dropCR, h]

theorem dropCR_renderArgs : ∀ ps : Params,
    dropCR (renderArgs ps) = renderArgs (ps.map fun kv => (dropCR kv.1, dropCR kv.2))
  | [] => by simp [renderArgs, dropCR]
  | (k, v) :: ps => by
    simp only [List.map_cons, renderArgs_cons]
    rw [dropCR_cons_ne _ _ (by decide), dropCR_append, dropCR_cons_ne _ _ (by decide),
      dropCR_cons_ne _ _ (by decide), dropCR_append, dropCR_cons_ne _ _ (by decide), dropCR_renderArgs ps]

theorem fourSpFrom_nonspace (c : Char) (t : Text) (h : c ≠ ' ') :
    fourSpFrom 0 (c :: t) = c :: fourSpFrom 0 t := by simp [fourSpFrom, h]

/-- a non-space character flushes the pending spaces and restarts the scanner -/
theorem fourSpFrom_append : ∀ (a : Text) (j : Nat) (c : Char) (t : Text), c ≠ ' ' →
    fourSpFrom j (a ++ c :: t) = fourSpFrom j a ++ c :: fourSpFrom 0 t
  | [], j, c, t, hc => by simp [fourSpFrom, hc]
  | x :: a, j, c, t, hc => by
    simp only [List.cons_append, fourSpFrom]
    split
    · split
      · rw [fourSpFrom_append a 0 c t hc]; simp
      · rw [fourSpFrom_append a (j + 1) c t hc]
    · rw [fourSpFrom_append a 0 c t hc]; simp

theorem fourSpFrom_one (k : Text) (h : ∀ r, k ≠ ' ' :: r) : fourSpFrom 1 k = ' ' :: fourSpFrom 0 k := by
  cases k with
  | nil => rfl
  | cons c r =>
    have hc : c ≠ ' ' := fun e => h r (by rw [e])
    simp [fourSpFrom, hc]

theorem fourSp_nospace : ∀ (a t : Text), ' ' ∉ a → fourSpFrom 0 (a ++ t) = a ++ fourSpFrom 0 t
  | [], t, _ => rfl
  | c :: a, t, h => by
    simp only [List.mem_cons, not_or] at h
    have hc : c ≠ ' ' := fun e => h.1 e.symm
    rw [List.cons_append, fourSpFrom_nonspace c _ hc, fourSp_nospace a t h.2]
    rfl

theorem fourSp_renderArgs : ∀ (ps : Params), (∀ kv ∈ ps, ∀ r, kv.1 ≠ ' ' :: r) →
    ∀ (c : Char) (t : Text), c ≠ ' ' →
    fourSpFrom 0 (renderArgs ps ++ c :: t) =
      renderArgs (ps.map fun kv => (fourSp kv.1, fourSp kv.2)) ++ c :: fourSpFrom 0 t
  | [], _, c, t, hc => by simp [renderArgs, fourSpFrom, hc]
  | (k, v) :: ps, h, c, t, hc => by
    have hk := h (k, v) List.mem_cons_self
    have ih := fourSp_renderArgs ps (fun kv hkv => h kv (List.mem_cons_of_mem _ hkv)) c t hc
    simp only [List.map_cons, renderArgs_cons, List.cons_append, List.append_assoc]
    have e1 : fourSpFrom 0 (' ' :: (k ++ '=' :: '\'' :: (v ++ '\'' :: (renderArgs ps ++ c :: t)))) =
        fourSpFrom 1 (k ++ '=' :: '\'' :: (v ++ '\'' :: (renderArgs ps ++ c :: t))) := by
      simp [fourSpFrom]
    rw [e1, fourSpFrom_append k 1 '=' _ (by decide), fourSpFrom_one k hk,
      fourSpFrom_nonspace '\'' _ (by decide), fourSpFrom_append v 0 '\'' _ (by decide), ih]
    simp [fourSp]

theorem eols_noCR (lay : Layout) (n : Nat) : dropCR (eols lay n) = List.replicate n '\n' := by
  induction n with
  | zero => simp [eols, dropCR]
  | succ n ih =>
    rw [eols, dropCR_append, ih]
    cases lay <;> simp [eol, dropCR, List.replicate_succ]

theorem eols_tabs (n : Nat) : eols .tabs n = List.replicate n '\n' := by
  induction n with
  | zero => rfl
  | succ n ih => simp [eols, eol, ih, List.replicate_succ]

theorem fourSp_newlines (n : Nat) (t : Text) :
    fourSpFrom 0 (List.replicate n '\n' ++ t) = List.replicate n '\n' ++ fourSpFrom 0 t :=
  fourSp_nospace _ t (by intro h; have := List.eq_of_mem_replicate h; exact absurd this (by decide))

theorem dropCR_indent (lay : Layout) (d : Nat) : dropCR (indent lay d) = indent lay d := by
  apply dropCR_self
  intro h
  cases lay <;> simp only [indent] at h <;> have := List.eq_of_mem_replicate h <;> exact absurd this (by decide)

theorem fourSp_indent (lay : Layout) (d : Nat) (t : Text) :
    fourSpFrom 0 (indent lay d ++ t) = List.replicate d '\t' ++ fourSpFrom 0 t := by
  have ht : fourSpFrom 0 (List.replicate d '\t' ++ t) = List.replicate d '\t' ++ fourSpFrom 0 t :=
    fourSp_nospace _ t (by intro h; have := List.eq_of_mem_replicate h; exact absurd this (by decide))
  cases lay
  · exact ht
  · exact fourSp_spaces d t
  · exact ht

/-- one written line, whatever follows it -/
theorem normalise_rline (lay : Layout) (x : RLine) (ht : ' ' ∉ x.deco.tag ∧ '\r' ∉ x.deco.tag)
    (hk : KeysStart x.ps) (more : Text) :
    fourSpFrom 0 (dropCR (x.text lay) ++ more) = x.norm.text .tabs ++ fourSpFrom 0 more := by
  have hk' : ∀ kv ∈ x.ps.map (fun kv => (dropCR kv.1, dropCR kv.2)), ∀ r, kv.1 ≠ ' ' :: r := by
    intro kv hkv
    obtain ⟨kv0, h0, rfl⟩ := List.mem_map.1 hkv
    exact hk kv0 h0
  unfold RLine.text
  rw [dropCR_append, dropCR_indent, dropCR_append, dropCR_cons_ne _ _ (by decide), dropCR_append,
    dropCR_self _ ht.2, dropCR_append, dropCR_renderArgs, eols_noCR]
  have e0 : dropCR [']'] = [']'] := by decide
  rw [e0]
  simp only [List.append_assoc, List.cons_append, List.nil_append]
  rw [fourSp_indent, fourSpFrom_nonspace '[' _ (by decide), fourSp_nospace _ _ ht.1,
    fourSp_renderArgs _ hk' ']' _ (by decide), fourSp_newlines]
  simp [RLine.norm, normParams, normalise, eols_tabs, indent, List.map_map, Function.comp_def]

theorem dropCR_rlText (lay : Layout) : ∀ ls : List RLine,
    dropCR (rlText lay ls) = ls.flatMap fun x => dropCR (x.text lay)
  | [] => by simp [rlText, dropCR]
  | x :: ls => by rw [rlText_cons, dropCR_append, dropCR_rlText lay ls]; simp

/-- a written description: every line is rewritten on its own -/
theorem normalise_rlText (lay : Layout) : ∀ (ls : List RLine),
    (∀ x ∈ ls, (' ' ∉ x.deco.tag ∧ '\r' ∉ x.deco.tag) ∧ KeysStart x.ps) →
    normalise (rlText lay ls) = rlText .tabs (ls.map RLine.norm)
  | [], _ => by simp [rlText, normalise, dropCR, fourSp, fourSpFrom]
  | x :: ls, h => by
    have ih := normalise_rlText lay ls (fun y hy => h y (List.mem_cons_of_mem _ hy))
    have hx := h x List.mem_cons_self
    unfold normalise fourSp at ih ⊢
    rw [rlText_cons, dropCR_append, normalise_rline lay x hx.1 hx.2, ih]
    simp [rlText]

/-! ### `normalise t = t` exactly when `t` has no `\r` and no run of four spaces -/

/-- no `\r`, no four consecutive spaces -/
def Calm (t : Text) : Prop := '\r' ∉ t ∧ quadFree 0 t = true

instance (t : Text) : Decidable (Calm t) := by unfold Calm; exact inferInstance

theorem fourSpFrom_quadFree : ∀ (a : Text) (j : Nat), quadFree j a = true →
    fourSpFrom j a = List.replicate j ' ' ++ a
  | [], j, _ => by simp [fourSpFrom]
  | c :: a, j, h => by
    simp only [quadFree] at h
    simp only [fourSpFrom]
    split
    · rename_i hc
      simp only [hc, if_true, Bool.and_eq_true, decide_eq_true_eq] at h
      have hj : j ≠ 3 := by omega
      simp only [hj, if_false]
      rw [fourSpFrom_quadFree a (j + 1) h.2, replicate_succ_space, hc]
    · rename_i hc
      simp only [hc, if_false] at h
      rw [fourSpFrom_quadFree a 0 h]
      simp

theorem fourSpFrom_shrinks : ∀ (a : Text) (j : Nat), j ≤ 3 → quadFree j a = false →
    (fourSpFrom j a).length < j + a.length
  | [], j, _, h => by simp [quadFree] at h
  | c :: a, j, hj3, h => by
    simp only [quadFree] at h
    simp only [fourSpFrom]
    split
    · rename_i hc
      simp only [hc, if_true] at h
      split
      · have := fourSpFrom_length_le a 0
        simp only [List.length_cons]; omega
      · rename_i hj
        have hlt : decide (j < 3) = true := by simp; omega
        rw [hlt, Bool.true_and] at h
        have := fourSpFrom_shrinks a (j + 1) (by omega) h
        simp only [List.length_cons]; omega
    · rename_i hc
      simp only [hc, if_false] at h
      have := fourSpFrom_shrinks a 0 (by omega) h
      simp only [List.length_append, List.length_replicate, List.length_cons]; omega

theorem normalise_eq_self_iff (t : Text) : normalise t = t ↔ Calm t := by
  constructor
  · intro h
    have hcr : '\r' ∉ t := by
      intro hm
      have h1 : (dropCR t).length < t.length := by
        unfold dropCR
        exact List.length_filter_lt_length_iff_exists.2 ⟨'\r', hm, by simp⟩
      have h2 := fourSp_length_le (dropCR t)
      have h3 : (normalise t).length = t.length := by rw [h]
      unfold normalise at h3
      omega
    refine ⟨hcr, ?_⟩
    cases hq : quadFree 0 t with
    | true => rfl
    | false =>
      exfalso
      have h1 := fourSpFrom_shrinks t 0 (by omega) hq
      have h3 : (normalise t).length = t.length := by rw [h]
      unfold normalise fourSp at h3
      rw [dropCR_self t hcr] at h3
      omega
  · intro h
    unfold normalise fourSp
    rw [dropCR_self t h.1, fourSpFrom_quadFree t 0 h.2]
    simp

/-! ### the description with every key and value normalised -/

def normLeaf (l : Leaf) : Leaf := ⟨l.dectype, normParams l.options⟩

def normNetwork (n : Network) : Network := ⟨n.dectype, normParams n.options, n.ip.map normLeaf⟩

def normMachine (m : Machine) : Machine :=
  ⟨m.dectype, normParams m.options, m.networks.map normLeaf, m.protocols.map normLeaf,
    m.applications.map normLeaf⟩

/-- what the file-level rewriting turns a description into: every key, every value and hence
    every network id normalised -/
def normSim (s : Sim) : Sim :=
  ⟨s.networks.map fun e => (normalise e.1, normNetwork e.2), s.machines.map normMachine⟩

def CalmP (ps : Params) : Prop := ∀ kv ∈ ps, Calm kv.1 ∧ Calm kv.2
def CalmLeaf (l : Leaf) : Prop := CalmP l.options
def CalmNet (n : Network) : Prop := CalmP n.options ∧ ∀ l ∈ n.ip, CalmLeaf l
def CalmMach (m : Machine) : Prop :=
  CalmP m.options ∧ (∀ l ∈ m.networks, CalmLeaf l) ∧ (∀ l ∈ m.protocols, CalmLeaf l) ∧
    ∀ l ∈ m.applications, CalmLeaf l
/-- no network id, key or value of the description contains `\r` or four consecutive spaces -/
def CalmTree (s : Sim) : Prop :=
  (∀ e ∈ s.networks, Calm e.1 ∧ CalmNet e.2) ∧ ∀ m ∈ s.machines, CalmMach m

theorem map_eq_self_iff {α : Type} (f : α → α) : ∀ l : List α, l.map f = l ↔ ∀ x ∈ l, f x = x
  | [] => by simp
  | a :: l => by simp [map_eq_self_iff f l]

theorem normParams_eq_self_iff (ps : Params) : normParams ps = ps ↔ CalmP ps := by
  unfold normParams CalmP
  rw [map_eq_self_iff]
  constructor
  · intro h kv hkv
    have := h kv hkv
    obtain ⟨k, v⟩ := kv
    simp only [Prod.mk.injEq] at this
    exact ⟨(normalise_eq_self_iff k).1 this.1, (normalise_eq_self_iff v).1 this.2⟩
  · intro h kv hkv
    have := h kv hkv
    obtain ⟨k, v⟩ := kv
    simp only [Prod.mk.injEq]
    exact ⟨(normalise_eq_self_iff k).2 this.1, (normalise_eq_self_iff v).2 this.2⟩

theorem normLeaf_eq_self_iff (l : Leaf) : normLeaf l = l ↔ CalmLeaf l := by
  cases l with
  | mk dt o => simp [normLeaf, CalmLeaf, normParams_eq_self_iff]

theorem normLeaves_eq_self_iff (ls : List Leaf) : ls.map normLeaf = ls ↔ ∀ l ∈ ls, CalmLeaf l := by
  rw [map_eq_self_iff]
  exact ⟨fun h l hl => (normLeaf_eq_self_iff l).1 (h l hl), fun h l hl => (normLeaf_eq_self_iff l).2 (h l hl)⟩

theorem normNetwork_eq_self_iff (n : Network) : normNetwork n = n ↔ CalmNet n := by
  cases n with
  | mk dt o ip => simp [normNetwork, CalmNet, normParams_eq_self_iff, normLeaves_eq_self_iff]

theorem normMachine_eq_self_iff (m : Machine) : normMachine m = m ↔ CalmMach m := by
  cases m with
  | mk dt o a b c => simp [normMachine, CalmMach, normParams_eq_self_iff, normLeaves_eq_self_iff]

theorem normSim_eq_self_iff (s : Sim) : normSim s = s ↔ CalmTree s := by
  cases s with
  | mk nets ms =>
    simp only [normSim, CalmTree, Sim.mk.injEq]
    rw [map_eq_self_iff, map_eq_self_iff]
    constructor
    · rintro ⟨h1, h2⟩
      refine ⟨?_, fun m hm => (normMachine_eq_self_iff m).1 (h2 m hm)⟩
      intro e he
      have := h1 e he
      obtain ⟨id, n⟩ := e
      simp only [Prod.mk.injEq] at this
      exact ⟨(normalise_eq_self_iff id).1 this.1, (normNetwork_eq_self_iff n).1 this.2⟩
    · rintro ⟨h1, h2⟩
      refine ⟨?_, fun m hm => (normMachine_eq_self_iff m).2 (h2 m hm)⟩
      intro e he
      have := h1 e he
      obtain ⟨id, n⟩ := e
      simp only [Prod.mk.injEq]
      exact ⟨(normalise_eq_self_iff id).2 this.1, (normNetwork_eq_self_iff n).2 this.2⟩

/-! ### the canonical rendering is a list of written lines -/

def RLine.plain (x : LineSpec) : RLine := ⟨x.1, x.2.1, ⟨x.2.1.name, 0⟩, x.2.2⟩

theorem line_eq_rline (lay : Layout) (x : LineSpec) :
    line lay x.1 x.2.1 x.2.2 = (RLine.plain x).text lay := by
  simp [line, RLine.text, RLine.plain, renderLine, eols]

theorem linesText_eq_rlText (lay : Layout) (ls : List LineSpec) :
    linesText lay ls = rlText lay (ls.map RLine.plain) := by
  induction ls with
  | nil => simp [linesText, rlText]
  | cons x ls ih => rw [linesText_cons, List.map_cons, rlText_cons, ih, line_eq_rline]

def normSpec (x : LineSpec) : LineSpec := (x.1, x.2.1, normParams x.2.2)

theorem leafLines_norm (d : Nat) (ls : List Leaf) :
    leafLines d (ls.map normLeaf) = (leafLines d ls).map normSpec := by
  simp [leafLines, normLeaf, normSpec, Function.comp_def]

theorem normParams_nil : normParams [] = [] := rfl

theorem lineList_norm (s : Sim) : (normSim s).lineList = s.lineList.map normSpec := by
  cases s with
  | mk nets ms =>
    simp only [Sim.lineList, normSim, List.map_cons, List.map_append, List.flatMap_map, List.map_flatMap]
    simp only [normSpec, normParams_nil, Network.lineList, Machine.lineList, normNetwork, normMachine,
      leafLines_norm, List.map_cons, List.map_append]

theorem name_tag_ok (dt : DecType) : ' ' ∉ dt.name ∧ '\r' ∉ dt.name := ⟨name_no_space dt, name_no_cr dt⟩

/-- every layout of a description normalises to the tab layout of the description with all keys
    and values normalised -/
theorem normalise_render_exact (lay : Layout) (s : Sim) (hk : ∀ x ∈ s.lineList, KeysStart x.2.2) :
    normalise (render lay s) = render .tabs (normSim s) := by
  rw [render_lines, render_lines, lineList_norm, linesText_eq_rlText, linesText_eq_rlText,
    normalise_rlText lay _ (by
      intro x hx
      obtain ⟨y, hy, rfl⟩ := List.mem_map.1 hx
      exact ⟨name_tag_ok _, hk y hy⟩)]
  simp [List.map_map, Function.comp_def, RLine.plain, RLine.norm, normSpec]

end Elvis.Ndl
