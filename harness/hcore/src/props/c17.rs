//! C17: a TCP endpoint withstands arbitrary segments.  Uses the two-endpoint engine of `c01.rs`
//! (same op lines, same model driver).
//!
//! `c17` (fuzz): the victim is brought to each reachable state by a legitimate prefix, then
//! attacked with segments from the grid flags(64) x seq around the window edges x ack around
//! SND.UNA/SND.NXT x window (0, 1, small, 65535, random, shrinking below what is queued) x
//! length (0, 1, MSS-1, MSS, small), interleaved with legitimate traffic, writes, `segments()`,
//! timers and reads.  Oracles: no panic, new data stays inside the advertised window,
//! unacceptable segments are no-ops.
//!
//! `c17-outside`: an established connection carrying a long genuine stream; only segments that
//! lie entirely outside the receive window are injected (so a conforming receiver ignores
//! them); the C01 stream oracles (prefix, convergence) must still hold.
use super::c01::*;
use elvis_core::protocols::tcp::verif::State;
use hcommon::*;

const RULE_FUZZ: &str = "victim endpoint brought to a target state (all nine) by a legitimate exchange with a real peer Tcb, then 40 ops: forged segments from the grid flags(64) x seq {RCV.NXT-2..+1, +WND-1..+WND+1, +2^31, random, old data} x ack {SND.UNA-1..SND.NXT+1, random} x wnd {0,1,small,65535,random,shrinking} x len {0,1,small,MSS-1,MSS}, interleaved with legitimate traffic, writes, segments(), ticks, reads; a case is non-trivial if at least 5 forged segments were processed without the TCB being deleted; distinct = hash of its op lines";
const RULE_OUTSIDE: &str = "established connection, genuine stream of > 64 KiB towards the victim, forged text-bearing segments entirely outside the receive window (beyond the right edge by 0..2000 and far ahead, or entirely old), then the loss-free phase; C01 prefix/convergence oracles; non-trivial if the victim delivered > 64 KiB";

#[derive(Clone, Copy, Debug, PartialEq, Eq)]
enum Target {
    SynSent,
    SynReceivedListen,
    SynReceivedOpen,
    Established,
    EstablishedBusy,
    FinWait1,
    FinWait2,
    CloseWait,
    Closing,
    LastAck,
    TimeWait,
}
const TARGETS: [Target; 11] = [
    Target::SynSent,
    Target::SynReceivedListen,
    Target::SynReceivedOpen,
    Target::Established,
    Target::EstablishedBusy,
    Target::FinWait1,
    Target::FinWait2,
    Target::CloseWait,
    Target::Closing,
    Target::LastAck,
    Target::TimeWait,
];

struct Net {
    pending: Vec<(SideId, usize)>,
}
impl Net {
    fn emit(&mut self, ex: &mut Exec, x: SideId, out: &mut Out) {
        if ex.dead || ex.side(x).tcb.is_none() {
            return;
        }
        ex.apply(&format!("emit {}", x.name()), out);
        for i in ex.last_emitted.clone() {
            self.pending.push((x.peer(), i));
        }
    }
    /// deliver everything pending for `to` (FIFO)
    fn flush_to(&mut self, ex: &mut Exec, to: SideId, out: &mut Out) {
        let (mine, rest): (Vec<_>, Vec<_>) = std::mem::take(&mut self.pending).into_iter().partition(|(t, _)| *t == to);
        self.pending = rest;
        for (t, i) in mine {
            if ex.dead {
                return;
            }
            ex.apply(&format!("deliver {} {}", t.name(), i), out);
            for j in ex.last_emitted.clone() {
                self.pending.push((t.peer(), j));
            }
        }
    }
    /// `rounds` full exchanges V -> P -> V
    fn pump(&mut self, ex: &mut Exec, v: SideId, rounds: u32, out: &mut Out) {
        for _ in 0..rounds {
            self.emit(ex, v, out);
            self.flush_to(ex, v.peer(), out);
            self.emit(ex, v.peer(), out);
            self.flush_to(ex, v, out);
        }
    }
}

fn state_of(ex: &Exec, x: SideId) -> Option<State> {
    ex.snap_ref(x).map(|s| s.state)
}

/// legitimate prefix that brings victim `v` to `target`
fn prefix(ex: &mut Exec, net: &mut Net, v: SideId, target: Target, rng: &mut Rng, out: &mut Out, seed: &mut u64) {
    let p = v.peer();
    let mtu = pick_mtu(rng);
    let (iss_v, iss_p) = (pick_isn(rng), pick_isn(rng));
    let mut write = |ex: &mut Exec, x: SideId, n: u64, out: &mut Out| {
        *seed += 1;
        ex.apply(&format!("write {} {} {}", x.name(), n, *seed), out);
    };
    match target {
        Target::SynSent => {
            ex.apply(&format!("open {} {} {}", v.name(), iss_v, mtu), out);
            if rng.chance(1, 2) {
                ex.apply(&format!("listen {} {} {}", p.name(), iss_p, mtu), out);
            }
            if rng.chance(1, 2) {
                write(ex, v, rng.range(1, 3000), out);
            }
            if rng.chance(1, 2) {
                net.emit(ex, v, out);
            }
            return;
        }
        Target::SynReceivedListen => {
            ex.apply(&format!("listen {} {} {}", v.name(), iss_v, mtu), out);
            ex.apply(&format!("open {} {} {}", p.name(), iss_p, mtu), out);
            net.emit(ex, p, out);
            net.flush_to(ex, v, out);
            if rng.chance(1, 2) {
                write(ex, v, rng.range(1, 3000), out);
            }
            if rng.chance(1, 2) {
                net.emit(ex, v, out);
            }
            return;
        }
        Target::SynReceivedOpen => {
            ex.apply(&format!("open {} {} {}", v.name(), iss_v, mtu), out);
            ex.apply(&format!("open {} {} {}", p.name(), iss_p, mtu), out);
            net.emit(ex, p, out);
            net.emit(ex, v, out);
            net.flush_to(ex, v, out);
            if rng.chance(1, 2) {
                write(ex, v, rng.range(1, 3000), out);
            }
            return;
        }
        _ => {}
    }
    // handshake (active or passive victim)
    if rng.chance(1, 2) {
        ex.apply(&format!("open {} {} {}", v.name(), iss_v, mtu), out);
        ex.apply(&format!("listen {} {} {}", p.name(), iss_p, mtu), out);
    } else {
        ex.apply(&format!("listen {} {} {}", v.name(), iss_v, mtu), out);
        ex.apply(&format!("open {} {} {}", p.name(), iss_p, mtu), out);
    }
    net.pump(ex, v, 3, out);
    let data = |rng: &mut Rng| match rng.below(10) {
        0..=2 => 1,
        3..=5 => rng.range(2, 100),
        6..=8 => rng.range(100, 5000),
        _ => rng.range(5000, 70000),
    };
    if rng.chance(2, 3) {
        write(ex, v, data(rng), out);
    }
    if rng.chance(1, 2) {
        write(ex, p, data(rng), out);
    }
    match target {
        Target::Established => {
            net.pump(ex, v, 2, out);
        }
        Target::EstablishedBusy => {
            // data in flight in both directions, nothing acknowledged yet, text left unsent
            let n = if rng.chance(1, 5) { rng.range(10000, 80000) } else { rng.range(1000, 10000) };
            write(ex, v, n, out);
            net.emit(ex, v, out);
            net.emit(ex, p, out);
            if rng.chance(1, 2) {
                net.flush_to(ex, v, out);
            }
        }
        Target::FinWait1 => {
            net.pump(ex, v, 1, out);
            ex.apply(&format!("close {}", v.name()), out);
            if rng.chance(1, 2) {
                net.emit(ex, v, out);
            }
        }
        Target::FinWait2 => {
            net.pump(ex, v, 2, out);
            ex.apply(&format!("close {}", v.name()), out);
            net.pump(ex, v, 2, out);
        }
        Target::CloseWait => {
            net.pump(ex, v, 2, out);
            ex.apply(&format!("close {}", p.name()), out);
            net.emit(ex, p, out);
            net.flush_to(ex, v, out);
        }
        Target::Closing => {
            net.pump(ex, v, 2, out);
            ex.apply(&format!("close {}", v.name()), out);
            ex.apply(&format!("close {}", p.name()), out);
            net.emit(ex, p, out);
            net.flush_to(ex, v, out);
        }
        Target::LastAck => {
            net.pump(ex, v, 2, out);
            ex.apply(&format!("close {}", p.name()), out);
            net.emit(ex, p, out);
            net.flush_to(ex, v, out);
            ex.apply(&format!("close {}", v.name()), out);
            if rng.chance(1, 2) {
                net.emit(ex, v, out);
            }
        }
        Target::TimeWait => {
            net.pump(ex, v, 2, out);
            ex.apply(&format!("close {}", v.name()), out);
            net.pump(ex, v, 2, out);
            ex.apply(&format!("close {}", p.name()), out);
            net.emit(ex, p, out);
            net.flush_to(ex, v, out);
        }
        _ => {}
    }
}

/// one forged segment from the grid, relative to the victim's current sequence spaces
fn forged(ex: &Exec, v: SideId, rng: &mut Rng) -> Option<String> {
    let s = ex.snap_ref(v)?;
    let (una, nxt_s) = (s.snd.0, s.snd.1);
    let (rnxt, rwnd) = (s.rcv.1, s.rcv.2 as u32);
    let mss = (s.mtu.max(51) - 50) as u64;
    let len: u64 = match rng.below(8) {
        0 | 1 | 2 => 0,
        3 => 1,
        4 => rng.range(2, 20),
        5 => mss - 1,
        6 => mss,
        _ => rng.below(mss + 1),
    };
    let seq: u32 = match rng.below(14) {
        0 => rnxt.wrapping_sub(2),
        1 => rnxt.wrapping_sub(1),
        2 | 3 => rnxt,
        4 => rnxt.wrapping_add(1),
        5 => rnxt.wrapping_add(rwnd).wrapping_sub(1),
        6 => rnxt.wrapping_add(rwnd),
        7 => rnxt.wrapping_add(rwnd).wrapping_add(1),
        8 => rnxt.wrapping_add(1 << 31),
        9 => rng.next() as u32,
        10 => rnxt.wrapping_sub(len as u32),
        11 => rnxt.wrapping_sub(len as u32).wrapping_sub(1),
        12 => rnxt.wrapping_add(rng.below(3000) as u32),
        _ => rnxt.wrapping_add(rwnd).wrapping_add(rng.below(200000) as u32),
    };
    let ack: u32 = match rng.below(12) {
        10 => una.wrapping_add(1 << 31).wrapping_add(rng.below(3) as u32).wrapping_sub(1),
        11 => nxt_s.wrapping_add(1 << 31).wrapping_add(rng.below(3) as u32).wrapping_sub(1),
        0 => una.wrapping_sub(1),
        1 => una,
        2 => una.wrapping_add(1),
        3 => una.wrapping_add(nxt_s.wrapping_sub(una) / 2),
        4 => nxt_s.wrapping_sub(1),
        5 | 6 => nxt_s,
        7 => nxt_s.wrapping_add(1),
        8 => s.snd.5,
        _ => rng.next() as u32,
    };
    let queued: u64 = s.retransmit.iter().map(|t| t.1.len() as u64).sum();
    let wnd: u64 = match rng.below(8) {
        0 => 0,
        1 => 1,
        2 => rng.range(2, 100),
        3 | 4 => 65535,
        5 => rng.below(65536),
        6 => queued.saturating_sub(1).min(65535),
        _ => (queued / 2).min(65535),
    };
    // all 64 combinations, biased towards the ones that get far into process_segment
    let ctl: u64 = match rng.below(10) {
        0..=3 => rng.below(64),
        4 | 5 => 16,
        6 => 16 | 8,
        7 => 16 | 1,
        8 => *rng.pick(&[2u64, 18, 4, 20, 17, 1, 0, 3, 19]),
        _ => 16 | rng.below(16),
    };
    Some(format!("inject {} {} {} {} {} {} {}", v.name(), ctl, seq, ack, wnd, len, rng.below(1_000_000)))
}

fn fuzz_case(ex: &mut Exec, rng: &mut Rng, out: &mut Out, target: Target, attacks: u64) -> u64 {
    let v = if rng.chance(3, 4) { SideId::A } else { SideId::B };
    let p = v.peer();
    let mut net = Net { pending: vec![] };
    let mut seed = rng.below(1_000_000);
    prefix(ex, &mut net, v, target, rng, out, &mut seed);
    if let Some(st) = state_of(ex, v) {
        out.count(&format!("reached.{}", state_str(st)));
    } else {
        out.count("reached.none");
    }
    let mut processed = 0;
    for _ in 0..attacks {
        if ex.dead || ex.side(v).tcb.is_none() {
            break;
        }
        match rng.below(20) {
            0..=11 => {
                if let Some(l) = forged(ex, v, rng) {
                    ex.apply(&l, out);
                    processed += 1;
                    if rng.chance(1, 2) {
                        net.emit(ex, v, out);
                    }
                }
            }
            12 => net.emit(ex, v, out),
            13 => {
                net.flush_to(ex, p, out);
                net.emit(ex, p, out);
            }
            14 => {
                // legitimate traffic from the peer, possibly out of order
                if let Some(k) = net.pending.iter().position(|(t, _)| *t == v) {
                    let (t, i) = net.pending.remove(k);
                    ex.apply(&format!("deliver {} {}", t.name(), i), out);
                }
            }
            15 | 16 => {
                seed += 1;
                let n = *rng.pick(&[1u64, 10, 500, 3000, 20000]);
                ex.apply(&format!("write {} {} {}", v.name(), rng.range(1, n), seed), out);
                net.emit(ex, v, out);
            }
            17 => ex.apply(&format!("tick {} {}", v.name(), if rng.chance(1, 2) { 150 } else { 5 }), out),
            18 => ex.apply(&format!("read {}", v.name()), out),
            _ => {
                // old legitimate segment again (duplicate)
                if !ex.history.is_empty() {
                    let i = rng.below(ex.history.len() as u64);
                    ex.apply(&format!("deliver {} {}", v.name(), i), out);
                }
            }
        }
    }
    processed
}

fn outside_case(ex: &mut Exec, rng: &mut Rng, out: &mut Out) {
    // A sends a long stream to B (victim); forged segments entirely outside B's window
    let mtu = rng.range(600, 1600);
    let (iss_a, iss_b) = (pick_isn(rng), pick_isn(rng));
    let mut net = Net { pending: vec![] };
    ex.apply(&format!("open A {} {}", iss_a, mtu), out);
    ex.apply(&format!("listen B {} {}", iss_b, mtu), out);
    net.pump(ex, SideId::A, 3, out);
    let mut seed = rng.below(1_000_000);
    let total: u64 = rng.range(70_000, 90_000);
    let mut written = 0u64;
    let mut injected = 0;
    while written < total && !ex.dead {
        let n = rng.range(500, 9000).min(total - written);
        seed += 1;
        written += n;
        ex.apply(&format!("write A {} {}", n, seed), out);
        if injected < 6 {
            if let Some(s) = ex.snap_ref(SideId::B) {
                let (rnxt, rwnd, snxt) = (s.rcv.1, s.rcv.2 as u32, s.snd.1);
                let len = rng.range(1, (mtu - 50).min(1000));
                let seq = match rng.below(4) {
                    0 => rnxt.wrapping_add(rwnd).wrapping_add(rng.below(2000) as u32),
                    1 => rnxt.wrapping_add(rwnd).wrapping_add(1),
                    2 => rnxt.wrapping_sub(len as u32).wrapping_sub(2 + rng.below(5000) as u32),
                    _ => rnxt.wrapping_add(rwnd).wrapping_add(rng.below(1 << 20) as u32),
                };
                ex.apply(&format!("inject B 16 {} {} 65535 {} {}", seq, snxt, len, 7_000_000 + injected), out);
                injected += 1;
            }
        }
        net.pump(ex, SideId::A, 1, out);
        if rng.chance(1, 2) {
            ex.apply("read B", out);
        }
    }
    if ex.dead {
        return;
    }
    let mut pending = std::mem::take(&mut net.pending);
    ex.fair_phase(&mut pending, out, 60, true);
}

pub fn run(args: &Args) {
    if args.prop.ends_with("sched") {
        // the two-endpoint schedules of C01 under the C17 oracles (legitimate traffic only)
        return super::c01::run(args);
    }
    let mut out = Out::new(&args.out);
    out.max_failures = 60;
    let outside = args.prop.ends_with("outside");
    let rule = if outside { RULE_OUTSIDE } else { RULE_FUZZ };
    if args.replay.is_some() {
        replay(args, &mut out, Oracles { prefix: true, c17: true });
        out.finish(rule);
        return;
    }
    let attacks: u64 = args.extra.get("attacks").and_then(|s| s.parse().ok()).unwrap_or(40);
    let mut rng = Rng::new(args.seed ^ if outside { 0x5151 } else { 0x1717 });
    for c in 0..args.cases {
        let mut r = rng.fork();
        let mut ex = Exec::new(Oracles { prefix: true, c17: true });
        out.begin_case(c);
        if outside {
            outside_case(&mut ex, &mut r, &mut out);
            if ex.b.delivered.len() > 65536 {
                out.mark_nontrivial();
            }
        } else {
            let target = TARGETS[(c % TARGETS.len() as u64) as usize];
            let n = fuzz_case(&mut ex, &mut r, &mut out, target, attacks);
            if n >= 5 {
                out.mark_nontrivial();
            }
        }
        out.end_case();
    }
    out.finish(rule);
}
