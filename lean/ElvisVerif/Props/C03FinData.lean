import ElvisVerif.Lemmas.TcpFinRun
import ElvisVerif.Lemmas.TcpConvInv
import ElvisVerif.Props.C03Sync
/-!
# C03 — FIN after data, receiver half; C01 stream safety with `close()`

System: `Model/TcpSys.lean`.  Quantification: `FinRun` (`Lemmas/TcpFinRun.lean`) from the state after
`open A` + (`listen B` | `open B`) — any ISNs, any MTUs —, or from any state reached by a run of C01 ops
(`C01.RunOk`, which includes `open` / `listen` at any point): any finite interleaving of `write`, `read`,
`tick`, `emit`, **`close`**, `drop` and deliveries of ANY element of the history of everything ever
emitted (loss, duplication, reordering, arbitrary delay) to the side it is addressed to; no `abort`,
no raw `inject`, no re-`open`.  H31 as `C01.Lt31` on the final state: fewer than 2^31 bytes submitted
per direction.

The invariant is C01's stream invariant generalised to all eleven states (`Lemmas/TcpFinInv.lean` …
`TcpFinSys.lean`): segments may carry FIN — only once the sender has numbered it, without text, at
`ISS + 1 + |submitted|` —, `SND.NXT = ISS + 1 + |segmentized| + [FIN numbered]`,
`RCV.NXT = IRS + 1 + |delivered ++ buffered| + [FIN received]`.
-/
namespace Elvis.Tcp.C03
open Elvis.ModCmp Elvis.Tcp.Tcb Elvis.Tcp.Fin

/-- the invariant in every state reachable from the two-op start -/
theorem invF_of_start {ia ib : Seq} {ma mb : U16} {simultaneous : Bool} {sys0 sys : Sys}
    (h0 : Start ia ib ma mb simultaneous sys0) (hrun : FinRun sys0 sys) (h31 : C01.Lt31 sys) :
    ∃ fin, InvF (issOf ia ib) fin sys := by
  obtain ⟨rs, h0⟩ := h0
  have hi := InvF.of_inv (conv_init ia ib ma mb simultaneous sys0 rs h0).c01
  obtain ⟨fin, i, _⟩ := finRun_inv hi hrun h31
  exact ⟨fin, i⟩

/-- what the invariant says about an endpoint whose state shows FIN received -/
theorem eof_of_invF {iss : SideId → Seq} {fin : SideId → Bool} {sys : Sys} (h : InvF iss fin sys)
    (x : SideId) (t : Tcb) (ht : (sys.side x).tcb = some t) (hf : finRcvd t.state = true) :
    (sys.side x).delivered ++ t.incoming.text = (sys.side x.peer).submitted ∧
    t.rcv.nxt = iss x.peer + 1 + BitVec.ofNat 32 ((sys.side x.peer).submitted.length + 1) ∧
    fin x.peer = true := by
  obtain ⟨i, _⟩ := (h.side x).tcb t ht
  obtain ⟨hall, hfy⟩ := i.eof hf
  have hns : t.state ≠ .SynSent := by intro h0; rw [h0] at hf; cases hf
  refine ⟨hall, ?_, hfy⟩
  rw [(i.rcv1 hns).1, hf, ← hall, List.length_append]
  rfl

/-- **FIN after data, receiver half** (full strength).  In every state of the closed two-endpoint
    system reachable by a `FinRun` (file header: writes, reads, ticks, emits, closes by either side at
    any time — with data queued, unsegmentized or in flight —, drops, and deliveries of any history
    element any number of times in any order) under H31: if endpoint `x`'s state shows that the peer's
    FIN has been received (CLOSE-WAIT, LAST-ACK, CLOSING or TIME-WAIT), then the bytes `x` has handed
    to its application followed by the bytes waiting in its receive buffer are EXACTLY the bytes the
    peer's application submitted — all of them, in order, each once —, and
    `RCV.NXT = ISS_peer + 1 + |submitted_peer| + 1`: one sequence number for the SYN, one per byte, one for
    the FIN.  (The peer's `send` accepts nothing after `close`, so "submitted" is "submitted before
    close".)  Together with the sender half (`c03_fin_after_data_partial` in `Props/C03.lean`: the FIN is
    numbered only when no text is left to segmentize, at the last sequence number) this is the FIN
    clause of C03. -/
theorem c03_fin_after_data (ia ib : Seq) (ma mb : U16) (simultaneous : Bool) (sys0 sys : Sys)
    (h0 : Start ia ib ma mb simultaneous sys0) (hrun : FinRun sys0 sys) (h31 : C01.Lt31 sys)
    (x : SideId) (t : Tcb) (ht : (sys.side x).tcb = some t) (hf : finRcvd t.state = true) :
    (sys.side x).delivered ++ t.incoming.text = (sys.side x.peer).submitted ∧
    t.rcv.nxt = issOf ia ib x.peer + 1 + BitVec.ofNat 32 ((sys.side x.peer).submitted.length + 1) := by
  obtain ⟨fin, h⟩ := invF_of_start h0 hrun h31
  obtain ⟨a, b, _⟩ := eof_of_invF h x t ht hf
  exact ⟨a, b⟩

/-- the same from any state reached by a run of C01 ops (`open` / `listen` in any order and at any point,
    writes, reads, ticks, emits, drops, addressed deliveries) followed by a `FinRun` -/
theorem c03_fin_after_data_run (iss : SideId → Seq) (ops : List Op) (hok : C01.RunOk iss {} ops)
    (sys0 sys : Sys) (rs : List Res) (e : Sys.run {} ops = .ok (sys0, rs)) (hrun : FinRun sys0 sys)
    (h31 : C01.Lt31 sys) (x : SideId) (t : Tcb) (ht : (sys.side x).tcb = some t) (hf : finRcvd t.state = true) :
    (sys.side x).delivered ++ t.incoming.text = (sys.side x.peer).submitted ∧
    t.rcv.nxt = iss x.peer + 1 + BitVec.ofNat 32 ((sys.side x.peer).submitted.length + 1) := by
  have hi := InvF.of_inv (C01.run_inv (C01.Inv.init iss) hok e (Lt31.of_finRun hrun h31))
  obtain ⟨fin, h, _⟩ := finRun_inv hi hrun h31
  obtain ⟨a, b, _⟩ := eof_of_invF h x t ht hf
  exact ⟨a, b⟩

/-- **Every FIN is numbered behind every submitted byte.**  In every reachable state (as above): a
    history element (= a segment ever emitted) from side `x` that carries FIN has no text, no SYN, and
    `SEG.SEQ = ISS_x + 1 + |submitted_x|`; the same for every FIN waiting on `x`'s retransmission queue
    and every FIN parked in the peer's reorder heap.  (From then on `submitted_x` cannot grow: the
    endpoint is in a state in which `send` accepts nothing, or gone.) -/
theorem c03_fin_numbered_last (ia ib : Seq) (ma mb : U16) (simultaneous : Bool) (sys0 sys : Sys)
    (h0 : Start ia ib ma mb simultaneous sys0) (hrun : FinRun sys0 sys) (h31 : C01.Lt31 sys) (x : SideId) :
    (∀ g ∈ sys.history, g.hdr.srcPort = x.port → g.hdr.ctl.fin = true →
      g.text = [] ∧ g.hdr.ctl.syn = false ∧
        g.hdr.seq = issOf ia ib x + 1 + BitVec.ofNat 32 (sys.side x).submitted.length) ∧
    (∀ t, (sys.side x).tcb = some t → ∀ tr ∈ t.outgoing.retransmit, tr.segment.hdr.ctl.fin = true →
      tr.segment.text = [] ∧ tr.segment.hdr.ctl.syn = false ∧
        tr.segment.hdr.seq = issOf ia ib x + 1 + BitVec.ofNat 32 (sys.side x).submitted.length) ∧
    (∀ u, (sys.side x.peer).tcb = some u → ∀ g ∈ u.incoming.segments, g.hdr.ctl.fin = true →
      g.text = [] ∧ g.hdr.ctl.syn = false ∧
        g.hdr.seq = issOf ia ib x + 1 + BitVec.ofNat 32 (sys.side x).submitted.length) := by
  obtain ⟨fin, h⟩ := invF_of_start h0 hrun h31
  refine ⟨fun g hg hp hf => ?_, fun t ht tr htr hf => ?_, fun u hu g hg hf => ?_⟩
  · obtain ⟨_, a, b, c⟩ := (h.hist g hg x hp).fin hf
    exact ⟨b, a, c⟩
  · obtain ⟨i, _⟩ := (h.side x).tcb t ht
    obtain ⟨_, a, b, c⟩ := (i.rtx tr.segment (List.mem_map.2 ⟨tr, htr, rfl⟩)).1.fin hf
    exact ⟨b, a, c⟩
  · obtain ⟨i, _⟩ := (h.side_peer x).tcb u hu
    obtain ⟨_, a, b, c⟩ := (i.heap g hg).fin hf
    exact ⟨b, a, c⟩

/-- **C01 stream safety and exactly-once with `close()`.**  `c01_safety` / `c01_exactly_once`
    (`Props/C01Safety.lean`) quantify over runs in which nobody closes.  With closes by either side at any
    time (`FinRun`, file header), under H31: in every reachable state, for both sides `x`:
    `delivered_x` is a prefix of `submitted_peer`; for a TCB of `x` out of SYN-SENT,
    `delivered_x ++ buffered` is a prefix of `submitted_peer` and
    `RCV.NXT = ISS_peer + 1 + |delivered_x ++ buffered| + [state shows FIN received]` — one sequence number,
    one byte, once —; and `SND.NXT = ISS_x + 1 + |submitted_x| − |unsegmentized text| + [FIN numbered]`. -/
theorem c03_stream_with_close (ia ib : Seq) (ma mb : U16) (simultaneous : Bool) (sys0 sys : Sys)
    (h0 : Start ia ib ma mb simultaneous sys0) (hrun : FinRun sys0 sys) (h31 : C01.Lt31 sys) (x : SideId) :
    (sys.side x).delivered <+: (sys.side x.peer).submitted ∧
    ∀ t, (sys.side x).tcb = some t →
      (t.state ≠ .SynSent →
        (sys.side x).delivered ++ t.incoming.text <+: (sys.side x.peer).submitted ∧
        t.rcv.nxt = issOf ia ib x.peer + 1 + BitVec.ofNat 32
          ((sys.side x).delivered.length + t.incoming.text.length + (finRcvd t.state).toNat)) ∧
      (∃ pre, (sys.side x).submitted = pre ++ t.outgoing.text ∧
        t.snd.nxt = issOf ia ib x + 1 + BitVec.ofNat 32 (pre.length + (finSent t).toNat)) := by
  obtain ⟨fin, h⟩ := invF_of_start h0 hrun h31
  refine ⟨(h.side x).pre, fun t ht => ?_⟩
  obtain ⟨i, _⟩ := (h.side x).tcb t ht
  exact ⟨fun hns => ⟨(i.rcv1 hns).2, (i.rcv1 hns).1⟩, i.out⟩

/-! ## non-vacuity -/

/-- handshake; A writes 3 bytes and closes at once (the text is not yet segmentized: the FIN waits
    for it), emits data + FIN (history elements 3 and 4); the FIN is delivered FIRST (parked in B's
    reorder heap: B's state does not show FIN received), then the data: B takes both -/
def finOps : List Op :=
  [.emit .A, .deliver .B 0, .emit .B, .deliver .A 1, .emit .A, .deliver .B 2,
   .write .A [1, 2, 3], .close .A, .emit .A, .deliver .B 4]

def finCheck : Bool :=
  match Sys.run {} [.open .A 1000 1500, .listen .B 5000 1500] with
  | .ok (sys0, _) =>
    match finRunB sys0 finOps with
    | some s =>
      (match s.b.tcb with
        | some tb => tb.state == .Established && s.b.delivered.isEmpty && tb.incoming.text.isEmpty &&
            s.history.length == 5
        | none => false) &&
      (match finRunB s [.deliver .B 3] with
        | some s' =>
          (decide (s'.a.submitted.length < 2147483648) && decide (s'.b.submitted.length < 2147483648)) &&
          (match s'.b.tcb with
            | some tb => tb.state == .CloseWait && s'.b.delivered ++ tb.incoming.text == [1, 2, 3] &&
                s'.a.submitted == [1, 2, 3]
            | none => false)
        | none => false)
    | none => false
  | .error _ => false

/-- the hypotheses of `c03_fin_after_data` are satisfiable with the FIN overtaking the data: while only
    the FIN has arrived B stays ESTABLISHED; once the data arrives B is in CLOSE-WAIT holding `[1, 2, 3]` -/
example : ∃ sys0 s s' : Sys, ∃ tb : Tcb,
    Start 1000 5000 1500 1500 false sys0 ∧ FinRun sys0 s ∧ FinRun s s' ∧ C01.Lt31 s' ∧
    s'.b.tcb = some tb ∧ finRcvd tb.state = true ∧ s'.b.delivered ++ tb.incoming.text = [1, 2, 3] := by
  have key : finCheck = true := by decide
  unfold finCheck at key
  split at key
  · rename_i sys0 rs e0
    split at key
    · rename_i s e1
      simp only [Bool.and_eq_true] at key
      obtain ⟨_, k2⟩ := key
      split at k2
      · rename_i s' e2
        simp only [Bool.and_eq_true] at k2
        obtain ⟨l31, k3⟩ := k2
        split at k3
        · rename_i tb htb
          simp only [Bool.and_eq_true, beq_iff_eq] at k3
          refine ⟨sys0, s, s', tb, ⟨rs, e0⟩, finRunB_sound _ _ _ e1, finRunB_sound _ _ _ e2, ?_, htb, ?_, k3.1.2⟩
          · simp only [decide_eq_true_eq] at l31
            exact l31
          · rw [k3.1.1]; rfl
        · simp at k3
      · simp at k2
    · simp at key
  · simp at key

end Elvis.Tcp.C03
