import ElvisVerif.Model.Arp
/-! Helper lemmas for C06: association lists, monotonicity of claims along transitions, the
soundness invariant and its preservation by every transition. -/
namespace Elvis.Arp
open Elvis.Gen.Arp

/-! ### association lists -/

theorem alookup_ainsert_same {α : Type} (k : Nat) (v : α) (l : List (Nat × α)) :
    alookup k (ainsert k v l) = some v := by
  induction l with
  | nil => simp [ainsert, alookup]
  | cons p r ih =>
    obtain ⟨k', v'⟩ := p
    by_cases h : k' = k
    · simp [ainsert, alookup, h]
    · simp [ainsert, alookup, h, ih]

theorem alookup_ainsert_ne {α : Type} {k k' : Nat} (h : k' ≠ k) (v : α) (l : List (Nat × α)) :
    alookup k' (ainsert k v l) = alookup k' l := by
  induction l with
  | nil => simp [ainsert, alookup, Ne.symm h]
  | cons p r ih =>
    obtain ⟨k'', v''⟩ := p
    by_cases h1 : k'' = k
    · subst h1
      simp [ainsert, alookup, Ne.symm h]
    · by_cases h2 : k'' = k'
      · subst h2
        simp [ainsert, alookup, h1]
      · simp [ainsert, alookup, h1, h2, ih]

theorem alookup_ainsert {α : Type} (k k' : Nat) (v : α) (l : List (Nat × α)) :
    alookup k' (ainsert k v l) = if k' = k then some v else alookup k' l := by
  by_cases h : k' = k
  · subst h; simp [alookup_ainsert_same]
  · simp [h, alookup_ainsert_ne h]

/-! ### machines only grow -/

/-- `m'` has the same taps as `m` and answers for at least the same addresses -/
def Machine.le (m m' : Machine) : Prop :=
  m'.macs = m.macs ∧ ∀ x, m.owns x = true → m'.owns x = true

theorem Machine.le_refl (m : Machine) : m.le m := ⟨rfl, fun _ h => h⟩

theorem Machine.le_trans {a b c : Machine} (h1 : a.le b) (h2 : b.le c) : a.le c :=
  ⟨h2.1.trans h1.1, fun x h => h2.2 x (h1.2 x h)⟩

theorem Machine.le_of_localIps {m m' : Machine} (h1 : m'.macs = m.macs) (h2 : m'.localIps = m.localIps) :
    m.le m' := ⟨h1, fun x h => by simpa [Machine.owns, h2] using h⟩

theorem Machine.owns_listen (m : Machine) (ip x : Ip) :
    (m.listen ip).owns x = (m.owns x || decide (x = ip)) := by
  unfold Machine.listen
  cases h : alookup ip m.localIps with
  | some v =>
    by_cases hx : x = ip
    · subst hx; simp [Machine.owns, h]
    · simp [hx]
  | none =>
    by_cases hx : x = ip
    · subst hx; simp [Machine.owns, alookup_ainsert_same]
    · simp [Machine.owns, alookup_ainsert_ne hx, hx]

theorem Machine.listen_le (m : Machine) (ip : Ip) : m.le (m.listen ip) := by
  refine ⟨?_, fun x h => by simp [Machine.owns_listen, h]⟩
  unfold Machine.listen; split <;> rfl

theorem Machine.listen_owns (m : Machine) (ip : Ip) : (m.listen ip).owns ip = true := by
  simp [Machine.owns_listen]

theorem Machine.listen_table (m : Machine) (ip : Ip) : (m.listen ip).table = m.table := by
  unfold Machine.listen; split <;> rfl

theorem Machine.listen_macs (m : Machine) (ip : Ip) : (m.listen ip).macs = m.macs := by
  unfold Machine.listen; split <;> rfl

theorem Machine.setSubnet_le (m : Machine) (ip : Ip) (sn : Subnet) : m.le (m.setSubnet ip sn) := by
  refine ⟨rfl, fun x h => ?_⟩
  simp only [Machine.owns, Machine.setSubnet, alookup_ainsert] at *
  split <;> simp_all

/-- pointwise growth of the machine list -/
def MsLe (ms ms' : List Machine) : Prop :=
  ∀ (k : Nat) (m : Machine), ms[k]? = some m → ∃ m', ms'[k]? = some m' ∧ m.le m'

theorem MsLe.refl (ms : List Machine) : MsLe ms ms := fun _ m h => ⟨m, h, m.le_refl⟩

theorem MsLe.trans {a b c : List Machine} (h1 : MsLe a b) (h2 : MsLe b c) : MsLe a c := by
  unfold MsLe
  intro k m h
  obtain ⟨m', hm', l1⟩ := h1 k m h
  obtain ⟨m'', hm'', l2⟩ := h2 k m' hm'
  exact ⟨m'', hm'', Machine.le_trans l1 l2⟩

theorem MsLe.set {ms : List Machine} {k : Nat} {m m' : Machine} (h : ms[k]? = some m) (hle : m.le m') :
    MsLe ms (ms.set k m') := by
  unfold MsLe
  intro j o ho
  by_cases hj : k = j
  · subst hj
    have hlt : k < ms.length := by
      rcases Nat.lt_or_ge k ms.length with h1 | h1
      · exact h1
      · rw [List.getElem?_eq_none h1] at h; cases h
    rw [h] at ho; cases ho
    exact ⟨m', by simp [List.getElem?_set_self hlt], hle⟩
  · exact ⟨o, by rw [List.getElem?_set_ne hj]; exact ho, o.le_refl⟩

/-- some machine answers for `x` and has a tap with MAC `mac` -/
def Owned (ms : List Machine) (x : Ip) (mac : Mac) : Prop :=
  ∃ (j : Nat) (o : Machine), ms[j]? = some o ∧ o.owns x = true ∧ mac ∈ o.macs

theorem Owned.mono {ms ms' : List Machine} (h : MsLe ms ms') {x : Ip} {mac : Mac} (ho : Owned ms x mac) :
    Owned ms' x mac := by
  obtain ⟨j, o, hj, hx, hm⟩ := ho
  obtain ⟨o', hj', hle⟩ := h j o hj
  exact ⟨j, o', hj', hle.2 x hx, by rw [hle.1]; exact hm⟩

/-! ### the soundness invariant -/

/-- `r` is waiting on behalf of an address and a tap of its own machine -/
def PendingOk (ms : List Machine) (r : Resolver) : Prop :=
  ∃ m : Machine, ms[r.mach]? = some m ∧ m.owns r.loc = true ∧ r.smac ∈ m.macs

theorem PendingOk.mono {ms ms' : List Machine} (h : MsLe ms ms') {r : Resolver} (hp : PendingOk ms r) :
    PendingOk ms' r := by
  obtain ⟨m, hm, ho, hmac⟩ := hp
  obtain ⟨m', hm', hle⟩ := h _ m hm
  exact ⟨m', hm', hle.2 _ ho, by rw [hle.1]; exact hmac⟩

def FrameOk (ms : List Machine) (f : Frame) : Prop :=
  Owned ms f.pkt.sip f.pkt.smac ∧ f.smac = f.pkt.smac

def ResolverOk (ms : List Machine) (r : Resolver) : Prop :=
  (∀ mac t, r.result = some (.ok mac, t) → Owned ms r.dest mac) ∧ (r.result = none → PendingOk ms r)

/-- every ARP frame ever sent carries an (IP, MAC) of its sender; every `Ok` table entry and
    every `Ok` answer names a tap of a machine that answers for the address -/
structure InvC (ms : List Machine) (wire : List Frame) (rs : List Resolver) : Prop where
  frames : ∀ f ∈ wire, FrameOk ms f
  table : ∀ (k : Nat) (m : Machine) (x : Ip) (mac : Mac), ms[k]? = some m →
    alookup x m.table = some (Status.ok mac) → Owned ms x mac
  resolvers : ∀ r ∈ rs, ResolverOk ms r

def Inv (s : Net) : Prop := InvC s.machines s.wire s.resolvers

theorem ResolverOk.mono {ms ms' : List Machine} (h : MsLe ms ms') {r : Resolver} (hr : ResolverOk ms r) :
    ResolverOk ms' r :=
  ⟨fun mac t e => (hr.1 mac t e).mono h, fun e => (hr.2 e).mono h⟩

/-- replace machine `k` by a bigger one whose new `Ok` table entries are justified -/
theorem InvC.setMachine {ms : List Machine} {wire : List Frame} {rs : List Resolver} (h : InvC ms wire rs)
    {k : Nat} {m m' : Machine} (hk : ms[k]? = some m) (hle : m.le m')
    (htab : ∀ x mac, alookup x m'.table = some (.ok mac) →
      alookup x m.table = some (.ok mac) ∨ Owned (ms.set k m') x mac) :
    InvC (ms.set k m') wire rs := by
  have hms : MsLe ms (ms.set k m') := MsLe.set hk hle
  refine ⟨fun f hf => ⟨(h.frames f hf).1.mono hms, (h.frames f hf).2⟩, ?_, fun r hr => (h.resolvers r hr).mono hms⟩
  intro j o x mac hj hx
  by_cases hjk : k = j
  · subst hjk
    have hlt : k < ms.length := by
      rcases Nat.lt_or_ge k ms.length with h1 | h1
      · exact h1
      · rw [List.getElem?_eq_none h1] at hk; cases hk
    rw [List.getElem?_set_self hlt] at hj; cases hj
    rcases htab x mac hx with h1 | h1
    · exact (h.table k m x mac hk h1).mono hms
    · exact h1
  · rw [List.getElem?_set_ne hjk] at hj
    exact (h.table j o x mac hj hx).mono hms

theorem InvC.addFrames {ms : List Machine} {wire : List Frame} {rs : List Resolver} (h : InvC ms wire rs)
    {fs : List Frame} (hf : ∀ f ∈ fs, FrameOk ms f) : InvC ms (wire ++ fs) rs :=
  ⟨fun f hmem => by
    rcases List.mem_append.mp hmem with h1 | h1
    · exact h.frames f h1
    · exact hf f h1, h.table, h.resolvers⟩

theorem InvC.addResolver {ms : List Machine} {wire : List Frame} {rs : List Resolver} (h : InvC ms wire rs)
    {r : Resolver} (hr : ResolverOk ms r) : InvC ms wire (rs ++ [r]) :=
  ⟨h.frames, h.table, fun r' hmem => by
    rcases List.mem_append.mp hmem with h1 | h1
    · exact h.resolvers r' h1
    · rw [List.mem_singleton.mp h1]; exact hr⟩

theorem InvC.setResolver {ms : List Machine} {wire : List Frame} {rs : List Resolver} (h : InvC ms wire rs)
    (i : Nat) {r : Resolver} (hr : ResolverOk ms r) : InvC ms wire (rs.set i r) :=
  ⟨h.frames, h.table, fun r' hmem => by
    rcases List.mem_or_eq_of_mem_set hmem with h1 | h1
    · exact h.resolvers r' h1
    · rw [h1]; exact hr⟩

theorem InvC.setFrame {ms : List Machine} {wire : List Frame} {rs : List Resolver} (h : InvC ms wire rs)
    (i : Nat) {f : Frame} (hf : FrameOk ms f) : InvC ms (wire.set i f) rs :=
  ⟨fun f' hmem => by
    rcases List.mem_or_eq_of_mem_set hmem with h1 | h1
    · exact h.frames f' h1
    · rw [h1]; exact hf, h.table, h.resolvers⟩

/-! ### the transitions preserve the invariant -/

theorem getElem?_lt {α : Type} {l : List α} {k : Nat} {a : α} (h : l[k]? = some a) : k < l.length := by
  rcases Nat.lt_or_ge k l.length with h1 | h1
  · exact h1
  · rw [List.getElem?_eq_none h1] at h; cases h

theorem tableHit_ok {neg : Bool} {e : Option Status} {mac : Mac} (h : tableHit neg e = some (.ok mac)) :
    e = some (.ok mac) := by
  unfold tableHit at h
  split at h
  · simpa using h
  · split at h <;> simp at h
  · simp at h

theorem Machine.demux_fst (m : Machine) (tapMac : Mac) (mtu : Nat) (p : Packet) :
    (m.demux tapMac mtu p).1 = { m with table := ainsert p.sip (.ok p.smac) m.table } := by
  unfold Machine.demux
  split
  · split <;> rfl
  · rfl

theorem Machine.demux_snd (m : Machine) (tapMac : Mac) (mtu : Nat) (p : Packet) :
    (m.demux tapMac mtu p).2 =
      if p.oper = .request ∧ m.owns p.tip = true ∧ packetSize ≤ mtu then some (replyFrame tapMac p) else none := by
  unfold Machine.demux
  by_cases h1 : p.oper = .request ∧ m.owns p.tip = true
  · by_cases h2 : packetSize ≤ mtu
    · simp [h1, h2]
    · simp [h1, h2]
  · have : ¬ (p.oper = .request ∧ m.owns p.tip = true ∧ packetSize ≤ mtu) := fun h => h1 ⟨h.1, h.2.1⟩
    simp [h1, this]

theorem Inv.listen {s : Net} (h : Inv s) (k : Nat) (ip : Ip) : Inv (s.listen k ip) := by
  unfold Net.listen
  split
  · rename_i m hm
    exact InvC.setMachine h hm (m.listen_le ip) (fun x mac hx => Or.inl (by rw [Machine.listen_table] at hx; exact hx))
  · exact h

theorem Inv.setSubnet {s : Net} (h : Inv s) (k : Nat) (ip : Ip) (bits : Nat) (gw : Ip) :
    Inv (s.setSubnet k ip bits gw) := by
  unfold Net.setSubnet
  split
  · rename_i m hm
    exact InvC.setMachine h hm (m.setSubnet_le ip _) (fun x mac hx => Or.inl hx)
  · exact h

theorem Inv.lose {s : Net} (h : Inv s) (fi : Nat) : Inv (s.lose fi) := by
  unfold Net.lose
  split
  · rename_i f hf
    exact InvC.setFrame h fi (h.frames f (List.mem_of_getElem? hf))
  · exact h

theorem Inv.tick {s : Net} (h : Inv s) (dt : Nat) : Inv (s.tick dt) := by
  unfold Net.tick
  split
  · exact h
  · exact h

theorem Inv.wake {s : Net} (h : Inv s) (i : Nat) : Inv (s.wake i) := by
  unfold Net.wake
  split
  · rename_i r hr
    split
    · split
      · rename_i st hst
        refine InvC.setResolver h i ⟨fun mac t e => ?_, fun e => by simp at e⟩
        simp only [Option.some.injEq, Prod.mk.injEq] at e
        obtain ⟨e1, _⟩ := e
        subst e1
        unfold Net.hit at hst
        split at hst
        · rename_i m hm
          exact h.table _ m _ mac hm (tableHit_ok hst)
        · cases hst
      · exact h
    · exact h
  · exact h

theorem Inv.deliver {s : Net} (h : Inv s) (fi k slot : Nat) : Inv (s.deliver fi k slot) := by
  unfold Net.deliver
  split
  · rename_i f m hf hm
    split
    · rename_i tapMac htap
      split
      · rename_i hcond
        have hfok := h.frames f (List.mem_of_getElem? hf)
        have hle : m.le (m.demux tapMac s.mtu f.pkt).1 := by
          rw [Machine.demux_fst]; exact Machine.le_of_localIps rfl rfl
        have hms := MsLe.set hm hle
        have h1 : InvC (s.machines.set k (m.demux tapMac s.mtu f.pkt).1) s.wire s.resolvers := by
          refine InvC.setMachine h hm hle ?_
          intro x mac hx
          rw [Machine.demux_fst] at hx
          simp only [alookup_ainsert] at hx
          split at hx
          · rename_i hxe
            simp only [Option.some.injEq, Status.ok.injEq] at hx
            subst hx; subst hxe
            exact Or.inr (hfok.1.mono hms)
          · exact Or.inl hx
        refine InvC.addFrames h1 ?_
        intro f' hf'
        rw [Machine.demux_snd] at hf'
        split at hf'
        · rename_i hc
          simp only [Option.toList_some, List.mem_singleton] at hf'
          subst hf'
          refine ⟨⟨k, (m.demux tapMac s.mtu f.pkt).1, ?_, hle.2 _ hc.2.1, ?_⟩, rfl⟩
          · exact List.getElem?_set_self (getElem?_lt hm)
          · rw [hle.1]; exact List.mem_of_getElem? htap
        · simp at hf'
      · exact h
    · exact h
  · exact h

/-- what one iteration of the retry loop does to the invariant -/
theorem Inv.roundOrFail {s : Net} (h : Inv s) {r : Resolver} (hp : PendingOk s.machines r)
    (hr : r.result = none) :
    InvC (s.roundOrFail r).1.machines (s.roundOrFail r).1.wire s.resolvers ∧
    ResolverOk (s.roundOrFail r).1.machines (s.roundOrFail r).2 ∧
    (s.roundOrFail r).1.resolvers = s.resolvers ∧ MsLe s.machines (s.roundOrFail r).1.machines := by
  unfold Net.roundOrFail
  split
  · split
    · refine ⟨InvC.addFrames h ?_, ⟨fun mac t e => by simp [hr] at e, fun _ => hp⟩, rfl, MsLe.refl _⟩
      intro f hf
      simp only [List.mem_singleton] at hf
      subst hf
      obtain ⟨m, hm, ho, hmac⟩ := hp
      exact ⟨⟨r.mach, m, hm, ho, hmac⟩, rfl⟩
    · exact ⟨h, ⟨fun mac t e => by simp at e, fun e => by simp at e⟩, rfl, MsLe.refl _⟩
  · unfold Net.failMac
    split
    · rename_i m hm
      have hle : m.le { m with table := ainsert r.dest Status.err m.table } := Machine.le_of_localIps rfl rfl
      refine ⟨InvC.setMachine h hm hle ?_, ⟨fun mac t e => by simp at e, fun e => by simp at e⟩, rfl, MsLe.set hm hle⟩
      intro x mac hx
      simp only [alookup_ainsert] at hx
      split at hx
      · cases hx
      · exact Or.inl hx
    · exact ⟨h, ⟨fun mac t e => by simp at e, fun e => by simp at e⟩, rfl, MsLe.refl _⟩

theorem Inv.timeout {s : Net} (h : Inv s) (i : Nat) : Inv (s.timeout i) := by
  unfold Net.timeout
  split
  · rename_i r hr
    split
    · rename_i hc
      have hrok := h.resolvers r (List.mem_of_getElem? hr)
      obtain ⟨h1, h2, h3, _⟩ := Inv.roundOrFail h (hrok.2 hc.1) hc.1
      show InvC _ _ ((s.roundOrFail r).1.resolvers.set i (s.roundOrFail r).2)
      rw [h3]
      exact InvC.setResolver h1 i h2
    · exact h
  · exact h

theorem Inv.resolve {s : Net} (h : Inv s) (k : Nat) (loc remote : Ip) (slot : Nat) :
    Inv (s.resolve k loc remote slot) := by
  unfold Net.resolve
  split
  · exact h
  · rename_i m0 hm0
    have h1 : InvC (s.machines.set k (m0.listen loc)) s.wire s.resolvers :=
      InvC.setMachine h hm0 (m0.listen_le loc) (fun x mac hx => Or.inl (by rw [Machine.listen_table] at hx; exact hx))
    have hk : (s.machines.set k (m0.listen loc))[k]? = some (m0.listen loc) :=
      List.getElem?_set_self (getElem?_lt hm0)
    dsimp only
    split
    · rename_i st hst
      refine InvC.addResolver h1 ⟨fun mac t e => ?_, fun e => by simp at e⟩
      simp only [Option.some.injEq, Prod.mk.injEq] at e
      obtain ⟨e1, _⟩ := e
      subst e1
      exact h1.table k _ _ mac hk (tableHit_ok hst)
    · split
      · exact h1
      · rename_i mac hmac
        have hp : PendingOk (s.machines.set k (m0.listen loc))
            ⟨k, mac, loc, destOf (m0.listen loc) loc remote, s.now, 0, s.now, none⟩ :=
          ⟨m0.listen loc, hk, m0.listen_owns loc, List.mem_of_getElem? hmac⟩
        obtain ⟨h2, h3, h4, _⟩ := Inv.roundOrFail (s := { s with machines := s.machines.set k (m0.listen loc) }) h1 hp rfl
        show InvC _ _ (_ ++ [_])
        rw [h4]
        exact InvC.addResolver h2 h3

theorem Inv.step {s : Net} (h : Inv s) (l : Label) : Inv (step s l) := by
  unfold Elvis.Arp.step
  split
  · exact h
  · cases l with
    | listen k ip => exact h.listen k ip
    | setSubnet k ip bits gw => exact h.setSubnet k ip bits gw
    | resolve k loc remote slot => exact h.resolve k loc remote slot
    | deliver fi k slot => exact h.deliver fi k slot
    | lose fi => exact h.lose fi
    | wake i => exact h.wake i
    | timeout i => exact h.timeout i
    | tick dt => exact h.tick dt

theorem Inv.run {s : Net} (h : Inv s) (ls : List Label) : Inv (run s ls) := by
  induction ls generalizing s with
  | nil => exact h
  | cons l ls ih => exact ih (h.step l)

theorem Inv.init (neg : Bool) (slots : List Nat) (mtu : Nat) : Inv (initWith neg slots mtu) :=
  ⟨fun f hf => by simp [initWith] at hf,
   fun k m x mac hk hx => by
     simp only [initWith, List.getElem?_map, Option.map_eq_some_iff] at hk
     obtain ⟨ms, _, rfl⟩ := hk
     simp [alookup] at hx,
   fun r hr => by simp [initWith] at hr⟩

end Elvis.Arp
