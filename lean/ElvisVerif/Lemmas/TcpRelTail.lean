import ElvisVerif.Lemmas.TcpRelSys2
/-!
# The second half of a sequential close, from ANY quiet FIN-WAIT-2 / CLOSE-WAIT pair

`release_tail`: A is in FIN-WAIT-2 (its FIN acknowledged), B in CLOSE-WAIT, nothing queued, unsent, buffered or parked
on either side, sequence numbers synchronised.  `releaseTail` = `close B` (LAST-ACK), two exchange phases (A: TIME-WAIT;
B's TCB deleted by A's ACK of its FIN), `2·MSL + 1` ms on A's side (A's TCB deleted).  Unlike `release_sequential`
(`Lemmas/TcpRelSys2.lean`) the starting TCBs are not terms of a `Done` state: whatever led to the pair (e.g. a close
issued with text still queued, `Lemmas/TcpRelData.lean`) can be continued with it.
-/
namespace Elvis.Tcp
open Elvis.ModCmp Elvis.Tcp.Fin
namespace Tcb

/-- endpoint `x` (TCB `t`, peer's TCB `u`): nothing queued, unsent, buffered or parked, everything acknowledged and
    received by the peer; the state is left open -/
structure RestX (x : SideId) (t u : Tcb) : Prop where
  heap : t.incoming.segments = []
  buf : t.incoming.text = []
  text : t.outgoing.text = []
  rtx : t.outgoing.retransmit = []
  one : t.outgoing.oneshot = []
  una : t.snd.una = t.snd.nxt
  sync : u.rcv.nxt = t.snd.nxt
  wnd : t.rcv.wnd = 65535#16
  mtu : ¬ t.mtu.toNat < SPACE_FOR_HEADERS
  lp : t.localPort = x.port
  rp : t.remotePort = x.peer.port

/-- FIN-WAIT-2 after the peer's FIN: TIME-WAIT -/
def tailA2 (t : Tcb) : Tcb :=
  ({ emitT t with state := .TimeWait, rcv.nxt := (emitT t).rcv.nxt + 1, outgoing.oneshot := (emitT t).outgoing.oneshot ++ [(emitT t).finAckHdr], timeouts := { timeWait := some TIME_WAIT, retransmission := RTO } } : Tcb)

/-- CLOSE-WAIT after `close()`: LAST-ACK -/
def tailB1 (t : Tcb) : Tcb :=
  ({ t with state := .LastAck, snd.nxt := t.snd.nxt + 1, outgoing.retransmit := t.outgoing.retransmit ++ [Transmit.new ⟨({ t with state := .LastAck } : Tcb).finHdr.built, []⟩] } : Tcb)

def tailFin (t : Tcb) : Segment := ⟨({ t with state := .LastAck } : Tcb).finHdr.built, []⟩

theorem emitOut_quiet (t : Tcb) (h1 : t.outgoing.oneshot = []) (h2 : t.outgoing.retransmit = []) : emitOut t = [] := by
  unfold emitOut
  simp only [h1, h2, List.map_nil, List.filter_nil, List.append_nil]

/-- the side in FIN-WAIT-2 -/
theorem tail_fw2 (x : SideId) (t u : Tcb) (hst : t.state = .FinWait2) (q : RestX x t u) (gF : Segment)
    (hF : IsFin gF t.rcv.nxt t.snd.nxt) :
    t.segments = .ok (emitT t, []) ∧ (emitT t).arriveList [gF] = .ok (tailA2 t) ∧
      (tailA2 t).receive = (tailA2 t, []) ∧
      (tailA2 t).segments = .ok (emitT (tailA2 t), [⟨(emitT t).finAckHdr, []⟩]) ∧
      IsAck ⟨(emitT t).finAckHdr, []⟩ t.snd.nxt (t.rcv.nxt + 1) ∧
      (emitT t).finAckHdr.srcPort = t.localPort ∧ (emitT t).finAckHdr.dstPort = t.remotePort ∧
      (emitT (tailA2 t)).receive = (emitT (tailA2 t), []) ∧ (emitT (tailA2 t)).timeouts.timeWait = some TIME_WAIT := by
  have e0 := segments_notext_eq t q.text q.mtu
  rw [emitOut_quiet t q.one q.rtx] at e0
  have e := arrive_fin_fw2 (emitT t) gF hst q.wnd q.heap hF.rst hF.syn hF.fin hF.ackb hF.text hF.seq
    (by
      show modLeq gF.hdr.ack t.snd.una = true
      rw [hF.ack, q.una]; exact modLeq_self _)
  refine ⟨e0, by simp only [arriveList, e]; rfl, receive_quiet _ (Or.inr (Or.inl rfl)), ?_,
    ⟨rfl, rfl, rfl, rfl, rfl, rfl, rfl⟩, rfl, rfl, receive_quiet _ (Or.inr (Or.inl rfl)), rfl⟩
  have := segments_notext_eq (tailA2 t) q.text q.mtu
  have hout : emitOut (tailA2 t) = [⟨(emitT t).finAckHdr, []⟩] := by
    unfold emitOut tailA2
    have h1 : (emitT t).outgoing.oneshot = [] := rfl
    have h2 : (emitT t).outgoing.retransmit.filter (·.needsTransmit) = [] := by
      unfold emitT
      exact filter_unflag' _
    simp only [h1, h2, List.nil_append, List.map_cons, List.map_nil, List.append_nil]
  rw [hout] at this
  exact this

/-- the side in CLOSE-WAIT -/
theorem tail_cw (x : SideId) (t u : Tcb) (hst : t.state = .CloseWait) (q : RestX x t u) (gA : Segment)
    (hA : IsAck gA t.rcv.nxt (t.snd.nxt + 1)) :
    t.close = .ok (tailB1 t, .Ok) ∧ (tailB1 t).segments = .ok (emitT (tailB1 t), [tailFin t]) ∧
      IsFin (tailFin t) t.snd.nxt t.rcv.nxt ∧
      (tailFin t).hdr.srcPort = t.localPort ∧ (tailFin t).hdr.dstPort = t.remotePort ∧
      (emitT (tailB1 t)).receive = (emitT (tailB1 t), []) ∧
      (emitT (tailB1 t)).segments = .ok (emitT (emitT (tailB1 t)), []) ∧
      ∃ t', (emitT (emitT (tailB1 t))).segmentArrives gA = .ok (t', .Close) := by
  refine ⟨close_fwd_cw t hst q.text, ?_, ⟨rfl, rfl, rfl, rfl, rfl, rfl, rfl⟩, rfl, rfl,
    receive_quiet _ (Or.inr (Or.inr rfl)), ?_, ?_⟩
  · have := segments_notext_eq (tailB1 t) q.text q.mtu
    have hout : emitOut (tailB1 t) = [tailFin t] := by
      unfold emitOut tailB1
      simp only [q.one, q.rtx, List.map_nil, List.nil_append]
      rfl
    rw [hout] at this
    exact this
  · have := segments_notext_eq (emitT (tailB1 t)) q.text q.mtu
    rw [show emitOut (emitT (tailB1 t)) = [] from emitOut_emitT _] at this
    exact this
  · have hd : ((emitT (emitT (tailB1 t))).snd.nxt - (emitT (emitT (tailB1 t))).snd.una).toNat = 1 := by
      show (t.snd.nxt + 1 - t.snd.una).toNat = 1
      rw [q.una]
      have : t.snd.nxt + 1 - t.snd.nxt = 1 := by bv_omega
      rw [this]; rfl
    exact arrive_ack_lastack (emitT (emitT (tailB1 t))) gA rfl q.wnd q.heap q.text hA.syn hA.fin hA.ackb hA.text hA.seq
      hd hA.ack

end Tcb
open Tcb

/-- `close B`, two exchange phases, `2·MSL + 1` ms on A's side -/
def releaseTail (s : Sys) : Except String Sys :=
  match s.step (.close .B) with
  | .error e => .error e
  | .ok (s1, _) =>
  match phase s1 with
  | .error e => .error e
  | .ok s2 =>
  match phase s2 with
  | .error e => .error e
  | .ok s3 =>
  match s3.step (.tick .A (TIME_WAIT + 1)) with
  | .error e => .error e
  | .ok (s4, _) => .ok s4

/-- **the second half of a sequential close** from any quiet FIN-WAIT-2 / CLOSE-WAIT pair -/
theorem release_tail (s : Sys) (ta tb : Tcb) (ha : (s.side .A).tcb = some ta) (hb : (s.side .B).tcb = some tb)
    (sa : ta.state = .FinWait2) (sb : tb.state = .CloseWait) (qa : RestX .A ta tb) (qb : RestX .B tb ta) :
    ∃ s', releaseTail s = .ok s' ∧ FinRun s s' ∧ (s'.side .A).tcb = none ∧ (s'.side .B).tcb = none ∧
      (s'.side .A).submitted = (s.side .A).submitted ∧ (s'.side .B).submitted = (s.side .B).submitted ∧
      (s'.side .A).delivered = (s.side .A).delivered ∧ (s'.side .B).delivered = (s.side .B).delivered ∧
      s'.historyLen = s.historyLen + 2 := by
  have hF : IsFin (tailFin tb) ta.rcv.nxt ta.snd.nxt := by
    have : IsFin (tailFin tb) tb.snd.nxt tb.rcv.nxt := ⟨rfl, rfl, rfl, rfl, rfl, rfl, rfl⟩
    rw [qb.sync, ← qa.sync]; exact this
  obtain ⟨a1, a2, a3, a4, a5, a6, a7, a8, a9⟩ := tail_fw2 .A ta tb sa qa (tailFin tb) hF
  have hA : IsAck ⟨(emitT ta).finAckHdr, []⟩ tb.rcv.nxt (tb.snd.nxt + 1) := by
    rw [qa.sync, ← qb.sync]; exact a5
  obtain ⟨c1, c2, c3, c4, c5, c6, c7, c8⟩ := tail_cw .B tb ta sb qb _ hA
  -- close B
  have st1 : s.step (.close .B) = .ok (s.setSide .B { s.side .B with tcb := some (tailB1 tb) }, .closed .Ok) := by
    simp only [Sys.step, Op.side, hb, c1]
  generalize hs1 : s.setSide .B { s.side .B with tcb := some (tailB1 tb) } = s1 at st1
  have h1a : (s1.side .A).tcb = some ta := by rw [← hs1]; exact ha
  have h1b : (s1.side .B).tcb = some (tailB1 tb) := by rw [← hs1]; rfl
  have h1sa : (s1.side .A).submitted = (s.side .A).submitted := by rw [← hs1]; rfl
  have h1sb : (s1.side .B).submitted = (s.side .B).submitted := by rw [← hs1]; rfl
  have h1da : (s1.side .A).delivered = (s.side .A).delivered := by rw [← hs1]; rfl
  have h1db : (s1.side .B).delivered = (s.side .B).delivered := by rw [← hs1]; rfl
  have h1len : s1.historyLen = s.historyLen := by rw [← hs1]; rfl
  -- phase 1: B's FIN
  obtain ⟨s2, ph1, r12, h2a, h2b, h2sa, h2sb, h2da, h2db, h2len⟩ :=
    phase_eval s1 ta (tailB1 tb) (emitT ta) (emitT (tailB1 tb)) (tailA2 ta) (emitT (tailB1 tb)) [] [tailFin tb]
      h1a h1b a1 c2 rfl a2
      (fun g hg => by cases hg)
      (fun g hg => by
        simp only [List.mem_singleton] at hg; subst hg
        exact ⟨c4.trans qb.lp, c5.trans qb.rp⟩)
  rw [a3] at h2a h2da
  rw [c6] at h2b h2db
  -- phase 2: A's ACK deletes B's TCB
  obtain ⟨s3, ph2, r23, h3a, h3b, h3sa, h3sb, h3da, h3db, h3len⟩ :=
    phase_eval_closeB s2 (tailA2 ta) (emitT (tailB1 tb)) (emitT (tailA2 ta)) (emitT (emitT (tailB1 tb)))
      ⟨(emitT ta).finAckHdr, []⟩ h2a h2b a4 c7 c8 ⟨a6.trans qa.lp, a7.trans qa.rp⟩
  rw [a8] at h3a h3da
  -- 2·MSL pass on A's side
  obtain ⟨ta7, tA⟩ := (advanceTime_timeWait (emitT (tailA2 ta)) (TIME_WAIT + 1) TIME_WAIT a9).1 (by omega)
  have st4 : s3.step (.tick .A (TIME_WAIT + 1)) =
      .ok (s3.setSide .A { s3.side .A with tcb := none, listen := none }, .tick .CloseConnection) := by
    simp only [Sys.step, Op.side, h3a, tA]
  refine ⟨s3.setSide .A { s3.side .A with tcb := none, listen := none }, ?_, ?_, rfl, h3b, ?_, ?_, ?_, ?_, ?_⟩
  · unfold releaseTail
    rw [st1]
    dsimp only
    rw [ph1]
    dsimp only
    rw [ph2]
    dsimp only
    rw [st4]
  · exact (((FinRun.step (op := .close .B) (.refl _) trivial st1).trans (FinRun.of_plain r12)).trans r23).trans
      (.step (op := .tick .A (TIME_WAIT + 1)) (.refl _) trivial st4)
  · show (s3.side .A).submitted = _
    rw [h3sa, h2sa, h1sa]
  · show (s3.side .B).submitted = _
    rw [h3sb, h2sb, h1sb]
  · show (s3.side .A).delivered = _
    rw [h3da, h2da, h1da]; simp
  · show (s3.side .B).delivered = _
    rw [h3db, h2db, h1db]; simp
  · show s3.historyLen = _
    rw [h3len, h2len, h1len]; rfl

end Elvis.Tcp
