import ElvisVerif.Lemmas.TcpFullHsTcb
/-!
# The handshake states through the reorder heap (`drain`, `segment_arrives`)

`drain_unfold`, `arrive_unfold`: one round of the processing loop / the acceptability test, as case distinctions.
`drain_stays_est`; `drain_sup` / `segmentArrives_sup` (the queue is kept while the TCB stays in SYN-SENT /
SYN-RECEIVED); `drain_srkeep` / `segmentArrives_srkeep` (the receive side is kept while it stays in SYN-RECEIVED);
`drain_trig` / `segmentArrives_trig` (a parked or arriving acceptable segment with an ACK field in range that is not
ahead of `RCV.NXT` moves SYN-RECEIVED to ESTABLISHED whatever else is parked); `segmentArrives_ss` (SYN-SENT).
-/
namespace Elvis.Tcp.Full
open Elvis.ModCmp Elvis.Tcp.Tcb Elvis.Rfc9293

theorem drain_unfold (n : Nat) (t t' : Tcb) (e : drain (n + 1) t = .ok (t', .Ok)) :
    (t' = t ∧ (LHeap.peek t.incoming.segments = none ∨
      ∃ top, LHeap.peek t.incoming.segments = some top ∧ t.state ≠ .SynSent ∧ modGt top.hdr.seq t.rcv.nxt = true)) ∨
    (∃ top rest s1 r1, LHeap.peek t.incoming.segments = some top ∧
      LHeap.pop segLe t.incoming.segments = (some top, rest) ∧
      (t.state ≠ .SynSent → modGt top.hdr.seq t.rcv.nxt = false) ∧
      processSegment { t with incoming.segments := rest } top = .ok (s1, r1) ∧ r1.shouldDeleteTcb = false ∧
      drain n s1 = .ok (t', .Ok)) := by
  unfold drain at e
  split at e
  · rename_i hpeek
    cases e
    exact Or.inl ⟨rfl, Or.inl hpeek⟩
  · rename_i top hpeek
    split at e
    · rename_i hgate
      cases e
      simp only [Bool.and_eq_true, ne_eq, decide_eq_true_eq] at hgate
      exact Or.inl ⟨rfl, Or.inr ⟨top, hpeek, hgate.1, hgate.2⟩⟩
    · rename_i hgate
      obtain ⟨rest, hpop⟩ := LHeap.pop_of_peek (le := segLe) hpeek
      rw [hpop] at e
      dsimp only at e
      have hg : t.state ≠ .SynSent → modGt top.hdr.seq t.rcv.nxt = false := by
        intro hne
        cases hm : modGt top.hdr.seq t.rcv.nxt with
        | false => rfl
        | true => exact absurd (by simp [hne, hm]) hgate
      cases hp : processSegment { t with incoming.segments := rest } top with
      | error x => rw [hp] at e; cases e
      | ok p =>
        obtain ⟨s1, r1⟩ := p
        rw [hp] at e
        dsimp only at e
        cases hd : r1.shouldDeleteTcb with
        | true => rw [hd] at e; simp at e
        | false =>
          rw [hd] at e
          simp only [Bool.false_eq_true, if_false] at e
          exact Or.inr ⟨top, rest, s1, r1, hpeek, hpop, hg, hp, hd, e⟩

theorem arrive_unfold (t : Tcb) (g : Segment) (t' : Tcb) (e : t.segmentArrives g = .ok (t', .Ok)) :
    (t.state ≠ .SynSent ∧ t' = t.enqueueBuilt t.ackHdr.built ∧
      t.isSeqOk (BitVec.ofNat 32 g.text.length) g.hdr.seq g.hdr.ctl.syn g.hdr.ctl.fin = .ok false) ∨
    ((t.state = .SynSent ∨
      t.isSeqOk (BitVec.ofNat 32 g.text.length) g.hdr.seq g.hdr.ctl.syn g.hdr.ctl.fin = .ok true) ∧
      drain ((LHeap.push segLe t.incoming.segments g).length + 1)
        { t with incoming.segments := LHeap.push segLe t.incoming.segments g } = .ok (t', .Ok)) := by
  unfold segmentArrives at e
  dsimp only at e
  by_cases hst : t.state = .SynSent
  · rw [if_pos hst] at e
    exact Or.inr ⟨Or.inl hst, e⟩
  · rw [if_neg hst] at e
    cases hb : t.isSeqOk (BitVec.ofNat 32 g.text.length) g.hdr.seq g.hdr.ctl.syn g.hdr.ctl.fin with
    | error x => rw [hb] at e; cases e
    | ok b =>
      rw [hb] at e
      cases b with
      | false =>
        dsimp only at e
        rw [enqueue_eq] at e
        cases e
        exact Or.inl ⟨hst, rfl, rfl⟩
      | true => exact Or.inr ⟨Or.inr rfl, e⟩

/-- ESTABLISHED is not left in the processing loop (no RST / FIN parked) -/
theorem drain_stays_est (fuel : Nat) (s s' : Tcb) (e : drain fuel s = .ok (s', .Ok)) (hst : s.state = .Established)
    (h : ∀ g ∈ s.incoming.segments, g.hdr.ctl.rst = false ∧ g.hdr.ctl.fin = false) : s'.state = .Established := by
  obtain ⟨p, _⟩ := drain_path fuel s s' .Ok e
  have := path_est (fun ev ⟨g, hg, hev⟩ => by
    obtain ⟨h1, h2⟩ := h g hg
    exact ⟨g.hdr.ctl.ack, g.hdr.ctl.syn, by rw [hev]; unfold evOf; rw [h1, h2]⟩) p (by rw [hst])
  unfold endState at this
  simpa using this

/-- what is asked of every segment that may be processed -/
structure SegOk (iss : Seq) (N : Nat) (g : Segment) : Prop where
  rst : g.hdr.ctl.rst = false
  ack : g.hdr.ctl.ack = true → 1 ≤ off iss g.hdr.ack ∧ off iss g.hdr.ack ≤ N
  ta : g.text ≠ [] → g.hdr.ctl.ack = true

section
variable {port : U16} {issX issY : Seq} {subX subY delX : List UInt8} {N : Nat}

/-- the common part of one round of the loop: the invariant, the queue facts and `Early` for the next TCB -/
theorem loop_step {t : Tcb} {top : Segment} {rest : List Segment} {s1 : Tcb} {r1 : ProcessSegmentResult}
    (ti : C01.TInv port issX issY subX subY delX t) (h31 : subY.length < 2147483648)
    (hpop : LHeap.pop segLe t.incoming.segments = (some top, rest))
    (hg : t.state ≠ .SynSent → modGt top.hdr.seq t.rcv.nxt = false)
    (hp : processSegment { t with incoming.segments := rest } top = .ok (s1, r1)) (he : Early t)
    (hsent : t.sent = N) :
    C01.TInv port issX issY subX subY delX s1 ∧ s1.incoming.segments = rest ∧ Early s1 ∧ s1.sent = N ∧
      s1.snd.iss = t.snd.iss ∧ top ∈ t.incoming.segments ∧ (∀ g ∈ rest, g ∈ t.incoming.segments) ∧
      (t.state ≠ .SynSent → s1.state ≠ .SynSent) := by
  have hmem := LHeap.mem_of_mem_pop hpop
  have h0 : C01.TInv port issX issY subX subY delX { t with incoming.segments := rest } :=
    ⟨ti.lp, ti.st, ti.iss, ti.out, ti.rtx, ti.one, fun g hg' => ti.heap g (hmem.2 g hg'), ti.rcv0, ti.rcv1, ti.irs⟩
  have i1 := C01.processSegment_inv h0 (ti.heap top hmem.1) h31 hg hp
  have k := processSegment_snd _ _ _ _ hp
  have e1 : Early s1 := processSegment_early _ _ _ _ hp ⟨he.synSent, he.synRcvd⟩
  exact ⟨i1, processSegment_heap _ _ _ _ hp, e1, (sent_congr k.iss k.nxt).trans hsent, k.iss, hmem.1, hmem.2,
    (processSegment_s _ _ _ _ hp).back⟩

/-- **the queue is kept while the TCB stays in SYN-SENT / SYN-RECEIVED** -/
theorem drain_sup (hN : N < 2147483648) (fuel : Nat) : ∀ (t t' : Tcb), drain fuel t = .ok (t', .Ok) →
    C01.TInv port issX issY subX subY delX t → subY.length < 2147483648 → Early t → t.sent = N →
    (∀ g ∈ t.incoming.segments, SegOk issX N g) →
    (t'.state = .SynSent ∨ t'.state = .SynReceived) → Sup t t' := by
  induction fuel with
  | zero => intro t t' e _ _ _ _ _ _; unfold drain at e; cases e; exact Sup.refl _
  | succ n ih =>
    intro t t' e ti h31 he hsent hh hst'
    rcases drain_unfold n t t' e with ⟨rfl, _⟩ | ⟨top, rest, s1, r1, hpeek, hpop, hg, hp, hd, e1⟩
    · exact Sup.refl _
    · obtain ⟨i1, hheap1, e1', hsent1, hiss1, htop, hrest, _⟩ := loop_step ti h31 hpop hg hp he hsent
      have hh1 : ∀ g ∈ s1.incoming.segments, SegOk issX N g := fun g hg' => hh g (hrest g (by rw [hheap1] at hg'; exact hg'))
      have hiss1' : s1.snd.iss = issX := hiss1.trans ti.iss
      have i1' : C01.TInv port issX issY subX subY delX s1 := i1
      -- the intermediate state is still SYN-SENT / SYN-RECEIVED: ESTABLISHED would stay
      have hs1 : s1.state = .SynSent ∨ s1.state = .SynReceived := by
        rcases i1.st.cases with h | h | h
        · exact Or.inl h
        · exact Or.inr h
        · exfalso
          have := drain_stays_est n s1 t' e1 h (fun g hg' =>
            ⟨(hh1 g hg').rst, (i1.heap g hg').fin⟩)
          rcases hst' with h' | h' <;> (rw [this] at h'; cases h')
      have so := hh top htop
      have u1 : Sup t s1 := processSegment_sup { t with incoming.segments := rest } top s1 r1 hp ti.iss
        (fun hab => ⟨(so.ack hab).1, by have := (so.ack hab).2; omega⟩) so.rst (ti.heap top htop).fin hs1
      exact u1.trans (ih s1 t' e1 i1' h31 e1' hsent1 (by rw [← hiss1'] at hh1 ⊢; exact hh1) hst')

theorem segmentArrives_sup (hN : N < 2147483648) (t : Tcb) (g : Segment) (t' : Tcb)
    (e : t.segmentArrives g = .ok (t', .Ok))
    (ti : C01.TInv port issX issY subX subY delX t) (h31 : subY.length < 2147483648) (hv : C01.Valid issY subY g)
    (he : Early t) (hsent : t.sent = N) (hg : SegOk issX N g) (hh : ∀ x ∈ t.incoming.segments, SegOk issX N x)
    (hst' : t'.state = .SynSent ∨ t'.state = .SynReceived) : Sup t t' := by
  rcases arrive_unfold t g t' e with ⟨_, rfl, _⟩ | ⟨_, e1⟩
  · exact sup_enq _ _
  · refine drain_sup (port := port) (issX := issX) (issY := issY) (subX := subX) (subY := subY) (delX := delX)
      hN _ { t with incoming.segments := LHeap.push segLe t.incoming.segments g } t' e1 ?_ h31
      ⟨he.synSent, he.synRcvd⟩ hsent ?_ hst'
    · refine ⟨ti.lp, ti.st, ti.iss, ti.out, ti.rtx, ti.one, fun x hx => ?_, ti.rcv0, ti.rcv1, ti.irs⟩
      rcases LHeap.mem_push.1 hx with rfl | hx
      · exact hv
      · exact ti.heap x hx
    · intro x hx
      rcases LHeap.mem_push.1 hx with rfl | hx
      · exact hg
      · exact hh x hx

/-- **the receive side is kept while the TCB stays in SYN-RECEIVED** -/
theorem drain_srkeep (hN : N < 2147483648) (fuel : Nat) : ∀ (t t' : Tcb), drain fuel t = .ok (t', .Ok) →
    C01.TInv port issX issY subX subY delX t → subY.length < 2147483648 → Early t → t.sent = N →
    (∀ g ∈ t.incoming.segments, SegOk issX N g) → t.state = .SynReceived → t'.state = .SynReceived →
    t'.rcv = t.rcv ∧ t'.incoming.text = t.incoming.text := by
  induction fuel with
  | zero => intro t t' e _ _ _ _ _ _ _; unfold drain at e; cases e; exact ⟨rfl, rfl⟩
  | succ n ih =>
    intro t t' e ti h31 he hsent hh hst hst'
    rcases drain_unfold n t t' e with ⟨rfl, _⟩ | ⟨top, rest, s1, r1, hpeek, hpop, hg, hp, hd, e1⟩
    · exact ⟨rfl, rfl⟩
    · obtain ⟨i1, hheap1, e1', hsent1, hiss1, htop, hrest, hback⟩ := loop_step ti h31 hpop hg hp he hsent
      have hh1 : ∀ g ∈ s1.incoming.segments, SegOk issX N g := fun g hg' => hh g (hrest g (by rw [hheap1] at hg'; exact hg'))
      have i1' : C01.TInv port issX issY subX subY delX s1 := i1
      have hs1 : s1.state = .SynReceived := by
        rcases i1.st.cases with h | h | h
        · exact absurd h (hback (by rw [hst]; simp))
        · exact h
        · exfalso
          have := drain_stays_est n s1 t' e1 h (fun g hg' => ⟨(hh1 g hg').rst, (i1.heap g hg').fin⟩)
          rw [this] at hst'; cases hst'
      have so := hh top htop
      obtain ⟨k1, k2⟩ := processSegment_srkeep hN { t with incoming.segments := rest } top s1 r1 hp hst ti.iss hsent
        (he.synRcvd hst) so.ack so.ta (ti.heap top htop).fin hs1
      obtain ⟨j1, j2⟩ := ih s1 t' e1 i1' h31 e1' hsent1 hh1 hs1 hst'
      exact ⟨j1.trans k1, by rw [j2, k2]⟩

theorem segmentArrives_srkeep (hN : N < 2147483648) (t : Tcb) (g : Segment) (t' : Tcb)
    (e : t.segmentArrives g = .ok (t', .Ok))
    (ti : C01.TInv port issX issY subX subY delX t) (h31 : subY.length < 2147483648) (hv : C01.Valid issY subY g)
    (he : Early t) (hsent : t.sent = N) (hg : SegOk issX N g) (hh : ∀ x ∈ t.incoming.segments, SegOk issX N x)
    (hst : t.state = .SynReceived) (hst' : t'.state = .SynReceived) :
    t'.rcv = t.rcv ∧ t'.incoming.text = t.incoming.text := by
  rcases arrive_unfold t g t' e with ⟨_, rfl, _⟩ | ⟨_, e1⟩
  · exact ⟨(enqueueBuilt_frame _ _).2.1, by rw [(enqueueBuilt_frame _ _).2.2.2.1]⟩
  · refine drain_srkeep (port := port) (issX := issX) (issY := issY) (subX := subX) (subY := subY) (delX := delX)
      hN _ { t with incoming.segments := LHeap.push segLe t.incoming.segments g } t' e1 ?_ h31
      ⟨he.synSent, he.synRcvd⟩ hsent ?_ hst hst'
    · refine ⟨ti.lp, ti.st, ti.iss, ti.out, ti.rtx, ti.one, fun x hx => ?_, ti.rcv0, ti.rcv1, ti.irs⟩
      rcases LHeap.mem_push.1 hx with rfl | hx
      · exact hv
      · exact ti.heap x hx
    · intro x hx
      rcases LHeap.mem_push.1 hx with rfl | hx
      · exact hg
      · exact hh x hx

theorem isSeqOk_congr {t u : Tcb} (h : u.rcv = t.rcv) (tl seq : Seq) (syn fin : Bool) :
    u.isSeqOk tl seq syn fin = t.isSeqOk tl seq syn fin := by
  unfold isSeqOk isInRcvWindow
  rw [h]

/-- **a parked acceptable segment with an ACK field in range, not ahead of `RCV.NXT`, moves SYN-RECEIVED to
    ESTABLISHED**, whatever else is parked -/
theorem drain_trig (hN : N < 2147483648) (fuel : Nat) : ∀ (t t' : Tcb), drain fuel t = .ok (t', .Ok) →
    C01.TInv port issX issY subX subY delX t → subY.length < 2147483648 → Early t → t.sent = N →
    (∀ x ∈ t.incoming.segments, SegOk issX N x) → HeapOk issY t → t.incoming.segments.length < fuel →
    (t.state = .Established ∨ (t.state = .SynReceived ∧ off issY t.rcv.nxt = 1)) →
    ∀ g ∈ t.incoming.segments, g.hdr.ctl.ack = true → off issY g.hdr.seq ≤ 1 →
      t.isSeqOk (BitVec.ofNat 32 g.text.length) g.hdr.seq g.hdr.ctl.syn g.hdr.ctl.fin = .ok true →
      t'.state = .Established := by
  induction fuel with
  | zero => intro t t' _ _ _ _ _ _ _ hf; omega
  | succ n ih =>
    intro t t' e ti h31 he hsent hh hk hf hst g hgm hab hoff hok
    rcases hst with hst | ⟨hst, hq⟩
    · exact drain_stays_est _ t t' e hst (fun x hx => ⟨(hh x hx).rst, (ti.heap x hx).fin⟩)
    · have hns : t.state ≠ .SynSent := by rw [hst]; simp
      rcases drain_unfold n t t' e with ⟨_, hpk⟩ | ⟨top, rest, s1, r1, hpeek, hpop, hg, hp, hd, e1⟩
      · -- the loop cannot stop while `g` is parked
        exfalso
        rcases hpk with hpk | ⟨top, hpeek, _, hgt⟩
        · cases hl : t.incoming.segments with
          | nil => rw [hl] at hgm; cases hgm
          | cons a u => rw [hl] at hpk; simp [LHeap.peek] at hpk
        · have htop : top ∈ t.incoming.segments := by
            cases hl : t.incoming.segments with
            | nil => rw [hl] at hpeek; simp [LHeap.peek] at hpeek
            | cons a u =>
              rw [hl] at hpeek
              simp only [LHeap.peek, List.head?_cons, Option.some.injEq] at hpeek
              rw [← hpeek]; exact List.mem_cons_self
          have hmax := LHeap.peek_max (leK_tp issY) _ top hpeek hk.heap g hgm
          unfold leK at hmax
          simp only [decide_eq_true_eq] at hmax
          have := (modGt_iff_off issY top.hdr.seq t.rcv.nxt (hk.win top htop) (by omega)).1 hgt
          omega
      · obtain ⟨i1, hheap1, e1', hsent1, hiss1, htop, hrest, hback⟩ := loop_step ti h31 hpop hg hp he hsent
        have hh1 : ∀ x ∈ s1.incoming.segments, SegOk issX N x := fun x hx => hh x (hrest x (by rw [hheap1] at hx; exact hx))
        have i1' : C01.TInv port issX issY subX subY delX s1 := i1
        have hmem := mem_pop_iff hpop
        have hlen := LHeap.pop_length hpop
        have hrestk := LHeap.pop_isHeap (leK_tp issY) _ top rest hpop (agree_of_win issY _ hk.win) hk.heap
        have hk1 : HeapOk issY s1 :=
          ⟨by rw [hheap1]; exact fun x hx => hk.win x (hrest x hx), by rw [hheap1]; exact hrestk.1⟩
        have so := hh top htop
        rcases (hmem g).1 hgm with rfl | hgr
        · -- the trigger itself
          have hok' : ({ t with incoming.segments := rest } : Tcb).isSeqOk (BitVec.ofNat 32 g.text.length) g.hdr.seq
              g.hdr.ctl.syn g.hdr.ctl.fin = .ok true :=
            (isSeqOk_congr (u := { t with incoming.segments := rest }) (t := t) rfl _ _ _ _).trans hok
          have hes := proc_trigger hN { t with incoming.segments := rest } g s1 r1 hp hst ti.iss hsent
            (he.synRcvd hst) hab (so.ack hab) (ti.heap g htop).fin hok'
          exact drain_stays_est n s1 t' e1 hes (fun x hx => ⟨(hh1 x hx).rst, (i1.heap x hx).fin⟩)
        · -- something else was popped first
          rcases i1.st.cases with h | h | h
          · exact absurd h (hback hns)
          · obtain ⟨k1, k2⟩ := processSegment_srkeep hN { t with incoming.segments := rest } top s1 r1 hp hst ti.iss
              hsent (he.synRcvd hst) so.ack so.ta (ti.heap top htop).fin h
            refine ih s1 t' e1 i1' h31 e1' hsent1 hh1 hk1 (by rw [hheap1]; omega)
              (Or.inr ⟨h, by rw [k1]; exact hq⟩) g (by rw [hheap1]; exact hgr) hab hoff
              ((isSeqOk_congr (u := s1) (t := t) k1 _ _ _ _).trans hok)
          · exact drain_stays_est n s1 t' e1 h (fun x hx => ⟨(hh1 x hx).rst, (i1.heap x hx).fin⟩)

theorem segmentArrives_trig (hN : N < 2147483648) (t : Tcb) (g : Segment) (t' : Tcb)
    (e : t.segmentArrives g = .ok (t', .Ok))
    (ti : C01.TInv port issX issY subX subY delX t) (h31 : subY.length < 2147483648) (hv : C01.Valid issY subY g)
    (he : Early t) (hsent : t.sent = N) (hg : SegOk issX N g) (hh : ∀ x ∈ t.incoming.segments, SegOk issX N x)
    (hk : HeapOk issY t) (hst : t.state = .SynReceived) (hq : off issY t.rcv.nxt = 1)
    (hab : g.hdr.ctl.ack = true) (hoff : off issY g.hdr.seq ≤ 1)
    (hok : t.isSeqOk (BitVec.ofNat 32 g.text.length) g.hdr.seq g.hdr.ctl.syn g.hdr.ctl.fin = .ok true) :
    t'.state = .Established := by
  rcases arrive_unfold t g t' e with ⟨_, _, hno⟩ | ⟨_, e1⟩
  · rw [hok] at hno; cases hno
  · have hwin : ∀ x ∈ t.incoming.segments ++ [g], InWin issY x := by
      intro x hx
      rcases List.mem_append.1 hx with hx | hx
      · exact hk.win x hx
      · simp only [List.mem_singleton] at hx
        rw [hx]; unfold InWin; omega
    refine drain_trig (port := port) (issX := issX) (issY := issY) (subX := subX) (subY := subY) (delX := delX)
      hN _ { t with incoming.segments := LHeap.push segLe t.incoming.segments g } t' e1 ?_ h31
      ⟨he.synSent, he.synRcvd⟩ hsent ?_ ?_ (Nat.lt_succ_self _) (Or.inr ⟨hst, hq⟩) g
      (LHeap.mem_push.2 (Or.inl rfl)) hab hoff
      ((isSeqOk_congr (u := { t with incoming.segments := LHeap.push segLe t.incoming.segments g }) (t := t) rfl _ _ _ _).trans hok)
    · refine ⟨ti.lp, ti.st, ti.iss, ti.out, ti.rtx, ti.one, fun x hx => ?_, ti.rcv0, ti.rcv1, ti.irs⟩
      rcases LHeap.mem_push.1 hx with rfl | hx
      · exact hv
      · exact ti.heap x hx
    · intro x hx
      rcases LHeap.mem_push.1 hx with rfl | hx
      · exact hg
      · exact hh x hx
    · refine ⟨fun x hx => ?_, LHeap.push_isHeap (leK_tp issY) _ g (agree_of_win issY _ hwin) hk.heap⟩
      rcases LHeap.mem_push.1 hx with rfl | hx
      · unfold InWin; omega
      · exact hk.win x hx

/-- **SYN-SENT (idle heap) and a SYN-bearing segment**: SYN-SENT is left, or a RST is queued -/
theorem segmentArrives_ss (t : Tcb) (g : Segment) (t' : Tcb) (e : t.segmentArrives g = .ok (t', .Ok))
    (hst : t.state = .SynSent) (hheap : t.incoming.segments = []) (hsyn : g.hdr.ctl.syn = true)
    (hrst : g.hdr.ctl.rst = false) (hfin : g.hdr.ctl.fin = false) :
    t'.state ≠ .SynSent ∨ ∃ h ∈ t'.outgoing.oneshot, h.ctl.rst = true := by
  rcases arrive_unfold t g t' e with ⟨hns, _, _⟩ | ⟨_, e1⟩
  · exact absurd hst hns
  · rw [hheap, C01.push_nil] at e1
    have e1' : drain (0 + 1 + 1) { t with incoming.segments := [g] } = .ok (t', .Ok) := e1
    rcases drain_unfold (0 + 1) _ t' e1' with ⟨_, hpk⟩ | ⟨top, rest, s1, r1, hpeek, hpop, _, hp, hd, e2⟩
    · exfalso
      rcases hpk with hpk | ⟨top, _, hns, _⟩
      · simp [LHeap.peek] at hpk
      · exact hns hst
    · have htop : top = g := by
        have : LHeap.peek [g] = some top := hpeek
        rw [C01.peek_single] at this
        cases this; rfl
      subst htop
      have hrest : rest = [] := by
        have : LHeap.pop segLe [top] = (some top, rest) := hpop
        rw [C01.pop_single] at this
        cases this; rfl
      subst hrest
      have hs1 : s1.incoming.segments = [] := processSegment_heap _ _ _ _ hp
      have ht' : t' = s1 := by
        rcases drain_unfold 0 s1 t' e2 with ⟨h, _⟩ | ⟨top2, _, _, _, hpeek2, _⟩
        · exact h
        · rw [hs1] at hpeek2; simp [LHeap.peek] at hpeek2
      rw [ht']
      exact proc_ss_syn { t with incoming.segments := [] } top s1 r1 hp hst hsyn hrst hfin

end
end Elvis.Tcp.Full
