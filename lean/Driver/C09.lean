import Driver.Common
/-! Line-protocol handlers for C09 (sub-commands `c09` / `c09-*`). -/
namespace Driver.C09

def dispatch (_sub : String) (_i _o : IO.FS.Stream) : Option (IO Unit) := none

end Driver.C09
