import ElvisVerif.Lemmas.TcpRelSys2
import ElvisVerif.Props.C01Converge
/-!
# C03 — release after both applications close (partial: simultaneous and sequential close from a `Done` state)

`releaseRound` (`Lemmas/TcpRelSys.lean`) = `close A`, `close B`, two exchange phases (`emit A`, `emit B`, delivery of
everything just emitted to its addressee, `read A`, `read B`), `tick A (2·MSL + 1)`, `tick B (2·MSL + 1)`.
-/
namespace Elvis.Tcp
open Tcb Elvis.Tcp.Fin

/-- a reachable `Done` state is quiet in the sense of `Lemmas/TcpRelChain.lean` -/
theorem quiet_of_done {iss : SideId → Seq} {s : Sys} (hg : Good iss s) (ta tb : Tcb) (hd : Done s ta tb) :
    QuietX .A ta tb ∧ QuietX .B tb ta := by
  have key : ∀ (x : SideId) (t u : Tcb), (s.side x).tcb = some t → SteadyX t u → DoneX t → DoneX u → QuietX x t u := by
    intro x t u ht S dt du
    obtain ⟨_, lp, rp⟩ := (hg.conv.full.inv.link x).snd t ht
    refine ⟨S.st, S.heap, S.buf, dt.text, dt.rtx, dt.one, ?_, S.sync, hg.wnd x t ht, ?_, lp, rp⟩
    · rcases S.lastack with h | ⟨h, hl, _⟩
      · exact h
      · rw [du.one] at hl; cases hl
    · have := S.mtu; omega
  exact ⟨key .A ta tb hd.steady.ha hd.steady.a hd.a hd.b, key .B tb ta hd.steady.hb hd.steady.b hd.b hd.a⟩

/-- **Release after a simultaneous close** (`_partial`: the starting state and the schedule are fixed).
    From every reachable `Done` state of the closed system (`Props/C01Converge.lean`: both ESTABLISHED,
    everything submitted has been delivered, nothing queued, unsent, buffered or parked — the state every
    fair round of `c01_converges_partial` / `c01_converges_after_loss_partial` ends in): when both
    applications call `close()` and the network is fair, i.e. under `releaseRound`,
    * no step panics; both endpoints go ESTABLISHED → FIN-WAIT-1 → CLOSING → TIME-WAIT in two exchange
      phases, exchanging exactly four segments (FIN, FIN, ACK, ACK);
    * once `2·MSL` (+ 1 ms) of virtual time have passed on each side after that, **both TCBs are
      deleted** (the real `Tcp` session is dropped: `AdvanceTimeResult::CloseConnection`);
    * the byte streams are untouched: `delivered = submitted` in both directions.
    The 2·MSL timer is armed when the ACK of the own FIN arrives, so the bound of DESIGN.md section 8
    (`2·MSL + RTO` after the second `close()`) holds with room: no retransmission is needed.
    NOT proved: release from arbitrary reachable states / arbitrary fair schedules (`close()` with data in
    flight or after loss); it stays evaluated by the release oracle of `./check C03`.  The other order of
    closes: `c03_release_sequential_partial`. -/
theorem c03_release_simultaneous_partial (ia ib : Seq) (ma mb : U16) (simultaneous : Bool) (sys0 s : Sys)
    (rs : List Res) (hma : SPACE_FOR_HEADERS ≤ ma.toNat) (hmb : SPACE_FOR_HEADERS ≤ mb.toNat)
    (h0 : Sys.run {} [.open .A ia ma, if simultaneous then .open .B ib mb else .listen .B ib mb] = .ok (sys0, rs))
    (hrun : PlainRun sys0 s) (h31 : RoomH s) (ta tb : Tcb) (hd : Done s ta tb) :
    ∃ s', releaseRound s = .ok s' ∧ FinRun s s' ∧ s'.a.tcb = none ∧ s'.b.tcb = none ∧
      s'.b.delivered = s'.a.submitted ∧ s'.a.delivered = s'.b.submitted ∧
      s'.a.submitted = s.a.submitted ∧ s'.b.submitted = s.b.submitted ∧
      s'.historyLen = s.historyLen + 4 := by
  have hg := good_of_reach ia ib ma mb simultaneous sys0 s rs hma hmb h0 hrun h31
  obtain ⟨qa, qb⟩ := quiet_of_done hg ta tb hd
  obtain ⟨d1, d2⟩ := done_stream hg ta tb hd
  obtain ⟨s', e, r, na, nb, sa, sb, da, db, hl⟩ := release_simultaneous s ta tb hd.steady.ha hd.steady.hb qa qb
  have sa' : s'.a.submitted = s.a.submitted := sa
  have sb' : s'.b.submitted = s.b.submitted := sb
  have da' : s'.a.delivered = s.a.delivered := da
  have db' : s'.b.delivered = s.b.delivered := db
  exact ⟨s', e, r, na, nb, by rw [db', sa']; exact d1, by rw [da', sb']; exact d2, sa', sb', hl⟩

/-- **Release after a sequential close** (`_partial`: starting state and schedule fixed).  From every
    reachable `Done` state: A's application closes; two exchange phases later A is in FIN-WAIT-2 and B, whose
    application has seen the end of the stream, in CLOSE-WAIT; B's application closes (LAST-ACK); two more
    exchange phases: A is in TIME-WAIT and **B's TCB is deleted by A's ACK of its FIN**
    (`ProcessSegmentResult::FinalizeClose`); when `2·MSL` (+ 1 ms) have passed on A's side **A's TCB is deleted** by
    the TIME-WAIT timeout.  No step panics, exactly four segments are exchanged (FIN, ACK, FIN, ACK), the
    streams are untouched.  `releaseRoundSeq` = `close A`, phase, phase, `close B`, phase, phase,
    `tick A (2·MSL + 1)` (`Lemmas/TcpRelSys2.lean`). -/
theorem c03_release_sequential_partial (ia ib : Seq) (ma mb : U16) (simultaneous : Bool) (sys0 s : Sys)
    (rs : List Res) (hma : SPACE_FOR_HEADERS ≤ ma.toNat) (hmb : SPACE_FOR_HEADERS ≤ mb.toNat)
    (h0 : Sys.run {} [.open .A ia ma, if simultaneous then .open .B ib mb else .listen .B ib mb] = .ok (sys0, rs))
    (hrun : PlainRun sys0 s) (h31 : RoomH s) (ta tb : Tcb) (hd : Done s ta tb) :
    ∃ s', releaseRoundSeq s = .ok s' ∧ FinRun s s' ∧ s'.a.tcb = none ∧ s'.b.tcb = none ∧
      s'.b.delivered = s'.a.submitted ∧ s'.a.delivered = s'.b.submitted ∧
      s'.a.submitted = s.a.submitted ∧ s'.b.submitted = s.b.submitted ∧
      s'.historyLen = s.historyLen + 4 := by
  have hg := good_of_reach ia ib ma mb simultaneous sys0 s rs hma hmb h0 hrun h31
  obtain ⟨qa, qb⟩ := quiet_of_done hg ta tb hd
  obtain ⟨d1, d2⟩ := done_stream hg ta tb hd
  obtain ⟨s', e, r, na, nb, sa, sb, da, db, hl⟩ := release_sequential s ta tb hd.steady.ha hd.steady.hb qa qb
  have sa' : s'.a.submitted = s.a.submitted := sa
  have sb' : s'.b.submitted = s.b.submitted := sb
  have da' : s'.a.delivered = s.a.delivered := da
  have db' : s'.b.delivered = s.b.delivered := db
  exact ⟨s', e, r, na, nb, by rw [db', sa']; exact d1, by rw [da', sb']; exact d2, sa', sb', hl⟩

/-- **From a synchronised quiescent-network state to release**: `c01_converges_partial` followed by
    `c03_release_simultaneous_partial`: one fair round of `2n + 1` phases delivers everything; then both
    applications close and `releaseRound` deletes both TCBs. -/
theorem c03_converge_then_release_partial (ia ib : Seq) (ma mb : U16) (simultaneous : Bool) (sys0 s : Sys)
    (rs : List Res) (hma : SPACE_FOR_HEADERS ≤ ma.toNat) (hmb : SPACE_FOR_HEADERS ≤ mb.toNat)
    (h0 : Sys.run {} [.open .A ia ma, if simultaneous then .open .B ib mb else .listen .B ib mb] = .ok (sys0, rs))
    (hrun : PlainRun sys0 s) (h31 : RoomH s) (ta tb : Tcb) (hs : Steady s ta tb)
    (qa : ta.outgoing.retransmit = []) (qb : tb.outgoing.retransmit = [])
    (n : Nat) (wa : ta.outgoing.text.length ≤ 65535 * n) (wb : tb.outgoing.text.length ≤ 65535 * n) :
    ∃ s' s'', fairRound (2 * n + 1) s = .ok s' ∧ releaseRound s' = .ok s'' ∧
      s''.a.tcb = none ∧ s''.b.tcb = none ∧ s''.b.delivered = s''.a.submitted ∧ s''.a.delivered = s''.b.submitted ∧
      s.a.submitted <+: s''.a.submitted ∧ s.b.submitted <+: s''.b.submitted := by
  have hg := good_of_reach ia ib ma mb simultaneous sys0 s rs hma hmb h0 hrun h31
  obtain ⟨s', ta', tb', hf, hr, hg', hd⟩ := fairRound_done n s ta tb hg hs qa qb wa wb
  have hrun' : PlainRun sys0 s' := hrun.trans hr
  obtain ⟨s'', e, _, na, nb, d1, d2, sa, sb, _⟩ := c03_release_simultaneous_partial ia ib ma mb simultaneous sys0 s' rs
    hma hmb h0 hrun' hg'.room ta' tb' hd
  exact ⟨s', s'', hf, e, na, nb, d1, d2, by rw [sa]; exact hr.sub .A, by rw [sb]; exact hr.sub .B⟩

/-- the release clause of C03 in general (NOT proved): when both applications call `close()` in ANY
    reachable state in which both TCBs exist and have left SYN-SENT (`close()` in SYN-SENT is a no-op in
    this code), some fair round followed by `2·MSL + RTO` of virtual time deletes both TCBs.  Missing: the
    convergence argument of `Props/C01Converge.lean` for the closing states (FIN-WAIT-1 / CLOSING / LAST-ACK keep
    segmentizing and retransmitting).  Proved: the two fair schedules `releaseRound` (simultaneous close) and
    `releaseRoundSeq` (A first, B after the end of stream) from `Done` states. -/
def C03ReleaseStatement : Prop :=
  ∀ (ia ib : Seq) (ma mb : U16) (simultaneous : Bool) (sys0 s : Sys) (rs : List Res) (ta tb : Tcb),
    SPACE_FOR_HEADERS ≤ ma.toNat → SPACE_FOR_HEADERS ≤ mb.toNat →
    Sys.run {} [.open .A ia ma, if simultaneous then .open .B ib mb else .listen .B ib mb] = .ok (sys0, rs) →
    FinRun sys0 s → C01.Lt31 s → s.a.tcb = some ta → s.b.tcb = some tb →
    ta.state ≠ .SynSent → tb.state ≠ .SynSent →
    ∃ (k : Nat) (s' : Sys), (do
        let s1 ← Prod.fst <$> s.step (.close .A)
        let s2 ← Prod.fst <$> s1.step (.close .B)
        let s3 ← fairRound k s2
        let s4 ← Prod.fst <$> s3.step (.tick .A (TIME_WAIT + RTO + 1))
        Prod.fst <$> s4.step (.tick .B (TIME_WAIT + RTO + 1))) = .ok s' ∧
      s'.a.tcb = none ∧ s'.b.tcb = none

/-! ## non-vacuity -/

def releaseCheck : Bool :=
  match Sys.run {} [.open .A 1000 1500, .listen .B 5000 1500] with
  | .ok (sys0, _) =>
    match plainRunB sys0 convOps with
    | some s =>
      (match fairRound 3 s with
        | .ok s' =>
          (match releaseRound s' with
            | .ok s'' => s''.a.tcb.isNone && s''.b.tcb.isNone && s''.b.delivered == [1, 2, 3] &&
                s''.a.delivered == [9, 8] && s''.historyLen == 11
            | .error _ => false)
        | .error _ => false)
    | none => false
  | .error _ => false

def releaseSeqCheck : Bool :=
  match Sys.run {} [.open .A 1000 1500, .listen .B 5000 1500] with
  | .ok (sys0, _) =>
    match plainRunB sys0 convOps with
    | some s =>
      (match fairRound 3 s with
        | .ok s' =>
          (match releaseRoundSeq s' with
            | .ok s'' => s''.a.tcb.isNone && s''.b.tcb.isNone && s''.b.delivered == [1, 2, 3] &&
                s''.a.delivered == [9, 8] && s''.historyLen == 11
            | .error _ => false)
        | .error _ => false)
    | none => false
  | .error _ => false

/-- the sequential close evaluated on the same reachable state -/
example : releaseSeqCheck = true := by decide

/-- the chain evaluated on the reachable state of the example of `c01_converges_partial`: the fair round
    delivers `[1, 2, 3]` and `[9, 8]`, `releaseRound` then deletes both TCBs; 11 segments in all
    (3 handshake, 4 data/ACK, 4 closing) -/
example : releaseCheck = true := by decide

end Elvis.Tcp
