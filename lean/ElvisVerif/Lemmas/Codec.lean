import ElvisVerif.Model.Codec.Bytes
/-!
Helper lemmas shared by the codec proofs (C08, C14a, C18): byte <-> number conversions and the
`BytesExt` readers on serialised fields.
-/
deriving instance DecidableEq for Except

namespace Elvis.Codec

@[simp] theorem n2b_toNat (n : Nat) : (n2b n).toNat = n % 256 := by
  simp [n2b, UInt8.toNat_ofNat']

theorem n2b_toNat_of_lt {n : Nat} (h : n < 256) : (n2b n).toNat = n := by
  rw [n2b_toNat]; omega

@[simp] theorem n2b_of_toNat (b : UInt8) : n2b b.toNat = b := by
  simp [n2b]

theorem n2b_congr {x y : Nat} (h : x % 256 = y % 256) : n2b x = n2b y := by
  apply UInt8.toNat_inj.mp
  simp [h]

theorem n2b_eq_byte {x : Nat} {b : UInt8} (h : x % 256 = b.toNat) : n2b x = b := by
  apply UInt8.toNat_inj.mp
  simp [h]

theorem toNat_lt (b : UInt8) : b.toNat < 256 := b.toNat_lt

/-! readers on serialised fields -/

theorem nextU8_n2b {v : Nat} (r : List UInt8) (h : v < 256) :
    nextU8 (n2b v :: r) = some (v, r) := by
  simp [nextU8, n2b_toNat_of_lt h]

theorem nextU16_be16 {v : Nat} (r : List UInt8) (h : v < 65536) :
    nextU16 (be16 v ++ r) = some (v, r) := by
  simp only [be16, List.cons_append, List.nil_append, nextU16, n2b_toNat]
  congr 2; omega

theorem nextU32_be32 {v : Nat} (r : List UInt8) (h : v < 4294967296) :
    nextU32 (be32 v ++ r) = some (v, r) := by
  simp only [be32, List.cons_append, List.nil_append, nextU32, n2b_toNat]
  congr 2; omega

/-! reader inversion: what a successful read says about the input -/

theorem nextU8_some {bs r : List UInt8} {v : Nat} (h : nextU8 bs = some (v, r)) :
    ∃ a, bs = a :: r ∧ v = a.toNat := by
  cases bs with
  | nil => simp [nextU8] at h
  | cons a t => simp [nextU8] at h; exact ⟨a, by simp [h.2], h.1.symm⟩

theorem nextU16_some {bs r : List UInt8} {v : Nat} (h : nextU16 bs = some (v, r)) :
    ∃ a b, bs = a :: b :: r ∧ v = a.toNat * 256 + b.toNat := by
  match bs, h with
  | a :: b :: t, h => simp [nextU16] at h; exact ⟨a, b, by simp [h.2], h.1.symm⟩

theorem nextU32_some {bs r : List UInt8} {v : Nat} (h : nextU32 bs = some (v, r)) :
    ∃ a b c d, bs = a :: b :: c :: d :: r ∧
      v = a.toNat * 16777216 + b.toNat * 65536 + c.toNat * 256 + d.toNat := by
  match bs, h with
  | a :: b :: c :: d :: t, h =>
    simp [nextU32] at h; exact ⟨a, b, c, d, by simp [h.2], h.1.symm⟩

/-! serialising what was read gives the bytes back -/

theorem be16_of_bytes (a b : UInt8) : be16 (a.toNat * 256 + b.toNat) = [a, b] := by
  have := a.toNat_lt; have := b.toNat_lt
  simp only [be16, List.cons.injEq, and_true]
  exact ⟨n2b_eq_byte (by omega), n2b_eq_byte (by omega)⟩

theorem be32_of_bytes (a b c d : UInt8) :
    be32 (a.toNat * 16777216 + b.toNat * 65536 + c.toNat * 256 + d.toNat) = [a, b, c, d] := by
  have := a.toNat_lt; have := b.toNat_lt; have := c.toNat_lt; have := d.toNat_lt
  simp only [be32, List.cons.injEq, and_true]
  exact ⟨n2b_eq_byte (by omega), n2b_eq_byte (by omega), n2b_eq_byte (by omega),
         n2b_eq_byte (by omega)⟩

theorem be16_cons (v : Nat) (r : List UInt8) : be16 v ++ r = n2b (v / 256) :: n2b v :: r := rfl
theorem be32_cons (v : Nat) (r : List UInt8) :
    be32 v ++ r = n2b (v / 16777216) :: n2b (v / 65536) :: n2b (v / 256) :: n2b v :: r := rfl

theorem W_n2b {v : Nat} (h : v < 65536) : (n2b (v / 256)).toNat * 256 + (n2b v).toNat = v := by
  simp only [n2b_toNat]; omega

theorem W4_n2b {v : Nat} (h : v < 4294967296) :
    (n2b (v / 16777216)).toNat * 16777216 + (n2b (v / 65536)).toNat * 65536
      + (n2b (v / 256)).toNat * 256 + (n2b v).toNat = v := by
  simp only [n2b_toNat]; omega

theorem be16_length (v : Nat) : (be16 v).length = 2 := rfl
theorem be32_length (v : Nat) : (be32 v).length = 4 := rfl

end Elvis.Codec
