import ElvisVerif.Model.Codec.BytesExtB
import ElvisVerif.Generated.CodecB
/-
Model of `elvis_core::protocols::arp::arp_parsing::{ArpPacket, Operation}`
(sim/elvis-core/src/protocols/arp/arp_parsing.rs): `ArpPacket::from_bytes`, `ArpPacket::build`,
`new_request`, `new_reply`; and of the decode step of `Arp::demux` (protocols/arp.rs).
Core-only imports (linked into the native driver) + the generated constants.
-/
namespace Elvis.CodecB.Arp
open Elvis.CodecB

/-- `enum Operation { Request = 1, Reply = 2 }` -/
inductive Operation
  | request
  | reply
deriving Repr, DecidableEq

/-- `self.oper as u16` -/
def Operation.toNat : Operation → Nat
  | .request => 1
  | .reply => 2

/-- `struct ArpPacket` (htype/ptype: u16, hlen/plen: u8, MACs: u64, IPs: u32 value of the
    `Ipv4Address`) -/
structure ArpPacket where
  htype : Nat
  ptype : Nat
  hlen : Nat
  plen : Nat
  oper : Operation
  senderMac : Nat
  senderIp : Nat
  targetMac : Nat
  targetIp : Nat
deriving Repr, DecidableEq

/-- `ArpPacket::from_bytes`, field by field in code order -/
def fromBytes (bs : Bytes) : Except DecErr (ArpPacket × Bytes) := do
  let (htype, bs) ← orShort (nextU16 bs)
  let (ptype, bs) ← orShort (nextU16 bs)
  let (hlen, bs) ← orShort (nextU8 bs)
  let (plen, bs) ← orShort (nextU8 bs)
  let (oper, bs) ← orShort (nextU16 bs)
  let oper ← (if oper = 1 then .ok Operation.request
              else if oper = 2 then .ok Operation.reply
              else .error DecErr.invalidOperation)
  let (senderMac, bs) ← orShort (nextU48 bs)
  let (senderIp, bs) ← orShort (nextIpv4 bs)
  let (targetMac, bs) ← orShort (nextU48 bs)
  let (targetIp, bs) ← orShort (nextIpv4 bs)
  pure ({ htype, ptype, hlen, plen, oper, senderMac, senderIp, targetMac, targetIp }, bs)

/-- `ArpPacket::build` (the constant slices `[2..8]` of an 8-byte array cannot fail) -/
def build (p : ArpPacket) : Bytes :=
  putU16 p.htype ++ putU16 p.ptype ++ putU8 p.hlen ++ putU8 p.plen ++ putU16 p.oper.toNat
    ++ putU48 p.senderMac ++ putU32 p.senderIp ++ putU48 p.targetMac ++ putU32 p.targetIp

/-- `ArpPacket::new_request` (HTYPE, PTYPE, HLEN, PLEN as extracted from the source; the
    placeholder target MAC 69) -/
def newRequest (senderMac senderIp targetIp : Nat) : ArpPacket :=
  { htype := Elvis.Gen.CodecB.arpHtype, ptype := Elvis.Gen.CodecB.arpPtype,
    hlen := Elvis.Gen.CodecB.arpHlen, plen := Elvis.Gen.CodecB.arpPlen, oper := .request,
    senderMac, senderIp, targetMac := 69, targetIp }

/-- `ArpPacket::new_reply` -/
def newReply (senderMac senderIp targetMac targetIp : Nat) : ArpPacket :=
  { htype := Elvis.Gen.CodecB.arpHtype, ptype := Elvis.Gen.CodecB.arpPtype,
    hlen := Elvis.Gen.CodecB.arpHlen, plen := Elvis.Gen.CodecB.arpPlen, oper := .reply,
    senderMac, senderIp, targetMac, targetIp }

/-- Outcome of `Arp::demux` for a machine whose ARP instance has no local address that equals
    the packet's target (the only configuration in which `demux` touches nothing but its table):
    a decode failure is logged and dropped (`return Ok(())`, table unchanged), an accepted
    packet enters `(sender_ip ↦ sender_mac)` into the table. -/
inductive DemuxOut
  | dropped
  | learned (ip mac : Nat)
deriving Repr, DecidableEq

def demux (bs : Bytes) : Except DecErr DemuxOut :=
  match fromBytes bs with
  | .ok (p, _) => .ok (.learned p.senderIp p.senderMac)
  | .error (.panic s) => .error (.panic s)
  | .error _ => .ok .dropped

end Elvis.CodecB.Arp
