#!/usr/bin/env python3
"""Source -> Lean extraction (run on every check).

Reads /repo's *current* Rust sources and (re)writes lean/ElvisVerif/Generated/*.lean:
numeric constants, the one-expression arithmetic kernels, and structural certificates.
Fails closed: anything it cannot translate is an error (reported by ./check as a broken tie).
Files are rewritten only when their content changes, so Lean's build cache stays valid.
"""
import os, re, sys

REPO = os.environ.get("ELVIS_REPO") or os.path.normpath(os.path.join(os.path.dirname(os.path.abspath(__file__)), "..", "..", "repo"))
CORE = os.path.join(REPO, "sim", "elvis-core", "src")
ELVIS = os.path.join(REPO, "sim", "elvis", "src")
OUT = os.path.join(os.path.dirname(os.path.abspath(__file__)), "..", "lean", "ElvisVerif", "Generated")


class ExtractError(Exception):
    pass


def read(path):
    with open(path) as f:
        return f.read()


def strip_comments(src):
    src = re.sub(r"/\*.*?\*/", "", src, flags=re.S)
    return re.sub(r"//[^\n]*", "", src)


def write_if_changed(name, text):
    p = os.path.join(OUT, name)
    os.makedirs(OUT, exist_ok=True)
    if os.path.exists(p) and read(p) == text:
        return
    with open(p, "w") as f:
        f.write(text)


def check_message_immutability():
    """C07 structural certificate: message/ holds no unsafe code, no in-place mutation of shared
    chunk storage and no interior mutability."""
    bad = []
    files = [os.path.join(CORE, "message.rs")] + [os.path.join(CORE, "message", f) for f in sorted(os.listdir(os.path.join(CORE, "message")))]
    for p in files:
        src = strip_comments(read(p)).split("#[cfg(test)]")[0]
        for tok in ("unsafe", "get_mut(", "make_mut(", "RefCell", "Cell<", "Mutex", "RwLock", "Atomic", "as_mut_ptr", "get_mut_unchecked"):
            if tok in src:
                bad.append(f"{os.path.relpath(p, REPO)}: `{tok}`")
    if bad:
        raise ExtractError("message/ is no longer evidently immutable-by-construction: " + "; ".join(bad))


def const_u(path, name, ty):
    """`const NAME: ty = <integer literal>;` -> int (fail closed)"""
    m = re.search(r"\bconst\s+%s\s*:\s*%s\s*=\s*([0-9][0-9_]*)\s*;" % (re.escape(name), re.escape(ty)), strip_comments(read(path)))
    if not m:
        raise ExtractError(f"{os.path.relpath(path, REPO)}: `const {name}: {ty} = <literal>;` not found")
    return int(m.group(1).replace("_", ""))


def main():
    check_message_immutability()
    consts = ["-- GENERATED from /repo sources by tools/extract.py on every check; do not edit", "namespace Elvis.Gen"]
    # C11: reassembly timer lower bound (segment.rs `const TLB: u8 = 15;`)
    tlb = const_u(os.path.join(CORE, "protocols", "ipv4", "reassembly", "segment.rs"), "TLB", "u8")
    consts += ["/-- reassembly/segment.rs `TLB` (timer lower bound, seconds) -/", f"def TLB : Nat := {tlb}"]
    consts += ["end Elvis.Gen", ""]
    write_if_changed("Consts.lean", "\n".join(consts))


if __name__ == "__main__":
    try:
        main()
    except ExtractError as e:
        print("EXTRACT-ERROR:", e)
        sys.exit(1)
