import ElvisVerif.Model.Message
import Driver.Common
namespace Driver.C07
open Elvis.Msg

def dump (pool : List Msg) : String :=
  let ms := pool.map fun m => s!"{m.len}:{Driver.toHex (toBytes m)}"
  let eqs := pool.flatMap fun a => pool.map fun b => if beq a b then '1' else '0'
  " ".intercalate ms ++ " eq=" ++ String.ofList eqs

def parseForm : List String → Option RangeForm
  | ["range", a, b] => do pure (.range (← a.toNat?) (← b.toNat?))
  | ["from", a] => do pure (.rangeFrom (← a.toNat?))
  | ["full"] => some .rangeFull
  | ["incl", a, b] => do pure (.rangeIncl (← a.toNat?) (← b.toNat?))
  | ["to", b] => do pure (.rangeTo (← b.toNat?))
  | ["toincl", b] => do pure (.rangeToIncl (← b.toNat?))
  | _ => none

def parseOp : List String → Option Op
  | ["new", h] => do pure (.new (← Driver.parseHex h))
  | ["header", i, h] => do pure (.header (← i.toNat?) (← Driver.parseHex h))
  | ["concat", i, j] => do pure (.concat (← i.toNat?) (← j.toNat?))
  | "slice" :: i :: f => do pure (.slice (← i.toNat?) (← parseForm f))
  | ["cut", i, n] => do pure (.cut (← i.toNat?) (← n.toNat?))
  | ["rf", i, n] => do pure (.removeFront (← i.toNat?) (← n.toNat?))
  | ["clone", i] => do pure (.clone (← i.toNat?))
  | _ => none

def step (pool : List Msg) (ws : List String) : List Msg × String :=
  match ws with
  | ["case", id] => ([], s!"case {id}")
  | ["dump"] => (pool, "ok " ++ dump pool)
  | "q" :: rest =>
    -- quiet op: applied, nothing materialised
    match parseOp rest with
    | none => (pool, "bad-op")
    | some op =>
      match Elvis.Msg.step pool op with
      | .ok p => (p, "ok")
      | .error e => (pool, s!"err {e}")
  | _ =>
    match parseOp ws with
    | none => (pool, "bad-op")
    | some op =>
      match Elvis.Msg.step pool op with
      | .ok p => (p, "ok " ++ dump p)
      | .error e => (pool, s!"err {e} " ++ dump pool)

def dispatch (sub : String) (i o : IO.FS.Stream) : Option (IO Unit) :=
  if sub == "c07" then some (Driver.loop i o step []) else none

end Driver.C07
