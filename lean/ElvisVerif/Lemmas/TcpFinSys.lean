import ElvisVerif.Lemmas.TcpFinLocal
import ElvisVerif.Lemmas.C01Run
/-!
# The stream invariant with `close()`: the closed two-endpoint system

`InvF iss fin s`: C01's `Inv` with `TInvF` / `ValidF`; the ghost `fin x` says that side `x` has numbered
its FIN (if `x` has a TCB it is what the TCB shows, `finSent`; it survives the deletion of the TCB).
`OpOkF`: `write`, `read`, `tick`, `emit`, **`close`**, `drop` and deliveries of any history element to the
endpoint it is addressed to.  `step_invF`: one step keeps the invariant; the flags only go from false
to true.  `InvF.of_inv`: every state that satisfies C01's invariant (nobody has closed yet) satisfies
`InvF` with both flags false.
-/
namespace Elvis.Tcp.Fin
open Elvis.ModCmp Elvis.Tcp.Tcb Elvis.Tcp.C01

/-- invariant of one side `sd` (port `port`, ISS `ix`, FIN flag `fx`) against its peer `pd` (ISS `iy`, flag `fy`) -/
structure SideInvF (port : U16) (ix iy : Seq) (fx fy : Bool) (sd pd : Side) : Prop where
  tcb : ∀ t, sd.tcb = some t → TInvF port ix iy sd.submitted pd.submitted sd.delivered fy t ∧ finSent t = fx
  fresh : ∀ i m, sd.tcb = none → sd.listen = some (i, m) →
    i = ix ∧ sd.submitted = [] ∧ sd.delivered = [] ∧ fx = false
  pre : sd.delivered <+: pd.submitted

section
variable {port : U16} {ix iy : Seq} {fx fy : Bool} {sd pd : Side}

/-- the peer's submitted log is the same, its flag may have gone up -/
theorem SideInvF.peer_same (h : SideInvF port ix iy fx fy sd pd) (pd' : Side) (fy' : Bool)
    (e : pd'.submitted = pd.submitted) (hf : fy = true → fy' = true) : SideInvF port ix iy fx fy' sd pd' :=
  ⟨fun t ht => by rw [e]; exact ⟨TInvG.flag_peer (h.tcb t ht).1 hf, (h.tcb t ht).2⟩, h.fresh, by rw [e]; exact h.pre⟩

/-- the peer (FIN not numbered) submits more -/
theorem SideInvF.peer_more (h : SideInvF port ix iy fx false sd pd) (pd' : Side) (more : List UInt8)
    (e : pd'.submitted = pd.submitted ++ more) : SideInvF port ix iy fx false sd pd' :=
  ⟨fun t ht => by rw [e]; exact ⟨TInvG.mono_peer (h.tcb t ht).1 more, (h.tcb t ht).2⟩, h.fresh,
    by rw [e]; exact h.pre.trans (List.prefix_append _ _)⟩

theorem SideInvF.gone (h : SideInvF port ix iy fx fy sd pd) :
    SideInvF port ix iy fx fy { sd with tcb := none, listen := none } pd :=
  ⟨(fun _ ht => by cases ht), (fun _ _ _ hl => by cases hl), h.pre⟩

/-- the side with a new TCB (same logs) that shows the flag `fx'` -/
theorem SideInvF.withTcb (h : SideInvF port ix iy fx fy sd pd) (t' : Tcb) (l : Option (Seq × U16)) (fx' : Bool)
    (ht : TInvF port ix iy sd.submitted pd.submitted sd.delivered fy t') (hf : finSent t' = fx') :
    SideInvF port ix iy fx' fy { sd with tcb := some t', listen := l } pd :=
  ⟨(fun t e => by cases e; exact ⟨ht, hf⟩), (fun _ _ e _ => by cases e), h.pre⟩

end

/-! ## the system invariant -/

structure InvF (iss : SideId → Seq) (fin : SideId → Bool) (s : Sys) : Prop where
  side : ∀ x, SideInvF x.port (iss x) (iss x.peer) (fin x) (fin x.peer) (s.side x) (s.side x.peer)
  hist : ∀ g ∈ s.history, ∀ x : SideId, g.hdr.srcPort = x.port → ValidF (iss x) (s.side x).submitted (fin x) g

/-- set the flag of side `x` -/
def setFlag (fin : SideId → Bool) (x : SideId) (b : Bool) : SideId → Bool := fun y => if y = x then b else fin y

@[simp] theorem setFlag_self (fin : SideId → Bool) (x : SideId) (b : Bool) : setFlag fin x b x = b := by
  unfold setFlag; rw [if_pos rfl]

@[simp] theorem setFlag_peer (fin : SideId → Bool) (x : SideId) (b : Bool) : setFlag fin x b x.peer = fin x.peer := by
  unfold setFlag; rw [if_neg (peer_ne x)]

theorem setFlag_mono (fin : SideId → Bool) (x : SideId) (b : Bool) (h : fin x = true → b = true) (y : SideId) :
    fin y = true → setFlag fin x b y = true := by
  intro hy
  rcases eq_or_peer x y with rfl | rfl
  · rw [setFlag_self]; exact h hy
  · rw [setFlag_peer]; exact hy

theorem setFlag_same (fin : SideId → Bool) (x : SideId) : setFlag fin x (fin x) = fin := by
  funext y
  unfold setFlag
  split
  · rename_i h; rw [h]
  · rfl

section
variable {iss : SideId → Seq} {fin : SideId → Bool}

theorem InvF.side_peer {s : Sys} (h : InvF iss fin s) (x : SideId) :
    SideInvF x.peer.port (iss x.peer) (iss x) (fin x.peer) (fin x) (s.side x.peer) (s.side x) := by
  have := h.side x.peer
  rwa [peer_peer] at this

theorem InvF.build {fin' : SideId → Bool} {s' : Sys} (x : SideId)
    (hx : SideInvF x.port (iss x) (iss x.peer) (fin' x) (fin' x.peer) (s'.side x) (s'.side x.peer))
    (hy : SideInvF x.peer.port (iss x.peer) (iss x) (fin' x.peer) (fin' x) (s'.side x.peer) (s'.side x))
    (hh : ∀ g ∈ s'.history, ∀ y : SideId, g.hdr.srcPort = y.port → ValidF (iss y) (s'.side y).submitted (fin' y) g) :
    InvF iss fin' s' := by
  refine ⟨fun y => ?_, hh⟩
  rcases eq_or_peer x y with rfl | rfl
  · exact hx
  · rw [peer_peer]; exact hy

/-- C01's invariant is `InvF` with both flags false -/
theorem InvF.of_inv {s : Sys} (h : Inv iss s) : InvF iss (fun _ => false) s := by
  refine ⟨fun x => ⟨fun t ht => ⟨TInvF.of_tinv ((h.side x).tcb t ht), finSent_of_ok3 ((h.side x).tcb t ht).st⟩,
    fun i m a b => ?_, (h.side x).pre⟩, fun g hg x hx => ValidF.of_valid (h.hist g hg x hx)⟩
  obtain ⟨p, q, r⟩ := (h.side x).fresh i m a b
  exact ⟨p, q, r, rfl⟩

/-- a step that replaces side `x` by a side with the same submitted log and flag `fx'` (not below the
    old one) and appends valid segments of `x` to the history -/
theorem InvF.update_gen {s s' : Sys} (h : InvF iss fin s) (x : SideId) (v : Side) (fx' : Bool) (segs : List Segment)
    (e1 : s'.side x = v) (e2 : s'.side x.peer = s.side x.peer)
    (e3 : ∀ g ∈ s'.history, g ∈ segs ∨ g ∈ s.history)
    (hsub : v.submitted = (s.side x).submitted) (hmono : fin x = true → fx' = true)
    (hv : SideInvF x.port (iss x) (iss x.peer) fx' (fin x.peer) v (s.side x.peer))
    (hs : ∀ g ∈ segs, ValidF (iss x) v.submitted fx' g ∧ g.hdr.srcPort = x.port) :
    InvF iss (setFlag fin x fx') s' := by
  refine InvF.build x ?_ ?_ ?_
  · rw [e1, e2, setFlag_self, setFlag_peer]; exact hv
  · rw [e1, e2, setFlag_self, setFlag_peer]
    exact (h.side_peer x).peer_same v fx' hsub hmono
  · intro g hg y hy
    rcases e3 g hg with hg | hg
    · obtain ⟨hval, hp⟩ := hs g hg
      have : y = x := port_inj (hy.symm.trans hp)
      subst this
      rw [e1, setFlag_self]; exact hval
    · rcases eq_or_peer x y with rfl | rfl
      · rw [e1, hsub, setFlag_self]; exact (h.hist g hg _ hy).flag_le hmono
      · rw [e2, setFlag_peer]; exact h.hist g hg _ hy

theorem InvF.update {s : Sys} (h : InvF iss fin s) (x : SideId) (v : Side) (fx' : Bool) (segs : List Segment)
    (hsub : v.submitted = (s.side x).submitted) (hmono : fin x = true → fx' = true)
    (hv : SideInvF x.port (iss x) (iss x.peer) fx' (fin x.peer) v (s.side x.peer))
    (hs : ∀ g ∈ segs, ValidF (iss x) v.submitted fx' g ∧ g.hdr.srcPort = x.port) :
    InvF iss (setFlag fin x fx') ((s.setSide x v).record segs) :=
  h.update_gen x v fx' segs (by simp) (by simp)
    (fun g hg => by
      simp only [history_record, history_setSide, List.mem_append, List.mem_reverse] at hg
      exact hg) hsub hmono hv hs

/-- the same without new segments and with the flag unchanged -/
theorem InvF.update' {s : Sys} (h : InvF iss fin s) (x : SideId) (v : Side)
    (hsub : v.submitted = (s.side x).submitted)
    (hv : SideInvF x.port (iss x) (iss x.peer) (fin x) (fin x.peer) v (s.side x.peer)) :
    InvF iss fin (s.setSide x v) := by
  have := h.update_gen (s' := s.setSide x v) x v (fin x) [] (by simp) (by simp)
    (fun g hg => Or.inr (by simpa using hg)) hsub (fun h0 => h0) hv (fun g hg => by cases hg)
  rwa [setFlag_same] at this

/-- a response of a side without TCB (RST from CLOSED / LISTEN) -/
theorem InvF.respond {s : Sys} (h : InvF iss fin s) (x : SideId) (hd : Hdr)
    (hp : hd.ctl.syn = false ∧ hd.ctl.fin = false ∧ hd.srcPort = x.port) : InvF iss fin (s.record [⟨hd, []⟩]) := by
  refine ⟨fun y => by simpa using h.side y, fun g hg y hy => ?_⟩
  simp only [history_record, List.reverse_cons, List.reverse_nil, List.nil_append, List.cons_append,
    List.mem_cons] at hg
  rcases hg with rfl | hg
  · exact ValidF.plain hd hp.1 hp.2.1
  · simpa using h.hist g hg y hy

/-- a segment addressed to `x` arrives at `x` -/
theorem arrive_invF {s s' : Sys} {x : SideId} {g : Segment} {r : Res} (h : InvF iss fin s) (h31 : Lt31 s)
    (ha : Addressed x g) (hg : g ∈ s.history) (e : s.arrive x g = .ok (s', r)) : InvF iss fin s' := by
  have hval : ValidF (iss x.peer) (s.side x.peer).submitted (fin x.peer) g := h.hist g hg x.peer ha.1
  have hsd := h.side x
  unfold Sys.arrive at e
  dsimp only at e
  cases htcb : (s.side x).tcb with
  | some tcb =>
    rw [htcb] at e
    dsimp only at e
    cases hs : tcb.segmentArrives g with
    | error err => rw [hs] at e; cases e
    | ok p =>
      obtain ⟨t1, r1⟩ := p
      rw [hs] at e
      obtain ⟨i1, f1⟩ := segmentArrives_invF (hsd.tcb tcb htcb).1 hval (h31.side x.peer) hs
      cases r1 with
      | Ok => cases e; exact h.update' x _ rfl (hsd.withTcb t1 _ _ i1 (f1.trans (hsd.tcb tcb htcb).2))
      | Close => cases e; exact h.update' x _ rfl hsd.gone
  | none =>
    rw [htcb] at e
    dsimp only at e
    cases hl : (s.side x).listen with
    | some p =>
      obtain ⟨i, m⟩ := p
      rw [hl] at e
      dsimp only at e
      obtain ⟨hi, hsub, hdel, hfx⟩ := hsd.fresh i m htcb hl
      cases hs : segmentArrivesListen g i m with
      | error err => rw [hs] at e; cases e
      | ok res =>
        rw [hs] at e
        obtain ⟨lt, lr⟩ := listen_invF (issY := iss x.peer) (subY := (s.side x.peer).submitted)
          (finY := fin x.peer) hval hs
        cases res with
        | none => cases e; exact h
        | some lres =>
          cases lres with
          | Tcb t =>
            cases e
            obtain ⟨this, hfs⟩ := lt t rfl
            rw [ha.2, hi] at this
            exact h.update' x _ rfl (hsd.withTcb t _ _ (by rw [hsub, hdel]; exact this) (by rw [hfx]; exact hfs))
          | Response hd =>
            cases e
            have := lr hd rfl
            exact h.respond x hd ⟨this.1, this.2.1, this.2.2.trans ha.2⟩
    | none =>
      rw [hl] at e
      dsimp only at e
      cases hs : segmentArrivesClosed g.hdr (BitVec.ofNat 32 g.text.length) with
      | none => rw [hs] at e; cases e; exact h
      | some hd =>
        rw [hs] at e
        cases e
        have := closed_plain hs
        exact h.respond x hd ⟨this.1, this.2.1, this.2.2.trans ha.2⟩

/-- the ops of the statement with `close()` -/
def OpOkF (s : Sys) : Op → Prop
  | .write _ _ | .read _ | .tick _ _ | .emit _ | .drop _ | .close _ => True
  | .deliver x i => ∀ g, s.nth i = some g → Addressed x g
  | .open _ _ _ | .listen _ _ _ | .inject _ _ | .abort _ => False

/-- **one step of the closed system (with `close`) keeps the stream invariant**; the FIN flags only go up -/
theorem step_invF {s s' : Sys} {op : Op} {r : Res} (h : InvF iss fin s) (hop : OpOkF s op) (h31 : Lt31 s)
    (e : s.step op = .ok (s', r)) : ∃ fin', InvF iss fin' s' ∧ ∀ y, fin y = true → fin' y = true := by
  cases op with
  | «open» x i mtu => exact hop.elim
  | listen x i mtu => exact hop.elim
  | inject x g => exact hop.elim
  | abort x => exact hop.elim
  | deliver x i =>
    simp only [Sys.step, Op.side] at e
    cases hn : s.nth i with
    | none => rw [hn] at e; cases e; exact ⟨fin, h, fun _ h0 => h0⟩
    | some g =>
      rw [hn] at e
      exact ⟨fin, arrive_invF h h31 (hop g hn) (nth_mem s i g hn) e, fun _ h0 => h0⟩
  | drop x =>
    simp only [Sys.step, Op.side] at e
    cases e
    exact ⟨fin, h.update' x _ rfl (h.side x).gone, fun _ h0 => h0⟩
  | write x bytes =>
    simp only [Sys.step, Op.side] at e
    cases ht : (s.side x).tcb with
    | none => rw [ht] at e; cases e; exact ⟨fin, h, fun _ h0 => h0⟩
    | some tcb =>
      rw [ht] at e
      cases e
      have hsd := h.side x
      obtain ⟨it, hft⟩ := hsd.tcb tcb ht
      cases ha : sendAccepts tcb.state with
      | false =>
        -- nothing is submitted
        have hsend : tcb.send bytes = tcb := by
          unfold send
          cases hst : tcb.state <;> rw [hst] at ha <;> first | cases ha | rfl
        refine ⟨fin, ?_, fun _ h0 => h0⟩
        refine h.update' x _ (by simp) ⟨fun t e => ?_, (fun _ _ e _ => by cases e), hsd.pre⟩
        simp only [Option.some.injEq] at e
        subst e
        rw [hsend]
        simp only [Bool.false_eq_true, if_false, List.append_nil]
        exact ⟨it, hft⟩
      | true =>
        have hfx : fin x = false := by rw [← hft]; exact finSent_accepts ha
        have i1 := send_invF it bytes
        rw [ha] at i1
        refine ⟨fin, InvF.build x ?_ ?_ ?_, fun _ h0 => h0⟩
        · simp only [side_setSide_self, side_setSide_peer]
          refine ⟨fun t e => ?_, (fun _ _ e _ => by cases e), hsd.pre⟩
          simp only [Option.some.injEq] at e
          subst e
          refine ⟨i1, ?_⟩
          rw [← hft]
          have key : tcb.send bytes = { tcb with outgoing.text := tcb.outgoing.text ++ bytes } := by
            unfold send
            cases hst : tcb.state <;> rw [hst] at ha <;> first | cases ha | rfl
          rw [key, finSent_accepts ha]
          exact finSent_accepts (t := { tcb with outgoing.text := tcb.outgoing.text ++ bytes }) ha
        · simp only [side_setSide_self, side_setSide_peer]
          have hp := h.side_peer x
          rw [hfx] at hp ⊢
          exact hp.peer_more _ bytes rfl
        · intro g hg y hy
          simp only [history_setSide] at hg
          rcases eq_or_peer x y with rfl | rfl
          · simp only [side_setSide_self]
            have := h.hist g hg _ hy
            rw [hfx] at this ⊢
            exact this.mono _
          · simp only [side_setSide_peer]
            exact h.hist g hg _ hy
  | read x =>
    simp only [Sys.step, Op.side] at e
    cases ht : (s.side x).tcb with
    | none => rw [ht] at e; cases e; exact ⟨fin, h, fun _ h0 => h0⟩
    | some tcb =>
      rw [ht] at e
      dsimp only at e
      have hsd := h.side x
      obtain ⟨it, hft⟩ := hsd.tcb tcb ht
      have i1 := receive_invF it
      have hf1 : finSent tcb.receive.1 = finSent tcb := receive_finSent tcb
      cases e
      exact ⟨fin, h.update' x _ rfl ⟨(fun t e => by cases e; exact ⟨i1, hf1.trans hft⟩), (fun _ _ e _ => by cases e),
        i1.delivered_prefix⟩, fun _ h0 => h0⟩
  | tick x ms =>
    simp only [Sys.step, Op.side] at e
    cases ht : (s.side x).tcb with
    | none => rw [ht] at e; cases e; exact ⟨fin, h, fun _ h0 => h0⟩
    | some tcb =>
      rw [ht] at e
      dsimp only at e
      have hsd := h.side x
      obtain ⟨it, hft⟩ := hsd.tcb tcb ht
      cases ha : tcb.advanceTime ms with
      | error err => rw [ha] at e; cases e
      | ok p =>
        obtain ⟨t1, r1⟩ := p
        rw [ha] at e
        have f := advanceTime_frF ha
        cases r1 with
        | Ignore =>
          cases e
          exact ⟨fin, h.update' x _ rfl (hsd.withTcb t1 _ _ (it.of_fr f) (f.fs.trans hft)), fun _ h0 => h0⟩
        | CloseConnection => cases e; exact ⟨fin, h.update' x _ rfl hsd.gone, fun _ h0 => h0⟩
  | emit x =>
    simp only [Sys.step, Op.side] at e
    cases ht : (s.side x).tcb with
    | none => rw [ht] at e; cases e; exact ⟨fin, h, fun _ h0 => h0⟩
    | some tcb =>
      rw [ht] at e
      dsimp only at e
      have hsd := h.side x
      obtain ⟨it, hft⟩ := hsd.tcb tcb ht
      cases hs : tcb.segments with
      | error err => rw [hs] at e; cases e
      | ok p =>
        obtain ⟨t1, out⟩ := p
        rw [hs] at e
        cases e
        obtain ⟨i1, hmono, hout⟩ := segments_invF it hs
        have hm : fin x = true → finSent t1 = true := fun h0 => hmono (hft.trans h0)
        exact ⟨_, h.update x _ (finSent t1) out rfl hm (hsd.withTcb t1 _ _ i1 rfl) hout, setFlag_mono fin x _ hm⟩
  | close x =>
    simp only [Sys.step, Op.side] at e
    cases ht : (s.side x).tcb with
    | none => rw [ht] at e; cases e; exact ⟨fin, h, fun _ h0 => h0⟩
    | some tcb =>
      rw [ht] at e
      dsimp only at e
      have hsd := h.side x
      obtain ⟨it, hft⟩ := hsd.tcb tcb ht
      cases hs : tcb.close with
      | error err => rw [hs] at e; cases e
      | ok p =>
        obtain ⟨t1, r1⟩ := p
        rw [hs] at e
        cases e
        obtain ⟨i1, hmono⟩ := close_invF it hs
        have hm : fin x = true → finSent t1 = true := fun h0 => hmono (hft.trans h0)
        have := h.update_gen (s' := s.setSide x { s.side x with tcb := some t1 }) x { s.side x with tcb := some t1 }
          (finSent t1) [] (by simp) (by simp)
          (fun g hg => Or.inr (by simpa using hg)) rfl hm (hsd.withTcb t1 _ _ i1 rfl) (fun g hg => by cases hg)
        exact ⟨_, this, setFlag_mono fin x _ hm⟩

end
end Elvis.Tcp.Fin
