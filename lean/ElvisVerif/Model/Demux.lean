/-!
# Model of datagram demultiplexing: tap → `Ipv4::demux` → `Udp::demux` → application

Import-free (linked into the native driver).  Mirrors, function by function,

* `Udp::listen`            (udp.rs)        — reject an existing endpoint, then `Ipv4::listen`
* `Ipv4::listen`           (ipv4.rs)       — same upstream = ok, other upstream = `Exists`
* `PciSession::receive`    (pci_session.rs)— protocol id named in the frame → protocol of the machine
* `Ipv4::demux`            (ipv4.rs)       — decode, strip `ihl*4`, binding `(dst, proto)` then `(0.0.0.0, proto)`
* `Ipv4Session::receive`   (ipv4_session.rs)— unfragmented datagrams go straight up
* `Udp::demux`             (udp.rs)        — decode, strip 8, binding `(dst, port)` then `(0.0.0.0, port)`
* `UdpSession::receive`    (udp_session.rs)— hand to the upstream protocol of the binding

Headers are abstract records: a frame carries its bytes *and* what the two decoders make of them
(`none` = the decoder rejects).  The byte codecs themselves are property C08.
Hash maps are association lists (`lookup` = first match); key uniqueness is an invariant.
`TypeId`s of protocols are small numbers (`Pid`).
-/
namespace Elvis.Demux

abbrev Addr := Nat
abbrev Port := Nat
abbrev Pid := Nat

/-- constants of the code the model depends on; `Props/C04.lean` proves them equal to the values
extracted from the sources (`Elvis.Gen.*`) -/
def anyAddr : Addr := 0            -- Ipv4Address::CURRENT_NETWORK
def protoUdp : Nat := 17           -- ProtocolNumber::UDP
def udpStrip : Nat := 8            -- `message.remove_front(8)` in Udp::demux
def ipWordOctets : Nat := 4        -- `header.ihl as usize * 4` in Ipv4::demux

def pidIpv4 : Pid := 0
def pidUdp : Pid := 1

structure Endpoint where
  addr : Addr
  port : Port
deriving DecidableEq, Repr

/-- `DashMap::get` on an association list -/
def lookup {κ ν : Type} [DecidableEq κ] (k : κ) : List (κ × ν) → Option ν
  | [] => none
  | (k', v) :: rest => if k' = k then some v else lookup k rest

/-- `ProtocolNumber::from(u8)` -/
def protoNumber (p : Nat) : Nat :=
  if p = 6 then 6 else if p = 17 then 17 else if p = 253 then 253 else if p = 254 then 254
  else if p = 255 then 255 else 0

structure Machine where
  /-- protocols present on the machine (`Machine.protocols` keys) -/
  protocols : List Pid
  /-- `Udp.listen_bindings : Endpoint → upstream` -/
  udp : List (Endpoint × Pid)
  /-- `Ipv4.listen_bindings : (address, protocol number) → upstream` -/
  ip : List ((Addr × Nat) × Pid)
deriving Repr

def Machine.init (protocols : List Pid) : Machine := { protocols, udp := [], ip := [] }

inductive ListenErr
  | existing      -- udp::ListenError::Existing
  | ipv4Exists    -- udp::ListenError::Ipv4(ipv4::ListenError::Exists)
  | panicNoIpv4   -- `.expect("No such protocol")`
deriving DecidableEq, Repr

/-- `Ipv4::listen` (the ARP side effect `arp.listen(address)` is outside this model) -/
def ipv4Listen (m : Machine) (up : Pid) (a : Addr) (pn : Nat) : Except ListenErr Machine :=
  match lookup (a, pn) m.ip with
  | some u => if u = up then .ok m else .error .ipv4Exists
  | none => .ok { m with ip := ((a, pn), up) :: m.ip }

/-- `Udp::listen`: returns the new machine state and the result.  As in the code the UDP binding
is inserted *before* IPv4 is asked, and stays if IPv4 refuses. -/
def udpListen (m : Machine) (up : Pid) (e : Endpoint) : Machine × Except ListenErr Unit :=
  match lookup e m.udp with
  | some _ => (m, .error .existing)
  | none =>
    let m1 := { m with udp := (e, up) :: m.udp }
    if pidIpv4 ∈ m.protocols then
      match ipv4Listen m1 pidUdp e.addr protoUdp with
      | .ok m2 => (m2, .ok ())
      | .error er => (m1, .error er)
    else (m1, .error .panicNoIpv4)

/-- what `Ipv4Header::from_bytes` returns (the fields demux looks at) -/
structure IpHdr where
  ihl : Nat
  proto : Nat
  src : Addr
  dst : Addr
  lastFragment : Bool
  fragOffset : Nat
deriving DecidableEq, Repr

/-- what `UdpHeader::from_bytes_ipv4` returns -/
structure UdpHdr where
  src : Port
  dst : Port
deriving DecidableEq, Repr

/-- a frame as a tap hands it up (`Delivery` + slot of the tap) -/
structure Frame where
  /-- protocol named in the frame -/
  target : Pid
  slot : Nat
  /-- result of the IPv4 decoder on `bytes` -/
  ip : Option IpHdr
  /-- result of the UDP decoder on `bytes` without the IPv4 header -/
  udp : Option UdpHdr
  bytes : List UInt8
deriving Repr

inductive Drop
  | noProtocol          -- pci: ReceiveError::Protocol
  | otherTarget         -- frame names a protocol this model does not follow (ARP, applications)
  | ipHeader            -- DemuxError::Header from Ipv4::demux
  | ipMissingSession    -- DemuxError::MissingSession from Ipv4::demux
  | otherUpstream       -- IPv4 binding owned by something that is not UDP
  | fragment            -- buffered for reassembly (property C11)
  | udpHeader           -- DemuxError::Header from Udp::demux
  | udpMissingSession   -- DemuxError::MissingSession from Udp::demux
  | panicNoUpstream     -- `.expect("No such protocol")` in UdpSession::receive
deriving DecidableEq, Repr

/-- one `demux` call on an application -/
structure Delivered where
  app : Pid
  payload : List UInt8
  loc : Endpoint
  rem : Endpoint
  slot : Nat
deriving DecidableEq, Repr

/-- `UdpSession::receive` -/
def udpSessionReceive (m : Machine) (app : Pid) (payload : List UInt8) (loc rem : Endpoint) (slot : Nat) :
    Except Drop Delivered :=
  if app ∈ m.protocols then .ok { app, payload, loc, rem, slot } else .error .panicNoUpstream

/-- `Udp::demux`; `body` is the message handed up by IPv4 -/
def udpDemux (m : Machine) (ih : IpHdr) (uh : Option UdpHdr) (body : List UInt8) (slot : Nat) :
    Except Drop Delivered :=
  match uh with
  | none => .error .udpHeader
  | some u =>
    let payload := body.drop udpStrip
    let loc : Endpoint := ⟨ih.dst, u.dst⟩
    let rem : Endpoint := ⟨ih.src, u.src⟩
    match lookup loc m.udp with
    | some app => udpSessionReceive m app payload loc rem slot
    | none =>
      match lookup (⟨anyAddr, u.dst⟩ : Endpoint) m.udp with
      | some app => udpSessionReceive m app payload loc rem slot
      | none => .error .udpMissingSession

/-- binding lookup of `Ipv4::demux`: `(dst, proto)` then `(0.0.0.0, proto)` -/
def ipv4Upstream (m : Machine) (dst : Addr) (pn : Nat) : Option Pid :=
  match lookup (dst, pn) m.ip with
  | some u => some u
  | none => lookup (anyAddr, pn) m.ip

/-- `Ipv4::demux` followed by `Ipv4Session::receive` -/
def ipv4Demux (m : Machine) (f : Frame) : Except Drop Delivered :=
  match f.ip with
  | none => .error .ipHeader
  | some h =>
    let body := f.bytes.drop (h.ihl * ipWordOctets)
    let pn := protoNumber h.proto
    match ipv4Upstream m h.dst pn with
    | none => .error .ipMissingSession
    | some u =>
      if h.lastFragment && h.fragOffset == 0 then
        if u = pidUdp then
          if pidUdp ∈ m.protocols then udpDemux m h f.udp body f.slot else .error .panicNoUpstream
        else .error .otherUpstream
      else .error .fragment

/-- `PciSession::receive` -/
def demux (m : Machine) (f : Frame) : Except Drop Delivered :=
  if f.target ∈ m.protocols then
    if f.target = pidIpv4 then ipv4Demux m f else .error .otherTarget
  else .error .noProtocol

/-! ## A world of machines and its operations -/

abbrev World := List Machine

inductive Op
  | listen (machine : Nat) (up : Pid) (e : Endpoint)
  | arrive (machine : Nat) (f : Frame)
deriving Repr

inductive Out
  | listened (r : Except ListenErr Unit)
  | arrived (r : Except Drop Delivered)
  | noMachine

def setAt {α : Type} : List α → Nat → α → List α
  | [], _, _ => []
  | _ :: xs, 0, a => a :: xs
  | x :: xs, n + 1, a => x :: setAt xs n a

def step (w : World) : Op → World × Out
  | .listen i up e =>
    match w[i]? with
    | none => (w, .noMachine)
    | some m => let (m', r) := udpListen m up e; (setAt w i m', .listened r)
  | .arrive i f =>
    match w[i]? with
    | none => (w, .noMachine)
    | some m => (w, .arrived (demux m f))

def run (w : World) : List Op → World × List Out
  | [] => (w, [])
  | op :: ops =>
    let (w1, o) := step w op
    let (w2, os) := run w1 ops
    (w2, o :: os)

/-! ## Sending side (for `c04_payload_and_source`): what `UdpSession::send` and
`Ipv4Session::send` put in front of the payload — a UDP header of `udpHeaderOctets` bytes and an
IPv4 header of `ihl*4` bytes (contents abstract). -/

def encap (ipHeader udpHeader payload : List UInt8) : List UInt8 := ipHeader ++ (udpHeader ++ payload)

end Elvis.Demux
