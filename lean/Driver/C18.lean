import Driver.Common
/-! Line-protocol handlers for C18 (sub-commands `c18` / `c18-*`). -/
namespace Driver.C18

def dispatch (_sub : String) (_i _o : IO.FS.Stream) : Option (IO Unit) := none

end Driver.C18
