//! C20: name resolution on the real `DnsServer` / `DnsClient` over the real stack
//! (SocketAPI, Udp, Ipv4, Arp, Pci, Network), one server machine and 1..N client machines.
//!
//! A case (all of it in op lines, so a replay file re-creates it):
//!   `cfg arp=<0|1> conns=<n> dseed=<s> dmax=<us> lat=<us> rogue=<kind>`
//!   `rec <hexname> <a.b.c.d>`          a record registered with `DnsServer::add_mapping`
//!   `clients <n>`
//!   `plan <client> <at_us> <hexname>`  client calls `get_host_by_name(name)` at that virtual time
//! then either `expect-died` -> `died <panic site>` when the simulation process died (the model
//! names the panic the planned lookups lead to), or, in the order observed on the real run
//! (event log of lookups and frames):
//!   `lookup <c> <hexname> <id>`        -> `hit <addr>` | `miss <port> <query datagram hex>`
//!   `deliver q <c> <port>`             -> `reply <reply datagram hex>` | `reply none` (query reaches the
//!                                         server; `none`: the responder could not answer and sent nothing)
//!   `deliver r <c> <port>`             -> `ok <addr> id=<id> q=<hex> an=<hex>` | `fail err:Cache|err:Other`
//!                                         (client consumed its reply; what get_host_by_name returned)
//!   `drop q <c> <port>`                -> `dropped`   (the query reached the server machine and was
//!                                         discarded there: no reply, the lookup hangs; F-C20-3)
//!   `end`                              -> per client: sorted cache, number of query datagrams
//! The Lean driver replays the same lines through `Elvis.Dns.step`.
//!
//! Native oracle (the property, independent of the code): every lookup of a registered,
//! delimiter-free name completes with exactly the registered address; the reply consumed on a
//! socket echoes id and name of the query sent from that socket; after a client's first success
//! for a name, later lookups of it return the same address with nothing sent by that client.
use crate::scaffold::*;
use elvis_core::{
    machine::Machine,
    message::Message,
    network::VerifFramePlan,
    protocol::{DemuxError, StartError},
    protocols::{
        dns::{dns_client::{DnsClient, DnsClientError}, dns_server::DnsServer},
        ipv4::Ipv4Address,
        Arp, Endpoint, SocketAPI, Udp,
    },
    Control, Protocol, Session, Shutdown,
};
use hcommon::*;
use std::collections::BTreeMap;
use std::sync::atomic::{AtomicUsize, Ordering};
use std::sync::{Arc, Mutex};
use std::time::Duration;
use tokio::sync::{Barrier, Notify};

const RULE: &str = "cases: 1..6 registered records (printable ASCII without space, some multi-byte UTF-8, length 1..60, boundary lengths 24/25, arbitrary addresses, sometimes the server's own stand-in names; 2 of 5 cases register a CONFUSABLE set instead: 2..5 different names derived from one base — letter case only (ASCII and Unicode), trailing/leading dot, one byte changed or swapped, one a prefix of the other, first/last byte replaced by the delimiter's neighbours 0x1f/0x21 or a control byte, variations of the stand-in names — each with its own address, every one looked up) + 1..6 client machines issuing 1..8 lookups each (repeated, concurrent, same instant) over ARP or static MACs, every frame delayed by a seeded planner (0..dmax us; no loss); paused-clock current_thread runtime, one worker process per batch; a few cases look up an unregistered or delimiter-carrying name (outside the property; compared with the model only) or talk to a rogue responder (wrong id / wrong name); non-trivial = >= 2 lookups that missed, >= 1 cache hit and >= 2 clients or a reordered reply; distinct = hash of the op lines";

const SERVER_ADDR: [u8; 4] = [1, 3, 3, 7];
/// records `DnsServer::start` inserts itself (checked against the source by tools/extract.py ->
/// Generated/DnsCert.lean, which the model uses; here only to keep generated names apart)
const BUILTIN: [(&str, [u8; 4]); 2] = [("testserver.com", [123, 45, 67, 15]), ("google.com", [123, 45, 67, 60])];

#[derive(Clone, Debug, PartialEq)]
struct Case {
    arp: bool,
    conns: u16,
    dseed: u64,
    dmax: u64,
    lat: u64,
    /// none | id | name | addr : a rogue responder instead of the real server
    rogue: String,
    records: Vec<(Vec<u8>, [u8; 4])>,
    clients: usize,
    /// (client, at_us, name)
    plan: Vec<(usize, u64, Vec<u8>)>,
}

fn fmt_ip(a: [u8; 4]) -> String {
    format!("{}.{}.{}.{}", a[0], a[1], a[2], a[3])
}
fn parse_ip(s: &str) -> Option<[u8; 4]> {
    parse_addr(s).map(|x| x.to_be_bytes())
}

impl Case {
    fn to_lines(&self) -> Vec<String> {
        let mut l = vec![format!(
            "cfg arp={} conns={} dseed={} dmax={} lat={} rogue={}",
            self.arp as u8, self.conns, self.dseed, self.dmax, self.lat, self.rogue
        )];
        for (n, a) in &self.records {
            l.push(format!("rec {} {}", hex(n), fmt_ip(*a)));
        }
        l.push(format!("clients {}", self.clients));
        for (c, t, n) in &self.plan {
            l.push(format!("plan {} {} {}", c, t, hex(n)));
        }
        l
    }
    fn from_lines<'a>(lines: impl IntoIterator<Item = &'a str>) -> Option<Case> {
        let mut c = Case { arp: true, conns: u16::MAX, dseed: 1, dmax: 0, lat: 1000, rogue: "none".into(), records: vec![], clients: 0, plan: vec![] };
        let mut seen_cfg = false;
        for line in lines {
            let w: Vec<&str> = line.split_whitespace().collect();
            match w.as_slice() {
                ["cfg", rest @ ..] => {
                    seen_cfg = true;
                    for kv in rest {
                        let (k, v) = kv.split_once('=')?;
                        match k {
                            "arp" => c.arp = v == "1",
                            "conns" => c.conns = v.parse().ok()?,
                            "dseed" => c.dseed = v.parse().ok()?,
                            "dmax" => c.dmax = v.parse().ok()?,
                            "lat" => c.lat = v.parse().ok()?,
                            "rogue" => c.rogue = v.to_string(),
                            _ => {}
                        }
                    }
                }
                ["rec", n, a] => c.records.push((unhex(n), parse_ip(a)?)),
                ["clients", n] => c.clients = n.parse().ok()?,
                ["plan", cl, t, n] => c.plan.push((cl.parse().ok()?, t.parse().ok()?, unhex(n))),
                _ => {}
            }
        }
        if !seen_cfg || c.clients == 0 {
            return None;
        }
        Some(c)
    }
    /// what the authoritative server is configured with, per name (last registration wins)
    fn registered(&self) -> BTreeMap<Vec<u8>, [u8; 4]> {
        let mut m = BTreeMap::new();
        for (n, a) in &self.records {
            m.insert(n.clone(), *a);
        }
        for (n, a) in BUILTIN.iter() {
            m.entry(n.as_bytes().to_vec()).or_insert(*a);
        }
        m
    }
}

// ------------------------------------------------------------------------------------------
// harness applications
// ------------------------------------------------------------------------------------------

struct DoneCtr {
    n: AtomicUsize,
    total: usize,
    notify: Notify,
}

/// Client application: calls the real `DnsClient::get_host_by_name` at the planned instants
/// (one task per lookup, so lookups of one machine overlap).
struct Resolver {
    client: usize,
    lookups: Vec<(usize, u64, String)>, // (plan index, at_us, name)
    log: Arc<Log>,
    done: Arc<DoneCtr>,
}

#[async_trait::async_trait]
impl Protocol for Resolver {
    async fn start(&self, _s: Shutdown, initialized: Arc<Barrier>, machine: Arc<Machine>) -> Result<(), StartError> {
        initialized.wait().await;
        let t0 = tokio::time::Instant::now();
        for (idx, at, name) in self.lookups.iter().cloned() {
            let (log, done, machine, client) = (self.log.clone(), self.done.clone(), machine.clone(), self.client);
            tokio::spawn(async move {
                tokio::time::sleep_until(t0 + Duration::from_micros(at)).await;
                let dns = machine.protocol::<DnsClient>().expect("client machine has DnsClient");
                let pre = dns.get_mapping(&name);
                log.push(Ev::Note(format!("L start {} {} {}", client, idx, match pre { Ok(a) => fmt_ip(a.to_bytes()), Err(_) => "miss".into() })));
                let r = dns.get_host_by_name(name.clone(), machine.clone()).await;
                let res = match r {
                    Ok(a) => fmt_ip(a.to_bytes()),
                    Err(DnsClientError::Cache) => "err:Cache".into(),
                    Err(DnsClientError::Other) => "err:Other".into(),
                };
                log.push(Ev::Note(format!("L done {} {} {}", client, idx, res)));
                if done.n.fetch_add(1, Ordering::SeqCst) + 1 == done.total {
                    done.notify.notify_one();
                }
            });
        }
        Ok(())
    }
    fn demux(&self, _m: Message, _c: Arc<dyn Session>, _k: Control, _ma: Arc<Machine>) -> Result<(), DemuxError> {
        Ok(())
    }
}

/// A responder that is NOT the real server: answers every datagram on port 53 with the real
/// server's reply format but a wrong id, a wrong answer name or another address.  Outside the
/// property (which is about the authoritative server); used to tie the client model `onReply`.
struct Rogue {
    kind: String,
}

#[async_trait::async_trait]
impl Protocol for Rogue {
    async fn start(&self, _s: Shutdown, initialized: Arc<Barrier>, machine: Arc<Machine>) -> Result<(), StartError> {
        let udp = machine.protocol::<Udp>().expect("udp");
        if let Some(arp) = machine.protocol::<Arp>() {
            arp.listen(Ipv4Address::new(SERVER_ADDR));
        }
        udp.listen(self.id(), Endpoint::new(Ipv4Address::new(SERVER_ADDR), 53), machine.clone()).expect("rogue listen");
        initialized.wait().await;
        Ok(())
    }
    fn demux(&self, m: Message, caller: Arc<dyn Session>, _k: Control, machine: Arc<Machine>) -> Result<(), DemuxError> {
        let q = m.to_vec();
        if let Some(reply) = rogue_reply(&self.kind, &q) {
            let _ = caller.send(Message::new(reply), machine);
        }
        Ok(())
    }
}

/// split a query datagram: (id, qname); `None` if it does not even have a header and a name
fn split_query(q: &[u8]) -> Option<(u16, Vec<u8>)> {
    if q.len() < 13 {
        return None;
    }
    let id = u16::from_be_bytes([q[0], q[1]]);
    let end = q[12..].iter().position(|b| *b == b' ')?;
    Some((id, q[12..12 + end].to_vec()))
}

fn reply_bytes(id: u16, qname: &[u8], aname: &[u8], addr: [u8; 4]) -> Vec<u8> {
    let mut v = vec![];
    v.extend_from_slice(&id.to_be_bytes());
    v.extend_from_slice(&[0x80, 0, 0, 0, 0, 0, 0, 0, 0, 0]);
    v.extend_from_slice(qname);
    v.extend_from_slice(&[b' ', 0, 1, 0, 1]);
    v.extend_from_slice(aname);
    v.extend_from_slice(&[b' ', 0, 1, 0, 1, 0, 0, 0, 0, 0, 4]);
    v.extend_from_slice(&addr);
    v
}

fn rogue_reply(kind: &str, q: &[u8]) -> Option<Vec<u8>> {
    let (id, name) = split_query(q)?;
    Some(match kind {
        "id" => reply_bytes(id.wrapping_add(1), &name, &name, [6, 6, 6, 6]),
        "qname" => reply_bytes(id, b"other.example", &name, [6, 6, 6, 6]),
        "name" => reply_bytes(id, &name, b"other.example", [6, 6, 6, 6]),
        "short" => q[..q.len().min(20)].to_vec(),
        _ => reply_bytes(id, &name, &name, [6, 6, 6, 6]),
    })
}

// ------------------------------------------------------------------------------------------
// running one case (inside a worker process)
// ------------------------------------------------------------------------------------------

fn client_ip(c: usize) -> [u8; 4] {
    [10, 0, (c / 200) as u8, (c % 200 + 1) as u8]
}

enum RunEnd {
    AllDone,
    Returned(String),
    Stuck,
}

struct Observed {
    end: RunEnd,
    events: Vec<Event>,
    caches: Vec<Vec<(Vec<u8>, Option<[u8; 4]>)>>,
}

fn run_real(case: &Case) -> Observed {
    let n = case.clients;
    let mut machines = vec![];
    // machine 0 = server (MAC 0), machine c+1 = client c (MAC c+1)
    let server_routes = if case.arp {
        vec![Route { addr: 0, mask_len: 0, slot: 0, mac: None }]
    } else {
        (0..n).map(|c| Route { addr: u32::from_be_bytes(client_ip(c)), mask_len: 32, slot: 0, mac: Some(c as u64 + 1) }).collect()
    };
    machines.push(MachineSpec { nets: vec![0], arp: case.arp, udp: true, tcp: true, sockets: false, routes: server_routes, apps: vec![] });
    for _ in 0..n {
        machines.push(MachineSpec {
            nets: vec![0],
            arp: case.arp,
            udp: true,
            tcp: true,
            sockets: false,
            routes: vec![Route { addr: 0, mask_len: 0, slot: 0, mac: if case.arp { None } else { Some(0) } }],
            apps: vec![],
        });
    }
    let sc = Scenario { nets: vec![NetSpec { mtu: None, lat_us: (case.lat, 0), thr: (0, 0) }], machines, mode: RtMode::Paused, duration_us: 0 };
    let rng = Arc::new(Mutex::new(Rng::new(case.dseed)));
    let dmax = case.dmax;
    let planner: Option<Planner> = if dmax == 0 {
        None
    } else {
        Some(Arc::new(move |_w: &WireSend| {
            let mut r = rng.lock().unwrap();
            let d = match r.below(4) {
                0 => 0,
                1 => r.below(dmax / 10 + 1),
                _ => r.below(dmax + 1),
            };
            if d == 0 {
                VerifFramePlan::Deliver
            } else {
                VerifFramePlan::Delay(Duration::from_micros(d))
            }
        }))
    };
    let done = Arc::new(DoneCtr { n: AtomicUsize::new(0), total: case.plan.len(), notify: Notify::new() });
    let names: Vec<String> = case.plan.iter().map(|p| String::from_utf8(p.2.clone()).expect("planned names are UTF-8")).collect();
    let extra = |idx: usize, m: Machine, log: &Arc<Log>| -> Machine {
        if idx == 0 {
            if case.rogue != "none" {
                return m.with(Rogue { kind: case.rogue.clone() });
            }
            let srv = DnsServer::new(case.conns);
            for (nm, a) in &case.records {
                srv.add_mapping(String::from_utf8(nm.clone()).expect("record names are UTF-8"), Ipv4Address::new(*a));
            }
            m.with(SocketAPI::new(Some(Ipv4Address::new(SERVER_ADDR)))).with(srv)
        } else {
            let c = idx - 1;
            let lookups = case.plan.iter().enumerate().filter(|(_, p)| p.0 == c).map(|(i, p)| (i, p.1, names[i].clone())).collect();
            m.with(SocketAPI::new(Some(Ipv4Address::new(client_ip(c)))))
                .with(DnsClient::new())
                .with(Resolver { client: c, lookups, log: log.clone(), done: done.clone() })
        }
    };
    let built = build(&sc, planner, &extra);
    let log = built.log.clone();
    let ms = built.machines.clone();
    let done2 = done.clone();
    let total = case.plan.len();
    let end = block_on_mode(RtMode::Paused, async move {
        log.start_clock();
        tokio::select! {
            st = elvis_core::run_internet(&ms, None) => RunEnd::Returned(fmt_status(&st)),
            _ = async {
                if total > 0 { done2.notify.notified().await; }
                // grace period: anything still sent after the last completion shows up in the log
                tokio::time::sleep(Duration::from_millis(3000)).await;
            } => RunEnd::AllDone,
            _ = tokio::time::sleep(Duration::from_secs(60)) => RunEnd::Stuck,
        }
    });
    for nw in &built.networks {
        nw.verif_set_hook(None);
    }
    // final cache contents, through the public API, for every name of the case
    let mut universe: Vec<Vec<u8>> = case.records.iter().map(|r| r.0.clone()).chain(case.plan.iter().map(|p| p.2.clone())).collect();
    universe.extend(BUILTIN.iter().map(|b| b.0.as_bytes().to_vec()));
    universe.push(b"other.example".to_vec());
    // every answer name that travelled towards a client (a misaligned parse of a delimiter-carrying
    // name makes the server echo names nobody asked for; the client caches them)
    let events = built.log.snapshot();
    for e in &events {
        if let Ev::Wire { to: None, target: Target::Ipv4, bytes, .. } = &e.ev {
            if let Some((src, sp, _, _, payload)) = parse_udp(bytes) {
                if src == SERVER_ADDR && sp == 53 {
                    if let Some((_, _, an, _)) = split_reply(&payload) {
                        universe.push(an);
                    }
                }
            }
        }
    }
    universe.sort();
    universe.dedup();
    let mut caches = vec![];
    for c in 0..n {
        let dns = built.machines[c + 1].protocol::<DnsClient>().expect("DnsClient");
        caches.push(
            universe
                .iter()
                .map(|nm| (nm.clone(), String::from_utf8(nm.clone()).ok().and_then(|s| dns.get_mapping(&s).ok()).map(|a| a.to_bytes())))
                .collect(),
        );
    }
    Observed { end, events, caches }
}

/// an IPv4/UDP frame as the hook shows it: (src ip, src port, dst ip, dst port, payload)
fn parse_udp(bytes: &[u8]) -> Option<([u8; 4], u16, [u8; 4], u16, Vec<u8>)> {
    if bytes.len() < 28 || bytes[0] != 0x45 || bytes[9] != 17 {
        return None;
    }
    // fragments are not produced in these scenarios (MTU 1500, datagrams < 300 bytes)
    let src = [bytes[12], bytes[13], bytes[14], bytes[15]];
    let dst = [bytes[16], bytes[17], bytes[18], bytes[19]];
    let sp = u16::from_be_bytes([bytes[20], bytes[21]]);
    let dp = u16::from_be_bytes([bytes[22], bytes[23]]);
    Some((src, sp, dst, dp, bytes[28..].to_vec()))
}

fn client_of_ip(ip: [u8; 4], n: usize) -> Option<usize> {
    (0..n).find(|c| client_ip(*c) == ip)
}

/// parsed reply datagram: (id, qname, answer name, rdata)
fn split_reply(r: &[u8]) -> Option<(u16, Vec<u8>, Vec<u8>, Vec<u8>)> {
    let (id, qn) = split_query(r)?;
    let mut p = 12 + qn.len() + 1 + 4;
    let end = r.get(p..)?.iter().position(|b| *b == b' ')?;
    let an = r[p..p + end].to_vec();
    p += end + 1 + 2 + 2 + 4;
    let rdl = u16::from_be_bytes([*r.get(p)?, *r.get(p + 1)?]) as usize;
    let rd = r.get(p + 2..p + 2 + rdl)?.to_vec();
    Some((id, qn, an, rd))
}

fn has_delim(n: &[u8]) -> bool {
    n.contains(&b' ')
}

/// Turn the observed run into op lines + implementation answers and evaluate the oracle.
fn analyse(case: &Case, ob: &Observed, rep: &mut CaseReport) {
    let n = case.clients;
    let registered = case.registered();
    // per client: lookups that missed and wait for their query frame / completion
    struct Lk {
        client: usize,
        name: Vec<u8>,
        pre_hit: Option<String>,
        start_ev: usize,
        done_ev: Option<usize>,
        result: Option<String>,
        port: Option<u16>,
        id: Option<u16>,
        /// the socket whose reply woke this lookup's completion (differs from `port` only among
        /// concurrent lookups of one name by one client, which are interchangeable)
        done_port: Option<u16>,
    }
    let mut lks: BTreeMap<usize, Lk> = BTreeMap::new(); // by plan index
    // pass 1: notes
    for e in &ob.events {
        if let Ev::Note(s) = &e.ev {
            let w: Vec<&str> = s.split_whitespace().collect();
            if w.len() == 5 && w[0] == "L" {
                let (c, idx): (usize, usize) = (w[2].parse().unwrap(), w[3].parse().unwrap());
                if w[1] == "start" {
                    lks.insert(idx, Lk { client: c, name: case.plan[idx].2.clone(), pre_hit: if w[4] == "miss" { None } else { Some(w[4].to_string()) }, start_ev: e.id, done_ev: None, result: None, port: None, id: None, done_port: None });
                } else if let Some(l) = lks.get_mut(&idx) {
                    l.done_ev = Some(e.id);
                    l.result = Some(w[4].to_string());
                }
            }
        }
    }
    // pass 2: frames.  query frames at send time, in log order, per (client, name) matched with
    // the missed lookups of that (client, name) in start order
    struct Q {
        client: usize,
        port: u16,
        id: u16,
        name: Vec<u8>,
        bytes: Vec<u8>,
        send_ev: usize,
        at_server_ev: Option<usize>,
        reply: Option<Vec<u8>>,
        reply_at_client_ev: Option<usize>,
    }
    let mut qs: Vec<Q> = vec![];
    let mut sent_by_client = vec![0u64; n];
    for e in &ob.events {
        if let Ev::Wire { to, target: Target::Ipv4, bytes, .. } = &e.ev {
            let Some((src, sp, dst, dp, payload)) = parse_udp(bytes) else { continue };
            if dst == SERVER_ADDR && dp == 53 {
                let Some(c) = client_of_ip(src, n) else { continue };
                match to {
                    None => {
                        let (id, name) = split_query(&payload).unwrap_or((0, vec![]));
                        sent_by_client[c] += 1;
                        qs.push(Q { client: c, port: sp, id, name, bytes: payload, send_ev: e.id, at_server_ev: None, reply: None, reply_at_client_ev: None });
                    }
                    Some(_) => {
                        if let Some(q) = qs.iter_mut().find(|q| q.client == c && q.port == sp && q.at_server_ev.is_none()) {
                            q.at_server_ev = Some(e.id);
                        }
                    }
                }
            } else if src == SERVER_ADDR && sp == 53 {
                let Some(c) = client_of_ip(dst, n) else { continue };
                if let Some(q) = qs.iter_mut().find(|q| q.client == c && q.port == dp) {
                    match to {
                        None => {
                            if q.reply.is_some() {
                                rep.fail(format!("a second reply was sent to client {} port {}", c, dp), "second reply on one connection");
                            }
                            q.reply = Some(payload)
                        }
                        Some(_) => q.reply_at_client_ev = Some(e.id),
                    }
                } else {
                    rep.fail(format!("a datagram from the server reached client {} port {} which never sent a query", c, dp), "reply without a query");
                }
            }
        }
    }
    // attribute query frames to missed lookups: k-th query frame of (client, name) <-> k-th missed
    // lookup of (client, name) in start order (same-name lookups are interchangeable)
    let mut order: Vec<usize> = lks.keys().cloned().collect();
    order.sort_by_key(|i| lks[i].start_ev);
    let mut used = vec![false; qs.len()];
    for i in &order {
        let l = lks.get_mut(i).unwrap();
        if l.pre_hit.is_some() {
            continue;
        }
        // the name the frame carries is the lookup's name up to the first delimiter
        let wire_name: Vec<u8> = l.name.iter().cloned().take_while(|b| *b != b' ').collect();
        // lowest unused port first: sockets are opened in the order the lookups start
        if let Some(k) = (0..qs.len()).filter(|k| !used[*k] && qs[*k].client == l.client && qs[*k].name == wire_name).min_by_key(|k| qs[*k].port) {
            used[k] = true;
            l.port = Some(qs[k].port);
            l.id = Some(qs[k].id);
            l.done_port = l.port;
        }
    }
    // completions of missed lookups happen in the order their replies reach the client machine:
    // re-attribute (port, id) among same-(client, name) lookups so that each completion follows
    // the delivery of its own reply
    // (kept simple: lookups of one (client, name) swap ports so that done order = reply arrival order)
    let mut groups: BTreeMap<(usize, Vec<u8>), Vec<usize>> = BTreeMap::new();
    for i in &order {
        let l = &lks[i];
        if l.pre_hit.is_none() && l.port.is_some() {
            groups.entry((l.client, l.name.clone())).or_default().push(*i);
        }
    }
    for (_, g) in groups {
        if g.len() < 2 {
            continue;
        }
        let mut ports: Vec<(usize, u16, u16)> = g
            .iter()
            .map(|i| {
                let p = lks[i].port.unwrap();
                let q = qs.iter().find(|q| q.client == lks[i].client && q.port == p).unwrap();
                (q.reply_at_client_ev.unwrap_or(usize::MAX), p, q.id)
            })
            .collect();
        ports.sort();
        let mut by_done = g.clone();
        by_done.sort_by_key(|i| lks[i].done_ev.unwrap_or(usize::MAX));
        for (i, (_, p, _)) in by_done.iter().zip(ports.iter()) {
            lks.get_mut(i).unwrap().done_port = Some(*p);
        }
    }

    // ---- op lines in observed order ----
    #[derive(PartialEq, Eq, PartialOrd, Ord)]
    enum Step {
        Lookup(usize),
        AtServer(usize),
        Done(usize),
    }
    let mut steps: Vec<(usize, Step)> = vec![];
    for (i, l) in &lks {
        steps.push((l.start_ev, Step::Lookup(*i)));
        if let (None, Some(d)) = (&l.pre_hit, l.done_ev) {
            steps.push((d, Step::Done(*i)));
        }
    }
    for (k, q) in qs.iter().enumerate() {
        if let Some(ev) = q.at_server_ev {
            // the server answers in the task the delivery wakes; position = the reply's send, if any
            steps.push((ev, Step::AtServer(k)));
        }
    }
    steps.sort();
    let mut reordered = false;
    let mut dropped: Vec<(usize, u16, usize)> = vec![];
    let mut last_done_port: BTreeMap<usize, u16> = BTreeMap::new();
    let (mut n_miss, mut n_hit) = (0, 0);
    for (_, st) in &steps {
        match st {
            Step::Lookup(i) => {
                let l = &lks[i];
                match (&l.pre_hit, l.port) {
                    (Some(a), _) => {
                        n_hit += 1;
                        // what get_host_by_name returned (the cache content seen just before the call, if it never returned)
                        rep.line(format!("lookup {} {} -", l.client, hex(&l.name)), format!("hit {}", l.result.as_ref().unwrap_or(a)));
                    }
                    (None, Some(p)) => {
                        n_miss += 1;
                        let q = qs.iter().find(|q| q.client == l.client && q.port == p).unwrap();
                        rep.line(format!("lookup {} {} {}", l.client, hex(&l.name), l.id.unwrap()), format!("miss {} {}", p, hex(&q.bytes)));
                    }
                    (None, None) => {
                        rep.line(format!("lookup {} {} 0", l.client, hex(&l.name)), "miss-without-query");
                        rep.fail(format!("lookup {} of client {} missed the cache but no query datagram for `{}` left the machine", i, l.client, String::from_utf8_lossy(&l.name)), "miss without a query datagram");
                    }
                }
            }
            Step::AtServer(k) => {
                let q = &qs[*k];
                let t = ob.events[q.at_server_ev.unwrap()].t_us;
                let same_instant_before = qs.iter().filter(|o| o.at_server_ev.map(|e| ob.events[e].t_us == t && e < q.at_server_ev.unwrap()).unwrap_or(false)).count();
                if q.reply.is_none() && case.rogue == "none" && same_instant_before >= 10 {
                    // the datagram reached the server machine while 10 or more connections of the same
                    // instant were waiting to be accepted, and nobody ever answered it: discarded by
                    // the listen backlog (an accepted query the responder cannot answer also gets no
                    // reply; that is `deliver q` -> `reply none` below)
                    rep.line(format!("drop q {} {}", q.client, q.port), "dropped");
                    rep.count("query_dropped_at_server");
                    dropped.push((q.client, q.port, same_instant_before));
                } else {
                    rep.line(format!("deliver q {} {}", q.client, q.port), format!("reply {}", q.reply.as_ref().map(|r| hex(r)).unwrap_or("none".into())));
                }
            }
            Step::Done(i) => {
                let l = &lks[i];
                let Some(p) = l.done_port else { continue };
                let q = qs.iter().find(|q| q.client == l.client && q.port == p).unwrap();
                if let Some(prev) = last_done_port.get(&l.client) {
                    if *prev > p {
                        reordered = true;
                    }
                }
                last_done_port.insert(l.client, p);
                let (rid, rq, ran) = q.reply.as_ref().and_then(|r| split_reply(r)).map(|x| (x.0.to_string(), hex(&x.1), hex(&x.2))).unwrap_or(("-".into(), "-".into(), "-".into()));
                let res = l.result.clone().unwrap_or("-".into());
                if res.starts_with("err") {
                    rep.count(format!("lookup.{}", res));
                    rep.line(format!("deliver r {} {}", l.client, p), format!("fail {}", res));
                } else {
                    rep.line(format!("deliver r {} {}", l.client, p), format!("ok {} id={} q={} an={}", res, rid, rq, ran));
                }
            }
        }
    }
    let mut endl = vec![];
    for c in 0..n {
        let cache: Vec<String> = ob.caches[c].iter().filter_map(|(nm, a)| a.map(|a| format!("{}={}", hex(nm), fmt_ip(a)))).collect();
        endl.push(format!("c{} sent={} cache={}", c, sent_by_client[c], if cache.is_empty() { "-".into() } else { cache.join(",") }));
    }
    rep.line("end", endl.join(" ; "));

    // ---- the oracle: the property, on what was observed ----
    let in_property = |name: &[u8]| !has_delim(name) && registered.contains_key(name) && case.rogue == "none";
    for (i, l) in &lks {
        let nm = String::from_utf8_lossy(&l.name).to_string();
        if !in_property(&l.name) {
            continue;
        }
        let want = fmt_ip(registered[&l.name]);
        match &l.result {
            None => {
                let backlog = dropped.iter().find(|d| d.0 == l.client && Some(d.1) == l.port).map(|d| d.2);
                match backlog {
                    Some(k) if k >= 10 => rep.fail(
                        format!("lookup {} (`{}`) of client {} never completed: its query reached the server machine in the same instant as {} earlier ones and was discarded (the name is registered: {})", i, nm, l.client, k, want),
                        "lookup never completes: query discarded, more than 10 connections pending at the server",
                    ),
                    _ => rep.fail(
                        format!("lookup {} (`{}`, {} bytes) of client {} never completed although the name is registered ({})", i, nm, l.name.len(), l.client, want),
                        "lookup never completes",
                    ),
                }
            }
            Some(r) if r.starts_with("err") => rep.fail(
                format!("client {} got {} for `{}` although the server's record is {}", l.client, r, nm, want),
                "registered name resolves to an error",
            ),
            Some(r) if *r != want => rep.fail(
                format!("client {} resolved `{}` to {} but the server's record is {}", l.client, nm, r, want),
                if BUILTIN.iter().any(|b| b.0.as_bytes() == &l.name[..]) { "wrong address (stand-in name)" } else { "wrong address" },
            ),
            _ => {}
        }
    }
    // echo: the reply consumed on a socket carries id and name of the query sent from it
    if case.rogue == "none" {
        for q in &qs {
            // a query made for a name that carries the delimiter is outside the property (the wire
            // format cannot carry such a name: the server parses the datagram misaligned and echoes
            // what it parsed, which the model predicts byte for byte); judged by the model stream only
            if lks.values().any(|l| l.client == q.client && l.port == Some(q.port) && has_delim(&l.name)) {
                continue;
            }
            if let Some(r) = &q.reply {
                match split_reply(r) {
                    Some((id, qn, an, _)) => {
                        if id != q.id || qn != q.name || an != q.name {
                            rep.fail(format!("reply to client {} port {} carries id {} / names {:?} {:?}, its query had id {} / name {:?}", q.client, q.port, id, qn, an, q.id, q.name), "reply does not echo its query");
                        }
                    }
                    None => rep.fail(format!("reply to client {} port {} is not a DNS message", q.client, q.port), "unparsable reply"),
                }
            }
        }
    }
    // cache: after the first success for (client, name) nothing more is sent for it and later
    // lookups return the same address at once
    let mut first_ok: BTreeMap<(usize, Vec<u8>), (usize, String)> = BTreeMap::new();
    for i in &order {
        let l = &lks[i];
        if let (Some(d), Some(r)) = (l.done_ev, &l.result) {
            if !r.starts_with("err") {
                let e = first_ok.entry((l.client, l.name.clone())).or_insert((d, r.clone()));
                if d < e.0 {
                    *e = (d, r.clone());
                }
            }
        }
    }
    for i in &order {
        let l = &lks[i];
        if let Some((d0, a0)) = first_ok.get(&(l.client, l.name.clone())) {
            if l.start_ev > *d0 {
                let quiet = l.done_ev == Some(l.start_ev + 1);
                if l.result.as_deref() != Some(a0.as_str()) || !quiet {
                    rep.fail(
                        format!("client {} had resolved `{}` to {}, a later lookup returned {:?} and was {}answered at once from the cache", l.client, String::from_utf8_lossy(&l.name), a0, l.result, if quiet { "" } else { "NOT " }),
                        "cache not used after success",
                    );
                }
            }
        }
    }
    for q in &qs {
        // any query frame for a name the client had already resolved
        let full: Vec<&Lk> = lks.values().filter(|l| l.client == q.client && l.port == Some(q.port)).collect();
        let _ = &full;
        if let Some(l) = full.first() {
            if let Some((d0, _)) = first_ok.get(&(l.client, l.name.clone())) {
                if q.send_ev > *d0 && l.start_ev > *d0 {
                    rep.fail(format!("client {} sent a query for `{}` after it had resolved that name", q.client, String::from_utf8_lossy(&l.name)), "query sent after success");
                }
            }
        }
    }
    match &ob.end {
        RunEnd::AllDone => {}
        RunEnd::Stuck => rep.count("end.stuck"),
        RunEnd::Returned(s) => rep.count(format!("end.returned.{}", s)),
    }
    rep.count_n("lookups.hit", n_hit);
    rep.count_n("lookups.miss", n_miss);
    rep.count(format!("clients.{}", n));
    rep.count(format!("arp.{}", case.arp as u8));
    rep.count(format!("rogue.{}", case.rogue));
    for (nm, _) in &case.records {
        rep.count(format!("namelen.{}", match nm.len() { 0..=23 => "<24", 24 => "24", 25 => "25", 26..=40 => "26-40", _ => ">40" }));
    }
    // measured: which kinds of confusable pairs the record set holds (names with different addresses)
    {
        let mut kinds: Vec<&str> = vec![];
        let recs: Vec<(&Vec<u8>, [u8; 4])> = registered.iter().map(|(k, v)| (k, *v)).collect();
        for (i, (a, aa)) in recs.iter().enumerate() {
            for (b, ba) in recs.iter().skip(i + 1) {
                if aa == ba {
                    continue;
                }
                let (sa, sb) = (String::from_utf8_lossy(a).to_string(), String::from_utf8_lossy(b).to_string());
                let before = kinds.len();
                if a.eq_ignore_ascii_case(b) {
                    kinds.push("pair.ascii_case");
                } else if sa.to_lowercase() == sb.to_lowercase() {
                    kinds.push("pair.unicode_case");
                }
                let (short, long) = if a.len() <= b.len() { (a, b) } else { (b, a) };
                if long.starts_with(short) {
                    kinds.push(if long.len() == short.len() + 1 && long.last() == Some(&b'.') { "pair.trailing_dot" } else { "pair.prefix" });
                }
                if a.len() == b.len() && a.iter().zip(b.iter()).filter(|(x, y)| x != y).count() == 1 {
                    kinds.push(if a[..a.len() - 1] == b[..b.len() - 1] { "pair.last_byte" } else if a[1..] == b[1..] { "pair.first_byte" } else { "pair.one_byte" });
                }
                if kinds.len() > before && BUILTIN.iter().any(|x| x.0.as_bytes() == &a[..] || x.0.as_bytes() == &b[..]) {
                    kinds.push("pair.with_standin");
                }
            }
        }
        kinds.sort();
        kinds.dedup();
        for k in kinds {
            rep.count(format!("records.{}", k));
        }
    }
    if reordered {
        rep.count("reordered_replies");
    }
    rep.nontrivial = n_miss >= 2 && n_hit >= 1 && (n >= 2 || reordered);
}

fn run_one_case(spec: &str) -> CaseReport {
    if let Some(l) = spec.lines().find(|l| l.starts_with("mt ")) {
        return run_mt_case(l);
    }
    let mut rep = CaseReport::default();
    let Some(case) = Case::from_lines(spec.lines()) else {
        rep.line("cfg", "bad-case");
        return rep;
    };
    for l in case.to_lines() {
        let head = l.split_whitespace().next().unwrap_or("").to_string();
        rep.line(l, head);
    }
    let ob = run_real(&case);
    analyse(&case, &ob, &mut rep);
    rep
}

// ------------------------------------------------------------------------------------------
// generator
// ------------------------------------------------------------------------------------------

fn gen_name(rng: &mut Rng, long_ok: bool) -> Vec<u8> {
    let len = match rng.below(10) {
        0 => 1,
        1 => 24,
        2 => 25,
        3 => rng.range(26, 60),
        4 => 60,
        _ => rng.range(2, 23),
    } as usize;
    let len = if long_ok { len } else { len.min(24) };
    if rng.chance(1, 8) {
        // multi-byte UTF-8, still without the delimiter
        let pool = ["é", "ß", "名", "前", "→", "😀", "a", "z", ".", "-"];
        let mut s = String::new();
        while s.len() < len {
            let p = *rng.pick(&pool);
            if s.len() + p.len() > len.max(4) {
                break;
            }
            s.push_str(p);
        }
        if s.is_empty() {
            s.push('x');
        }
        return s.into_bytes();
    }
    (0..len).map(|_| rng.range(0x21, 0x7e) as u8).collect()
}

fn pick_opt(rng: &mut Rng, v: &[usize]) -> Option<usize> {
    if v.is_empty() {
        None
    } else {
        Some(v[rng.below(v.len() as u64) as usize])
    }
}

/// A name that is easily confused with `base` but is a different name (different bytes): the
/// property says each registered name resolves to ITS address, so a server that identifies two of
/// these (case folding, trimming, prefix matching, normalising, truncating) answers one of them
/// with the other's record.  `None` when the drawn variation does not apply to this name.
fn confusable_variant(rng: &mut Rng, base: &[u8]) -> Option<Vec<u8>> {
    let s = String::from_utf8(base.to_vec()).ok()?;
    let ascii_letters: Vec<usize> = (0..base.len()).filter(|i| base[*i].is_ascii_alphabetic()).collect();
    let ascii_pos: Vec<usize> = (0..base.len()).filter(|i| base[*i].is_ascii()).collect();
    let bounds: Vec<usize> = (1..s.len()).filter(|i| s.is_char_boundary(*i)).collect();
    let mut v = base.to_vec();
    match rng.below(16) {
        // ---- letter case only ----
        0 => v = s.to_ascii_uppercase().into_bytes(),
        1 => v = s.to_ascii_lowercase().into_bytes(),
        2 => {
            let i = *ascii_letters.first()?;
            v[i] ^= 0x20;
        }
        3 => {
            let i = pick_opt(rng, &ascii_letters)?;
            v[i] ^= 0x20;
        }
        // Unicode case (é / É, ß / SS …)
        4 => v = if rng.chance(1, 2) { s.to_uppercase() } else { s.to_lowercase() }.into_bytes(),
        // ---- trailing / leading dot ----
        5 | 6 => {
            if v.last() == Some(&b'.') {
                v.pop();
            } else {
                v.push(b'.');
            }
        }
        7 => v.insert(0, b'.'),
        // ---- one character differs ----
        8 => {
            let i = pick_opt(rng, &ascii_pos)?;
            v[i] = rng.range(0x21, 0x7e) as u8;
        }
        // neighbouring code: l/1, O/0, m/n …
        9 => {
            let i = pick_opt(rng, &ascii_pos)?;
            v[i] = if v[i] < 0x7e && rng.chance(1, 2) { v[i] + 1 } else { v[i].wrapping_sub(1) };
        }
        // ---- one a prefix of the other ----
        10 => {
            let k = pick_opt(rng, &bounds)?;
            v.truncate(k);
        }
        11 => v.push(rng.range(0x21, 0x7e) as u8),
        12 => {
            let suffixes: [&[u8]; 6] = [b".com", b".local", b"x", b"-1", b"0", b".example"];
            let sfx: &[u8] = *rng.pick(&suffixes[..]);
            v.extend_from_slice(sfx);
        }
        // ---- equal up to the byte next to the delimiter (0x20) on the wire ----
        13 => {
            // last byte of the name: the delimiter's neighbours in value, and control bytes
            let last = v.len() - 1;
            let b = *rng.pick(&[0x21u8, 0x1f, 0x7f, 0x00, 0x22, 0x5f]);
            if v[last].is_ascii() && rng.chance(1, 2) {
                v[last] = b;
            } else {
                v.push(b);
            }
        }
        14 => {
            // first byte of the name (the byte next to the header)
            let b = *rng.pick(&[0x21u8, 0x1f, 0x00, 0x01]);
            if v[0].is_ascii() && rng.chance(1, 2) {
                v[0] = b;
            } else {
                v.insert(0, b);
            }
        }
        // two characters swapped
        _ => {
            if ascii_pos.len() < 2 {
                return None;
            }
            let i = rng.below(ascii_pos.len() as u64 - 1) as usize;
            v.swap(ascii_pos[i], ascii_pos[i + 1]);
        }
    }
    if v.is_empty() || v == base || has_delim(&v) || String::from_utf8(v.clone()).is_err() {
        return None;
    }
    Some(v)
}

/// A set of 2..5 pairwise different names that are confusable with each other (chains of
/// variations of one base name), each with an address of its own.
fn gen_confusable_records(rng: &mut Rng, long_ok: bool) -> Vec<(Vec<u8>, [u8; 4])> {
    let cap = if long_ok { 60 } else { 24 };
    let base: Vec<u8> = match rng.below(10) {
        // the stand-in names of DnsServer::start
        0 | 1 => BUILTIN[rng.below(2) as usize].0.as_bytes().to_vec(),
        2 | 3 => {
            let pool: [&[u8]; 11] = [b"Mail.example", b"mail.example", b"a", b"Ab", b"host-1.lan", b"WWW.Example.COM", b"xn--nme-5ia.test", "é.example".as_bytes(), "Straße.de".as_bytes(), b"a.b", b"Z"];
            rng.pick(&pool).to_vec()
        }
        4 => {
            // at the recv(80) boundary: variations shorter, equal and longer than 24 / 25 bytes
            let mut v: Vec<u8> = (0..if long_ok { rng.range(23, 25) } else { rng.range(22, 23) }).map(|_| rng.range(b'a' as u64, b'z' as u64) as u8).collect();
            v[0] = b'K';
            v
        }
        _ => {
            // a random name with at least one letter in it
            let mut v = gen_name(rng, false);
            v.truncate(20);
            while String::from_utf8(v.clone()).is_err() {
                v.pop();
            }
            if v.is_empty() || !v.iter().any(|b| b.is_ascii_alphabetic()) {
                v.push(rng.range(b'a' as u64, b'z' as u64) as u8);
            }
            v
        }
    };
    let want = rng.range(2, 5) as usize;
    let mut names = vec![base];
    let mut tries = 0;
    while names.len() < want && tries < 200 {
        tries += 1;
        let from = rng.pick(&names).clone();
        if let Some(v) = confusable_variant(rng, &from) {
            if v.len() <= cap && !names.contains(&v) {
                names.push(v);
            }
        }
    }
    // the base of a stand-in family is sometimes left to the server's own record
    if names.len() > 2 && BUILTIN.iter().any(|b| b.0.as_bytes() == &names[0][..]) && rng.chance(1, 2) {
        names.remove(0);
    }
    // registration order is arbitrary
    for i in (1..names.len()).rev() {
        let j = rng.below(i as u64 + 1) as usize;
        names.swap(i, j);
    }
    let mut records: Vec<(Vec<u8>, [u8; 4])> = vec![];
    for nm in names {
        let a = loop {
            let b = rng.bytes(4);
            let a = [b[0], b[1], b[2], b[3]];
            if !records.iter().any(|r| r.1 == a) && !BUILTIN.iter().any(|x| x.1 == a) {
                break a;
            }
        };
        records.push((nm, a));
    }
    records
}

fn gen(rng: &mut Rng, long_ok: bool) -> Case {
    let kind = rng.below(100);
    let confusable = rng.chance(2, 5);
    let n_rec = rng.range(1, 6) as usize;
    let mut records: Vec<(Vec<u8>, [u8; 4])> = if confusable { gen_confusable_records(rng, long_ok) } else { vec![] };
    let n_rec = if confusable { records.len() + rng.below(2) as usize } else { n_rec };
    while records.len() < n_rec {
        let nm = gen_name(rng, long_ok);
        if records.iter().any(|r| r.0 == nm) || BUILTIN.iter().any(|b| b.0.as_bytes() == &nm[..]) {
            continue;
        }
        let b = rng.bytes(4);
        records.push((nm, [b[0], b[1], b[2], b[3]]));
    }
    if rng.chance(1, 10) {
        // the stand-in names of DnsServer::start, registered with other addresses
        let b = rng.bytes(4);
        records.push((BUILTIN[rng.below(2) as usize].0.as_bytes().to_vec(), [b[0], b[1], b[2], b[3]]));
    }
    if rng.chance(1, 10) {
        // the same name registered twice: the later registration is the record
        let b = rng.bytes(4);
        let nm = records[0].0.clone();
        records.push((nm, [b[0], b[1], b[2], b[3]]));
    }
    let many = kind >= 98; // many client machines, one or two lookups each, spread over time
    let clients = if many {
        rng.range(12, 30)
    } else {
        match rng.below(10) {
            0..=2 => 1,
            3..=7 => rng.range(2, 4),
            _ => rng.range(5, 6),
        }
    } as usize;
    let mut names: Vec<Vec<u8>> = records.iter().map(|r| r.0.clone()).collect();
    if rng.chance(1, 4) {
        names.push(BUILTIN[rng.below(2) as usize].0.as_bytes().to_vec());
    }
    let same_instant = rng.chance(1, 3);
    let mut plan = vec![];
    for c in 0..clients {
        let k = if many { rng.range(1, 2) } else { rng.range(1, 8) };
        for _ in 0..k {
            let at = if many {
                // at most 8 queries share an instant: below the server's listen backlog
                1000 * (c as u64 / 8) + rng.below(2) * 700_000
            } else if same_instant { 1000 } else { *rng.pick(&[0u64, 1000, 1000, 5000, 20_000, 100_000, 400_000, 1_500_000]) + rng.below(3) * 500 };
            plan.push((c, at, rng.pick(&names).clone()));
        }
    }
    if confusable {
        // every name of a confusable set is asked for at least once (a collision of two records is
        // visible only at the name that lost its record), at instants of their own
        let missing: Vec<Vec<u8>> = records.iter().map(|r| r.0.clone()).filter(|nm| !plan.iter().any(|p| &p.2 == nm)).collect();
        for (i, nm) in missing.into_iter().enumerate() {
            let c = rng.below(clients as u64) as usize;
            plan.push((c, 2_000 + i as u64 * 3_000 + rng.below(3) * 500, nm));
        }
    }
    let mut rogue = "none".to_string();
    if kind < 6 {
        // one lookup outside the property: an unregistered name, or a name carrying the delimiter
        let c = rng.below(clients as u64) as usize;
        let nm = if rng.chance(1, 2) {
            b"no.such.name".to_vec()
        } else {
            // the delimiter at a character boundary of a registered name
            let base = String::from_utf8(records[0].0.clone()).expect("generated names are UTF-8");
            let cuts: Vec<usize> = (0..=base.len()).filter(|i| base.is_char_boundary(*i)).collect();
            let mut v = base.into_bytes();
            v.insert(*rng.pick(&cuts), b' ');
            v
        };
        plan.push((c, *rng.pick(&[0u64, 3000, 250_000]), nm));
    } else if kind < 10 {
        rogue = rng.pick(&["id", "qname", "name", "addr", "short"]).to_string();
    }
    plan.sort_by_key(|p| p.1);
    Case {
        arp: rng.chance(2, 3),
        conns: u16::MAX,
        dseed: rng.next() % 1_000_000,
        dmax: *rng.pick(&[0u64, 2000, 30_000, 30_000, 90_000]),
        lat: *rng.pick(&[0u64, 1000, 1000, 10_000]),
        rogue,
        records,
        clients,
        plan,
    }
}

/// fixed cases run before the generated ones
fn fixed_cases() -> Vec<Case> {
    let nm = |s: &str| s.as_bytes().to_vec();
    vec![
        // dns_basic's shape: one connection, the stand-in name
        Case { arp: true, conns: 1, dseed: 1, dmax: 0, lat: 0, rogue: "none".into(), records: vec![], clients: 1, plan: vec![(0, 0, nm("testserver.com"))] },
        // F-C20-1: a registered name of 25 bytes (query datagram of 82 bytes)
        Case { arp: true, conns: u16::MAX, dseed: 1, dmax: 0, lat: 1000, rogue: "none".into(), records: vec![(nm("abcdefghijklmnopqrstuvwxy"), [10, 9, 8, 7])], clients: 1, plan: vec![(0, 0, nm("abcdefghijklmnopqrstuvwxy")), (0, 500_000, nm("abcdefghijklmnopqrstuvwxy"))] },
        // F-C20-2: a stand-in name registered with another address
        Case { arp: false, conns: u16::MAX, dseed: 1, dmax: 0, lat: 1000, rogue: "none".into(), records: vec![(nm("google.com"), [9, 9, 9, 9])], clients: 2, plan: vec![(0, 0, nm("google.com")), (1, 0, nm("google.com")), (1, 300_000, nm("google.com"))] },
        // F-C20-3: 12 clients, one query each, all reaching the server in the same instant
        Case { arp: false, conns: u16::MAX, dseed: 1, dmax: 0, lat: 1000, rogue: "none".into(), records: vec![(nm("burst.example"), [10, 1, 2, 3])], clients: 12, plan: (0..12).map(|c| (c, 1000, nm("burst.example"))).collect() },
    ]
}

// ------------------------------------------------------------------------------------------
// run `mt`: one client, many concurrent tasks, real multi-thread runtime (oracle only)
// ------------------------------------------------------------------------------------------
//
// The paused current_thread runs above cannot show anything that needs two threads inside the
// client at once.  Here ONE client machine runs on `multi_thread(workers)`:
//   phase 1  the `warm` names are resolved one after the other (each: one query on the wire);
//   phase 2  `readers` tasks look the warm names up over and over (every one of these lookups is
//            "a further lookup after a successful resolution": answered from the cache, nothing
//            on the wire) WHILE `resolvers` tasks resolve a stream of `fresh` names, each exactly
//            once (every completion inserts into the cache the readers are reading) and then look
//            their name up three more times.
// Oracle (frame log of the network hook + what the calls returned; no clock involved):
//   * every lookup returns the registered address;
//   * per name exactly one query frame, i.e. no query frame for a name after its first
//     successful resolution.
// The run ends when the resolvers are through (however long that takes on a loaded machine);
// a wall-clock guard of 100 s only turns a hang into an outcome.

#[derive(Clone, Debug)]
struct MtCase {
    workers: usize,
    warm: usize,
    fresh: usize,
    readers: usize,
    resolvers: usize,
    lat: u64,
    seed: u64,
    /// > 0: the resolver tasks start each of their lookups together (a barrier of `resolvers`
    /// tasks): lookups of one machine that begin in the same instant on different threads
    lockstep: bool,
}

impl MtCase {
    fn to_line(&self) -> String {
        format!("mt workers={} warm={} fresh={} readers={} resolvers={} lat={} seed={}{}", self.workers, self.warm, self.fresh, self.readers, self.resolvers, self.lat, self.seed, if self.lockstep { " lockstep=1" } else { "" })
    }
    fn parse(line: &str) -> Option<MtCase> {
        let mut c = MtCase { workers: 4, warm: 64, fresh: 100, readers: 4, resolvers: 3, lat: 0, seed: 1, lockstep: false };
        let mut w = line.split_whitespace();
        if w.next()? != "mt" {
            return None;
        }
        for kv in w {
            let (k, v) = kv.split_once('=')?;
            match k {
                "workers" => c.workers = v.parse().ok()?,
                "warm" => c.warm = v.parse().ok()?,
                "fresh" => c.fresh = v.parse().ok()?,
                "readers" => c.readers = v.parse().ok()?,
                "resolvers" => c.resolvers = v.parse().ok()?,
                "lat" => c.lat = v.parse().ok()?,
                "seed" => c.seed = v.parse().ok()?,
                "lockstep" => c.lockstep = v == "1",
                _ => {}
            }
        }
        if c.lockstep && 2 * c.resolvers > c.workers {
            return None;
        }
        if c.workers == 0 || c.warm == 0 || c.readers == 0 || c.resolvers == 0 || c.resolvers > 8 || c.warm + c.fresh > 15000 {
            // more than 10 queries pending at the server is F-C20-3, 16 384 sockets F-C20-4
            return None;
        }
        Some(c)
    }
    fn warm_name(&self, i: usize) -> String {
        format!("w{:03}.s{}.warm.example", i, self.seed % 1000)
    }
    fn fresh_name(&self, i: usize) -> String {
        format!("f{:05}.s{}.fresh.example", i, self.seed % 1000)
    }
    fn addr_of(&self, name: &str) -> [u8; 4] {
        let h = name.bytes().fold(self.seed.wrapping_mul(0x9e3779b97f4a7c15), |h, b| (h ^ b as u64).wrapping_mul(0x100000001b3));
        [10 + (h >> 40) as u8 % 200, (h >> 16) as u8, (h >> 8) as u8, h as u8]
    }
}

struct MtShared {
    case: MtCase,
    log: Arc<Log>,
    done: Notify,
    next_fresh: AtomicUsize,
    arrived: AtomicUsize,
    stop: std::sync::atomic::AtomicBool,
    lookups: std::sync::atomic::AtomicU64,
    /// lookups that did not return the registered address: (name, what came back)
    wrong: Mutex<Vec<(String, String)>>,
    n_wrong: AtomicUsize,
}

impl MtShared {
    async fn lookup(&self, dns: &Arc<DnsClient>, machine: &Arc<Machine>, name: &str) -> bool {
        let r = dns.get_host_by_name(name.to_string(), machine.clone()).await;
        self.lookups.fetch_add(1, Ordering::Relaxed);
        let want = self.case.addr_of(name);
        match r {
            Ok(a) if a.to_bytes() == want => true,
            other => {
                self.n_wrong.fetch_add(1, Ordering::SeqCst);
                let mut w = self.wrong.lock().unwrap();
                if w.len() < 8 {
                    w.push((name.to_string(), match other {
                        Ok(a) => fmt_ip(a.to_bytes()),
                        Err(DnsClientError::Cache) => "err:Cache".into(),
                        Err(DnsClientError::Other) => "err:Other".into(),
                    }));
                }
                false
            }
        }
    }
}

struct MtDriver {
    sh: Arc<MtShared>,
}

#[async_trait::async_trait]
impl Protocol for MtDriver {
    async fn start(&self, _s: Shutdown, initialized: Arc<Barrier>, machine: Arc<Machine>) -> Result<(), StartError> {
        initialized.wait().await;
        let sh = self.sh.clone();
        tokio::spawn(async move {
            let dns = machine.protocol::<DnsClient>().expect("client machine has DnsClient");
            let c = sh.case.clone();
            // phase 1: first resolution of every warm name, one at a time
            for i in 0..c.warm {
                let name = c.warm_name(i);
                let ok = sh.lookup(&dns, &machine, &name).await;
                sh.log.push(Ev::Note(format!("M first {} {}", name, ok as u8)));
            }
            sh.log.push(Ev::Note("M phase2".into()));
            let mut tasks = vec![];
            for r in 0..c.readers {
                let (sh, dns, machine, c) = (sh.clone(), dns.clone(), machine.clone(), c.clone());
                tasks.push(tokio::spawn(async move {
                    let mut rng = Rng::new(c.seed ^ (0xead0 + r as u64));
                    let names: Vec<String> = (0..c.warm).map(|i| c.warm_name(i)).collect();
                    let mut k = rng.below(c.warm as u64) as usize;
                    let stride = *rng.pick(&[1usize, 7, 11, 13, 17, 19, 23]);
                    while !sh.stop.load(Ordering::Relaxed) {
                        for _ in 0..512 {
                            k = (k + stride) % names.len();
                            sh.lookup(&dns, &machine, &names[k]).await;
                        }
                        tokio::task::yield_now().await;
                    }
                }));
            }
            let mut res = vec![];
            let gate = Arc::new(Barrier::new(c.resolvers));
            for k in 0..c.resolvers {
                let (sh, dns, machine, c, gate) = (sh.clone(), dns.clone(), machine.clone(), c.clone(), gate.clone());
                res.push(tokio::spawn(async move {
                    let mut round = 0usize;
                    loop {
                        let i = if c.lockstep {
                            // task k resolves names k, k + R, k + 2R, ...; all tasks start each
                            // round together
                            let i = round * c.resolvers + k;
                            if (round + 1) * c.resolvers > c.fresh {
                                break;
                            }
                            gate.wait().await;
                            // ... and leave the gate within the same few hundred nanoseconds, on
                            // different threads: spin until everybody is through the barrier
                            // (bounded: after a while the task yields, so a worker is never held)
                            let target = (round + 1) * c.resolvers;
                            sh.arrived.fetch_add(1, Ordering::SeqCst);
                            let mut spins = 0u32;
                            while sh.arrived.load(Ordering::Acquire) < target {
                                std::hint::spin_loop();
                                spins += 1;
                                if spins % 50_000 == 0 {
                                    tokio::task::yield_now().await;
                                }
                            }
                            sh.next_fresh.fetch_add(1, Ordering::SeqCst);
                            i
                        } else {
                            sh.next_fresh.fetch_add(1, Ordering::SeqCst)
                        };
                        round += 1;
                        if i >= c.fresh {
                            break;
                        }
                        let name = c.fresh_name(i);
                        let ok = sh.lookup(&dns, &machine, &name).await;
                        sh.log.push(Ev::Note(format!("M first {} {}", name, ok as u8)));
                        for _ in 0..3 {
                            sh.lookup(&dns, &machine, &name).await;
                        }
                    }
                }));
            }
            for t in res {
                let _ = t.await;
            }
            sh.stop.store(true, Ordering::SeqCst);
            for t in tasks {
                let _ = t.await;
            }
            sh.log.push(Ev::Note("M end".into()));
            sh.done.notify_one();
        });
        Ok(())
    }
    fn demux(&self, _m: Message, _c: Arc<dyn Session>, _k: Control, _ma: Arc<Machine>) -> Result<(), DemuxError> {
        Ok(())
    }
}

fn run_mt_case(line: &str) -> CaseReport {
    let mut rep = CaseReport::default();
    let Some(case) = MtCase::parse(line) else {
        rep.line(line, "bad-case");
        return rep;
    };
    rep.line(case.to_line(), "mt");
    let machines = vec![
        MachineSpec { nets: vec![0], arp: false, udp: true, tcp: true, sockets: false, routes: vec![Route { addr: u32::from_be_bytes(client_ip(0)), mask_len: 32, slot: 0, mac: Some(1) }], apps: vec![] },
        MachineSpec { nets: vec![0], arp: false, udp: true, tcp: true, sockets: false, routes: vec![Route { addr: 0, mask_len: 0, slot: 0, mac: Some(0) }], apps: vec![] },
    ];
    let sc = Scenario { nets: vec![NetSpec { mtu: None, lat_us: (case.lat, 0), thr: (0, 0) }], machines, mode: RtMode::MultiThread(case.workers), duration_us: 0 };
    let shared: Mutex<Option<Arc<MtShared>>> = Mutex::new(None);
    let extra = |idx: usize, m: Machine, log: &Arc<Log>| -> Machine {
        if idx == 0 {
            let srv = DnsServer::new(u16::MAX);
            for i in 0..case.warm {
                let n = case.warm_name(i);
                srv.add_mapping(n.clone(), Ipv4Address::new(case.addr_of(&n)));
            }
            for i in 0..case.fresh {
                let n = case.fresh_name(i);
                srv.add_mapping(n.clone(), Ipv4Address::new(case.addr_of(&n)));
            }
            m.with(SocketAPI::new(Some(Ipv4Address::new(SERVER_ADDR)))).with(srv)
        } else {
            let sh = Arc::new(MtShared {
                case: case.clone(),
                log: log.clone(),
                done: Notify::new(),
                next_fresh: AtomicUsize::new(0),
                arrived: AtomicUsize::new(0),
                stop: std::sync::atomic::AtomicBool::new(false),
                lookups: std::sync::atomic::AtomicU64::new(0),
                wrong: Mutex::new(vec![]),
                n_wrong: AtomicUsize::new(0),
            });
            *shared.lock().unwrap() = Some(sh.clone());
            m.with(SocketAPI::new(Some(Ipv4Address::new(client_ip(0))))).with(DnsClient::new()).with(MtDriver { sh })
        }
    };
    let built = build(&sc, None, &extra);
    let sh = shared.lock().unwrap().clone().expect("client machine built");
    let log = built.log.clone();
    let ms = built.machines.clone();
    let sh2 = sh.clone();
    let end = block_on_mode(RtMode::MultiThread(case.workers), async move {
        log.start_clock();
        tokio::select! {
            st = elvis_core::run_internet(&ms, None) => RunEnd::Returned(fmt_status(&st)),
            _ = async {
                sh2.done.notified().await;
                tokio::time::sleep(Duration::from_millis(20)).await;
            } => RunEnd::AllDone,
            _ = tokio::time::sleep(Duration::from_secs(100)) => RunEnd::Stuck,
        }
    });
    for nw in &built.networks {
        nw.verif_set_hook(None);
    }
    let events = built.log.snapshot();
    // query frames per name, in log order (the log order of frames and of the `M first` notes is
    // their real order: both are appended under the log's lock)
    let mut queries: BTreeMap<String, Vec<usize>> = BTreeMap::new();
    let mut first_ok: BTreeMap<String, usize> = BTreeMap::new();
    let mut first_failed = 0u64;
    for e in &events {
        match &e.ev {
            Ev::Wire { to: None, target: Target::Ipv4, bytes, .. } => {
                if let Some((src, _, _, dp, payload)) = parse_udp(bytes) {
                    if dp == 53 && src == client_ip(0) {
                        if let Some((_, qn)) = split_query(&payload) {
                            queries.entry(String::from_utf8_lossy(&qn).to_string()).or_default().push(e.id);
                        }
                    }
                }
            }
            Ev::Note(n) => {
                let w: Vec<&str> = n.split_whitespace().collect();
                if let ["M", "first", name, ok] = w.as_slice() {
                    if *ok == "1" {
                        first_ok.entry(name.to_string()).or_insert(e.id);
                    } else {
                        first_failed += 1;
                    }
                }
            }
            _ => {}
        }
    }
    let total_lookups = sh.lookups.load(Ordering::SeqCst);
    rep.count_n("mt.lookups", total_lookups);
    rep.count_n("mt.names-resolved", first_ok.len() as u64);
    rep.count_n("mt.query-frames", queries.values().map(|v| v.len() as u64).sum());
    rep.count(format!("mt.workers.{}", case.workers));
    let mut ok = true;
    match &end {
        RunEnd::AllDone => rep.count("mt.end.all-done"),
        RunEnd::Returned(s) => {
            ok = false;
            rep.fail(format!("the simulation returned ({}) before the client's lookups were through in `{}`", s, case.to_line()), "mt run-returned-early");
        }
        RunEnd::Stuck => {
            ok = false;
            let started = sh.next_fresh.load(Ordering::SeqCst).min(case.fresh);
            rep.fail(
                format!("lookups never completed: {} of {} warm and about {} of {} fresh names resolved after 100 s, {} query frames sent in `{}`", first_ok.keys().filter(|k| k.starts_with('w')).count(), case.warm, started, case.fresh, queries.values().map(|v| v.len()).sum::<usize>(), case.to_line()),
                "mt lookups-never-complete",
            );
        }
    }
    // (1) every lookup returned the registered address
    let n_wrong = sh.n_wrong.load(Ordering::SeqCst);
    if n_wrong > 0 || first_failed > 0 {
        ok = false;
        let w = sh.wrong.lock().unwrap().clone();
        let (name, got) = w.first().cloned().unwrap_or_default();
        let after = if first_ok.contains_key(&name) { " although this client had already resolved the name" } else { "" };
        rep.fail(
            format!("{} of {} lookups did not return the registered address: e.g. `{}` (registered {}) returned {}{}; in `{}`", n_wrong, total_lookups, name, fmt_ip(case.addr_of(&name)), got, after, case.to_line()),
            if got.starts_with("err") { "mt lookup-failed-for-registered-name" } else { "mt lookup-wrong-address" },
        );
    }
    // (2) nothing on the wire for a name after its first successful resolution
    let mut late_frames = 0u64;
    let mut example: Option<(String, usize, usize, usize)> = None;
    for (name, first) in &first_ok {
        let qs = queries.get(name).cloned().unwrap_or_default();
        let late: Vec<usize> = qs.iter().copied().filter(|q| q > first).collect();
        if !late.is_empty() {
            late_frames += late.len() as u64;
            if example.is_none() {
                example = Some((name.clone(), qs.len(), *first, late[0]));
            }
        }
    }
    rep.count_n("mt.query-frames-after-success", late_frames);
    if let Some((name, n, first, late)) = example {
        ok = false;
        let kind = if name.starts_with('w') { "a name resolved before the concurrent phase and looked up repeatedly since" } else { "a name this task had just resolved" };
        rep.fail(
            format!(
                "{} query frames were put on the network for names the client had already resolved: e.g. `{}` ({}) was resolved at log position {} and queried again at position {} ({} query frames for it in all; {} lookups by {} reader and {} resolver tasks on multi_thread({})) in `{}`",
                late_frames, name, kind, first, late, n, total_lookups, case.readers, case.resolvers, case.workers, case.to_line()
            ),
            "mt query-after-successful-resolution",
        );
    }
    if ok {
        rep.count("oracle.ok");
    }
    rep.nontrivial = total_lookups > 1000 && first_ok.len() > case.warm;
    rep
}

const RULE_MT: &str = "one client machine and the authoritative server on a real multi_thread runtime (4 / 8 / 16 workers), static MACs, no loss; three of four cases: 48..160 warm names resolved one after the other, then 3..12 reader tasks looking the warm names up in batches of 512 (each a lookup after a successful resolution: cache only) while 2..4 resolver tasks resolve a stream of 150..400 fresh names (each exactly once; every completion inserts into the cache being read) and look each up three more times; every fourth case: 4..6 resolver tasks on 16 workers that leave a spinning gate together before each of 4000..6000 lookups (lookups of one machine beginning within a few hundred nanoseconds on different threads); oracle from the frame log and the returned values only (no clock): every lookup returns the registered address, no query frame for a name after its first successful resolution; non-trivial = more than 1000 lookups and at least one fresh name resolved; distinct = hash of the case line";

fn gen_mt(rng: &mut Rng, i: u64) -> MtCase {
    if i % 4 == 3 {
        // lookups of ONE machine that begin within the same few hundred nanoseconds on different
        // threads (the resolver tasks leave a spinning gate together before every lookup): what
        // a machine hands out per lookup -- socket, ephemeral port, session -- must be handed out
        // once.  16 workers, so that the gated tasks (at most 6) never hold all of them.
        return MtCase {
            workers: 16,
            warm: 8,
            fresh: rng.range(4000, 6000) as usize,
            readers: 2,
            resolvers: rng.range(4, 6) as usize,
            lat: 0,
            seed: rng.next() % 1_000_000,
            lockstep: true,
        };
    }
    let workers = [4usize, 8, 16][(i % 3) as usize];
    MtCase {
        workers,
        warm: *rng.pick(&[48usize, 96, 160]),
        fresh: rng.range(150, 400) as usize,
        readers: (workers - 1).min(rng.range(3, 12) as usize),
        resolvers: rng.range(2, 4) as usize,
        lat: *rng.pick(&[0u64, 0, 200]),
        seed: rng.next() % 1_000_000,
        lockstep: false,
    }
}

// ------------------------------------------------------------------------------------------
// parent side
// ------------------------------------------------------------------------------------------

/// model-side name of a panic site (the text of the panicking source line)
fn site_name(text: &str) -> String {
    let t: String = text.chars().filter(|c| !c.is_whitespace()).collect();
    let table = [
        ("DnsMessage::from_bytes(response.iter().cloned()).unwrap()", "panic:unwrap:server_from_bytes"),
        ("DnsMessage::from_bytes(request.iter()).unwrap()", "panic:unwrap:server_from_bytes"),
        ("String::from_utf8(self.qname.clone()).unwrap()", "panic:unwrap:server_query_name"),
        ("DnsServer::respond_to_query(table,socket).await.unwrap()", "panic:unwrap:server_respond_to_query"),
        ("DnsMessage::from_bytes(resp.iter()).unwrap()", "panic:unwrap:client_from_bytes"),
        ("String::from_utf8(res_msg.answer.name).unwrap()", "panic:unwrap:client_from_utf8"),
        ("Ipv4Address::new([rdata[0],rdata[1],rdata[2],rdata[3]])", "panic:index:client_rdata"),
        ("Ok(self.get_mapping(&name).unwrap())", "panic:unwrap:client_get_mapping"),
        ("*self.local_ports.write().unwrap()+=1;", "panic:overflow:ephemeral_port"),
        ("*next_port+=1;", "panic:overflow:ephemeral_port"),
    ];
    for (k, v) in table {
        if t.contains(k) {
            return v.to_string();
        }
    }
    format!("panic:other:{}", t)
}

fn emit_died(case: &Case, o: &CaseOutcome, out: &mut Out) {
    for l in case.to_lines() {
        let head = l.split_whitespace().next().unwrap_or("").to_string();
        out.line(&l, &head);
    }
    let (line, ident) = died_ident(o);
    let site = match o {
        CaseOutcome::Died { hung: false, panic_site: Some((file, ln, _)), .. } => site_name(&source_line_text(file, *ln)),
        _ => line.clone(),
    };
    out.line("expect-died", &format!("died {}", site));
    out.count(&format!("died.{}", site));
    // a death is a property failure when every planned lookup is inside the property
    let registered = case.registered();
    let outside = case.rogue != "none" || case.plan.iter().any(|p| has_delim(&p.2) || !registered.contains_key(&p.2));
    if !outside {
        let longest = case.plan.iter().map(|p| p.2.len()).max().unwrap_or(0);
        let what = format!(
            "the simulation process died ({}) although every looked-up name is registered and delimiter-free (longest name {} bytes)",
            ident, longest
        );
        let id = if site == "panic:unwrap:server_from_bytes" && longest > 24 { "server dies on a registered name longer than 24 bytes".to_string() } else { ident };
        out.fail(&what, &id);
    }
}

pub fn run(args: &Args) {
    if is_worker(args) {
        worker_loop(run_one_case);
        return;
    }
    let mut out = Out::new(&args.out);
    if args.prop == "c20-mt" {
        let specs: Vec<String> = if let Some(rp) = &args.replay {
            read_ops(rp).into_iter().filter(|l| l.starts_with("mt ")).take(1).collect()
        } else {
            let mut rng = Rng::new(args.seed ^ 0x20_c20);
            (0..args.cases).map(|i| gen_mt(&mut rng, i).to_line()).collect()
        };
        // real threads: few cases side by side, so that the workers of one case get cores
        for (i, o) in run_cases(&args.prop, &specs, 2, 2, 150).iter().enumerate() {
            out.begin_case(i as u64);
            match o {
                CaseOutcome::Done(rep) => rep.emit(&mut out),
                died => {
                    out.line(&specs[i], "mt");
                    let (line, ident) = died_ident(died);
                    let cl = format!("crash {}", line);
                    out.line(&cl, &cl);
                    out.mark_nontrivial();
                    let what = if ident.contains("socket.connect(remote_sock_addr).await.unwrap()") {
                        format!("the simulation process died while one client resolved registered names from several tasks at once: the socket of a lookup could not be connected ({}); lookups that begin in the same instant on different threads were given the same ephemeral port (case `{}`)", ident, specs[i])
                    } else {
                        format!("the simulation process died: {} (case `{}`)", ident, specs[i])
                    };
                    out.fail(&what, &ident);
                }
            }
            out.end_case();
        }
        out.finish(RULE_MT);
        return;
    }
    let mut cases: Vec<Case> = vec![];
    if let Some(rp) = &args.replay {
        let lines = read_ops(rp);
        match Case::from_lines(lines.iter().map(|s| s.as_str())) {
            Some(c) => cases.push(c),
            None => {
                eprintln!("c20: replay file holds no case");
                std::process::exit(2);
            }
        }
    } else if args.prop == "c20-ports" {
        // one client resolving `n` distinct registered names one after the other: every miss opens
        // a socket on a new ephemeral port (finding F-C20-4 at the 16 384th)
        let n: usize = args.extra.get("n").and_then(|v| v.parse().ok()).unwrap_or(0);
        if n > 0 {
            let names: Vec<Vec<u8>> = (0..n).map(|i| format!("n{:05}", i).into_bytes()).collect();
            cases.push(Case {
                arp: false,
                conns: u16::MAX,
                dseed: 1,
                dmax: 0,
                lat: 100,
                rogue: "none".into(),
                records: names.iter().enumerate().map(|(i, nm)| (nm.clone(), [10, (i >> 16) as u8, (i >> 8) as u8, i as u8])).collect(),
                clients: 1,
                plan: names.iter().enumerate().map(|(i, nm)| (0, i as u64 * 1000, nm.clone())).collect(),
            });
        }
    } else {
        let long_ok = args.extra.get("long").map(|v| v != "0").unwrap_or(true);
        cases.extend(fixed_cases());
        let mut rng = Rng::new(args.seed);
        for _ in 0..args.cases {
            let mut r = rng.fork();
            cases.push(gen(&mut r, long_ok));
        }
    }
    let specs: Vec<String> = cases.iter().map(|c| c.to_lines().join("\n")).collect();
    let outcomes = run_cases(&args.prop, &specs, default_workers(), 20, 120);
    // at most two listed failures per identity: the list is bounded, and the frequent recorded
    // finding (listen backlog) must not crowd a new failure out of it
    let mut seen: std::collections::HashMap<String, u32> = std::collections::HashMap::new();
    for (i, o) in outcomes.iter().enumerate() {
        out.begin_case(i as u64);
        match o {
            CaseOutcome::Done(rep) => {
                let mut rep = rep.clone();
                rep.fails.retain(|f| {
                    let n = seen.entry(f.1.clone()).or_insert(0);
                    *n += 1;
                    if *n > 2 {
                        out.count("oracle_failures");
                        out.count("oracle_failures_not_listed");
                    }
                    *n <= 2
                });
                rep.emit(&mut out)
            }
            died => emit_died(&cases[i], died, &mut out),
        }
        out.end_case();
    }
    out.finish(RULE);
}
