/-
Model of `std::collections::BinaryHeap<T>` (alloc/src/collections/binary_heap/mod.rs, read from the
installed rust-src; the algorithm has been unchanged for years): a max-heap in a `Vec`,

* `push`  = `data.push(item); sift_up(0, old_len)`
* `pop`   = `data.pop()`, swap the removed last item with `data[0]`, `sift_down_to_bottom(0)`
* `sift_up(start = 0, pos)`: while `pos > 0` and not `elt <= data[parent]`: move the parent down
* `sift_down_to_bottom(0)`: walk the hole down to a leaf, always taking the greater child (the
  RIGHT one when `left <= right`), a lone left child at the end, then `sift_up(0, pos)`
* `peek`  = `data.first()`

parameterised by the element's `<=` (`le`), which need not be a total order: the pop order among
ties (or under a non-transitive `le`) is whatever this algorithm yields, exactly as in std.
std moves a "hole"; here every move is a swap of the hole element with the moved one, which yields
the same array after every `push`/`pop` (the hole element is written back where the hole ends).

Generic and import-free (linked into the native driver; reused by the TCP model).
Theorems about it: `Lemmas/Heap.lean`.
-/
namespace Elvis.Heap
variable {α : Type}

/-- loop of `sift_up(0, pos)`, structurally recursive on `fuel` (`pos ≤ fuel` is always enough:
    the position at least halves in every round) -/
def siftUpF (le : α → α → Bool) : Nat → (d : Array α) → (pos : Nat) → pos < d.size → Array α
  | 0, d, _, _ => d
  | fuel + 1, d, pos, h =>
    if hp : 0 < pos then
      if le d[pos] (d[(pos - 1) / 2]'(by omega)) then d
      else
        siftUpF le fuel (d.swap pos ((pos - 1) / 2) h (by omega)) ((pos - 1) / 2)
          (by rw [Array.size_swap]; omega)
    else d

/-- `sift_up(0, pos)` -/
def siftUp (le : α → α → Bool) (d : Array α) (pos : Nat) (h : pos < d.size) : Array α :=
  siftUpF le pos d pos h

/-- loop of `sift_down_to_bottom(pos)` followed by its final `sift_up(0, hole position)`;
    structurally recursive on `fuel` (`d.size ≤ pos + fuel` is always enough: the position grows) -/
def siftDownF (le : α → α → Bool) : Nat → (d : Array α) → (pos : Nat) → pos < d.size → Array α
  | 0, d, pos, h => siftUp le d pos h
  | fuel + 1, d, pos, h =>
    if h2 : 2 * pos + 2 < d.size then
      -- both children exist: `child += (data[child] <= data[child+1]) as usize`
      if le (d[2 * pos + 1]'(by omega)) (d[2 * pos + 2]'h2) then
        siftDownF le fuel (d.swap pos (2 * pos + 2) h h2) (2 * pos + 2)
          (by rw [Array.size_swap]; exact h2)
      else
        siftDownF le fuel (d.swap pos (2 * pos + 1) h (by omega)) (2 * pos + 1)
          (by rw [Array.size_swap]; omega)
    else if h1 : 2 * pos + 2 = d.size then
      -- `if child == end - 1`: a lone left child
      siftUp le (d.swap pos (2 * pos + 1) h (by omega)) (2 * pos + 1)
        (by rw [Array.size_swap]; omega)
    else siftUp le d pos h

/-- `sift_down_to_bottom(pos)` -/
def siftDownToBottom (le : α → α → Bool) (d : Array α) (pos : Nat) (h : pos < d.size) : Array α :=
  siftDownF le d.size d pos h

/-- `BinaryHeap::push` -/
def push (le : α → α → Bool) (d : Array α) (x : α) : Array α :=
  siftUp le (d.push x) d.size (by simp)

/-- `BinaryHeap::pop` -/
def pop (le : α → α → Bool) (d : Array α) : Option α × Array α :=
  if h : d.size = 0 then (none, d)
  else
    let last := d[d.size - 1]'(by omega)
    let d' := d.pop
    if h' : d'.size = 0 then (some last, d')
    else
      (some (d'[0]'(by omega)),
       siftDownToBottom le (d'.set 0 last (by omega)) 0 (by rw [Array.size_set]; omega))

/-- `BinaryHeap::peek` -/
def peek (d : Array α) : Option α := d[0]?

/-- `while let Some(x) = heap.pop() { … }` : the elements in pop order (fuel = number of pops) -/
def drainFuel (le : α → α → Bool) : Nat → Array α → List α
  | 0, _ => []
  | fuel + 1, d =>
    match pop le d with
    | (none, _) => []
    | (some x, d') => x :: drainFuel le fuel d'

/-- pop until empty -/
def drain (le : α → α → Bool) (d : Array α) : List α := drainFuel le d.size d

end Elvis.Heap
