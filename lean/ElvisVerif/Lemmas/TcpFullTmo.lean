import ElvisVerif.Lemmas.TcpConvCalm3
/-!
# The retransmission timer is not touched by `segment_arrives` (no FIN around)

One lemma per block of `process_segment`, then `processSegment_tmo`, `drain_tmo`, `segmentArrives_tmo`: needed for the
system invariant `timeouts.retransmission ≤ RTO` (so that a tick of `RTO + 1` always expires the timer).
-/
namespace Elvis.Tcp.Full
open Elvis.ModCmp Elvis.Tcp.Tcb

theorem enq_tmo (s : Tcb) (h : Hdr) : (s.enqueueBuilt h).timeouts = s.timeouts := (enqueueBuilt_frame s h).2.2.2.2.2.1

theorem seqCheck_tmo (s : Tcb) (seg : Hdr) (tl : Seq) (s' : Tcb) (r) (e : seqCheck s seg tl = .ok (s', r)) :
    s'.timeouts.retransmission = s.timeouts.retransmission := by
  unfold seqCheck at e
  split at e
  · cases e; rfl
  · split at e
    · cases e
    · cases e; rfl
    · rw [enqueueThen_eq] at e; cases e; rw [enq_tmo]

theorem ackEst_tmo (s : Tcb) (seg : Hdr) (s' : Tcb) (r) (e : s.ackEstablishedProcessing seg = .ok (s', r)) :
    s'.timeouts.retransmission = s.timeouts.retransmission := by
  unfold ackEstablishedProcessing at e
  split at e
  · cases e; rfl
  · split at e
    · rw [enqueue_eq] at e; cases e; rw [enq_tmo]
    · dsimp only at e
      split at e <;> (cases e; rfl)

theorem afterAck_inv (m : M ProcessSegmentResult) (k : Tcb → ProcessSegmentResult → B) (s' : Tcb) (r)
    (e : afterAckEstablished m k = .ok (s', r)) : ∃ s1 r1, m = .ok (s1, r1) ∧ k s1 r1 = .ok (s', r) := by
  unfold afterAckEstablished at e
  split at e
  · cases e
  · exact ⟨_, _, rfl, e⟩

theorem ackBlock_tmo (s : Tcb) (seg : Hdr) (s' : Tcb) (r) (e : ackBlock s seg = .ok (s', r)) :
    s'.timeouts.retransmission = s.timeouts.retransmission := by
  unfold ackBlock at e
  split at e
  · cases e; rfl
  · split at e
    · -- SynSent
      split at e
      · split at e
        · cases e; rfl
        · rw [enqueueThen_eq] at e; cases e; rw [enq_tmo]
      · split at e
        · split at e
          · cases e; rfl
          · cases e; rfl
        · rw [enqueueThen_eq] at e; cases e; rw [enq_tmo]
    · -- SynReceived
      split at e
      · obtain ⟨s1, r1, e1, e2⟩ := afterAck_inv _ _ _ _ e
        have := ackEst_tmo _ _ _ _ e1
        split at e2 <;> (cases e2; exact this)
      · rw [enqueueThen_eq] at e; cases e; rw [enq_tmo]
    iterate 3
      · obtain ⟨s1, r1, e1, e2⟩ := afterAck_inv _ _ _ _ e
        have := ackEst_tmo _ _ _ _ e1
        split at e2 <;> (cases e2; exact this)
    · -- FinWait1
      obtain ⟨s1, r1, e1, e2⟩ := afterAck_inv _ _ _ _ e
      have := ackEst_tmo _ _ _ _ e1
      dsimp only at e2
      split at e2 <;> split at e2 <;> (cases e2; exact this)
    · -- Closing
      obtain ⟨s1, r1, e1, e2⟩ := afterAck_inv _ _ _ _ e
      have := ackEst_tmo _ _ _ _ e1
      dsimp only at e2
      split at e2 <;> split at e2 <;> (cases e2; exact this)
    · -- LastAck
      obtain ⟨s1, r1, e1, e2⟩ := afterAck_inv _ _ _ _ e
      have := ackEst_tmo _ _ _ _ e1
      split at e2
      · cases e2; exact this
      · split at e2 <;> (cases e2; exact this)
    · cases e; rfl

theorem synBlock_tmo (s : Tcb) (seg : Hdr) (s' : Tcb) (r) (e : synBlock s seg = .ok (s', r)) :
    s'.timeouts.retransmission = s.timeouts.retransmission := by
  unfold synBlock at e
  split at e
  · split at e <;> (cases e; rfl)
  · split at e
    · dsimp only at e
      split at e
      · rw [enqueueThen_eq] at e; cases e; rw [enq_tmo]
      · rw [enqueueThen_eq] at e; cases e; rw [enq_tmo]
    · rw [enqueueThen_eq] at e; cases e; rw [enq_tmo]

theorem textBlock_tmo (s : Tcb) (seg : Hdr) (text : List UInt8) (tl : Seq) (s' : Tcb) (r)
    (e : textBlock s seg text tl = .ok (s', r)) :
    s'.timeouts.retransmission = s.timeouts.retransmission := by
  unfold textBlock at e
  split at e
  · cases e; rfl
  · split at e
    all_goals first
      | (cases e; rfl)
      | (dsimp only at e
         repeat' (split at e)
         all_goals first
           | (simp at e; done)
           | (rw [enqueueThen_eq] at e
              cases e
              exact congrArg Timeouts.retransmission (enq_tmo _ _)))

theorem processSegment_tmo (s : Tcb) (g : Segment) (s' : Tcb) (r : ProcessSegmentResult) (hfin : g.hdr.ctl.fin = false)
    (e : s.processSegment g = .ok (s', r)) : s'.timeouts.retransmission = s.timeouts.retransmission := by
  unfold processSegment at e
  dsimp only at e
  cases h1 : seqCheck s g.hdr (BitVec.ofNat 32 g.text.length) with
  | error x => rw [h1] at e; simp [B.andThen] at e
  | ok p1 =>
    obtain ⟨t1, r1⟩ := p1
    rw [h1] at e
    have k1 := seqCheck_tmo _ _ _ _ _ h1
    cases r1 with
    | some r1 => simp only [andThen_some, Except.ok.injEq, Prod.mk.injEq] at e; rw [← e.1]; exact k1
    | none =>
      simp only [andThen_none] at e
      cases h2 : ackBlock t1 g.hdr with
      | error x => rw [h2] at e; simp [B.andThen] at e
      | ok p2 =>
        obtain ⟨t2, r2⟩ := p2
        rw [h2] at e
        have k2 := (ackBlock_tmo _ _ _ _ h2).trans k1
        cases r2 with
        | some r2 => simp only [andThen_some, Except.ok.injEq, Prod.mk.injEq] at e; rw [← e.1]; exact k2
        | none =>
          simp only [andThen_none] at e
          cases h3 : rstBlock t2 g.hdr with
          | error x => rw [h3] at e; simp [B.andThen] at e
          | ok p3 =>
            obtain ⟨t3, r3⟩ := p3
            rw [h3] at e
            have e3 : t3 = t2 := C01.rstBlock_eq h3
            subst e3
            cases r3 with
            | some r3 => simp only [andThen_some, Except.ok.injEq, Prod.mk.injEq] at e; rw [← e.1]; exact k2
            | none =>
              simp only [andThen_none] at e
              cases h4 : synBlock t3 g.hdr with
              | error x => rw [h4] at e; simp [B.andThen] at e
              | ok p4 =>
                obtain ⟨t4, r4⟩ := p4
                rw [h4] at e
                have k4 := (synBlock_tmo _ _ _ _ h4).trans k2
                cases r4 with
                | some r4 => simp only [andThen_some, Except.ok.injEq, Prod.mk.injEq] at e; rw [← e.1]; exact k4
                | none =>
                  simp only [andThen_none] at e
                  cases h5 : textBlock t4 g.hdr g.text (BitVec.ofNat 32 g.text.length) with
                  | error x => rw [h5] at e; simp [B.andThen] at e
                  | ok p5 =>
                    obtain ⟨t5, r5⟩ := p5
                    rw [h5] at e
                    have k5 := (textBlock_tmo _ _ _ _ _ _ h5).trans k4
                    cases r5 with
                    | some r5 => simp only [andThen_some, Except.ok.injEq, Prod.mk.injEq] at e; rw [← e.1]; exact k5
                    | none =>
                      simp only [andThen_none] at e
                      cases h6 : finBlock t5 g.hdr (BitVec.ofNat 32 g.text.length) with
                      | error x => rw [h6] at e; simp at e
                      | ok p6 =>
                        obtain ⟨t6, r6⟩ := p6
                        rw [h6] at e
                        have e6 : t6 = t5 := C01.finBlock_eq hfin h6
                        subst e6
                        cases r6 <;>
                          (simp only [Except.ok.injEq, Prod.mk.injEq] at e; rw [← e.1]; exact k5)

theorem drain_tmo (fuel : Nat) : ∀ (s s' : Tcb) (r : SegmentArrivesResult),
    (∀ g ∈ s.incoming.segments, g.hdr.ctl.fin = false) → drain fuel s = .ok (s', r) →
    s'.timeouts.retransmission = s.timeouts.retransmission := by
  induction fuel with
  | zero => intro s s' r _ e; unfold drain at e; cases e; rfl
  | succ n ih =>
    intro s s' r hf e
    unfold drain at e
    split at e
    · cases e; rfl
    · rename_i top hpeek
      split at e
      · cases e; rfl
      · obtain ⟨rest, hpop⟩ := LHeap.pop_of_peek (le := segLe) hpeek
        rw [hpop] at e
        dsimp only at e
        have hmem := LHeap.mem_of_mem_pop hpop
        cases hp : processSegment { s with incoming.segments := rest } top with
        | error x => rw [hp] at e; cases e
        | ok p =>
          obtain ⟨s1, r1⟩ := p
          rw [hp] at e
          dsimp only at e
          have k1 : s1.timeouts.retransmission = s.timeouts.retransmission :=
            processSegment_tmo { s with incoming.segments := rest } top s1 r1 (hf top hmem.1) hp
          have hs1 : s1.incoming.segments = rest := processSegment_heap _ _ _ _ hp
          split at e
          · cases e; exact k1
          · exact (ih s1 s' r (fun g hg => hf g (hmem.2 g (by rw [hs1] at hg; exact hg))) e).trans k1

/-- `segment_arrives` does not touch the retransmission timer when no FIN is around -/
theorem segmentArrives_tmo (s : Tcb) (g : Segment) (s' : Tcb) (r : SegmentArrivesResult) (hg : g.hdr.ctl.fin = false)
    (hf : ∀ x ∈ s.incoming.segments, x.hdr.ctl.fin = false) (e : s.segmentArrives g = .ok (s', r)) :
    s'.timeouts.retransmission = s.timeouts.retransmission := by
  unfold segmentArrives at e
  dsimp only at e
  split at e
  · cases e
  · rw [enqueue_eq] at e
    cases e
    exact congrArg Timeouts.retransmission (enq_tmo _ _)
  · refine drain_tmo _ { s with incoming.segments := LHeap.push segLe s.incoming.segments g } s' r ?_ e
    intro x hx
    rcases LHeap.mem_push.1 hx with rfl | hx
    · exact hg
    · exact hf x hx
end Elvis.Tcp.Full
