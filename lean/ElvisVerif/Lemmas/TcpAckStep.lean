import ElvisVerif.Lemmas.TcpAckSys
/-!
# One step of the closed system keeps the acknowledgment invariant; runs

`Op.Closed` = `Op.Clean` (write, read, tick, emit, close, delivery of any history element to the
side it is addressed to) or `drop`.  `Full sys` = `Inv` (TcpSysInv) ∧ `SysInv` (ShiftInv) ∧ `AckInv`.
-/
namespace Elvis.Tcp
open Tcb

theorem ackInv_arrive (sys : Sys) (hi : Inv sys) (hs : SysInv sys) (ha : AckInv sys) (hroom : RoomOk sys)
    (x : SideId) (σ : Segment) (hσ : σ ∈ sys.history) (hsrc : σ.hdr.srcPort = x.peer.port)
    (sys' : Sys) (r : Res) (e : sys.arrive x σ = .ok (sys', r)) : AckInv sys' := by
  unfold Sys.arrive at e
  dsimp only at e
  split at e
  · rename_i tcb htcb
    split at e
    · simp at e
    · rename_i tcb' h1
      simp only [Except.ok.injEq, Prod.mk.injEq] at e
      rw [← e.1]
      exact ackInv_arrive_tcb sys hi hs ha hroom x tcb tcb' σ htcb hσ hsrc h1 _ rfl rfl
    · simp only [Except.ok.injEq, Prod.mk.injEq] at e
      rw [← e.1]
      exact ackInv_delete sys ha x _ rfl rfl
  · rename_i htcb
    split at e
    · rename_i iss mtu hlis
      split at e
      · simp at e
      · simp only [Except.ok.injEq, Prod.mk.injEq] at e
        rw [← e.1]; exact ha
      · rename_i tcb h1
        simp only [Except.ok.injEq, Prod.mk.injEq] at e
        rw [← e.1]
        exact ackInv_create sys hi ha x iss mtu σ tcb htcb hlis hσ hsrc h1 _ rfl rfl
      · rename_i h h1
        simp only [Except.ok.injEq, Prod.mk.injEq] at e
        rw [← e.1]
        refine ackInv_respond sys ha x htcb _ (fun _ τ hτ => ?_)
        simp only [List.mem_singleton] at hτ
        subst hτ
        -- the reply of LISTEN: a RST without ACK bit
        unfold segmentArrivesListen at h1
        dsimp only at h1
        split at h1
        · simp at h1
        · split at h1
          · simp only [Except.ok.injEq] at h1
            cases hb : (Hdr.builder σ.hdr.dstPort σ.hdr.srcPort σ.hdr.ack).withRst.build 0 with
            | none => rw [hb] at h1; simp at h1
            | some h' =>
              rw [hb] at h1
              simp only [Option.map_some, Option.some.injEq, ListenResult.Response.injEq] at h1
              subst h1
              have := hdr_build_some hb
              subst this
              rfl
          · split at h1
            · rw [Tcb.enqueue_eq] at h1
              simp at h1
            · simp at h1
    · rename_i hlis
      split at e
      · simp only [Except.ok.injEq, Prod.mk.injEq] at e
        rw [← e.1]; exact ha
      · simp only [Except.ok.injEq, Prod.mk.injEq] at e
        rw [← e.1]
        refine ackInv_respond sys ha x htcb _ (fun hl => ?_)
        rw [hlis] at hl; cases hl

/-- `ackInv_update` without emission -/
theorem ackInv_update0 (sys : Sys) (hi : Inv sys) (ha : AckInv sys) (z : SideId) (t t' : Tcb) (sd' : Side)
    (ht : (sys.side z).tcb = some t) (hsd : sd'.tcb = some t') (hl : sd'.listen = (sys.side z).listen)
    (l : LStep t t') : AckInv (sys.setSide z sd') := by
  have := ackInv_update sys hi ha z t t' sd' [] ht hsd hl l (fun σ h => by cases h) (fun σ h => by cases h)
  rw [record_nil] at this
  exact this

/-- **one clean step keeps the acknowledgment invariant** -/
theorem ackInv_step (sys : Sys) (hi : Inv sys) (hs : SysInv sys) (ha : AckInv sys) (hroom : RoomOk sys) (op : Op)
    (hc : Op.Clean sys op) (sys' : Sys) (r : Res) (e : sys.step op = .ok (sys', r)) : AckInv sys' := by
  cases op with
  | «open» x iss mtu => exact absurd hc (by simp [Op.Clean])
  | listen x iss mtu => exact absurd hc (by simp [Op.Clean])
  | inject x seg => exact absurd hc (by simp [Op.Clean])
  | abort x => exact absurd hc (by simp [Op.Clean])
  | drop x => exact absurd hc (by simp [Op.Clean])
  | deliver x i =>
    simp only [Sys.step] at e
    split at e
    · simp only [Except.ok.injEq, Prod.mk.injEq] at e
      rw [← e.1]; exact ha
    · rename_i σ hn
      obtain ⟨h1, _⟩ := hc σ hn
      have hmem : σ ∈ sys.history := by
        unfold Sys.nth at hn
        split at hn
        · exact List.mem_of_getElem? hn
        · simp at hn
      exact ackInv_arrive sys hi hs ha hroom x σ hmem h1 sys' r e
  | write x bytes =>
    simp only [Sys.step, Op.side] at e
    split at e
    · simp only [Except.ok.injEq, Prod.mk.injEq] at e
      rw [← e.1]; exact ha
    · rename_i tcb htcb
      simp only [Except.ok.injEq, Prod.mk.injEq] at e
      rw [← e.1]
      exact ackInv_update0 sys hi ha x tcb (tcb.send bytes) _ htcb rfl rfl (send_l tcb bytes)
  | read x =>
    simp only [Sys.step, Op.side] at e
    split at e
    · simp only [Except.ok.injEq, Prod.mk.injEq] at e
      rw [← e.1]; exact ha
    · rename_i tcb htcb
      simp only [Except.ok.injEq, Prod.mk.injEq] at e
      rw [← e.1]
      exact ackInv_update0 sys hi ha x tcb tcb.receive.1 _ htcb rfl rfl (receive_l tcb)
  | tick x ms =>
    simp only [Sys.step, Op.side] at e
    split at e
    · simp only [Except.ok.injEq, Prod.mk.injEq] at e
      rw [← e.1]; exact ha
    · rename_i tcb htcb
      split at e
      · simp at e
      · rename_i tcb' h1
        simp only [Except.ok.injEq, Prod.mk.injEq] at e
        rw [← e.1]
        exact ackInv_update0 sys hi ha x tcb tcb' _ htcb rfl rfl (advanceTime_l tcb ms tcb' h1)
      · simp only [Except.ok.injEq, Prod.mk.injEq] at e
        rw [← e.1]
        exact ackInv_delete sys ha x _ rfl rfl
  | emit x =>
    simp only [Sys.step, Op.side] at e
    split at e
    · simp only [Except.ok.injEq, Prod.mk.injEq] at e
      rw [← e.1]; exact ha
    · rename_i tcb htcb
      split at e
      · simp at e
      · rename_i tcb' segs h1
        simp only [Except.ok.injEq, Prod.mk.injEq] at e
        rw [← e.1]
        obtain ⟨b0, p1, _⟩ := (hi.link x).snd tcb htcb
        obtain ⟨_, _, _, o1, _⟩ := segments_snd tcb tcb' segs h1 b0 (hroom x tcb htcb)
        obtain ⟨l, hnew⟩ := segments_l tcb tcb' segs h1 (hs x tcb htcb).fresh
        exact ackInv_update sys hi ha x tcb tcb' _ segs htcb rfl rfl l
          (fun σ hσ => by rw [(o1 σ hσ).2.1, p1]) hnew
  | close x =>
    simp only [Sys.step, Op.side] at e
    split at e
    · simp only [Except.ok.injEq, Prod.mk.injEq] at e
      rw [← e.1]; exact ha
    · rename_i tcb htcb
      split at e
      · simp at e
      · rename_i tcb' r' h1
        simp only [Except.ok.injEq, Prod.mk.injEq] at e
        rw [← e.1]
        exact ackInv_update0 sys hi ha x tcb tcb' _ htcb rfl rfl (close_l tcb tcb' r' h1)

/-! ## the SYN-SENT freshness invariant (built for C12) along clean steps -/

theorem sysInv_clean (sys : Sys) (hs : SysInv sys) (op : Op) (hc : Op.Clean sys op) (sys' : Sys) (r : Res)
    (e : sys.step op = .ok (sys', r)) : SysInv sys' := by
  cases op with
  | deliver x i =>
    simp only [Sys.step] at e
    split at e
    · simp only [Except.ok.injEq, Prod.mk.injEq] at e
      rw [← e.1]; exact hs
    · rename_i σ hn
      exact sysInv_arrive sys sys' x σ r hs (hc σ hn).2 e
  | «open» x iss mtu => exact absurd hc (by simp [Op.Clean])
  | listen x iss mtu => exact absurd hc (by simp [Op.Clean])
  | inject x seg => exact absurd hc (by simp [Op.Clean])
  | abort x => exact absurd hc (by simp [Op.Clean])
  | drop x => exact absurd hc (by simp [Op.Clean])
  | write x b => exact sysInv_step sys sys' _ r hs (adm_of_excl sys (.write x b) hs trivial) e
  | read x => exact sysInv_step sys sys' _ r hs (adm_of_excl sys (.read x) hs trivial) e
  | tick x ms => exact sysInv_step sys sys' _ r hs (adm_of_excl sys (.tick x ms) hs trivial) e
  | emit x => exact sysInv_step sys sys' _ r hs (adm_of_excl sys (.emit x) hs trivial) e
  | close x => exact sysInv_step sys sys' _ r hs (adm_of_excl sys (.close x) hs trivial) e

/-! ## the three invariants together -/

structure Full (sys : Sys) : Prop where
  inv : Inv sys
  fresh : SysInv sys
  ack : AckInv sys

/-- the ops of the closed system: clean ops, and `drop` (an endpoint disappears) -/
def Op.Closed (sys : Sys) (op : Op) : Prop := Op.Clean sys op ∨ ∃ x, op = .drop x

theorem full_step (sys : Sys) (h : Full sys) (hroom : RoomOk sys) (op : Op) (hc : Op.Closed sys op)
    (sys' : Sys) (r : Res) (e : sys.step op = .ok (sys', r)) : Full sys' := by
  rcases hc with hc | ⟨x, rfl⟩
  · exact ⟨inv_step sys h.inv hroom op hc sys' r e, sysInv_clean sys h.fresh op hc sys' r e,
      ackInv_step sys h.inv h.fresh h.ack hroom op hc sys' r e⟩
  · simp only [Sys.step, Op.side] at e
    cases e
    exact ⟨inv_delete sys h.inv x _ rfl rfl, sysInv_step sys _ (.drop x) .ok h.fresh trivial rfl,
      ackInv_delete sys h.ack x _ rfl rfl⟩

/-- a run of the closed system; before every step both endpoints have room below 2^31 sequence
    numbers (H31) -/
inductive ClosedRun : Sys → Sys → Prop
  | refl (s : Sys) : ClosedRun s s
  | step {s s1 s2 : Sys} {op : Op} {r : Res} : ClosedRun s s1 → RoomOk s1 → Op.Closed s1 op →
      s1.step op = .ok (s2, r) → ClosedRun s s2

theorem full_run {s s' : Sys} (h : Full s) (r : ClosedRun s s') : Full s' := by
  induction r with
  | refl => exact h
  | step _ hroom hc e ih => exact full_step _ ih hroom _ hc _ _ e

theorem ClosedRun.of_clean {s s' : Sys} (r : CleanRun s s') : ClosedRun s s' := by
  induction r with
  | refl => exact .refl _
  | step _ hroom hc e ih => exact .step ih hroom (Or.inl hc) e

theorem ClosedRun.head {s s1 s2 : Sys} {op : Op} {r : Res} (hroom : RoomOk s) (hc : Op.Closed s op)
    (e : s.step op = .ok (s1, r)) (h : ClosedRun s1 s2) : ClosedRun s s2 := by
  induction h with
  | refl => exact .step (.refl _) hroom hc e
  | step _ hr hcl he ih => exact .step ih hr hcl he

/-! ## the two ways the closed system starts -/

/-- two freshly opened TCBs (or one and nothing) -/
theorem ackCore_init (t : Tcb) (ty : Option Tcb) (ly : Bool) (py : U16) (iss : Seq) (hiss : t.snd.iss = iss)
    (ht : t.snd.una = iss ∧ t.outgoing.oneshot = [] ∧
      (∀ tr ∈ t.outgoing.retransmit, tr.segment.hdr.ctl.ack = false ∧ tr.segment.hdr.ctl.rst = false) ∧
      t.incoming.segments = [] ∧ SynSentFresh t) (hst : t.state = .SynSent)
    (hy : ∀ u, ty = some u → u.state = .SynSent ∧ u.outgoing.oneshot = [] ∧
      ∀ tr ∈ u.outgoing.retransmit, tr.segment.hdr.ctl.ack = false ∧ tr.segment.hdr.ctl.rst = false) :
    AckCore (some t) ty ly [] py := by
  obtain ⟨h1, h2, h3, h4, _⟩ := ht
  rw [← hiss] at h1
  refine ⟨fun a u ha hu => ?_, fun a u ha hu σ hσ => (by cases hσ), fun a u ha hu σ hσ => ?_, fun a u ha hu => ?_,
    fun a u ha hu hsr => ?_, fun a ha _ _ => ?_⟩
  all_goals cases ha
  · obtain ⟨g1, g2, g3⟩ := hy u hu
    exact ⟨fun h hh => (by rw [g2] at hh; cases hh), fun tr hh => ackLe_of_noack (g3 tr hh).1, fun hne => absurd g1 hne⟩
  · rw [h4] at hσ; cases hσ
  · rw [h1, off_self]; exact Nat.zero_le _
  · rw [hst] at hsr; cases hsr
  · exact ⟨fun σ hσ => (by cases hσ), fun h hh => (by rw [h2] at hh; cases hh), fun tr hh => (h3 tr hh).1,
      fun σ hσ => (by rw [h4] at hσ; cases hσ), h1⟩

theorem full_init_active_passive (ia ib : Seq) (ma mb : U16) (sys : Sys) (rs : List Res)
    (e : Sys.run {} [.open .A ia ma, .listen .B ib mb] = .ok (sys, rs)) : Full sys := by
  refine ⟨inv_init_active_passive ia ib ma mb sys rs e, ?_, ?_⟩
  · simp only [Sys.run] at e
    cases h1 : Sys.step {} (.open .A ia ma) with
    | error err => rw [h1] at e; simp at e
    | ok p1 =>
      obtain ⟨s1, r1⟩ := p1
      rw [h1] at e
      dsimp only at e
      cases h2 : s1.step (.listen .B ib mb) with
      | error err => rw [h2] at e; simp at e
      | ok p2 =>
        obtain ⟨s2, r2⟩ := p2
        rw [h2] at e
        simp only [Except.ok.injEq, Prod.mk.injEq] at e
        rw [← e.1]
        exact sysInv_step _ _ (.listen .B ib mb) _ (sysInv_step _ _ (.open .A ia ma) _ sysInv_init trivial h1) trivial h2
  · simp only [Sys.run, Sys.step, Op.side] at e
    cases h1 : Tcb.open SideId.A.port SideId.A.peer.port ia ma with
    | error err => rw [h1] at e; simp at e
    | ok t =>
      rw [h1] at e
      simp only [Except.ok.injEq, Prod.mk.injEq] at e
      have ho := open_ack _ _ _ _ _ h1
      obtain ⟨_, hiss, _, _, _, st, _⟩ := open_snd _ _ _ _ _ h1
      rw [← e.1]
      intro x
      cases x with
      | A => exact ackCore_init t none _ _ ia hiss ho st (fun u hu => by cases hu)
      | B => exact AckCore.of_none _ _ _ _

theorem full_init_simultaneous (ia ib : Seq) (ma mb : U16) (sys : Sys) (rs : List Res)
    (e : Sys.run {} [.open .A ia ma, .open .B ib mb] = .ok (sys, rs)) : Full sys := by
  refine ⟨inv_init_simultaneous ia ib ma mb sys rs e, ?_, ?_⟩
  · simp only [Sys.run] at e
    cases h1 : Sys.step {} (.open .A ia ma) with
    | error err => rw [h1] at e; simp at e
    | ok p1 =>
      obtain ⟨s1, r1⟩ := p1
      rw [h1] at e
      dsimp only at e
      cases h2 : s1.step (.open .B ib mb) with
      | error err => rw [h2] at e; simp at e
      | ok p2 =>
        obtain ⟨s2, r2⟩ := p2
        rw [h2] at e
        simp only [Except.ok.injEq, Prod.mk.injEq] at e
        rw [← e.1]
        exact sysInv_step _ _ (.open .B ib mb) _ (sysInv_step _ _ (.open .A ia ma) _ sysInv_init trivial h1) trivial h2
  · simp only [Sys.run, Sys.step, Op.side] at e
    cases h1 : Tcb.open SideId.A.port SideId.A.peer.port ia ma with
    | error err => rw [h1] at e; simp at e
    | ok ta =>
      rw [h1] at e
      dsimp only at e
      cases h2 : Tcb.open SideId.B.port SideId.B.peer.port ib mb with
      | error err => rw [h2] at e; simp at e
      | ok tb =>
        rw [h2] at e
        simp only [Except.ok.injEq, Prod.mk.injEq] at e
        have hoa := open_ack _ _ _ _ _ h1
        have hob := open_ack _ _ _ _ _ h2
        obtain ⟨_, hia, _, _, _, sta, _⟩ := open_snd _ _ _ _ _ h1
        obtain ⟨_, hib, _, _, _, stb, _⟩ := open_snd _ _ _ _ _ h2
        rw [← e.1]
        intro x
        cases x with
        | A => exact ackCore_init ta (some tb) _ _ ia hia hoa sta (fun u hu => by cases hu; exact ⟨stb, hob.2.1, hob.2.2.1⟩)
        | B => exact ackCore_init tb (some ta) _ _ ib hib hob stb (fun u hu => by cases hu; exact ⟨sta, hoa.2.1, hoa.2.2.1⟩)

end Elvis.Tcp
