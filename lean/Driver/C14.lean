import ElvisVerif.Model.Codec.Arp
import ElvisVerif.Model.Codec.Dns
import ElvisVerif.Model.Codec.Dhcp
import Driver.Common
import Driver.C08
import Driver.C14Path
/-!
Line-protocol handlers for the ARP / DNS / DHCP codec streams of C14 and C08
(sub-commands `c14-arp`, `c14-dns`, `c14-dhcp`: malformed stream; `c14-rt-arp`, `c14-rt-dns`,
`c14-rt-dhcp`: round-trip stream).  Both streams use the same op lines:

* `dec <hex>`        decode; answer `ok <fields> consumed=<n> reenc=<hex>` | `err <Kind>` | `panic:…`
* `enc <fields> <rest-hex>`  build a value, encode it, decode `encoding ++ rest`;
                     answer `<encoding-hex> <answer of dec>`
* `demux <hex>`      (arp, dhcp) the protocol's `demux` on that datagram
* `sdemux <fetch> <hex> <pool>` (dhcp) `DhcpServer::demux`, `fetch` = `-` or the address `fetch_ip`
  yields (`pool` is for the harness only)
* `qname <hex>`      (dns) `DnsQuestion::query_name`
-/
namespace Driver.C14
open Elvis.CodecB

/-- decoder totality for IPv4 / UDP / TCP (`c14-ipv4`, `c14-udp`, `c14-tcp`): the decode ops of
    `Driver/C08.lean` on the malformed stream -/
def dispatchCodecA (sub : String) (i o : IO.FS.Stream) : Option (IO Unit) :=
  if sub == "c14-ipv4" || sub == "c14-udp" || sub == "c14-tcp" then
    some (Driver.loop i o Driver.C08.step false)
  else none

def errStr (e : DecErr) : String :=
  match e with
  | .panic s => s
  | e => "err " ++ e.toString

def sp (xs : List String) : String := " ".intercalate xs

/-! ARP -/
def showArp (p : Arp.ArpPacket) : String :=
  sp [toString p.htype, toString p.ptype, toString p.hlen, toString p.plen, toString p.oper.toNat,
      toString p.senderMac, toString p.senderIp, toString p.targetMac, toString p.targetIp]

def arpDec (bs : Bytes) : String :=
  match Arp.fromBytes bs with
  | .ok (p, r) => s!"ok {showArp p} consumed={bs.length - r.length} reenc={Driver.toHex (Arp.build p)}"
  | .error e => errStr e

def arpStep (_ : Unit) (ws : List String) : Unit × String :=
  match ws with
  | ["case", id] => ((), s!"case {id}")
  | ["dec", h] => match Driver.parseHex h with
    | some bs => ((), arpDec bs)
    | none => ((), "bad-op")
  | ["demux", h] => match Driver.parseHex h with
    | some bs => ((), match Arp.demux bs with
        | .ok .dropped => "dropped"
        | .ok (.learned ip mac) => s!"learned {ip} {mac}"
        | .error e => errStr e)
    | none => ((), "bad-op")
  | ["enc", a, b, c, d, o, sm, si, tm, ti, rest] =>
    match a.toNat?, b.toNat?, c.toNat?, d.toNat?, o.toNat?, sm.toNat?, si.toNat?, tm.toNat?, ti.toNat?,
          Driver.parseHex rest with
    | some a, some b, some c, some d, some o, some sm, some si, some tm, some ti, some rest =>
      if o = 1 ∨ o = 2 then
        let p : Arp.ArpPacket := {
          htype := a, ptype := b, hlen := c, plen := d,
          oper := if o = 1 then .request else .reply, senderMac := sm, senderIp := si,
          targetMac := tm, targetIp := ti }
        let e := Arp.build p
        ((), s!"{Driver.toHex e} {arpDec (e ++ rest)}")
      else ((), "bad-op")
    | _, _, _, _, _, _, _, _, _, _ => ((), "bad-op")
  | _ => ((), "bad-op")

/-! DNS -/
def showDns (m : Dns.DnsMessage) : String :=
  sp [toString m.header.id, toString m.header.properties, toString m.header.qdcount,
      toString m.header.ancount, toString m.header.nscount, toString m.header.arcount,
      Driver.toHex m.question.qname, toString m.question.qtype, toString m.question.qclass,
      Driver.toHex m.answer.name, toString m.answer.recType, toString m.answer.cls,
      toString m.answer.ttl, toString m.answer.rdlength, Driver.toHex m.answer.rdata]

def dnsDec (bs : Bytes) : String :=
  match Dns.fromBytes bs with
  | .ok (m, r) => s!"ok {showDns m} consumed={bs.length - r.length} reenc={Driver.toHex (Dns.toMessage m)}"
  | .error e => errStr e

def dnsStep (v0 : Bool) (_ : Unit) (ws : List String) : Unit × String :=
  match ws with
  | ["case", id] => ((), s!"case {id}")
  | ["dec", h] => match Driver.parseHex h with
    | some bs => ((), dnsDec bs)
    | none => ((), "bad-op")
  | ["qname", h] => match Driver.parseHex h with
    | some bs => ((), match (if v0 then Dns.queryNameV0 else Dns.queryName) (Dns.newQuestion bs) with
        | .ok n => "ok " ++ Driver.toHex n
        | .error e => errStr e)
    | none => ((), "bad-op")
  | ["enc", id, pr, qd, an, ns, ar, qn, qt, qc, nm, ty, cl, ttl, rdl, rd, rest] =>
    match id.toNat?, pr.toNat?, qd.toNat?, an.toNat?, ns.toNat?, ar.toNat?, Driver.parseHex qn,
          qt.toNat?, qc.toNat?, Driver.parseHex nm with
    | some id, some pr, some qd, some an, some ns, some ar, some qn, some qt, some qc, some nm =>
      match ty.toNat?, cl.toNat?, ttl.toNat?, rdl.toNat?, Driver.parseHex rd, Driver.parseHex rest with
      | some ty, some cl, some ttl, some rdl, some rd, some rest =>
        let m : Dns.DnsMessage := {
          header := { id := id, properties := pr, qdcount := qd, ancount := an, nscount := ns, arcount := ar },
          question := { qname := qn, qtype := qt, qclass := qc },
          answer := { name := nm, recType := ty, cls := cl, ttl := ttl, rdlength := rdl, rdata := rd } }
        let e := Dns.toMessage m
        ((), s!"{Driver.toHex e} {dnsDec (e ++ rest)}")
      | _, _, _, _, _, _ => ((), "bad-op")
    | _, _, _, _, _, _, _, _, _, _ => ((), "bad-op")
  | _ => ((), "bad-op")

/-- full-stack DNS stream (`c14-dnssim`): `srv <datagram>` = what the real `DnsServer` answers,
    `cli <name> <response>` = what `DnsClient::get_host_by_name(name)` returns for that response -/
def dnsSimStep (v0 : Bool) (_ : Unit) (ws : List String) : Unit × String :=
  match ws with
  | ["case", id] => ((), s!"case {id}")
  | ["srv", h] => match Driver.parseHex h with
    | some bs => ((), match (if v0 then Dns.serverRespondV0 else Dns.serverRespond) bs with
        | .ok (some r) => "reply " ++ Driver.toHex r
        | .ok none => "noreply"
        | .error e => errStr e)
    | none => ((), "bad-op")
  | ["cli", _, "noreply"] => ((), match (if v0 then Dns.clientNoAnswerV0 else Dns.clientNoAnswer) with
      | .ok _ => "err"
      | .error e => errStr e)
  | ["cli", n, h] => match Driver.parseHex n, Driver.parseHex h with
    | some name, some bs => ((), match (if v0 then Dns.clientHandleV0 else Dns.clientHandle) name bs with
        | .ok (some ip) => s!"ip {ip}"
        | .ok none => "err"
        | .error e => errStr e)
    | _, _ => ((), "bad-op")
  | _ => ((), "bad-op")

/-! DHCP -/
def showDhcp (m : Dhcp.DhcpMessage) : String :=
  sp [toString m.op, toString m.htype, toString m.hlen, toString m.hops, toString m.transactionId,
      toString m.seconds, toString m.flags, toString m.clientIp, toString m.yourIp,
      toString m.serverIp, toString m.routerIp, toString m.clientHardwareAddress,
      toString m.msgType.toNat, Driver.toHex m.serverName, Driver.toHex m.bootFile]

/-- which version of the DHCP code a stream is compared with: the current code, or (`-v0`
    sub-commands) the code before the F-C14-1 / F-C14-3 fixes -/
structure DhcpImpl where
  fromBytes : Bytes → Except DecErr (Dhcp.DhcpMessage × Bytes)
  clientDemux : Bytes → Except DecErr Dhcp.DemuxOut
  serverDemux : Option Nat → Bytes → Except DecErr Dhcp.DemuxOut

def dhcpCur : DhcpImpl := ⟨Dhcp.fromBytes, Dhcp.clientDemux, Dhcp.serverDemux⟩
def dhcpV0 : DhcpImpl := ⟨Dhcp.fromBytesV0, Dhcp.clientDemuxV0, Dhcp.serverDemuxV0⟩

def dhcpDec (I : DhcpImpl) (bs : Bytes) : String :=
  match I.fromBytes bs with
  | .ok (m, r) => s!"ok {showDhcp m} consumed={bs.length - r.length} reenc={Driver.toHex (Dhcp.toMessage m)}"
  | .error e => errStr e

def showDemux : Except DecErr Dhcp.DemuxOut → String
  | .ok .errHeader => "none"   -- only the observable effect is compared: both error results
  | .ok .errOther => "none"    -- mean "this datagram did nothing"
  | .ok (.sent b) => "sent " ++ Driver.toHex b
  | .ok (.assigned ip) => s!"assigned {ip}"
  | .ok (.released ip) => s!"released {ip}"
  | .error e => errStr e

def mtOfNat (t : Nat) : Option Dhcp.MessageType :=
  match Dhcp.msgTypeTryFrom t with
  | .ok m => some m
  | .error _ => none

def dhcpStep (I : DhcpImpl) (_ : Unit) (ws : List String) : Unit × String :=
  match ws with
  | ["case", id] => ((), s!"case {id}")
  | ["dec", h] => match Driver.parseHex h with
    | some bs => ((), dhcpDec I bs)
    | none => ((), "bad-op")
  | ["demux", h] => match Driver.parseHex h with
    | some bs => ((), showDemux (I.clientDemux bs))
    | none => ((), "bad-op")
  | ["sdemux", f, h, pool] => match Driver.parseHex h with
    | some bs =>
      -- returning the one address the pool already holds changes nothing observable
      ((), match I.serverDemux (if f == "-" then none else f.toNat?) bs with
        | .ok (.released ip) => if pool.toNat? == some ip then "none" else s!"released {ip}"
        | r => showDemux r)
    | none => ((), "bad-op")
  | ["enc", op, ht, hl, hp, xid, secs, fl, ci, yi, si, ri, ch, mt, sn, bf, rest] =>
    match op.toNat?, ht.toNat?, hl.toNat?, hp.toNat?, xid.toNat?, secs.toNat?, fl.toNat?, ci.toNat?,
          yi.toNat?, si.toNat? with
    | some op, some ht, some hl, some hp, some xid, some secs, some fl, some ci, some yi, some si =>
      match ri.toNat?, ch.toNat?, mt.toNat?.bind mtOfNat, Driver.parseHex sn, Driver.parseHex bf,
            Driver.parseHex rest with
      | some ri, some ch, some mt, some sn, some bf, some rest =>
        let m : Dhcp.DhcpMessage := {
          op := op, htype := ht, hlen := hl, hops := hp,
          transactionId := xid, seconds := secs, flags := fl, clientIp := ci, yourIp := yi,
          serverIp := si, routerIp := ri, clientHardwareAddress := ch, serverName := sn,
          bootFile := bf, msgType := mt }
        let e := Dhcp.toMessage m
        ((), s!"{Driver.toHex e} {dhcpDec I (e ++ rest)}")
      | _, _, _, _, _, _ => ((), "bad-op")
    | _, _, _, _, _, _, _, _, _, _ => ((), "bad-op")
  | _ => ((), "bad-op")

def dispatch (sub : String) (i o : IO.FS.Stream) : Option (IO Unit) :=
  if let some act := dispatchCodecA sub i o then some act
  else if let some act := Driver.C14Path.dispatch sub i o then some act
  else if sub == "c14-arp" || sub == "c14-rt-arp" then some (Driver.loop i o arpStep ())
  else if sub == "c14-dns" || sub == "c14-rt-dns" then some (Driver.loop i o (dnsStep false) ())
  else if sub == "c14-dns-v0" then some (Driver.loop i o (dnsStep true) ())
  else if sub == "c14-dnssim" then some (Driver.loop i o (dnsSimStep false) ())
  else if sub == "c14-dnssim-v0" then some (Driver.loop i o (dnsSimStep true) ())
  else if sub == "c14-dhcp" || sub == "c14-rt-dhcp" || sub == "c14-dhcps" then
    some (Driver.loop i o (dhcpStep dhcpCur) ())
  else if sub == "c14-dhcp-v0" || sub == "c14-dhcps-v0" then some (Driver.loop i o (dhcpStep dhcpV0) ())
  else none

end Driver.C14
