/-
Model of `elvis_core::protocols::ipv4::fragmentation` (sim/elvis-core/src/protocols/ipv4/
fragmentation.rs) and of the parts of `ipv4_parsing.rs` it touches (`Ipv4Header`, `ControlFlags`).

Function by function, same branches, same order of the checked u16 operations.  `Message` is a
plain byte list (justified by C07: `cut n` = `(take n, drop n)` and panics iff `n > len`).
Fixed-width fields are `Nat`s; every checked `+`/`-` of the dev profile and the `assert!` inside
`Message::cut` is an `Except` error `"panic:<kind>:<site>"`.
No imports: this file is linked into the native driver.
-/
namespace Elvis.Frag

/-- `Ipv4Header` (all fields as naturals; `flags` is the byte inside `ControlFlags`,
    `src`/`dst` the u32 of the address, `tos` the byte inside `TypeOfService`) -/
structure Hdr where
  ihl : Nat
  tos : Nat
  totalLength : Nat
  ident : Nat
  fragOffset : Nat
  flags : Nat
  ttl : Nat
  proto : Nat
  checksum : Nat
  src : Nat
  dst : Nat
deriving DecidableEq, Repr, Inhabited

/-- `type Fragment = (Ipv4Header, Message)` -/
abbrev Frag := Hdr × List UInt8

/-- `ControlFlags::may_fragment` : `self.0 & 0b10 == 0` -/
def mayFragment (flags : Nat) : Bool := flags / 2 % 2 == 0

/-- `ControlFlags::is_last_fragment` : `self.0 & 0b01 == 0` -/
def isLast (flags : Nat) : Bool := flags % 2 == 0

/-- `ControlFlags::set_is_last_fragment(value)` : `self.0 = (self.0 & 0b10) | !value as u8`
    (bit arithmetic written with `/ %` so that `omega` can reason about it) -/
def setIsLast (flags : Nat) (value : Bool) : Nat :=
  (flags / 2 % 2) * 2 + (if value then 0 else 1)

/-- The result of packet fragmentation: `enum Fragments` -/
inductive Fragments
  | fragmented (l : List Frag)
  | dontFragment (f : Frag)
  | discard
deriving DecidableEq, Repr

/-- header of the first fragment of one `Fragmentation::fragment` call:
    `MF <- 1; TL <- (IHL*4)+(NFB*8)` -/
def firstHdr (h : Hdr) (nfb : Nat) : Hdr :=
  { h with flags := setIsLast h.flags false, totalLength := h.ihl * 4 + nfb * 8 }

/-- header handed to the recursive call: `TL <- OTL - NFB*8 - (OIHL-IHL)*4; FO <- OFO + NFB` -/
def restHdr (h : Hdr) (nfb : Nat) : Hdr :=
  { h with totalLength := h.totalLength - nfb * 8, fragOffset := h.fragOffset + nfb }

/-- `Fragmentation::fragment` (the recursive method).  The Rust recursion has no measure of its
    own: for `mtu - ihl*4 < 8` it calls itself with unchanged arguments until the stack
    overflows.  The model recurses structurally on `fuel`; `fragRec_fuel` (Lemmas/Frag.lean)
    shows that `fuel > total_length` is always enough once `ihl*4 + 8 ≤ mtu`
    (every level takes at least 8 octets off `total_length`).

    Panic sites, in program order:
    * `self.mtu - header.ihl as u16 * 4`               (u16 subtraction; `ihl as u16 * 4 ≤ 1020` cannot overflow)
    * `body.cut(fragment_blocks as usize * 8)`          (`assert!(len <= self.len)` in `Message::cut`)
    * `header.ihl as u16 * 4 + fragment_blocks * 8`     (u16 addition; `fragment_blocks * 8 ≤ 65535` by construction)
    * `header.total_length -= fragment_blocks * 8 + (oihl - header.ihl) as u16 * 4`   (the u8 difference is 0)
    * `header.fragment_offset += fragment_blocks`       (u16 addition)
    The fragments are returned in push order (first fragment, then those of the recursive call). -/
def fragRec (mtu : Nat) : Nat → Hdr → List UInt8 → Except String (List Frag)
  | 0, _, _ => .error "diverges:Fragmentation::fragment"
  | fuel + 1, h, body =>
    if h.totalLength ≤ mtu then .ok [(h, body)]
    else if mtu < h.ihl * 4 then .error "panic:sub-overflow:fragment_blocks"
    else
      let nfb := (mtu - h.ihl * 4) / 8
      if body.length < nfb * 8 then .error "panic:assert:cut"
      else if 65535 < h.ihl * 4 + nfb * 8 then .error "panic:add-overflow:first_total_length"
      else if h.totalLength < nfb * 8 then .error "panic:sub-overflow:rest_total_length"
      else if 65535 < h.fragOffset + nfb then .error "panic:add-overflow:fragment_offset"
      else
        match fragRec mtu fuel (restHdr h nfb) (body.drop (nfb * 8)) with
        | .ok l => .ok ((firstHdr h nfb, body.take (nfb * 8)) :: l)
        | .error e => .error e

/-- the fuel the driver and the theorems use: one more than the total length -/
def fuelFor (h : Hdr) : Nat := h.totalLength + 1

/-- `pub fn fragment(header, body, mtu) -> Fragments` -/
def fragment (h : Hdr) (body : List UInt8) (mtu : Nat) : Except String Fragments :=
  if h.totalLength ≤ mtu then .ok (.dontFragment (h, body))
  else if !mayFragment h.flags then .ok .discard
  else
    match fragRec mtu (fuelFor h) h body with
    | .ok l => .ok (.fragmented l)
    | .error e => .error e

/-- what a router does with the result: the pieces that travel on -/
def Fragments.pieces : Fragments → List Frag
  | .fragmented l => l
  | .dontFragment f => [f]
  | .discard => []

/-- Fragment every piece of a list for one MTU (a hop); a panic aborts. -/
def hop (mtu : Nat) : List Frag → Except String (List Frag)
  | [] => .ok []
  | f :: fs =>
    match fragment f.1 f.2 mtu with
    | .error e => .error e
    | .ok r =>
      match hop mtu fs with
      | .error e => .error e
      | .ok rest => .ok (r.pieces ++ rest)

/-- A chain of hops with the given MTUs, applied successively. -/
def chain : List Nat → List Frag → Except String (List Frag)
  | [], l => .ok l
  | mtu :: mtus, l =>
    match hop mtu l with
    | .error e => .error e
    | .ok l' => chain mtus l'

end Elvis.Frag
