import ElvisVerif.Lemmas.TcpConvSteady
/-!
# One exchange phase from a steady state (the theorem)
-/
namespace Elvis.Tcp
open Tcb Elvis.ModCmp

/-! ## what `Good` says about one TCB -/

section
variable {iss : SideId → Seq} {s : Sys}

theorem Good.tinv (hg : Good iss s) (x : SideId) (t : Tcb) (ht : (s.side x).tcb = some t) :
    C01.TInv x.port (iss x) (iss x.peer) (s.side x).submitted (s.side x.peer).submitted (s.side x).delivered t :=
  (hg.conv.c01.side x).tcb t ht

theorem Good.iss_eq (hg : Good iss s) (x : SideId) (t : Tcb) (ht : (s.side x).tcb = some t) : t.snd.iss = iss x :=
  (hg.tinv x t ht).iss

theorem Good.sent_lt (hg : Good iss s) (x : SideId) (t : Tcb) (ht : (s.side x).tcb = some t) :
    t.sent < 2147483648 := by
  have := room_of_inv hg.conv.c01 hg.room x t ht
  unfold Room at this; omega

theorem Good.wnd (hg : Good iss s) (x : SideId) (t : Tcb) (ht : (s.side x).tcb = some t) : t.rcv.wnd = 65535#16 :=
  (wf_of_sysWf hg.ext.wf x t ht).rcv_wnd

/-- the queue condition of `arriveList_fwd` -/
theorem Good.queue (hg : Good iss s) (x : SideId) (t : Tcb) (ht : (s.side x).tcb = some t) :
    ∀ tr ∈ t.outgoing.retransmit, keepFor t.snd.una tr = true ∧ off (iss x) (txEnd tr) ≤ t.sent := by
  intro tr htr
  obtain ⟨hp, hk⟩ := (hg.ext.tcb x t ht).keep tr htr
  have hb := (((hg.conv.full.inv.link x).snd t ht).1.queue tr htr).len hp
  have hN := hg.sent_lt x t ht
  refine ⟨hk, ?_⟩
  unfold txEnd
  rw [← hg.iss_eq x t ht, off_add _ _ _ (by omega)]
  exact hb

end

/-- everything `arriveList_fwd` asks for, from the invariants: side `y` (ESTABLISHED, empty heap and
    buffer) receives pure ACKs `hs` numbered `RCV.NXT` followed by a data run starting at `RCV.NXT` -/
theorem recv_ready {iss : SideId → Seq} {σ : Sys} (hg : Good iss σ) (y : SideId) (ty : Tcb)
    (hty : (σ.side y).tcb = some ty) (hst : ty.state = .Established) (hheap : ty.incoming.segments = [])
    (hbuf : ty.incoming.text = []) (R : Nat) (hu : off (iss y) ty.snd.una ≤ R) (hR : R ≤ ty.sent)
    (hs : List Hdr) (new : List Segment) (lp rp : U16) (ack : Seq) (wnd : U16)
    (hhs : ∀ x ∈ hs, x.seq = ty.rcv.nxt ∧ x.ctl.rst = false ∧ x.ctl.syn = false ∧ x.ctl.fin = false ∧ x.ctl.ack = true ∧
      1 ≤ off (iss y) x.ack ∧ off (iss y) x.ack ≤ R)
    (hrun : DataRun lp rp ack wnd ty.rcv.nxt new) (hack : 1 ≤ off (iss y) ack ∧ off (iss y) ack ≤ R)
    (hfit : segBytes new ≤ 65535) :
    ∃ ty', ty.arriveList ((hs.map fun x => (⟨x, []⟩ : Segment)) ++ new) = .ok ty' ∧
      BatchFx (iss y) ty ((hs.map fun x => (⟨x, []⟩ : Segment)) ++ new) ty' := by
  refine arriveList_fwd (iss y) R ty.sent (hg.sent_lt y ty hty) hR _ ty hst (hg.wnd y ty hty) hheap
    (hg.iss_eq y ty hty) rfl hu ?_ ?_ ?_ (hg.queue y ty hty)
  · exact inRun_acks _ _ _ (fun x hx => ⟨(hhs x hx).1, (hhs x hx).2.1, (hhs x hx).2.2.1, (hhs x hx).2.2.2.1,
      (hhs x hx).2.2.2.2.1⟩) (inRun_of_dataRun _ _ _ _ _ _ hrun)
  · intro g hg'
    rcases List.mem_append.1 hg' with h | h
    · obtain ⟨x, hx, rfl⟩ := List.mem_map.1 h
      exact (hhs x hx).2.2.2.2.2
    · exact ackLe_dataRun (iss y) R lp rp ack wnd hack.1 hack.2 new _ hrun g h
  · rw [hbuf, segBytes_append, segBytes_acks]
    simp only [List.length_nil, Nat.zero_add]
    exact hfit

/-- per-side outcome of a phase (`t`, `u` = this side's and the peer's TCB before, `t'` after) -/
structure PhaseX (t u t' : Tcb) : Prop where
  text : t'.outgoing.text = t.outgoing.text.drop (emitAmount t)
  una : t'.snd.una = t.snd.nxt
  bytes : rtxBytes t'.outgoing.retransmit ≤ emitAmount t
  one : emitAmount u = 0 → t'.outgoing.oneshot = []

/-- the pure ACKs waiting on the one-shot queue of an ESTABLISHED endpoint: numbered `SND.NXT`, ACK bit
    only, acknowledging a number in `[ISS_peer + 1, RCV.NXT]` -/
theorem oneshot_facts {iss : SideId → Seq} {s : Sys} (hg : Good iss s) (x : SideId) (t u : Tcb)
    (ht : (s.side x).tcb = some t) (hu : (s.side x.peer).tcb = some u) (hst : t.state = .Established) :
    (1 ≤ off (iss x.peer) t.rcv.nxt) ∧
    ∀ h ∈ t.outgoing.oneshot, h.seq = t.snd.nxt ∧ h.ctl.rst = false ∧ h.ctl.syn = false ∧ h.ctl.fin = false ∧
      h.ctl.ack = true ∧ 1 ≤ off (iss x.peer) h.ack ∧ off (iss x.peer) h.ack ≤ off (iss x.peer) t.rcv.nxt := by
  have hA := hg.conv.full.ack x.peer
  unfold AckLink at hA
  rw [SideId.peer_peer, hu, ht] at hA
  have q := hA.q u t rfl rfl
  rw [hg.iss_eq x.peer u hu] at q
  have hns : t.state ≠ .SynSent := by rw [hst]; simp
  refine ⟨q.pos hns, fun h hh => ?_⟩
  obtain ⟨e1, e2, e3, e4⟩ := (hg.ext.tcb x t ht).one h hh
  have hr := (hg.conv.nr.tcb x t ht).one h hh
  have := q.one h hh e2
  rw [top_of_ne hns] at this
  exact ⟨e1, hr, e3, e4, e2, this.1, this.2⟩

/-- `RCV.NXT_peer − ISS ≤ SND.NXT − ISS`, and `SND.UNA − ISS ≤ RCV.NXT_peer − ISS` (peer out of SYN-SENT) -/
theorem squeeze_facts {iss : SideId → Seq} {s : Sys} (hg : Good iss s) (x : SideId) (t u : Tcb)
    (ht : (s.side x).tcb = some t) (hu : (s.side x.peer).tcb = some u) (hst : u.state = .Established) :
    off (iss x) t.snd.una ≤ off (iss x) u.rcv.nxt ∧ off (iss x) u.rcv.nxt ≤ t.sent := by
  have hns : u.state ≠ .SynSent := by rw [hst]; simp
  have hA := hg.conv.full.ack x
  unfold AckLink at hA
  rw [ht, hu] at hA
  have h1 := hA.una t u rfl rfl
  rw [top_of_ne hns, hg.iss_eq x t ht] at h1
  have h2 := (inv_rcv_le_snd s hg.conv.full.inv (room_of_inv hg.conv.c01 hg.room) x t u ht hu hns).1
  rw [hg.iss_eq x t ht] at h2
  exact ⟨h1, by unfold sent; rw [hg.iss_eq x t ht]; exact h2⟩

theorem off_inj {base a b : Seq} (h : off base a = off base b) : a = b := by
  unfold off at h
  have : a - base = b - base := BitVec.eq_of_toNat_eq h
  bv_omega

theorem maxAck_ge (iss : Seq) (gs : List Segment) (g : Segment) (hg : g ∈ gs) : off iss g.hdr.ack ≤ maxAck iss gs := by
  induction gs with
  | nil => cases hg
  | cons x xs ih =>
    simp only [maxAck]
    rcases List.mem_cons.1 hg with rfl | h
    · omega
    · have := ih h; omega

theorem rtxBytes_map_unflag (l : List Transmit) :
    rtxBytes (l.map fun x => { x with needsTransmit := false }) = rtxBytes l := rtxBytes_map_flag l false

/-- **what one side gets out of a phase.**  `ty` (peer `tx`) is steady; it emits (`ty1`, new entries
    `newY`), the peer emits `outX` = its pure ACKs + its new data `newX`; `ty1` then takes `outX`. -/
theorem side_outcome {iss : SideId → Seq} {s2 : Sys} (hg2 : Good iss s2) (y : SideId)
    (ty ty1 tx tx1 : Tcb) (newY newX : List Transmit) (outY outX : List Segment)
    (hty1 : (s2.side y).tcb = some ty1)
    (fY : EmitFx ty newY ty1 outY) (fX : EmitFx tx newX tx1 outX) (SY : SteadyX ty tx) (SX : SteadyX tx ty)
    (hone : (1 ≤ off (iss y) tx.rcv.nxt) ∧
      ∀ h ∈ tx.outgoing.oneshot, h.seq = tx.snd.nxt ∧ h.ctl.rst = false ∧ h.ctl.syn = false ∧ h.ctl.fin = false ∧
        h.ctl.ack = true ∧ 1 ≤ off (iss y) h.ack ∧ off (iss y) h.ack ≤ off (iss y) tx.rcv.nxt)
    (hsq : off (iss y) ty.snd.una ≤ off (iss y) tx.rcv.nxt ∧ off (iss y) tx.rcv.nxt ≤ ty.sent)
    (hissY : ty.snd.iss = iss y) (hsentY : ty.sent < 2147483648)
    (hbelowY : ∀ tr ∈ ty.outgoing.retransmit, off (iss y) (txEnd tr) ≤ ty.sent) :
    ∃ ty2, ty1.arriveList outX = .ok ty2 ∧ ty2.state = .Established ∧ ty2.incoming.segments = [] ∧
      ty2.rcv.nxt = tx1.snd.nxt ∧ ty2.snd.nxt = ty1.snd.nxt ∧ ty2.mtu = ty.mtu ∧
      (∀ tr ∈ ty2.outgoing.retransmit, tr.needsTransmit = false) ∧ ty2.snd.una = ty.snd.nxt ∧
      rtxBytes ty2.outgoing.retransmit ≤ emitAmount ty ∧
      ty2.outgoing.text = ty.outgoing.text.drop (emitAmount ty) ∧
      (emitAmount tx = 0 → ty2.outgoing.oneshot = []) ∧
      (0 < emitAmount tx → ∃ h, ty2.outgoing.oneshot.getLast? = some h ∧ h.ack = ty2.rcv.nxt) := by
  -- the peer's batch
  have houtX : outX = (tx.outgoing.oneshot.map fun h => (⟨h, []⟩ : Segment)) ++ newX.map (·.segment) := by
    rw [fX.out, filter_flag_new _ _ SX.unflag fX.flagged]
  have hrcv1 : ty1.rcv.nxt = tx.snd.nxt := by rw [fY.rcv]; exact SX.sync
  have hΔX : emitAmount tx ≤ 65535 := by
    unfold emitAmount
    have := tx.snd.wnd.isLt
    omega
  have hΔY : emitAmount ty ≤ 65535 := by
    unfold emitAmount
    have := ty.snd.wnd.isLt
    omega
  have hsent1 : ty1.sent = ty.sent + emitAmount ty := by
    unfold sent
    rw [show ty1.snd.iss = ty.snd.iss from by
      have := hg2.iss_eq y ty1 hty1; rw [this, hissY], fY.nxt]
    exact off_add _ _ _ (by unfold sent at hsentY; omega)
  obtain ⟨ty2, e2, bf⟩ := recv_ready hg2 y ty1 hty1 (by rw [fY.st]; exact SY.st) (by rw [fY.inc]; exact SY.heap)
    (by rw [fY.inc]; exact SY.buf) (off (iss y) tx.rcv.nxt) (by rw [fY.una]; exact hsq.1) (by rw [hsent1]; omega)
    tx.outgoing.oneshot (newX.map (·.segment)) tx.localPort tx.remotePort tx.rcv.nxt tx.rcv.wnd
    (fun h hh => by
      obtain ⟨a, b, c, d, e, f, g⟩ := hone.2 h hh
      exact ⟨by rw [hrcv1]; exact a, b, c, d, e, f, g⟩)
    (by rw [hrcv1]; exact fX.run) ⟨hone.1, Nat.le_refl _⟩ (by rw [fX.bytes]; exact hΔX)
  rw [← houtX] at e2 bf
  have hsb : segBytes outX = emitAmount tx := by
    rw [houtX, segBytes_append, segBytes_acks, fX.bytes]; omega
  -- SND.UNA reaches the old SND.NXT
  have hsync : off (iss y) tx.rcv.nxt = ty.sent := by rw [SY.sync]; unfold sent; rw [hissY]
  have hmax : maxAck (iss y) outX ≤ ty.sent := by
    rw [← hsync]
    refine maxAck_le _ _ _ (fun g hg' => ?_)
    rw [houtX] at hg'
    rcases List.mem_append.1 hg' with h | h
    · obtain ⟨x, hx, rfl⟩ := List.mem_map.1 h
      exact (hone.2 x hx).2.2.2.2.2.2
    · exact (ackLe_dataRun (iss y) _ _ _ _ _ hone.1 (Nat.le_refl _) _ _ fX.run g h).2
  have huna : off (iss y) ty2.snd.una = ty.sent := by
    rw [bf.una, fY.una]
    rcases SY.lastack with h | ⟨h, hl, hack⟩
    · have : off (iss y) ty.snd.una = ty.sent := by rw [h]; unfold sent; rw [hissY]
      omega
    · have hm : h ∈ tx.outgoing.oneshot := List.mem_of_getLast? hl
      have : off (iss y) h.ack ≤ maxAck (iss y) outX :=
        maxAck_ge (iss y) outX ⟨h, []⟩ (by rw [houtX]; exact List.mem_append_left _ (List.mem_map.2 ⟨h, hm, rfl⟩))
      rw [hack, hsync] at this
      have := hsq.1
      omega
  have huna' : ty2.snd.una = ty.snd.nxt := by
    apply off_inj (base := iss y)
    rw [huna]; unfold sent; rw [hissY]
  refine ⟨ty2, e2, bf.st, bf.heap, ?_, bf.snxt, by rw [bf.mtu, fY.mtu], ?_, huna', ?_, by rw [bf.otext, fY.text], ?_, ?_⟩
  · rw [bf.nxt, hrcv1, hsb, fX.nxt]
  · intro tr htr
    rw [bf.rtx, fY.rtx] at htr
    obtain ⟨t0, _, rfl⟩ := List.mem_map.1 (List.mem_filter.1 htr).1
    rfl
  · -- only the new entries survive the cumulative ACK of the old SND.NXT
    rw [bf.rtx, fY.rtx, List.map_append, List.filter_append, rtxBytes_append]
    have hold : (ty.outgoing.retransmit.map fun x => { x with needsTransmit := false }).filter (keepFor ty2.snd.una) = [] := by
      apply List.filter_eq_nil_iff.2
      intro tr htr
      obtain ⟨t0, h0, rfl⟩ := List.mem_map.1 htr
      have hend : txEnd ({ t0 with needsTransmit := false } : Transmit) = txEnd t0 := rfl
      have hk := keepFor_iff (iss y) ty2.snd.una { t0 with needsTransmit := false } ty.sent hsentY (by rw [huna]; omega)
        (by rw [hend]; exact hbelowY t0 h0)
      intro hkeep
      have := hk.1 hkeep
      rw [hend, huna] at this
      have := hbelowY t0 h0
      omega
    rw [hold]
    simp only [rtxBytes_nil, Nat.zero_add]
    refine Nat.le_trans (rtxBytes_filter_le _ _) ?_
    rw [rtxBytes_map_unflag, rtxBytes_eq_segBytes, fY.bytes]
    exact Nat.le_refl _
  · intro h0
    rw [bf.oneSame (by rw [hsb]; exact h0), fY.one]
  · intro hpos
    exact bf.oneLast (by rw [hsb]; exact hpos)

/-- the batch a steady side emits: its pure ACKs, then its new data; all addressed to the peer -/
theorem out_shape {iss : SideId → Seq} {s : Sys} (hg : Good iss s) (x : SideId) (t u t1 : Tcb) (new : List Transmit)
    (out : List Segment) (ht : (s.side x).tcb = some t) (S : SteadyX t u) (f : EmitFx t new t1 out) :
    out = (t.outgoing.oneshot.map fun h => (⟨h, []⟩ : Segment)) ++ new.map (·.segment) ∧
      ∀ g ∈ out, g.hdr.srcPort = x.port ∧ g.hdr.dstPort = x.peer.port := by
  have hout : out = (t.outgoing.oneshot.map fun h => (⟨h, []⟩ : Segment)) ++ new.map (·.segment) := by
    rw [f.out, filter_flag_new _ _ S.unflag f.flagged]
  refine ⟨hout, fun g hg' => ?_⟩
  obtain ⟨sb, lp, rp⟩ := (hg.conv.full.inv.link x).snd t ht
  rw [hout] at hg'
  rcases List.mem_append.1 hg' with h | h
  · obtain ⟨y, hy, rfl⟩ := List.mem_map.1 h
    have := sb.oports y hy
    exact ⟨by rw [this.1, lp], by rw [this.2, rp]⟩
  · have := ports_dataRun _ _ _ _ _ _ f.run g h
    exact ⟨by rw [this.1, lp], by rw [this.2, rp]⟩

/-- **one exchange phase from a steady state** -/
theorem phase_steady {iss : SideId → Seq} (s : Sys) (hg : Good iss s) (ta tb : Tcb) (hs : Steady s ta tb) :
    ∃ s' ta' tb', phase s = .ok s' ∧ PlainRun s s' ∧ Good iss s' ∧ Steady s' ta' tb' ∧
      PhaseX ta tb ta' ∧ PhaseX tb ta tb' := by
  have hsa : (s.side .A).tcb = some ta := hs.ha
  have hsb : (s.side .B).tcb = some tb := hs.hb
  -- both sides emit
  obtain ⟨newA, ta1, outA, eA, fA⟩ := segments_fwd ta (by rw [hs.a.st]; trivial) hs.a.mtu
  obtain ⟨s1, r1, st1, h1a, h1p, h1sub, _, h1len, h1new, h1old⟩ := emit_facts s .A ta ta1 outA hsa eA
  have h1b : (s1.side .B).tcb = some tb := by
    have : s1.side .B = s.side .B := h1p
    rw [this]; exact hsb
  obtain ⟨newB, tb1, outB, eB, fB⟩ := segments_fwd tb (by rw [hs.b.st]; trivial) hs.b.mtu
  obtain ⟨s2, r2, st2, h2b, h2p, h2sub, _, h2len, h2new, h2old⟩ := emit_facts s1 .B tb tb1 outB h1b eB
  have h2pa : s2.side .A = s1.side .A := h2p
  have h2a : (s2.side .A).tcb = some ta1 := by rw [h2pa]; exact h1a
  have r02 : PlainRun s s2 :=
    (PlainRun.step (op := .emit .A) (.refl _) trivial st1).trans (.step (op := .emit .B) (.refl _) trivial st2)
  have hsubA2 : (s2.side .A).submitted = (s.side .A).submitted := by rw [h2pa]; exact h1sub
  have hsubB2 : (s2.side .B).submitted = (s.side .B).submitted := by
    rw [h2sub]
    have : s1.side .B = s.side .B := h1p
    rw [this]
  have hroom2 : RoomH s2 := by
    have a := hg.room.1
    have b := hg.room.2
    exact ⟨by show (s2.side .A).submitted.length + 2 < _; rw [hsubA2]; exact a,
      by show (s2.side .B).submitted.length + 2 < _; rw [hsubB2]; exact b⟩
  have hg2 : Good iss s2 := ⟨(ext_run hg.conv hg.ext r02 hroom2).1, (ext_run hg.conv hg.ext r02 hroom2).2, hroom2⟩
  -- what the invariants say at the start
  have oneA := oneshot_facts hg .A ta tb hsa hsb hs.a.st
  have oneB := oneshot_facts hg .B tb ta hsb hsa hs.b.st
  have sqA := squeeze_facts hg .A ta tb hsa hsb hs.b.st
  have sqB := squeeze_facts hg .B tb ta hsb hsa hs.a.st
  obtain ⟨houtA, haA⟩ := out_shape hg .A ta tb ta1 newA outA hsa hs.a fA
  obtain ⟨houtB, haB⟩ := out_shape hg .B tb ta tb1 newB outB hsb hs.b fB
  -- each side takes the other's batch
  obtain ⟨tb2, eb2, b_st, b_heap, b_rcv, b_nxt, b_mtu, b_unf, b_una, b_bytes, b_text, b_one0, b_one1⟩ :=
    side_outcome hg2 .B tb tb1 ta ta1 newB newA outB outA h2b fB fA hs.b hs.a oneA sqB (hg.iss_eq .B tb hsb)
      (hg.sent_lt .B tb hsb) (fun tr htr => (hg.queue .B tb hsb tr htr).2)
  obtain ⟨ta2, ea2, a_st, a_heap, a_rcv, a_nxt, a_mtu, a_unf, a_una, a_bytes, a_text, a_one0, a_one1⟩ :=
    side_outcome hg2 .A ta ta1 tb tb1 newA newB outA outB h2a fA fB hs.a hs.b oneB sqA (hg.iss_eq .A ta hsa)
      (hg.sent_lt .A ta hsa) (fun tr htr => (hg.queue .A ta hsa tr htr).2)
  -- deliveries to B
  have hnA : ∀ j (hj : j < outA.length), s2.nth (s.historyLen + j) = some outA[j] := by
    intro j hj
    rw [h2old _ (by rw [h1len]; omega)]
    exact h1new j hj
  obtain ⟨s3, d3, r23, h3b, h3p, h3sub, _, h3len, h3nth⟩ :=
    batch_facts s2 .B s.historyLen outA tb1 tb2 h2b hnA eb2 (fun g hg' => haA g hg')
  have h3pa : s3.side .A = s2.side .A := h3p
  have h3a : (s3.side .A).tcb = some ta1 := by rw [h3pa]; exact h2a
  -- deliveries to A
  have hnB : ∀ j (hj : j < outB.length), s3.nth (s1.historyLen + j) = some outB[j] := by
    intro j hj
    rw [h3nth]
    exact h2new j hj
  obtain ⟨s4, d4, r34, h4a, h4p, h4sub, _, h4len, h4nth⟩ :=
    batch_facts s3 .A s1.historyLen outB ta1 ta2 h3a hnB ea2 (fun g hg' => haB g hg')
  have h4pb : s4.side .B = s3.side .B := h4p
  have h4b : (s4.side .B).tcb = some tb2 := by rw [h4pb]; exact h3b
  -- both applications read
  obtain ⟨s5, r5, st5, h5a, h5p, h5sub, _⟩ := read_facts s4 .A ta2 h4a a_st
  have h5pb : s5.side .B = s4.side .B := h5p
  have h5b : (s5.side .B).tcb = some tb2 := by rw [h5pb]; exact h4b
  obtain ⟨s6, r6, st6, h6b, h6p, h6sub, _⟩ := read_facts s5 .B tb2 h5b b_st
  have h6pa : s6.side .A = s5.side .A := h6p
  have h6a : (s6.side .A).tcb = some { ta2 with incoming.text := [] } := by rw [h6pa]; exact h5a
  -- the phase, as computed
  have hph : phase s = .ok s6 := by
    unfold phase
    rw [st1]
    dsimp only
    rw [st2]
    dsimp only
    have l1 : s1.historyLen - s.historyLen = outA.length := by omega
    have l2 : s2.historyLen - s1.historyLen = outB.length := by omega
    rw [l1, d3]
    dsimp only
    rw [l2, d4]
    dsimp only
    rw [st5]
    dsimp only
    rw [st6]
  have r06 : PlainRun s s6 :=
    (((r02.trans r23).trans r34).trans (.step (op := .read .A) (.refl _) trivial st5)).trans
      (.step (op := .read .B) (.refl _) trivial st6)
  have hroom6 : RoomH s6 := by
    have a := hg.room.1
    have b := hg.room.2
    have eA6 : (s6.side .A).submitted = (s.side .A).submitted := by
      rw [h6pa, h5sub, h4sub, h3pa, hsubA2]
    have eB6 : (s6.side .B).submitted = (s.side .B).submitted := by
      rw [h6sub, h5pb, h4pb, h3sub, hsubB2]
    exact ⟨by show (s6.side .A).submitted.length + 2 < _; rw [eA6]; exact a,
      by show (s6.side .B).submitted.length + 2 < _; rw [eB6]; exact b⟩
  have hg6 : Good iss s6 := ⟨(ext_run hg.conv hg.ext r06 hroom6).1, (ext_run hg.conv hg.ext r06 hroom6).2, hroom6⟩
  refine ⟨s6, { ta2 with incoming.text := [] }, { tb2 with incoming.text := [] }, hph, r06, hg6,
    ⟨h6a, h6b, ?_, ?_⟩, ⟨a_text, a_una, a_bytes, a_one0⟩, ⟨b_text, b_una, b_bytes, b_one0⟩⟩
  · -- A is steady
    refine ⟨a_st, a_heap, rfl, ?_, a_unf, ?_, by show SPACE_FOR_HEADERS < ta2.mtu.toNat; rw [a_mtu]; exact hs.a.mtu⟩
    · show tb2.rcv.nxt = ta2.snd.nxt
      rw [b_rcv, a_nxt]
    · show ta2.snd.una = ta2.snd.nxt ∨ ∃ h, tb2.outgoing.oneshot.getLast? = some h ∧ h.ack = tb2.rcv.nxt
      by_cases h0 : emitAmount ta = 0
      · left
        rw [a_una, a_nxt, fA.nxt, h0]
        simp
      · exact Or.inr (b_one1 (Nat.pos_of_ne_zero h0))
  · -- B is steady
    refine ⟨b_st, b_heap, rfl, ?_, b_unf, ?_, by show SPACE_FOR_HEADERS < tb2.mtu.toNat; rw [b_mtu]; exact hs.b.mtu⟩
    · show ta2.rcv.nxt = tb2.snd.nxt
      rw [a_rcv, b_nxt]
    · show tb2.snd.una = tb2.snd.nxt ∨ ∃ h, ta2.outgoing.oneshot.getLast? = some h ∧ h.ack = ta2.rcv.nxt
      by_cases h0 : emitAmount tb = 0
      · left
        rw [b_una, b_nxt, fB.nxt, h0]
        simp
      · exact Or.inr (a_one1 (Nat.pos_of_ne_zero h0))

end Elvis.Tcp
