//! C17: correspondence + oracle runs (sub-commands `c17` / `c17-*`).
use hcommon::*;

pub fn run(args: &Args) {
    super::c01::run(args)
}
