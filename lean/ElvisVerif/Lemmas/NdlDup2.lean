import ElvisVerif.Lemmas.NdlWhole2
import ElvisVerif.Lemmas.NdlTotal2
/-!
# NDL: a network id of an earlier `[Networks]` block used again — whatever follows

`DupFile.otherBlock` (`Lemmas/NdlReject2.lean`) asks the second block to read to its end, because
that is where the code compares its ids with the earlier ones.  Here nothing is asked of the text
after the repeated id: the loop of `networks_parser` only ever *adds* to the map it is building, so
if the block is read at all the repeated id is in what it hands to `core_parser`, whose merge
refuses it.  The outcome is therefore never a `Sim`; by totality it is a reported error whenever
the text has fewer than 2^31 − 1 lines.
-/
namespace Elvis.Ndl
open Elvis.Gen.Ndl

/-- `networks_parser`'s loop never drops an entry it has already accepted -/
theorem networksLoop_mono (nt : Nat) : ∀ (fuel : Nat) (s : Text) (l : Nat) (seen r : List (Text × Network))
    (rest : Text) (l' : Nat), networksLoop nt fuel s l seen = .ok (r, rest, l') → ∀ e ∈ seen, e ∈ r
  | 0, s, l, seen, r, rest, l', h => by simp [networksLoop] at h
  | fuel + 1, s, l, seen, r, rest, l', h => by
    unfold networksLoop at h
    split at h
    · cases h; exact fun e he => he
    · simp only [] at h
      split at h
      · cases h; exact fun e he => he
      · split at h
        · cases h
        · split at h
          · cases h
          · split at h
            · cases h
            · split at h
              · split at h
                · cases h
                · split at h
                  · cases h
                  · split at h
                    · cases h
                    · intro e he
                      exact networksLoop_mono nt fuel _ _ _ r rest l' h e (List.mem_append_left _ he)
              · cases h

/-- inside the body of a `[Networks]` block: entries that read as entries, then one whose id is
    among `ids` (the ids of earlier blocks); nothing about what follows it -/
inductive DupAcross (ids : List Text) : Text → Nat → Prop
  | here {id n s l rest l'} : NetworkAt id n s l rest l' → id ∈ ids → DupAcross ids s l
  | later {id n s l rest l'} : NetworkAt id n s l rest l' → DupAcross ids rest l' → DupAcross ids s l

theorem dupAcross_result {ids s l} (h : DupAcross ids s l) :
    ∀ fuel seen r rest l', s.length < fuel → networksLoop 1 fuel s l seen = .ok (r, rest, l') →
      ∃ id, id ∈ ids ∧ id ∈ r.map (·.1) := by
  induction h with
  | @here id n s l rest0 l0 h hi =>
    intro fuel seen r rest l' hf hr
    obtain ⟨f, rfl⟩ : ∃ f, fuel = f + 1 := ⟨fuel - 1, by omega⟩
    rw [networksLoop_network h] at hr
    split at hr
    · cases hr
    · have := networksLoop_mono 1 f _ _ _ r rest l' hr (id, n) (by simp)
      exact ⟨id, hi, List.mem_map.2 ⟨(id, n), this, rfl⟩⟩
  | @later id n s l rest0 l0 h _ ih =>
    intro fuel seen r rest l' hf hr
    obtain ⟨f, rfl⟩ : ∃ f, fuel = f + 1 := ⟨fuel - 1, by omega⟩
    have := h.2.2.length
    rw [networksLoop_network h] at hr
    split at hr
    · cases hr
    · exact ih f _ r rest l' (by omega) hr

/-- the file: blocks that read as blocks (ids collected), then a `[Networks]` block that comes to
    an id of an earlier block -/
inductive DupFileAny : List Text → Text → Nat → Prop
  | block {ids ps s l tail l'} : LineAt 0 .networks ps s l tail l' → DupAcross ids tail l' → DupFileAny ids s l
  | later {ids b s l rest l'} : BlockAt b s l rest l' → DupFileAny (ids ++ b.ids) rest l' → DupFileAny ids s l

theorem dupFileAny_not_ok {ids s l} (h : DupFileAny ids s l) :
    ∀ fuel nets ms sim, nets.map (·.1) = ids → s.length < fuel → coreLoop fuel s l nets ms ≠ .ok sim := by
  induction h with
  | @block ids ps s l tail l' h1 h2 =>
    intro fuel nets ms sim hs hf
    obtain ⟨f, rfl⟩ : ∃ f, fuel = f + 1 := ⟨fuel - 1, by omega⟩
    rw [coreLoop_line h1]
    simp only [networksParser]
    cases hr : networksLoop 1 (tail.length + 1) tail l' [] with
    | error e => intro h; cases h
    | ok p =>
      obtain ⟨r, rest, l2⟩ := p
      obtain ⟨id, hi, hin⟩ := dupAcross_result h2 _ [] r rest l2 (Nat.lt_succ_self _) hr
      simp only [mergeNets_dup r nets id (by rw [hs]; exact hi) hin]
      intro h; cases h
  | @later ids b s l rest l' hb _ ih =>
    intro fuel nets ms sim hs hf
    obtain ⟨f, rfl⟩ : ∃ f, fuel = f + 1 := ⟨fuel - 1, by omega⟩
    have := hb.length
    rw [coreLoop_block hb]
    cases hst : stepBlock nets ms b with
    | error e => intro h; cases h
    | ok p =>
      obtain ⟨nets', ms'⟩ := p
      exact ih f nets' ms' sim (by rw [stepBlock_ids hst, hs]) (by omega)

theorem build_not_ok_dup {s : Text} (h : DupFileAny [] s 1) (sim : Sim) : build s ≠ .ok sim :=
  dupFileAny_not_ok h _ [] [] sim rfl (Nat.lt_succ_self _)

/-- … and with fewer than 2^31 − 1 lines it is a reported error -/
theorem parse_dup_any_tail (text : Text) (h : DupFileAny [] (normalise text) 1) (hl : nlCount text < i32Max) :
    ∃ k n, parse text = .error (.err k n) := by
  rcases parse_total_lines text hl with ⟨sim, hs⟩ | h2
  · exact absurd hs (build_not_ok_dup h sim)
  · exact h2

theorem dupFileAny_after_doc {bs s l rest l'} (h : DocAt bs s l rest l') :
    ∀ ids, DupFileAny (ids ++ bs.flatMap Block.ids) rest l' → DupFileAny ids s l := by
  induction h with
  | nil => intro ids h2; simpa using h2
  | cons hb _ ih =>
    intro ids h2
    refine DupFileAny.later hb (ih _ ?_)
    simpa [List.append_assoc] using h2

end Elvis.Ndl
