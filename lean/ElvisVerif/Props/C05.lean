import ElvisVerif.Model.Link
import ElvisVerif.Generated.Consts
/-!
# C05 — The simulated link delivers frames as configured, to the right taps

Statements over `Model/Link.lean` for ARBITRARY networks, tap sets, frames, send sequences and
random draws (no enumeration).  Timing is at the granularity the API has: the code sleeps whole
milliseconds and carries the sub-millisecond remainder to the next frame.
-/
namespace Elvis.Link

/-- the constants of the model are the ones in the sources now -/
theorem c05_consts :
    broadcastMac = Elvis.Gen.broadcastMac ∧ nsPerSec = Elvis.Gen.txNsPerSec ∧ nsPerMs = Elvis.Gen.txNsPerMs ∧
    broadcastMac = 2 ^ 48 - 1 ∧ Elvis.Gen.mtuDefault = 65535 ∧ broadcastMac < 2 ^ Elvis.Gen.macBits := by
  decide

/-! ## MAC allocation -/

structure Net.WF (n : Net) : Prop where
  nodup : n.taps.Nodup
  below : ∀ t ∈ n.taps, t < n.nextMac

/-- **c05_mac_distinct.** Attaching a tap hands out the counter value, which no earlier tap of
the network has; the invariant (all taps distinct, all below the counter) is kept. -/
theorem c05_mac_distinct (n : Net) (h : n.WF) :
    (attach n).2 = n.nextMac ∧ (attach n).2 ∉ n.taps ∧ (attach n).1.WF ∧
    (attach n).1.taps = n.taps ++ [(attach n).2] := by
  have hn : n.nextMac ∉ n.taps := fun hm => Nat.lt_irrefl _ (h.below _ hm)
  refine ⟨rfl, hn, ⟨?_, ?_⟩, rfl⟩
  · show (n.taps ++ [n.nextMac]).Nodup
    rw [List.nodup_append]
    refine ⟨h.nodup, by simp, ?_⟩
    intro a ha b hb
    simp at hb; subst hb
    intro hab; subst hab; exact hn ha
  · intro t ht
    have ht' : t ∈ n.taps ++ [n.nextMac] := ht
    show t < n.nextMac + 1
    rw [List.mem_append] at ht'
    rcases ht' with h1 | h1
    · exact Nat.lt_succ_of_lt (h.below _ h1)
    · simp at h1; subst h1; exact Nat.lt_succ_self _

theorem attachMany_WF (n : Net) (k : Nat) (h : n.WF) : (attachMany n k).WF := by
  induction k generalizing n with
  | zero => exact h
  | succ k ih => exact ih _ (c05_mac_distinct n h).2.2.1

theorem attachMany_nextMac (n : Net) (k : Nat) : (attachMany n k).nextMac = n.nextMac + k := by
  induction k generalizing n with
  | zero => rfl
  | succ k ih => rw [attachMany, ih]; simp [attach]; omega

/-- **c05_mac_never_broadcast.** As long as fewer than 2^48 - 1 taps were attached to a network
(counter at most the broadcast address), no tap has the broadcast address; from a fresh network
the k-th tap gets MAC k, so the allocator is injective. -/
theorem c05_mac_never_broadcast (n : Net) (h : n.WF) (hc : n.nextMac ≤ broadcastMac) : broadcastMac ∉ n.taps :=
  fun hm => Nat.lt_irrefl _ (Nat.lt_of_lt_of_le (h.below _ hm) hc)

theorem fresh_WF (n : Net) (_h0 : n.nextMac = 0) (ht : n.taps = []) : n.WF :=
  ⟨by rw [ht]; exact List.nodup_nil, by rw [ht]; intro t h; cases h⟩

theorem c05_mac_fresh (n : Net) (h0 : n.nextMac = 0) (ht : n.taps = []) (k : Nat) :
    (attachMany n k).taps = List.range k := by
  suffices H : ∀ (j : Nat) (m : Net), m.nextMac = j → m.taps = List.range j →
      (attachMany m k).taps = List.range (j + k) by
    have := H 0 n h0 (by rw [ht]; rfl); simpa using this
  induction k with
  | zero => intro j m _ h2; simpa [attachMany] using h2
  | succ k ih =>
    intro j m h1 h2
    rw [attachMany]
    have := ih (j + 1) (attach m).1 (by simp [attach, h1]) (by simp [attach, h1, h2, List.range_succ])
    rw [this]; congr 1; omega

/-! ## Who gets a frame -/

/-- **c05_unicast_exact.** A frame to the address of a tap goes to that tap and to no other,
exactly once. -/
theorem c05_unicast_exact (n : Net) (d : Mac) (hb : d ≠ broadcastMac) (hd : d ∈ n.taps) :
    recipients n (some d) = [d] := by
  simp [recipients, hb, hd]

/-- **c05_unknown_dropped.** A frame to an address no tap has reaches nobody. -/
theorem c05_unknown_dropped (n : Net) (f : Frame) (d : Mac) (hf : f.dest = some d) (hb : d ≠ broadcastMac)
    (hd : d ∉ n.taps) : deliver n f = [] := by
  simp [deliver, recipients, hf, hb, hd]

theorem count_one_of_nodup (l : List Nat) (t : Nat) (h : l.Nodup) (ht : t ∈ l) : l.count t = 1 := by
  induction l with
  | nil => cases ht
  | cons x xs ih =>
    have hx := List.nodup_cons.mp h
    by_cases hxt : x = t
    · subst hxt; simp [List.count_eq_zero_of_not_mem hx.1]
    · have hin : t ∈ xs := by
        rcases List.mem_cons.mp ht with h' | h'
        · exact absurd h'.symm hxt
        · exact h'
      simp [hxt, ih hx.2 hin]

/-- **c05_broadcast_all_others.** A broadcast frame (`None` or the broadcast address) is handed
to every tap of the network — in particular to every tap other than the sender — once each.
(The code also hands it to the sender's own tap; the property does not forbid that.) -/
theorem c05_broadcast_all_others (n : Net) (h : n.WF) (dest : Option Mac)
    (hd : dest = none ∨ dest = some broadcastMac) :
    recipients n dest = n.taps ∧
    ∀ sender t, t ∈ n.taps → t ≠ sender → t ∈ recipients n dest ∧ (recipients n dest).count t = 1 := by
  have hr : recipients n dest = n.taps := by
    rcases hd with hd | hd <;> simp [recipients, hd]
  refine ⟨hr, fun _ t ht _ => ⟨by rw [hr]; exact ht, ?_⟩⟩
  rw [hr]; exact count_one_of_nodup _ _ h.nodup ht

/-- **c05_payload_sender_unchanged.** Whatever a tap hands up carries the message, the sender
address and the destination field of the frame as sent, and the MTU of the network. -/
theorem c05_payload_sender_unchanged (n : Net) (f : Frame) (r : Received) (hr : r ∈ deliver n f) :
    r.msg = f.msg ∧ r.source = f.sender ∧ r.destination = f.dest ∧ r.mtu = n.mtu ∧ r.tap ∈ recipients n f.dest := by
  simp only [deliver, List.mem_map] at hr
  obtain ⟨t, ht, rfl⟩ := hr
  exact ⟨rfl, rfl, rfl, rfl, ht⟩

theorem recipients_nodup (n : Net) (h : n.WF) (dest : Option Mac) : (recipients n dest).Nodup := by
  unfold recipients
  cases dest with
  | none => exact h.nodup
  | some d =>
    simp only []
    split
    · exact h.nodup
    · split
      · simp
      · exact List.nodup_nil

/-- every tap gets a frame once if it is a recipient, never otherwise -/
theorem deliver_count (n : Net) (h : n.WF) (f : Frame) (t : Mac) :
    ((deliver n f).filter (fun r => r.tap = t)).length = if t ∈ recipients n f.dest then 1 else 0 := by
  have hnd := recipients_nodup n h f.dest
  simp only [deliver]
  generalize recipients n f.dest = l at hnd
  induction l with
  | nil => simp
  | cons x xs ih =>
    have hx := (List.nodup_cons.mp hnd)
    simp only [List.map_cons, List.filter_cons]
    by_cases hxt : x = t
    · subst hxt
      have : ((xs.map fun t' => ({ tap := t', source := f.sender, destination := f.dest, mtu := n.mtu, msg := f.msg } : Received)).filter (fun r => r.tap = x)).length = 0 := by
        rw [ih hx.2]; simp [hx.1]
      simp [this]
    · have hne : ¬ (x = t) := hxt
      simp only [hne, decide_false, Bool.false_eq_true, if_false]
      rw [ih hx.2]
      simp [List.mem_cons, Ne.symm hxt]

theorem runSends_frames_lossfree (n : Net) (m : Medium) (sends : List Send)
    (hl : ∀ s ∈ sends, s.choice.lost = false) :
    (runSends n m sends).map (·.frame) = sends.map (·.frame) := by
  induction sends generalizing m with
  | nil => rfl
  | cons s rest ih =>
    have h1 := hl s (by simp)
    simp only [runSends, h1, Bool.false_eq_true, if_false, List.map_cons]
    rw [ih _ (fun x hx => hl x (List.mem_cons_of_mem _ hx))]

theorem runSends_received (n : Net) (m : Medium) (sends : List Send) :
    ∀ o ∈ runSends n m sends, o.received = deliver n o.frame := by
  induction sends generalizing m with
  | nil => intro o ho; cases ho
  | cons s rest ih =>
    intro o ho
    simp only [runSends] at ho
    split at ho
    · exact ih _ o ho
    · rcases List.mem_cons.mp ho with h | h
      · subst h; rfl
      · exact ih _ o h

/-- **c05_exactly_once_lossfree.** On a loss-free network every frame handed to the network
comes out exactly once, in queue order, and is handed exactly once to each of its recipients
and never to any other tap. -/
theorem c05_exactly_once_lossfree (n : Net) (h : n.WF) (m : Medium) (sends : List Send)
    (hl : ∀ s ∈ sends, s.choice.lost = false) :
    (runSends n m sends).map (·.frame) = sends.map (·.frame) ∧
    ∀ o ∈ runSends n m sends, ∀ t,
      (o.received.filter (fun r => r.tap = t)).length = if t ∈ recipients n o.frame.dest then 1 else 0 := by
  refine ⟨runSends_frames_lossfree n m sends hl, ?_⟩
  intro o ho t
  rw [runSends_received n m sends o ho]
  exact deliver_count n h o.frame t

/-- with losses frames may vanish but are never duplicated or reordered -/
theorem c05_never_duplicated (n : Net) (m : Medium) (sends : List Send) :
    List.Sublist ((runSends n m sends).map (·.frame)) (sends.map (·.frame)) := by
  induction sends generalizing m with
  | nil => exact List.Sublist.slnil
  | cons s rest ih =>
    simp only [runSends]
    split
    · exact List.Sublist.cons _ (ih _)
    · simp only [List.map_cons]; exact List.Sublist.cons_cons _ (ih _)

/-! ## MTU -/

/-- the frames handed to `Network::send` so far -/
structure Sys where
  net : Net
  onWire : List Frame

def Sys.sendPci (s : Sys) (f : Frame) : Sys × Except SendErr Unit :=
  match Elvis.Link.sendPci s.net f with
  | .ok f' => ({ s with onWire := s.onWire ++ [f'] }, .ok ())
  | .error e => (s, .error e)

/-- **c05_mtu_refused.** A frame longer than the MTU is refused with an error and nothing is put
on the wire; a frame of exactly the MTU (or shorter) is accepted and goes on the wire unchanged. -/
theorem c05_mtu_refused (s : Sys) (f : Frame) :
    (f.msg.length > s.net.mtu → s.sendPci f = (s, .error (.mtu s.net.mtu))) ∧
    (f.msg.length ≤ s.net.mtu → s.sendPci f = ({ s with onWire := s.onWire ++ [f] }, .ok ())) ∧
    (f.msg.length = s.net.mtu → (s.sendPci f).2 = .ok ()) := by
  refine ⟨?_, ?_, ?_⟩
  · intro h; simp [Sys.sendPci, Elvis.Link.sendPci, h]
  · intro h; simp [Sys.sendPci, Elvis.Link.sendPci, Nat.not_lt.mpr h]
  · intro h; simp [Sys.sendPci, Elvis.Link.sendPci, h]

/-! ## Timing -/

theorem le_ceilMs (x : Nat) : x ≤ ceilMs x := by
  unfold ceilMs usPerMs; omega

theorem le_wake (now d : Nat) : now + d ≤ wake now d := by
  unfold wake; split
  · omega
  · exact le_ceilMs _

theorem wake_mono {a b c d : Nat} (h1 : a ≤ b) (h2 : c ≤ d) : wake a c ≤ wake b d := by
  unfold wake
  by_cases hc : c = 0
  · subst hc
    by_cases hd : d = 0
    · simp [hd]; exact h1
    · simp [hd]; exact Nat.le_trans (by omega) (le_ceilMs _)
  · have hd : d ≠ 0 := by omega
    simp only [hc, hd, if_false]
    unfold ceilMs usPerMs
    have : a + c ≤ b + d := by omega
    omega

/-- **c05_latency_lower_bound.** No frame is handed to a tap earlier than the configured base
latency after it reached the network, whatever the draws and the state of the medium. -/
theorem c05_latency_lower_bound (n : Net) (m : Medium) (t0 len : Nat) (c : Choice) (hc : c.valid n) :
    t0 + n.latBase ≤ (transmit m t0 len c).2.deliver ∧ t0 ≤ (transmit m t0 len c).2.start ∧
    (transmit m t0 len c).2.start ≤ (transmit m t0 len c).2.done := by
  have hl : n.latBase ≤ c.lat := hc.2.1
  unfold transmit
  split
  · refine ⟨?_, Nat.le_refl _, Nat.le_refl _⟩
    exact Nat.le_trans (by omega) (le_wake t0 c.lat)
  · simp only []
    have h1 : t0 ≤ max t0 m.free := Nat.le_max_left _ _
    have h2 := le_wake (max t0 m.free) (txNs len c.thr m.carry / nsPerMs * usPerMs)
    have h3 := le_wake (wake (max t0 m.free) (txNs len c.thr m.carry / nsPerMs * usPerMs)) c.lat
    refine ⟨by omega, h1, by omega⟩

/-- the same for every frame of a whole run -/
theorem c05_latency_lower_bound_run (n : Net) (m : Medium) (sends : List Send)
    (hv : ∀ s ∈ sends, s.choice.valid n) :
    ∀ o ∈ runSends n m sends, ∃ s ∈ sends, o.frame = s.frame ∧ s.t0 + n.latBase ≤ o.timing.deliver := by
  induction sends generalizing m with
  | nil => intro o ho; cases ho
  | cons s rest ih =>
    intro o ho
    simp only [runSends] at ho
    split at ho
    · obtain ⟨s', hs', h'⟩ := ih _ (fun x hx => hv x (List.mem_cons_of_mem _ hx)) o ho
      exact ⟨s', List.mem_cons_of_mem _ hs', h'⟩
    · rcases List.mem_cons.mp ho with h | h
      · subst h
        exact ⟨s, by simp, rfl, (c05_latency_lower_bound n m s.t0 _ s.choice (hv s (by simp))).1⟩
      · obtain ⟨s', hs', h'⟩ := ih _ (fun x hx => hv x (List.mem_cons_of_mem _ hx)) o h
        exact ⟨s', List.mem_cons_of_mem _ hs', h'⟩

/-! ### Throughput -/

/-- transmissions follow one another: each starts when or after the previous one is done -/
def Serial : Nat → List WireOut → Prop
  | _, [] => True
  | lo, o :: os => lo ≤ o.timing.start ∧ o.timing.start ≤ o.timing.done ∧ Serial o.timing.done os

/-- **c05_serial.** With a throughput configured, frames occupy the medium one after another in
queue order (FIFO permit). -/
theorem transmit_thr (m : Medium) (t0 len : Nat) (c : Choice) (h : c.thr ≠ 0) :
    transmit m t0 len c =
      ({ free := wake (max t0 m.free) (txNs len c.thr m.carry / nsPerMs * usPerMs), carry := txNs len c.thr m.carry % nsPerMs },
       ⟨max t0 m.free, wake (max t0 m.free) (txNs len c.thr m.carry / nsPerMs * usPerMs),
        wake (wake (max t0 m.free) (txNs len c.thr m.carry / nsPerMs * usPerMs)) c.lat⟩) := by
  simp [transmit, h]

theorem c05_serial (n : Net) (m : Medium) (sends : List Send) (ht : ∀ s ∈ sends, 0 < s.choice.thr) :
    Serial m.free (runSends n m sends) := by
  induction sends generalizing m with
  | nil => trivial
  | cons s rest ih =>
    have hs : s.choice.thr ≠ 0 := Nat.pos_iff_ne_zero.mp (ht s (by simp))
    have hrest := fun x hx => ht x (List.mem_cons_of_mem _ hx)
    simp only [runSends]
    split
    · exact ih m hrest
    · have hi := ih (transmit m s.t0 s.frame.msg.length s.choice).1 hrest
      rw [transmit_thr m s.t0 _ s.choice hs] at hi ⊢
      simp only [Serial]
      exact ⟨Nat.le_max_right _ _, Nat.le_trans (Nat.le_add_right _ _) (le_wake _ _), hi⟩

/-- state of the medium after a sequence of sends -/
def finalMedium : Medium → List Send → Medium
  | m, [] => m
  | m, s :: rest => if s.choice.lost then finalMedium m rest else finalMedium (transmit m s.t0 s.frame.msg.length s.choice).1 rest

theorem runSends_append (n : Net) (m : Medium) (a b : List Send) :
    runSends n m (a ++ b) = runSends n m a ++ runSends n (finalMedium m a) b := by
  induction a generalizing m with
  | nil => rfl
  | cons s rest ih =>
    simp only [List.cons_append, runSends, finalMedium]
    split
    · exact ih m
    · simp only [List.cons_append]; rw [ih]

def bytes (sends : List Send) : Nat := (sends.map (·.frame.msg.length)).sum

/-- `len * 10^9 < T * (len * 10^9 / thr + 1)` for `0 < thr ≤ T` -/
theorem len_lt (len thr T : Nat) (h0 : 0 < thr) (hT : thr ≤ T) :
    len * nsPerSec < T * (len * nsPerSec / thr + 1) :=
  Nat.lt_of_lt_of_le (Nat.lt_mul_div_succ (len * nsPerSec) h0) (Nat.mul_le_mul_right _ hT)

/-- Accounting over a segment of sends served from medium state `m` (all with a throughput,
none lost): the medium is busy until at least `start + Σ ms`, and
`Σ len·10^9 < T · (Σ ms·10^6 + carry_end − carry_start + count)`.  Stated with additions only. -/
theorem segment_account (T : Nat) (m : Medium) (sends : List Send)
    (hl : ∀ s ∈ sends, s.choice.lost = false) (ht : ∀ s ∈ sends, 0 < s.choice.thr ∧ s.choice.thr ≤ T) :
    ∃ busyMs : Nat,
      m.free + busyMs * usPerMs ≤ (finalMedium m sends).free ∧
      (∀ s0 rest, sends = s0 :: rest → max s0.t0 m.free + busyMs * usPerMs ≤ (finalMedium m sends).free) ∧
      bytes sends * nsPerSec + T * m.carry ≤ T * (busyMs * nsPerMs + (finalMedium m sends).carry + sends.length) := by
  induction sends generalizing m with
  | nil =>
    refine ⟨0, ?_, ?_, ?_⟩
    · simp [finalMedium]
    · intro _ _ h; cases h
    · simp [finalMedium, bytes]
  | cons s rest ih =>
    have h1 := hl s (by simp)
    obtain ⟨hpos, hle⟩ := ht s (by simp)
    have hne : s.choice.thr ≠ 0 := Nat.pos_iff_ne_zero.mp hpos
    obtain ⟨b, hb1, _, hb3⟩ := ih (transmit m s.t0 s.frame.msg.length s.choice).1
      (fun x hx => hl x (List.mem_cons_of_mem _ hx)) (fun x hx => ht x (List.mem_cons_of_mem _ hx))
    have hfm : finalMedium m (s :: rest) = finalMedium (transmit m s.t0 s.frame.msg.length s.choice).1 rest := by
      simp [finalMedium, h1]
    rw [hfm]
    rw [transmit_thr m s.t0 _ s.choice hne] at hb1 hb3 ⊢
    simp only [] at hb1 hb3 ⊢
    have hlen := len_lt s.frame.msg.length s.choice.thr T hpos hle
    have hnsdef : txNs s.frame.msg.length s.choice.thr m.carry = s.frame.msg.length * nsPerSec / s.choice.thr + m.carry := rfl
    generalize txNs s.frame.msg.length s.choice.thr m.carry = ns at hb1 hb3 hnsdef ⊢
    have hw := le_wake (max s.t0 m.free) (ns / nsPerMs * usPerMs)
    have hmax : m.free ≤ max s.t0 m.free := Nat.le_max_right _ _
    generalize wake (max s.t0 m.free) (ns / nsPerMs * usPerMs) = w at hb1 hb3 hw ⊢
    generalize hmx : max s.t0 m.free = mx at hw hmax ⊢
    generalize hfin : finalMedium { free := w, carry := ns % nsPerMs } rest = fm at hb1 hb3 ⊢
    have hsplit : (ns / nsPerMs + b) * usPerMs = ns / nsPerMs * usPerMs + b * usPerMs := Nat.add_mul _ _ _
    refine ⟨ns / nsPerMs + b, by omega, ?_, ?_⟩
    · intro s0 rest' heq
      cases heq
      rw [hmx]
      omega
    · have hdm : ns / nsPerMs * nsPerMs + ns % nsPerMs = ns := by
        rw [Nat.mul_comm]; exact Nat.div_add_mod ns nsPerMs
      have hbytes : bytes (s :: rest) = s.frame.msg.length + bytes rest := by simp [bytes]
      rw [hbytes, Nat.add_mul]
      generalize s.frame.msg.length * nsPerSec / s.choice.thr = q at hlen hnsdef
      generalize bytes rest * nsPerSec = B at hb3 ⊢
      generalize s.frame.msg.length * nsPerSec = L at hlen ⊢
      have hlen1 : (s :: rest).length = rest.length + 1 := rfl
      rw [hlen1]
      have e1 : T * ((ns / nsPerMs + b) * nsPerMs + fm.carry + (rest.length + 1)) =
          T * (ns / nsPerMs * nsPerMs) + T * (b * nsPerMs + fm.carry + rest.length) + T := by
        rw [Nat.add_mul]; simp only [Nat.mul_add, Nat.mul_one]; omega
      have e2 : T * (q + 1) = T * q + T := by rw [Nat.mul_add, Nat.mul_one]
      have e3 : T * ns = T * (ns / nsPerMs * nsPerMs) + T * (ns % nsPerMs) := by
        rw [← Nat.mul_add, hdm]
      have e4 : T * ns = T * q + T * m.carry := by rw [hnsdef, Nat.mul_add]
      rw [e1]
      rw [e2] at hlen
      omega

/-- **c05_throughput_bound.** For ANY medium state `m` (= after any earlier traffic) and any
consecutive frames `s0 :: rest` that pass through a medium whose throughput draws are at most
`T` bytes/s: the medium is released for the last of them no earlier than the instant the first
got it plus the transmission times, and the bytes transmitted satisfy

  bytes · 10^9  ≤  T · (elapsed_ns + 10^6 + count)

where `elapsed` runs from the start of the first transmission to the end of the last: the
configured rate, up to one millisecond (timer granularity; the sub-millisecond remainder is
carried from frame to frame) and one nanosecond per frame (integer division).  Together with
`c05_serial` this is "bytes completed in any window ≤ rate · window + one frame": the frames
completing inside a window are consecutive, and all but the first start inside it. -/
theorem c05_throughput_bound (T : Nat) (m : Medium) (s0 : Send) (rest : List Send)
    (hl : ∀ s ∈ s0 :: rest, s.choice.lost = false)
    (ht : ∀ s ∈ s0 :: rest, 0 < s.choice.thr ∧ s.choice.thr ≤ T)
    (hcarry : m.carry < nsPerMs) :
    let startFirst := max s0.t0 m.free
    let doneLast := (finalMedium m (s0 :: rest)).free
    startFirst ≤ doneLast ∧
    bytes (s0 :: rest) * nsPerSec ≤ T * ((doneLast - startFirst) * 1000 + nsPerMs + (rest.length + 1)) := by
  obtain ⟨b, _, hb2, hb3⟩ := segment_account T m (s0 :: rest) hl ht
  have hb2' := hb2 s0 rest rfl
  have hcend : (finalMedium m (s0 :: rest)).carry < nsPerMs := by
    -- the carry is always a remainder modulo 10^6
    suffices H : ∀ (sends : List Send) (m : Medium), m.carry < nsPerMs → (finalMedium m sends).carry < nsPerMs from H _ m hcarry
    intro sends
    induction sends with
    | nil => intro m h; exact h
    | cons s r ih =>
      intro m h
      simp only [finalMedium]
      split
      · exact ih m h
      · apply ih
        unfold transmit
        split
        · exact h
        · exact Nat.mod_lt _ (by decide)
  simp only []
  refine ⟨by omega, ?_⟩
  generalize (finalMedium m (s0 :: rest)).free = fin at hb2' ⊢
  generalize (finalMedium m (s0 :: rest)).carry = cend at hb3 hcend
  have hlen : (s0 :: rest).length = rest.length + 1 := rfl
  rw [hlen] at hb3
  have hus : usPerMs = 1000 := rfl
  have hms : nsPerMs = 1000 * usPerMs := rfl
  -- busy ns ≤ elapsed ns
  have hel : b * nsPerMs ≤ (fin - max s0.t0 m.free) * 1000 := by
    have : b * usPerMs ≤ fin - max s0.t0 m.free := by omega
    calc b * nsPerMs = (b * usPerMs) * 1000 := by rw [hms, hus]; omega
      _ ≤ (fin - max s0.t0 m.free) * 1000 := Nat.mul_le_mul_right _ this
  have hmono : T * (b * nsPerMs + cend + (rest.length + 1)) ≤
      T * ((fin - max s0.t0 m.free) * 1000 + nsPerMs + (rest.length + 1)) :=
    Nat.mul_le_mul_left _ (by omega)
  omega

/-- with a constant throughput `thr` the bound reads: rate · (elapsed + 1 ms) + count ns-slack -/
theorem c05_throughput_bound_constant (n : Net) (hr : n.thrRand = 0) (hb : 0 < n.thrBase)
    (m : Medium) (s0 : Send) (rest : List Send)
    (hl : ∀ s ∈ s0 :: rest, s.choice.lost = false) (hv : ∀ s ∈ s0 :: rest, s.choice.valid n)
    (hcarry : m.carry < nsPerMs) :
    bytes (s0 :: rest) * nsPerSec ≤
      n.thrBase * (((finalMedium m (s0 :: rest)).free - max s0.t0 m.free) * 1000 + nsPerMs + (rest.length + 1)) := by
  have ht : ∀ s ∈ s0 :: rest, 0 < s.choice.thr ∧ s.choice.thr ≤ n.thrBase := by
    intro s hs
    have := (hv s hs).1
    simp only [hr, if_true] at this
    rw [this]; exact ⟨hb, Nat.le_refl _⟩
  exact (c05_throughput_bound n.thrBase m s0 rest hl ht hcarry).2

/-! ### The interval arithmetic of the driver is sound for the exact model -/

def Medium.within (m : Medium) (mi : MediumI) : Prop :=
  mi.freeLo ≤ m.free ∧ m.free ≤ mi.freeHi ∧ mi.carryLo ≤ m.carry ∧ m.carry ≤ mi.carryHi

theorem txNs_mono {len a b c d : Nat} (hb : 0 < a) (hab : a ≤ b) (hcd : c ≤ d) :
    txNs len b c ≤ txNs len a d := by
  unfold txNs
  exact Nat.add_le_add (Nat.div_le_div_left hab hb) hcd

theorem msUs_mono {a b : Nat} (h : a ≤ b) : a / nsPerMs * usPerMs ≤ b / nsPerMs * usPerMs :=
  Nat.mul_le_mul_right _ (Nat.div_le_div_right h)

/-- **c05_interval_sound.** Whatever the (valid) draws: if the exact medium state lies in the
interval state, then after `transmit` it lies in the interval state computed by `transmitI`, and
the delivery instant lies in the computed interval.  (`thrBase = 0` with `thrRand > 0` — a
"throughput" that may draw 0 = unlimited — is excluded.) -/
theorem c05_interval_sound (n : Net) (hn : n.thrRand = 0 ∨ 0 < n.thrBase) (m : Medium) (mi : MediumI)
    (h : m.within mi) (t0 len : Nat) (c : Choice) (hc : c.valid n) :
    (transmit m t0 len c).1.within (transmitI n mi t0 len).1 ∧
    (transmitI n mi t0 len).2.deliverLo ≤ (transmit m t0 len c).2.deliver ∧
    (transmit m t0 len c).2.deliver ≤ (transmitI n mi t0 len).2.deliverHi := by
  obtain ⟨hthr, hl1, hl2⟩ := hc
  obtain ⟨hf1, hf2, hc1, hc2⟩ := h
  by_cases hb : n.thrBase = 0
  · have hr : n.thrRand = 0 := by rcases hn with h | h; exact h; omega
    have hc0 : c.thr = 0 := by simp only [hr, if_true] at hthr; omega
    simp only [transmit, hc0, if_true, transmitI, hb]
    exact ⟨⟨hf1, hf2, hc1, hc2⟩, wake_mono (Nat.le_refl _) hl1, wake_mono (Nat.le_refl _) hl2⟩
  · have hbpos : 0 < n.thrBase := Nat.pos_of_ne_zero hb
    have hlo : thrLo n ≤ c.thr := by
      unfold thrLo; by_cases hr : n.thrRand = 0
      · simp only [hr, if_true] at hthr; omega
      · simp only [hr, if_false] at hthr; exact hthr.1
    have hhi : c.thr ≤ thrHi n := by
      unfold thrHi; by_cases hr : n.thrRand = 0
      · simp only [hr, if_true] at hthr ⊢; omega
      · simp only [hr, if_false] at hthr ⊢; omega
    have hcpos : 0 < c.thr := Nat.lt_of_lt_of_le hbpos hlo
    have hcne : c.thr ≠ 0 := Nat.pos_iff_ne_zero.mp hcpos
    have hnsLo : txNs len (thrHi n) mi.carryLo ≤ txNs len c.thr m.carry := txNs_mono hcpos hhi hc1
    have hnsHi : txNs len c.thr m.carry ≤ txNs len (thrLo n) mi.carryHi := txNs_mono hbpos hlo hc2
    have hmaxLo : max t0 mi.freeLo ≤ max t0 m.free := by omega
    have hmaxHi : max t0 m.free ≤ max t0 mi.freeHi := by omega
    have hdLo := wake_mono hmaxLo (msUs_mono hnsLo)
    have hdHi := wake_mono hmaxHi (msUs_mono hnsHi)
    rw [transmit_thr m t0 len c hcne]
    simp only [transmitI, hb, if_false]
    refine ⟨⟨hdLo, hdHi, ?_, ?_⟩, wake_mono hdLo hl1, wake_mono hdHi hl2⟩
    · split
      · rename_i hex
        have e1 : c.thr = thrHi n := by
          unfold thrHi; simp only [hex.1, if_true] at hthr ⊢; omega
        have e2 : m.carry = mi.carryLo := by have := hex.2; omega
        rw [e1, e2]; exact Nat.le_refl _
      · exact Nat.zero_le _
    · split
      · rename_i hex
        have e1 : c.thr = thrHi n := by
          unfold thrHi; simp only [hex.1, if_true] at hthr ⊢; omega
        have e2 : m.carry = mi.carryLo := by have := hex.2; omega
        rw [e1, e2]; exact Nat.le_refl _
      · have : txNs len c.thr m.carry % nsPerMs < nsPerMs := Nat.mod_lt _ (by decide)
        show txNs len c.thr m.carry % nsPerMs ≤ nsPerMs - 1
        omega

/-- The defect that was repaired (finding F-C05-1): the code used to sleep `len * 1000 / thr`
milliseconds per frame and drop the remainder, so frames shorter than one millisecond of medium
time cost nothing — any number of 900-byte frames crossed a 1 MB/s link in zero time. -/
def serMsBeforeFix (len thr : Nat) : Nat := len * 1000 / thr

theorem c05_throughput_floor_counterexample_before_fix :
    (∀ k : Nat, k * serMsBeforeFix 900 1000000 = 0) ∧
    ¬ (2000 * 900 * 1000 ≤ 1000000 * (2000 * serMsBeforeFix 900 1000000 + 1)) := by
  have h : serMsBeforeFix 900 1000000 = 0 := by decide
  rw [h]
  exact ⟨fun k => Nat.mul_zero k, by decide⟩

/-! ## Non-vacuity -/

def exNet : Net := attachMany { mtu := 1500, latBase := 2000, latRand := 0, thrBase := 1000000, thrRand := 0 } 3

example : exNet.WF := attachMany_WF _ 3 (fresh_WF _ rfl rfl)
example : exNet.taps = [0, 1, 2] := by decide
example : recipients exNet (some 1) = [1] := by decide
example : recipients exNet (some 7) = [] := by decide
example : recipients exNet none = [0, 1, 2] := by decide
example : (⟨false, 1000000, 2000⟩ : Choice).valid exNet := by unfold Choice.valid; decide
/-- three 9-byte frames queued at t = 0 on a 10 kB/s medium: 0.9 ms each; the first costs 0 ms
(carry 0.9), the second and third 1 ms each (carry 0.8, 0.7): released at 0, 1000, 2000 µs. -/
example : ((runSends exNet {} (List.replicate 3 ⟨0, ⟨0, some 1, List.replicate 9 0⟩, ⟨false, 10000, 2000⟩⟩)).map
    fun o => (o.timing.start, o.timing.done, o.timing.deliver)) = [(0, 0, 2000), (0, 1000, 3000), (1000, 2000, 4000)] := by
  decide +kernel

end Elvis.Link
