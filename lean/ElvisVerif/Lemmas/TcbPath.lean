import ElvisVerif.Lemmas.TcbEdges
/-!
# `process_segment`, `segment_arrives` and the API calls move along paths of RFC 9293 edges

Composition of the block lemmas of `Lemmas/TcbEdges.lean`.
-/
namespace Elvis.Tcp
open Elvis.Rfc9293
namespace Tcb

/-- blocks 2 and 4 together make at most one step: block 4 only moves out of SYN-SENT, block 2
    never moves there -/
theorem step_ack_syn {ev : Event} {a b c : State} (h2 : Step ev a b) (h4 : Step ev b c)
    (hiff : b = .SynSent ↔ a = .SynSent) (hkeep : b ≠ .SynSent → c = b) : Step ev a c := by
  by_cases h : a = .SynSent
  · have : b = a := (hiff.2 h).trans h.symm
    rw [this] at h4; exact h4
  · have hb : b ≠ .SynSent := fun hb => h (hiff.1 hb)
    rw [hkeep hb]; exact h2

/-- **one segment**: the state after `process_segment` is reached from the state before it by
    at most two steps allowed for the segment's control bits (blocks 2/4, then block 6); a result
    that makes the caller delete the TCB is an edge to CLOSED for these bits; `TwInv` is kept -/
theorem processSegment_edges (s : Tcb) (segment : Segment) (s' : Tcb) (r : ProcessSegmentResult)
    (e : s.processSegment segment = .ok (s', r)) :
    ∃ mid : State, Step (evOf segment.hdr.ctl) s.state mid ∧ Step (evOf segment.hdr.ctl) mid s'.state ∧
      (r.shouldDeleteTcb = true → rfcCause (evOf segment.hdr.ctl) (some s'.state) none = true) ∧
      (TwInv s → TwInv s') := by
  unfold processSegment at e
  dsimp only at e
  cases h1 : seqCheck s segment.hdr (BitVec.ofNat 32 segment.text.length) with
  | error err => rw [h1] at e; simp [B.andThen] at e
  | ok p1 =>
    obtain ⟨s1, r1⟩ := p1
    obtain ⟨k1, nd1⟩ := seqCheck_edges _ _ _ _ _ h1
    rw [h1] at e
    cases r1 with
    | some x =>
      simp only [andThen_some] at e
      cases e
      exact ⟨s.state, Step.refl _ _, k1.step _, fun hd => by rw [nd1 _ rfl] at hd; exact absurd hd (by simp),
        k1.twInv⟩
    | none =>
      simp only [andThen_none] at e
      obtain ⟨s2, r2, e2, o2⟩ := ackBlock_edges s1 segment.hdr
      have hiff := ackBlock_synsent _ _ _ _ e2
      rw [e2] at e
      have st2 : Step (evOf segment.hdr.ctl) s.state s2.state := by
        have := o2.step; rw [k1.state] at this; exact this
      have tw2 : TwInv s → TwInv s2 := fun h => o2.tw (k1.twInv h)
      cases r2 with
      | some x =>
        simp only [andThen_some] at e
        cases e
        exact ⟨s.state, Step.refl _ _, st2, fun hd => o2.del _ rfl hd, tw2⟩
      | none =>
        simp only [andThen_none] at e
        obtain ⟨r3, e3, d3, hr3⟩ := rstBlock_edges s2 segment.hdr
        rw [e3] at e
        cases r3 with
        | some x =>
          simp only [andThen_some] at e
          cases e
          exact ⟨s.state, Step.refl _ _, st2, fun hd => d3 _ rfl hd, tw2⟩
        | none =>
          simp only [andThen_none] at e
          obtain ⟨s4, r4, e4, o4, keep4⟩ := synBlock_edges s2 segment.hdr (hr3 rfl)
          rw [e4] at e
          have st4 : Step (evOf segment.hdr.ctl) s.state s4.state :=
            step_ack_syn st2 o4.step (by rw [hiff, k1.state]) keep4
          have tw4 : TwInv s → TwInv s4 := fun h => o4.tw (tw2 h)
          cases r4 with
          | some x =>
            simp only [andThen_some] at e
            cases e
            exact ⟨s.state, Step.refl _ _, st4, fun hd => o4.del _ rfl hd, tw4⟩
          | none =>
            simp only [andThen_none] at e
            cases h5 : textBlock s4 segment.hdr segment.text (BitVec.ofNat 32 segment.text.length) with
            | error err => rw [h5] at e; simp [B.andThen] at e
            | ok p5 =>
              obtain ⟨s5, r5⟩ := p5
              obtain ⟨k5, hr5⟩ := textBlock_edges _ _ _ _ _ _ h5
              subst hr5
              rw [h5] at e
              simp only [andThen_none] at e
              obtain ⟨s6, e6, o6⟩ := finBlock_edges s5 segment.hdr (BitVec.ofNat 32 segment.text.length)
              rw [e6] at e
              cases e
              refine ⟨s4.state, st4, ?_, fun hd => by simp [ProcessSegmentResult.shouldDeleteTcb] at hd,
                fun h => o6.tw (k5.twInv (tw4 h))⟩
              have := o6.step; rw [k5.state] at this; exact this

/-! ## the reorder heap is not touched by `process_segment` (no well-formedness needed) -/

theorem seqCheck_heap (s : Tcb) (seg : Hdr) (tl : Seq) (s' : Tcb) (r : Option ProcessSegmentResult)
    (e : seqCheck s seg tl = .ok (s', r)) : s'.incoming.segments = s.incoming.segments := by
  unfold seqCheck at e
  split at e
  · cases e; rfl
  · split at e
    · simp at e
    · cases e; rfl
    · rw [enqueueThen_eq] at e
      cases e
      rw [(enqueueBuilt_frame _ _).2.2.2.1]

theorem textBlock_heap (s : Tcb) (seg : Hdr) (text : List UInt8) (tl : Seq) (s' : Tcb)
    (r : Option ProcessSegmentResult) (e : textBlock s seg text tl = .ok (s', r)) :
    s'.incoming.segments = s.incoming.segments := by
  unfold textBlock at e
  split at e
  · cases e; rfl
  · split at e
    all_goals first
      | (cases e; rfl)
      | (dsimp only at e
         repeat' (split at e)
         all_goals first
           | (simp at e; done)
           | (rw [enqueueThen_eq] at e
              cases e
              rw [(enqueueBuilt_frame _ _).2.2.2.1]))

theorem processSegment_heap (s : Tcb) (segment : Segment) (s' : Tcb) (r : ProcessSegmentResult)
    (e : s.processSegment segment = .ok (s', r)) : s'.incoming.segments = s.incoming.segments := by
  unfold processSegment at e
  dsimp only at e
  cases h1 : seqCheck s segment.hdr (BitVec.ofNat 32 segment.text.length) with
  | error err => rw [h1] at e; simp [B.andThen] at e
  | ok p1 =>
    obtain ⟨s1, r1⟩ := p1
    have g1 := seqCheck_heap _ _ _ _ _ h1
    rw [h1] at e
    cases r1 with
    | some x => simp only [andThen_some] at e; cases e; exact g1
    | none =>
      simp only [andThen_none] at e
      obtain ⟨s2, r2, e2, same2, _⟩ := ackBlock_spec s1 segment.hdr
      have g2 : s2.incoming.segments = s.incoming.segments := by rw [same2.incoming, g1]
      rw [e2] at e
      cases r2 with
      | some x => simp only [andThen_some] at e; cases e; exact g2
      | none =>
        simp only [andThen_none] at e
        obtain ⟨r3, e3⟩ := rstBlock_spec s2 segment.hdr
        rw [e3] at e
        cases r3 with
        | some x => simp only [andThen_some] at e; cases e; exact g2
        | none =>
          simp only [andThen_none] at e
          obtain ⟨s4, r4, e4, _, inc4, _⟩ := synBlock_spec s2 segment.hdr
          have g4 : s4.incoming.segments = s.incoming.segments := by rw [inc4, g2]
          rw [e4] at e
          cases r4 with
          | some x => simp only [andThen_some] at e; cases e; exact g4
          | none =>
            simp only [andThen_none] at e
            cases h5 : textBlock s4 segment.hdr segment.text (BitVec.ofNat 32 segment.text.length) with
            | error err => rw [h5] at e; simp [B.andThen] at e
            | ok p5 =>
              obtain ⟨s5, r5⟩ := p5
              have g5 : s5.incoming.segments = s.incoming.segments := by
                rw [textBlock_heap _ _ _ _ _ _ h5, g4]
              rw [h5] at e
              cases r5 with
              | some x => simp only [andThen_some] at e; cases e; exact g5
              | none =>
                simp only [andThen_none] at e
                obtain ⟨s6, r6, e6, rx6⟩ := finBlock_spec s5 segment.hdr (BitVec.ofNat 32 segment.text.length)
                rw [e6] at e
                cases r6 <;> (cases e; rw [rx6.heap, g5])

/-! ## paths -/

/-- a path of edges of the state diagram, each caused by an event from `S` -/
inductive Path (S : Event → Prop) : Option State → Option State → Prop
  | refl (a : Option State) : Path S a a
  | tail {a b c : Option State} {ev : Event} : Path S a b → S ev → rfcCause ev b c = true → Path S a c

theorem Path.mono {S T : Event → Prop} (h : ∀ ev, S ev → T ev) {a b : Option State} (p : Path S a b) :
    Path T a b := by
  induction p with
  | refl => exact .refl _
  | tail _ hs hc ih => exact .tail ih (h _ hs) hc

theorem Path.trans {S : Event → Prop} {a b c : Option State} (p : Path S a b) (q : Path S b c) :
    Path S a c := by
  induction q with
  | refl => exact p
  | tail _ hs hc ih => exact .tail ih hs hc

theorem Path.of_step {S : Event → Prop} {ev : Event} (hs : S ev) {a b : State} (h : Step ev a b) :
    Path S (some a) (some b) := by
  unfold Step rfcStepBy at h
  by_cases hab : (some a : Option State) = some b
  · rw [hab]; exact .refl _
  · have : rfcCause ev (some a) (some b) = true := by
      rcases Bool.or_eq_true _ _ ▸ h with h1 | h1
      · exact absurd (by simpa using h1) hab
      · exact h1
    exact .tail (.refl _) hs this

/-- where `segment_arrives` leaves the connection: the new state, or no TCB -/
def endState (r : SegmentArrivesResult) (s' : Tcb) : Option State :=
  match r with
  | .Ok => some s'.state
  | .Close => none

/-- the processing loop of `segment_arrives`: a path of edges, each for the control bits of one
    of the segments waiting in the reorder heap; `none` = the TCB is to be deleted -/
theorem drain_path (fuel : Nat) (s s' : Tcb) (r : SegmentArrivesResult) (e : drain fuel s = .ok (s', r)) :
    Path (fun ev => ∃ seg ∈ s.incoming.segments, ev = evOf seg.hdr.ctl) (some s.state)
      (endState r s') ∧
    (TwInv s → r = .Ok → TwInv s') := by
  induction fuel generalizing s with
  | zero => unfold drain at e; cases e; exact ⟨.refl _, fun h _ => h⟩
  | succ n ih =>
    unfold drain at e
    split at e
    · cases e; exact ⟨.refl _, fun h _ => h⟩
    · rename_i top hpeek
      split at e
      · cases e; exact ⟨.refl _, fun h _ => h⟩
      · obtain ⟨rest, hpop⟩ := LHeap.pop_of_peek (le := segLe) hpeek
        rw [hpop] at e
        dsimp only at e
        have hmem := LHeap.mem_of_mem_pop hpop
        cases hp : processSegment { s with incoming.segments := rest } top with
        | error err => rw [hp] at e; simp at e
        | ok p1 =>
          obtain ⟨s1, r1⟩ := p1
          rw [hp] at e
          dsimp only at e
          obtain ⟨mid, st1, st2, del, tw⟩ := processSegment_edges _ _ _ _ hp
          have hS : (fun ev => ∃ seg ∈ s.incoming.segments, ev = evOf seg.hdr.ctl) (evOf top.hdr.ctl) :=
            ⟨top, hmem.1, rfl⟩
          have p12 : Path (fun ev => ∃ seg ∈ s.incoming.segments, ev = evOf seg.hdr.ctl) (some s.state)
              (some s1.state) := (Path.of_step hS st1).trans (Path.of_step hS st2)
          split at e
          · rename_i hdel
            cases e
            exact ⟨.tail p12 hS (del hdel), fun _ h => by simp at h⟩
          · have heap1 : s1.incoming.segments = rest := processSegment_heap _ _ _ _ hp
            obtain ⟨q, twq⟩ := ih s1 e
            refine ⟨p12.trans (q.mono ?_), fun ht hr => twq (tw ht) hr⟩
            intro ev ⟨seg, hseg, hev⟩
            rw [heap1] at hseg
            exact ⟨seg, hmem.2 seg hseg, hev⟩

/-- **`segment_arrives`**: the TCB moves along a path of edges, each allowed for the control
    bits of the arriving segment or of a segment that waited in the reorder heap -/
theorem segmentArrives_path (s : Tcb) (segment : Segment) (s' : Tcb) (r : SegmentArrivesResult)
    (e : s.segmentArrives segment = .ok (s', r)) :
    Path (fun ev => ∃ seg ∈ segment :: s.incoming.segments, ev = evOf seg.hdr.ctl) (some s.state)
      (endState r s') ∧
    (TwInv s → r = .Ok → TwInv s') := by
  unfold segmentArrives at e
  dsimp only at e
  split at e
  · simp at e
  · rw [enqueue_eq] at e
    cases e
    unfold endState
    dsimp only
    rw [state_enqueueBuilt]
    exact ⟨.refl _, fun h _ => (keep_enqueueBuilt _ _).twInv h⟩
  · obtain ⟨p, tw⟩ := drain_path _ _ _ _ e
    refine ⟨p.mono ?_, tw⟩
    intro ev ⟨seg, hseg, hev⟩
    refine ⟨seg, ?_, hev⟩
    rcases LHeap.mem_push.1 hseg with rfl | h
    · exact List.mem_cons_self
    · exact List.mem_cons_of_mem _ h

/-! ## API calls -/

theorem queueFin_keep (s s' : Tcb) (e : s.queueFin = .ok s') : Keep s s' := by
  unfold queueFin at e
  split at e
  · rw [enqueue_eq] at e
    dsimp only at e
    cases e
    exact ⟨by simp only [state_enqueueBuilt], by simp only [(enqueueBuilt_frame _ _).2.2.2.2.2.1]⟩
  · cases e; exact Keep.refl _

/-- `close`: ESTABLISHED / SYN-RECEIVED → FIN-WAIT-1, CLOSE-WAIT → LAST-ACK, nothing else -/
theorem close_edges (s s' : Tcb) (r : CloseResult) (e : s.close = .ok (s', r)) :
    Step .userClose s.state s'.state ∧ (TwInv s → TwInv s') := by
  unfold close at e
  split at e
  · rename_i hs
    split at e
    · simp at e
    · rename_i t h1
      cases e
      have k := queueFin_keep _ _ h1
      refine ⟨?_, fun ht => twInv_of_not_tw ht (by rw [hs]; simp) k.tw⟩
      rw [hs, k.state]; simp [Step, rfcStepBy, rfcCause]
  · rename_i hs
    split at e
    · simp at e
    · rename_i t h1
      cases e
      have k := queueFin_keep _ _ h1
      refine ⟨?_, fun ht => twInv_of_not_tw ht (by rw [hs]; simp) k.tw⟩
      rw [hs, k.state]; simp [Step, rfcStepBy, rfcCause]
  · rename_i hs
    split at e
    · simp at e
    · rename_i t h1
      cases e
      have k := queueFin_keep _ _ h1
      refine ⟨?_, fun ht => twInv_of_not_tw ht (by rw [hs]; simp) k.tw⟩
      rw [hs, k.state]; simp [Step, rfcStepBy, rfcCause]
  · cases e; exact ⟨Step.refl _ _, id⟩

theorem abort_keep (s s' : Tcb) (e : s.abort = .ok s') : Keep s s' := by
  unfold abort at e
  split at e
  all_goals first
    | (cases e; exact Keep.refl _)
    | (dsimp only at e
       rw [enqueue_eq] at e
       cases e
       exact ⟨by rw [state_enqueueBuilt], by rw [(enqueueBuilt_frame _ _).2.2.2.2.2.1]⟩)

theorem send_keep (s : Tcb) (m : List UInt8) : Keep s (s.send m) := by
  unfold send; split <;> exact ⟨rfl, rfl⟩

theorem receive_keep (s : Tcb) : Keep s s.receive.1 := by
  unfold receive; split <;> exact ⟨rfl, rfl⟩

theorem segmentize_keep (maxSeg fuel : Nat) (s : Tcb) (q : Nat) (s' : Tcb)
    (e : segmentize maxSeg fuel s q = .ok s') : Keep s s' := by
  induction fuel generalizing s q with
  | zero => unfold segmentize at e; cases e; exact Keep.refl _
  | succ n ih =>
    unfold segmentize at e
    dsimp only at e
    split at e
    · cases e; exact Keep.refl _
    · split at e
      · simp at e
      · have := ih _ _ e
        exact ⟨this.state, this.tw⟩

theorem segments_keep (s s' : Tcb) (out : List Segment) (e : s.segments = .ok (s', out)) : Keep s s' := by
  unfold segments at e
  dsimp only at e
  cases h1 : segmentizeIfOpen { s with outgoing.oneshot := [] } with
  | error err => rw [h1] at e; simp at e
  | ok s1 =>
    rw [h1] at e
    dsimp only at e
    have k1 : Keep s s1 := by
      unfold segmentizeIfOpen at h1
      split at h1
      all_goals first
        | (cases h1; exact ⟨rfl, rfl⟩)
        | (split at h1
           · simp at h1
           · have := segmentize_keep _ _ _ _ _ h1
             exact ⟨this.state, this.tw⟩)
    cases h2 : finIfPending s.finPending s1 with
    | error err => rw [h2] at e; simp at e
    | ok s2 =>
      rw [h2] at e
      dsimp only at e
      have k2 : Keep s1 s2 := by
        unfold finIfPending at h2
        split at h2
        · exact queueFin_keep _ _ h2
        · cases h2; exact Keep.refl _
      simp only [Except.ok.injEq, Prod.mk.injEq] at e
      obtain ⟨hs', _⟩ := e
      rw [← hs']
      split <;> exact ⟨(k1.trans k2).state, (k1.trans k2).tw⟩

/-- `advance_time`: the TCB survives unchanged in state, or it is deleted — with `TwInv` only in
    TIME-WAIT, by the 2·MSL timeout -/
theorem advanceTime_edges (s : Tcb) (dt : Nat) (s' : Tcb) (r : AdvanceTimeResult)
    (e : s.advanceTime dt = .ok (s', r)) :
    s'.state = s.state ∧ (TwInv s → TwInv s') ∧
      (r = .CloseConnection → TwInv s → rfcCause .timeWaitTimeout (some s.state) none = true) := by
  unfold advanceTime at e
  cases h1 : s.advanceRetransmission dt with
  | error err => rw [h1] at e; simp at e
  | ok s1 =>
    rw [h1] at e
    dsimp only at e
    have k1 : Keep s s1 := by
      unfold advanceRetransmission at h1
      split at h1
      · cases h1; exact ⟨rfl, rfl⟩
      · cases h1; exact ⟨rfl, rfl⟩
    split at e
    · rename_i tw htw
      split at e
      · cases e
        refine ⟨k1.state, k1.twInv, fun _ ht => ?_⟩
        have : s.state = .TimeWait := ht (by rw [← k1.tw, htw]; rfl)
        rw [this]; rfl
      · cases e
        refine ⟨k1.state, fun ht h => ?_, fun h => by simp at h⟩
        exact k1.state ▸ ht (by rw [← k1.tw, htw]; rfl)
    · cases e
      exact ⟨k1.state, k1.twInv, fun h => by simp at h⟩

end Tcb
end Elvis.Tcp
