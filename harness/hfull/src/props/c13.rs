//! C13: correspondence + oracle runs (sub-commands `c13` / `c13-*`).
use hcommon::*;

pub fn run(args: &Args) {
    eprintln!("hfull: {} not implemented yet", args.prop);
    std::process::exit(2);
}
