import Driver.C07
open Driver

def main (args : List String) : IO UInt32 := do
  let stdin ← IO.getStdin
  let stdout ← IO.getStdout
  match args with
  | ["c07"] => loop stdin stdout C07.step []; return 0
  | _ => IO.eprintln "usage: elvis_model <property>"; return 2
