import ElvisVerif.Model.ModCmp
import ElvisVerif.Generated.ModCmpKernels
/-!
# `Model/ModCmp` = the kernels extracted from `modular_cmp.rs`, and offset-form characterisations

Proof discipline (DESIGN.md section 4): one characterisation lemma per circular predicate in
*offset form*; larger arithmetic goals never unfold a circular predicate.
-/
namespace Elvis.ModCmp

/-- hand-written `Cmp` ↦ extracted `Cmp` -/
def Cmp.toGen : Cmp → Elvis.Gen.ModCmp.Cmp
  | .Lt => .Lt
  | .Leq => .Leq

theorem shift_literal : ((1 : BitVec 32) <<< (31 : BitVec 32)) = 2147483648#32 := by decide

theorem offset_eq_generated (c : Cmp) : c.offset = Elvis.Gen.ModCmp.Cmp.offset c.toGen := by
  cases c <;> rfl

theorem modLt_eq_generated (a b : BitVec 32) : modLt a b = Elvis.Gen.ModCmp.mod_lt a b := by
  unfold modLt Elvis.Gen.ModCmp.mod_lt
  rw [shift_literal]

theorem modLeq_eq_generated (a b : BitVec 32) : modLeq a b = Elvis.Gen.ModCmp.mod_leq a b := by
  unfold modLeq Elvis.Gen.ModCmp.mod_leq
  rw [modLt_eq_generated]

theorem modGt_eq_generated (a b : BitVec 32) : modGt a b = Elvis.Gen.ModCmp.mod_gt a b := by
  unfold modGt Elvis.Gen.ModCmp.mod_gt
  rw [modLt_eq_generated]

theorem modGeq_eq_generated (a b : BitVec 32) : modGeq a b = Elvis.Gen.ModCmp.mod_geq a b := by
  unfold modGeq Elvis.Gen.ModCmp.mod_geq
  rw [modGt_eq_generated]

theorem modBounded_eq_generated (a : BitVec 32) (ab : Cmp) (b : BitVec 32) (bc : Cmp) (c : BitVec 32) :
    modBounded a ab b bc c = Elvis.Gen.ModCmp.mod_bounded a ab.toGen b bc.toGen c := by
  unfold modBounded cyc Elvis.Gen.ModCmp.mod_bounded
  simp only [offset_eq_generated]

/-! ## offset forms -/

/-- `mod_lt a b` ⇔ `b` is 1 … 2^31-1 ahead of `a` -/
theorem modLt_iff (a b : BitVec 32) :
    modLt a b = true ↔ 0 < (b - a).toNat ∧ (b - a).toNat < 2147483648 := by
  unfold modLt
  simp only [decide_eq_true_eq, gt_iff_lt, BitVec.lt_def, BitVec.toNat_sub, BitVec.toNat_ofNat]
  have ha := a.isLt; have hb := b.isLt
  omega

/-- strictly between, going around the circle from `a`:  `0 < b - a < c - a` (mod 2^32) -/
theorem cyc_iff (a b c : BitVec 32) :
    cyc a b c = true ↔ 0 < (b - a).toNat ∧ (b - a).toNat < (c - a).toNat := by
  unfold cyc
  simp only [Bool.or_eq_true, Bool.and_eq_true, decide_eq_true_eq, gt_iff_lt]
  simp only [BitVec.lt_def, BitVec.toNat_sub]
  have ha := a.isLt; have hb := b.isLt; have hc := c.isLt
  omega

end Elvis.ModCmp
