import ElvisVerif.Lemmas.Router
/-! The concrete layer (ARP tables, ARP frames, retry budget) refines the abstract token system:
    every `cstep` is matched by at most one abstract `step` on the projected state. -/
namespace Elvis.Router

def crun (topo : Topo) : CState → List CChoice → Except String CState
  | s, [] => .ok s
  | s, c :: cs =>
    match cstep topo s c with
    | .error e => .error e
    | .ok s' => crun topo s' cs

/-- the abstract choices that simulate one concrete choice in state `s` -/
def absChoices (s : CState) : CChoice → List Choice
  | .deliver i => [.deliver i]
  | .send h pkt => [.send h pkt]
  | .inject f => [.inject f]
  | .arp _ => []
  | .task j =>
    match s.tasks[j]? with
    | none => []
    | some t =>
      match ((s.caches[t.p.node]?).getD []).answer t.p.nextHop with
      | some (some mac) => [.resolved j mac]
      | some none => [.unresolved j]
      | none => if t.tries = 0 then [.unresolved j] else []

/-- the abstract schedule simulating a concrete one -/
def absSched (topo : Topo) : CState → List CChoice → List Choice
  | _, [] => []
  | s, c :: cs =>
    absChoices s c ++
      match cstep topo s c with
      | .ok s' => absSched topo s' cs
      | .error _ => []

theorem map_p_newTask (ps : List Pending) : (ps.map newTask).map (·.p) = ps := by
  induction ps with
  | nil => rfl
  | cons a l ih => simp [newTask, ih]

theorem map_eraseIdx' {α β : Type} (f : α → β) : ∀ (l : List α) (i : Nat), (l.eraseIdx i).map f = (l.map f).eraseIdx i
  | [], _ => by simp
  | _ :: _, 0 => by simp
  | a :: l, i + 1 => by simp [map_eraseIdx' f l i]

theorem map_set_same {α β : Type} (f : α → β) : ∀ (l : List α) (i : Nat) (x y : α), l[i]? = some x → f y = f x →
    (l.set i y).map f = l.map f
  | [], _, _, _, h, _ => by simp at h
  | a :: l, 0, x, y, h, e => by simp at h; subst h; simp [e]
  | a :: l, i + 1, x, y, h, e => by
    simp at h
    simp [map_set_same f l i x y h e]

theorem run_nil (topo : Topo) (s : State) : run topo s [] = .ok s := rfl

theorem run_single (topo : Topo) (s : State) (c : Choice) : run topo s [c] = step topo s c := by
  simp only [run]
  cases step topo s c <;> rfl

theorem cstep_refines (topo : Topo) (s s' : CState) (c : CChoice) (h : cstep topo s c = .ok s') :
    run topo s.abs (absChoices s c) = .ok s'.abs := by
  cases c with
  | deliver i =>
    simp only [absChoices, run_single, step, CState.abs]
    simp only [cstep] at h
    split at h
    · cases h
    · rename_i fl ps evs hc
      simp only [Except.ok.injEq] at h
      subst h
      simp only [List.map_append, map_p_newTask]
  | send hh pkt =>
    simp only [absChoices, run_single, step, CState.abs]
    simp only [cstep, Except.ok.injEq] at h
    subst h
    simp only [List.map_append, map_p_newTask]
  | inject f =>
    simp only [absChoices, run_single, step, CState.abs]
    simp only [cstep, Except.ok.injEq] at h
    subst h
    rfl
  | arp a =>
    simp only [absChoices, run_nil]
    simp only [cstep] at h
    split at h
    · simp only [Except.ok.injEq] at h; subst h; rfl
    · simp only [Except.ok.injEq] at h; subst h; rfl
  | task j =>
    simp only [cstep] at h
    simp only [absChoices]
    split at h
    · rename_i hn
      simp only [Except.ok.injEq] at h; subst h
      simp only [hn, run_nil]
    · rename_i t ht
      have hp : s.abs.pend[j]? = some t.p := by simp [CState.abs, ht]
      simp only [ht]
      split at h
      · rename_i mac hm
        simp only [hm, run_single, step, hp]
        split at h
        · cases h
        · rename_i fs evs hc
          simp only [Except.ok.injEq] at h
          subst h
          simp only [CState.abs, map_eraseIdx']
      · rename_i hm
        simp only [hm, run_single, step]
        simp only [Except.ok.injEq] at h
        subst h
        simp only [CState.abs, map_eraseIdx']
      · rename_i hm
        simp only [hm]
        split at h
        · rename_i h0
          simp only [h0, if_true, run_single, step]
          simp only [Except.ok.injEq] at h
          subst h
          simp only [CState.abs, map_eraseIdx']
        · rename_i h0
          simp only [h0, if_false, run_nil]
          split at h
          · cases h
          · simp only [Except.ok.injEq] at h
            subst h
            simp only [CState.abs, Except.ok.injEq]
            congr 1
            exact (map_set_same (·.p) s.tasks j t { t with tries := t.tries - 1, started := true } ht rfl).symm

theorem run_append (topo : Topo) : ∀ (a b : List Choice) (s s1 s2 : State),
    run topo s a = .ok s1 → run topo s1 b = .ok s2 → run topo s (a ++ b) = .ok s2
  | [], b, s, s1, s2, h1, h2 => by simp [run] at h1; subst h1; exact h2
  | c :: a, b, s, s1, s2, h1, h2 => by
    simp only [run] at h1
    cases hs : step topo s c with
    | error e => rw [hs] at h1; cases h1
    | ok s' =>
      rw [hs] at h1
      simp only [List.cons_append, run, hs]
      exact run_append topo a b s' s1 s2 h1 h2

theorem crun_refines (topo : Topo) : ∀ (cs : List CChoice) (s s' : CState), crun topo s cs = .ok s' →
    run topo s.abs (absSched topo s cs) = .ok s'.abs
  | [], s, s', h => by simp [crun] at h; subst h; rfl
  | c :: cs, s, s', h => by
    simp only [crun] at h
    split at h
    · cases h
    · rename_i s1 h1
      simp only [absSched, h1]
      exact run_append topo _ _ _ _ _ (cstep_refines topo s s1 c h1) (crun_refines topo cs s1 s' h)

/-- life / count a concrete choice puts in (only sends and crafted frames) -/
def cInputLife (k : Nat) : CChoice → Nat
  | .send _ pkt => if pkt.tok = k then lifeOf pkt.hdr.ttl else 0
  | .inject f => if f.pkt.tok = k then lifeOf f.pkt.hdr.ttl else 0
  | _ => 0

def cBudget (k : Nat) (cs : List CChoice) : Nat := (cs.map (cInputLife k)).sum

theorem budget_absChoices (k : Nat) (s : CState) (c : CChoice) : budget k (absChoices s c) = cInputLife k c := by
  cases c with
  | task j =>
    simp only [absChoices, cInputLife]
    split
    · rfl
    · split
      · simp [budget, inputLife]
      · simp [budget, inputLife]
      · split <;> simp [budget, inputLife]
  | _ => simp [absChoices, cInputLife, budget, inputLife]

theorem budget_absSched (topo : Topo) (k : Nat) : ∀ (cs : List CChoice) (s : CState),
    budget k (absSched topo s cs) ≤ cBudget k cs
  | [], _ => by simp [absSched, budget, cBudget]
  | c :: cs, s => by
    simp only [absSched, cBudget, List.map_cons, List.sum_cons]
    have h1 := budget_absChoices k s c
    simp only [budget, List.map_append, List.sum_append] at *
    rw [h1]
    split
    · rename_i s' _
      have := budget_absSched topo k cs s'
      simp only [budget, cBudget] at this
      omega
    · simp

end Elvis.Router
