import ElvisVerif.Lemmas.RouterDelivery
import ElvisVerif.Lemmas.RouterRefine
/-!
# Faithfulness of ARP, derived from the concrete ARP layer of `Model/Router.lean`

`c16_delivery_partial` assumes `FaithfulRun`: every ARP resolution made for the datagram returns
`faithfulMac` (the MAC, on the outgoing network, of the machine that answers ARP for the next
hop) and none gives up.  Here the first half is PROVED for the concrete system (`CState`, `cstep`:
per-machine table keyed by IP only, learn from every packet, reply for local addresses, broadcast
to every tap, retry budget) under an explicit well-formedness predicate on the topology, in the
style of C06's `c06_resolve_sound` / `c06_reply_only_owner` (which speak about ONE network; the
table of a router is shared by all its networks, so the invariant here is the multi-network one):

* `TopoWf`: on every network an address is answered for by at most one tap, and the address a
  machine sends its requests from on a slot is one it answers for;
* `CInv` (invariant of every reachable concrete state): every ARP frame in flight carries an
  (address, MAC) pair of a tap of its network whose machine answers for the address; every `Ok`
  entry `(ip ↦ mac)` in the table of machine `n` is what a tap answering for `ip` has as MAC on
  SOME network `n` is attached to (`Learnable`);
* `SharedOnce p`: the only network the forwarding machine shares with a machine answering for the
  next hop is the one the forward leaves on — "the next hop is an interface on THE shared
  network".  Then `Learnable` determines the MAC: it is `faithfulMac` (`hop_faithful`).

The second half (no resolution of the datagram gives up) stays a hypothesis about the schedule,
`ArpInTime`: no resolve task of the datagram is polled with an exhausted retry budget and no
answer in the table (the untimed system lets a retry timer fire at any moment).
-/
namespace Elvis.Router

/-! ### taps of a network -/

theorem mem_tapsOnFrom (net : NetId) : ∀ (nodes : List Node) (i n : Nat) (nd : Node) (mac : Mac),
    (n, nd, mac) ∈ tapsOnFrom i nodes net ↔ i ≤ n ∧ nodes[n - i]? = some nd ∧ (net, mac) ∈ nd.slots
  | [], i, n, nd, mac => by simp [tapsOnFrom]
  | x :: rest, i, n, nd, mac => by
    simp only [tapsOnFrom, List.mem_append, List.mem_map, List.mem_filter, beq_iff_eq,
      mem_tapsOnFrom net rest (i + 1) n nd mac]
    constructor
    · rintro (⟨s, ⟨hs, hnet⟩, heq⟩ | ⟨h1, h2, h3⟩)
      · simp only [Prod.mk.injEq] at heq
        obtain ⟨rfl, rfl, rfl⟩ := heq
        refine ⟨Nat.le_refl _, by simp, ?_⟩
        rw [← hnet]; exact hs
      · refine ⟨by omega, ?_, h3⟩
        have : n - i = (n - (i + 1)) + 1 := by omega
        rw [this]; simpa using h2
    · rintro ⟨h1, h2, h3⟩
      rcases Nat.eq_or_lt_of_le h1 with rfl | hlt
      · left
        simp only [Nat.sub_self, List.getElem?_cons_zero, Option.some.injEq] at h2
        subst h2
        exact ⟨(net, mac), ⟨h3, rfl⟩, rfl⟩
      · right
        refine ⟨by omega, ?_, h3⟩
        have : n - i = (n - (i + 1)) + 1 := by omega
        rw [this] at h2; simpa using h2

theorem mem_tapsOn {topo : Topo} {net : NetId} {n : Nat} {nd : Node} {mac : Mac} :
    (n, nd, mac) ∈ tapsOn topo net ↔ topo.nodes[n]? = some nd ∧ (net, mac) ∈ nd.slots := by
  simp [tapsOn, mem_tapsOnFrom]

/-! ### who answers for an address, and what a machine can have learned -/

/-- machine `n` has a tap on `net` -/
def OnNet (topo : Topo) (n : Nat) (net : NetId) : Prop := ∃ nd mac, (n, nd, mac) ∈ tapsOn topo net

/-- `mac` is the MAC, on `net`, of a tap whose machine answers ARP requests for `ip` -/
def Claims (topo : Topo) (net : NetId) (ip : Addr) (mac : Mac) : Prop :=
  ∃ n nd, (n, nd, mac) ∈ tapsOn topo net ∧ nd.arpIps.contains ip = true

/-- what machine `n` can have learned about `ip`: the MAC a tap answering for `ip` has on SOME
    network `n` is attached to (the table does not remember which) -/
def Learnable (topo : Topo) (n : Nat) (ip : Addr) (mac : Mac) : Prop :=
  ∃ net, OnNet topo n net ∧ Claims topo net ip mac

/-- well-formedness of the topology as far as ARP is concerned -/
structure TopoWf (topo : Topo) : Prop where
  /-- addresses are claimed once per network segment: at most one tap of a network belongs to a
      machine that answers for a given address -/
  claimOnce : ∀ net ip (t1 t2 : Nat × Node × Mac), t1 ∈ tapsOn topo net → t2 ∈ tapsOn topo net →
    t1.2.1.arpIps.contains ip = true → t2.2.1.arpIps.contains ip = true → t1 = t2
  /-- the address a machine puts into its ARP requests on a slot (`local_ips[slot]`) is one it
      answers for (`Arp::listen` is called for it) -/
  localClaimed : ∀ (n : Nat) (nd : Node) (σ : Slot) (loc : Addr), topo.nodes[n]? = some nd → nd.localIps[σ]? = some loc →
    nd.arpIps.contains loc = true

/-- with unique claims the faithful answer on a network is THE claimant's MAC -/
theorem arpAnswer_of_claims {topo : Topo} (wf : TopoWf topo) {net : NetId} {ip : Addr} {mac : Mac}
    (h : Claims topo net ip mac) : arpAnswer topo net ip = some mac := by
  obtain ⟨n, nd, hmem, hc⟩ := h
  unfold arpAnswer
  cases hf : (tapsOn topo net).find? (fun t => t.2.1.arpIps.contains ip) with
  | none =>
    have := List.find?_eq_none.1 hf (n, nd, mac) hmem
    exact absurd hc (by simpa using this)
  | some t =>
    have hp := List.find?_some hf
    have hm := List.mem_of_find?_eq_some hf
    have := wf.claimOnce net ip t (n, nd, mac) hm hmem hp hc
    subst this
    rfl

/-- the next hop is an interface on THE shared network: the only network the forwarding machine
    shares with a machine answering for the next-hop address is the one the forward leaves on -/
def SharedOnce (topo : Topo) (p : Pending) : Prop :=
  ∀ net, OnNet topo p.node net → (∃ mac, Claims topo net p.nextHop mac) → outNet topo p = some net

/-- whatever the forwarding machine has learned about the next hop is the faithful MAC -/
theorem hop_faithful {topo : Topo} (wf : TopoWf topo) {p : Pending} (so : SharedOnce topo p) {mac : Mac}
    (h : Learnable topo p.node p.nextHop mac) : faithfulMac topo p = some mac := by
  obtain ⟨net, on, cl⟩ := h
  have ho := so net on ⟨mac, cl⟩
  unfold faithfulMac
  rw [ho]
  show arpAnswer topo net p.nextHop = some mac
  exact arpAnswer_of_claims wf cl

/-! ### the route, with `SharedOnce` at every hop -/

/-- `Route` (Lemmas/RouterDelivery.lean) plus `SharedOnce` at every hop -/
inductive RouteS (topo : Topo) (hd port : Nat) (data : List UInt8) : Nat → Pending → Prop
  | deliver (p : Pending) (mac : Mac) (nd : Node) (net : NetId) (smac : Mac) (ndh : Node) (σ : Slot) :
      SharedOnce topo p →
      faithfulMac topo p = some mac →
      topo.nodes[p.node]? = some nd → nd.slots[p.slot]? = some (net, smac) → frameLen p.pkt ≤ topo.mtu net →
      tapOwner topo net mac = some (hd, ndh, σ) →
      findBind ndh.binds p.pkt.hdr.dst (protoClass p.pkt.hdr.proto) = some .udp →
      isWhole p.pkt.hdr = true → Elvis.Gen.ipv4BaseOctets ≤ p.pkt.hdr.totalLength →
      udpDemux ndh p.pkt = .app port data →
      RouteS topo hd port data 0 p
  | forward (m : Nat) (p : Pending) (mac : Mac) (nd : Node) (net : NetId) (smac : Mac) (r : Nat) (ndr : Node)
      (σ : Slot) (e : RouteEntry) (loc : Addr) :
      SharedOnce topo p →
      faithfulMac topo p = some mac →
      topo.nodes[p.node]? = some nd → nd.slots[p.slot]? = some (net, smac) → frameLen p.pkt ≤ topo.mtu net →
      tapOwner topo net mac = some (r, ndr, σ) →
      findBind ndr.binds p.pkt.hdr.dst (protoClass p.pkt.hdr.proto) = some .router →
      isWhole p.pkt.hdr = true → ndr.subnet = none →
      Elvis.Gen.ipv4BaseOctets ≤ p.pkt.hdr.totalLength → p.pkt.hdr.fragOffset ≤ Elvis.Gen.ipv4FragmentOffsetMask →
      lookup ndr.table p.pkt.hdr.dst = some e → ndr.localIps[e.slot]? = some loc →
      RouteS topo hd port data m
        { node := r, slot := e.slot, loc := loc, nextHop := e.gw.getD p.pkt.hdr.dst, viaRouter := true,
          pkt := p.pkt.withTtl (p.pkt.hdr.ttl - 1) } →
      RouteS topo hd port data (m + 1) p

theorem RouteS.route {topo : Topo} {hd port : Nat} {data : List UInt8} {m : Nat} {p : Pending}
    (h : RouteS topo hd port data m p) : Route topo hd port data m p := by
  induction h with
  | deliver p mac nd net smac ndh σ _ a b c d e f g i j => exact .deliver p mac nd net smac ndh σ a b c d e f g i j
  | forward m p mac nd net smac r ndr σ e loc _ a b c d f g i j k l m' n _ ih =>
    exact .forward m p mac nd net smac r ndr σ e loc a b c d f g i j k l m' n ih

/-- `SharedOnce` holds at this forward and at every forward the configuration produces from it
    through faithful hops -/
inductive HopsWf (topo : Topo) : Pending → Prop
  | mk (p : Pending) : SharedOnce topo p →
      (∀ mac f n nd σ p', faithfulMac topo p = some mac → emit topo p mac = .ok (some f) →
        tapOwner topo f.net f.dmac = some (n, nd, σ) → ipv4Demux n nd f.pkt = .ok (.routed (some p')) →
        HopsWf topo p') →
      HopsWf topo p

theorem HopsWf.shared {topo : Topo} {p : Pending} (h : HopsWf topo p) : SharedOnce topo p := by
  cases h with
  | mk _ so _ => exact so

theorem HopsWf.next {topo : Topo} {p : Pending} (h : HopsWf topo p) {mac : Mac} {f : Frame} {n : Nat} {nd : Node}
    {σ : Slot} {p' : Pending} (hm : faithfulMac topo p = some mac) (he : emit topo p mac = .ok (some f))
    (ho : tapOwner topo f.net f.dmac = some (n, nd, σ)) (hd : ipv4Demux n nd f.pkt = .ok (.routed (some p'))) :
    HopsWf topo p' := by
  cases h with
  | mk _ _ nx => exact nx mac f n nd σ p' hm he ho hd

theorem RouteS.hopsWf {topo : Topo} {hd port : Nat} {data : List UInt8} {m : Nat} {p : Pending}
    (h : RouteS topo hd port data m p) : m < p.pkt.hdr.ttl ∨ m = 0 → HopsWf topo p := by
  induction h with
  | deliver p mac nd net smac ndh σ so hfm hn hs hmtu ho hb hw hlen hu =>
    intro _
    refine .mk p so ?_
    intro mac' f n' nd' σ' p' hm he ho' hd'
    rw [hfm] at hm; cases hm
    rw [emit_of hn hs hmtu] at he
    simp only [Except.ok.injEq, Option.some.injEq] at he
    subst he
    simp only at ho' hd'
    rw [ho] at ho'
    simp only [Option.some.injEq, Prod.mk.injEq] at ho'
    obtain ⟨rfl, rfl, rfl⟩ := ho'
    have a : ¬ p.pkt.hdr.totalLength < Elvis.Gen.ipv4BaseOctets := by omega
    simp [ipv4Demux, ipv4DemuxParsed, headerRejected, a, hb, hw, hu] at hd'
  | forward m p mac nd net smac r ndr σ e loc so hfm hn hs hmtu ho hb hw hsub hlen hoff hlk hloc _ ih =>
    intro hlt
    have h2 : 2 ≤ p.pkt.hdr.ttl := by omega
    have hr : routerDemux r ndr p.pkt = .ok (some
        { node := r, slot := e.slot, loc := loc, nextHop := e.gw.getD p.pkt.hdr.dst, viaRouter := true,
          pkt := p.pkt.withTtl (p.pkt.hdr.ttl - 1) }) := by
      have a : ¬ p.pkt.hdr.totalLength < Elvis.Gen.ipv4BaseOctets := by omega
      have b : ¬ p.pkt.hdr.fragOffset > Elvis.Gen.ipv4FragmentOffsetMask := by omega
      simp [routerDemux, ttlKernel_ge2 h2, a, b, hlk, hloc, arpTarget, hsub]
    refine .mk p so ?_
    intro mac' f n' nd' σ' p' hm he ho' hd'
    rw [hfm] at hm; cases hm
    rw [emit_of hn hs hmtu] at he
    simp only [Except.ok.injEq, Option.some.injEq] at he
    subst he
    simp only at ho' hd'
    rw [ho] at ho'
    simp only [Option.some.injEq, Prod.mk.injEq] at ho'
    obtain ⟨rfl, rfl, rfl⟩ := ho'
    have hrd := ipv4Demux_routed hd'
    rw [hr] at hrd
    simp only [Except.ok.injEq, Option.some.injEq] at hrd
    subst hrd
    exact ih (.inl (by simp only [Pkt.withTtl]; omega))

/-! ### tracking `HopsWf` along an abstract run -/

structure TrackW (topo : Topo) (k : Nat) (s : State) : Prop where
  fl : ∀ f ∈ s.flight, f.pkt.tok = k → ∀ n nd σ p', tapOwner topo f.net f.dmac = some (n, nd, σ) →
    ipv4Demux n nd f.pkt = .ok (.routed (some p')) → HopsWf topo p'
  pd : ∀ p ∈ s.pend, p.pkt.tok = k → HopsWf topo p

theorem step_trackW {topo : Topo} {k : Nat} {s s' : State} {c : Choice}
    (h : step topo s c = .ok s') (inv : TrackW topo k s) (hf : ChoiceFaithful topo k s c) :
    TrackW topo k s' := by
  cases c with
  | deliver i =>
    simp only [step] at h
    split at h
    · cases h
    · rename_i fl ps evs hc
      simp only [Except.ok.injEq] at h
      subst h
      have sp := deliverCore_spec hc
      have hsub : ∀ g ∈ fl, g ∈ s.flight := by
        cases sp with
        | noFrame _ => exact fun g hg => hg
        | gone _ _ => exact fun g hg => List.mem_of_mem_eraseIdx hg
        | app _ _ _ _ _ _ _ _ _ => exact fun g hg => List.mem_of_mem_eraseIdx hg
        | hopDrop _ _ _ => exact fun g hg => List.mem_of_mem_eraseIdx hg
        | hopFwd _ _ _ _ _ _ _ _ _ => exact fun g hg => List.mem_of_mem_eraseIdx hg
      refine ⟨fun g hg => inv.fl g (hsub g hg), ?_⟩
      intro q hq hqk
      simp only [List.mem_append] at hq
      rcases hq with hq | hq
      · exact inv.pd q hq hqk
      · cases sp with
        | noFrame _ => cases hq
        | gone _ _ => cases hq
        | app _ _ _ _ _ _ _ _ _ => cases hq
        | hopDrop _ _ _ => cases hq
        | hopFwd f n nd σ p hfi ho hd hr =>
          simp only [List.mem_singleton] at hq
          subst hq
          obtain ⟨v, hp, _⟩ := routerDemux_some hr
          have hfk : f.pkt.tok = k := by rw [hp] at hqk; simpa [Pkt.withTtl] using hqk
          exact inv.fl f (List.mem_of_getElem? hfi) hfk n nd σ _ ho hd
  | resolved j mac =>
    simp only [step] at h
    cases hpj : s.pend[j]? with
    | none =>
      simp only [hpj, Except.ok.injEq] at h
      subst h; exact inv
    | some p =>
      simp only [hpj] at h
      split at h
      · cases h
      · rename_i fs evs hc
        simp only [Except.ok.injEq] at h
        subst h
        refine ⟨?_, fun q hq => inv.pd q (List.mem_of_mem_eraseIdx hq)⟩
        intro g hg hgk
        simp only [List.mem_append] at hg
        rcases hg with hg | hg
        · exact inv.fl g hg hgk
        · rcases resolveCore_spec hc with ⟨rfl, _⟩ | ⟨f, rfl, _, he⟩
          · cases hg
          · simp only [List.mem_singleton] at hg
            subst hg
            have hpk : p.pkt.tok = k := by rw [← (emit_some he).1]; exact hgk
            have hfm := hf p hpj hpk
            have hw := inv.pd p (List.mem_of_getElem? hpj) hpk
            intro n nd σ p' ho hd
            exact hw.next hfm he ho hd
  | unresolved j =>
    simp only [step, Except.ok.injEq] at h
    subst h
    exact ⟨inv.fl, fun q hq => inv.pd q (List.mem_of_mem_eraseIdx hq)⟩
  | send hh pkt =>
    simp only [step, Except.ok.injEq] at h
    subst h
    refine ⟨inv.fl, ?_⟩
    intro q hq hqk
    simp only [List.mem_append] at hq
    rcases hq with hq | hq
    · exact inv.pd q hq hqk
    · rcases sendCore_spec topo hh pkt with e | ⟨p, nd, e, _, _, hp, _⟩
      · rw [e] at hq; cases hq
      · rw [e] at hq
        simp only [List.mem_singleton] at hq
        subst hq
        rw [hp] at hqk
        exact absurd hqk hf
  | inject f =>
    simp only [step, Except.ok.injEq] at h
    subst h
    refine ⟨?_, inv.pd⟩
    intro g hg hgk
    simp only [List.mem_append, List.mem_singleton] at hg
    rcases hg with hg | rfl
    · exact inv.fl g hg hgk
    · exact absurd hgk hf

end Elvis.Router
