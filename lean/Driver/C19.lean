import ElvisVerif.Model.Ndl
import ElvisVerif.Model.NdlRun
import Driver.Common
/-! Line-protocol handlers for C19 (`c19-parse`, `c19-run`) and the NDL clause of C14 (`c14-ndl`).

  `render <layout> <simspec…>` -> `text <hex utf-8>`
  `parse <hex utf-8>`          -> `ok <dump>` | `err <kind>[ <line>]` | `panic <site>`
  `lex <line> <hex utf-8>`     -> `ok <Type> P<k> … rest=<hex> line=<n>` | `err …` | `panic …`
  `run <simspec…>`             -> `expect …`
-/
namespace Driver.C19
open Elvis.Ndl

def textOfHex (h : String) : Option Text := do
  let bs ← Driver.parseHex h
  let s ← String.fromUTF8? (ByteArray.mk bs.toArray)
  pure s.toList

def hexOfText (t : Text) : String := Driver.toHex (String.ofList t).toUTF8.toList

def dtName (d : DecType) : String := String.ofList d.name

/-- insertion sort (map entries by key bytes = by hex string) -/
def insertBy {α : Type} (lt : α → α → Bool) (x : α) : List α → List α
  | [] => [x]
  | y :: r => if lt x y then x :: y :: r else y :: insertBy lt x r
def sortBy {α : Type} (lt : α → α → Bool) (l : List α) : List α := l.foldr (insertBy lt) []

def paramsTokens (p : Params) : List String :=
  let es := sortBy (fun a b => decide (a.1 < b.1)) (p.map fun kv => (hexOfText kv.1, hexOfText kv.2))
  s!"P{es.length}" :: es.map fun e => e.1 ++ "=" ++ e.2

def leavesTokens (tag : String) (ls : List Leaf) : List String :=
  s!"{tag}{ls.length}" :: ls.flatMap fun l => dtName l.dectype :: paramsTokens l.options

def dumpSim (s : Sim) : String :=
  let nets := sortBy (fun a b => decide (a.1 < b.1)) (s.networks.map fun e => (hexOfText e.1, e.2))
  let nt := nets.flatMap fun e =>
    ["net", e.1, dtName e.2.dectype] ++ paramsTokens e.2.options ++ leavesTokens "I" e.2.ip
  let mt := s.machines.flatMap fun m =>
    ["mach", dtName m.dectype] ++ paramsTokens m.options ++ leavesTokens "n" m.networks ++
      leavesTokens "p" m.protocols ++ leavesTokens "a" m.applications
  " ".intercalate ([s!"N{nets.length}"] ++ nt ++ [s!"M{s.machines.length}"] ++ mt)

def kindName : ErrKind → String
  | .section => "section" | .dectype => "dectype" | .extraArg => "extraArg" | .dupArg => "dupArg"
  | .tabs => "tabs" | .expectedTabs => "expectedTabs" | .formatting => "formatting"
  | .wrongType => "wrongType" | .unexpected => "unexpected" | .cannotDeclare => "cannotDeclare"
  | .dupId => "dupId" | .missingId => "missingId" | .required => "required"

def panicName : Panic → String
  | .decTypeFrom => "decTypeFrom" | .tagSplit => "tagSplit" | .sliceTabs => "sliceTabs"
  | .sliceNewlines => "sliceNewlines" | .lineOverflow => "lineOverflow" | .reqPosition => "reqPosition"

def failLine : Fail → String
  | .err k l =>
    if k == .extraArg || k == .dupArg then s!"err {kindName k} {l}" else s!"err {kindName k}"
  | .panic p => s!"panic {panicName p}"
  | .fuel => "model-fuel-exhausted"

/-! ### simspec tokens -/

def countTok (tag : String) (t : String) : Option Nat :=
  if t.startsWith tag then (t.drop tag.length).toString.toNat? else none

def splitEq (t : String) : Option (String × String) :=
  match t.splitOn "=" with
  | [a, b] => some (a, b)
  | _ => none

def pOpts : Nat → List String → Option (Params × List String)
  | 0, ts => some ([], ts)
  | n + 1, t :: ts => do
    let (k, v) ← splitEq t
    let k ← textOfHex k
    let v ← textOfHex v
    let (r, ts') ← pOpts n ts
    pure ((k, v) :: r, ts')
  | _, [] => none

def pParams : List String → Option (Params × List String)
  | t :: ts => do
    let n ← countTok "P" t
    pOpts n ts
  | [] => none

def DecType.ofString (s : String) : Option DecType := DecType.ofName s.toList

def pLeafN : Nat → List String → Option (List Leaf × List String)
  | 0, ts => some ([], ts)
  | n + 1, d :: ts => do
    let dt ← DecType.ofString d
    let (p, ts) ← pParams ts
    let (r, ts) ← pLeafN n ts
    pure (⟨dt, p⟩ :: r, ts)
  | _, [] => none

def pLeaves (tag : String) : List String → Option (List Leaf × List String)
  | t :: ts => do
    let n ← countTok tag t
    pLeafN n ts
  | [] => none

def pNets : Nat → List String → Option (List (Text × Network) × List String)
  | 0, ts => some ([], ts)
  | n + 1, "net" :: id :: d :: ts => do
    let id ← textOfHex id
    let dt ← DecType.ofString d
    let (p, ts) ← pParams ts
    let (ips, ts) ← pLeaves "I" ts
    let (r, ts) ← pNets n ts
    pure ((id, ⟨dt, p, ips⟩) :: r, ts)
  | _, _ => none

def pMachs : Nat → List String → Option (List Machine × List String)
  | 0, ts => some ([], ts)
  | n + 1, "mach" :: d :: ts => do
    let dt ← DecType.ofString d
    let (p, ts) ← pParams ts
    let (ns, ts) ← pLeaves "n" ts
    let (ps, ts) ← pLeaves "p" ts
    let (as, ts) ← pLeaves "a" ts
    let (r, ts) ← pMachs n ts
    pure (⟨dt, p, ns, ps, as⟩ :: r, ts)
  | _, _ => none

def pSim : List String → Option Sim
  | t :: ts => do
    let n ← countTok "N" t
    let (nets, ts) ← pNets n ts
    match ts with
    | t :: ts =>
      let m ← countTok "M" t
      let (ms, ts) ← pMachs m ts
      if ts.isEmpty then pure ⟨nets, ms⟩ else none
    | [] => none
  | [] => none

def pLayout : String → Option Layout
  | "tabs" => some .tabs | "spaces" => some .spaces | "crlf" => some .crlf | _ => none

def lexLine (r : LexOk) : String :=
  " ".intercalate (["ok", dtName r.dectype] ++ paramsTokens r.params ++
    [s!"rest={hexOfText r.rest}", s!"line={r.line}"])

/-- `expect <exited|timedout> {cap <machine-hex> <msg-hex,…|->}` (captures by machine name) -/
def expectLine (s : Sim) : String :=
  let caps := sortBy (fun a b => decide (a.1 < b.1))
    ((Elvis.Ndl.Run.expectedDeliveries s).map fun e =>
      (hexOfText e.1, sortBy (fun a b => decide (a < b)) (e.2.map hexOfText)))
  let st := if Elvis.Ndl.Run.expectedExit s then "exited" else "timedout"
  " ".intercalate (["expect", st] ++ caps.flatMap fun c =>
    ["cap", c.1, if c.2.isEmpty then "none" else ",".intercalate c.2])

def answer : List String → String
  | ["case", id] => s!"case {id}"
  | ["parse", h] =>
    match textOfHex h with
    | none => "bad-op"
    | some t =>
      match parse t with
      | .ok s => "ok " ++ dumpSim s
      | .error e => failLine e
  | ["lex", n, h] =>
    match n.toNat?, textOfHex h with
    | some n, some t =>
      match generalParser t n with
      | .ok r => lexLine r
      | .error e => failLine e
    | _, _ => "bad-op"
  | "render" :: lay :: spec =>
    match pLayout lay, pSim spec with
    | some lay, some s => "text " ++ hexOfText (render lay s)
    | _, _ => "bad-op"
  | ["expect-reject", _] => "-"
  | ["expect-none"] => "-"
  | "run-known" :: _ => "not-compared"
  | "run" :: spec =>
    match pSim spec with
    | some s => expectLine s
    | none => "bad-op"
  | _ => "bad-op"

def step (_ : Unit) (ws : List String) : Unit × String := ((), answer ws)

def dispatch (sub : String) (i o : IO.FS.Stream) : Option (IO Unit) :=
  if sub == "c19-parse" || sub == "c19-run" || sub == "c19" || sub == "c14-ndl" then
    some (Driver.loop i o step ())
  else none

end Driver.C19
