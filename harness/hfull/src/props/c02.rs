//! C02: correspondence + oracle runs (sub-commands `c02` / `c02-*`).
use hcommon::*;

pub fn run(args: &Args) {
    eprintln!("hfull: {} not implemented yet", args.prop);
    std::process::exit(2);
}
