/-
Model of `elvis_core::protocols::utility::Checksum` (sim/elvis-core/src/protocols/utility.rs).

The accumulator is a `u16`, here a `Nat` below 65536 (`Lemmas/Checksum.lean` proves the bound is
preserved).  The cargo feature `compute_checksum` is the flag `ck`: with the feature off every
`add_*` is a no-op and `as_u16` is the constant 0, exactly as the two `cfg` variants in the source.
Function by function; bytes enter as `Nat` below 256.  No imports (linked into the driver).
-/
namespace Elvis.Ck

/-- `Checksum::add_u16` (feature on):
    `let (sum, carry) = self.0.overflowing_add(value); self.0 = sum + carry as u16;`
    i.e. end-around carry.  The checked `sum + carry` cannot overflow (see
    `Lemmas/Checksum.lean: gen_add_u16_no_overflow`). -/
def addU16 (acc v : Nat) : Nat :=
  let s := acc + v
  if s ≥ 65536 then s - 65536 + 1 else s

/-- `Checksum::add_u16` under the feature flag -/
def add16 (ck : Bool) (acc v : Nat) : Nat := if ck then addU16 acc v else acc

/-- `Checksum::add_u8(a, b)` : `add_u16(u16::from_be_bytes([a, b]))` -/
def addU8 (ck : Bool) (acc a b : Nat) : Nat := add16 ck acc (a * 256 + b)

/-- `Checksum::add_u32([b0,b1,b2,b3])` : two `add_u8` -/
def addU32 (ck : Bool) (acc b0 b1 b2 b3 : Nat) : Nat := addU8 ck (addU8 ck acc b0 b1) b2 b3

/-- big-endian bytes of a `u32` (`u32::to_be_bytes`, `Ipv4Address -> [u8; 4]`) -/
def be32 (v : Nat) : Nat × Nat × Nat × Nat :=
  (v / 16777216 % 256, v / 65536 % 256, v / 256 % 256, v % 256)

/-- `add_u32(v.to_be_bytes())` / `add_u32(address.into())` for a 32-bit value -/
def addWord32 (ck : Bool) (acc v : Nat) : Nat :=
  addU32 ck acc (v / 16777216 % 256) (v / 65536 % 256) (v / 256 % 256) (v % 256)

/-- `Checksum::accumulate_remainder`: pairs of bytes, an odd last byte is padded with 0.
    With the feature off the iterator is not even advanced (not observable). -/
def accumulateRemainder (ck : Bool) (acc : Nat) : List UInt8 → Nat
  | a :: b :: rest => accumulateRemainder ck (addU8 ck acc a.toNat b.toNat) rest
  | [a] => addU8 ck acc a.toNat 0
  | [] => acc

/-- `Checksum::as_u16`: `match self.0 { 0xffff => 0xffff, sum => !sum }`; constant 0 with the
    feature off -/
def asU16 (ck : Bool) (acc : Nat) : Nat :=
  if ck then (if acc = 65535 then 65535 else 65535 - acc) else 0

/-- `Checksum::matches(expected)` (added by the fix of F-C18-1): the received field equals
    `as_u16()`, or it is the other one's-complement representation of zero (`0x0000` where the
    accumulator is `0xffff`). -/
def matchesField (ck : Bool) (acc expected : Nat) : Bool :=
  asU16 ck acc == expected || (ck && acc == 65535 && expected == 0)

end Elvis.Ck
