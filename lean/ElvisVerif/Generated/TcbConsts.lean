-- GENERATED from tcp/tcb.rs, tcb/receive_sequence_space.rs, tcp_parsing.rs by tools/extract.py; do not edit
namespace Elvis.Gen.Tcb
/-- `MSL` in milliseconds -/
def mslMs : Nat := 1000
/-- `RETRANSMISSION_TIMEOUT` in milliseconds -/
def rtoMs : Nat := 100
/-- every `time_wait = Some(..)` in tcb.rs is `2 * MSL` -/
def timeWaitMs : Nat := 2 * mslMs
/-- `SPACE_FOR_HEADERS` in `Tcb::segments` -/
def spaceForHeaders : Nat := 50
/-- `ReceiveSequenceSpace::default().wnd` -/
def defaultRcvWnd : Nat := 65535
/-- `BASE_HEADER_WORDS` -/
def baseHeaderWords : Nat := 5
/-- `BASE_HEADER_OCTETS = BASE_HEADER_WORDS * 4` -/
def baseHeaderOctets : Nat := baseHeaderWords * 4
/-- `Checksum::as_u16` without the `compute_checksum` feature -/
def checksumWithoutFeature : Nat := 0
end Elvis.Gen.Tcb
