import ElvisVerif.Lemmas.TcbIrs
import ElvisVerif.Lemmas.SeqArith
/-!
# RCV.NXT never passes the end of what the peer has numbered

Single endpoint.  `base` is the peer's ISS, `N` how many sequence numbers the peer has
consumed so far (`SND.NXT_peer = base + N`, `N < 2^31`).  If every segment handed to the
endpoint lies below `base + N` (`SegBelow`), then `RCV.NXT` stays at most `N` ahead of `base`
(`RcvBelow`) and never moves backwards.  One lemma per block of `process_segment`.
-/
namespace Elvis.Tcp
open Elvis.ModCmp
namespace Tcb

/-- the segment occupies sequence numbers below `base + N` only; a SYN sits at `base` -/
structure SegBelow (base : Seq) (N : Nat) (σ : Segment) : Prop where
  syn : σ.hdr.ctl.syn = true → σ.hdr.seq = base
  len : 0 < σ.segLen → off base σ.hdr.seq + σ.segLen ≤ N

theorem SegBelow.mono {base : Seq} {N M : Nat} {σ : Segment} (h : SegBelow base N σ) (hm : N ≤ M) :
    SegBelow base M σ := ⟨h.syn, fun hl => Nat.le_trans (h.len hl) hm⟩

/-- outside SYN-SENT, RCV.NXT is at most `N` ahead of `base` -/
def RcvBelow (base : Seq) (N : Nat) (s : Tcb) : Prop := s.state ≠ .SynSent → off base s.rcv.nxt ≤ N

/-- what a block does to the receive side: still below, and never backwards -/
structure RcvStep (base : Seq) (N : Nat) (s s' : Tcb) : Prop where
  below : RcvBelow base N s'
  mono : s.state ≠ .SynSent → off base s.rcv.nxt ≤ off base s'.rcv.nxt
  notBack : s.state ≠ .SynSent → s'.state ≠ .SynSent

theorem RcvStep.of_same {base : Seq} {N : Nat} {s s' : Tcb} (hb : RcvBelow base N s)
    (hr : s'.rcv = s.rcv) (hs : s'.state = .SynSent ↔ s.state = .SynSent) : RcvStep base N s s' :=
  ⟨fun h => by rw [hr]; exact hb (fun hx => h (hs.2 hx)), fun _ => by rw [hr]; exact Nat.le_refl _,
    fun h hx => h (hs.1 hx)⟩

theorem RcvStep.trans {base : Seq} {N : Nat} {a b c : Tcb} (h1 : RcvStep base N a b) (h2 : RcvStep base N b c) :
    RcvStep base N a c :=
  ⟨h2.below, fun h => Nat.le_trans (h1.mono h) (h2.mono (h1.notBack h)), fun h => h2.notBack (h1.notBack h)⟩

/-! ## block 4 in SYN-SENT -/

theorem synBlock_rcv (s : Tcb) (seg : Hdr) (s' : Tcb) (r : Option ProcessSegmentResult)
    (e : synBlock s seg = .ok (s', r)) :
    ((s'.rcv = s.rcv ∧ s'.state = s.state) ∨
     (s.state = .SynSent ∧ seg.ctl.syn = true ∧ s'.rcv.nxt = seg.seq + 1 ∧ s'.state ≠ .SynSent)) ∧
    (r = none → s'.state ≠ .SynSent) := by
  unfold synBlock at e
  split at e
  · split at e
    · cases e; exact ⟨Or.inl ⟨rfl, rfl⟩, fun h => by simp at h⟩
    · rename_i hst
      cases e; exact ⟨Or.inl ⟨rfl, rfl⟩, fun _ => hst⟩
  · rename_i hsyn
    have hsyn' : seg.ctl.syn = true := by simpa using hsyn
    split at e
    · rename_i hst
      dsimp only at e
      split at e
      · rw [enqueueThen_eq] at e
        cases e
        have hns : ∀ t : Tcb, t.state = .Established → (t.enqueueBuilt t.ackHdr.built).state ≠ .SynSent :=
          fun t ht => by rw [state_enqueueBuilt, ht]; simp
        exact ⟨Or.inr ⟨hst, hsyn', by rw [(enqueueBuilt_frame _ _).2.1], hns _ rfl⟩, fun _ => hns _ rfl⟩
      · rw [enqueueThen_eq] at e
        cases e
        refine ⟨Or.inr ⟨hst, hsyn', by rw [(enqueueBuilt_frame _ _).2.1], ?_⟩, fun h => by simp at h⟩
        rw [state_enqueueBuilt]; simp
    · rw [enqueueThen_eq] at e
      cases e
      exact ⟨Or.inl ⟨(enqueueBuilt_frame _ _).2.1, state_enqueueBuilt _ _⟩, fun h => by simp at h⟩

/-! ## block 5 -/

theorem textBlock_rcv (s : Tcb) (seg : Hdr) (text : List UInt8) (s' : Tcb)
    (r : Option ProcessSegmentResult)
    (e : textBlock s seg text (BitVec.ofNat 32 text.length) = .ok (s', r))
    (base : Seq) (N : Nat) (hN : N < 2147483648) (hr : off base s.rcv.nxt ≤ N)
    (hp : text ≠ [] → off base seg.seq + seg.ctl.syn.toNat + text.length ≤ N ∧
      off base seg.seq ≤ off base s.rcv.nxt) :
    off base s.rcv.nxt ≤ off base s'.rcv.nxt ∧ off base s'.rcv.nxt ≤ N := by
  unfold textBlock at e
  split at e
  · cases e; exact ⟨Nat.le_refl _, hr⟩
  · rename_i hne
    have hne' : text ≠ [] := by intro h; simp [h] at hne
    obtain ⟨hp1, hp2⟩ := hp hne'
    have htl : (BitVec.ofNat 32 text.length).toNat = text.length := by
      simp only [BitVec.toNat_ofNat]; omega
    split at e
    all_goals first
      | (cases e; exact ⟨Nat.le_refl _, hr⟩)
      | (dsimp only at e
         split at e
         · simp at e
         · generalize hA : (if s.rcv.nxt - seg.seq - BitVec.ofNat 32 seg.ctl.syn.toNat ≤ BitVec.ofNat 32 text.length
               then s.rcv.nxt - seg.seq - BitVec.ofNat 32 seg.ctl.syn.toNat else BitVec.ofNat 32 text.length) = a at e
           have ha : a.toNat = min (s.rcv.nxt - seg.seq - BitVec.ofNat 32 seg.ctl.syn.toNat).toNat text.length := by
             rw [← hA]
             split
             · rename_i h; rw [BitVec.le_def, htl] at h; omega
             · rename_i h; rw [BitVec.le_def, htl] at h; rw [htl]; omega
           rw [htl] at e
           repeat' (split at e)
           all_goals first
             | (simp at e; done)
             | (rw [enqueueThen_eq] at e
                cases e
                rw [(enqueueBuilt_frame _ _).2.1]
                dsimp only
                have hsyn : seg.ctl.syn.toNat ≤ 1 := by cases seg.ctl.syn <;> simp
                exact accept_off base s.rcv.nxt seg.seq seg.ctl.syn.toNat text.length _ N hsyn hN hr hp1 hp2
                  (by rw [← ha]; exact Nat.min_le_left _ _)))

/-! ## block 6 -/

theorem finBlock_rcv (s : Tcb) (seg : Hdr) (tl : Nat) (s' : Tcb) (r : Option ProcessSegmentResult)
    (e : finBlock s seg (BitVec.ofNat 32 tl) = .ok (s', r))
    (base : Seq) (N : Nat) (hN : N < 2147483648) (hr : off base s.rcv.nxt ≤ N)
    (hp : seg.ctl.fin = true → off base seg.seq + tl + 1 ≤ N) :
    off base s.rcv.nxt ≤ off base s'.rcv.nxt ∧ off base s'.rcv.nxt ≤ N := by
  unfold finBlock at e
  split at e
  · cases e; exact ⟨Nat.le_refl _, hr⟩
  · rename_i hfin
    have hp' := hp (by simpa using hfin)
    dsimp only at e
    have key : ∀ s1, (if s.state ≠ .SynSent then
          if (decide (s.rcv.nxt = seg.seq + BitVec.ofNat 32 tl) ||
              decide (s.rcv.nxt = seg.seq + BitVec.ofNat 32 tl + 1)) = true then
            ({ s with rcv.nxt := seg.seq + BitVec.ofNat 32 tl + 1 } : Tcb).enqueue
              ({ s with rcv.nxt := seg.seq + BitVec.ofNat 32 tl + 1 } : Tcb).ackHdr
          else Except.ok s
        else Except.ok s) = .ok s1 →
        off base s.rcv.nxt ≤ off base s1.rcv.nxt ∧ off base s1.rcv.nxt ≤ N := by
      intro s1 h1
      split at h1
      · split at h1
        · rename_i hcond
          rw [enqueue_eq] at h1
          cases h1
          rw [(enqueueBuilt_frame _ _).2.1]
          dsimp only
          have o1 : off base (seg.seq + BitVec.ofNat 32 tl) = off base seg.seq + tl :=
            off_add base seg.seq tl (by omega)
          have o2 : off base (seg.seq + BitVec.ofNat 32 tl + 1) = off base seg.seq + tl + 1 := by
            rw [off_add_one base _ (by omega), o1]
          rw [o2]
          refine ⟨?_, hp'⟩
          simp only [Bool.or_eq_true, decide_eq_true_eq] at hcond
          rcases hcond with h | h
          · rw [h, o1]; omega
          · rw [h, o2]; omega
        · cases h1; exact ⟨Nat.le_refl _, hr⟩
      · cases h1; exact ⟨Nat.le_refl _, hr⟩
    split at e
    · simp at e
    · rename_i s1 h1
      have k := key s1 h1
      split at e
      all_goals first
        | (cases e; exact k)
        | (split at e <;> (cases e; exact k))

/-! ## `process_segment` -/

/-- **one segment**: if the segment lies below `base + N` and (outside SYN-SENT) passed the
    reorder gate `SEG.SEQ =< RCV.NXT`, RCV.NXT stays at most `N` ahead of `base` and does not
    move backwards -/
theorem processSegment_rcv (s : Tcb) (segment : Segment) (s' : Tcb) (r : ProcessSegmentResult)
    (e : s.processSegment segment = .ok (s', r))
    (base : Seq) (N : Nat) (hN : N < 2147483648) (hb : RcvBelow base N s) (hσ : SegBelow base N segment)
    (hgate : s.state ≠ .SynSent → modGt segment.hdr.seq s.rcv.nxt = false) :
    RcvStep base N s s' := by
  unfold processSegment at e
  dsimp only at e
  cases h1 : seqCheck s segment.hdr (BitVec.ofNat 32 segment.text.length) with
  | error err => rw [h1] at e; simp [B.andThen] at e
  | ok p1 =>
    obtain ⟨s1, r1⟩ := p1
    have g1 := seqCheck_irs _ _ _ _ _ h1
    have k1 := (seqCheck_edges _ _ _ _ _ h1).1
    have t1 : RcvStep base N s s1 := RcvStep.of_same hb g1 (by rw [k1.state])
    rw [h1] at e
    cases r1 with
    | some x => simp only [andThen_some] at e; cases e; exact t1
    | none =>
      simp only [andThen_none] at e
      obtain ⟨s2, r2, e2, same2, iff2⟩ := ackBlock_spec s1 segment.hdr
      have t2 : RcvStep base N s s2 := t1.trans (RcvStep.of_same t1.below same2.rcv iff2)
      rw [e2] at e
      cases r2 with
      | some x => simp only [andThen_some] at e; cases e; exact t2
      | none =>
        simp only [andThen_none] at e
        obtain ⟨r3, e3⟩ := rstBlock_spec s2 segment.hdr
        rw [e3] at e
        cases r3 with
        | some x => simp only [andThen_some] at e; cases e; exact t2
        | none =>
          simp only [andThen_none] at e
          -- facts about s2 relative to s: same RCV.NXT, same "SYN-SENT or not"
          have rcv2 : s2.rcv = s.rcv := same2.rcv.trans g1
          have st2 : s2.state = .SynSent ↔ s.state = .SynSent := by rw [iff2, k1.state]
          cases h4 : synBlock s2 segment.hdr with
          | error err => rw [h4] at e; simp [B.andThen] at e
          | ok p4 =>
            obtain ⟨s4, r4⟩ := p4
            rw [h4] at e
            -- after block 4: RCV.NXT known and below, the text/FIN of this segment not before it
            have key4 : RcvStep base N s s4 ∧
                (s4.state ≠ .SynSent → off base s4.rcv.nxt ≤ N ∧
                  (0 < segment.segLen → off base segment.hdr.seq ≤ off base s4.rcv.nxt)) := by
              rcases (synBlock_rcv _ _ _ _ h4).1 with ⟨hr4, hs4⟩ | ⟨hss, hsyn, hnxt, hns⟩
              · have t4 : RcvStep base N s s4 :=
                  t2.trans (RcvStep.of_same t2.below hr4 (by rw [hs4]))
                refine ⟨t4, fun hne => ⟨t4.below hne, fun hl => ?_⟩⟩
                have hns : s.state ≠ .SynSent := fun hx => hne (by rw [hs4]; exact st2.2 hx)
                have hg := hgate hns
                have hbs := hb hns
                have hlen := hσ.len hl
                rw [hr4, rcv2]
                have hiff := modGt_iff_off base segment.hdr.seq s.rcv.nxt (by omega) (by omega)
                rw [hg] at hiff
                rcases Nat.lt_or_ge (off base s.rcv.nxt) (off base segment.hdr.seq) with hlt | hge
                · exact absurd (hiff.2 hlt) (by simp)
                · exact hge
              · have hbase := hσ.syn hsyn
                have hsl : 0 < segment.segLen := by
                  unfold Segment.segLen; rw [hsyn]; simp only [Bool.toNat_true]; omega
                have hlen := hσ.len hsl
                have o1 : off base s4.rcv.nxt = 1 := by
                  rw [hnxt, hbase, off_add_one base base (by rw [off_self]; omega), off_self]
                have o0 : off base segment.hdr.seq = 0 := by rw [hbase, off_self]
                have hss0 : s.state = .SynSent := st2.1 hss
                refine ⟨⟨fun _ => by rw [o1]; omega, fun h => absurd hss0 h, fun h => absurd hss0 h⟩,
                  fun _ => ⟨by rw [o1]; omega, fun _ => by rw [o0, o1]; omega⟩⟩
            obtain ⟨t4, pos4⟩ := key4
            cases r4 with
            | some x => simp only [andThen_some] at e; cases e; exact t4
            | none =>
              simp only [andThen_none] at e
              cases h5 : textBlock s4 segment.hdr segment.text (BitVec.ofNat 32 segment.text.length) with
              | error err => rw [h5] at e; simp [B.andThen] at e
              | ok p5 =>
                obtain ⟨s5, r5⟩ := p5
                obtain ⟨k5, hr5⟩ := textBlock_edges _ _ _ _ _ _ h5
                subst hr5
                rw [h5] at e
                simp only [andThen_none] at e
                cases h6 : finBlock s5 segment.hdr (BitVec.ofNat 32 segment.text.length) with
                | error err => rw [h6] at e; simp at e
                | ok p6 =>
                  obtain ⟨s6, r6⟩ := p6
                  rw [h6] at e
                  have hs' : s' = s6 := by cases r6 <;> (cases e; rfl)
                  subst hs'
                  obtain ⟨s6', r6', e6, rx6⟩ := finBlock_spec s5 segment.hdr (BitVec.ofNat 32 segment.text.length)
                  rw [e6] at h6
                  cases h6
                  have hne : s4.state ≠ .SynSent := (synBlock_rcv _ _ _ _ h4).2 rfl
                  · obtain ⟨hb4, hpos⟩ := pos4 hne
                    have htextpos : segment.text ≠ [] → 0 < segment.segLen := by
                      intro h; unfold Segment.segLen
                      have := List.length_pos_iff.2 h; omega
                    have tb := textBlock_rcv s4 segment.hdr segment.text s5 none h5 base N hN hb4
                      (fun hne' => by
                        have hl := htextpos hne'
                        have := hσ.len hl
                        unfold Segment.segLen at this
                        exact ⟨by omega, hpos hl⟩)
                    have fb := finBlock_rcv s5 segment.hdr segment.text.length s' _ e6 base N hN tb.2
                      (fun hfin => by
                        have hl : 0 < segment.segLen := by unfold Segment.segLen; rw [hfin]; simp
                        have := hσ.len hl
                        unfold Segment.segLen at this
                        rw [hfin] at this
                        simp only [Bool.toNat_true] at this
                        have hs : segment.hdr.ctl.syn.toNat ≤ 1 := by cases segment.hdr.ctl.syn <;> simp
                        omega)
                    have n5 : s5.state ≠ .SynSent := by rw [k5.state]; exact hne
                    have n6 : s'.state ≠ .SynSent := fun hx => n5 (rx6.synsent hx)
                    refine ⟨fun _ => fb.2, fun h => ?_, fun _ => n6⟩
                    exact Nat.le_trans (t4.mono h) (Nat.le_trans tb.1 fb.1)

/-! ## `segment_arrives` -/

theorem drain_rcv (fuel : Nat) (s s' : Tcb) (r : SegmentArrivesResult) (e : drain fuel s = .ok (s', r))
    (base : Seq) (N : Nat) (hN : N < 2147483648) (hb : RcvBelow base N s)
    (hh : ∀ σ ∈ s.incoming.segments, SegBelow base N σ) :
    r = .Ok → RcvStep base N s s' ∧ ∀ σ ∈ s'.incoming.segments, SegBelow base N σ := by
  induction fuel generalizing s with
  | zero =>
    unfold drain at e; cases e
    exact fun _ => ⟨RcvStep.of_same hb rfl Iff.rfl, hh⟩
  | succ n ih =>
    unfold drain at e
    split at e
    · cases e; exact fun _ => ⟨RcvStep.of_same hb rfl Iff.rfl, hh⟩
    · rename_i top hpeek
      split at e
      · cases e; exact fun _ => ⟨RcvStep.of_same hb rfl Iff.rfl, hh⟩
      · rename_i hgate
        obtain ⟨rest, hpop⟩ := LHeap.pop_of_peek (le := segLe) hpeek
        rw [hpop] at e
        dsimp only at e
        have hmem := LHeap.mem_of_mem_pop hpop
        cases hp : processSegment { s with incoming.segments := rest } top with
        | error err => rw [hp] at e; simp at e
        | ok p1 =>
          obtain ⟨s1, r1⟩ := p1
          rw [hp] at e
          dsimp only at e
          have g : s.state ≠ .SynSent → modGt top.hdr.seq s.rcv.nxt = false := by
            intro hs
            cases hm : modGt top.hdr.seq s.rcv.nxt with
            | false => rfl
            | true => exact absurd (by simp [hs, hm]) hgate
          have t0 := processSegment_rcv { s with incoming.segments := rest } top s1 r1 hp base N hN hb
              (hh top hmem.1) g
          have t1 : RcvStep base N s s1 := ⟨t0.below, t0.mono, t0.notBack⟩
          split at e
          · cases e; exact fun h => by simp at h
          · have heap1 : s1.incoming.segments = rest := processSegment_heap _ _ _ _ hp
            intro hr
            obtain ⟨t2, hh2⟩ := ih s1 e t1.below
              (fun σ hσ => by rw [heap1] at hσ; exact hh σ (hmem.2 σ hσ)) hr
            exact ⟨t1.trans t2, hh2⟩

/-- **`segment_arrives`**: with the arriving segment and everything parked below `base + N`,
    RCV.NXT stays at most `N` ahead of `base`, never moves backwards, and what stays parked is
    still below -/
theorem segmentArrives_rcv (s : Tcb) (segment : Segment) (s' : Tcb)
    (e : s.segmentArrives segment = .ok (s', .Ok))
    (base : Seq) (N : Nat) (hN : N < 2147483648) (hb : RcvBelow base N s)
    (hseg : SegBelow base N segment) (hh : ∀ σ ∈ s.incoming.segments, SegBelow base N σ) :
    RcvStep base N s s' ∧ ∀ σ ∈ s'.incoming.segments, SegBelow base N σ := by
  unfold segmentArrives at e
  dsimp only at e
  split at e
  · simp at e
  · rw [enqueue_eq] at e
    cases e
    refine ⟨RcvStep.of_same hb (enqueueBuilt_frame _ _).2.1 (by rw [state_enqueueBuilt]), ?_⟩
    rw [(enqueueBuilt_frame _ _).2.2.2.1]; exact hh
  · have t0 := drain_rcv _ { s with incoming.segments := LHeap.push segLe s.incoming.segments segment } s' _ e
      base N hN hb (fun σ hσ => by
        rcases LHeap.mem_push.1 hσ with rfl | h
        · exact hseg
        · exact hh σ h) rfl
    exact ⟨⟨t0.1.below, t0.1.mono, t0.1.notBack⟩, t0.2⟩

end Tcb
end Elvis.Tcp
