//! C01: correspondence + oracle runs (sub-commands `c01` / `c01-*`).
use hcommon::*;

pub fn run(args: &Args) {
    eprintln!("hcore: {} not implemented yet", args.prop);
    std::process::exit(2);
}
