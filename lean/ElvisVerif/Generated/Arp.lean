-- GENERATED from /repo sources by tools/extract.py on every check; do not edit
namespace Elvis.Gen.Arp
/-- `Arp::RESEND_TRIES` -/
def resendTries : Nat := 10
/-- `Arp::RESEND_DELAY` in microseconds -/
def resendDelayUs : Nat := 200000
def packetSize : Nat := 28
def htype : Nat := 1
def ptype : Nat := 2048
def hlen : Nat := 6
def plen : Nat := 4
def operRequest : Nat := 1
def operReply : Nat := 2
/-- `target_mac` placeholder of `ArpPacket::new_request` -/
def requestTargetMac : Nat := 69
def broadcastMac : Nat := 281474976710655
/-- does an `Err` entry of the ARP table answer `resolve` and wake waiters of `get_mac`? -/
def cachedFailureIsAnswer : Bool := false
/-- `clamp` of subnetting.rs (u32 arguments) -/
def clamp (num min max : Nat) : Nat := if num < min then min else if num > max then max else num
/-- `Ipv4Mask::from_bitcount` (no u32 overflow possible: `size < 32` in the last branch) -/
def maskFromBitcount (size : Nat) : Nat :=
  let size := clamp size 0 32
  if size == 0 then 0 else if size == 32 then 0xFFFFFFFF else ((1 <<< size) - 1) <<< (32 - size)
/-- `Ipv4Net::new(ip, mask).id()` -/
def netId (ip mask : Nat) : Nat := ip &&& mask
end Elvis.Gen.Arp
