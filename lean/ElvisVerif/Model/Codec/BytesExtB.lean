/-
Model of `elvis_core::protocols::utility::BytesExt` (sim/elvis-core/src/protocols/utility.rs),
the big-endian readers over a byte iterator, plus the error type shared by the ARP / DNS / DHCP
decoder models and a model of `String::from_utf8` validity.

A byte iterator is a `List UInt8`; a reader returns the value and the rest of the list
(`None` = the iterator ran dry, exactly like `self.next()?`).  Values of fixed-width integer
fields are `Nat`s (with the bound proved by the `*_lt` lemmas in `Props/C08b.lean`).
No imports: this file is linked into the native driver.
-/
namespace Elvis.CodecB

/-- Outcome classes of the decoders.  Every `unwrap` / `unreachable!` / checked arithmetic /
    index site of the Rust code is a `panic site`; the other constructors are the `ParseError`
    variants of the three `*_parsing.rs` files. -/
inductive DecErr
  | tooShort            -- `ParseError::HeaderTooShort` (arp, dns, dhcp)
  | invalidOperation    -- `arp_parsing::ParseError::InvalidOperation`
  | invalidDhcpType     -- `dhcp_parsing::ParseError::InvalidDhcpType`
  | invalidString       -- `dhcp_parsing::ParseError::InvalidString` (added by the F-C14-1 fix)
  | invalidName         -- `dns_parsing::ParseError::InvalidName` (added by the F-C14-3 fix)
  | panic (site : String)
deriving Repr, DecidableEq

def DecErr.toString : DecErr → String
  | .tooShort => "HeaderTooShort"
  | .invalidOperation => "InvalidOperation"
  | .invalidDhcpType => "InvalidDhcpType"
  | .invalidString => "InvalidString"
  | .invalidName => "InvalidName"
  | .panic s => s

abbrev Bytes := List UInt8


/-- `opt.ok_or(HTS)?` -/
def orShort {α : Type} : Option α → Except DecErr α
  | some a => .ok a
  | none => .error .tooShort

/-- `BytesExt::next_u8` -/
def nextU8 : Bytes → Option (Nat × Bytes)
  | a :: r => some (a.toNat, r)
  | [] => none

/-- `BytesExt::next_u16_be` : `u16::from_be_bytes([next()?, next()?])` -/
def nextU16 : Bytes → Option (Nat × Bytes)
  | a :: b :: r => some (a.toNat * 256 + b.toNat, r)
  | _ => none

/-- `BytesExt::next_u32_be` -/
def nextU32 : Bytes → Option (Nat × Bytes)
  | a :: b :: c :: d :: r =>
    some (((a.toNat * 256 + b.toNat) * 256 + c.toNat) * 256 + d.toNat, r)
  | _ => none

/-- `BytesExt::next_u48_be` : `u64::from_be_bytes([0, 0, next()?, … ×6])` -/
def nextU48 : Bytes → Option (Nat × Bytes)
  | a :: b :: c :: d :: e :: f :: r =>
    some (((((a.toNat * 256 + b.toNat) * 256 + c.toNat) * 256 + d.toNat) * 256 + e.toNat) * 256
      + f.toNat, r)
  | _ => none

/-- `BytesExt::next_ipv4addr` = `next_u32_be().map(Ipv4Address::from)`; an address is modelled
    by its `u32` value (`Ipv4Address::from(u32)` / `to_bytes` are the big-endian bijection). -/
def nextIpv4 : Bytes → Option (Nat × Bytes) := nextU32

/-- `x.to_be_bytes()` of a `u8` -/
def putU8 (v : Nat) : Bytes := [UInt8.ofNat v]
/-- `x.to_be_bytes()` of a `u16` -/
def putU16 (v : Nat) : Bytes := [UInt8.ofNat (v / 256), UInt8.ofNat v]
/-- `x.to_be_bytes()` of a `u32`, `Ipv4Address::to_bytes` -/
def putU32 (v : Nat) : Bytes :=
  [UInt8.ofNat (v / 16777216), UInt8.ofNat (v / 65536), UInt8.ofNat (v / 256), UInt8.ofNat v]
/-- `&x.to_be_bytes()[2..8]` of a `u64` (the two most significant bytes are dropped) -/
def putU48 (v : Nat) : Bytes :=
  [UInt8.ofNat (v / 1099511627776), UInt8.ofNat (v / 4294967296), UInt8.ofNat (v / 16777216),
   UInt8.ofNat (v / 65536), UInt8.ofNat (v / 256), UInt8.ofNat v]

/-! ### `String::from_utf8` validity

`core::str::from_utf8` accepts exactly the well-formed UTF-8 byte sequences of the Unicode
standard (table 3-7): no overlong forms, no surrogates, nothing above U+10FFFF.  Modelled as the
DFA over the lead-byte classes (what `run_utf8_validation` implements); the agreement with
`std` is exercised by the harness (all lead bytes × boundary continuation bytes, truncations). -/

inductive Utf8State
  | start   -- between characters
  | c1      -- one continuation byte 80..BF to go
  | c2      -- two continuation bytes to go
  | e0      -- after E0: A0..BF then c1
  | ed      -- after ED: 80..9F then c1
  | f0      -- after F0: 90..BF then c2
  | f13     -- after F1..F3: 80..BF then c2
  | f4      -- after F4: 80..8F then c2
deriving Repr, DecidableEq

def utf8Step (s : Utf8State) (b : UInt8) : Option Utf8State :=
  let n := b.toNat
  match s with
  | .start =>
    if n < 0x80 then some .start
    else if 0xC2 ≤ n ∧ n ≤ 0xDF then some .c1
    else if n = 0xE0 then some .e0
    else if (0xE1 ≤ n ∧ n ≤ 0xEC) ∨ n = 0xEE ∨ n = 0xEF then some .c2
    else if n = 0xED then some .ed
    else if n = 0xF0 then some .f0
    else if 0xF1 ≤ n ∧ n ≤ 0xF3 then some .f13
    else if n = 0xF4 then some .f4
    else none
  | .c1 => if 0x80 ≤ n ∧ n ≤ 0xBF then some .start else none
  | .c2 => if 0x80 ≤ n ∧ n ≤ 0xBF then some .c1 else none
  | .e0 => if 0xA0 ≤ n ∧ n ≤ 0xBF then some .c1 else none
  | .ed => if 0x80 ≤ n ∧ n ≤ 0x9F then some .c1 else none
  | .f0 => if 0x90 ≤ n ∧ n ≤ 0xBF then some .c2 else none
  | .f13 => if 0x80 ≤ n ∧ n ≤ 0xBF then some .c2 else none
  | .f4 => if 0x80 ≤ n ∧ n ≤ 0x8F then some .c2 else none

def utf8Run : Utf8State → Bytes → Bool
  | s, [] => s == .start
  | s, b :: r => match utf8Step s b with
    | some s' => utf8Run s' r
    | none => false

/-- `String::from_utf8(v).is_ok()` -/
def utf8Valid (bs : Bytes) : Bool := utf8Run .start bs

/-- the loop `while current != DELIM { v.push(current); current = next().ok_or(HTS)? }` after a
    first `current = next().ok_or(HTS)?`: bytes up to the first `delim`, the delimiter consumed -/
def readUntil (delim : UInt8) : Bytes → Option (Bytes × Bytes)
  | [] => none
  | b :: r =>
    if b = delim then some ([], r)
    else match readUntil delim r with
      | some (n, r') => some (b :: n, r')
      | none => none

end Elvis.CodecB
