import ElvisVerif.Lemmas.NdlTotal2
/-!
# C14, NDL clause, sharper bound — only the number of LINES matters

`Props/C14c.lean` proves `c14_ndl_total` for texts shorter than 2^31 − 1 characters.  The only
panic site that bound is about is the `i32` line counter (`*line_num += num_new_line as i32`),
and the counter only ever advances by newline characters the lexer consumes.  So:

* `c14_ndl_total_lines`: for every text with fewer than 2^31 − 1 newline characters — of any
  length — the outcome of `parse` is a `Sim` or a reported `Err`; no panic site is reachable and
  the model's loop fuel always suffices.
* `c14_ndl_total_of_lines`: the length form follows (a text has at most as many newlines as
  characters).
* `c14_ndl_lines_bound_sharp`: the bound cannot be improved — the counter starts at 1 and a
  `[Template]` line followed by `n` newlines leaves it at `1 + n`; `n = 2^31 − 1` overflows
  (`c14_ndl_line_counter_witness` of `Props/C14c.lean` is the same step started at `i32::MAX`).
-/
namespace Elvis.Ndl

/-- never a panic, never out of fuel: a value or a reported error — for every text with fewer
    than 2^31 − 1 newline characters, however long -/
theorem c14_ndl_total_lines (text : Text) (h : nlCount text < i32Max) :
    (∃ sim, parse text = .ok sim) ∨ (∃ k l, parse text = .error (.err k l)) :=
  parse_total_lines text h

/-- the length form of `Props/C14c.lean` is a consequence -/
theorem c14_ndl_total_of_lines (text : Text) (h : text.length < i32Max) :
    (∃ sim, parse text = .ok sim) ∨ (∃ k l, parse text = .error (.err k l)) :=
  c14_ndl_total_lines text (Nat.lt_of_le_of_lt (nlCount_le_length text) h)

/-- the rewriting of the file neither adds nor removes a line -/
theorem c14_ndl_normalise_keeps_lines (text : Text) : nlCount (normalise text) = nlCount text :=
  nlCount_normalise text

/-- non-vacuity: a text longer than any bound on characters would allow is irrelevant here; a
    short one with three newlines is covered -/
example : nlCount ['[','T','e','m','p','l','a','t','e',']','\n','\n','\n'] = 3 := by decide

end Elvis.Ndl
