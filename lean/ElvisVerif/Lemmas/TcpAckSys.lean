import ElvisVerif.Lemmas.TcpAckCore
import ElvisVerif.Lemmas.TcpSysInv
/-!
# The acknowledgment invariant of the closed two-endpoint system

`AckInv sys`: `AckCore` (`Lemmas/TcpAckCore.lean`) for both orderings of the two sides.  Kept by
every clean op (`Op.Clean`: write, read, tick, emit, close, delivery of any history element to the
side it is addressed to) and by `drop`, given the two invariants it builds on:

* `Inv` of `Lemmas/TcpSysInv.lean` (RCV.NXT of one side never passes SND.NXT of the other), with
  `RoomOk` (H31: fewer than 2^31 sequence numbers per direction);
* `SysInv` of `Lemmas/ShiftInv.lean` (a TCB in SYN-SENT is as `open` made it; built for C12).

`Full` bundles the three; `full_step`, `full_run`.
-/
namespace Elvis.Tcp
open Tcb

def AckLink (sys : Sys) (x : SideId) : Prop :=
  AckCore (sys.side x).tcb (sys.side x.peer).tcb (sys.side x.peer).listen.isSome sys.history x.peer.port

def AckInv (sys : Sys) : Prop := ∀ x, AckLink sys x

theorem side_setSide_if (sys : Sys) (z : SideId) (sd' : Side) (y : SideId) :
    (sys.setSide z sd').side y = if y = z then sd' else sys.side y := by
  rcases side_cases z y with hy | hy <;> subst y
  · rw [side_setSide_same]; simp
  · rw [side_setSide_peer, if_neg (SideId.peer_ne _)]

/-! ## a local call on one side -/

theorem ackInv_update (sys : Sys) (hi : Inv sys) (ha : AckInv sys) (z : SideId) (t t' : Tcb) (sd' : Side)
    (new : List Segment) (ht : (sys.side z).tcb = some t) (hsd : sd'.tcb = some t')
    (hl : sd'.listen = (sys.side z).listen) (l : LStep t t') (hp : ∀ σ ∈ new, σ.hdr.srcPort = z.port)
    (hnew : ∀ σ ∈ new, σ.hdr ∈ t.outgoing.oneshot ∨ ∃ tr ∈ t'.outgoing.retransmit, tr.segment = σ) :
    AckInv ((sys.setSide z sd').record new) := by
  have hhist : ∀ σ, σ ∈ ((sys.setSide z sd').record new).history → σ ∈ new ∨ σ ∈ sys.history := by
    intro σ h; rw [mem_history_record, history_setSide] at h; exact h
  intro x
  rcases side_cases z x with hx | hx <;> subst x
  · -- the updated side receives the ACKs
    have h0 := ha z
    unfold AckLink at h0 ⊢
    rw [side_record, side_record, side_setSide_same, side_setSide_peer, hsd]
    rw [ht] at h0
    refine h0.local_x l hhist (fun σ hσ => by rw [hp σ hσ]; exact fun e => SideId.port_ne z e.symm) hnew ?_
    intro hy hlis
    have := ((hi.link z.peer).fresh hy hlis).2 t (by rw [SideId.peer_peer]; exact ht)
    exact this.1
  · -- the updated side is the acknowledger
    have h0 := ha z.peer
    unfold AckLink at h0 ⊢
    rw [SideId.peer_peer] at h0 ⊢
    rw [side_record, side_record, side_setSide_same, side_setSide_peer, hsd, hl]
    rw [ht] at h0
    exact h0.local_y l hhist hnew

/-! ## deletion of a TCB -/

theorem ackInv_delete (sys : Sys) (_ha : AckInv sys) (z : SideId) (sd' : Side) (hsd : sd'.tcb = none)
    (hl : sd'.listen = none) : AckInv (sys.setSide z sd') := by
  intro x
  rcases side_cases z x with hx | hx <;> subst x
  · unfold AckLink
    rw [side_setSide_same, hsd]
    exact AckCore.of_none _ _ _ _
  · unfold AckLink
    rw [SideId.peer_peer, side_setSide_same, hsd, hl]
    exact AckCore.of_gone _ _ _

/-! ## a side without TCB answers -/

/-- `new` are answers of side `z`, which has no TCB; if it listens they carry no ACK bit -/
theorem ackInv_respond (sys : Sys) (ha : AckInv sys) (z : SideId) (hz : (sys.side z).tcb = none)
    (new : List Segment)
    (hn : (sys.side z).listen.isSome = true → ∀ σ ∈ new, σ.hdr.ctl.ack = false) : AckInv (sys.record new) := by
  intro x
  rcases side_cases z x with hx | hx <;> subst x
  · unfold AckLink
    rw [side_record, hz]
    exact AckCore.of_none _ _ _ _
  · have h0 := ha z.peer
    unfold AckLink at h0 ⊢
    rw [SideId.peer_peer] at h0 ⊢
    rw [side_record, side_record]
    refine h0.respond (fun σ h => (mem_history_record sys new σ).1 h) (fun σ hσ => ⟨fun u hu => ?_, fun _ hlis => hn hlis σ hσ⟩)
    rw [hz] at hu; cases hu

/-! ## a segment arrives at a side that has a TCB -/

/-- both TCBs exist: what `segmentArrives_ack` yields for the receiving TCB `u` -/
theorem arrive_both (sys : Sys) (hi : Inv sys) (hs : SysInv sys) (ha : AckInv sys) (hroom : RoomOk sys)
    (z : SideId) (u u' : Tcb) (σ : Segment)
    (hu : (sys.side z).tcb = some u) (hσ : σ ∈ sys.history) (hsrc : σ.hdr.srcPort = z.peer.port)
    (e : u.segmentArrives σ = .ok (u', .Ok)) (t : Tcb) (ht : (sys.side z.peer).tcb = some t) :
    AStep t.snd.iss t.sent False (fun v => 1 ≤ off u.snd.iss v ∧ off u.snd.iss v ≤ top u.snd.iss t) u u' ∧
      AckRcv u.snd.iss (top u.snd.iss t) u' := by
  have huz : (sys.side z.peer.peer).tcb = some u := by rw [SideId.peer_peer]; exact hu
  have hAz := ha z
  have hAp := ha z.peer
  unfold AckLink at hAz hAp
  rw [SideId.peer_peer] at hAp
  rw [hu] at hAz hAp
  have hroomu : u.sent < 2147483648 := by
    have := hroom z u hu
    unfold Room at this; omega
  have hN : t.sent < 2147483648 := by
    have := hroom z.peer t ht
    unfold Room at this; omega
  obtain ⟨r1, r2⟩ := (hi.link z.peer).rcv t u ht huz
  have r3 := ((hi.link z).rcv u t hu ht).1
  have hr : AckRcv u.snd.iss (top u.snd.iss t) u :=
    ⟨(hs z u hu).fresh, hAz.rcvd u t rfl ht, rfl, hAz.una u t rfl ht, top_le r3, hroomu⟩
  obtain ⟨a, _, hr'⟩ := segmentArrives_ack u σ u' e t.snd.iss t.sent hN r1 (hAp.q t u ht rfl).pos
    ((hi.link z.peer).hist t ht σ hσ hsrc) r2 u.snd.iss (top u.snd.iss t) hr
    (hAz.hist u t rfl ht σ hσ hsrc) (hAz.heap u t rfl ht)
  exact ⟨a, hr'⟩

/-- the peer only listens: the receiving TCB `u` is in SYN-SENT and stays there -/
theorem arrive_listening (sys : Sys) (hi : Inv sys) (hs : SysInv sys) (ha : AckInv sys) (hroom : RoomOk sys)
    (z : SideId) (u u' : Tcb) (σ : Segment)
    (hu : (sys.side z).tcb = some u) (hσ : σ ∈ sys.history) (hsrc : σ.hdr.srcPort = z.peer.port)
    (e : u.segmentArrives σ = .ok (u', .Ok)) (ht : (sys.side z.peer).tcb = none)
    (hlis : (sys.side z.peer).listen.isSome = true) :
    AStep 0 0 False (fun v => 1 ≤ off u.snd.iss v ∧ off u.snd.iss v ≤ 0) u u' ∧ AckRcv u.snd.iss 0 u' ∧
      u.state = .SynSent ∧ u'.state = .SynSent := by
  have huz : (sys.side z.peer.peer).tcb = some u := by rw [SideId.peer_peer]; exact hu
  have hAz := ha z
  unfold AckLink at hAz
  rw [hu, ht, hlis] at hAz
  have hroomu : u.sent < 2147483648 := by
    have := hroom z u hu
    unfold Room at this; omega
  obtain ⟨f1, f2⟩ := hAz.fresh u rfl rfl rfl
  obtain ⟨g1, g2⟩ := (hi.link z.peer).fresh ht hlis
  obtain ⟨hst, g3⟩ := g2 u huz
  have hσ0 := g1 σ hσ hsrc
  have hst' : u'.state = .SynSent :=
    segmentArrives_synsent_stays u σ u' e hst hσ0.2 (fun x hx => (g3 x hx).2)
  have hr : AckRcv u.snd.iss 0 u :=
    ⟨(hs z u hu).fresh, fun h => (by rw [hst] at h; cases h), rfl, (by rw [f2.una, off_self]; exact Nat.le_refl _),
      Nat.zero_le _, hroomu⟩
  obtain ⟨a, _, hr'⟩ := segmentArrives_ack u σ u' e 0 0 (by omega) (fun hne => absurd hst hne)
    (fun hne => absurd hst hne) (segBelow_of_empty _ _ _ hσ0) (fun x hx => segBelow_of_empty _ _ _ (g3 x hx))
    u.snd.iss 0 hr (ackLe_of_noack (f1 σ hσ)) (fun x hx => ackLe_of_noack (f2.heap x hx))
  exact ⟨a, hr', hst, hst'⟩

theorem ackInv_arrive_tcb (sys : Sys) (hi : Inv sys) (hs : SysInv sys) (ha : AckInv sys) (hroom : RoomOk sys)
    (z : SideId) (u u' : Tcb) (σ : Segment)
    (hu : (sys.side z).tcb = some u) (hσ : σ ∈ sys.history) (hsrc : σ.hdr.srcPort = z.peer.port)
    (e : u.segmentArrives σ = .ok (u', .Ok)) (sd' : Side) (hsd : sd'.tcb = some u')
    (hl : sd'.listen = (sys.side z).listen) : AckInv (sys.setSide z sd') := by
  have k := segmentArrives_snd u σ u' .Ok e
  have hsub := segmentArrives_heap_sub u σ u' .Ok e
  have hAz := ha z
  have hAp := ha z.peer
  unfold AckLink at hAz hAp
  rw [SideId.peer_peer] at hAp
  rw [hu] at hAz hAp
  have key := arrive_both sys hi hs ha hroom z u u' σ hu hσ hsrc e
  intro x
  rcases side_cases z x with hx | hx <;> subst x
  · -- the receiving side as receiver of ACKs
    unfold AckLink
    rw [side_setSide_same, side_setSide_peer, history_setSide, hsd]
    cases ht : (sys.side z.peer).tcb with
    | some t =>
      rw [ht] at hAz
      exact hAz.arrive_x k.iss (key t ht).2 hsub hσ hsrc
    | none =>
      rw [ht] at hAz
      cases hlis : (sys.side z.peer).listen.isSome with
      | false => exact AckCore.of_gone _ _ _
      | true =>
        rw [hlis] at hAz
        obtain ⟨f1, f2⟩ := hAz.fresh u rfl rfl rfl
        obtain ⟨a, hr', _, hst'⟩ := arrive_listening sys hi hs ha hroom z u u' σ hu hσ hsrc e ht hlis
        refine hAz.arrive_fresh ⟨fun x hx => ?_, fun tr hx => ?_, fun x hx => ?_, ?_⟩
        · rcases a.q.one x hx with e1 | e1
          · exact f2.one x e1
          · have := e1.1
            rw [top_of_synSent hst'] at this
            exact this.zero
        · rcases a.q.rtx tr hx with ⟨t0, e1, es⟩ | e1
          · rw [← es]; exact f2.rtx t0 e1
          · have := e1.1
            rw [top_of_synSent hst'] at this
            exact this.zero
        · rcases List.mem_cons.1 (hsub x hx) with rfl | e1
          · exact f1 _ hσ
          · exact f2.heap x e1
        · have h0 : off u.snd.iss u'.snd.una = 0 := Nat.le_zero.1 hr'.una
          rw [k.iss]
          exact off_eq_zero h0
  · -- the receiving side as acknowledger
    unfold AckLink
    rw [SideId.peer_peer, side_setSide_same, side_setSide_peer, history_setSide, hsd, hl]
    exact hAp.arrive_y (fun t ht => ⟨_, _, _, (key t ht).1⟩)

/-! ## the passive side creates its TCB -/

theorem ackInv_create (sys : Sys) (hi : Inv sys) (ha : AckInv sys) (z : SideId) (iss : Seq) (mtu : U16) (σ : Segment)
    (tcb : Tcb) (hz : (sys.side z).tcb = none) (hlis : (sys.side z).listen = some (iss, mtu))
    (hσ : σ ∈ sys.history) (hsrc : σ.hdr.srcPort = z.peer.port)
    (e : segmentArrivesListen σ iss mtu = .ok (some (.Tcb tcb))) (sd' : Side) (hsd : sd'.tcb = some tcb)
    (hl : sd'.listen = (sys.side z).listen) : AckInv (sys.setSide z sd') := by
  obtain ⟨_, ciss, _, _, _, cst, cnxt, csyn, _⟩ := listen_create σ iss mtu tcb e
  obtain ⟨cuna, cone, crtx, cheap⟩ := listen_create_ack σ iss mtu tcb e
  have hzB : z = .B := by
    cases z with
    | A =>
      have : sys.a.listen = some (iss, mtu) := hlis
      rw [hi.noListenA] at this; simp at this
    | B => rfl
  have hlis' : (sys.side z).listen.isSome = true := by rw [hlis]; rfl
  have hAp := ha z.peer
  unfold AckLink at hAp
  rw [SideId.peer_peer, hz, hlis'] at hAp
  obtain ⟨_, f2⟩ := (hi.link z).fresh hz hlis'
  intro x
  rcases side_cases z x with hx | hx <;> subst x
  · -- the new TCB as receiver of ACKs
    unfold AckLink
    rw [side_setSide_same, side_setSide_peer, history_setSide, hsd]
    cases ht : (sys.side z.peer).tcb with
    | none =>
      have : (sys.side z.peer).listen.isSome = false := by
        subst hzB
        have : sys.a.listen = none := hi.noListenA
        show sys.a.listen.isSome = false
        rw [this]; rfl
      rw [this]
      exact AckCore.of_gone _ _ _
    | some t =>
      rw [ht] at hAp
      obtain ⟨g1, g2⟩ := hAp.fresh t rfl rfl rfl
      obtain ⟨hst, _⟩ := f2 t ht
      refine ⟨fun a b ha' hb => ?_, fun a b ha' hb τ hτ _ => ?_, fun a b ha' hb τ hτ => ?_, fun a b ha' hb => ?_,
        fun a b ha' hb _ => ?_, fun a _ hy => by cases hy⟩
      all_goals cases ha'
      all_goals cases hb
      · exact ⟨fun h hh => ackLe_of_noack (g2.one h hh), fun tr hh => ackLe_of_noack (g2.rtx tr hh),
          fun hne => absurd hst hne⟩
      · exact ackLe_of_noack (g1 τ hτ)
      · exact ackLe_of_noack (cheap τ hτ).1
      · rw [cuna, ciss, off_self]; exact Nat.zero_le _
      · rw [cuna, ciss]
  · -- the new TCB as acknowledger
    unfold AckLink
    rw [SideId.peer_peer, side_setSide_same, side_setSide_peer, history_setSide, hsd, hl]
    cases ht : (sys.side z.peer).tcb with
    | none => exact AckCore.of_none _ _ _ _
    | some t =>
      rw [ht] at hAp
      obtain ⟨g1, g2⟩ := hAp.fresh t rfl rfl rfl
      obtain ⟨hst, _⟩ := f2 t ht
      have hbase : σ.hdr.seq = t.snd.iss := ((hi.link z.peer).hist t ht σ hσ hsrc).syn csyn
      have hns : tcb.state ≠ .SynSent := by rw [cst]; simp
      have o1 : off t.snd.iss tcb.rcv.nxt = 1 := by
        rw [cnxt, hbase, off_add_one _ _ (by rw [off_self]; omega), off_self]
      have htop : top t.snd.iss tcb = 1 := by rw [top_of_ne hns, o1]
      refine ⟨fun a b ha' hb => ?_, fun a b ha' hb τ hτ _ => ?_, fun a b ha' hb τ hτ => ?_, fun a b ha' hb => ?_,
        fun a b ha' hb hsr => ?_, fun a _ hy => by cases hy⟩
      all_goals cases ha'
      all_goals cases hb
      · refine ⟨fun h hh => (by rw [cone] at hh; cases hh), fun tr hh _ => ?_, fun _ => (by rw [o1]; exact Nat.le_refl _)⟩
        rw [(crtx tr hh).1, ← cnxt, o1, htop]
        exact ⟨Nat.le_refl _, Nat.le_refl _⟩
      · exact ackLe_of_noack (g1 τ hτ)
      · exact ackLe_of_noack (g2.heap τ hτ)
      · rw [g2.una, off_self]; exact Nat.zero_le _
      · rw [hst] at hsr; cases hsr

end Elvis.Tcp
