import ElvisVerif.Props.C14e
import ElvisVerif.Props.C04
import ElvisVerif.Props.C05
import ElvisVerif.Props.C08
/-!
# C04 across the link: from `UdpSession::send` on one machine to the applications on the others

`c04_end_to_end` composes

* the encoders (C08: `c08_udp_decode_encode`, `c08_ipv4_build_decode`): what `UdpSession::send`
  and `Ipv4Session::send` put in front of the payload decodes, on the other side, to the ports
  and addresses of the sending session;
* the link (C05: `sendPci`, `recipients`/`deliver`, `c05_unicast_exact`, `c05_broadcast_all_others`,
  `c05_payload_sender_unchanged`): which taps a frame that is not lost is handed to, unchanged;
* the receive path over bytes (`Model/RecvPath.lean`) with the table logic of C04
  (`ipv4_reaches_udp`, exact-then-wildcard of `Demux.udpDemux`):

a datagram sent to `(A, P)` is demultiplexed, on EVERY machine the frame reaches, at the
application bound to `(A, P)`, else at the one bound to `(0.0.0.0, P)`, else nowhere (the frame is
dropped with `MissingSession`, nothing changes) — with the payload that was sent, `(A, P)` as local
and the sender's endpoint as remote endpoint; and the machines it reaches are: for a unicast
destination MAC exactly the owner of that MAC, once; for a broadcast every tap of the network,
once each.
-/
namespace Elvis.Recv
open Elvis.Codec Elvis.Demux

/-- what the sending sessions put on the wire for `payload` from `src` to `dst`:
    `build_udp_header` over the payload (`UdpSession::send`), then an IPv4 header for protocol 17,
    unfragmented, with the session's addresses (`Ipv4Session::send`) -/
def Sent (ck : Bool) (src dst : Endpoint) (payload wire : Bytes) : Prop :=
  ∃ (b : Ipv4.Builder) (ih uh : Bytes),
    b.Wf ∧ b.protocol = 17 ∧ b.source = src.addr ∧ b.destination = dst.addr ∧
    b.fragmentOffset = 0 ∧ Elvis.Frag.isLast b.flags = true ∧
    -- `Ipv4HeaderBuilder::new(.., length as u16)` with `length` = the octets of the UDP datagram:
    -- the total length is that of the frame (a receiver cuts the frame at the total length and drops
    -- a frame that is shorter, fix F-C14-S3)
    b.payloadLength = 8 + payload.length ∧
    (Udp.Dgram.mk src.addr src.port dst.addr dst.port payload).Wf ∧
    Ipv4.build ck b = .ok ih ∧
    Udp.build ck src.addr src.port dst.addr dst.port payload payload.length = .ok uh ∧
    wire = ih ++ (uh ++ payload)

/-- the bytes on the wire decode to the sender's addresses and ports, and the payload follows -/
theorem sent_decodes {ck : Bool} {src dst : Endpoint} {payload wire : Bytes} (h : Sent ck src dst payload wire) :
    ∃ hd uh, Ipv4.fromBytes ck wire = .ok hd ∧ hd.source = src.addr ∧ hd.destination = dst.addr ∧
      hd.protocol = 17 ∧ (Elvis.Frag.isLast hd.flags && hd.fragmentOffset == 0) = true ∧
      Udp.fromBytes ck (wire.drop 20) (wire.drop 20).length hd.source hd.destination = .ok uh ∧
      uh.source = src.port ∧ uh.destination = dst.port ∧ (wire.drop 20).drop 8 = payload ∧
      hd.totalLength = wire.length := by
  obtain ⟨b, ih, uh, hb, hp, hs, hd, hfo, hlast, hpl, hdw, hbi, hbu, rfl⟩ := h
  obtain ⟨ih', e1, l1, dec1⟩ := Ipv4.c08_ipv4_build_decode ck b hb (uh ++ payload)
  rw [hbi] at e1; cases e1
  obtain ⟨uh', e2, l2, dec2⟩ := Udp.c08_udp_decode_encode ck ⟨src.addr, src.port, dst.addr, dst.port, payload⟩ hdw
  simp only at e2 dec2
  rw [hbu] at e2; cases e2
  have hdrop : (ih ++ (uh ++ payload)).drop 20 = uh ++ payload := by
    rw [← l1, List.drop_left]
  have hlen : (uh ++ payload).length = 8 + payload.length := by simp [l2]
  refine ⟨b.header ck, (Udp.Dgram.mk src.addr src.port dst.addr dst.port payload).header ck, dec1,
    hs, hd, hp, ?_, ?_, rfl, rfl, ?_, ?_⟩
  · simp [Ipv4.Builder.header, hlast, hfo]
  · rw [hdrop, hlen]
    simp only [Ipv4.Builder.header, hs, hd]
    exact dec2
  · rw [hdrop, ← l2, List.drop_left]
  · simp only [Ipv4.Builder.header, hpl, List.length_append, l1, l2]
    omega

/-- `Ipv4::demux` on a whole datagram whose header decodes, up to the binding lookup -/
theorem ipv4Demux_whole {env : Env} {m : Machine} {lk : Link} {bytes : Bytes} {hd : Ipv4.Header}
    (hdec : Ipv4.fromBytes env.ck bytes = .ok hd)
    (hw : (Elvis.Frag.isLast hd.flags && hd.fragmentOffset == 0) = true)
    (harr : hd.totalLength ≤ bytes.length)
    (hnone : ipv4Upstream m.dm hd.destination (protoNumber hd.protocol) = none) :
    ipv4Demux env m lk bytes = .ok (dropped m .missingSession [pidIpv4]) := by
  obtain ⟨hihl, hlen, htl, htl2, _⟩ := ipv4_ok_facts hdec
  have hfo : hd.fragmentOffset = 0 := by
    simp only [Bool.and_eq_true, beq_iff_eq] at hw; exact hw.2
  unfold ipv4Demux
  rw [hdec]
  dsimp only
  have a : ¬ hd.totalLength < hd.ihl * guardWord := by
    rw [hihl]; show ¬ hd.totalLength < 5 * 4; omega
  have b : fragmentBeyondMax hd = false := by
    unfold fragmentBeyondMax
    rw [hihl, hfo]
    show decide (0 * 8 + (hd.totalLength - 5 * 4) > 65535 - 5 * 4) = false
    simp; omega
  have t : ¬ bytes.length < hd.totalLength := by omega
  have c : ¬ (bytes.take hd.totalLength).length < hd.ihl * ipStripFactor := by
    rw [hihl, List.length_take]; show ¬ min hd.totalLength bytes.length < 5 * 4; omega
  rw [if_neg a, b, if_neg (by simp), if_neg t, if_neg c, hnone]

/-- where the datagram ends up on ONE machine: the exact binding, else the wildcard binding,
    else nowhere -/
def AtMachine (env : Env) (m : Machine) (lk : Link) (src dst : Endpoint) (payload wire : Bytes) : Prop :=
  match lookup dst m.dm.udp with
  | some app =>
    receive env m lk ⟨pidIpv4, wire⟩ =
      .ok { machine := m, ret := .ok (), effects := [.appDemux ⟨app, payload, dst, src, lk.slot⟩],
            calls := [pidIpv4, pidUdp] }
  | none =>
    match lookup (⟨anyAddr, dst.port⟩ : Endpoint) m.dm.udp with
    | some app =>
      receive env m lk ⟨pidIpv4, wire⟩ =
        .ok { machine := m, ret := .ok (), effects := [.appDemux ⟨app, payload, dst, src, lk.slot⟩],
              calls := [pidIpv4, pidUdp] }
    | none => ∃ calls, receive env m lk ⟨pidIpv4, wire⟩ = .ok (dropped m .missingSession calls)

/-- the UDP stage on the decoded datagram -/
theorem udpDemux_sent {env : Env} {m : Machine} (hm : m.dm.WF) {lk : Link} {src dst : Endpoint} {payload body : Bytes}
    {hd : Ipv4.Header} {uh : Udp.Header}
    (hs : hd.source = src.addr) (hdst : hd.destination = dst.addr)
    (hu : Udp.fromBytes env.ck body body.length hd.source hd.destination = .ok uh)
    (hsp : uh.source = src.port) (hdp : uh.destination = dst.port) (hpay : body.drop 8 = payload) :
    udpDemux env m lk (some hd) body =
      match lookup dst m.dm.udp with
      | some app => .ok { machine := m, ret := .ok (), effects := [.appDemux ⟨app, payload, dst, src, lk.slot⟩], calls := [pidUdp] }
      | none =>
        match lookup (⟨anyAddr, dst.port⟩ : Endpoint) m.dm.udp with
        | some app => .ok { machine := m, ret := .ok (), effects := [.appDemux ⟨app, payload, dst, src, lk.slot⟩], calls := [pidUdp] }
        | none => .ok (dropped m .missingSession [pidUdp]) := by
  have hl := udp_ok_len hu
  have hlt : ¬ body.length < udpStripN := by show ¬ body.length < 8; omega
  have hdstE : (⟨hd.destination, dst.port⟩ : Endpoint) = dst := by cases dst; simp_all
  have hsrcE : (⟨hd.source, src.port⟩ : Endpoint) = src := by cases src; simp_all
  unfold udpDemux
  dsimp only
  rw [hu]
  dsimp only
  rw [if_neg hlt]
  unfold Demux.udpDemux
  simp only [absIp, hdp, hsp, hdstE, hsrcE]
  have hp' : List.drop udpStrip body = payload := hpay
  rw [hp']
  cases h1 : lookup dst m.dm.udp with
  | some app => simp only [udpSessionReceive, hm.appsPresent _ _ h1, if_true]
  | none =>
    simp only []
    cases h2 : lookup (⟨anyAddr, dst.port⟩ : Endpoint) m.dm.udp with
    | some app => simp only [udpSessionReceive, hm.appsPresent _ _ h2, if_true]
    | none => rfl

/-- one machine: for every well-formed machine (bindings made through `Udp::listen`), every link
    context, the bytes a sending session produces are demultiplexed at the exact binding, else at
    the wildcard binding, else dropped -/
theorem datagram_at_machine (env : Env) (m : Machine) (hm : m.dm.WF) (lk : Link) (src dst : Endpoint)
    (payload wire : Bytes) (hs : Sent env.ck src dst payload wire) :
    AtMachine env m lk src dst payload wire := by
  obtain ⟨hd, uh, hdec, hsrc, hdst, hproto, hw, hu, hsp, hdp, hpay, htot⟩ := sent_decodes hs
  have hpn : protoNumber hd.protocol = protoUdp := by rw [hproto]; rfl
  have hrecv : receive env m lk ⟨pidIpv4, wire⟩ = ipv4Demux env m lk wire := by
    unfold receive; rw [if_pos hm.hasIp, if_pos rfl]
  have hudp := udpDemux_sent (env := env) (m := m) hm (lk := lk) hsrc hdst hu hsp hdp hpay
  -- when the IPv4 binding of UDP is there
  have viaUdp : ipv4Upstream m.dm hd.destination (protoNumber hd.protocol) = some pidUdp →
      receive env m lk ⟨pidIpv4, wire⟩ = entered pidIpv4 (udpDemux env m lk (some hd) (wire.drop 20)) := by
    intro hb
    rw [hrecv, ipv4Demux_reaches ⟨hm.hasIp, hdec, hw, hb, hm.hasUdp, by omega⟩, if_pos rfl,
      datagramBody_exact hd wire htot]
  unfold AtMachine
  cases h1 : lookup dst m.dm.udp with
  | some app =>
    dsimp only
    have hr := ipv4_reaches_udp m.dm hm dst.addr dst.port (Or.inl ⟨app, by cases dst; exact h1⟩)
    rw [viaUdp (by rw [hdst, hpn]; exact hr), hudp, h1]
    rfl
  | none =>
    dsimp only
    cases h2 : lookup (⟨anyAddr, dst.port⟩ : Endpoint) m.dm.udp with
    | some app =>
      dsimp only
      have hr := ipv4_reaches_udp m.dm hm dst.addr dst.port (Or.inr ⟨app, h2⟩)
      rw [viaUdp (by rw [hdst, hpn]; exact hr), hudp, h1]
      dsimp only
      rw [h2]
      rfl
    | none =>
      dsimp only
      cases hr : ipv4Upstream m.dm hd.destination (protoNumber hd.protocol) with
      | none => exact ⟨_, by rw [hrecv, ipv4Demux_whole hdec hw (by omega) hr]⟩
      | some u =>
        have hu' : u = pidUdp := by
          rw [hpn] at hr
          unfold ipv4Upstream at hr
          cases h3 : lookup (hd.destination, protoUdp) m.dm.ip with
          | some u' => rw [h3] at hr; simp only [] at hr; cases hr; exact hm.udpOnly _ _ h3
          | none => rw [h3] at hr; simp only [] at hr; exact hm.udpOnly _ _ hr
        subst hu'
        refine ⟨[pidIpv4, pidUdp], ?_⟩
        rw [viaUdp hr, hudp, h1]
        dsimp only
        rw [h2]
        rfl

/-- **c04_end_to_end.**  A UDP session on some machine sends `payload` from `src` to `dst = (A, P)`
    (`wire` = what `UdpSession::send` + `Ipv4Session::send` produce, `Sent`); the frame fits the MTU,
    so `send_pci` hands it to the network; the network (taps with distinct MACs, `Net.WF`) does not
    lose it.  Then every tap `Network::send` hands it to (`deliver`) receives the bytes unchanged
    with the sender's MAC, those taps are `recipients n dest`, and on the machine behind each of
    them — any well-formed machine — the datagram is demultiplexed at the application bound to
    `(A, P)`, else at the one bound to `(0.0.0.0, P)`, else dropped with nothing changed:
    payload as sent, local endpoint `(A, P)`, remote endpoint the sender's. -/
theorem c04_end_to_end (env : Env) (n : Elvis.Link.Net)
    (host : Elvis.Link.Mac → Machine) (slotOf : Elvis.Link.Mac → Nat)
    (hwf : ∀ t ∈ n.taps, (host t).dm.WF)
    (src dst : Endpoint) (payload wire : Bytes) (hs : Sent env.ck src dst payload wire)
    (sender : Elvis.Link.Mac) (dest : Option Elvis.Link.Mac) (hfit : wire.length ≤ n.mtu) :
    Elvis.Link.sendPci n ⟨sender, dest, wire⟩ = .ok ⟨sender, dest, wire⟩ ∧
    ∀ r ∈ Elvis.Link.deliver n ⟨sender, dest, wire⟩,
      r.tap ∈ Elvis.Link.recipients n dest ∧ r.msg = wire ∧ r.source = sender ∧
      AtMachine env (host r.tap) ⟨slotOf r.tap, r.source, r.mtu⟩ src dst payload r.msg := by
  refine ⟨?_, ?_⟩
  · have : ¬ wire.length > n.mtu := by omega
    simp [Elvis.Link.sendPci, this]
  · intro r hr
    obtain ⟨hmsg, hsrc, _, _, htap⟩ := Elvis.Link.c05_payload_sender_unchanged n _ r hr
    simp only at hmsg hsrc htap
    have htaps : r.tap ∈ n.taps := by
      unfold Elvis.Link.recipients at htap
      split at htap
      · exact htap
      · split at htap
        · exact htap
        · split at htap
          · simp only [List.mem_singleton] at htap; rw [htap]; assumption
          · cases htap
    refine ⟨htap, hmsg, hsrc, ?_⟩
    rw [hmsg]
    exact datagram_at_machine env (host r.tap) (hwf _ htaps) _ src dst payload wire hs

/-- unicast: exactly one machine sees the datagram — the owner of the destination MAC — once -/
theorem c04_end_to_end_unicast (env : Env) (n : Elvis.Link.Net)
    (host : Elvis.Link.Mac → Machine) (slotOf : Elvis.Link.Mac → Nat)
    (hwf : ∀ t ∈ n.taps, (host t).dm.WF)
    (src dst : Endpoint) (payload wire : Bytes) (hs : Sent env.ck src dst payload wire)
    (sender d : Elvis.Link.Mac) (hb : d ≠ Elvis.Link.broadcastMac) (hd : d ∈ n.taps) :
    Elvis.Link.deliver n ⟨sender, some d, wire⟩ = [⟨d, sender, some d, n.mtu, wire⟩] ∧
    AtMachine env (host d) ⟨slotOf d, sender, n.mtu⟩ src dst payload wire := by
  refine ⟨?_, datagram_at_machine env (host d) (hwf d hd) _ src dst payload wire hs⟩
  simp [Elvis.Link.deliver, Elvis.Link.c05_unicast_exact n d hb hd]

/-- broadcast (no MAC known for the route, or the broadcast MAC): every tap of the network is
    handed the frame exactly once, and every machine demultiplexes it by ITS OWN table -/
theorem c04_end_to_end_broadcast (env : Env) (n : Elvis.Link.Net) (hn : n.WF)
    (host : Elvis.Link.Mac → Machine) (slotOf : Elvis.Link.Mac → Nat)
    (hwf : ∀ t ∈ n.taps, (host t).dm.WF)
    (src dst : Endpoint) (payload wire : Bytes) (hs : Sent env.ck src dst payload wire)
    (sender : Elvis.Link.Mac) (dest : Option Elvis.Link.Mac)
    (hd : dest = none ∨ dest = some Elvis.Link.broadcastMac) :
    ∀ t ∈ n.taps,
      ((Elvis.Link.deliver n ⟨sender, dest, wire⟩).map (·.tap)).count t = 1 ∧
      AtMachine env (host t) ⟨slotOf t, sender, n.mtu⟩ src dst payload wire := by
  intro t ht
  have hr := (Elvis.Link.c05_broadcast_all_others n hn dest hd).1
  refine ⟨?_, datagram_at_machine env (host t) (hwf t ht) _ src dst payload wire hs⟩
  have : (Elvis.Link.deliver n ⟨sender, dest, wire⟩).map (·.tap) = n.taps := by
    simp [Elvis.Link.deliver, hr, List.map_map, Function.comp_def]
  rw [this]
  exact Elvis.Link.count_one_of_nodup _ _ hn.nodup ht

/-! ## non-vacuity: a sender's bytes exist, and the machine of Props/C14e.lean receives them -/

namespace Example

def src : Endpoint := ⟨167772162, 6000⟩
def dst : Endpoint := ⟨167772161, 5000⟩

/-- exactly the frame `goodUdp` of Props/C14e.lean -/
theorem sent_good : Sent false src dst [0xab] goodUdp := by
  refine ⟨{ tos := 0, payloadLength := 9, identification := 0, fragmentOffset := 0, flags := 0, ttl := 30,
            protocol := 17, source := 167772162, destination := 167772161 },
    [0x45, 0, 0, 29, 0, 0, 0, 0, 30, 17, 0, 0, 10, 0, 0, 2, 10, 0, 0, 1],
    [0x17, 0x70, 0x13, 0x88, 0, 9, 0, 0], by decide, rfl, rfl, rfl, rfl, by decide, rfl, by decide,
    by decide +kernel, by decide +kernel, by decide⟩

theorem m_wf : m.dm.WF := by
  refine ⟨by decide, by decide, ?_, ?_, ?_⟩
  · intro e app h
    simp only [m, lookup] at h
    split at h
    · cases h; decide
    · cases h
  · intro e app h
    simp only [m, lookup] at h
    split at h
    · rename_i he
      cases h; subst he; decide
    · cases h
  · intro a u h
    simp only [m, lookup] at h
    split at h
    · cases h; rfl
    · split at h
      · rename_i he
        simp only [Prod.mk.injEq] at he
        exact absurd he.2 (by decide)
      · cases h

/-- the end-to-end theorem applied: the recorder bound on 10.0.0.1:5000 gets `[0xab]` -/
example : receive env m lk ⟨pidIpv4, goodUdp⟩ =
    .ok { machine := m, ret := .ok (), effects := [.appDemux ⟨10, [0xab], dst, src, lk.slot⟩],
          calls := [pidIpv4, pidUdp] } := by
  have := datagram_at_machine env m m_wf lk src dst [0xab] goodUdp sent_good
  unfold AtMachine at this
  have h1 : lookup dst m.dm.udp = some 10 := by decide
  rw [h1] at this
  exact this

end Example

end Elvis.Recv
