import ElvisVerif.Lemmas.ArpRun
/-! Agreement in time (helper lemmas for C06): once a resolution of `(machine, address)` has
returned `Ok`, the table keeps an `Ok` entry for the address, so every other resolver waiting for
it is runnable, the clock is frozen until it has run, and it returns in the same instant. -/
namespace Elvis.Arp
open Elvis.Gen.Arp

/-- machine `k` has an `Ok` table entry for `x` -/
def HasOk (ms : List Machine) (k : Nat) (x : Ip) : Prop :=
  ∃ (m : Machine) (mac : Mac), ms[k]? = some m ∧ alookup x m.table = some (.ok mac)

theorem HasOk.hit {s : Net} {k : Nat} {x : Ip} (h : HasOk s.machines k x) : ∃ mac, s.hit k x = some (.ok mac) := by
  obtain ⟨m, mac, hm, hx⟩ := h
  exact ⟨mac, by simp [Net.hit, hm, hx, tableHit]⟩

theorem HasOk.of_hit {s : Net} {k : Nat} {x : Ip} {mac : Mac} (h : s.hit k x = some (.ok mac)) :
    HasOk s.machines k x := by
  unfold Net.hit at h
  split at h
  · rename_i m hm
    exact ⟨m, mac, hm, tableHit_ok h⟩
  · cases h

/-- machine `k'` is replaced by one whose table is the old one with `y ↦ v` inserted; an `Ok`
    entry survives unless it is overwritten by a non-`Ok` value -/
theorem HasOk.set_insert {ms : List Machine} {k k' : Nat} {x y : Ip} {v : Status} {m m' : Machine}
    (hm : ms[k']? = some m) (ht : m'.table = ainsert y v m.table)
    (hv : k' = k → y = x → ∃ mac, v = .ok mac) (h : HasOk ms k x) : HasOk (ms.set k' m') k x := by
  obtain ⟨o, mac, ho, hx⟩ := h
  by_cases hk : k' = k
  · subst hk
    rw [hm] at ho; cases ho
    refine ⟨m', ?_⟩
    by_cases hy : x = y
    · subst hy
      obtain ⟨mac', rfl⟩ := hv rfl rfl
      exact ⟨mac', List.getElem?_set_self (getElem?_lt hm), by rw [ht, alookup_ainsert_same]⟩
    · exact ⟨mac, List.getElem?_set_self (getElem?_lt hm), by rw [ht, alookup_ainsert_ne hy]; exact hx⟩
  · exact ⟨o, mac, by rw [List.getElem?_set_ne hk]; exact ho, hx⟩

theorem HasOk.set_same {ms : List Machine} {k k' : Nat} {x : Ip} {m m' : Machine}
    (hm : ms[k']? = some m) (ht : m'.table = m.table) (h : HasOk ms k x) : HasOk (ms.set k' m') k x := by
  obtain ⟨o, mac, ho, hx⟩ := h
  by_cases hk : k' = k
  · subst hk
    rw [hm] at ho; cases ho
    exact ⟨m', mac, List.getElem?_set_self (getElem?_lt hm), by rw [ht]; exact hx⟩
  · exact ⟨o, mac, by rw [List.getElem?_set_ne hk]; exact ho, hx⟩

theorem HasOk.failMac {s : Net} {k k' : Nat} {x x' : Ip} (h : HasOk s.machines k x) (hmiss : s.hit k' x' = none) :
    HasOk (s.failMac k' x').machines k x := by
  unfold Net.failMac
  split
  · rename_i m hm
    refine HasOk.set_insert hm rfl (fun hk hy => ?_) h
    subst hk; subst hy
    obtain ⟨mac, hh⟩ := h.hit
    rw [hh] at hmiss; cases hmiss
  · exact h

theorem HasOk.roundOrFail {s : Net} {r : Resolver} {k : Nat} {x : Ip} (h : HasOk s.machines k x)
    (hmiss : s.hit r.mach r.dest = none) : HasOk (s.roundOrFail r).1.machines k x := by
  unfold Net.roundOrFail
  split
  · split <;> exact h
  · exact h.failMac hmiss

theorem Net.roundOrFail_result (s : Net) (r : Resolver) (hr : r.result = none) :
    (s.roundOrFail r).2.result = none ∨ ∃ t, (s.roundOrFail r).2.result = some (.err, t) := by
  unfold Net.roundOrFail
  split
  · split
    · exact Or.inl hr
    · exact Or.inr ⟨_, rfl⟩
  · exact Or.inr ⟨_, rfl⟩

def SameKey (a b : Resolver) : Prop := a.mach = b.mach ∧ a.dest = b.dest

structure AInv (s : Net) : Prop where
  /-- an `Ok` answer leaves an `Ok` entry behind, for ever -/
  stable : ∀ r ∈ s.resolvers, ∀ (mac : Mac) (t : Nat), r.result = some (.ok mac, t) → HasOk s.machines r.mach r.dest
  /-- while somebody still waits for an address already answered, the clock stands still -/
  frozen : ∀ ri ∈ s.resolvers, ∀ rj ∈ s.resolvers, SameKey ri rj → ∀ (mac : Mac) (t : Nat),
    ri.result = some (.ok mac, t) → rj.result = none → s.now = t
  /-- two `Ok` answers for one (machine, address): same instant, or one call began after the other ended -/
  same : ∀ ri ∈ s.resolvers, ∀ rj ∈ s.resolvers, SameKey ri rj → ∀ (m : Mac) (t : Nat) (m' : Mac) (t' : Nat),
    ri.result = some (.ok m, t) → rj.result = some (.ok m', t') → t = t' ∨ t < rj.started ∨ t' < ri.started

/-- the resolver list and the clock are untouched, `Ok` entries survive -/
theorem AInv.frame {s s' : Net} (h : AInv s) (hr : s'.resolvers = s.resolvers) (hnow : s'.now = s.now)
    (hok : ∀ k x, HasOk s.machines k x → HasOk s'.machines k x) : AInv s' := by
  refine ⟨fun r hmem mac t e => ?_, fun ri hi rj hj hk mac t e1 e2 => ?_, fun ri hi rj hj hk m t m' t' e1 e2 => ?_⟩
  · rw [hr] at hmem; exact hok _ _ (h.stable r hmem mac t e)
  · rw [hr] at hi hj; rw [hnow]; exact h.frozen ri hi rj hj hk mac t e1 e2
  · rw [hr] at hi hj; exact h.same ri hi rj hj hk m t m' t' e1 e2

/-- one resolver `r'` is new or replaces an old one -/
theorem AInv.update {s s' : Net} {r' : Resolver} (h : AInv s)
    (hmem : ∀ x ∈ s'.resolvers, x ∈ s.resolvers ∨ x = r')
    (hnow : s'.now = s.now)
    (hok : ∀ k x, HasOk s.machines k x → HasOk s'.machines k x)
    (hnew_ok : ∀ (mac : Mac) (t : Nat), r'.result = some (.ok mac, t) → HasOk s'.machines r'.mach r'.dest ∧ t = s.now)
    (hnew_pend : r'.result = none → ∀ ri ∈ s.resolvers, SameKey ri r' → ∀ (mac : Mac) (t : Nat),
      ri.result = some (.ok mac, t) → s.now = t)
    (hnew_same : ∀ (mac : Mac) (t : Nat), r'.result = some (.ok mac, t) → ∀ rj ∈ s.resolvers, SameKey rj r' →
      ∀ (m' : Mac) (t' : Nat), rj.result = some (.ok m', t') → t' = s.now ∨ t' < r'.started) :
    AInv s' := by
  refine ⟨fun r hm mac t e => ?_, fun ri hi rj hj hk mac t e1 e2 => ?_, fun ri hi rj hj hk m t m' t' e1 e2 => ?_⟩
  · rcases hmem r hm with h1 | h1
    · exact hok _ _ (h.stable r h1 mac t e)
    · subst h1; exact (hnew_ok mac t e).1
  · rw [hnow]
    rcases hmem ri hi with h1 | h1 <;> rcases hmem rj hj with h2 | h2
    · exact h.frozen ri h1 rj h2 hk mac t e1 e2
    · subst h2; exact hnew_pend e2 ri h1 hk mac t e1
    · subst h1; exact ((hnew_ok mac t e1).2).symm
    · subst h1; subst h2; rw [e1] at e2; cases e2
  · rcases hmem ri hi with h1 | h1 <;> rcases hmem rj hj with h2 | h2
    · exact h.same ri h1 rj h2 hk m t m' t' e1 e2
    · subst h2
      have ht' := (hnew_ok m' t' e2).2
      rcases hnew_same m' t' e2 ri h1 hk m t e1 with h3 | h3
      · exact Or.inl (by omega)
      · exact Or.inr (Or.inl h3)
    · subst h1
      have ht := (hnew_ok m t e1).2
      rcases hnew_same m t e1 rj h2 ⟨hk.1.symm, hk.2.symm⟩ m' t' e2 with h3 | h3
      · exact Or.inl (by omega)
      · exact Or.inr (Or.inr h3)
    · subst h1; subst h2; rw [e1] at e2; cases e2; exact Or.inl rfl

theorem AInv.listen {s : Net} (h : AInv s) (k : Nat) (ip : Ip) : AInv (s.listen k ip) := by
  unfold Net.listen; split
  · rename_i m hm
    exact h.frame rfl rfl (fun _ _ ho => HasOk.set_same hm (m.listen_table ip) ho)
  · exact h

theorem AInv.setSubnet {s : Net} (h : AInv s) (k : Nat) (ip : Ip) (bits : Nat) (gw : Ip) :
    AInv (s.setSubnet k ip bits gw) := by
  unfold Net.setSubnet; split
  · rename_i m hm
    exact h.frame rfl rfl (fun _ _ ho => HasOk.set_same hm rfl ho)
  · exact h

theorem AInv.lose {s : Net} (h : AInv s) (fi : Nat) : AInv (s.lose fi) := by
  unfold Net.lose; split
  · exact h.frame rfl rfl (fun _ _ ho => ho)
  · exact h

theorem AInv.deliver {s : Net} (h : AInv s) (fi k slot : Nat) : AInv (s.deliver fi k slot) := by
  unfold Net.deliver
  split
  · rename_i f m hf hm
    split
    · split
      · refine h.frame rfl rfl (fun _ _ ho => ?_)
        exact HasOk.set_insert hm (by rw [Machine.demux_fst]) (fun _ _ => ⟨_, rfl⟩) ho
      · exact h
    · exact h
  · exact h

theorem AInv.tick {s : Net} (h : AInv s) (dt : Nat) : AInv (s.tick dt) := by
  unfold Net.tick
  split
  · rename_i hc
    refine ⟨h.stable, fun ri hi rj hj hk mac t e1 e2 => ?_, h.same⟩
    -- a waiter for an answered address is runnable: the tick would have been refused
    exfalso
    have hi' : ri ∈ s.resolvers := hi
    have hj' : rj ∈ s.resolvers := hj
    obtain ⟨mac', hh⟩ := (h.stable ri hi' mac t e1).hit
    unfold Net.canTick at hc
    rw [List.all_eq_true] at hc
    have := hc rj hj'
    rw [← hk.1, ← hk.2] at this
    simp [e2, hh] at this
  · exact h

theorem AInv.wake {s : Net} (h : AInv s) (ht : TInv s) (i : Nat) : AInv (s.wake i) := by
  unfold Net.wake
  split
  · rename_i r hr
    split
    · rename_i hres
      split
      · rename_i st hst
        have hrm := List.mem_of_getElem? hr
        refine h.update (r' := { r with result := some (st, s.now) })
          (fun x hx => List.mem_or_eq_of_mem_set hx) rfl (fun _ _ ho => ho) ?_ (fun e => by simp at e) ?_
        · intro mac t e
          simp only [Option.some.injEq, Prod.mk.injEq] at e
          obtain ⟨e1, e2⟩ := e
          subst e1
          exact ⟨HasOk.of_hit hst, e2.symm⟩
        · intro mac t _ rj hj hk m' t' e'
          exact Or.inl (h.frozen rj hj r hrm hk m' t' e' hres).symm
      · exact h
    · exact h
  · exact h

theorem AInv.timeout {s : Net} (h : AInv s) (i : Nat) : AInv (s.timeout i) := by
  unfold Net.timeout
  split
  · rename_i r hr
    split
    · rename_i hc
      have hrm := List.mem_of_getElem? hr
      obtain ⟨f1, _, _, f4, _, _, f7, f8, _, _⟩ := s.roundOrFail_fields r
      have hres := s.roundOrFail_result r hc.1
      refine h.update (s' := { (s.roundOrFail r).1 with resolvers := (s.roundOrFail r).1.resolvers.set i (s.roundOrFail r).2 })
        (r' := (s.roundOrFail r).2) (fun x hx => ?_) f1 (fun _ _ ho => ho.roundOrFail hc.2.2) ?_ ?_ ?_
      · have hx' : x ∈ (s.roundOrFail r).1.resolvers.set i (s.roundOrFail r).2 := hx
        rw [f4] at hx'
        exact List.mem_or_eq_of_mem_set hx'
      · intro mac t e
        rcases hres with h1 | ⟨t', h1⟩ <;> rw [h1] at e <;> cases e
      · intro _ ri hi hk mac t e
        exact h.frozen ri hi r hrm ⟨hk.1.trans f7, hk.2.trans f8⟩ mac t e hc.1
      · intro mac t e
        rcases hres with h1 | ⟨t', h1⟩ <;> rw [h1] at e <;> cases e
    · exact h
  · exact h

theorem AInv.resolve {s : Net} (h : AInv s) (ht : TInv s) (k : Nat) (loc remote : Ip) (slot : Nat) :
    AInv (s.resolve k loc remote slot) := by
  unfold Net.resolve
  split
  · exact h
  · rename_i m0 hm0
    dsimp only
    have hok1 : ∀ k' x, HasOk s.machines k' x → HasOk (s.machines.set k (m0.listen loc)) k' x :=
      fun _ _ ho => HasOk.set_same hm0 (m0.listen_table loc) ho
    have hk : (s.machines.set k (m0.listen loc))[k]? = some (m0.listen loc) :=
      List.getElem?_set_self (getElem?_lt hm0)
    split
    · rename_i st hst
      refine h.update (r' := ⟨k, 0, loc, destOf (m0.listen loc) loc remote, s.now, 0, s.now, some (st, s.now)⟩)
        (fun x hx => ?_) rfl hok1 ?_ (fun e => by simp at e) ?_
      · rcases List.mem_append.mp hx with h1 | h1
        · exact Or.inl h1
        · exact Or.inr (List.mem_singleton.mp h1)
      · intro mac t e
        simp only [Option.some.injEq, Prod.mk.injEq] at e
        obtain ⟨e1, e2⟩ := e
        subst e1
        exact ⟨⟨m0.listen loc, mac, hk, tableHit_ok hst⟩, e2.symm⟩
      · intro mac t _ rj hj _ m' t' e'
        have := ht rj hj
        unfold TimeOk at this
        simp only [e'] at this
        have h2 : t' ≤ s.now := this.2.2.1
        show t' = s.now ∨ t' < s.now
        omega
    · rename_i hmiss
      split
      · exact h.frame rfl rfl hok1
      · rename_i mac hmac
        let s1 : Net := { s with machines := s.machines.set k (m0.listen loc) }
        let r0 : Resolver := ⟨k, mac, loc, destOf (m0.listen loc) loc remote, s.now, 0, s.now, none⟩
        have hmiss1 : s1.hit r0.mach r0.dest = none := by
          show s1.hit k (destOf (m0.listen loc) loc remote) = none
          unfold Net.hit
          simp only [s1, hk]
          exact hmiss
        obtain ⟨f1, _, _, f4, _, _, f7, f8, _, _⟩ := s1.roundOrFail_fields r0
        have hres := s1.roundOrFail_result r0 rfl
        refine h.update (s' := { (s1.roundOrFail r0).1 with resolvers := (s1.roundOrFail r0).1.resolvers ++ [(s1.roundOrFail r0).2] })
          (r' := (s1.roundOrFail r0).2) (fun x hx => ?_) f1
          (fun _ _ ho => (HasOk.roundOrFail (s := s1) (hok1 _ _ ho) hmiss1)) ?_ ?_ ?_
        · have hx' : x ∈ (s1.roundOrFail r0).1.resolvers ++ [(s1.roundOrFail r0).2] := hx
          rw [f4] at hx'
          rcases List.mem_append.mp hx' with h1 | h1
          · exact Or.inl h1
          · exact Or.inr (List.mem_singleton.mp h1)
        · intro mac' t e
          rcases hres with h1 | ⟨t', h1⟩ <;> rw [h1] at e <;> cases e
        · -- a fresh waiter cannot coexist with an earlier `Ok` answer: it would have hit the table
          intro _ ri hi hkey mac' t e
          exfalso
          have ho := hok1 _ _ (h.stable ri hi mac' t e)
          rw [hkey.1, hkey.2, f7, f8] at ho
          obtain ⟨mac'', hh⟩ := HasOk.hit (s := s1) ho
          rw [hmiss1] at hh; cases hh
        · intro mac' t e
          rcases hres with h1 | ⟨t', h1⟩ <;> rw [h1] at e <;> cases e

theorem AInv.step {s : Net} (h : AInv s) (ht : TInv s) (l : Label) : AInv (step s l) := by
  unfold Elvis.Arp.step
  split
  · exact h
  · cases l with
    | listen k ip => exact h.listen k ip
    | setSubnet k ip bits gw => exact h.setSubnet k ip bits gw
    | resolve k loc remote slot => exact h.resolve ht k loc remote slot
    | deliver fi k slot => exact h.deliver fi k slot
    | lose fi => exact h.lose fi
    | wake i => exact h.wake ht i
    | timeout i => exact h.timeout i
    | tick dt => exact h.tick dt

theorem AInv.run {s : Net} (h : AInv s) (ht : TInv s) (ls : List Label) : AInv (run s ls) := by
  induction ls generalizing s with
  | nil => exact h
  | cons l ls ih => exact ih (h.step ht l) (ht.step l)

theorem AInv.init (neg : Bool) (slots : List Nat) (mtu : Nat) : AInv (initWith neg slots mtu) :=
  ⟨fun r hr => by simp [initWith] at hr, fun r hr => by simp [initWith] at hr, fun r hr => by simp [initWith] at hr⟩

end Elvis.Arp
