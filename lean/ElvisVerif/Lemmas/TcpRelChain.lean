import ElvisVerif.Lemmas.TcpRelFwd
import ElvisVerif.Lemmas.TcpConvBatch
/-!
# One endpoint through a simultaneous close

`QuietX x t u`: endpoint `x` (TCB `t`, peer's TCB `u`) is ESTABLISHED with nothing queued, unsent, buffered
or parked, everything acknowledged, and the peer has received everything.  The three steps of the
endpoint's side of a simultaneous close, each evaluated exactly: `chain1` (close, emit the FIN),
`chain2` (take the peer's FIN: CLOSING; emit the ACK), `chain3` (take the peer's ACK: TIME-WAIT).
-/
namespace Elvis.Tcp
open Elvis.ModCmp
namespace Tcb

structure QuietX (x : SideId) (t u : Tcb) : Prop where
  st : t.state = .Established
  heap : t.incoming.segments = []
  buf : t.incoming.text = []
  text : t.outgoing.text = []
  rtx : t.outgoing.retransmit = []
  one : t.outgoing.oneshot = []
  una : t.snd.una = t.snd.nxt
  sync : u.rcv.nxt = t.snd.nxt
  wnd : t.rcv.wnd = 65535#16
  mtu : ¬ t.mtu.toNat < SPACE_FOR_HEADERS
  lp : t.localPort = x.port
  rp : t.remotePort = x.peer.port

/-- the TCB after `close()` -/
def closedT (t : Tcb) : Tcb :=
  ({ t with state := .FinWait1, snd.nxt := t.snd.nxt + 1, outgoing.retransmit := t.outgoing.retransmit ++ [Transmit.new ⟨({ t with state := .FinWait1 } : Tcb).finHdr.built, []⟩] } : Tcb)

/-- the FIN segment -/
def finSeg (t : Tcb) : Segment := ⟨({ t with state := .FinWait1 } : Tcb).finHdr.built, []⟩

/-- a FIN segment numbered `seq` acknowledging `ack` -/
structure IsFin (g : Segment) (seq ack : Seq) : Prop where
  rst : g.hdr.ctl.rst = false
  syn : g.hdr.ctl.syn = false
  fin : g.hdr.ctl.fin = true
  ackb : g.hdr.ctl.ack = true
  text : g.text = []
  seq : g.hdr.seq = seq
  ack : g.hdr.ack = ack

/-- a pure ACK numbered `seq` acknowledging `ack` -/
structure IsAck (g : Segment) (seq ack : Seq) : Prop where
  rst : g.hdr.ctl.rst = false
  syn : g.hdr.ctl.syn = false
  fin : g.hdr.ctl.fin = false
  ackb : g.hdr.ctl.ack = true
  text : g.text = []
  seq : g.hdr.seq = seq
  ack : g.hdr.ack = ack

theorem isFin_finSeg (t : Tcb) : IsFin (finSeg t) t.snd.nxt t.rcv.nxt := ⟨rfl, rfl, rfl, rfl, rfl, rfl, rfl⟩

theorem modLeq_self (a : Seq) : modLeq a a = true := by
  unfold modLeq; simp

theorem succ_ne (a : Seq) : (a + 1 == a) = false := by
  cases h : (a + 1 == a) with
  | false => rfl
  | true => simp at h

/-- what `chain1` says about the TCB after the FIN has been emitted -/
structure Fw1 (t t1 : Tcb) : Prop where
  st : t1.state = .FinWait1
  nxt : t1.snd.nxt = t.snd.nxt + 1
  una : t1.snd.una = t.snd.nxt
  rcv : t1.rcv = t.rcv
  inc : t1.incoming = t.incoming
  text : t1.outgoing.text = []
  one : t1.outgoing.oneshot = []
  rtx : t1.outgoing.retransmit = [{ (Transmit.new (finSeg t)) with needsTransmit := false }]
  mtu : t1.mtu = t.mtu
  lp : t1.localPort = t.localPort
  rp : t1.remotePort = t.remotePort

/-- `close()` and the emission of the FIN -/
theorem chain1 (x : SideId) (t u : Tcb) (q : QuietX x t u) :
    t.close = .ok (closedT t, .Ok) ∧ ∃ t1, (closedT t).segments = .ok (t1, [finSeg t]) ∧ Fw1 t t1 := by
  refine ⟨close_fwd t q.st q.text, ?_⟩
  obtain ⟨t1, e, a1, a2, a3, a4, a5, a6, a7, a8, a9, a10, _⟩ :=
    segments_notext_fwd (closedT t) q.text q.mtu
  have hout : emitOut (closedT t) = [finSeg t] := by
    unfold emitOut closedT
    simp only [q.one, q.rtx, List.map_nil, List.nil_append]
    rfl
  rw [hout] at e
  refine ⟨t1, e, a1, by rw [a2]; rfl, by rw [a2]; exact q.una, a3, a4, a5, a6, ?_, a8, a9, a10⟩
  rw [a7]
  unfold closedT
  simp only [q.rtx, List.nil_append, List.map_cons, List.map_nil]
  rfl

/-- the TCB after the peer's FIN -/
def closingT (t1 : Tcb) : Tcb :=
  ({ t1 with state := .Closing, rcv.nxt := t1.rcv.nxt + 1, outgoing.oneshot := t1.outgoing.oneshot ++ [t1.finAckHdr] } : Tcb)

/-- the peer's FIN arrives: CLOSING; `receive()` returns nothing; the ACK is emitted -/
theorem chain2 (x : SideId) (t u t1 : Tcb) (q : QuietX x t u) (f : Fw1 t t1) (gF : Segment)
    (hF : IsFin gF t.rcv.nxt t.snd.nxt) :
    t1.arriveList [gF] = .ok (closingT t1) ∧ (closingT t1).receive = (closingT t1, []) ∧
    ∃ t3, (closingT t1).segments = .ok (t3, [⟨t1.finAckHdr, []⟩]) ∧
      t3.state = .Closing ∧ t3.snd = t1.snd ∧ t3.rcv.nxt = t.rcv.nxt + 1 ∧ t3.rcv.wnd = t.rcv.wnd ∧
      t3.incoming = t.incoming ∧ t3.outgoing.text = [] ∧
      IsAck ⟨t1.finAckHdr, []⟩ (t.snd.nxt + 1) (t.rcv.nxt + 1) ∧
      t1.finAckHdr.srcPort = t.localPort ∧ t1.finAckHdr.dstPort = t.remotePort := by
  have e1 : t1.segmentArrives gF = .ok (closingT t1, .Ok) :=
    arrive_fin_fw1 t1 gF f.st (by rw [f.rcv]; exact q.wnd) (by rw [f.inc]; exact q.heap)
      (by rw [f.nxt, f.una]; exact succ_ne _) hF.rst hF.syn hF.fin hF.ackb hF.text
      (by rw [hF.seq, f.rcv]) (by rw [hF.ack, f.una]; exact modLeq_self _)
  refine ⟨by simp only [arriveList, e1], receive_quiet _ (Or.inl rfl), ?_⟩
  obtain ⟨t3, e, a1, a2, a3, a4, a5, a6, a7, a8, a9, a10, _⟩ :=
    segments_notext_fwd (closingT t1) f.text (by show ¬ t1.mtu.toNat < _; rw [f.mtu]; exact q.mtu)
  have hout : emitOut (closingT t1) = [⟨t1.finAckHdr, []⟩] := by
    unfold emitOut closingT
    simp only [f.one, f.rtx, List.nil_append, List.map_cons, List.map_nil]
    rfl
  rw [hout] at e
  refine ⟨t3, e, a1, a2, by rw [a3]; show t1.rcv.nxt + 1 = _; rw [f.rcv], by rw [a3]; show t1.rcv.wnd = _; rw [f.rcv],
    by rw [a4]; exact f.inc, a5, ⟨rfl, rfl, rfl, rfl, rfl, ?_, ?_⟩, ?_, ?_⟩
  · show t1.snd.nxt = _; exact f.nxt
  · show t1.rcv.nxt + 1 = _; rw [f.rcv]
  · show t1.localPort = _; exact f.lp
  · show t1.remotePort = _; exact f.rp

/-- the peer's ACK of our FIN arrives: TIME-WAIT, the 2·MSL timer armed; `receive()` returns nothing -/
theorem chain3 (x : SideId) (t u t1 t3 : Tcb) (q : QuietX x t u) (f : Fw1 t t1)
    (h3 : t3.state = .Closing ∧ t3.snd = t1.snd ∧ t3.rcv.nxt = t.rcv.nxt + 1 ∧ t3.rcv.wnd = t.rcv.wnd ∧
      t3.incoming = t.incoming ∧ t3.outgoing.text = [])
    (gA : Segment) (hA : IsAck gA (t.rcv.nxt + 1) (t.snd.nxt + 1)) :
    ∃ t4, t3.arriveList [gA] = .ok t4 ∧ t4.receive = (t4, []) ∧ t4.state = .TimeWait ∧
      t4.timeouts.timeWait = some TIME_WAIT := by
  obtain ⟨b1, b2, b3, b4, b5, b6⟩ := h3
  have hd : (t3.snd.nxt - t3.snd.una).toNat = 1 := by
    rw [b2, f.nxt, f.una]
    have : t.snd.nxt + 1 - t.snd.nxt = 1 := by bv_omega
    rw [this]; rfl
  obtain ⟨k1, k2⟩ := ack_of_nxt t3.snd.una t3.snd.nxt (by omega) (by omega)
  have hack : gA.hdr.ack = t3.snd.nxt := by rw [hA.ack, b2, f.nxt]
  obtain ⟨t4, e4, s4, w4⟩ := arrive_ack_closing t3 gA b1 (by rw [b4]; exact q.wnd) (by rw [b5]; exact q.heap) b6
    hA.rst hA.syn hA.fin hA.ackb hA.text (by rw [hA.seq, b3]) (by rw [hack]; exact k1) (by rw [hack]; exact k2) hack
  exact ⟨t4, by simp only [arriveList, e4], receive_quiet _ (Or.inr (Or.inl s4)), s4, w4⟩

end Tcb
end Elvis.Tcp
