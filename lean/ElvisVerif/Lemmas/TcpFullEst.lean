import ElvisVerif.Lemmas.TcpConvCalm3
import ElvisVerif.Lemmas.TcpHeapInv
/-!
# An ESTABLISHED endpoint with ANY reorder heap takes segments: progress through the heap

Single endpoint `t` (own ISS `iss`, `N = SND.NXT − ISS`), receiving from a peer whose ISS is `base` and who
has numbered `Np` sequence numbers so far.  `Nice g`: what every segment of the peer looks like once both
sides are ESTABLISHED (no RST / SYN / FIN, an ACK field — if any — in `[ISS + 1, SND.NXT]`, text of at most
65535 bytes that ends at or before `base + Np`, sequence number at most `base + Np`).

* `procEst` — `process_segment` of a nice segment that is not ahead of `RCV.NXT`: never fails, never
  deletes the TCB, stays ESTABLISHED, `RCV.NXT` and the buffer grow by the same amount, and a text-bearing
  segment leaves `RCV.NXT` at or beyond its end (there is room: `EL.room`) and a pure ACK for `RCV.NXT` at the
  end of the one-shot queue (`LastAck`).
* `drain_est` — **the drain progress lemma**: the processing loop of `segment_arrives` over a non-empty heap.
  Every parked text-bearing segment that is not ahead of `RCV.NXT` is consumed: `RCV.NXT` ends at or beyond its
  end.  (The root is the least: the loop cannot stop while such a segment is parked.)  What stays parked is
  strictly ahead of the final `RCV.NXT`, the heap stays a heap.
* `arrive_est` — `segment_arrives` of a nice segment (acceptable or not, in order or not).
* `arriveList_est` — a batch delivered in order; a contiguous run of data segments starting at or before
  `RCV.NXT` moves `RCV.NXT` to the end of the run whatever the heap held.
-/
namespace Elvis.Tcp.Full
open Elvis.ModCmp Elvis.Tcp.Tcb

/-- the last header on the one-shot queue acknowledges `RCV.NXT` -/
def LastAck (t : Tcb) : Prop := ∃ h, t.outgoing.oneshot.getLast? = some h ∧ h.ack = t.rcv.nxt

/-- a segment of the peer as an ESTABLISHED endpoint sees it -/
structure Nice (iss : Seq) (N : Nat) (base : Seq) (Np : Nat) (g : Segment) : Prop where
  rst : g.hdr.ctl.rst = false
  syn : g.hdr.ctl.syn = false
  fin : g.hdr.ctl.fin = false
  ack : g.hdr.ctl.ack = true → 1 ≤ off iss g.hdr.ack ∧ off iss g.hdr.ack ≤ N
  len : g.text.length ≤ 65535
  seq : off base g.hdr.seq ≤ Np
  below : g.text ≠ [] → off base g.hdr.seq + g.text.length ≤ Np

/-- the ESTABLISHED endpoint as far as `process_segment` reads it -/
structure EL (iss : Seq) (N : Nat) (base : Seq) (Np : Nat) (t : Tcb) : Prop where
  st : t.state = .Established
  wnd : t.rcv.wnd = 65535#16
  siss : t.snd.iss = iss
  sent : t.sent = N
  una : off iss t.snd.una ≤ N
  q : off base t.rcv.nxt ≤ Np
  room : t.incoming.text.length + (Np - off base t.rcv.nxt) ≤ 65535

/-- what processing leaves alone / moves monotonically -/
structure EK (iss base : Seq) (t t' : Tcb) : Prop where
  snxt : t'.snd.nxt = t.snd.nxt
  otext : t'.outgoing.text = t.outgoing.text
  mtu : t'.mtu = t.mtu
  rtx : ∀ tr ∈ t'.outgoing.retransmit, tr ∈ t.outgoing.retransmit
  umono : off iss t.snd.una ≤ off iss t'.snd.una
  qmono : off base t.rcv.nxt ≤ off base t'.rcv.nxt
  bufq : t'.incoming.text.length + off base t.rcv.nxt = t.incoming.text.length + off base t'.rcv.nxt
  oneApp : ∃ L, t'.outgoing.oneshot = t.outgoing.oneshot ++ L
  last : LastAck t → LastAck t'

variable {iss : Seq} {N : Nat} {base : Seq} {Np : Nat}

theorem EK.refl (t : Tcb) : EK iss base t t :=
  ⟨rfl, rfl, rfl, fun _ h => h, Nat.le_refl _, Nat.le_refl _, rfl, ⟨[], by simp⟩, id⟩

theorem EK.trans {a b c : Tcb} (h1 : EK iss base a b) (h2 : EK iss base b c) : EK iss base a c := by
  refine ⟨h2.snxt.trans h1.snxt, h2.otext.trans h1.otext, h2.mtu.trans h1.mtu, fun tr h => h1.rtx tr (h2.rtx tr h),
    Nat.le_trans h1.umono h2.umono, Nat.le_trans h1.qmono h2.qmono, ?_, ?_, fun h => h2.last (h1.last h)⟩
  · have := h1.bufq
    have := h2.bufq
    omega
  · obtain ⟨L1, e1⟩ := h1.oneApp
    obtain ⟨L2, e2⟩ := h2.oneApp
    exact ⟨L1 ++ L2, by rw [e2, e1, List.append_assoc]⟩

/-! ## acceptability -/

theorem isSeqOk_total (t : Tcb) (len : Nat) (seq : Seq) :
    ∃ b, t.isSeqOk (BitVec.ofNat 32 len) seq false false = .ok b := by
  unfold isSeqOk
  simp only [Bool.toNat_false, Nat.add_zero]
  have := (BitVec.ofNat 32 len).isLt
  rw [if_neg (by omega)]
  split
  · split <;> exact ⟨_, rfl⟩
  · split <;> exact ⟨_, rfl⟩

/-- a text that ends before `RCV.NXT − 1` is not acceptable -/
theorem isSeqOk_old (t : Tcb) (seq : Seq) (len d : Nat) (hw : t.rcv.wnd = 65535#16)
    (hseq : seq + BitVec.ofNat 32 d = t.rcv.nxt) (hd : len < d) (hd31 : d < 2147483648) (hpos : 0 < len) :
    t.isSeqOk (BitVec.ofNat 32 len) seq false false = .ok false := by
  have h16 : (65535#16 : BitVec 16).toNat = 65535 := rfl
  have htl : (BitVec.ofNat 32 len).toNat = len := C01.ofNat_toNat_lt _ (by omega)
  have hw0 : ¬ t.rcv.wnd = 0 := by rw [hw]; decide
  have h1 : t.isInRcvWindow seq = false := by
    cases h : t.isInRcvWindow seq with
    | false => rfl
    | true =>
      rw [isInRcvWindow_iff, hw, h16] at h
      have e : seq - t.rcv.nxt = 0 - BitVec.ofNat 32 d := by rw [← hseq]; bv_omega
      rw [e] at h
      have hdn : (BitVec.ofNat 32 d).toNat = d := C01.ofNat_toNat_lt _ (by omega)
      simp only [BitVec.toNat_sub, hdn] at h
      have h0 : (0 : BitVec 32).toNat = 0 := rfl
      rw [h0] at h
      omega
  have h2 : t.isInRcvWindow (seq + BitVec.ofNat 32 len - 1) = false := by
    cases h : t.isInRcvWindow (seq + BitVec.ofNat 32 len - 1) with
    | false => rfl
    | true =>
      rw [isInRcvWindow_iff, hw, h16] at h
      have e : seq + BitVec.ofNat 32 len - 1 - t.rcv.nxt = 0 - BitVec.ofNat 32 (d - len + 1) := by
        rw [← hseq]
        have e' : d = len + (d - len) := by omega
        rw [e', BitVec.ofNat_add]
        have : len + (d - len) - len + 1 = (d - len) + 1 := by omega
        rw [this, BitVec.ofNat_add]
        generalize BitVec.ofNat 32 len = x
        generalize BitVec.ofNat 32 (d - len) = y
        bv_omega
      rw [e] at h
      have hdn : (BitVec.ofNat 32 (d - len + 1)).toNat = d - len + 1 := C01.ofNat_toNat_lt _ (by omega)
      simp only [BitVec.toNat_sub, hdn] at h
      have h0 : (0 : BitVec 32).toNat = 0 := rfl
      rw [h0] at h
      omega
  unfold isSeqOk
  simp only [htl, Bool.toNat_false, Nat.add_zero]
  rw [if_neg (by omega), if_neg (by omega), if_neg hw0, h1, h2]
  rfl

/-! ## block 2 -/

/-- what `ack_established_processing` does for an ACK field in `[ISS + 1, SND.NXT]` -/
structure AckK (iss : Seq) (N : Nat) (t t1 : Tcb) : Prop where
  rcv : t1.rcv = t.rcv
  inc : t1.incoming = t.incoming
  st : t1.state = t.state
  otext : t1.outgoing.text = t.outgoing.text
  one : t1.outgoing.oneshot = t.outgoing.oneshot
  nxt : t1.snd.nxt = t.snd.nxt
  siss : t1.snd.iss = t.snd.iss
  mtu : t1.mtu = t.mtu
  rtx : ∀ tr ∈ t1.outgoing.retransmit, tr ∈ t.outgoing.retransmit
  ulo : off iss t.snd.una ≤ off iss t1.snd.una
  uhi : off iss t1.snd.una ≤ N

theorem AckK.refl (t : Tcb) (hu : off iss t.snd.una ≤ N) : AckK iss N t t :=
  ⟨rfl, rfl, rfl, rfl, rfl, rfl, rfl, rfl, fun _ h => h, Nat.le_refl _, hu⟩

theorem ackEst_k (hN : N < 2147483648) (t : Tcb) (seg : Hdr) (hiss : t.snd.iss = iss) (hsent : t.sent = N)
    (hu : off iss t.snd.una ≤ N) (ha : 1 ≤ off iss seg.ack ∧ off iss seg.ack ≤ N) :
    ∃ t1, t.ackEstablishedProcessing seg = .ok (t1, .Success) ∧ AckK iss N t t1 := by
  have hsentN : off iss t.snd.nxt = N := by rw [← hsent, ← hiss]; rfl
  by_cases h1 : modLeq seg.ack t.snd.una = true
  · exact ⟨t, by unfold ackEstablishedProcessing; rw [if_pos h1], AckK.refl t hu⟩
  · have hlt : off iss t.snd.una < off iss seg.ack := by
      rcases Nat.lt_or_ge (off iss t.snd.una) (off iss seg.ack) with h | h
      · exact h
      · exact absurd ((modLeq_iff_off iss seg.ack t.snd.una (by omega) (by omega)).2 h) h1
    have h2 : modBounded t.snd.una .Lt seg.ack .Leq t.snd.nxt = true :=
      bounded_of_off iss _ _ _ (by omega) hlt (by omega)
    unfold ackEstablishedProcessing
    rw [if_neg h1, if_neg (by simp [h2])]
    dsimp only
    split
    · refine ⟨_, rfl, rfl, rfl, rfl, rfl, rfl, rfl, rfl, rfl, fun tr h => ?_, ?_, ?_⟩
      · exact (List.mem_filter.1 h).1
      · exact Nat.le_of_lt hlt
      · exact ha.2
    · refine ⟨_, rfl, rfl, rfl, rfl, rfl, rfl, rfl, rfl, rfl, fun tr h => ?_, ?_, ?_⟩
      · exact (List.mem_filter.1 h).1
      · exact Nat.le_of_lt hlt
      · exact ha.2

/-- blocks 1–4 on an acceptable nice segment in ESTABLISHED: only the ACK field is processed -/
theorem blocks14_k (hN : N < 2147483648) (t : Tcb) (g : Segment) (el : EL iss N base Np t)
    (ng : Nice iss N base Np g)
    (hok : t.isSeqOk (BitVec.ofNat 32 g.text.length) g.hdr.seq false false = .ok true) :
    ∃ t1, AckK iss N t t1 ∧ ∀ k : Tcb → B,
      (((((seqCheck t g.hdr (BitVec.ofNat 32 g.text.length)).andThen fun s => ackBlock s g.hdr).andThen fun s =>
        rstBlock s g.hdr).andThen fun s => synBlock s g.hdr).andThen k) = k t1 := by
  have c1 : seqCheck t g.hdr (BitVec.ofNat 32 g.text.length) = .ok (t, none) :=
    C01.seqCheck_pass (by rw [el.st]; simp) (by rw [ng.syn, ng.fin]; exact hok)
  have key : ∃ t1, ackBlock t g.hdr = .ok (t1, none) ∧ AckK iss N t t1 := by
    cases hab : g.hdr.ctl.ack with
    | false =>
      refine ⟨t, ?_, AckK.refl t el.una⟩
      unfold ackBlock
      rw [if_pos (by simp [hab])]
    | true =>
      obtain ⟨t1, e1, fx⟩ := ackEst_k hN t g.hdr el.siss el.sent el.una (ng.ack hab)
      refine ⟨t1, ?_, fx⟩
      unfold ackBlock
      rw [if_neg (by simp [hab]), el.st]
      dsimp only
      unfold afterAckEstablished
      rw [e1]
      simp
  obtain ⟨t1, c2, fx⟩ := key
  refine ⟨t1, fx, fun k => ?_⟩
  have c3 : rstBlock t1 g.hdr = .ok (t1, none) := by
    unfold rstBlock
    rw [if_pos (by simp [ng.rst])]
  have c4 : synBlock t1 g.hdr = .ok (t1, none) := by
    unfold synBlock
    rw [if_pos (by simp [ng.syn]), if_neg (by rw [fx.st, el.st]; simp)]
  rw [c1, andThen_none, c2, andThen_none, c3, andThen_none, c4, andThen_none]

/-! ## one segment -/

theorem lastAck_snoc (t : Tcb) (h : Hdr) (l : List Hdr) (e : t.outgoing.oneshot = l ++ [h]) (ha : h.ack = t.rcv.nxt) :
    LastAck t := ⟨h, by rw [e]; simp, ha⟩

/-- **`process_segment`** in ESTABLISHED on a nice segment that is not ahead of `RCV.NXT` -/
theorem procEst (hN : N < 2147483648) (hNp : Np < 2147483648) (t : Tcb) (g : Segment)
    (el : EL iss N base Np t) (ng : Nice iss N base Np g) (hgate : off base g.hdr.seq ≤ off base t.rcv.nxt) :
    ∃ t' r, t.processSegment g = .ok (t', r) ∧ r.shouldDeleteTcb = false ∧ EK iss base t t' ∧
      t'.incoming.segments = t.incoming.segments ∧ EL iss N base Np t' ∧
      (g.text ≠ [] → off base g.hdr.seq + g.text.length ≤ off base t'.rcv.nxt ∧ LastAck t') := by
  obtain ⟨b, hb⟩ := isSeqOk_total t g.text.length g.hdr.seq
  obtain ⟨d, hd⟩ : ∃ d, off base t.rcv.nxt = off base g.hdr.seq + d := ⟨_, (Nat.add_sub_cancel' hgate).symm⟩
  have hq := el.q
  have hseq : g.hdr.seq + BitVec.ofNat 32 d = t.rcv.nxt := by
    apply off_inj (base := base)
    rw [off_add _ _ _ (by omega)]
    omega
  cases b with
  | false =>
    have hsc : seqCheck t g.hdr (BitVec.ofNat 32 g.text.length) =
        .ok (t.enqueueBuilt t.ackHdr.built, some .DiscardSegment) := by
      unfold seqCheck
      split
      · rename_i hs
        rw [el.st] at hs; cases hs
      · rw [ng.syn, ng.fin, hb]
        simp only [enqueueThen_eq]
    have hps : t.processSegment g = .ok (t.enqueueBuilt t.ackHdr.built, .DiscardSegment) := by
      unfold processSegment
      dsimp only
      rw [hsc]
      rfl
    have he := enqueueBuilt_plain t t.ackHdr.built rfl rfl
    refine ⟨_, _, hps, rfl, ?_, ?_, ?_, fun hne => ?_⟩
    · rw [he]
      exact ⟨rfl, rfl, rfl, fun _ h => h, Nat.le_refl _, Nat.le_refl _, rfl, ⟨[_], rfl⟩,
        fun _ => ⟨t.ackHdr.built, by simp, rfl⟩⟩
    · rw [he]
    · rw [he]
      exact ⟨el.st, el.wnd, el.siss, el.sent, el.una, el.q, el.room⟩
    · have hpos : 0 < g.text.length := List.length_pos_iff.2 hne
      have hdl : g.text.length < d := by
        rcases Nat.lt_or_ge g.text.length d with h | h
        · exact h
        · have := isSeqOk_catch t g.hdr.seq g.text.length d el.wnd hseq hpos h ng.len
          rw [this] at hb; cases hb
      rw [he]
      refine ⟨?_, ⟨t.ackHdr.built, by simp, rfl⟩⟩
      show off base g.hdr.seq + g.text.length ≤ off base t.rcv.nxt
      omega
  | true =>
    obtain ⟨t1, fx, hk⟩ := blocks14_k hN t g el ng hb
    have e6 : ∀ u : Tcb, finBlock u g.hdr (BitVec.ofNat 32 g.text.length) = .ok (u, none) := by
      intro u
      unfold finBlock
      rw [if_pos (by simp [ng.fin])]
    by_cases htxt : g.text = []
    · have e5 : textBlock t1 g.hdr g.text (BitVec.ofNat 32 g.text.length) = .ok (t1, none) := by
        unfold textBlock
        rw [if_pos (by rw [htxt]; rfl)]
      have hps : t.processSegment g = .ok (t1, .Success) := by
        unfold processSegment
        dsimp only
        rw [hk, e5, andThen_none, e6]
      refine ⟨t1, _, hps, rfl, ?_, by rw [fx.inc], ?_, fun hne => absurd htxt hne⟩
      · refine ⟨fx.nxt, fx.otext, fx.mtu, fx.rtx, fx.ulo, by rw [fx.rcv]; exact Nat.le_refl _, by rw [fx.rcv, fx.inc],
          ⟨[], by rw [fx.one]; simp⟩, fun ⟨h, h1, h2⟩ => ⟨h, by rw [fx.one]; exact h1, by rw [fx.rcv]; exact h2⟩⟩
      · exact ⟨by rw [fx.st]; exact el.st, by rw [fx.rcv]; exact el.wnd, by rw [fx.siss]; exact el.siss,
          by rw [sent_congr fx.siss fx.nxt]; exact el.sent, fx.uhi, by rw [fx.rcv]; exact el.q,
          by rw [fx.rcv, fx.inc]; exact el.room⟩
    · have hpos : 0 < g.text.length := List.length_pos_iff.2 htxt
      have hbel := ng.below htxt
      have hdl : d ≤ g.text.length := by
        rcases Nat.lt_or_ge g.text.length d with h | h
        · have := isSeqOk_old t g.hdr.seq g.text.length d el.wnd hseq h (by omega) hpos
          rw [this] at hb; cases hb
        · exact h
      have hroom := el.room
      obtain ⟨t', e5, tx⟩ := textBlock_catch t1 g.hdr g.text d (by rw [fx.st]; exact el.st)
        (by rw [fx.rcv]; exact el.wnd) ng.syn (by rw [fx.rcv]; exact hseq) htxt hdl ng.len
        (by rw [fx.inc]; omega)
      have hps : t.processSegment g = .ok (t', .Success) := by
        unfold processSegment
        dsimp only
        rw [hk, e5, andThen_none, e6]
      have hoff : off base t'.rcv.nxt = off base t.rcv.nxt + (g.text.length - d) := by
        rw [tx.nxt, fx.rcv, off_add _ _ _ (by omega)]
      obtain ⟨h, hone, hack⟩ := tx.one
      have hla : LastAck t' := lastAck_snoc t' h _ hone hack
      refine ⟨t', _, hps, rfl, ?_, by rw [tx.heap, fx.inc], ?_, fun _ => ⟨by omega, hla⟩⟩
      · refine ⟨by rw [tx.snd, fx.nxt], by rw [tx.otext, fx.otext], by rw [tx.mtu, fx.mtu],
          fun tr htr => fx.rtx tr (by rw [tx.rtx] at htr; exact htr), by rw [tx.snd]; exact fx.ulo, by omega, ?_,
          ⟨[h], by rw [hone, fx.one]⟩, fun _ => hla⟩
        rw [tx.text, fx.inc, List.length_append, List.length_drop, hoff]
        omega
      · refine ⟨by rw [tx.st, fx.st]; exact el.st, by rw [tx.rwnd, fx.rcv]; exact el.wnd, by rw [tx.snd, fx.siss]; exact el.siss,
          ?_, by rw [tx.snd]; exact fx.uhi, by omega, ?_⟩
        · have e1 : t'.snd.iss = t.snd.iss := by rw [tx.snd, fx.siss]
          have e2 : t'.snd.nxt = t.snd.nxt := by rw [tx.snd, fx.nxt]
          rw [sent_congr e1 e2]; exact el.sent
        · rw [tx.text, fx.inc, List.length_append, List.length_drop, hoff]
          omega

/-! ## the processing loop over any heap -/

theorem mem_pop_iff {l : List Segment} {top : Segment} {rest : List Segment}
    (h : LHeap.pop segLe l = (some top, rest)) (g : Segment) : g ∈ l ↔ g = top ∨ g ∈ rest := by
  rw [← (LHeap.pop_perm segLe l top rest h).mem_iff]
  simp

/-- **the drain progress lemma** -/
theorem drain_est (hN : N < 2147483648) (hNp : Np < 2147483648) (fuel : Nat) : ∀ t : Tcb, EL iss N base Np t →
    HeapOk base t → (∀ g ∈ t.incoming.segments, Nice iss N base Np g) → t.incoming.segments.length < fuel →
    ∃ t', drain fuel t = .ok (t', .Ok) ∧ EL iss N base Np t' ∧ HeapOk base t' ∧ EK iss base t t' ∧
      (∀ g ∈ t'.incoming.segments, g ∈ t.incoming.segments) ∧
      (∀ g ∈ t'.incoming.segments, off base t'.rcv.nxt < off base g.hdr.seq) ∧
      (∀ g ∈ t.incoming.segments, g.text ≠ [] → off base g.hdr.seq ≤ off base t.rcv.nxt →
        off base g.hdr.seq + g.text.length ≤ off base t'.rcv.nxt ∧ LastAck t') := by
  induction fuel with
  | zero => intro t _ _ _ hf; omega
  | succ n ih =>
    intro t el hk hnice hf
    unfold drain
    cases hpeek : LHeap.peek t.incoming.segments with
    | none =>
      have hnil : t.incoming.segments = [] := by
        cases hl : t.incoming.segments with
        | nil => rfl
        | cons a u => rw [hl] at hpeek; simp [LHeap.peek] at hpeek
      dsimp only
      refine ⟨t, rfl, el, hk, EK.refl t, fun _ h => h, fun g hg => ?_, fun g hg => ?_⟩
      · rw [hnil] at hg; cases hg
      · rw [hnil] at hg; cases hg
    | some top =>
      dsimp only
      have htop : top ∈ t.incoming.segments := by
        cases hl : t.incoming.segments with
        | nil => rw [hl] at hpeek; simp [LHeap.peek] at hpeek
        | cons a u =>
          rw [hl] at hpeek
          simp only [LHeap.peek, List.head?_cons, Option.some.injEq] at hpeek
          rw [← hpeek]; exact List.mem_cons_self
      have hmax : ∀ g ∈ t.incoming.segments, off base top.hdr.seq ≤ off base g.hdr.seq := by
        intro g hg
        have := LHeap.peek_max (leK_tp base) _ top hpeek hk.heap g hg
        unfold leK at this
        simpa using this
      have hq := el.q
      have hts := (hnice top htop).seq
      have hiff := modGt_iff_off base top.hdr.seq t.rcv.nxt (by omega) (by omega)
      by_cases hgate : modGt top.hdr.seq t.rcv.nxt = true
      · -- the root is ahead: everything is ahead
        rw [if_pos (by rw [el.st, hgate]; rfl)]
        have hlt := hiff.1 hgate
        refine ⟨t, rfl, el, hk, EK.refl t, fun _ h => h, fun g hg => ?_, fun g hg _ hle => ?_⟩
        · have := hmax g hg; omega
        · have := hmax g hg; omega
      · have hle : off base top.hdr.seq ≤ off base t.rcv.nxt := by
          rcases Nat.lt_or_ge (off base t.rcv.nxt) (off base top.hdr.seq) with h | h
          · exact absurd (hiff.2 h) hgate
          · exact h
        rw [if_neg (by simp [hgate])]
        obtain ⟨rest, hpop⟩ := LHeap.pop_of_peek (le := segLe) hpeek
        rw [hpop]
        dsimp only
        have hmem := mem_pop_iff hpop
        have hlen := LHeap.pop_length hpop
        have hrest := LHeap.pop_isHeap (leK_tp base) _ top rest hpop (agree_of_win base _ hk.win) hk.heap
        have el0 : EL iss N base Np { t with incoming.segments := rest } :=
          ⟨el.st, el.wnd, el.siss, el.sent, el.una, el.q, el.room⟩
        obtain ⟨t1, r1, hp, hnd, k1, hheap1, el1, prog1⟩ :=
          procEst hN hNp { t with incoming.segments := rest } top el0 (hnice top htop) hle
        rw [hp]
        dsimp only
        rw [hnd]
        simp only [Bool.false_eq_true, if_false]
        have hk1 : HeapOk base t1 :=
          ⟨by rw [hheap1]; exact fun g hg => hk.win g ((hmem g).2 (Or.inr hg)), by rw [hheap1]; exact hrest.1⟩
        obtain ⟨t', e', el', hk', k', hsub', hahead', prog'⟩ := ih t1 el1 hk1
          (by rw [hheap1]; exact fun g hg => hnice g ((hmem g).2 (Or.inr hg))) (by rw [hheap1]; show rest.length < n; omega)
        have kt1 : EK iss base t t1 :=
          ⟨k1.snxt, k1.otext, k1.mtu, k1.rtx, k1.umono, k1.qmono, k1.bufq, k1.oneApp, k1.last⟩
        refine ⟨t', e', el', hk', kt1.trans k', fun g hg => ?_, hahead', fun g hg hne hgq => ?_⟩
        · have := hsub' g hg
          rw [hheap1] at this
          exact (hmem g).2 (Or.inr this)
        · rcases (hmem g).1 hg with rfl | hr
          · obtain ⟨p1, p2⟩ := prog1 hne
            exact ⟨Nat.le_trans p1 k'.qmono, k'.last p2⟩
          · have hq1 : off base t.rcv.nxt ≤ off base t1.rcv.nxt := k1.qmono
            exact prog' g (by rw [hheap1]; exact hr) hne (Nat.le_trans hgq hq1)

/-! ## `segment_arrives` -/

/-- the endpoint between two arrivals: `EL`, the heap a heap of nice segments, all of them ahead of `RCV.NXT` -/
structure ER (iss : Seq) (N : Nat) (base : Seq) (Np : Nat) (t : Tcb) : Prop where
  el : EL iss N base Np t
  hk : HeapOk base t
  nice : ∀ g ∈ t.incoming.segments, Nice iss N base Np g
  ahead : ∀ g ∈ t.incoming.segments, off base t.rcv.nxt < off base g.hdr.seq

/-- **`segment_arrives`** of a nice segment at an ESTABLISHED endpoint with any heap -/
theorem arrive_est (hN : N < 2147483648) (hNp : Np < 2147483648) (t : Tcb) (g : Segment)
    (er : ER iss N base Np t) (ng : Nice iss N base Np g) :
    ∃ t', t.segmentArrives g = .ok (t', .Ok) ∧ ER iss N base Np t' ∧ EK iss base t t' ∧
      (∀ x ∈ t'.incoming.segments, x = g ∨ x ∈ t.incoming.segments) ∧
      (g.text ≠ [] → off base g.hdr.seq ≤ off base t.rcv.nxt →
        off base g.hdr.seq + g.text.length ≤ off base t'.rcv.nxt ∧ LastAck t') := by
  obtain ⟨b, hb⟩ := isSeqOk_total t g.text.length g.hdr.seq
  have hq := er.el.q
  unfold segmentArrives
  dsimp only
  rw [if_neg (by rw [er.el.st]; simp), ng.syn, ng.fin, hb]
  cases b with
  | false =>
    dsimp only
    rw [enqueue_eq, enqueueBuilt_plain _ _ rfl rfl]
    refine ⟨_, rfl, ⟨⟨er.el.st, er.el.wnd, er.el.siss, er.el.sent, er.el.una, er.el.q, er.el.room⟩,
      ⟨er.hk.win, er.hk.heap⟩, er.nice, er.ahead⟩, ?_, fun x hx => Or.inr hx, fun hne hgq => ?_⟩
    · exact ⟨rfl, rfl, rfl, fun _ h => h, Nat.le_refl _, Nat.le_refl _, rfl, ⟨[_], rfl⟩,
        fun _ => ⟨t.ackHdr.built, by simp, rfl⟩⟩
    · obtain ⟨d, hd⟩ : ∃ d, off base t.rcv.nxt = off base g.hdr.seq + d := ⟨_, (Nat.add_sub_cancel' hgq).symm⟩
      have hseq : g.hdr.seq + BitVec.ofNat 32 d = t.rcv.nxt := by
        apply off_inj (base := base)
        rw [off_add _ _ _ (by omega)]
        omega
      have hpos : 0 < g.text.length := List.length_pos_iff.2 hne
      have hdl : g.text.length < d := by
        rcases Nat.lt_or_ge g.text.length d with h | h
        · exact h
        · have := isSeqOk_catch t g.hdr.seq g.text.length d er.el.wnd hseq hpos h ng.len
          rw [this] at hb; cases hb
      refine ⟨?_, ⟨t.ackHdr.built, by simp, rfl⟩⟩
      show off base g.hdr.seq + g.text.length ≤ off base t.rcv.nxt
      omega
  | true =>
    dsimp only
    have hwin : ∀ x ∈ t.incoming.segments ++ [g], InWin base x := by
      intro x hx
      rcases List.mem_append.1 hx with hx | hx
      · exact er.hk.win x hx
      · simp only [List.mem_singleton] at hx
        rw [hx]
        have := ng.seq
        unfold InWin; omega
    have hk0 : HeapOk base { t with incoming.segments := LHeap.push segLe t.incoming.segments g } := by
      refine ⟨fun x hx => ?_, LHeap.push_isHeap (leK_tp base) _ g (agree_of_win base _ hwin) er.hk.heap⟩
      rcases LHeap.mem_push.1 hx with rfl | hx
      · have := ng.seq
        unfold InWin; omega
      · exact er.hk.win x hx
    have el0 : EL iss N base Np { t with incoming.segments := LHeap.push segLe t.incoming.segments g } :=
      ⟨er.el.st, er.el.wnd, er.el.siss, er.el.sent, er.el.una, er.el.q, er.el.room⟩
    have hn0 : ∀ x ∈ ({ t with incoming.segments := LHeap.push segLe t.incoming.segments g } : Tcb).incoming.segments,
        Nice iss N base Np x := by
      intro x hx
      rcases LHeap.mem_push.1 hx with rfl | hx
      · exact ng
      · exact er.nice x hx
    obtain ⟨t', e', el', hk', k', hsub', hahead', prog'⟩ := drain_est hN hNp _ _ el0 hk0 hn0 (Nat.lt_succ_self _)
    refine ⟨t', e', ⟨el', hk', fun x hx => hn0 x (hsub' x hx), hahead'⟩,
      ⟨k'.snxt, k'.otext, k'.mtu, k'.rtx, k'.umono, k'.qmono, k'.bufq, k'.oneApp, k'.last⟩,
      fun x hx => LHeap.mem_push.1 (hsub' x hx), fun hne hgq => ?_⟩
    exact prog' g (LHeap.mem_push.2 (Or.inl rfl)) hne hgq

/-! ## a batch, in order -/

/-- a batch of nice segments delivered in order; when it ends with a contiguous run of data segments
    (`CatchRun`) that starts at or before `RCV.NXT`, `RCV.NXT` ends at or beyond the end of the run, and the last
    header queued acknowledges it -/
theorem arriveList_est (hN : N < 2147483648) (hNp : Np < 2147483648) (gs : List Segment) : ∀ t : Tcb,
    ER iss N base Np t → (∀ g ∈ gs, Nice iss N base Np g) →
    ∃ t', t.arriveList gs = .ok t' ∧ ER iss N base Np t' ∧ EK iss base t t' ∧
      (∀ x ∈ t'.incoming.segments, x ∈ gs ∨ x ∈ t.incoming.segments) ∧
      (∀ (pre run : List Segment) (seq : Seq), gs = pre ++ run → CatchRun seq run → run ≠ [] →
        off base seq ≤ off base t.rcv.nxt →
        off base seq + segBytes run ≤ off base t'.rcv.nxt ∧ LastAck t') := by
  induction gs with
  | nil =>
    intro t er _
    refine ⟨t, rfl, er, EK.refl t, fun x hx => Or.inr hx, fun pre run seq he _ hne _ => ?_⟩
    have : run = [] := (List.append_eq_nil_iff.1 he.symm).2
    exact absurd this hne
  | cons g rest ih =>
    intro t er hnice
    obtain ⟨t1, e1, er1, k1, hs1, prog1⟩ := arrive_est hN hNp t g er (hnice g List.mem_cons_self)
    obtain ⟨t', e', er', k', hs', prog'⟩ := ih t1 er1 (fun x hx => hnice x (List.mem_cons_of_mem _ hx))
    refine ⟨t', by simp only [arriveList, e1]; exact e', er', k1.trans k', fun x hx => ?_, ?_⟩
    · rcases hs' x hx with h | h
      · exact Or.inl (List.mem_cons_of_mem _ h)
      · rcases hs1 x h with rfl | h
        · exact Or.inl List.mem_cons_self
        · exact Or.inr h
    · intro pre run seq he hrun hne hle
      cases pre with
      | cons p pre' =>
        -- the run lies in `rest`
        simp only [List.cons_append, List.cons.injEq] at he
        exact prog' pre' run seq he.2 hrun hne (Nat.le_trans hle k1.qmono)
      | nil =>
        -- the run starts with `g`
        simp only [List.nil_append] at he
        cases run with
        | nil => exact absurd rfl hne
        | cons g0 run' =>
          simp only [List.cons.injEq] at he
          obtain ⟨hg0, hrest⟩ := he
          subst hg0
          subst hrest
          obtain ⟨hs, _, _, _, _, htxt, _, hrunR⟩ := hrun
          obtain ⟨p1, p2⟩ := prog1 htxt (by rw [hs]; exact hle)
          rw [hs] at p1
          have hb := (hnice g List.mem_cons_self).below htxt
          rw [hs] at hb
          have hoffn : off base (seq + BitVec.ofNat 32 g.text.length) = off base seq + g.text.length :=
            off_add _ _ _ (by omega)
          rw [segBytes_cons]
          by_cases hr : rest = []
          · subst hr
            simp only [arriveList, Except.ok.injEq] at e'
            subst e'
            simp only [segBytes_nil, Nat.add_zero]
            exact ⟨p1, p2⟩
          · obtain ⟨q1, q2⟩ := prog' [] rest _ rfl hrunR hr (by rw [hoffn]; exact p1)
            rw [hoffn] at q1
            exact ⟨by omega, q2⟩

end Elvis.Tcp.Full
