import Driver.Common
/-! Line-protocol handlers for C13 (sub-commands `c13` / `c13-*`). -/
namespace Driver.C13

def dispatch (_sub : String) (_i _o : IO.FS.Stream) : Option (IO Unit) := none

end Driver.C13
