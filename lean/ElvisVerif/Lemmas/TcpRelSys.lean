import ElvisVerif.Lemmas.TcpRelChain
import ElvisVerif.Lemmas.TcpConvSteady
import ElvisVerif.Lemmas.TcpFinRun
/-!
# Release after a simultaneous close from a quiet state

`phase_eval`: the exchange phase (`Lemmas/TcpConvPhase.lean`), evaluated from what the two `segments()` calls
return and what the two TCBs make of the other side's batch.
`release_simultaneous`: both ESTABLISHED, nothing queued, unsent, buffered or parked, everything
acknowledged and received (`QuietX`).  Both applications call `close()`; two exchange phases later both
endpoints are in TIME-WAIT (FIN-WAIT-1 → CLOSING → TIME-WAIT, four segments: two FINs, two ACKs); when
`2·MSL` (+ 1 ms) have passed on each side both TCBs are deleted.
-/
namespace Elvis.Tcp
open Tcb Elvis.ModCmp Elvis.Tcp.Fin

theorem Op.Plain.okF {s : Sys} {op : Op} (hp : Op.Plain s op) : OpOkF s op := by
  cases op <;> first | exact hp | exact hp.elim | trivial

theorem FinRun.of_plain {s s' : Sys} (h : PlainRun s s') : FinRun s s' := by
  induction h with
  | refl => exact .refl _
  | step _ hp e ih => exact .step ih hp.okF e

/-- after `read` on a side with a TCB, in any state -/
theorem read_facts_gen (s : Sys) (x : SideId) (t : Tcb) (ht : (s.side x).tcb = some t) :
    ∃ s1 r, s.step (.read x) = .ok (s1, r) ∧ (s1.side x).tcb = some t.receive.1 ∧
      s1.side x.peer = s.side x.peer ∧ (s1.side x).submitted = (s.side x).submitted ∧
      (s1.side x).delivered = (s.side x).delivered ++ t.receive.2 ∧ s1.historyLen = s.historyLen := by
  refine ⟨_, _, sys_read s x t ht, ?_, ?_, ?_, ?_, ?_⟩
  · rw [side_setSide_same]
  · rw [side_setSide_peer]
  · rw [side_setSide_same]
  · rw [side_setSide_same]
  · rw [historyLen_setSide]

/-- **the exchange phase, evaluated** -/
theorem phase_eval (s : Sys) (ta tb ta1 tb1 ta2 tb2 : Tcb) (outA outB : List Segment)
    (ha : (s.side .A).tcb = some ta) (hb : (s.side .B).tcb = some tb)
    (eA : ta.segments = .ok (ta1, outA)) (eB : tb.segments = .ok (tb1, outB))
    (aB : tb1.arriveList outA = .ok tb2) (aA : ta1.arriveList outB = .ok ta2)
    (pA : ∀ g ∈ outA, g.hdr.srcPort = SideId.A.port ∧ g.hdr.dstPort = SideId.B.port)
    (pB : ∀ g ∈ outB, g.hdr.srcPort = SideId.B.port ∧ g.hdr.dstPort = SideId.A.port) :
    ∃ s6, phase s = .ok s6 ∧ PlainRun s s6 ∧
      (s6.side .A).tcb = some ta2.receive.1 ∧ (s6.side .B).tcb = some tb2.receive.1 ∧
      (s6.side .A).submitted = (s.side .A).submitted ∧ (s6.side .B).submitted = (s.side .B).submitted ∧
      (s6.side .A).delivered = (s.side .A).delivered ++ ta2.receive.2 ∧
      (s6.side .B).delivered = (s.side .B).delivered ++ tb2.receive.2 ∧
      s6.historyLen = s.historyLen + outA.length + outB.length := by
  obtain ⟨s1, r1, st1, h1a, h1p, h1sub, h1del, h1len, h1new, h1old⟩ := emit_facts s .A ta ta1 outA ha eA
  have h1pb : s1.side .B = s.side .B := h1p
  have h1b : (s1.side .B).tcb = some tb := by rw [h1pb]; exact hb
  obtain ⟨s2, r2, st2, h2b, h2p, h2sub, h2del, h2len, h2new, h2old⟩ := emit_facts s1 .B tb tb1 outB h1b eB
  have h2pa : s2.side .A = s1.side .A := h2p
  have h2a : (s2.side .A).tcb = some ta1 := by rw [h2pa]; exact h1a
  have hnA : ∀ j (hj : j < outA.length), s2.nth (s.historyLen + j) = some outA[j] := by
    intro j hj
    rw [h2old _ (by rw [h1len]; omega)]
    exact h1new j hj
  obtain ⟨s3, d3, r23, h3b, h3p, h3sub, h3del, h3len, h3nth⟩ :=
    batch_facts s2 .B s.historyLen outA tb1 tb2 h2b hnA aB (fun g hg' => pA g hg')
  have h3pa : s3.side .A = s2.side .A := h3p
  have h3a : (s3.side .A).tcb = some ta1 := by rw [h3pa]; exact h2a
  have hnB : ∀ j (hj : j < outB.length), s3.nth (s1.historyLen + j) = some outB[j] := by
    intro j hj
    rw [h3nth]
    exact h2new j hj
  obtain ⟨s4, d4, r34, h4a, h4p, h4sub, h4del, h4len, h4nth⟩ :=
    batch_facts s3 .A s1.historyLen outB ta1 ta2 h3a hnB aA (fun g hg' => pB g hg')
  have h4pb : s4.side .B = s3.side .B := h4p
  have h4b : (s4.side .B).tcb = some tb2 := by rw [h4pb]; exact h3b
  obtain ⟨s5, r5, st5, h5a, h5p, h5sub, h5del, h5len⟩ := read_facts_gen s4 .A ta2 h4a
  have h5pb : s5.side .B = s4.side .B := h5p
  have h5b : (s5.side .B).tcb = some tb2 := by rw [h5pb]; exact h4b
  obtain ⟨s6, r6, st6, h6b, h6p, h6sub, h6del, h6len⟩ := read_facts_gen s5 .B tb2 h5b
  have h6pa : s6.side .A = s5.side .A := h6p
  refine ⟨s6, ?_, ?_, by rw [h6pa]; exact h5a, h6b, ?_, ?_, ?_, ?_, ?_⟩
  · unfold phase
    rw [st1]
    dsimp only
    rw [st2]
    dsimp only
    have l1 : s1.historyLen - s.historyLen = outA.length := by omega
    have l2 : s2.historyLen - s1.historyLen = outB.length := by omega
    rw [l1, d3]
    dsimp only
    rw [l2, d4]
    dsimp only
    rw [st5]
    dsimp only
    rw [st6]
  · have r02 : PlainRun s s2 :=
      (PlainRun.step (op := .emit .A) (.refl _) trivial st1).trans (.step (op := .emit .B) (.refl _) trivial st2)
    exact (((r02.trans r23).trans r34).trans
      (.step (op := .read .A) (.refl _) trivial st5)).trans (.step (op := .read .B) (.refl _) trivial st6)
  · rw [h6pa, h5sub, h4sub, h3pa, h2pa, h1sub]
  · rw [h6sub, h5pb, h4pb, h3sub, h2sub, h1pb]
  · rw [h6pa, h5del, h4del, h3pa, h2pa, h1del]
  · rw [h6del, h5pb, h4pb, h3del, h2del, h1pb]
  · rw [h6len, h5len, h4len, h3len, h2len, h1len]

/-- both applications close, two exchange phases, then `2·MSL + 1 ms` pass on each side -/
def releaseRound (s : Sys) : Except String Sys :=
  match s.step (.close .A) with
  | .error e => .error e
  | .ok (s1, _) =>
  match s1.step (.close .B) with
  | .error e => .error e
  | .ok (s2, _) =>
  match phase s2 with
  | .error e => .error e
  | .ok s3 =>
  match phase s3 with
  | .error e => .error e
  | .ok s4 =>
  match s4.step (.tick .A (TIME_WAIT + 1)) with
  | .error e => .error e
  | .ok (s5, _) =>
  match s5.step (.tick .B (TIME_WAIT + 1)) with
  | .error e => .error e
  | .ok (s6, _) => .ok s6

/-- **release after a simultaneous close** from a quiet state -/
theorem release_simultaneous (s : Sys) (ta tb : Tcb) (ha : (s.side .A).tcb = some ta) (hb : (s.side .B).tcb = some tb)
    (qa : QuietX .A ta tb) (qb : QuietX .B tb ta) :
    ∃ s', releaseRound s = .ok s' ∧ FinRun s s' ∧ (s'.side .A).tcb = none ∧ (s'.side .B).tcb = none ∧
      (s'.side .A).submitted = (s.side .A).submitted ∧ (s'.side .B).submitted = (s.side .B).submitted ∧
      (s'.side .A).delivered = (s.side .A).delivered ∧ (s'.side .B).delivered = (s.side .B).delivered ∧
      s'.historyLen = s.historyLen + 4 := by
  obtain ⟨cA, ta1, eA1, fA⟩ := chain1 .A ta tb qa
  obtain ⟨cB, tb1, eB1, fB⟩ := chain1 .B tb ta qb
  -- the two closes
  have st1 : s.step (.close .A) = .ok (s.setSide .A { s.side .A with tcb := some (closedT ta) }, .closed .Ok) := by
    simp only [Sys.step, Op.side, ha, cA]
  have h1b : ((s.setSide .A { s.side .A with tcb := some (closedT ta) }).side .B).tcb = some tb := hb
  have st2 : (s.setSide .A { s.side .A with tcb := some (closedT ta) }).step (.close .B) =
      .ok ((s.setSide .A { s.side .A with tcb := some (closedT ta) }).setSide .B
        { s.side .B with tcb := some (closedT tb) }, .closed .Ok) := by
    simp only [Sys.step, Op.side, h1b, cB]
    rfl
  generalize hs2 : (s.setSide .A { s.side .A with tcb := some (closedT ta) }).setSide .B
    { s.side .B with tcb := some (closedT tb) } = s2 at st2
  have h2a : (s2.side .A).tcb = some (closedT ta) := by rw [← hs2]; rfl
  have h2b : (s2.side .B).tcb = some (closedT tb) := by rw [← hs2]; rfl
  have h2sa : (s2.side .A).submitted = (s.side .A).submitted := by rw [← hs2]; rfl
  have h2sb : (s2.side .B).submitted = (s.side .B).submitted := by rw [← hs2]; rfl
  have h2da : (s2.side .A).delivered = (s.side .A).delivered := by rw [← hs2]; rfl
  have h2db : (s2.side .B).delivered = (s.side .B).delivered := by rw [← hs2]; rfl
  have h2len : s2.historyLen = s.historyLen := by rw [← hs2]; rfl
  -- the FINs cross
  have hFa : IsFin (finSeg tb) ta.rcv.nxt ta.snd.nxt := by rw [qb.sync, ← qa.sync]; exact isFin_finSeg tb
  have hFb : IsFin (finSeg ta) tb.rcv.nxt tb.snd.nxt := by rw [qa.sync, ← qb.sync]; exact isFin_finSeg ta
  obtain ⟨aA2, rA2, ta3, eA3, c1, c2, c3, c4, c5, c6, kAck, kAp1, kAp2⟩ := chain2 .A ta tb ta1 qa fA (finSeg tb) hFa
  obtain ⟨aB2, rB2, tb3, eB3, d1, d2, d3, d4, d5, d6, kBck, kBp1, kBp2⟩ := chain2 .B tb ta tb1 qb fB (finSeg ta) hFb
  obtain ⟨s3, ph1, r23, h3a, h3b, h3sa, h3sb, h3da, h3db, h3len⟩ :=
    phase_eval s2 (closedT ta) (closedT tb) ta1 tb1 (closingT ta1) (closingT tb1) [finSeg ta] [finSeg tb]
      h2a h2b eA1 eB1 aB2 aA2
      (fun g hg => by
        simp only [List.mem_singleton] at hg; subst hg
        exact ⟨qa.lp, qa.rp⟩)
      (fun g hg => by
        simp only [List.mem_singleton] at hg; subst hg
        exact ⟨qb.lp, qb.rp⟩)
  rw [rA2] at h3a h3da
  rw [rB2] at h3b h3db
  -- the ACKs cross
  have hAa : IsAck ⟨tb1.finAckHdr, []⟩ (ta.rcv.nxt + 1) (ta.snd.nxt + 1) := by rw [qb.sync, ← qa.sync]; exact kBck
  have hAb : IsAck ⟨ta1.finAckHdr, []⟩ (tb.rcv.nxt + 1) (tb.snd.nxt + 1) := by rw [qa.sync, ← qb.sync]; exact kAck
  obtain ⟨ta4, aA4, rA4, sA4, wA4⟩ := chain3 .A ta tb ta1 ta3 qa fA ⟨c1, c2, c3, c4, c5, c6⟩ _ hAa
  obtain ⟨tb4, aB4, rB4, sB4, wB4⟩ := chain3 .B tb ta tb1 tb3 qb fB ⟨d1, d2, d3, d4, d5, d6⟩ _ hAb
  obtain ⟨s4, ph2, r34, h4a, h4b, h4sa, h4sb, h4da, h4db, h4len⟩ :=
    phase_eval s3 (closingT ta1) (closingT tb1) ta3 tb3 ta4 tb4 [⟨ta1.finAckHdr, []⟩] [⟨tb1.finAckHdr, []⟩]
      h3a h3b eA3 eB3 aB4 aA4
      (fun g hg => by
        simp only [List.mem_singleton] at hg; subst hg
        exact ⟨kAp1.trans qa.lp, kAp2.trans qa.rp⟩)
      (fun g hg => by
        simp only [List.mem_singleton] at hg; subst hg
        exact ⟨kBp1.trans qb.lp, kBp2.trans qb.rp⟩)
  rw [rA4] at h4a h4da
  rw [rB4] at h4b h4db
  -- 2·MSL pass
  obtain ⟨ta5, tA⟩ := (advanceTime_timeWait ta4 (TIME_WAIT + 1) TIME_WAIT wA4).1 (by omega)
  obtain ⟨tb5, tB⟩ := (advanceTime_timeWait tb4 (TIME_WAIT + 1) TIME_WAIT wB4).1 (by omega)
  have st5 : s4.step (.tick .A (TIME_WAIT + 1)) =
      .ok (s4.setSide .A { s4.side .A with tcb := none, listen := none }, .tick .CloseConnection) := by
    simp only [Sys.step, Op.side, h4a, tA]
  have h5b : ((s4.setSide .A { s4.side .A with tcb := none, listen := none }).side .B).tcb = some tb4 := h4b
  have st6 : (s4.setSide .A { s4.side .A with tcb := none, listen := none }).step (.tick .B (TIME_WAIT + 1)) =
      .ok ((s4.setSide .A { s4.side .A with tcb := none, listen := none }).setSide .B
        { s4.side .B with tcb := none, listen := none }, .tick .CloseConnection) := by
    simp only [Sys.step, Op.side, h5b, tB]
    rfl
  refine ⟨(s4.setSide .A { s4.side .A with tcb := none, listen := none }).setSide .B
    { s4.side .B with tcb := none, listen := none }, ?_, ?_, rfl, rfl, ?_, ?_, ?_, ?_, ?_⟩
  · unfold releaseRound
    rw [st1]
    dsimp only
    rw [st2]
    dsimp only
    rw [ph1]
    dsimp only
    rw [ph2]
    dsimp only
    rw [st5]
    dsimp only
    rw [st6]
  · have r02 : FinRun s s2 :=
      (FinRun.step (op := .close .A) (.refl _) trivial st1).trans (.step (op := .close .B) (.refl _) trivial st2)
    exact (((r02.trans (FinRun.of_plain r23)).trans (FinRun.of_plain r34)).trans
      (.step (op := .tick .A (TIME_WAIT + 1)) (.refl _) trivial st5)).trans
      (.step (op := .tick .B (TIME_WAIT + 1)) (.refl _) trivial st6)
  · show (s4.side .A).submitted = _
    rw [h4sa, h3sa, h2sa]
  · show (s4.side .B).submitted = _
    rw [h4sb, h3sb, h2sb]
  · show (s4.side .A).delivered = _
    rw [h4da, h3da, h2da]; simp
  · show (s4.side .B).delivered = _
    rw [h4db, h3db, h2db]; simp
  · show s4.historyLen = _
    rw [h4len, h3len, h2len]; rfl

end Elvis.Tcp
