import ElvisVerif.Lemmas.Router
/-! Delivery along a static path: the tracking invariant behind `c16_delivery`. -/
namespace Elvis.Router

/-- network a waiting forward will leave on -/
def outNet (topo : Topo) (p : Pending) : Option NetId :=
  (topo.nodes[p.node]?).bind (fun nd => (nd.slots[p.slot]?).map (·.1))

/-- the answer of a faithful ARP exchange on `net` for `ip`: the MAC of the tap of the (first)
    machine on that network that answers ARP requests for `ip` (what C06 is about) -/
def arpAnswer (topo : Topo) (net : NetId) (ip : Addr) : Option Mac :=
  ((tapsOn topo net).find? (fun t => t.2.1.arpIps.contains ip)).map (·.2.2)

def faithfulMac (topo : Topo) (p : Pending) : Option Mac :=
  (outNet topo p).bind (fun net => arpAnswer topo net p.nextHop)

/-- the static configuration carries this waiting forward to the application (`port`) of machine
    `hd`, which receives `data`: by induction along the hops -/
inductive Leads (topo : Topo) (hd : Nat) (port : Nat) (data : List UInt8) : Pending → Prop
  | last (p : Pending) (mac : Mac) (f : Frame) (nd : Node) (σ : Slot) :
      faithfulMac topo p = some mac → emit topo p mac = .ok (some f) →
      tapOwner topo f.net f.dmac = some (hd, nd, σ) →
      ipv4Demux hd nd f.pkt = .ok (.app port data) → Leads topo hd port data p
  | hop (p : Pending) (mac : Mac) (f : Frame) (n : Nat) (nd : Node) (σ : Slot) (p' : Pending) :
      faithfulMac topo p = some mac → emit topo p mac = .ok (some f) →
      tapOwner topo f.net f.dmac = some (n, nd, σ) →
      ipv4Demux n nd f.pkt = .ok (.routed (some p')) → Leads topo hd port data p' →
      Leads topo hd port data p

/-- a frame in flight that will be handed to the destination application or to a router from
    which the configuration leads there -/
def Arrives (topo : Topo) (hd : Nat) (port : Nat) (data : List UInt8) (f : Frame) : Prop :=
  ∃ n nd σ, tapOwner topo f.net f.dmac = some (n, nd, σ) ∧
    ((n = hd ∧ ipv4Demux n nd f.pkt = .ok (.app port data)) ∨
      ∃ p', ipv4Demux n nd f.pkt = .ok (.routed (some p')) ∧ Leads topo hd port data p')

def indF (k : Nat) (f : Frame) : Nat := if f.pkt.tok = k then 1 else 0
def indP (k : Nat) (p : Pending) : Nat := if p.pkt.tok = k then 1 else 0
/-- number of frames / waiting forwards of token `k` -/
def cntF (k : Nat) (s : State) : Nat := (s.flight.map (indF k)).sum
def cntP (k : Nat) (s : State) : Nat := (s.pend.map (indP k)).sum

def appOf (k : Nat) : Ev → Option (Nat × Nat × List UInt8)
  | .app n pkt port data => if pkt.tok = k then some (n, port, data) else none
  | _ => none

/-- application deliveries of token `k`: (machine, port, data) in order -/
def appsOf (k : Nat) (log : List Ev) : List (Nat × Nat × List UInt8) := log.filterMap (appOf k)

structure Track (topo : Topo) (k hd port : Nat) (data : List UInt8) (s : State) : Prop where
  fl : ∀ f ∈ s.flight, f.pkt.tok = k → Arrives topo hd port data f
  pd : ∀ p ∈ s.pend, p.pkt.tok = k → Leads topo hd port data p
  cnt : (cntF k s + cntP k s = 1 ∧ appsOf k s.log = []) ∨
        (cntF k s + cntP k s = 0 ∧ appsOf k s.log = [(hd, port, data)])

/-- ARP is faithful for token `k` and nothing else of token `k` is handed in -/
def ChoiceFaithful (topo : Topo) (k : Nat) (s : State) : Choice → Prop
  | .resolved j mac => ∀ p, s.pend[j]? = some p → p.pkt.tok = k → faithfulMac topo p = some mac
  | .unresolved j => ∀ p, s.pend[j]? = some p → p.pkt.tok ≠ k
  | .send _ pkt => pkt.tok ≠ k
  | .inject f => f.pkt.tok ≠ k
  | .deliver _ => True

def FaithfulRun (topo : Topo) (k : Nat) : State → List Choice → Prop
  | _, [] => True
  | s, c :: cs => ChoiceFaithful topo k s c ∧ ∀ s', step topo s c = .ok s' → FaithfulRun topo k s' cs

theorem appsOf_append (k : Nat) (a b : List Ev) : appsOf k (a ++ b) = appsOf k a ++ appsOf k b := by
  simp [appsOf, List.filterMap_append]

theorem lt_of_getElem? {α : Type} {l : List α} {i : Nat} {x : α} (h : l[i]? = some x) : i < l.length := by
  rcases Nat.lt_or_ge i l.length with h1 | h1
  · exact h1
  · rw [List.getElem?_eq_none h1] at h; cases h

theorem cnt_zero_of_none {α : Type} (f : α → Nat) (l : List α) (h : ∀ x ∈ l, f x = 0) : (l.map f).sum = 0 := by
  induction l with
  | nil => rfl
  | cons a l ih =>
    simp only [List.map_cons, List.sum_cons]
    rw [h a (by simp), ih (fun x hx => h x (by simp [hx]))]

theorem step_track {topo : Topo} {k hd port : Nat} {data : List UInt8} {s s' : State} {c : Choice}
    (h : step topo s c = .ok s') (inv : Track topo k hd port data s) (hf : ChoiceFaithful topo k s c) :
    Track topo k hd port data s' := by
  have hcnt := inv.cnt
  simp only [cntF, cntP] at hcnt
  cases c with
  | deliver i =>
    simp only [step] at h
    cases hfi : s.flight[i]? with
    | none =>
      simp only [deliverCore, hfi, Except.ok.injEq] at h
      subst h
      exact ⟨inv.fl, by simpa using inv.pd, by simpa [cntF, cntP] using hcnt⟩
    | some f =>
      have hmem : f ∈ s.flight := List.mem_of_getElem? hfi
      have hsum := sum_map_eraseIdx (indF k) s.flight i f hfi
      have hfl' : ∀ g ∈ s.flight.eraseIdx i, g.pkt.tok = k → Arrives topo hd port data g :=
        fun g hg => inv.fl g (List.mem_of_mem_eraseIdx hg)
      by_cases hk : f.pkt.tok = k
      · -- the tracked frame arrives
        have e1 : indF k f = 1 := by simp [indF, hk]
        obtain ⟨n, nd, σ, ho, hcase⟩ := inv.fl f hmem hk
        rcases hcase with ⟨rfl, hd'⟩ | ⟨p', hd', hl⟩
        · simp only [deliverCore, hfi, ho, hd', Except.ok.injEq] at h
          subst h
          refine ⟨hfl', by simpa using inv.pd, ?_⟩
          simp only [cntF, cntP, appsOf_append, List.append_nil] at *
          rcases hcnt with ⟨hc, ha⟩ | ⟨hc, _⟩
          · right
            refine ⟨by omega, ?_⟩
            rw [ha]; simp [appsOf, appOf, hk]
          · omega
        · simp only [deliverCore, hfi, ho, hd', Except.ok.injEq] at h
          subst h
          obtain ⟨v, hp', _⟩ := routerDemux_some (ipv4Demux_routed hd')
          have hk' : p'.pkt.tok = k := by rw [hp']; simpa [Pkt.withTtl] using hk
          refine ⟨hfl', ?_, ?_⟩
          · intro q hq hqk
            simp only [List.mem_append, List.mem_singleton] at hq
            rcases hq with hq | rfl
            · exact inv.pd q hq hqk
            · exact hl
          · have e2 : indP k p' = 1 := by simp [indP, hk']
            simp only [cntF, cntP, appsOf_append, List.map_append, List.sum_append, List.map_cons,
              List.map_nil, List.sum_cons, List.sum_nil] at *
            have ea : appsOf k [Ev.hop n f.pkt] = [] := by simp [appsOf, appOf]
            rw [ea, List.append_nil]
            rcases hcnt with ⟨hc, ha⟩ | ⟨hc, ha⟩
            · exact .inl ⟨by omega, ha⟩
            · omega
      · -- some other datagram
        have e1 : indF k f = 0 := by simp [indF, hk]
        split at h
        · cases h
        · rename_i fl ps evs hc
          simp only [Except.ok.injEq] at h
          subst h
          have sp := deliverCore_spec hc
          have key : fl = s.flight.eraseIdx i ∧ (∀ q ∈ ps, q.pkt.tok ≠ k) ∧ appsOf k evs = [] := by
            cases sp with
            | noFrame hn => rw [hfi] at hn; cases hn
            | gone g hg => exact ⟨rfl, by simp, rfl⟩
            | app g n nd σ port' data' hg _ _ =>
              rw [hfi] at hg; cases hg
              exact ⟨rfl, by simp, by simp [appsOf, appOf, hk]⟩
            | hopDrop g n hg => exact ⟨rfl, by simp, by simp [appsOf, appOf]⟩
            | hopFwd g n nd σ q hg _ _ hr =>
              rw [hfi] at hg; cases hg
              obtain ⟨v, hq, _⟩ := routerDemux_some hr
              refine ⟨rfl, ?_, by simp [appsOf, appOf]⟩
              intro q' hq'
              simp only [List.mem_singleton] at hq'
              subst hq'
              rw [hq]; simpa [Pkt.withTtl] using hk
          obtain ⟨rfl, hps, hev⟩ := key
          refine ⟨hfl', ?_, ?_⟩
          · intro q hq hqk
            simp only [List.mem_append] at hq
            rcases hq with hq | hq
            · exact inv.pd q hq hqk
            · exact absurd hqk (hps q hq)
          · have z : (ps.map (indP k)).sum = 0 :=
              cnt_zero_of_none (indP k) ps (fun q hq => by simp [indP, hps q hq])
            simp only [cntF, cntP, appsOf_append, List.map_append, List.sum_append, hev, List.append_nil, z] at *
            rcases hcnt with ⟨hc, ha⟩ | ⟨hc, ha⟩
            · exact .inl ⟨by omega, ha⟩
            · exact .inr ⟨by omega, ha⟩
  | resolved j mac =>
    simp only [step] at h
    cases hpj : s.pend[j]? with
    | none =>
      simp only [hpj, Except.ok.injEq] at h
      subst h; exact inv
    | some p =>
      simp only [hpj] at h
      have hmem : p ∈ s.pend := List.mem_of_getElem? hpj
      have hsum := sum_map_eraseIdx (indP k) s.pend j p hpj
      have hpd' : ∀ q ∈ s.pend.eraseIdx j, q.pkt.tok = k → Leads topo hd port data q :=
        fun q hq => inv.pd q (List.mem_of_mem_eraseIdx hq)
      by_cases hk : p.pkt.tok = k
      · have e1 : indP k p = 1 := by simp [indP, hk]
        have hfm := hf p hpj hk
        have hl := inv.pd p hmem hk
        have main : ∃ f, emit topo p mac = .ok (some f) ∧ Arrives topo hd port data f := by
          cases hl with
          | last _ mac' f nd σ hm he ho hd' =>
            rw [hfm] at hm; cases hm
            exact ⟨f, he, hd, nd, σ, ho, .inl ⟨rfl, hd'⟩⟩
          | hop _ mac' f n nd σ p' hm he ho hd' hl' =>
            rw [hfm] at hm; cases hm
            exact ⟨f, he, n, nd, σ, ho, .inr ⟨p', hd', hl'⟩⟩
        obtain ⟨f, he, ha⟩ := main
        simp only [resolveCore, he, Except.ok.injEq] at h
        subst h
        have hfk : f.pkt.tok = k := by rw [(emit_some he).1]; exact hk
        refine ⟨?_, hpd', ?_⟩
        · intro g hg hgk
          simp only [List.mem_append, List.mem_singleton] at hg
          rcases hg with hg | rfl
          · exact inv.fl g hg hgk
          · exact ha
        · have e2 : indF k f = 1 := by simp [indF, hfk]
          have ea : appsOf k [Ev.wire f] = [] := by simp [appsOf, appOf]
          simp only [cntF, cntP, appsOf_append, List.map_append, List.sum_append, List.map_cons,
            List.map_nil, List.sum_cons, List.sum_nil, ea, List.append_nil] at *
          rcases hcnt with ⟨hc, hap⟩ | ⟨hc, hap⟩
          · exact .inl ⟨by omega, hap⟩
          · omega
      · have e1 : indP k p = 0 := by simp [indP, hk]
        split at h
        · cases h
        · rename_i fs evs hc
          simp only [Except.ok.injEq] at h
          subst h
          have key : (∀ g ∈ fs, g.pkt.tok ≠ k) ∧ appsOf k evs = [] := by
            rcases resolveCore_spec hc with ⟨rfl, rfl⟩ | ⟨g, rfl, rfl, he⟩
            · exact ⟨by simp, rfl⟩
            · refine ⟨?_, by simp [appsOf, appOf]⟩
              intro g' hg'
              simp only [List.mem_singleton] at hg'
              subst hg'
              rw [(emit_some he).1]; exact hk
          obtain ⟨hfs, hev⟩ := key
          refine ⟨?_, hpd', ?_⟩
          · intro g hg hgk
            simp only [List.mem_append] at hg
            rcases hg with hg | hg
            · exact inv.fl g hg hgk
            · exact absurd hgk (hfs g hg)
          · have z : (fs.map (indF k)).sum = 0 :=
              cnt_zero_of_none (indF k) fs (fun g hg => by simp [indF, hfs g hg])
            simp only [cntF, cntP, appsOf_append, List.map_append, List.sum_append, hev, List.append_nil, z] at *
            rcases hcnt with ⟨hc, ha⟩ | ⟨hc, ha⟩
            · exact .inl ⟨by omega, ha⟩
            · exact .inr ⟨by omega, ha⟩
  | unresolved j =>
    simp only [step, Except.ok.injEq] at h
    subst h
    have hpd' : ∀ q ∈ s.pend.eraseIdx j, q.pkt.tok = k → Leads topo hd port data q :=
      fun q hq => inv.pd q (List.mem_of_mem_eraseIdx hq)
    refine ⟨inv.fl, hpd', ?_⟩
    have same : ((s.pend.eraseIdx j).map (indP k)).sum = (s.pend.map (indP k)).sum := by
      cases hpj : s.pend[j]? with
      | none =>
        have : s.pend.length ≤ j := by
          rcases Nat.lt_or_ge j s.pend.length with h1 | h1
          · rw [List.getElem?_eq_getElem h1] at hpj; cases hpj
          · exact h1
        rw [List.eraseIdx_of_length_le this]
      | some p =>
        have := sum_map_eraseIdx (indP k) s.pend j p hpj
        have e1 : indP k p = 0 := by simp [indP, hf p hpj]
        omega
    simp only [cntF, cntP, same]
    exact hcnt
  | send hh pkt =>
    simp only [step, Except.ok.injEq] at h
    subst h
    have hps : ∀ q ∈ sendCore topo hh pkt, q.pkt.tok ≠ k := by
      intro q hq
      rcases sendCore_spec topo hh pkt with e | ⟨p, nd, e, _, _, hp, _⟩
      · rw [e] at hq; cases hq
      · rw [e] at hq; simp only [List.mem_singleton] at hq; subst hq; rw [hp]; exact hf
    refine ⟨inv.fl, ?_, ?_⟩
    · intro q hq hqk
      simp only [List.mem_append] at hq
      rcases hq with hq | hq
      · exact inv.pd q hq hqk
      · exact absurd hqk (hps q hq)
    · have z : ((sendCore topo hh pkt).map (indP k)).sum = 0 :=
        cnt_zero_of_none (indP k) _ (fun q hq => by simp [indP, hps q hq])
      simp only [cntF, cntP, List.map_append, List.sum_append, z]
      exact hcnt
  | inject f =>
    simp only [step, Except.ok.injEq] at h
    subst h
    have hk : f.pkt.tok ≠ k := hf
    refine ⟨?_, inv.pd, ?_⟩
    · intro g hg hgk
      simp only [List.mem_append, List.mem_singleton] at hg
      rcases hg with hg | rfl
      · exact inv.fl g hg hgk
      · exact absurd hgk hk
    · have e1 : indF k f = 0 := by simp [indF, hk]
      have ea : appsOf k [Ev.wire f] = [] := by simp [appsOf, appOf]
      simp only [cntF, cntP, appsOf_append, List.map_append, List.sum_append, List.map_cons,
        List.map_nil, List.sum_cons, List.sum_nil, ea, List.append_nil, e1]
      exact hcnt

theorem run_track {topo : Topo} {k hd port : Nat} {data : List UInt8} :
    ∀ (sched : List Choice) (s s' : State), run topo s sched = .ok s' → Track topo k hd port data s →
      FaithfulRun topo k s sched → Track topo k hd port data s'
  | [], s, s', h, inv, _ => by simp [run] at h; subst h; exact inv
  | c :: cs, s, s', h, inv, hf => by
    simp only [run] at h
    cases hs : step topo s c with
    | error e => rw [hs] at h; cases h
    | ok s1 =>
      rw [hs] at h
      exact run_track cs s1 s' h (step_track hs inv hf.1) (hf.2 s1 hs)

/-! ### a readable description of "the static routes form a path" -/

/-- `Route topo hd port data m p`: from the waiting forward `p` the static configuration leads,
    through `m` routers, to the application `port` of machine `hd`:
    * the owner (ARP responder) of the next-hop address on the outgoing network is the next
      machine, the outgoing slot exists and the frame fits the network's MTU;
    * an intermediate machine routes (wildcard `ArpRouter` binding for the protocol, no
      `SubnetInfo`, whole datagram, sane header), its table has an entry for the destination and
      a local address for that entry's slot — the next forward goes to the entry's gateway, or to
      the destination itself when the entry has none;
    * the last machine is `hd`: a UDP binding for the destination address and the port. -/
inductive Route (topo : Topo) (hd port : Nat) (data : List UInt8) : Nat → Pending → Prop
  | deliver (p : Pending) (mac : Mac) (nd : Node) (net : NetId) (smac : Mac) (ndh : Node) (σ : Slot) :
      faithfulMac topo p = some mac →
      topo.nodes[p.node]? = some nd → nd.slots[p.slot]? = some (net, smac) → frameLen p.pkt ≤ topo.mtu net →
      tapOwner topo net mac = some (hd, ndh, σ) →
      findBind ndh.binds p.pkt.hdr.dst (protoClass p.pkt.hdr.proto) = some .udp →
      isWhole p.pkt.hdr = true → Elvis.Gen.ipv4BaseOctets ≤ p.pkt.hdr.totalLength →
      udpDemux ndh p.pkt = .app port data →
      Route topo hd port data 0 p
  | forward (m : Nat) (p : Pending) (mac : Mac) (nd : Node) (net : NetId) (smac : Mac) (r : Nat) (ndr : Node)
      (σ : Slot) (e : RouteEntry) (loc : Addr) :
      faithfulMac topo p = some mac →
      topo.nodes[p.node]? = some nd → nd.slots[p.slot]? = some (net, smac) → frameLen p.pkt ≤ topo.mtu net →
      tapOwner topo net mac = some (r, ndr, σ) →
      findBind ndr.binds p.pkt.hdr.dst (protoClass p.pkt.hdr.proto) = some .router →
      isWhole p.pkt.hdr = true → ndr.subnet = none →
      Elvis.Gen.ipv4BaseOctets ≤ p.pkt.hdr.totalLength → p.pkt.hdr.fragOffset ≤ Elvis.Gen.ipv4FragmentOffsetMask →
      lookup ndr.table p.pkt.hdr.dst = some e → ndr.localIps[e.slot]? = some loc →
      Route topo hd port data m
        { node := r, slot := e.slot, loc := loc, nextHop := e.gw.getD p.pkt.hdr.dst, viaRouter := true,
          pkt := p.pkt.withTtl (p.pkt.hdr.ttl - 1) } →
      Route topo hd port data (m + 1) p

theorem emit_of {topo : Topo} {p : Pending} {mac : Mac} {nd : Node} {net : NetId} {smac : Mac}
    (hn : topo.nodes[p.node]? = some nd) (hs : nd.slots[p.slot]? = some (net, smac))
    (hm : frameLen p.pkt ≤ topo.mtu net) :
    emit topo p mac = .ok (some { net := net, smac := smac, dmac := mac, pkt := p.pkt }) := by
  have : ¬ topo.mtu net < frameLen p.pkt := by omega
  simp [emit, hn, hs, this]

/-- a path of `m` routers that is shorter than the TTL leads to the destination application -/
theorem route_leads {topo : Topo} {hd port : Nat} {data : List UInt8} {m : Nat} {p : Pending}
    (h : Route topo hd port data m p) : m < p.pkt.hdr.ttl ∨ m = 0 → Leads topo hd port data p := by
  induction h with
  | deliver p mac nd net smac ndh σ hfm hn hs hmtu ho hb hw hlen hu =>
    intro _
    refine .last p mac _ ndh σ hfm (emit_of hn hs hmtu) ho ?_
    have a : ¬ p.pkt.hdr.totalLength < Elvis.Gen.ipv4BaseOctets := by omega
    simp [ipv4Demux, ipv4DemuxParsed, headerRejected, a, hb, hw, hu]
  | forward m p mac nd net smac r ndr σ e loc hfm hn hs hmtu ho hb hw hsub hlen hoff hlk hloc _ ih =>
    intro hlt
    have h2 : 2 ≤ p.pkt.hdr.ttl := by omega
    have hr : routerDemux r ndr p.pkt = .ok (some
        { node := r, slot := e.slot, loc := loc, nextHop := e.gw.getD p.pkt.hdr.dst, viaRouter := true,
          pkt := p.pkt.withTtl (p.pkt.hdr.ttl - 1) }) := by
      have a : ¬ p.pkt.hdr.totalLength < Elvis.Gen.ipv4BaseOctets := by omega
      have b : ¬ p.pkt.hdr.fragOffset > Elvis.Gen.ipv4FragmentOffsetMask := by omega
      simp [routerDemux, ttlKernel_ge2 h2, a, b, hlk, hloc, arpTarget, hsub]
    refine .hop p mac _ r ndr σ _ hfm (emit_of hn hs hmtu) ho ?_ (ih ?_)
    · have a : ¬ p.pkt.hdr.totalLength < Elvis.Gen.ipv4BaseOctets := by omega
      simp [ipv4Demux, ipv4DemuxParsed, headerRejected, a, hb, hw, hr]
    · left; simp only [Pkt.withTtl]; omega

theorem cnt_zero_flight {k : Nat} {s : State} (h : ∀ f ∈ s.flight, f.pkt.tok ≠ k) : cntF k s = 0 :=
  cnt_zero_of_none (indF k) s.flight (fun f hf => by simp [indF, h f hf])

theorem cnt_zero_pend {k : Nat} {s : State} (h : ∀ p ∈ s.pend, p.pkt.tok ≠ k) : cntP k s = 0 :=
  cnt_zero_of_none (indP k) s.pend (fun p hp => by simp [indP, h p hp])

end Elvis.Router
