import ElvisVerif.Lemmas.TcpAckStep
/-!
# C03 — synchronisation of the closed two-endpoint system, at full strength

`Props/C03.lean` proves `RCV.NXT_peer =< SND.NXT_x` (`c03_synchronised_partial`).  Here is the other
half — every ACK number an endpoint has issued lies in `[ISS_peer + 1, RCV.NXT]`, hence
`SND.UNA_x =< RCV.NXT_peer` — and the two together (`c03_synchronised`).

System: `Model/TcpSys.lean`.  Quantification: `ClosedRun` (`Lemmas/TcpAckStep.lean`) from the state
after `open A` + `listen B` or `open A` + `open B` (any ISNs, any MTUs): any finite interleaving
of `write`, `read`, `tick`, `emit`, `close`, `drop` and deliveries of ANY element of the history of
everything ever emitted (loss, duplication, reordering, arbitrary delay) to the side it is
addressed to, with `RoomOk` before every step (H31: fewer than 2^31 sequence numbers used and
queued per direction).
-/
namespace Elvis.Tcp
namespace C03
open Elvis.ModCmp Tcb

/-- `a =< b` in the code's circular order, from offsets below 2^31 -/
theorem modLeq_of_off (base a b : Seq) (ha : off base a < 2147483648) (hb : off base b < 2147483648)
    (h : off base a ≤ off base b) : modLeq a b = true := by
  unfold modLeq
  rw [Bool.or_eq_true]
  rcases Nat.lt_or_ge (off base a) (off base b) with hlt | hge
  · exact Or.inr ((modLt_iff_off base a b ha hb).2 hlt)
  · left
    have he : off base a = off base b := Nat.le_antisymm h hge
    unfold off at he
    have : a - base = b - base := BitVec.eq_of_toNat_eq he
    have hab : a = b := by bv_omega
    rw [hab]; simp

/-- the state the closed system starts in: A opens actively, B listens or opens actively too -/
def Start (ia ib : Seq) (ma mb : U16) (simultaneous : Bool) (sys0 : Sys) : Prop :=
  ∃ rs, Sys.run {} [.open .A ia ma, if simultaneous then .open .B ib mb else .listen .B ib mb] = .ok (sys0, rs)

theorem full_of_start {ia ib : Seq} {ma mb : U16} {simultaneous : Bool} {sys0 sys : Sys}
    (h0 : Start ia ib ma mb simultaneous sys0) (hrun : ClosedRun sys0 sys) : Full sys := by
  obtain ⟨rs, h0⟩ := h0
  have hi0 : Full sys0 := by
    cases simultaneous with
    | true => exact full_init_simultaneous ia ib ma mb sys0 rs h0
    | false => exact full_init_active_passive ia ib ma mb sys0 rs h0
  exact full_run hi0 hrun

/-- **The acknowledgment invariant of the closed two-endpoint system.**  In every reachable state
    (see the file header for the quantification), for endpoint `x` (TCB `t`) and its peer (TCB `u`)
    with the peer out of SYN-SENT — in particular whenever both are synchronised —: every segment
    in the history of everything the peer ever emitted, every header still on the peer's
    retransmission and one-shot queues, and every segment parked in `x`'s reorder heap that has
    the ACK bit acknowledges a number with

      `ISS_x < SEG.ACK =< RCV.NXT_peer`

    (offsets from `ISS_x`, all below 2^31; equivalently `mod_bounded(ISS_x, <, SEG.ACK, =<, RCV.NXT_peer)`
    in the code's circular order).  While the peer is still in SYN-SENT none of these has the
    ACK bit at all. -/
theorem c03_ack_numbers (ia ib : Seq) (ma mb : U16) (simultaneous : Bool) (sys0 sys : Sys)
    (h0 : Start ia ib ma mb simultaneous sys0) (hrun : ClosedRun sys0 sys) (hroom : RoomOk sys)
    (x : SideId) (t u : Tcb) (ht : (sys.side x).tcb = some t) (hu : (sys.side x.peer).tcb = some u) :
    let good (h : Hdr) : Prop := h.ctl.ack = true → u.state ≠ .SynSent ∧
      1 ≤ off t.snd.iss h.ack ∧ off t.snd.iss h.ack ≤ off t.snd.iss u.rcv.nxt ∧
      modBounded t.snd.iss .Lt h.ack .Leq u.rcv.nxt = true
    (∀ σ ∈ sys.history, σ.hdr.srcPort = x.peer.port → good σ.hdr) ∧
    (∀ h ∈ u.outgoing.oneshot, good h) ∧ (∀ tr ∈ u.outgoing.retransmit, good tr.segment.hdr) ∧
    (∀ σ ∈ t.incoming.segments, good σ.hdr) := by
  intro good
  have hf := full_of_start h0 hrun
  have hA := hf.ack x
  unfold AckLink at hA
  rw [ht, hu] at hA
  have hbelow := inv_rcv_le_snd sys hf.inv hroom x t u ht hu
  -- from `AckLe … (top …)` to the statement
  have conv : ∀ h : Hdr, AckLe t.snd.iss (top t.snd.iss u) h → good h := by
    intro h hle hack
    obtain ⟨h1, h2⟩ := hle hack
    have hns : u.state ≠ .SynSent := by
      intro hs
      rw [top_of_synSent hs] at h2
      omega
    rw [top_of_ne hns] at h2
    obtain ⟨b1, b2, _⟩ := hbelow hns
    refine ⟨hns, h1, h2, bounded_of_off t.snd.iss _ _ _ (by omega) (by rw [off_self]; omega) h2⟩
  exact ⟨fun σ hσ hs => conv _ (hA.hist t u rfl rfl σ hσ hs), fun h hh => conv _ ((hA.q t u rfl rfl).one h hh),
    fun tr hh => conv _ ((hA.q t u rfl rfl).rtx tr hh), fun σ hσ => conv _ (hA.heap t u rfl rfl σ hσ)⟩

/-- **Synchronisation in the closed two-endpoint system** (DESIGN.md section 8, C03, first
    clause) — both inequalities.  In every reachable state (file header), whenever both TCBs exist
    and the peer has left SYN-SENT — in particular whenever both endpoints are in synchronised
    states —:

      `SND.UNA_x =< RCV.NXT_peer =< SND.NXT_x`   for `x` = A and `x` = B,

    in offsets from `ISS_x` (all below 2^31, and `RCV.NXT_peer` is past `x`'s SYN) and therefore
    in the code's circular order (`mod_leq`): an endpoint never has acknowledged to it what its peer
    has not received, and never expects a sequence number its peer has not sent.
    Proof: the invariants `Inv` (`Lemmas/TcpSysInv.lean`) and `AckInv` (`Lemmas/TcpAckSys.lean`) over
    `Sys.step`. -/
theorem c03_synchronised (ia ib : Seq) (ma mb : U16) (simultaneous : Bool) (sys0 sys : Sys)
    (h0 : Start ia ib ma mb simultaneous sys0) (hrun : ClosedRun sys0 sys) (hroom : RoomOk sys)
    (x : SideId) (t u : Tcb) (ht : (sys.side x).tcb = some t) (hu : (sys.side x.peer).tcb = some u)
    (hs : u.state ≠ .SynSent) :
    off t.snd.iss t.snd.una ≤ off t.snd.iss u.rcv.nxt ∧ off t.snd.iss u.rcv.nxt ≤ off t.snd.iss t.snd.nxt ∧
      off t.snd.iss t.snd.nxt < 2147483648 ∧ 1 ≤ off t.snd.iss u.rcv.nxt ∧
      modLeq t.snd.una u.rcv.nxt = true ∧ modLeq u.rcv.nxt t.snd.nxt = true := by
  have hf := full_of_start h0 hrun
  have hA := hf.ack x
  unfold AckLink at hA
  rw [ht, hu] at hA
  obtain ⟨b1, b2, _⟩ := inv_rcv_le_snd sys hf.inv hroom x t u ht hu hs
  have hu1 := hA.una t u rfl rfl
  rw [top_of_ne hs] at hu1
  have hpos := (hA.q t u rfl rfl).pos hs
  exact ⟨hu1, b1, b2, hpos, modLeq_of_off t.snd.iss _ _ (by omega) (by omega) hu1,
    modLeq_of_off t.snd.iss _ _ (by omega) b2 b1⟩

/-- `off base` is injective -/
theorem eq_of_off_eq {base a b : Seq} (h : off base a = off base b) : a = b := by
  unfold off at h
  have : a - base = b - base := BitVec.eq_of_toNat_eq h
  bv_omega

/-- **Equality at quiescence, sender-side form.**  In every reachable state of the closed system
    (file header), when endpoint `x` has nothing outstanding — `SND.UNA_x = SND.NXT_x`: everything it
    ever numbered (SYN, data, FIN) has been acknowledged to it — its peer expects exactly the next
    sequence number `x` will use: `RCV.NXT_peer = SND.NXT_x`.  (Squeeze of `c03_synchronised`.)

    `_partial`: the clause of DESIGN.md section 8 is phrased on the network side ("when every segment
    `x` emitted has been delivered"); that form is `C03SynchronisedQuiescentStatement` below. -/
theorem c03_synchronised_quiescent_partial (ia ib : Seq) (ma mb : U16) (simultaneous : Bool) (sys0 sys : Sys)
    (h0 : Start ia ib ma mb simultaneous sys0) (hrun : ClosedRun sys0 sys) (hroom : RoomOk sys)
    (x : SideId) (t u : Tcb) (ht : (sys.side x).tcb = some t) (hu : (sys.side x.peer).tcb = some u)
    (hs : u.state ≠ .SynSent) (hq : t.snd.una = t.snd.nxt) : u.rcv.nxt = t.snd.nxt := by
  obtain ⟨h1, h2, _⟩ := c03_synchronised ia ib ma mb simultaneous sys0 sys h0 hrun hroom x t u ht hu hs
  rw [hq] at h1
  exact eq_of_off_eq (Nat.le_antisymm h2 h1)

/-- the indices of the history elements a run delivers to side `x` -/
def deliveredTo (x : SideId) : List Op → List Nat
  | [] => []
  | .deliver y i :: ops => if y = x then i :: deliveredTo x ops else deliveredTo x ops
  | _ :: ops => deliveredTo x ops

/-- every op of the list is an op of the closed system in the state in which it is executed, with
    room below 2^31 sequence numbers -/
def ClosedOps : Sys → List Op → Prop
  | _, [] => True
  | s, op :: ops => RoomOk s ∧ Op.Closed s op ∧ ∀ s' r, s.step op = .ok (s', r) → ClosedOps s' ops

/-- Equality at quiescence, network-side form (NOT proved).  "When every history element emitted by
    the peer has been delivered to `x` (in some order, any number of times) and `x`'s reorder heap is
    empty, `RCV.NXT_x = SND.NXT_peer`."  As it stands the clause needs two more hypotheses, made
    explicit here: (a) the peer's retransmission queue holds no entry still waiting for its first
    transmission (`close()` numbers the FIN at once, `segments()` emits it later: in between
    `SND.NXT_peer` counts a sequence number that is in no history element); (b) whenever a segment was
    delivered to `x`, `x`'s receive buffer was empty — the text block accepts only what fits
    (`min unreceived space_available`) and drops the rest of a segment it has taken off the reorder
    heap, and the advertised window is the constant 65535 whatever is buffered, so with an
    application that does not read, segments are "delivered" without `RCV.NXT` moving.
    What a proof needs beyond this branch: the send-window invariant of C17 joined with
    `c03_synchronised` for every history element (`SEG.SEQ + SEG.LEN =< RCV.NXT_x + 65535`, so nothing
    delivered is dropped for being beyond the window), an invariant "every delivered element ends at
    or below `RCV.NXT_x` or is parked in the heap", and the `Chain` invariant of
    `Lemmas/TcbWindow.lean` extended to the closing states (it is stated only while text can still be
    segmentized).  The native oracle evaluates the clause at quiescence (`synchronised …` idents). -/
def C03SynchronisedQuiescentStatement : Prop :=
  ∀ (ia ib : Seq) (ma mb : U16) (simultaneous : Bool) (sys0 sys : Sys) (ops : List Op) (rs : List Res),
    Start ia ib ma mb simultaneous sys0 → ClosedOps sys0 ops → sys0.run ops = .ok (sys, rs) → RoomOk sys →
    ∀ (x : SideId) (t u : Tcb), (sys.side x).tcb = some t → (sys.side x.peer).tcb = some u →
      t.state ≠ .SynSent → t.incoming.segments = [] →
      (∀ i σ, sys.nth i = some σ → σ.hdr.srcPort = x.peer.port → i ∈ deliveredTo x ops) →
      (∀ tr ∈ u.outgoing.retransmit, tr.needsTransmit = true → tr.segment ∈ sys.history) →
      (∀ k, ∀ sk rk, sys0.run (ops.take k) = .ok (sk, rk) → (∃ i, ops[k]? = some (.deliver x i)) →
        ∀ tk, (sk.side x).tcb = some tk → tk.incoming.text = []) →
      t.rcv.nxt = u.snd.nxt

/-! ## non-vacuity -/

/-- a concrete closed run: handshake, three bytes from A to B delivered and acknowledged, a
    duplicate of the data segment, then A disappears (`drop`) -/
def syncRun : Bool :=
  match Sys.run {} [.open .A 1000 1500, .listen .B 5000 1500] with
  | .ok (sys0, _) =>
    match cleanRunB sys0 [.emit .A, .deliver .B 0, .emit .B, .deliver .A 1, .write .A [1, 2, 3],
        .emit .A, .deliver .B 2, .deliver .B 3, .emit .B, .deliver .B 3, .deliver .A 4] with
    | some sys =>
      roomB sys && (match sys.a.tcb, sys.b.tcb with
        | some t, some u => u.state == .Established && t.snd.una == 1004#32 && u.rcv.nxt == 1004#32 &&
            t.snd.nxt == 1004#32
        | _, _ => false)
    | none => false
  | .error _ => false

/-- the hypotheses of `c03_synchronised` are satisfiable and the bounds are attained: in the run
    above (clean with room at every step: `cleanRunB_sound`) `SND.UNA_A = RCV.NXT_B = SND.NXT_A = 1004` -/
example : ∃ sys0 sys : Sys, Start 1000 5000 1500 1500 false sys0 ∧ ClosedRun sys0 sys ∧ RoomOk sys ∧
    ∃ t u, sys.a.tcb = some t ∧ sys.b.tcb = some u ∧ u.state = .Established ∧ t.snd.una = 1004#32 ∧
      u.rcv.nxt = 1004#32 ∧ t.snd.nxt = 1004#32 := by
  have key : syncRun = true := by decide
  unfold syncRun at key
  split at key
  · rename_i sys0 rs e0
    split at key
    · rename_i sys e1
      simp only [Bool.and_eq_true] at key
      obtain ⟨hr, hk⟩ := key
      split at hk
      · rename_i t u ht hu
        simp only [Bool.and_eq_true, beq_iff_eq] at hk
        exact ⟨sys0, sys, ⟨rs, e0⟩, ClosedRun.of_clean (cleanRunB_sound _ _ _ e1), roomB_sound _ hr, t, u, ht, hu,
          hk.1.1.1, hk.1.1.2, hk.1.2, hk.2⟩
      · simp at hk
    · simp at key
  · simp at key

end C03
end Elvis.Tcp
