#!/bin/bash
# usage: tools/mkagent.sh NAME  -> /tmp/w/NAME/{verif,repo} worktrees on branch agent/NAME
set -e
N=$1
mkdir -p /tmp/w/$N
git -C /verif worktree add -q -b agent/$N /tmp/w/$N/verif HEAD
git -C /repo worktree add -q -b agent/$N /tmp/w/$N/repo HEAD
echo /tmp/w/$N
