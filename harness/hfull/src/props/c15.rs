//! C15: correspondence + oracle runs (sub-commands `c15` / `c15-*`).
use hcommon::*;

pub fn run(args: &Args) {
    eprintln!("hfull: {} not implemented yet", args.prop);
    std::process::exit(2);
}
