//! C17: correspondence + oracle runs (sub-commands `c17` / `c17-*`).
use hcommon::*;

pub fn run(args: &Args) {
    eprintln!("hcore: {} not implemented yet", args.prop);
    std::process::exit(2);
}
