//! C14: correspondence + oracle runs (sub-commands `c14` / `c14-*`).
use hcommon::*;

pub fn run(args: &Args) {
    if args.prop == "c14-ndl" {
        return super::c19::run_c14_ndl(args);
    }
    eprintln!("hfull: {} not implemented yet", args.prop);
    std::process::exit(2);
}
