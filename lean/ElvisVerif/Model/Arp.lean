import ElvisVerif.Generated.Arp
/-
Model of ARP resolution (sim/elvis-core/src/protocols/arp.rs, arp/arp_parsing.rs,
arp/subnetting.rs `SubnetInfo`/`Ipv4Net::id`, network.rs `Network::send`, pci.rs).

* `Machine`: the PCI taps (`Pci::mac_addresses()`), `Arp.local_ips` (IP -> optional
  `SubnetInfo`) and the `ArpTable` (IP -> `Ok mac | Err`), both `FxDashMap`s = association lists.
* `Packet`, `build`, `fromBytes`: `ArpPacket` and its 28-byte wire form.
* `Machine.demux`: `Arp::demux` — learn the SENDER mapping of every parsed packet; reply iff the
  packet is a request and its target address is in `local_ips`.
* `Net`: one `Network` with N machines.  `Arp::resolve` is a state machine (`Resolver`): listen,
  default-gateway substitution, table hit, else up to `RESEND_TRIES` rounds of
  `broadcast request ; timeout(RESEND_DELAY, get_mac)`, then `fail_mac` and `Err`.
* Labelled transition system `step : Net → Label → Net`.  All nondeterminism is in the label list:
  which frame is handed to which tap next (`deliver`), which frame is lost (`lose`), when a woken
  waiter gets to run (`wake`), which expired timer is served next (`timeout`), how time passes
  (`tick`), when addresses are claimed (`listen`, `setSubnet`) and resolutions start (`resolve`).
  The wire is monotone: it holds every frame ever handed to `Network::send`; a frame may be
  delivered any number of times to the taps it is addressed to (this subsumes reordering, delay,
  duplication), or never (loss).
* Time is virtual microseconds.  `tick` is enabled only while no resolver is runnable (a waiter
  whose table entry is present) and no retry timer is overdue — the behaviour of a paused-clock
  tokio runtime, which advances the clock only when every task is idle.

`negCache` (extracted from the source: `Gen.Arp.cachedFailureIsAnswer`) says whether a cached
failure (`Err` entry) is returned by `resolve`/`get_mac` (the behaviour before the fix of
F-C06-1) or ignored (after it).

No imports beyond the generated constants: linked into the native driver.
-/
namespace Elvis.Arp
open Elvis.Gen.Arp

abbrev Ip := Nat
abbrev Mac := Nat

/-! ### association lists (`FxDashMap`) -/

def alookup {α : Type} (k : Nat) : List (Nat × α) → Option α
  | [] => none
  | (k', v) :: r => if k' = k then some v else alookup k r

/-- `insert`: replace the value of an existing key, else add the pair -/
def ainsert {α : Type} (k : Nat) (v : α) : List (Nat × α) → List (Nat × α)
  | [] => [(k, v)]
  | (k', v') :: r => if k' = k then (k, v) :: r else (k', v') :: ainsert k v r

/-! ### ARP packets -/

inductive Oper
  | request
  | reply
deriving DecidableEq, Repr

structure Packet where
  htype : Nat
  ptype : Nat
  hlen : Nat
  plen : Nat
  oper : Oper
  smac : Mac
  sip : Ip
  tmac : Mac
  tip : Ip
deriving DecidableEq, Repr

/-- `ArpPacket::new_request` -/
def newRequest (smac : Mac) (sip tip : Ip) : Packet :=
  ⟨htype, ptype, hlen, plen, .request, smac, sip, requestTargetMac, tip⟩

/-- `ArpPacket::new_reply` -/
def newReply (smac : Mac) (sip : Ip) (tmac : Mac) (tip : Ip) : Packet :=
  ⟨htype, ptype, hlen, plen, .reply, smac, sip, tmac, tip⟩

/-- the low `w` bytes of `n`, big endian (`to_be_bytes()`, for MACs `[2..8]` of the u64) -/
def be : Nat → Nat → List UInt8
  | 0, _ => []
  | w + 1, n => UInt8.ofNat (n / 256 ^ w % 256) :: be w n

def fromBe : List UInt8 → Nat
  | [] => 0
  | b :: r => b.toNat * 256 ^ r.length + fromBe r

def Oper.code : Oper → Nat
  | .request => operRequest
  | .reply => operReply

/-- `ArpPacket::build` -/
def build (p : Packet) : List UInt8 :=
  be 2 p.htype ++ be 2 p.ptype ++ be 1 p.hlen ++ be 1 p.plen ++ be 2 p.oper.code ++
  be 6 p.smac ++ be 4 p.sip ++ be 6 p.tmac ++ be 4 p.tip

/-- `next_u8 / next_u16_be / next_u48_be / next_ipv4addr` of `BytesExt`: take `w` bytes off the
    iterator, or fail when it runs dry -/
def rd (w : Nat) (b : List UInt8) : Except String (Nat × List UInt8) :=
  if b.length < w then .error "HeaderTooShort" else .ok (fromBe (b.take w), b.drop w)

/-- `ArpPacket::from_bytes`: fields are read in order; a missing byte is `HeaderTooShort`, an
    operation other than 1/2 is `InvalidOperation` (detected before the addresses are read);
    trailing bytes are ignored -/
def fromBytes (b : List UInt8) : Except String Packet :=
  match rd 2 b with
  | .error e => .error e
  | .ok (htype, b) =>
  match rd 2 b with
  | .error e => .error e
  | .ok (ptype, b) =>
  match rd 1 b with
  | .error e => .error e
  | .ok (hlen, b) =>
  match rd 1 b with
  | .error e => .error e
  | .ok (plen, b) =>
  match rd 2 b with
  | .error e => .error e
  | .ok (op, b) =>
  if op ≠ operRequest ∧ op ≠ operReply then .error "InvalidOperation" else
  match rd 6 b with
  | .error e => .error e
  | .ok (smac, b) =>
  match rd 4 b with
  | .error e => .error e
  | .ok (sip, b) =>
  match rd 6 b with
  | .error e => .error e
  | .ok (tmac, b) =>
  match rd 4 b with
  | .error e => .error e
  | .ok (tip, _) =>
  .ok { htype := htype, ptype := ptype, hlen := hlen, plen := plen,
        oper := if op = operRequest then .request else .reply,
        smac := smac, sip := sip, tmac := tmac, tip := tip }

/-! ### machines -/

inductive Status
  | ok (m : Mac)
  | err
deriving DecidableEq, Repr

/-- `SubnetInfo` (the mask is always the image of `Ipv4Mask::from_bitcount`) -/
structure Subnet where
  mask : Nat
  gateway : Ip
deriving DecidableEq, Repr

structure Machine where
  /-- MAC of the PCI session in each slot -/
  macs : List Mac
  /-- `Arp.local_ips` -/
  localIps : List (Ip × Option Subnet)
  /-- `Arp.arp_table` -/
  table : List (Ip × Status)
deriving DecidableEq, Repr

/-- `local_ips.contains_key` -/
def Machine.owns (m : Machine) (ip : Ip) : Bool := (alookup ip m.localIps).isSome

/-- `Arp::listen`: add the address unless it is already there (keeps subnet info) -/
def Machine.listen (m : Machine) (ip : Ip) : Machine :=
  match alookup ip m.localIps with
  | some _ => m
  | none => { m with localIps := ainsert ip none m.localIps }

/-- `Arp::set_subnet` -/
def Machine.setSubnet (m : Machine) (ip : Ip) (sn : Subnet) : Machine :=
  { m with localIps := ainsert ip (some sn) m.localIps }

/-- the address `resolve` really asks for: the default gateway when the subnet configured for
    `local` puts `remote` outside (`Ipv4Net::new(local, mask).id() != Ipv4Net::new(remote, mask).id()`) -/
def destOf (m : Machine) (loc remote : Ip) : Ip :=
  match alookup loc m.localIps with
  | some (some sn) => if netId loc sn.mask ≠ netId remote sn.mask then sn.gateway else remote
  | _ => remote

/-- a frame handed to `Network::send` -/
structure Frame where
  /-- `Delivery.sender` -/
  smac : Mac
  /-- `Delivery.destination` (`none` = broadcast) -/
  dst : Option Mac
  pkt : Packet
  /-- the network dropped it (it will never be delivered) -/
  lost : Bool
deriving DecidableEq, Repr

def requestFrame (smac : Mac) (loc dest : Ip) : Frame :=
  ⟨smac, none, newRequest smac loc dest, false⟩

def replyFrame (tapMac : Mac) (req : Packet) : Frame :=
  ⟨tapMac, some req.smac, newReply tapMac req.tip req.smac req.sip, false⟩

/-- `Arp::demux` of a parsed packet that arrived on the tap with MAC `tapMac`:
    `set_mac(sender_ip, sender_mac)`; a reply iff `oper == Request && local_ips.contains_key(target_ip)`
    (`send_pci` refuses it when the MTU is below the packet size; that error is only logged) -/
def Machine.demux (m : Machine) (tapMac : Mac) (mtu : Nat) (p : Packet) : Machine × Option Frame :=
  let m' := { m with table := ainsert p.sip (.ok p.smac) m.table }
  if p.oper = .request ∧ m.owns p.tip = true then
    if packetSize ≤ mtu then (m', some (replyFrame tapMac p)) else (m', none)
  else (m', none)

/-! ### the network -/

/-- one call of `Arp::resolve` -/
structure Resolver where
  mach : Nat
  /-- MAC of the PCI session opened for `tap_slot` -/
  smac : Mac
  loc : Ip
  /-- the address asked for (after the gateway substitution) -/
  dest : Ip
  started : Nat
  /-- requests sent so far -/
  sent : Nat
  /-- expiry of the running `timeout(RESEND_DELAY, get_mac)` -/
  deadline : Nat
  /-- `some (status, time)` once the call has returned -/
  result : Option (Status × Nat)
deriving DecidableEq, Repr

structure Net where
  now : Nat
  mtu : Nat
  negCache : Bool
  machines : List Machine
  wire : List Frame
  resolvers : List Resolver
  panic : Option String
deriving Repr

/-- what a table entry answers to `resolve` / to a waiter in `get_mac` -/
def tableHit (negCache : Bool) : Option Status → Option Status
  | some (.ok m) => some (.ok m)
  | some .err => if negCache then some .err else none
  | none => none

def Net.hit (s : Net) (mach : Nat) (dest : Ip) : Option Status :=
  match s.machines[mach]? with
  | some m => tableHit s.negCache (alookup dest m.table)
  | none => none

/-- `fail_mac` -/
def Net.failMac (s : Net) (mach : Nat) (dest : Ip) : Net :=
  match s.machines[mach]? with
  | some m => { s with machines := s.machines.set mach { m with table := ainsert dest .err m.table } }
  | none => s

/-- one iteration of the retry loop (`for _ in 0..RESEND_TRIES { send; timeout(..) }`, then
    `fail_mac; Err`).  A request the PCI session refuses (MTU) ends the call with `Err` at once,
    nothing is cached. -/
def Net.roundOrFail (s : Net) (r : Resolver) : Net × Resolver :=
  if r.sent < resendTries then
    if packetSize ≤ s.mtu then
      ({ s with wire := s.wire ++ [requestFrame r.smac r.loc r.dest] },
       { r with sent := r.sent + 1, deadline := s.now + resendDelayUs })
    else (s, { r with result := some (.err, s.now) })
  else (s.failMac r.mach r.dest, { r with result := some (.err, s.now) })

/-- `Arp::resolve(endpoints, tap_slot, machine)` up to its first await -/
def Net.resolve (s : Net) (k : Nat) (loc remote : Ip) (slot : Nat) : Net :=
  match s.machines[k]? with
  | none => s
  | some m0 =>
    let m := m0.listen loc
    let dest := destOf m loc remote
    let s1 := { s with machines := s.machines.set k m }
    match tableHit s.negCache (alookup dest m.table) with
    | some st =>
      { s1 with resolvers := s1.resolvers ++ [⟨k, 0, loc, dest, s.now, 0, s.now, some (st, s.now)⟩] }
    | none =>
      match m.macs[slot]? with
      | none => { s1 with panic := some "panic:unwrap:Pci::open" }
      | some mac =>
        let p := s1.roundOrFail ⟨k, mac, loc, dest, s.now, 0, s.now, none⟩
        { p.1 with resolvers := p.1.resolvers ++ [p.2] }

/-- the `timeout(RESEND_DELAY, ..)` of resolver `i` expires with nothing to read: next round, or
    give up -/
def Net.timeout (s : Net) (i : Nat) : Net :=
  match s.resolvers[i]? with
  | some r =>
    if r.result = none ∧ s.now = r.deadline ∧ s.hit r.mach r.dest = none then
      let p := s.roundOrFail r
      { p.1 with resolvers := p.1.resolvers.set i p.2 }
    else s
  | none => s

/-- the waiter `i` runs and finds an answer in the table -/
def Net.wake (s : Net) (i : Nat) : Net :=
  match s.resolvers[i]? with
  | some r =>
    if r.result = none then
      match s.hit r.mach r.dest with
      | some st => { s with resolvers := s.resolvers.set i { r with result := some (st, s.now) } }
      | none => s
    else s
  | none => s

/-- `Network::send` hands frame `fi` to the tap in `slot` of machine `k` (broadcast frames go to
    every tap, the sender's included; unicast frames only to the tap with that MAC) -/
def Net.deliver (s : Net) (fi k slot : Nat) : Net :=
  match s.wire[fi]?, s.machines[k]? with
  | some f, some m =>
    match m.macs[slot]? with
    | some tapMac =>
      if f.lost = false ∧ (f.dst = none ∨ f.dst = some broadcastMac ∨ f.dst = some tapMac) then
        let p := m.demux tapMac s.mtu f.pkt
        { s with machines := s.machines.set k p.1, wire := s.wire ++ p.2.toList }
      else s
    | none => s
  | _, _ => s

def Net.lose (s : Net) (fi : Nat) : Net :=
  match s.wire[fi]? with
  | some f => { s with wire := s.wire.set fi { f with lost := true } }
  | none => s

/-- may `dt` of virtual time pass?  Not while a waiter is runnable or a retry timer would be
    overdue. -/
def Net.canTick (s : Net) (dt : Nat) : Bool :=
  s.resolvers.all fun r => r.result.isSome || ((s.hit r.mach r.dest).isNone && decide (s.now + dt ≤ r.deadline))

def Net.tick (s : Net) (dt : Nat) : Net :=
  if s.canTick dt then { s with now := s.now + dt } else s

def Net.listen (s : Net) (k : Nat) (ip : Ip) : Net :=
  match s.machines[k]? with
  | some m => { s with machines := s.machines.set k (m.listen ip) }
  | none => s

def Net.setSubnet (s : Net) (k : Nat) (ip : Ip) (bits : Nat) (gw : Ip) : Net :=
  match s.machines[k]? with
  | some m => { s with machines := s.machines.set k (m.setSubnet ip ⟨maskFromBitcount bits, gw⟩) }
  | none => s

inductive Label
  | listen (k : Nat) (ip : Ip)
  | setSubnet (k : Nat) (ip : Ip) (bits : Nat) (gw : Ip)
  | resolve (k : Nat) (loc remote : Ip) (slot : Nat)
  | deliver (fi k slot : Nat)
  | lose (fi : Nat)
  | wake (i : Nat)
  | timeout (i : Nat)
  | tick (dt : Nat)
deriving Repr

/-- one transition; after a panic (the process is gone) nothing happens any more -/
def step (s : Net) (l : Label) : Net :=
  if s.panic.isSome then s else
  match l with
  | .listen k ip => s.listen k ip
  | .setSubnet k ip bits gw => s.setSubnet k ip bits gw
  | .resolve k loc remote slot => s.resolve k loc remote slot
  | .deliver fi k slot => s.deliver fi k slot
  | .lose fi => s.lose fi
  | .wake i => s.wake i
  | .timeout i => s.timeout i
  | .tick dt => s.tick dt

def run (s : Net) (ls : List Label) : Net := ls.foldl step s

/-- taps get consecutive MACs in construction order (`Network::next_mac`, `Pci::new`) -/
def assignMacs : Nat → List Nat → List (List Mac)
  | _, [] => []
  | c, n :: rest => (List.range n).map (c + ·) :: assignMacs (c + n) rest

/-- N machines with the given numbers of taps on one network; nothing claimed, nothing learned -/
def initWith (negCache : Bool) (slots : List Nat) (mtu : Nat) : Net :=
  { now := 0, mtu := mtu, negCache := negCache,
    machines := (assignMacs 0 slots).map fun ms => ⟨ms, [], []⟩,
    wire := [], resolvers := [], panic := none }

def init (slots : List Nat) (mtu : Nat) : Net := initWith cachedFailureIsAnswer slots mtu

end Elvis.Arp
