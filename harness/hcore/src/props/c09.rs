//! C09: IpTable longest-prefix match + subnet arithmetic + CIDR text.
//! Sub-commands: `c09` (random tables and op histories), `c09-grid` (every mask length x boundary
//! addresses, deterministic bases first).  Ops are text lines (the same lines drive the Lean
//! model); addresses and masks are decimal u32, strings hex of their bytes.
//!
//! The oracle is written from the property, not from the code: networks are `(id, len)` pairs,
//! membership is `id <= a <= id + 2^(32-len) - 1` in u64, lookup is a brute-force search for the
//! containing key of greatest length in a shadow `HashMap` that follows "last add wins, remove
//! deletes", iteration order is (len descending, id ascending).  CIDR text is judged by a strict
//! grammar (`d.d.d.d/n`); for text outside it the property is silent and the shadow follows what
//! the implementation did (classified against the recorded leniency for the statistics).
use elvis_core::ip_table::IpTable;
use elvis_core::protocols::arp::subnetting::*;
use elvis_core::protocols::ipv4::Ipv4Address;
use hcommon::*;
use std::collections::HashMap;

// ---------------------------------------------------------------- oracle arithmetic (u64)
fn o_len(len: u64) -> u32 {
    len.min(32) as u32
}
fn o_size(len: u32) -> u64 {
    1u64 << (32 - len)
}
fn o_id(ip: u32, len: u32) -> u32 {
    (ip as u64 / o_size(len) * o_size(len)) as u32
}
fn o_last(id: u32, len: u32) -> u32 {
    (id as u64 + o_size(len) - 1) as u32
}
fn o_contains(id: u32, len: u32, a: u32) -> bool {
    id as u64 <= a as u64 && a as u64 <= id as u64 + o_size(len) - 1
}
fn o_bits(len: u32) -> u32 {
    // the `len` high bits
    ((0xFFFF_FFFFu64 << (32 - len)) & 0xFFFF_FFFF) as u32
}

/// what a CIDR string denotes: `d.d.d.d/n`, octets 0..=255 without leading zeros, n in 0..=32
/// written without sign or leading zeros
fn strict_cidr(s: &str) -> Option<(u32, u32)> {
    let (ip, len) = s.split_once('/')?;
    let dec = |t: &str, max: u64| -> Option<u64> {
        if t.is_empty() || t.len() > 3 || !t.bytes().all(|b| b.is_ascii_digit()) || (t.len() > 1 && t.starts_with('0')) {
            return None;
        }
        let v: u64 = t.parse().ok()?;
        (v <= max).then_some(v)
    };
    let octs: Vec<&str> = ip.split('.').collect();
    if octs.len() != 4 {
        return None;
    }
    let mut v = 0u32;
    for o in octs {
        v = v * 256 + dec(o, 255)? as u32;
    }
    Some((v, dec(len, 32)? as u32))
}

/// the observed contract of `cidr_to_ip` (documented in notes/C09.md): strict address; the length
/// may carry a `+`, leading zeros and any value up to u32::MAX (clamped to 32); further
/// `/`-separated parts are ignored.  Returns the class of leniency used.
fn lenient_cidr(s: &str) -> Option<(u32, u32, &'static str)> {
    let parts: Vec<&str> = s.split('/').collect();
    if parts.len() < 2 {
        return None;
    }
    let (ip, _) = strict_cidr(&format!("{}/0", parts[0]))?;
    let mut why = "strict";
    if parts.len() > 2 {
        why = "extra_parts";
    }
    let mut m = parts[1];
    if m.len() > 1 && m.starts_with('+') {
        m = &m[1..];
        why = "plus_sign";
    }
    if m.is_empty() || !m.bytes().all(|b| b.is_ascii_digit()) {
        return None;
    }
    if m.len() > 1 && m.starts_with('0') && why == "strict" {
        why = "len_leading_zeros";
    }
    let t = m.trim_start_matches('0');
    let v: u64 = if t.is_empty() { 0 } else if t.len() > 10 { return None } else { t.parse().ok()? };
    if v > u32::MAX as u64 {
        return None;
    }
    if v > 32 {
        why = "len_gt_32";
    }
    Some((ip, o_len(v), why))
}

/// Which key a CIDR string stands for in the shadow map.  Text that denotes a network (strict
/// grammar) is decided by the oracle alone; for any other text the property is silent, so the
/// shadow follows what the implementation did with it (accepted as which network / rejected) and
/// only classifies it against the recorded leniency.
fn text_key(s: &str) -> (Option<(u32, u32)>, &'static str) {
    if let Some((a, l)) = strict_cidr(s) {
        return (Some((o_id(a, l), l)), "strict");
    }
    match catch(|| Ipv4Net::from_cidr(s).ok()) {
        Ok(Some(n)) => {
            let key = (n.id().to_u32(), n.mask().count_ones());
            match lenient_cidr(s) {
                Some((a, l, why)) if (o_id(a, l), l) == key => (Some(key), why),
                _ => (Some(key), "unrecorded"),
            }
        }
        _ => (None, "rejected"),
    }
}

// ---------------------------------------------------------------- executor
pub struct Exec {
    table: IpTable<u32>,
    shadow: HashMap<(u32, u32), u32>,
    saw_nested_lookup: bool,
    saw_replace_or_remove: bool,
}

fn ip(a: u32) -> Ipv4Address {
    Ipv4Address::from(a)
}

fn show_opt(v: Option<u32>) -> String {
    v.map(|x| x.to_string()).unwrap_or_else(|| "-".into())
}

fn show_net(n: &Ipv4Net) -> String {
    format!("{}/{}", n.id().to_u32(), n.mask().count_ones())
}

fn dump(t: &IpTable<u32>) -> String {
    let v: Vec<String> = t.iter().map(|(n, v)| format!("{}={}", show_net(&n), v)).collect();
    if v.is_empty() {
        "-".into()
    } else {
        v.join(",")
    }
}

fn panic_text(p: &PanicInfo) -> String {
    let text = source_line_text(&p.file, p.line);
    if p.file.ends_with("ip_table.rs") && text.contains(".expect(\"CIDR string formatted incorrectly\")") {
        "panic:expect:remove_cidr".into()
    } else {
        format!("panic:other:{}:{}", p.file.rsplit('/').next().unwrap_or(""), text.replace(' ', "_"))
    }
}

fn panic_ident(p: &PanicInfo) -> String {
    format!("panic {} {}", p.file.rsplit('/').next().unwrap_or(""), source_line_text(&p.file, p.line))
}

fn parse_net_tok(s: &str) -> Option<(u32, u64)> {
    let (a, l) = s.split_once('/')?;
    Some((a.parse().ok()?, l.parse().ok()?))
}

fn cidr_line(s: &str) -> String {
    match (cidr_to_ip(s), Ipv4Net::from_cidr(s)) {
        (Ok((a, m)), Ok(n)) => format!("ok {} {} {}", a.to_u32(), m.to_u32(), show_net(&n)),
        (Err(CidrParseError::Ipv4), Err(_)) => "err ipv4".into(),
        (Err(CidrParseError::Mask(_)), Err(_)) => "err mask".into(),
        _ => "err inconsistent".into(),
    }
}

impl Exec {
    pub fn new() -> Self {
        Exec { table: IpTable::new(), shadow: HashMap::new(), saw_nested_lookup: false, saw_replace_or_remove: false }
    }

    fn o_lpm(&self, a: u32) -> (Option<u32>, usize) {
        let mut best: Option<(u32, u32)> = None;
        let mut n = 0;
        for (&(id, len), &v) in self.shadow.iter() {
            if o_contains(id, len, a) {
                n += 1;
                if best.map(|(l, _)| len > l).unwrap_or(true) {
                    best = Some((len, v));
                }
            }
        }
        (best.map(|b| b.1), n)
    }

    /// the table must iterate as the abstract map sorted by (len descending, id ascending)
    fn check_table(&mut self, line: &str, op: &str, out: &mut Out) {
        let mut exp: Vec<((u32, u32), u32)> = self.shadow.iter().map(|(k, v)| (*k, *v)).collect();
        exp.sort_by(|a, b| b.0 .1.cmp(&a.0 .1).then(a.0 .0.cmp(&b.0 .0)));
        let got: Vec<((u32, u32), u32)> = self.table.iter().map(|(n, v)| ((n.id().to_u32(), n.mask().count_ones()), v)).collect();
        if exp != got {
            out.fail(
                &format!("after `{}` the table iterates as {:?} but the ops so far denote {:?} (id,len)->value in (len desc, id asc) order", line, got, exp),
                &format!("table-content {}", op),
            );
            // resynchronise
            self.shadow = got.into_iter().collect();
        }
    }

    /// order independence through the public constructors: the final content, re-inserted in
    /// reverse order through each `FromIterator` form, must give an equal table (`==`, same
    /// iteration order, same lookups at every key boundary)
    pub fn check_collect(&mut self, out: &mut Out) {
        let entries: Vec<(Ipv4Net, u32)> = self.table.iter().collect();
        let rev: Vec<(Ipv4Net, u32)> = entries.iter().rev().cloned().collect();
        let texts: Vec<(String, u32)> = rev.iter().map(|(n, v)| (format!("{}/{}", n.id(), n.mask().count_ones()), *v)).collect();
        let r = catch(|| {
            let a: IpTable<u32> = rev.iter().cloned().collect();
            let b: IpTable<u32> = rev.iter().map(|(n, v)| ((n.id(), n.mask()), *v)).collect();
            let c: IpTable<u32> = texts.iter().map(|(s, v)| (s.as_str(), *v)).collect();
            // duplicates first: a stale value added earlier must be replaced
            let mut d: IpTable<u32> = IpTable::new();
            for (n, v) in rev.iter() {
                d.add(*n, v.wrapping_add(1));
            }
            for (n, v) in entries.iter() {
                d.add(*n, *v);
            }
            (a, b, c, d)
        });
        match r {
            Ok((a, b, c, d)) => {
                out.count("collect.checked");
                for (name, t) in [("(Ipv4Net, T)", &a), ("((Ipv4Address, Ipv4Mask), T)", &b), ("(&str, T)", &c), ("add twice", &d)] {
                    let same_iter = t.iter().collect::<Vec<_>>() == entries;
                    if *t != self.table || !same_iter {
                        out.fail(&format!("re-inserting the table's {} entries in reverse order via {} gives a different table: {} vs {}", entries.len(), name, dump(t), dump(&self.table)), "order-dependence");
                    }
                }
            }
            Err(p) => out.fail(&format!("collecting into an IpTable panicked: {}", p.msg), &panic_ident(&p)),
        }
    }

    pub fn apply(&mut self, line: &str, out: &mut Out) {
        let w: Vec<&str> = line.split_whitespace().collect();
        let u = |s: &str| -> Option<u32> { s.parse::<u32>().ok() };
        let l64 = |s: &str| -> Option<u64> { s.parse::<u64>().ok() };
        let real_len = |l: u64| -> u32 { l.min(u32::MAX as u64) as u32 };
        if w.is_empty() {
            return out.line(line, "bad-op");
        }
        out.count(&format!("op.{}", w[0]));
        match w.as_slice() {
            ["add", _, _, _] | ["remove", _, _] => {
                let is_add = w[0] == "add";
                let (Some(a), Some(l)) = (u(w[1]), l64(w[2])) else { return out.line(line, "bad-op") };
                if l > u32::MAX as u64 {
                    return out.line(line, "bad-op");
                }
                let val = if is_add {
                    match u(w[3]) {
                        Some(v) => v,
                        None => return out.line(line, "bad-op"),
                    }
                } else {
                    0
                };
                let t = &mut self.table;
                let r = catch(|| {
                    let net = Ipv4Net::new(ip(a), Ipv4Mask::from_bitcount(real_len(l)));
                    if is_add {
                        t.add(net, val)
                    } else {
                        t.remove(net)
                    }
                });
                match r {
                    Ok(old) => {
                        out.line(line, &format!("ok old={} iter={}", show_opt(old), dump(&self.table)));
                        let key = (o_id(a, o_len(l)), o_len(l));
                        let exp_old = if is_add { self.shadow.insert(key, val) } else { self.shadow.remove(&key) };
                        if old.is_some() {
                            self.saw_replace_or_remove = true;
                            out.count(if is_add { "add.replaced" } else { "remove.hit" });
                        }
                        if exp_old != old {
                            out.fail(&format!("`{}` returned old value {:?}, the map denoted by the history holds {:?}", line, old, exp_old), &format!("old-value {}", w[0]));
                        }
                        self.check_table(line, w[0], out);
                    }
                    Err(p) => {
                        out.line(line, &format!("err {} iter={}", panic_text(&p), dump(&self.table)));
                        out.fail(&format!("`{}` panicked: {}", line, p.msg), &panic_ident(&p));
                    }
                }
            }
            ["add1", a, v] | ["add_direct", a, v] => {
                let (Some(a), Some(val)) = (u(a), u(v)) else { return out.line(line, "bad-op") };
                let t = &mut self.table;
                let direct = w[0] == "add_direct";
                let r = catch(|| {
                    if direct {
                        t.add_direct(ip(a), val);
                        None
                    } else {
                        Some(t.add(Ipv4Net::new_1(ip(a)), val))
                    }
                });
                match r {
                    Ok(old) => {
                        let exp_old = self.shadow.insert((a, 32), val);
                        if exp_old.is_some() {
                            self.saw_replace_or_remove = true;
                        }
                        match old {
                            Some(old) => {
                                out.line(line, &format!("ok old={} iter={}", show_opt(old), dump(&self.table)));
                                if old != exp_old {
                                    out.fail(&format!("`{}` returned old value {:?}, expected {:?}", line, old, exp_old), "old-value add1");
                                }
                            }
                            None => out.line(line, &format!("ok iter={}", dump(&self.table))),
                        }
                        self.check_table(line, w[0], out);
                    }
                    Err(p) => {
                        out.line(line, &format!("err {} iter={}", panic_text(&p), dump(&self.table)));
                        out.fail(&format!("`{}` panicked: {}", line, p.msg), &panic_ident(&p));
                    }
                }
            }
            ["remove_direct", a] => {
                let Some(a) = u(a) else { return out.line(line, "bad-op") };
                let t = &mut self.table;
                match catch(|| t.remove_direct(ip(a))) {
                    Ok(old) => {
                        out.line(line, &format!("ok old={} iter={}", show_opt(old), dump(&self.table)));
                        let exp_old = self.shadow.remove(&(a, 32));
                        if old.is_some() {
                            self.saw_replace_or_remove = true;
                        }
                        if old != exp_old {
                            out.fail(&format!("`{}` returned old value {:?}, expected {:?}", line, old, exp_old), "old-value remove_direct");
                        }
                        self.check_table(line, w[0], out);
                    }
                    Err(p) => {
                        out.line(line, &format!("err {} iter={}", panic_text(&p), dump(&self.table)));
                        out.fail(&format!("`{}` panicked: {}", line, p.msg), &panic_ident(&p));
                    }
                }
            }
            ["add_cidr", h, v] => {
                let Some(val) = u(v) else { return out.line(line, "bad-op") };
                let s = String::from_utf8_lossy(&unhex(h)).to_string();
                let t = &mut self.table;
                match catch(|| t.add_cidr(&s, val)) {
                    Ok(()) => {
                        out.line(line, &format!("ok iter={}", dump(&self.table)));
                        match text_key(&s) {
                            (Some(key), why) => {
                                out.count(&format!("add_cidr.accepted.{}", why));
                                if self.shadow.insert(key, val).is_some() {
                                    self.saw_replace_or_remove = true;
                                }
                            }
                            (None, _) => out.count("add_cidr.ignored_malformed"),
                        }
                        self.check_table(line, w[0], out);
                    }
                    Err(p) => {
                        out.line(line, &format!("err {} iter={}", panic_text(&p), dump(&self.table)));
                        out.fail(&format!("`{}` ({:?}) panicked: {}", line, s, p.msg), &panic_ident(&p));
                    }
                }
            }
            ["remove_cidr", h] => {
                let s = String::from_utf8_lossy(&unhex(h)).to_string();
                let t = &mut self.table;
                let r = catch(|| t.remove_cidr(&s));
                let expect = text_key(&s);
                match r {
                    Ok(()) => {
                        out.line(line, &format!("ok iter={}", dump(&self.table)));
                        match expect {
                            (Some(key), _) => {
                                if self.shadow.remove(&key).is_some() {
                                    self.saw_replace_or_remove = true;
                                    out.count("remove_cidr.hit");
                                }
                            }
                            // not a matter of this property (the documented panic is part of the model / correspondence only)
                            (None, _) => out.count("remove_cidr.malformed_without_panic"),
                        }
                        self.check_table(line, w[0], out);
                    }
                    Err(p) => {
                        let pt = panic_text(&p);
                        out.line(line, &format!("err {} iter={}", pt, dump(&self.table)));
                        out.count(&format!("err.{}", pt));
                        // documented: "Panics if notation is invalid"
                        if pt != "panic:expect:remove_cidr" || strict_cidr(&s).is_some() {
                            out.fail(&format!("`{}` ({:?}) panicked: {}", line, s, p.msg), &panic_ident(&p));
                        }
                        self.check_table(line, w[0], out);
                    }
                }
            }
            ["gateway", v] => {
                let Some(val) = u(v) else { return out.line(line, "bad-op") };
                match catch(|| IpTable::default_gateway(val)) {
                    Ok(t) => {
                        self.table = t;
                        self.shadow.clear();
                        self.shadow.insert((0, 0), val);
                        out.line(line, &format!("ok iter={}", dump(&self.table)));
                        self.check_table(line, w[0], out);
                    }
                    Err(p) => {
                        out.line(line, &format!("err {} iter={}", panic_text(&p), dump(&self.table)));
                        out.fail(&format!("`{}` panicked: {}", line, p.msg), &panic_ident(&p));
                    }
                }
            }
            ["gets", rest @ ..] => {
                let Some(addrs) = rest.iter().map(|s| u(s)).collect::<Option<Vec<u32>>>() else { return out.line(line, "bad-op") };
                let t = &self.table;
                match catch(|| addrs.iter().map(|a| t.get_recipient(ip(*a))).collect::<Vec<_>>()) {
                    Ok(rs) => {
                        out.line(line, &rs.iter().map(|r| show_opt(*r)).collect::<Vec<_>>().join(" "));
                        for (a, r) in addrs.iter().zip(rs.iter()) {
                            let (exp, ncontaining) = self.o_lpm(*a);
                            out.count(&format!("lookup.containing.{}", ncontaining.min(4)));
                            if ncontaining >= 2 {
                                self.saw_nested_lookup = true;
                            }
                            if exp != *r {
                                let mut keys: Vec<_> = self.shadow.iter().filter(|(k, _)| o_contains(k.0, k.1, *a)).map(|(k, v)| format!("{}/{}={}", ip(k.0), k.1, v)).collect();
                                keys.sort();
                                out.fail(
                                    &format!("get_recipient({}) = {:?} but the most specific of the networks containing it [{}] gives {:?}", ip(*a), r, keys.join(", "), exp),
                                    "lookup-not-longest-prefix",
                                );
                            }
                        }
                    }
                    Err(p) => {
                        out.line(line, &format!("err {}", panic_text(&p)));
                        out.fail(&format!("`{}` panicked: {}", line, p.msg), &panic_ident(&p));
                    }
                }
            }
            ["net", a, l] => {
                let (Some(a), Some(l)) = (u(a), l64(l)) else { return out.line(line, "bad-op") };
                if l > u32::MAX as u64 {
                    return out.line(line, "bad-op");
                }
                let r = catch(|| {
                    let n = Ipv4Net::new_short(ip(a), real_len(l));
                    let bc = catch(|| n.broadcast());
                    (n, bc)
                });
                match r {
                    Ok((n, bc)) => {
                        let bcs = match &bc {
                            Ok(b) => b.to_u32().to_string(),
                            Err(_) => "panic:add-overflow:broadcast".into(),
                        };
                        out.line(
                            line,
                            &format!("id={} len={} bits={} bc={} ips={} usable={}", n.id().to_u32(), n.mask().count_ones(), n.mask().to_u32(), bcs, n.mask().ips_in_net(), n.mask().usable_ips()),
                        );
                        let len = o_len(l);
                        let id = o_id(a, len);
                        let size = o_size(len);
                        let mut bad = vec![];
                        if n.id().to_u32() != id {
                            bad.push(format!("id {} != {}", n.id(), ip(id)));
                        }
                        if n.mask().count_ones() != len || n.mask().to_u32() != o_bits(len) || u32::from(n.mask()) != o_bits(len) {
                            bad.push(format!("mask {:#x} != {:#x}", n.mask().to_u32(), o_bits(len)));
                        }
                        match &bc {
                            Ok(b) if b.to_u32() == o_last(id, len) => {
                                if n.range() != (ip(id)..=ip(o_last(id, len))) {
                                    bad.push("range() is not id..=broadcast".into());
                                }
                            }
                            Ok(b) => bad.push(format!("broadcast {} != {}", b, ip(o_last(id, len)))),
                            Err(p) => {
                                out.fail(&format!("broadcast of {}/{} panicked: {}", ip(a), l, p.msg), &panic_ident(p));
                            }
                        }
                        if n.mask().ips_in_net() != size || n.mask().usable_ips() as u64 != size.saturating_sub(2) {
                            bad.push(format!("ips_in_net {} usable {} for size {}", n.mask().ips_in_net(), n.mask().usable_ips(), size));
                        }
                        let m = Ipv4Mask::from_bitcount(real_len(l));
                        if Ipv4Net::new(ip(a), m) != n || Ipv4Net::from((ip(a), m)) != n || <(Ipv4Address, Ipv4Mask)>::from(n) != (ip(id), m) || Ipv4Address::from(m) != ip(o_bits(len)) || m.to_ipv4_address() != ip(o_bits(len)) {
                            bad.push("constructors/conversions disagree".into());
                        }
                        if len == 32 && Ipv4Net::new_1(ip(a)) != n {
                            bad.push("new_1 differs from new(ip, /32)".into());
                        }
                        if !bad.is_empty() {
                            out.fail(&format!("network {}/{}: {}", ip(a), l, bad.join("; ")), "net-arithmetic");
                        }
                    }
                    Err(p) => {
                        out.line(line, &format!("err {}", panic_text(&p)));
                        out.fail(&format!("`{}` panicked: {}", line, p.msg), &panic_ident(&p));
                    }
                }
            }
            ["contains", n, rest @ ..] => {
                let (Some((a, l)), Some(addrs)) = (parse_net_tok(n), rest.iter().map(|s| u(s)).collect::<Option<Vec<u32>>>()) else { return out.line(line, "bad-op") };
                match catch(|| {
                    let net = Ipv4Net::new(ip(a), Ipv4Mask::from_bitcount(real_len(l)));
                    addrs.iter().map(|x| net.contains(ip(*x))).collect::<Vec<bool>>()
                }) {
                    Ok(rs) => {
                        out.line(line, &rs.iter().map(|b| if *b { '1' } else { '0' }).collect::<String>());
                        let len = o_len(l);
                        let id = o_id(a, len);
                        for (x, r) in addrs.iter().zip(rs.iter()) {
                            if o_contains(id, len, *x) != *r {
                                out.fail(&format!("{}/{} contains({}) = {} but its range is {}..={}", ip(a), len, ip(*x), r, ip(id), ip(o_last(id, len))), "contains-vs-range");
                            }
                        }
                    }
                    Err(p) => {
                        out.line(line, &format!("err {}", panic_text(&p)));
                        out.fail(&format!("`{}` panicked: {}", line, p.msg), &panic_ident(&p));
                    }
                }
            }
            ["ovl", rest @ ..] => {
                let Some(nets) = rest.iter().map(|s| parse_net_tok(s)).collect::<Option<Vec<(u32, u64)>>>() else { return out.line(line, "bad-op") };
                let real: Vec<Ipv4Net> = nets.iter().map(|(a, l)| Ipv4Net::new(ip(*a), Ipv4Mask::from_bitcount(real_len(*l)))).collect();
                let mut rows = vec![];
                for (i, x) in real.iter().enumerate() {
                    let mut row = String::new();
                    for (j, y) in real.iter().enumerate() {
                        match catch(|| x.overlaps(*y)) {
                            Ok(r) => {
                                row.push(if r { '1' } else { '0' });
                                let (li, lj) = (o_len(nets[i].1), o_len(nets[j].1));
                                let (a0, b0) = (o_id(nets[i].0, li), o_id(nets[j].0, lj));
                                let (a1, b1) = (o_last(a0, li), o_last(b0, lj));
                                let exp = a0.max(b0) <= a1.min(b1);
                                out.count(if exp { "overlaps.true" } else { "overlaps.false" });
                                if exp != r {
                                    out.fail(&format!("{}/{} overlaps {}/{} = {} but ranges {}..={} and {}..={} {}", ip(a0), li, ip(b0), lj, r, ip(a0), ip(a1), ip(b0), ip(b1), if exp { "intersect" } else { "are disjoint" }), "overlaps-vs-ranges");
                                }
                            }
                            Err(p) => {
                                row.push('P');
                                out.fail(&format!("overlaps panicked: {}", p.msg), &panic_ident(&p));
                            }
                        }
                    }
                    rows.push(row);
                }
                out.line(line, &rows.join(" "));
            }
            ["range", s, e] => {
                let (Some(s), Some(e)) = (u(s), u(e)) else { return out.line(line, "bad-op") };
                match catch(|| Ipv4Net::try_from(ip(s)..=ip(e))) {
                    Ok(r) => {
                        let txt = match &r {
                            Ok(n) => format!("ok {}", show_net(n)),
                            Err(TryFromRangeError::Empty) => "err empty".into(),
                            Err(TryFromRangeError::Size) => "err size".into(),
                            Err(TryFromRangeError::Start) => "err start".into(),
                        };
                        out.line(line, &txt);
                        let size = e as u64 + 1 - (s as u64).min(e as u64 + 1);
                        let exp = if s > e {
                            "err empty".to_string()
                        } else if !size.is_power_of_two() {
                            "err size".into()
                        } else if s as u64 % size != 0 {
                            "err start".into()
                        } else {
                            format!("ok {}/{}", s, 32 - size.trailing_zeros())
                        };
                        out.count(&format!("range.{}", if exp.starts_with("ok") { "ok" } else { &exp[4..] }));
                        if exp != txt {
                            out.fail(&format!("range {}..={} converts to `{}`; as an aligned power-of-two block test it should be `{}`", ip(s), ip(e), txt, exp), "range-conversion");
                        }
                        if let Ok(n) = r {
                            if n.range() != (ip(s)..=ip(e)) {
                                out.fail(&format!("range {}..={} converted to {:?} whose range() differs", ip(s), ip(e), n), "range-roundtrip");
                            }
                        }
                    }
                    Err(p) => {
                        out.line(line, &format!("err {}", panic_text(&p)));
                        out.fail(&format!("`{}` panicked: {}", line, p.msg), &panic_ident(&p));
                    }
                }
            }
            ["mask", m] => {
                let Some(m) = u(m) else { return out.line(line, "bad-op") };
                match catch(|| (Ipv4Mask::try_from(m), Ipv4Mask::try_from(ip(m)))) {
                    Ok((r, r2)) => {
                        let txt = match &r {
                            Ok(k) => format!("ok {} {}", k.count_ones(), k.to_u32()),
                            Err(x) => format!("err {}", x),
                        };
                        out.line(line, &txt);
                        let valid = m.leading_ones() + m.trailing_zeros() == 32;
                        out.count(if valid { "mask.valid" } else { "mask.invalid" });
                        let exp = if valid { format!("ok {} {}", m.leading_ones(), m) } else { format!("err {}", m) };
                        let agree = match (&r, &r2) {
                            (Ok(a), Ok(b)) => a == b,
                            (Err(_), Err(b)) => *b == ip(m),
                            _ => false,
                        };
                        if exp != txt || !agree {
                            out.fail(&format!("Ipv4Mask::try_from({:#010x}) = `{}` (address form agrees: {}), expected `{}`", m, txt, agree, exp), "mask-try-from");
                        }
                    }
                    Err(p) => {
                        out.line(line, &format!("err {}", panic_text(&p)));
                        out.fail(&format!("`{}` panicked: {}", line, p.msg), &panic_ident(&p));
                    }
                }
            }
            ["bitcount", n] => {
                let Some(n) = l64(n).filter(|x| *x <= u32::MAX as u64) else { return out.line(line, "bad-op") };
                match catch(|| Ipv4Mask::from_bitcount(n as u32)) {
                    Ok(m) => {
                        out.line(line, &format!("{} {}", m.to_u32(), m.count_ones()));
                        if m.to_u32() != o_bits(o_len(n)) || m.count_ones() != o_len(n) {
                            out.fail(&format!("from_bitcount({}) = {:#010x} with {} ones", n, m.to_u32(), m.count_ones()), "from-bitcount");
                        }
                    }
                    Err(p) => {
                        out.line(line, &format!("err {}", panic_text(&p)));
                        out.fail(&format!("from_bitcount({}) panicked: {}", n, p.msg), &panic_ident(&p));
                    }
                }
            }
            ["cidr", h] => {
                let s = String::from_utf8_lossy(&unhex(h)).to_string();
                match catch(|| cidr_line(&s)) {
                    Ok(txt) => {
                        out.line(line, &txt);
                        let strict = strict_cidr(&s);
                        let lenient = lenient_cidr(&s);
                        if let Some((a, l)) = strict {
                            out.count("cidr.strict_valid");
                            let exp = format!("ok {} {} {}/{}", a, o_bits(l), o_id(a, l), l);
                            if txt != exp {
                                out.fail(&format!("CIDR text {:?} denotes {}/{} but parses as `{}` (expected `{}`)", s, ip(a), l, txt, exp), "cidr-denotation");
                            }
                        } else if txt.starts_with("ok") {
                            // text that denotes no network: the property is silent; classify against the recorded leniency
                            match lenient {
                                Some((a, l, why)) if txt == format!("ok {} {} {}/{}", a, o_bits(l), o_id(a, l), l) => out.count(&format!("cidr.lenient_accept.{}", why)),
                                _ => out.count("cidr.lenient_accept.unrecorded"),
                            }
                        } else {
                            out.count(&format!("cidr.rejected.{}", &txt[4..]));
                        }
                    }
                    Err(p) => {
                        out.line(line, &format!("err {}", panic_text(&p)));
                        out.fail(&format!("cidr_to_ip({:?}) panicked: {}", s, p.msg), &panic_ident(&p));
                    }
                }
            }
            ["render", a, l] => {
                let (Some(a), Some(l)) = (u(a), l64(l).filter(|x| *x <= u32::MAX as u64)) else { return out.line(line, "bad-op") };
                match catch(|| {
                    let n = Ipv4Net::new_short(ip(a), l as u32);
                    let s = format!("{}/{}", n.id(), n.mask().count_ones());
                    let back = Ipv4Net::from_cidr(&s).ok();
                    let dbg = format!("{:?}", n);
                    (n, s.clone(), cidr_line(&s), back, dbg)
                }) {
                    Ok((n, s, parsed, back, dbg)) => {
                        out.line(line, &format!("{} {}", hex(s.as_bytes()), parsed));
                        let len = o_len(l);
                        let b = o_id(a, len).to_be_bytes();
                        let exp = format!("{}.{}.{}.{}/{}", b[0], b[1], b[2], b[3], len);
                        if s != exp || dbg != format!("Ipv4Net {{{}}}", exp) {
                            out.fail(&format!("network {}/{} renders as {:?} / {:?}, expected {:?}", ip(a), l, s, dbg, exp), "cidr-render");
                        }
                        if back != Some(n) {
                            out.fail(&format!("rendering {:?} of {:?} parses back to {:?}", s, n, back), "cidr-roundtrip");
                        }
                    }
                    Err(p) => {
                        out.line(line, &format!("err {}", panic_text(&p)));
                        out.fail(&format!("`{}` panicked: {}", line, p.msg), &panic_ident(&p));
                    }
                }
            }
            _ => out.line(line, "bad-op"),
        }
    }
}

// ---------------------------------------------------------------- generators
fn biased_len(rng: &mut Rng) -> u64 {
    if rng.chance(1, 2) {
        *rng.pick(&[0u64, 1, 2, 7, 8, 9, 15, 16, 17, 23, 24, 25, 30, 31, 32])
    } else {
        rng.range(0, 32)
    }
}

fn biased_addr(rng: &mut Rng) -> u32 {
    match rng.below(8) {
        0 => *rng.pick(&[0u32, 1, 0xFFFF_FFFF, 0xFFFF_FFFE, 0x8000_0000, 0x7FFF_FFFF, 0x7F00_0001, 0x0A00_0000, 0xC0A8_0101]),
        1 => (rng.next() as u32) & 0xFFFF_FF00,
        2 => (rng.next() as u32) | 0x0000_00FF,
        _ => rng.next() as u32,
    }
}

fn hexs(s: &str) -> String {
    hex(s.as_bytes())
}

fn cidr_text(a: u32, l: u64) -> String {
    let b = a.to_be_bytes();
    format!("{}.{}.{}.{}/{}", b[0], b[1], b[2], b[3], l)
}

fn malformed_cidr(rng: &mut Rng, a: u32, l: u64) -> String {
    let good = cidr_text(a, l);
    let b = a.to_be_bytes();
    match rng.below(16) {
        0 => {
            let mut c: Vec<char> = good.chars().collect();
            let i = rng.below(c.len() as u64) as usize;
            c.remove(i);
            c.into_iter().collect()
        }
        1 | 2 => {
            let mut c: Vec<char> = good.chars().collect();
            let i = rng.below(c.len() as u64 + 1) as usize;
            c.insert(i, *rng.pick(&[' ', '+', '-', '/', '.', '0', 'a', ':', '%', '\u{e9}', '\u{ff11}', '9']));
            c.into_iter().collect()
        }
        3 => good.replace('/', *rng.pick(&["", " ", "\\", "//", "/ ", "/+", "/-", "/0", "/00"])),
        4 => format!("{}.{}.{}.{}/{}", b[0], b[1], *rng.pick(&["256", "300", "999", "1000", "01", "00", "", "-1", "+1"]), b[3], l),
        5 => format!("{}.{}.{}.0{}/{}", b[0], b[1], b[2], b[3], l),
        6 => format!("{}.{}.{}.{}/{}", b[0], b[1], b[2], b[3], *rng.pick(&["33", "032", "+24", "-1", "4294967295", "4294967296", "99999999999", "", " 24", "24 ", "2x", "+", "-", "++1", "+0", "000", "0x10", "٣"])),
        7 => format!("{}{}", good, *rng.pick(&["/5", "/", "/xyz", "/33/", "//", "/ "])),
        8 => format!("{}.{}.{}.{}", b[0], b[1], b[2], b[3]),
        9 => (*rng.pick(&["", "/", "//", "1.2.3/8", "1.2.3.4.5/8", "1.2.3.4./8", ".1.2.3.4/8", "1..2.3/8", "/8", "a.b.c.d/8", "1.2.3.4/", "001.002.003.004/8", "255.255.255.255/32", "255.255.255.2555/8", "0255.255.255.255/8", "255.255.255.255 /8", "1.2.3.4/8/9", "1.2.3.4/+8", "0.0.0.0/0", "0.0.0.0/00"])).to_string(),
        10 => format!("{}/{}", b[0], l),
        11 => format!("{}.{}.{}.{}/{}", b[0], b[1], b[2], b[3], rng.range(33, 300)),
        12 => format!(" {}", good),
        13 => format!("{}.{}.{}.{}\u{ff0f}{}", b[0], b[1], b[2], b[3], l),
        14 => format!("{}.{}.{}.{}/{}", b[0], b[1], b[2], b[3], rng.next()),
        _ => good.to_uppercase().replace('.', ","),
    }
}

struct Pool {
    nets: Vec<(u32, u64)>,
}

fn boundaries(a: u32, l: u64) -> [u32; 4] {
    let len = o_len(l);
    let id = o_id(a, len);
    let bc = o_last(id, len);
    [id.wrapping_sub(1), id, bc, bc.wrapping_add(1)]
}

fn make_pool(rng: &mut Rng) -> Pool {
    let base = biased_addr(rng);
    let mut nets: Vec<(u32, u64)> = vec![];
    let chain = rng.range(2, 5);
    let mut lens: Vec<u64> = vec![];
    for _ in 0..chain {
        let l = biased_len(rng);
        lens.push(l);
        if rng.chance(1, 3) {
            lens.push(if l < 32 { l + 1 } else { l - 1 });
        }
    }
    for &l in &lens {
        nets.push((base, l)); // nested chain around `base`
        if l >= 1 && rng.chance(1, 2) {
            nets.push((base ^ (1u32 << (32 - l)), l)); // the adjacent block of the same size
        }
        if rng.chance(1, 4) {
            nets.push((o_id(base, o_len(l)) | ((rng.next() as u32) & !o_bits(o_len(l))), l)); // same net, other host bits
        }
    }
    for _ in 0..rng.below(3) {
        nets.push((biased_addr(rng), biased_len(rng)));
    }
    if rng.chance(1, 10) {
        nets.push((base, rng.range(33, 40)));
    }
    Pool { nets }
}

fn lookup_line(rng: &mut Rng, pool: &Pool, all: bool) -> Vec<String> {
    let mut addrs: Vec<u32> = vec![];
    for &(a, l) in &pool.nets {
        if all || rng.chance(1, 3) {
            addrs.extend_from_slice(&boundaries(a, l));
        }
    }
    addrs.push(pool.nets[0].0);
    for _ in 0..3 {
        addrs.push(rng.next() as u32);
    }
    addrs.chunks(24).map(|c| format!("gets {}", c.iter().map(|a| a.to_string()).collect::<Vec<_>>().join(" "))).collect()
}

fn gen_case(rng: &mut Rng, nops: u64) -> Vec<String> {
    let pool = make_pool(rng);
    let mut lines: Vec<String> = vec![];
    if rng.chance(1, 25) {
        lines.push(format!("gateway {}", rng.below(1000)));
    }
    let n = rng.range(nops / 3, nops);
    for _ in 0..n {
        let &(a0, l) = rng.pick(&pool.nets);
        // spell the same network with arbitrary host bits half of the time
        let a = if rng.chance(1, 2) { a0 } else { o_id(a0, o_len(l)) | ((rng.next() as u32) & !o_bits(o_len(l))) };
        let v = rng.below(1000);
        let bnd = boundaries(a0, l);
        match rng.below(100) {
            0..=47 => lines.push(format!("add {} {} {}", a, l, v)),
            48..=60 => lines.push(format!("remove {} {}", a, l)),
            61..=67 => lines.push(format!("add_direct {} {}", rng.pick(&[bnd[1], bnd[2], a0, a]), v)),
            68..=71 => lines.push(format!("remove_direct {}", rng.pick(&[bnd[1], bnd[2], a0, a]))),
            72..=73 => lines.push(format!("add1 {} {}", rng.pick(&[bnd[1], bnd[2], a0]), v)),
            74..=84 => {
                let s = if rng.chance(5, 6) { cidr_text(a, l) } else { malformed_cidr(rng, a, l) };
                lines.push(format!("add_cidr {} {}", hexs(&s), v));
            }
            85..=91 => {
                let s = if rng.chance(9, 10) { cidr_text(a, l) } else { malformed_cidr(rng, a, l) };
                lines.push(format!("remove_cidr {}", hexs(&s)));
            }
            _ => lines.extend(lookup_line(rng, &pool, false)),
        }
    }
    lines.extend(lookup_line(rng, &pool, true));
    // all pairs
    let mut distinct: Vec<(u32, u64)> = vec![];
    for &(a, l) in &pool.nets {
        if !distinct.iter().any(|&(b, m)| o_len(l) == o_len(m) && o_id(a, o_len(l)) == o_id(b, o_len(m))) && distinct.len() < 10 {
            distinct.push((a, l));
        }
    }
    lines.push(format!("ovl {}", distinct.iter().map(|(a, l)| format!("{}/{}", a, l)).collect::<Vec<_>>().join(" ")));
    for _ in 0..2 {
        let &(a, l) = rng.pick(&pool.nets);
        let mut xs: Vec<u32> = boundaries(a, l).to_vec();
        xs.push(a);
        xs.push(rng.next() as u32);
        lines.push(format!("contains {}/{} {}", a, l, xs.iter().map(|x| x.to_string()).collect::<Vec<_>>().join(" ")));
        lines.push(format!("net {} {}", a, if rng.chance(1, 12) { *rng.pick(&[33u64, 34, 64, 255, 4294967295]) } else { l }));
    }
    // range conversions around aligned blocks
    for _ in 0..4 {
        let &(a, l) = rng.pick(&pool.nets);
        let [idm1, id, bc, bcp1] = boundaries(a, l);
        let half = (o_size(o_len(l)) / 2) as u32;
        let (s, e) = match rng.below(12) {
            0 | 1 | 2 => (id, bc),
            3 => (id.wrapping_add(1), bc),
            4 => (id, bc.wrapping_sub(1)),
            5 => (id, bcp1),
            6 => (idm1, bc),
            7 => (id.wrapping_add(half), bc.wrapping_add(half)),
            8 => (bc, id),
            9 => (rng.next() as u32, 0xFFFF_FFFF),
            10 => (0, rng.next() as u32),
            _ => (rng.next() as u32, rng.next() as u32),
        };
        lines.push(format!("range {} {}", s, e));
    }
    for _ in 0..2 {
        let l = o_len(biased_len(rng));
        let m = match rng.below(4) {
            0 => o_bits(l),
            1 => o_bits(l) ^ (1u32 << rng.below(32)),
            2 => !o_bits(l),
            _ => rng.next() as u32,
        };
        lines.push(format!("mask {}", m));
    }
    lines.push(format!("bitcount {}", if rng.chance(1, 6) { *rng.pick(&[33u64, 34, 100, 4294967295, 2147483648]) } else { rng.range(0, 32) }));
    for _ in 0..3 {
        let &(a, l) = rng.pick(&pool.nets);
        let s = if rng.chance(1, 3) { cidr_text(a, l.min(32)) } else { malformed_cidr(rng, a, l.min(32)) };
        lines.push(format!("cidr {}", hexs(&s)));
    }
    let &(a, l) = rng.pick(&pool.nets);
    lines.push(format!("render {} {}", a, l));
    lines
}

/// every mask length x boundary addresses: one small table per (len, base)
fn grid_case(base: u32, len: u64) -> Vec<String> {
    let mut lines = vec![format!("add {} {} 1", base, len)];
    let mut nets = vec![(base, len)];
    if len > 0 {
        lines.push(format!("add {} {} 2", base, len - 1));
        nets.push((base, len - 1));
        let sib = base ^ (1u32 << (32 - len));
        lines.push(format!("add {} {} 4", sib, len));
        nets.push((sib, len));
    }
    if len < 32 {
        lines.push(format!("add {} {} 3", base, len + 1));
        nets.push((base, len + 1));
    }
    let mut addrs: Vec<u32> = vec![base];
    for &(a, l) in &nets {
        addrs.extend_from_slice(&boundaries(a, l));
    }
    let al = addrs.iter().map(|a| a.to_string()).collect::<Vec<_>>().join(" ");
    lines.push(format!("gets {}", al));
    lines.push(format!("contains {}/{} {}", base, len, al));
    lines.push(format!("net {} {}", base, len));
    lines.push(format!("ovl {}", nets.iter().map(|(a, l)| format!("{}/{}", a, l)).collect::<Vec<_>>().join(" ")));
    let [idm1, id, bc, bcp1] = boundaries(base, len);
    for (s, e) in [(id, bc), (id, bcp1), (idm1, bc), (id.wrapping_add(1), bc), (id, bc.wrapping_sub(1)), (bc, id)] {
        lines.push(format!("range {} {}", s, e));
    }
    lines.push(format!("mask {}", o_bits(o_len(len))));
    lines.push(format!("mask {}", !o_bits(o_len(len))));
    lines.push(format!("bitcount {}", len));
    lines.push(format!("render {} {}", base, len));
    lines.push(format!("cidr {}", hexs(&cidr_text(base, len))));
    lines.push(format!("remove {} {}", base, len));
    lines.push(format!("gets {}", al));
    lines
}

const RULE: &str = "random tables over a pool of nested / adjacent / duplicate-spelled / random networks of all 33 mask lengths (boundary biased), histories of add/remove/add_direct/remove_direct/add1/add_cidr/remove_cidr/default_gateway, lookups at id-1,id,broadcast,broadcast+1 of every pool network plus random addresses, all-pairs overlaps, contains, range conversions around aligned blocks, mask/bitcount/CIDR text incl. malformed; a case is non-trivial if some lookup address was contained in >= 2 present networks and some add replaced or some remove hit an existing key; distinct = hash of its op lines";

pub fn run(args: &Args) {
    let mut out = Out::new(&args.out);
    if let Some(rp) = &args.replay {
        let mut ex = Exec::new();
        out.begin_case(0);
        out.mark_nontrivial();
        for l in read_ops(rp) {
            if l.starts_with("case ") {
                continue;
            }
            ex.apply(&l, &mut out);
        }
        ex.check_collect(&mut out);
        out.end_case();
        out.finish(RULE);
        return;
    }
    let mut rng = Rng::new(args.seed);
    let grid = args.prop.ends_with("-grid");
    let nops: u64 = args.extra.get("ops").and_then(|s| s.parse().ok()).unwrap_or(24);
    let mut c = 0u64;
    let run_case = |lines: Vec<String>, out: &mut Out, c: u64| {
        let mut ex = Exec::new();
        out.begin_case(c);
        for l in &lines {
            ex.apply(l, out);
        }
        ex.check_collect(out);
        if ex.saw_nested_lookup && ex.saw_replace_or_remove {
            out.mark_nontrivial();
        }
        if ex.saw_nested_lookup {
            out.count("case.nested_lookup");
        }
        if ex.saw_replace_or_remove {
            out.count("case.replace_or_remove");
        }
        out.count(&format!("table_size.{}", ex.shadow.len().min(12)));
        out.end_case();
    };
    if grid {
        // `cases` = number of bases per mask length
        let fixed = [0u32, 0xFFFF_FFFF, 0x8000_0000, 0x7FFF_FFFF, 0x0A00_0077, 0xC0A8_01FE];
        for len in 0..=32u64 {
            for k in 0..args.cases {
                let base = if (k as usize) < fixed.len() { fixed[k as usize] } else { rng.next() as u32 };
                run_case(grid_case(base, len), &mut out, c);
                c += 1;
            }
        }
    } else {
        for _ in 0..args.cases {
            let mut r = rng.fork();
            run_case(gen_case(&mut r, nops), &mut out, c);
            c += 1;
        }
    }
    out.finish(RULE);
}
