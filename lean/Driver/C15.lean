import ElvisVerif.Model.IpGen
import ElvisVerif.Model.Dhcp
import Driver.Common
/-! Line-protocol handlers for C15: `c15` (address generator), `c15-dhcp` (DHCP message level). -/
namespace Driver.C15
open Elvis.IpGen

/-- `Ipv4Mask::count_ones` -/
def popcount (m : Nat) : Nat := (List.range 32).foldl (fun c i => if m.testBit i then c + 1 else c) 0

def showNet (n : Net) : String := s!"net {n.id}/{popcount n.mask}"

/-- `clone().fetch_net(len)` for every len 0..=32: an observable fingerprint of the free set -/
def probe (g : Gen) : String :=
  " ".intercalate <| (List.range 33).map fun len =>
    match fetchNet g (fromBitcount len) with
    | .ok (_, some n) => toString n.id
    | .ok (_, none) => "-"
    | .error e => "E:" ++ e

/-- drain a clone with `fetch_ip`, at most `limit` times -/
def drain : Nat → Gen → Nat → Nat → String
  | 0, _, cnt, sum => s!"n={cnt} sum={sum} more"
  | fuel + 1, g, cnt, sum =>
    match fetchIp g with
    | .ok (g', some a) => drain fuel g' (cnt + 1) ((sum + a) % 18446744073709551616)
    | .ok (_, none) => s!"n={cnt} sum={sum} end"
    | .error e => s!"n={cnt} sum={sum} err {e}"

def ctor (ws : List String) : Option (Except String Gen) :=
  match ws with
  | ["new", a, b] => do pure (.ok (new ((← a.toNat?), (← b.toNat?))))
  | ["newsub", ip, len] => do pure (newSub (Net.newShort (← ip.toNat?) (← len.toNat?)))
  | ["newsubne", ip, len] => do pure (newSubNoEnds (Net.newShort (← ip.toNat?) (← len.toNat?)))
  | ["all"] => some (.ok all)
  | ["none"] => some (.ok none_)
  | ["blockedout"] => some blockedOut
  | _ => none

def unit (g : Gen) (r : Except String Gen) : Option Gen × String :=
  match r with
  | .ok g' => (some g', "ok")
  | .error e => (some g, s!"err {e}")

def op (g : Gen) (ws : List String) : Option (Option Gen × String) :=
  match ws with
  | ["block", ip, len] => do pure (unit g (blockSubnet g (Net.newShort (← ip.toNat?) (← len.toNat?))))
  | ["blockres"] => some (unit g (blockReservedIps g))
  | ["retnet", ip, len] => do pure (unit g (returnSubnet g (Net.newShort (← ip.toNat?) (← len.toNat?))))
  | ["retip", ip] => do pure (unit g (returnIp g (← ip.toNat?)))
  | ["fetchip"] =>
    some <| match fetchIp g with
    | .ok (g', some a) => (some g', s!"ip {a}")
    | .ok (g', none) => (some g', "none")
    | .error e => (some g, s!"err {e}")
  | ["fetchnet", len] => do
    let len ← len.toNat?
    pure <| match fetchNet g (fromBitcount len) with
    | .ok (g', some n) => (some g', showNet n)
    | .ok (g', none) => (some g', "none")
    | .error e => (some g, s!"err {e}")
  | ["avail", ip, len] => do
    let n := Net.newShort (← ip.toNat?) (← len.toNat?)
    pure <| match isAvailable g n with
    | .ok b => (some g, toString b)
    | .error e => (some g, s!"err {e}")
  | ["probe"] => some (some g, probe g)
  | ["audit", limit] => do pure (some g, drain (← limit.toNat?) g 0 0)
  | _ => none

def step (st : Option Gen) (ws : List String) : Option Gen × String :=
  match ws with
  | ["case", id] => (none, s!"case {id}")
  | _ =>
    match ctor ws with
    | some (.ok g) => (some g, "ok")
    | some (.error e) => (st, s!"err {e}")
    | none =>
      match st with
      | none => (st, "bad-op")
      | some g =>
        match op g ws with
        | some r => r
        | none => (st, "bad-op")

/-! ### DHCP, message level -/
open Elvis.Dhcp in
def dhcpStep (st : Option Elvis.Dhcp.World) (ws : List String) : Option Elvis.Dhcp.World × String :=
  match ws with
  | ["case", id] => (none, s!"case {id}")
  | ["world", a, b, n] =>
    match a.toNat?, b.toNat?, n.toNat? with
    | some a, some b, some n => let w := Elvis.Dhcp.World.init (a, b) n; (some w, "ok " ++ w.summary)
    | _, _, _ => (st, "bad-op")
  | _ =>
    match st with
    | none => (st, "bad-op")
    | some w =>
      match Elvis.Dhcp.parseAct ws with
      | none => (st, "bad-op")
      | some act =>
        match Elvis.Dhcp.World.step w act with
        | .ok w' => (some w', "ok " ++ w'.summary)
        | .error e => (some w, s!"err {e} " ++ w.summary)

def dispatch (sub : String) (i o : IO.FS.Stream) : Option (IO Unit) :=
  if sub == "c15" then some (Driver.loop i o step none)
  else if sub == "c15-dhcp" then some (Driver.loop i o dhcpStep none)
  else none

end Driver.C15
