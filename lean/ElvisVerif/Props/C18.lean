import ElvisVerif.Lemmas.Checksum
/-!
# C18 — With checksums enabled, emitted checksums are valid and corruption is caught

Property theorems only.  Part 1 (this section): the algebra of the accumulator
(`Checksum::add_u16`, `as_u16`) against the RFC 1071 specification `Spec/Rfc1071.lean`.
Part 2 (below): the three codecs — emitted checksums verify, reference checksums are accepted,
corruption that changes the one's-complement sum is rejected.
-/
namespace Elvis.Ck
open Elvis.Rfc1071

/-! ## Part 1 — accumulator algebra -/

/-- end-around-carry addition is commutative -/
theorem c18_add_comm (a b : Nat) : addU16 a b = addU16 b a := addU16_comm a b

/-- … and associative on 16-bit values -/
theorem c18_add_assoc (a b c : Nat) (ha : a < 65536) (hb : b < 65536) (hc : c < 65536) :
    addU16 (addU16 a b) c = addU16 a (addU16 b c) := addU16_assoc a b c ha hb hc

/-- the accumulator stays a `u16`: the checked `sum + carry` of `add_u16` cannot overflow -/
theorem c18_add_lt (a b : Nat) (ha : a < 65536) (hb : b < 65536) : addU16 a b < 65536 :=
  addU16_lt a b ha hb

/-- **accumulator = RFC 1071 one's-complement sum**: after adding any list of 16-bit words the
    accumulator is exactly `onesSum` of the words (so ≡ Σ words mod 65535), and it is `0x0000`
    only if every word is zero -/
theorem c18_sum_spec (ws : List Nat) (hw : ∀ w ∈ ws, w < 65536) :
    ws.foldl addU16 0 = onesSum ws ∧
    (ws.foldl addU16 0) % 65535 = ws.sum % 65535 ∧
    (ws.foldl addU16 0 = 0 ↔ ∀ w ∈ ws, w = 0) := by
  have t := fold_tracks ws Tracks.zero hw
  simp only [Nat.zero_add] at t
  refine ⟨t.eq, t.2.1, ?_⟩
  rw [t.2.2]
  exact List.sum_eq_zero_iff_forall_eq_nat

/-- **order irrelevant**: any permutation of the words gives the same accumulator (encoder and
    decoder add header, pseudo header and payload in different orders) -/
theorem c18_fold_perm (a : Nat) (ws ws' : List Nat) (ha : a < 65536)
    (hw : ∀ w ∈ ws, w < 65536) (hp : ws.Perm ws') :
    ws.foldl addU16 a = ws'.foldl addU16 a := by
  have hw' : ∀ w ∈ ws', w < 65536 := fun w h => hw w (hp.mem_iff.mpr h)
  have t := fold_tracks ws (Tracks.of_lt ha) hw
  have t' := fold_tracks ws' (Tracks.of_lt ha) hw'
  rw [t.eq, t'.eq, hp.sum_nat]

/-- **grouping irrelevant**: summing two parts separately and adding the results equals summing
    the concatenation -/
theorem c18_fold_append (xs ys : List Nat) (hx : ∀ w ∈ xs, w < 65536) (hy : ∀ w ∈ ys, w < 65536) :
    (xs ++ ys).foldl addU16 0 = addU16 (xs.foldl addU16 0) (ys.foldl addU16 0) := by
  have tx := fold_tracks xs Tracks.zero hx
  have ty := fold_tracks ys Tracks.zero hy
  have txy := fold_tracks (xs ++ ys) Tracks.zero
    (fun w h => by rcases List.mem_append.mp h with h | h; exact hx w h; exact hy w h)
  have t2 := tx.add ty.lt
  simp only [Nat.zero_add] at tx ty txy t2
  rw [txy.eq, List.sum_append]
  obtain ⟨_, hy2, hy3⟩ := ty
  obtain ⟨h1, h2, h3⟩ := t2
  unfold onesSumOfTotal
  split
  · omega
  · split <;> omega

/-- `accumulate_remainder` adds the big-endian words of the bytes, an odd last byte padded with
    zero (RFC 1071 s4.1) -/
theorem c18_accumulate_remainder (bs : List UInt8) :
    accumulateRemainder true 0 bs = onesSum (wordsOf bs) := by
  have t := accumulateRemainder_tracks bs Tracks.zero
  simp only [Nat.zero_add] at t
  exact t.eq

/-- the emitted field is the RFC 1071 checksum up to the representation of zero … -/
theorem c18_as_u16_spec (ws : List Nat) (hw : ∀ w ∈ ws, w < 65536) :
    sameValue (asU16 true (ws.foldl addU16 0)) (checksum ws) := by
  have t := fold_tracks ws Tracks.zero hw
  simp only [Nat.zero_add] at t
  have := t.eq
  obtain ⟨h1, h2, h3⟩ := t
  unfold sameValue checksum onesSum asU16
  simp only [if_true]
  rw [← this]
  split <;> omega

/-- … and differs from it exactly when the sum is `0xffff`: the code emits `0xffff`, RFC 791 /
    RFC 9293 say `0x0000` (F-C18-1: both verify; the decoder must accept both) -/
theorem c18_as_u16_eq_rfc_iff (ws : List Nat) (hw : ∀ w ∈ ws, w < 65536) :
    asU16 true (ws.foldl addU16 0) = checksum ws ↔ onesSum ws ≠ 65535 := by
  have t := fold_tracks ws Tracks.zero hw
  simp only [Nat.zero_add] at t
  have := t.eq
  unfold checksum onesSum asU16 at *
  simp only [if_true]
  rw [← this]
  have := t.1
  split <;> omega

/-- a verifying word list: the accumulator over all words including the checksum is `0xffff` -/
theorem c18_verifies_iff (ws : List Nat) (hw : ∀ w ∈ ws, w < 65536) :
    verifies ws ↔ ws.foldl addU16 0 = 65535 := by
  unfold verifies; rw [(c18_sum_spec ws hw).1]

/-- appending the emitted checksum to the data makes it verify -/
theorem c18_emitted_verifies_words (ws : List Nat) (hw : ∀ w ∈ ws, w < 65536) :
    verifies (ws ++ [asU16 true (ws.foldl addU16 0)]) := by
  have hlt := asU16_lt true (ws.foldl addU16 0)
  rw [c18_verifies_iff _ (fun w h => by
    rcases List.mem_append.mp h with h | h
    · exact hw w h
    · simp at h; omega)]
  rw [List.foldl_append]
  simp only [List.foldl_cons, List.foldl_nil]
  exact addU16_asU16 _ (fold_tracks ws Tracks.zero hw).1

example : verifies [0x4500, 0x0014, 0x9ed7, 0, 0x1e11, 0xffff, 0x7f00, 1, 0x7f00, 1] := by decide
example : verifies [0x4500, 0x0014, 0x9ed7, 0, 0x1e11, 0x0000, 0x7f00, 1, 0x7f00, 1] := by decide

end Elvis.Ck
